#!/bin/sh
# Build the framework from files on disk only (offline): generated tables, the Lean library
# (model, specs, proofs, property theorems), the correspondence driver and the sanitised harness.
set -e
cd "$(dirname "$0")"
python3 translator/extract.py
cd lean
lake build Sb sbmodel 2>&1 | grep -v "^⚠\|^✔\|warning:\|^$\|Hint\|Note:\|\[apply\]\|^  " | tail -30 || true
lake build Sb sbmodel >/dev/null 2>&1
cd ..
python3 - <<'PY'
import sys
sys.path.insert(0, ".")
from vlib import core
b, lg = core.build_harness("san")
print("harness:", lg if b else "FAILED\n" + lg)
sys.exit(0 if b else 1)
PY
