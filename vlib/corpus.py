"""Hostile-input corpus shared by C03 and C06: fixtures, generated show files with all block kinds,
every prefix / single-byte boundary-value edit / structural and random mutation."""
import glob
import os

from vlib.skyb import make_file, block, rand_bytes, ap_crc32
from vlib.gen_traj import traj_block, yaw_block
from vlib.gen_lights import program
from vlib.gen_rth import plan

REPO = os.environ.get("SB_REPO", "/repo")
EDIT_VALUES = [0x00, 0x01, 0x7F, 0x80, 0xFF]


def fixtures():
    out = []
    for p in sorted(glob.glob(os.path.join(REPO, "test", "fixtures", "*.skyb"))):
        with open(p, "rb") as f:
            out.append((os.path.basename(p), f.read()))
    return out


def gen_show(rng, small=True):
    """a generated show file with a random subset of the four block kinds (+ comments)"""
    blocks = []
    kinds = rng.sample([1, 2, 4, 5, 3], rng.randint(1, 5))
    for k in kinds:
        if k == 1:
            b, _ = traj_block(rng, max_seg=6 if small else 40)
        elif k == 2:
            b = program(rng)
        elif k == 4:
            b, _, _ = plan(rng, well_formed=rng.random() < 0.8)
        elif k == 5:
            b, _ = yaw_block(rng, max_n=8 if small else 100)
        else:
            b = rand_bytes(rng, rng.randint(0, 6))
        blocks.append((k, b[:65535]))
    if rng.random() < 0.15:
        blocks.append((rng.choice([1, 2, 4, 5]), b""))  # empty block of a known type
    ver = rng.choice([1, 2, 2])
    return make_file(blocks, ver, ver == 2 and rng.random() < 0.4)


def refresh_crc(f):
    """recompute the checksum of a mutated v2 file so that the mutation reaches the block parsers"""
    if len(f) >= 10 and f[:4] == b"skyb" and f[4] == 2 and f[5] & 1:
        g = bytearray(f)
        g[6:10] = b"\0\0\0\0"
        g[6:10] = ap_crc32(g).to_bytes(4, "little")
        return bytes(g)
    return f


def mutations(rng, f, budget):
    """prefixes, single-byte edits, structural and random multi-byte mutations of one file"""
    out = []
    n = len(f)
    # prefixes
    cuts = range(n) if n <= budget else sorted(set(rng.randrange(n) for _ in range(budget)) | set(range(min(n, 24))))
    for c in cuts:
        out.append(f[:c])
    # single-byte boundary-value edits
    offs = range(n) if n * 7 <= 4 * budget else sorted(set(rng.randrange(n) for _ in range(budget // 2)) | set(range(min(n, 30))))
    for o in offs:
        for v in EDIT_VALUES + [(f[o] + 1) & 255, (f[o] - 1) & 255]:
            if v != f[o]:
                g = bytearray(f)
                g[o] = v
                out.append(refresh_crc(bytes(g)) if rng.random() < 0.7 else bytes(g))
    # multi-byte random mutations
    for _ in range(budget // 4):
        g = bytearray(f)
        r = rng.random()
        if r < 0.3 and n > 2:
            a = rng.randrange(n)
            b = min(n, a + rng.randint(1, 8))
            g[a:b] = rand_bytes(rng, b - a)
        elif r < 0.5 and n > 2:
            a = rng.randrange(n)
            del g[a:a + rng.randint(1, 6)]
        elif r < 0.7:
            a = rng.randrange(n + 1)
            g[a:a] = rand_bytes(rng, rng.randint(1, 6))
        elif r < 0.85 and n > 8:
            # splice a 16-bit field to an extreme value
            a = rng.randrange(n - 1)
            g[a:a + 2] = rng.choice([b"\xff\xff", b"\x00\x00", b"\xff\x7f", b"\x00\x80", b"\x01\x00"])
        else:
            g += rand_bytes(rng, rng.randint(1, 10))
        out.append(refresh_crc(bytes(g)) if rng.random() < 0.7 else bytes(g))
    return out


def random_strings(rng, count, maxlen=200):
    out = []
    for _ in range(count):
        n = rng.choice([0, 1, 2, 4, 5, 6, 9, 10, 11, rng.randint(0, maxlen)])
        s = rand_bytes(rng, n)
        if rng.random() < 0.6:
            s = (b"skyb" + bytes([rng.choice([1, 2, 2, 3])]) + s)[:max(n, 5)]
        out.append(s)
    return out
