"""Structured trajectories for C13 / C14 / C15: explicit control points per axis and segment."""
from vlib.gen_traj import i16, u16, f2b, b2f
from vlib.skyb import make_file

DEG_CODE = {1: 0, 2: 1, 4: 2, 8: 3}  # number of control points (incl. the inherited first) -> header code


def build(scale, start, segs, use_yaw=False):
    """start = (x, y, z, yaw) in int16 units; segs = list of (dur_ms, xs, ys, zs, ws): the *stored* control points per
    axis (0, 1, 3 or 7 values, int16 units).  Returns the trajectory block bytes."""
    out = bytearray([scale | (0x80 if use_yaw else 0)])
    for v in start:
        out += i16(v)
    for dur, xs, ys, zs, ws in segs:
        h = 0
        for sh, pts in zip((0, 2, 4, 6), (xs, ys, zs, ws)):
            h |= DEG_CODE[len(pts) + 1] << sh
        out.append(h)
        out += u16(dur)
        for pts in (xs, ys, zs, ws):
            for v in pts:
                out += i16(max(-32768, min(32767, int(v))))
    return bytes(out)


def skyb(block, rng=None):
    ver = 2 if (rng is None or rng.random() < 0.7) else 1
    return make_file([(1, block)], ver, ver == 2 and (rng is None or rng.random() < 0.5))


def clampi(v):
    return max(-32768, min(32767, int(round(v))))


def axis_points(rng, cur, kind, lo=-3000, hi=3000):
    """stored control points of one axis for a segment starting at `cur`; returns (points, new current)"""
    if kind == 0:
        return [], cur
    if kind == 1:
        e = rng.randint(lo, hi)
        return [e], e
    if kind == 2:
        p = [rng.randint(lo, hi) for _ in range(3)]
        r = rng.random()
        if r < 0.25:
            p[0] = cur  # zero start velocity
        if r < 0.15 or 0.25 <= r < 0.4:
            p[1] = p[2]  # zero end velocity
        return p, p[2]
    p = [rng.randint(lo, hi) for _ in range(7)]
    return p, p[6]


def well_conditioned_cubic(z0, p):
    """the 5% rule of the properties on the power-basis coefficients of the cubic Bezier z0,p0,p1,p2"""
    c1 = 3 * (p[0] - z0)
    c2 = 3 * (z0 - 2 * p[0] + p[1])
    c3 = p[2] - 3 * p[1] + 3 * p[0] - z0
    # a cubic encoding whose exact cubic coefficient vanishes (a degree-elevated line or parabola) is outside the
    # properties' domain: float rounding leaves a tiny non-zero leading coefficient and the closed-form solver is
    # ill-conditioned there (DESIGN.md, observations)
    return c3 != 0 and abs(c3) >= 0.05 * max(abs(c2), abs(c1))


def z_points(rng, cur, kind, lo, hi):
    for _ in range(200):
        p, e = axis_points(rng, cur, kind, lo, hi)
        if kind != 2 or well_conditioned_cubic(cur, p):
            return p, e
    return [hi], hi


def flight(rng, nseg, start, zkinds=(0, 1, 2), xykinds=(0, 1, 2), zrange=(-200, 3000), durs=None):
    """random flight: returns segs list and the end point"""
    x, y, z, w = start
    segs = []
    for _ in range(nseg):
        xs, x = axis_points(rng, x, rng.choice(xykinds))
        ys, y = axis_points(rng, y, rng.choice(xykinds))
        zs, z = z_points(rng, z, rng.choice(zkinds), zrange[0], zrange[1])
        d = rng.choice(durs or [1, 500, 1000, 2000, 5000, 10000, 60000, 65535, rng.randint(1, 20000)])
        segs.append((d, xs, ys, zs, []))
    return segs, (x, y, z, w)


def shape_pattern(z0, p):
    """sign pattern of the quantities the cubic touch test branches on (power basis of the Bezier z0,p0,p1,p2)"""
    c = 3 * (p[0] - z0)
    b = 3 * (z0 - 2 * p[0] + p[1])
    a = p[2] - 3 * p[1] + 3 * p[0] - z0
    sg = lambda v: (v > 0) - (v < 0)
    d1 = 3 * a + 2 * b + c
    crit = sg(c * 3 * a - b * b) * sg(a) if a != 0 else 0   # sign of c - b^2/(3a)
    return (sg(a), sg(b), sg(c), sg(d1), sg(b + 3 * a), crit, sg(3 * a + b + c))


def stratified_cubics(rng, tries, per_pattern=2, lo=-400, hi=2500):
    """cubic altitude shapes (start, 3 stored points) covering as many branch patterns of the touch test as possible"""
    seen = {}
    for _ in range(tries):
        z0 = rng.randint(0, 600)
        p = [z0 + rng.choice([0, 0, rng.randint(lo, hi)]), z0 + rng.randint(lo, hi), z0 + rng.randint(lo, hi)]
        if not well_conditioned_cubic(z0, p):
            continue
        if min(p) < -32000 or max(p) > 32000:
            continue
        k = shape_pattern(z0, p)
        if len(seen.setdefault(k, [])) < per_pattern:
            seen[k].append((z0, p))
    return [x for v in seen.values() for x in v]


def fb(x):
    return str(f2b(x))
