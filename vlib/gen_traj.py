"""Generators for trajectory / yaw blocks and query times (float32 bit patterns)."""
import struct

PINF = 0x7F800000
NINF = 0xFF800000


def f2b(x):
    return struct.unpack("<I", struct.pack("<f", x))[0]


def b2f(b):
    return struct.unpack("<f", struct.pack("<I", b))[0]


def next_up(b):
    """next float32 bit pattern toward +inf (b is a non-negative finite float's bits)"""
    return b + 1 if b < PINF else b


def next_down(b):
    if b == 0:
        return 0x80000001
    if b & 0x80000000:
        return b + 1
    return b - 1


def i16(v):
    return struct.pack("<h", v)


def u16(v):
    return struct.pack("<H", v)


def pick_i16(rng):
    r = rng.random()
    if r < 0.12:
        return rng.choice([32767, -32768, -32767, 0, 1, -1])
    if r < 0.5:
        return rng.randint(-300, 300)
    return rng.randint(-32768, 32767)


def pick_angle(rng):
    r = rng.random()
    if r < 0.2:
        return rng.choice([0, 3599, 3600, 3601, -1, -3600, -3601, 32767, -32768, 1800, 7200])
    return rng.randint(-32768, 32767)


def pick_dur(rng, allow_zero=False):
    r = rng.random()
    if allow_zero and r < 0.1:
        return 0
    if r < 0.35:
        return rng.choice([1, 2, 999, 1000, 1001, 65535, 60000, 10, 100])
    if r < 0.7:
        return rng.randint(1, 5000)
    return rng.randint(1, 65535)


def traj_block(rng, nseg=None, scale=None, degs=None, allow_zero=False, max_seg=40):
    """returns (bytes, list of segment durations)"""
    if scale is None:
        scale = rng.choice([1, 1, 10, 127, 0, rng.randint(1, 127), rng.randint(1, 127)])
    flags = 0x80 if rng.random() < 0.5 else 0
    out = bytearray([scale | flags])
    out += i16(pick_i16(rng)) + i16(pick_i16(rng)) + i16(pick_i16(rng)) + i16(pick_angle(rng))
    if nseg is None:
        nseg = rng.choice([0, 1, 1, 2, 3, 5, 8, rng.randint(0, max_seg)])
    durs = []
    for _ in range(nseg):
        if degs is None:
            r = rng.random()
            if r < 0.25:
                h = rng.choice([0x00, 0x55, 0xAA, 0xFF, 0x15, 0x2A, 0x3F])
            else:
                h = rng.getrandbits(8)
                if rng.random() < 0.6:
                    # keep degree 7 rare-ish so that blocks stay short
                    for sh in (0, 2, 4, 6):
                        if (h >> sh) & 3 == 3 and rng.random() < 0.6:
                            h = (h & ~(3 << sh)) | (rng.choice([0, 1, 2]) << sh)
        else:
            h = 0
            for sh, d in zip((0, 2, 4, 6), degs):
                h |= d << sh
        d = pick_dur(rng, allow_zero)
        durs.append(d)
        out.append(h)
        out += u16(d)
        for sh in (0, 2, 4):
            for _ in range((1 << ((h >> sh) & 3)) - 1):
                out += i16(pick_i16(rng))
        for _ in range((1 << ((h >> 6) & 3)) - 1):
            out += i16(pick_angle(rng))
    return bytes(out), durs


def probe_times(rng, durs, n_interior=2, zero_dur_ok=False):
    """float32 bit patterns: -inf, <0, 0, every boundary (exact, ±1ulp), interior points, end, beyond, +inf.
    Instants of zero-duration segments are skipped unless zero_dur_ok."""
    ts = [NINF, f2b(-1.5), f2b(-0.0), 0, f2b(1e-9)]
    acc = 0
    bounds = [0]
    zero_instants = set()
    for d in durs:
        if d == 0:
            zero_instants.add(acc)
        acc += d
        bounds.append(acc)
    for k, ms in enumerate(bounds):
        b = f2b(ms / 1000.0)
        for bb in (next_down(b), b, next_up(b)):
            ts.append(bb)
    for k in range(len(durs)):
        if durs[k] == 0:
            continue
        for _ in range(n_interior):
            fr = rng.choice([0.5, 0.25, 1 / 3, 0.9, 0.999, 0.001, rng.random()])
            ts.append(f2b((bounds[k] + fr * durs[k]) / 1000.0))
    end = bounds[-1] / 1000.0
    ts += [f2b(end + 0.001), f2b(end + 1.0), f2b(end * 2 + 10), f2b(1e9), f2b(3.0e38), PINF]
    if not zero_dur_ok and zero_instants:
        bad = set()
        for ms in zero_instants:
            b = f2b(ms / 1000.0)
            bad |= {next_down(b), b, next_up(b)}
        ts = [t for t in ts if t not in bad]
    return ts


def yaw_block(rng, n=None, max_n=200):
    flags = rng.getrandbits(8) if rng.random() < 0.5 else rng.choice([0, 1])
    off = rng.choice([32767, -32768, 0, rng.randint(-32768, 32767)])
    out = bytearray([flags]) + i16(off)
    if n is None:
        n = rng.choice([0, 1, 2, 3, 5, rng.randint(0, 30), rng.randint(0, max_n)])
    durs = []
    for _ in range(n):
        d = pick_dur(rng)
        ch = rng.choice([32767, -32768, 0, rng.randint(-32768, 32767), rng.randint(-3600, 3600)])
        durs.append(d)
        out += u16(d) + i16(ch)
    return bytes(out), durs
