"""Shared machinery of ./check : building, auditing, running the correspondence, evidence."""
import concurrent.futures as cf
import fcntl
import glob
import hashlib
import json
import os
import random
import re
import shutil
import subprocess
import sys
import time

VERIF = os.path.dirname(os.path.dirname(os.path.abspath(__file__)))
REPO = os.environ.get("SB_REPO", "/repo")
LEAN = os.path.join(VERIF, "lean")
WORK = os.path.join(VERIF, ".work")
EVID = os.path.join(VERIF, "evidence")
REPLAYS = os.path.join(VERIF, "replays")
NCPU = os.cpu_count() or 4

ALLOWED_AXIOMS = {"propext", "Quot.sound", "Classical.choice"}
FORBIDDEN = re.compile(r"\bsorry\b|\badmit\b|^\s*axiom\s|\bnative_decide\b|\bbv_decide\b|\bimplemented_by\b|\bunsafe\s|maxHeartbeats\s+0\b", re.M)

SAN_FLAGS = ["-O1", "-g", "-DNDEBUG", "-fno-omit-frame-pointer",
             "-fsanitize=address,undefined,float-cast-overflow", "-fno-sanitize-recover=all"]


def log(*a):
    print(*a, flush=True)


class Lock:
    def __init__(self, name):
        os.makedirs(WORK, exist_ok=True)
        self.path = os.path.join(WORK, name + ".lock")

    def __enter__(self):
        self.f = open(self.path, "w")
        fcntl.flock(self.f, fcntl.LOCK_EX)
        return self

    def __exit__(self, *a):
        fcntl.flock(self.f, fcntl.LOCK_UN)
        self.f.close()


# --------------------------------------------------------------------------------------------
# translator + lean build
# --------------------------------------------------------------------------------------------

def run_translator():
    """returns (ok, message)"""
    p = subprocess.run([sys.executable, os.path.join(VERIF, "translator", "extract.py")],
                       capture_output=True, text=True, env=dict(os.environ, SB_REPO=REPO))
    return p.returncode == 0, (p.stdout + p.stderr).strip()


def lake_build(targets, timeout=3000):
    """returns (ok, log)"""
    with Lock("lake"):
        p = subprocess.run(["lake", "build"] + list(targets), cwd=LEAN, capture_output=True, text=True, timeout=timeout)
    return p.returncode == 0, p.stdout + p.stderr


def driver_path():
    return os.path.join(LEAN, ".lake", "build", "bin", "sbmodel")


def strip_lean_comments(src):
    # remove nested block comments and line comments
    out = []
    i, n, depth = 0, len(src), 0
    while i < n:
        if src.startswith("/-", i):
            depth += 1
            i += 2
        elif depth and src.startswith("-/", i):
            depth -= 1
            i += 2
        elif depth:
            i += 1
        elif src.startswith("--", i):
            j = src.find("\n", i)
            i = n if j < 0 else j
        else:
            out.append(src[i])
            i += 1
    return "".join(out)


def audit_sources():
    """grep the whole Lean development for forbidden constructs; returns list of hits"""
    hits = []
    for path in glob.glob(os.path.join(LEAN, "Sb", "**", "*.lean"), recursive=True) + \
            glob.glob(os.path.join(LEAN, "Driver", "*.lean")):
        src = strip_lean_comments(open(path).read())
        # string literals may mention the words; drop them
        src = re.sub(r'"(?:\\.|[^"\\])*"', '""', src)
        for m in FORBIDDEN.finditer(src):
            if os.sep + "Driver" + os.sep in path and "partial" in m.group(0):
                continue
            hits.append(f"{os.path.relpath(path, LEAN)}: {m.group(0).strip()}")
    return hits


def audit_axioms(module, theorems):
    """#print axioms for each theorem; returns (ok, {thm: [axioms]}, log)"""
    os.makedirs(WORK, exist_ok=True)
    tmp = os.path.join(WORK, f"axioms-{os.getpid()}-{module.replace('.', '_')}.lean")
    with open(tmp, "w") as f:
        f.write(f"import {module}\n")
        for t in theorems:
            f.write(f"#print axioms {t}\n")
    try:
        p = subprocess.run(["lake", "env", "lean", tmp], cwd=LEAN, capture_output=True, text=True, timeout=900)
    finally:
        try:
            os.remove(tmp)
        except OSError:
            pass
    out = p.stdout + p.stderr
    res = {}
    # "'name' depends on axioms: [a, b]"  or  "'name' does not depend on any axioms"
    for m in re.finditer(r"'([^']+)' depends on axioms: \[([^\]]*)\]", out, re.S):
        res[m.group(1)] = [a.strip() for a in m.group(2).replace("\n", " ").split(",") if a.strip()]
    for m in re.finditer(r"'([^']+)' does not depend on any axioms", out):
        res[m.group(1)] = []
    ok = p.returncode == 0
    bad = []
    for t in theorems:
        key = t if t in res else next((k for k in res if k.endswith("." + t) or t.endswith("." + k)), None)
        if key is None:
            ok = False
            bad.append(f"{t}: not found")
            continue
        extra = [a for a in res[key] if a not in ALLOWED_AXIOMS]
        if extra:
            ok = False
            bad.append(f"{t}: disallowed axioms {extra}")
    return ok, res, (out if not ok else "") + "\n".join(bad)


# --------------------------------------------------------------------------------------------
# harness build
# --------------------------------------------------------------------------------------------

def _repo_sources():
    cs, cpps = [], []
    for root, _, files in os.walk(os.path.join(REPO, "src")):
        if os.path.basename(root) == "tools":
            continue
        for fn in sorted(files):
            if fn.endswith(".c"):
                cs.append(os.path.join(root, fn))
            elif fn.endswith(".cpp"):
                cpps.append(os.path.join(root, fn))
    return sorted(cs), sorted(cpps)


def _tree_hash(paths, extra=""):
    h = hashlib.sha256()
    h.update(extra.encode())
    for p in sorted(paths):
        h.update(p.encode())
        try:
            with open(p, "rb") as f:
                h.update(f.read())
        except OSError:
            h.update(b"<missing>")
    return h.hexdigest()[:16]


def build_harness(variant="san", extra_flags=(), extra_link=(), harness_files=None):
    """Build the harness + the library from /repo's current working tree.
    returns (path or None, log).  Cached under .work/hb-<hash>."""
    cs, cpps = _repo_sources()
    hdir = os.path.join(VERIF, "harness")
    hsrc = sorted(glob.glob(os.path.join(hdir, "*.cpp"))) if harness_files is None else \
        [os.path.join(hdir, f) for f in harness_files]
    if variant != "wrap":
        # the allocation ledger needs the linker's --wrap; it is only part of the "wrap" variant
        hsrc = [f for f in hsrc if os.path.basename(f) not in ("alloc_wrap.cpp", "ops_alloc.cpp")]
    hdrs = glob.glob(os.path.join(REPO, "include", "**", "*.h"), recursive=True) + \
        glob.glob(os.path.join(REPO, "src", "**", "*.h"), recursive=True) + \
        glob.glob(os.path.join(REPO, "src", "**", "*.hpp"), recursive=True) + \
        glob.glob(os.path.join(hdir, "*.hpp"))
    flags = SAN_FLAGS + list(extra_flags)
    key = _tree_hash(cs + cpps + hsrc + hdrs + [os.path.abspath(__file__)], variant + " ".join(flags) + " ".join(extra_link))
    out_dir = os.path.join(WORK, f"hb-{variant}-{key}")
    binp = os.path.join(out_dir, "sbh")
    with Lock("harness-" + variant):
        if os.path.exists(binp):
            return binp, "cached"
        # drop older builds of this variant
        for old in glob.glob(os.path.join(WORK, f"hb-{variant}-*")):
            shutil.rmtree(old, ignore_errors=True)
        os.makedirs(out_dir, exist_ok=True)
        inc = ["-I" + os.path.join(REPO, "include"), "-I" + os.path.join(REPO, "src"), "-I" + hdir]
        jobs = []
        for i, src in enumerate(cs):
            jobs.append((["gcc", "-std=gnu99"] + flags + inc + ["-c", src, "-o", os.path.join(out_dir, f"c{i}.o")]))
        for i, src in enumerate(cpps):
            jobs.append((["g++", "-std=gnu++11"] + flags + inc + ["-c", src, "-o", os.path.join(out_dir, f"x{i}.o")]))
        for i, src in enumerate(hsrc):
            jobs.append((["g++", "-std=gnu++17"] + flags + ["-fno-sanitize=enum"] + inc + ["-c", src, "-o", os.path.join(out_dir, f"h{i}.o")]))
        logs = []
        ok = True

        def run(cmd):
            p = subprocess.run(cmd, capture_output=True, text=True)
            return p.returncode, " ".join(cmd[-4:]) + "\n" + p.stdout + p.stderr

        with cf.ThreadPoolExecutor(NCPU) as ex:
            for rc, lg in ex.map(run, jobs):
                if rc != 0:
                    ok = False
                    logs.append(lg)
        if ok:
            objs = sorted(glob.glob(os.path.join(out_dir, "*.o")))
            cmd = ["g++"] + flags + objs + list(extra_link) + ["-lm", "-o", binp + ".tmp"]
            p = subprocess.run(cmd, capture_output=True, text=True)
            if p.returncode != 0:
                ok = False
                logs.append(p.stdout + p.stderr)
            else:
                os.rename(binp + ".tmp", binp)
        for o in glob.glob(os.path.join(out_dir, "*.o")):
            os.remove(o)
        if not ok:
            shutil.rmtree(out_dir, ignore_errors=True)
            return None, "\n".join(logs)
        return binp, "built"


# --------------------------------------------------------------------------------------------
# running cases
# --------------------------------------------------------------------------------------------

SAN_ENV = {
    "ASAN_OPTIONS": "detect_leaks=0:abort_on_error=0:allocator_may_return_null=1:malloc_context_size=8",
    "UBSAN_OPTIONS": "print_stacktrace=1:halt_on_error=1",
}


def _crash_summary(stderr):
    """the sanitizer's headline plus the first frames inside the library"""
    lines = stderr.split("\n")
    keep = []
    for i, l in enumerate(lines):
        if "ERROR: AddressSanitizer" in l or "runtime error:" in l or "SUMMARY:" in l or "LeakSanitizer" in l:
            keep.append(l.strip()[:300])
        elif re.match(r"\s*#\d+ ", l) and ("/repo/" in l) and len(keep) < 12:
            keep.append(l.strip()[:200])
    return " || ".join(keep)[:2500]


def _run_harness_chunk(binp, case_path, ans_path, ncases, env_extra=None):
    """Run the harness over a case file with restart-after-crash. Writes ans_path with exactly
    one line per case. Returns dict id->stderr excerpt for crashed cases."""
    env = dict(os.environ)
    env.update(SAN_ENV)
    if env_extra:
        env.update(env_extra)
    ids = []
    with open(case_path) as f:
        for line in f:
            t = line.split(None, 1)
            if t:
                ids.append(t[0])
    crashes = {}
    done = 0
    with open(ans_path, "w") as out:
        while done < len(ids):
            p = subprocess.run([binp, case_path, str(done)], capture_output=True, text=True, env=env, errors="replace")
            good = 0
            last = ""
            for l in p.stdout.split("\n"):
                t = l.split(None, 1)
                if not t:
                    continue
                if done + good < len(ids) and t[0] == ids[done + good]:
                    out.write(l + "\n")
                    last = l
                    good += 1
                else:
                    break
            done += good
            if done >= len(ids):
                break
            if good > 0 and last.endswith(" TIMEOUT"):
                continue  # watchdog answered for that case and ended the process: restart after it
            # the process ended before answering case `done`: it crashed there
            cid = ids[done]
            crashes[cid] = _crash_summary(p.stderr or "") or f"exit status {p.returncode}"
            out.write(f"{cid} CRASH\n")
            done += 1
    return crashes


DRIVER_OVERRIDE = os.environ.get("VERIF_DRIVER") or None   # development only: another build of the driver
ORACLE_UNCERTIFIED = []   # diagnostic lines of the driver: oracle answers used without a certificate


def _run_driver(case_path, ans_path):
    # the model is total and fuel-bounded; the timeout only guards against a pathological case list so that no
    # orphan driver process survives a check that is interrupted
    limit = int(os.environ.get("VERIF_DRIVER_TIMEOUT", "3600"))
    try:
        p = subprocess.run([DRIVER_OVERRIDE or driver_path(), case_path, ans_path], capture_output=True, text=True, errors="replace", timeout=limit)
    except subprocess.TimeoutExpired as e:
        out = e.stdout.decode("utf-8", "replace") if isinstance(e.stdout, bytes) else (e.stdout or "")
        p = subprocess.CompletedProcess(e.cmd, 124, out, f"driver timed out after {limit} s")
    res = []
    for l in (p.stderr or "").split("\n"):
        if l.startswith("ORACLE-UNCERTIFIED"):
            ORACLE_UNCERTIFIED.append(l[:400])
    for l in p.stdout.split("\n"):
        if not l.strip():
            continue
        t = l.split(None, 2)
        cid, verdict = t[0], (t[1] if len(t) > 1 else "BADCASE")
        rest = t[2] if len(t) > 2 else ""
        res.append((cid, verdict, rest))
    if p.returncode != 0:
        res.append(("driver", "BADCASE", "driver exit " + str(p.returncode) + " " + p.stderr[-500:]))
    return res


def run_cases(cases, binp, label, jobs=None, env_extra=None, keep_dir=None):
    """cases: list of 'op args…' strings (ids are assigned here).
    returns list of dicts {id, case, verdict, detail}"""
    jobs = jobs or NCPU
    rdir = os.path.join(WORK, f"run-{os.getpid()}-{label}")
    os.makedirs(rdir, exist_ok=True)
    n = len(cases)
    nchunks = max(1, min(jobs, (n + 199) // 200))
    chunks = [[] for _ in range(nchunks)]
    for i, c in enumerate(cases):
        chunks[i % nchunks].append((f"c{i}", c))
    results = {}
    crash_info = {}

    def work(k):
        cp = os.path.join(rdir, f"cases{k}.txt")
        ap = os.path.join(rdir, f"ans{k}.txt")
        with open(cp, "w") as f:
            for cid, c in chunks[k]:
                f.write(f"{cid} {c}\n")
        cr = _run_harness_chunk(binp, cp, ap, len(chunks[k]), env_extra)
        return cr, _run_driver(cp, ap)

    try:
        with cf.ThreadPoolExecutor(nchunks) as ex:
            for cr, res in ex.map(work, range(nchunks)):
                crash_info.update(cr)
                for cid, verdict, rest in res:
                    results[cid] = (verdict, rest)
    finally:
        if keep_dir is None:
            shutil.rmtree(rdir, ignore_errors=True)
    out = []
    for i, c in enumerate(cases):
        cid = f"c{i}"
        verdict, rest = results.get(cid, ("BADCASE", "no verdict"))
        if cid in crash_info:
            rest = rest + " | stderr: " + crash_info[cid][-1500:]
        out.append({"id": cid, "case": c, "verdict": verdict, "detail": rest})
    for k in results:
        if k == "driver":
            out.append({"id": "driver", "case": "", "verdict": "BADCASE", "detail": results[k][1]})
    return out


# --------------------------------------------------------------------------------------------
# known findings
# --------------------------------------------------------------------------------------------

def load_known_findings():
    p = os.path.join(VERIF, "known_findings.json")
    if not os.path.exists(p):
        return []
    with open(p) as f:
        return json.load(f).get("findings", [])


# --------------------------------------------------------------------------------------------
# evidence
# --------------------------------------------------------------------------------------------

def write_evidence(pid, data):
    os.makedirs(EVID, exist_ok=True)
    p = os.path.join(EVID, f"{pid}.json")
    tmp = p + ".tmp"
    with open(tmp, "w") as f:
        json.dump(data, f, indent=1, sort_keys=True)
    os.replace(tmp, p)


def write_replay(pid, seed, n, text):
    os.makedirs(REPLAYS, exist_ok=True)
    p = os.path.join(REPLAYS, f"{pid}-{seed}-{n}.case")
    with open(p, "w") as f:
        f.write(text)
    return p


def rng_for(seed, salt):
    return random.Random(f"{seed}:{salt}")


# --------------------------------------------------------------------------------------------
# leanchecker, trusted base, fallback driver
# --------------------------------------------------------------------------------------------

TRUSTED_BASE = [
    "Lean 4.33.0 kernel (thorough tier: re-checked by leanchecker)",
    "axioms allowed: propext, Quot.sound, Classical.choice (audited with #print axioms on every run)",
    "translator/extract.py (tables and constants from /repo source into Sb/Generated/Tables.lean)",
    "hand-written model Sb/Model/*.lean tied to the code by the correspondence run (harness/*.cpp, vlib/, Driver/Main.lean, Lean compiler+runtime)",
    "gcc/g++ 12 with ASan+UBSan as the monitor of the real library",
]


def leanchecker(modules):
    logs = []
    ok = True
    with Lock("lake"):
        for m in modules:
            p = subprocess.run(["lake", "env", "leanchecker", m], cwd=LEAN, capture_output=True, text=True, timeout=3000)
            if p.returncode != 0:
                ok = False
                logs.append(m + ": " + p.stdout[-1500:] + p.stderr[-1500:])
    return ok, "\n".join(logs)


def tables_differ_from_good():
    good = os.path.join(LEAN, "Generated.good", "Tables.lean")
    cur = os.path.join(LEAN, "Sb", "Generated", "Tables.lean")
    try:
        return open(good).read() != open(cur).read()
    except OSError:
        return True


def build_fallback_driver():
    """Build the driver against the last good tables (lean/Generated.good/Tables.lean) in a
    scratch copy, so that the search for a failing input has an oracle that does not follow a
    changed table.  Returns the path of the binary or None."""
    good = os.path.join(LEAN, "Generated.good", "Tables.lean")
    if not os.path.exists(good):
        return None
    scratch = os.path.join(WORK, f"fallback-{os.getpid()}")
    outdir = os.path.join(WORK, "fallback-bin")
    try:
        shutil.copytree(LEAN, scratch, ignore=shutil.ignore_patterns(".lake", "Generated.good"))
        shutil.copy(good, os.path.join(scratch, "Sb", "Generated", "Tables.lean"))
        p = subprocess.run(["lake", "build", "sbmodel"], cwd=scratch, capture_output=True, text=True, timeout=3000)
        src = os.path.join(scratch, ".lake", "build", "bin", "sbmodel")
        if p.returncode == 0 and os.path.exists(src):
            os.makedirs(outdir, exist_ok=True)
            dst = os.path.join(outdir, "sbmodel")
            shutil.copy(src, dst)
            return dst
        return None
    finally:
        shutil.rmtree(scratch, ignore_errors=True)
