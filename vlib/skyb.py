"""Builders for .skyb files and blocks (independent of the library: bit-serial CRC)."""


def ap_crc32(data, crc=0):
    for b in data:
        crc ^= b
        for _ in range(8):
            crc = (crc >> 1) ^ 0xEDB88320 if crc & 1 else crc >> 1
    return crc


_TAB = []
for _i in range(256):
    _c = _i
    for _ in range(8):
        _c = (_c >> 1) ^ 0xEDB88320 if _c & 1 else _c >> 1
    _TAB.append(_c)
_TOP = {t >> 24: i for i, t in enumerate(_TAB)}


def forge_tail(prefix, target):
    """four bytes X with ap_crc32(prefix + X) == target (the register is run backwards through four zero bytes)"""
    s = ap_crc32(prefix)
    u = target
    for _ in range(4):
        idx = _TOP[u >> 24]
        u = (((u ^ _TAB[idx]) << 8) & 0xFFFFFFFF) | idx
    return (u ^ s).to_bytes(4, "little")


def block(btype, body):
    body = bytes(body)
    assert len(body) <= 65535
    return bytes([btype, len(body) & 255, len(body) >> 8]) + body


def make_file(blocks, version=1, checksum=False, features=None):
    """blocks: list of (type, body) or raw bytes"""
    payload = b"".join(b if isinstance(b, (bytes, bytearray)) else block(*b) for b in blocks)
    if version == 1:
        return b"skyb\x01" + payload
    feat = (1 if checksum else 0) if features is None else features
    if feat & 1:
        f = bytearray(b"skyb" + bytes([version, feat]) + b"\0\0\0\0" + payload)
        c = ap_crc32(f)
        f[6:10] = c.to_bytes(4, "little")
        return bytes(f)
    return b"skyb" + bytes([version, feat]) + payload


def hx(b):
    return bytes(b).hex() or "-"


def rand_bytes(rng, n):
    return bytes(rng.getrandbits(8) for _ in range(n))
