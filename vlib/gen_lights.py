"""Grammar-based generator of light programs in which every loop iteration and every jump cycle
consumes time, plus a small timeline interpreter used only to pick interesting timestamps."""

END, NOP, SLEEP, WAIT_UNTIL, SET_COLOR, SET_GRAY, SET_BLACK, SET_WHITE = range(8)
FADE_COLOR, FADE_GRAY, FADE_BLACK, FADE_WHITE, LOOP_BEGIN, LOOP_END, RESET_CLOCK, UNUSED = range(8, 16)
SET_CH, FADE_CH, JUMP, TRIG_JUMP, SET_PYRO, SET_PYRO_ALL = range(16, 22)


def varint(n):
    out = bytearray()
    while True:
        b = n & 0x7F
        n >>= 7
        if n:
            out.append(b | 0x80)
        else:
            out.append(b)
            return bytes(out)


def pick_dur(rng, positive=False):
    r = rng.random()
    if not positive and r < 0.18:
        return 0
    if r < 0.6:
        return rng.randint(1, 5)
    if r < 0.85:
        return rng.randint(1, 100)
    if r < 0.97:
        return rng.choice([127, 128, 129, 16383, 16384, 3000])
    return rng.choice([1 << 21, (1 << 28) + 5, 1 << 40])


def timed_cmd(rng, positive=False):
    """a command that carries a duration; returns bytes"""
    d = pick_dur(rng, positive)
    k = rng.choice([SLEEP, SET_COLOR, SET_GRAY, SET_BLACK, SET_WHITE, FADE_COLOR, FADE_GRAY, FADE_BLACK, FADE_WHITE,
                    FADE_COLOR, FADE_COLOR, SET_COLOR, SET_CH, FADE_CH])
    if k in (SET_COLOR, FADE_COLOR):
        return bytes([k, rng.getrandbits(8), rng.getrandbits(8), rng.getrandbits(8)]) + varint(d)
    if k in (SET_GRAY, FADE_GRAY):
        return bytes([k, rng.getrandbits(8)]) + varint(d)
    if k in (SET_CH, FADE_CH):
        return bytes([k, rng.getrandbits(8) & 7, rng.getrandbits(8) & 7, rng.getrandbits(8) & 7]) + varint(d)
    return bytes([k]) + varint(d)


def untimed_cmd(rng):
    k = rng.choice([NOP, SET_PYRO, SET_PYRO, SET_PYRO_ALL, RESET_CLOCK, TRIG_JUMP, WAIT_UNTIL, WAIT_UNTIL])
    if k == SET_PYRO:
        return bytes([k, rng.getrandbits(8)])
    if k == SET_PYRO_ALL:
        return bytes([k, rng.getrandbits(8)])
    if k == TRIG_JUMP:
        p = rng.getrandbits(8)
        if p & 0x30:
            return bytes([k, p]) + varint(rng.randint(0, 300))
        return bytes([k, p])
    if k == WAIT_UNTIL:
        return bytes([k]) + varint(rng.choice([0, 1, 5, 50, 200, rng.randint(0, 400)]))
    return bytes([k])


def body(rng, depth, maxlen):
    """a command sequence with positive total duration on every pass"""
    out = bytearray()
    n = rng.randint(1, maxlen)
    have_positive = False
    for _ in range(n):
        r = rng.random()
        if r < 0.18 and depth < 6:
            cnt = rng.choice([1, 2, 2, 3, 255]) if depth > 0 or rng.random() < 0.9 else 0
            out += bytes([LOOP_BEGIN, cnt]) + body(rng, depth + 1, max(1, maxlen // 2)) + bytes([LOOP_END])
            have_positive = True
        elif r < 0.4:
            out += untimed_cmd(rng)
        else:
            c = timed_cmd(rng)
            out += c
    # guarantee progress on every pass through this body
    out += timed_cmd(rng, positive=True) if not have_positive or rng.random() < 0.7 else b""
    if not have_positive:
        pass
    return bytes(out)


def program(rng):
    p = bytearray(body(rng, 0, rng.choice([2, 4, 8, 14])))
    r = rng.random()
    wrap = rng.random() < 0.1          # an infinite loop around everything: addresses shift by 2, one LOOP_END behind
    shift, behind = (2, 1) if wrap else (0, 0)
    if r < 0.12:
        # backward jump forming a time-consuming cycle (the body always ends in / contains a positive command)
        p = bytearray(timed_cmd(rng, positive=True)) + p
        p += bytes([JUMP]) + varint(0 if rng.random() < 0.5 else len(timed_cmd(rng, True)) * 0)
    elif r < 0.2:
        p += bytes([JUMP]) + varint(len(p) + 40 + rng.randint(0, 10))  # out of range: END past the end
    elif r < 0.26:
        p += bytes([JUMP]) + varint(rng.choice([1 << 31, (1 << 31) - 1, 1 << 40]))  # invalid address
    elif r < 0.34:
        p += bytes([rng.choice([15, 22, 23, 0x7F, 0xFF])])  # unknown opcode
    elif r < 0.42:
        p += bytes([END])
    elif r < 0.5:
        # truncated command at the very end
        c = timed_cmd(rng)
        p += c[:rng.randint(1, len(c))]
    elif r < 0.6:
        # a jump in the middle whose target is the end of the program or beyond it (the next read yields END: what follows the
        # jump never runs), or exactly the command behind the jump (a jump that changes nothing but the loop stack)
        q = body(rng, 0, rng.choice([1, 2, 4]))
        mode = rng.choice(["len", "len", "len+1", "far", "next"])
        for w in (1, 2, 3):
            total = shift + len(p) + 1 + w + len(q) + behind
            a = {"len": total, "len+1": total + 1, "far": total + rng.choice([2, 64, 127, 128, 5000]), "next": shift + len(p) + 1 + w}[mode]
            if len(varint(a)) == w:
                p += bytes([JUMP]) + varint(a) + q
                break
    if wrap:
        # infinite loop around everything
        p = bytearray([LOOP_BEGIN, 0]) + p + bytearray([LOOP_END])
    return bytes(p)


def event_times(prog, limit_ms=1 << 24, max_steps=3000):
    """virtual-clock execution to find instants at which commands start (for timestamp selection only)"""
    times = []
    pc = 0
    T = 0
    origin = 0
    stack = []
    n = len(prog)

    def nb():
        nonlocal pc
        if pc < n:
            b = prog[pc]
            pc += 1
            return b
        return 0

    def vi():
        r = 0
        sh = 0
        while True:
            b = nb()
            if sh < 64:
                r |= (b & 0x7F) << sh
                sh += 7
            if not b & 0x80:
                return r

    steps = 0
    while steps < max_steps and T < limit_ms:
        steps += 1
        times.append(T)
        c = nb()
        if c == END or c >= 22 or c == UNUSED:
            break
        if c in (SLEEP, SET_BLACK, SET_WHITE, FADE_BLACK, FADE_WHITE):
            T += 20 * vi()
        elif c in (SET_GRAY, FADE_GRAY):
            nb()
            T += 20 * vi()
        elif c in (SET_COLOR, FADE_COLOR, SET_CH, FADE_CH):
            nb(); nb(); nb()
            T += 20 * vi()
        elif c == WAIT_UNTIL:
            T = max(T, origin + 20 * vi())
        elif c == LOOP_BEGIN:
            it = nb()
            if len(stack) < 4:
                stack.append([pc, it])
        elif c == LOOP_END:
            if stack:
                top = stack[-1]
                if top[1] == 0:
                    pc = top[0]
                elif top[1] == 1:
                    stack.pop()
                else:
                    top[1] -= 1
                    pc = top[0]
        elif c == RESET_CLOCK:
            origin = T
        elif c == JUMP:
            a = vi()
            if a < (1 << 31) - 1:
                pc = a
                stack = []
            else:
                break
        elif c == TRIG_JUMP:
            p = nb()
            if p & 0x30:
                a = vi()
                if a >= (1 << 31) - 1:
                    break
        elif c in (SET_PYRO, SET_PYRO_ALL):
            nb()
    return times


def timestamps(rng, prog, k=12):
    ev = sorted(set(t for t in event_times(prog) if t < (1 << 24)))
    cand = {0, 1, 19, 20, 21, (1 << 24) - 1}
    for t in ev[:60] + ev[-3:]:
        cand |= {t, max(0, t - 1), t + 1}
    for a, b in zip(ev, ev[1:]):
        if b - a > 2:
            cand.add(a + (b - a) // 3)
            cand.add(a + rng.randint(1, b - a - 1))
    if ev:
        cand |= {ev[-1] + 59999, ev[-1] + 60000, ev[-1] + 60001, ev[-1] + 123457}
    cand = sorted(t for t in cand if 0 <= t < (1 << 24))
    if len(cand) > k:
        cand = sorted(rng.sample(cand, k))
    return cand
