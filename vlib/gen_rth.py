"""Generator of RTH plan blocks."""
from vlib.gen_lights import varint
from vlib.gen_traj import i16, u16, f2b, PINF, NINF, pick_i16


def pick_time(rng):
    r = rng.random()
    if r < 0.3:
        return rng.randint(0, 5)
    if r < 0.7:
        return rng.randint(0, 300)
    if r < 0.9:
        return rng.choice([127, 128, 16383, 16384, 2097151, 2097152, 1 << 24, (1 << 24) + 1])
    return rng.choice([(1 << 28), (1 << 31), (1 << 32) - 1, (1 << 32) - 2, 1 << 30])


def pick_dur(rng):
    r = rng.random()
    if r < 0.5:
        return rng.randint(0, 100)
    if r < 0.85:
        return rng.choice([127, 128, 16383, 16384, (1 << 24) - 1, 1 << 24])
    return rng.choice([(1 << 24) + 1, 1 << 25, (1 << 32) - 1])


def plan(rng, well_formed=True):
    """returns (bytes, list of cumulative entry times (may exceed 32 bits), num_points)"""
    scale = rng.choice([1, 1, 10, 127, rng.randint(1, 127)]) if well_formed else rng.randint(0, 255)
    npts = rng.choice([0, 1, 2, 3, 5, rng.randint(0, 20)])
    out = bytearray([scale]) + u16(npts)
    for _ in range(npts):
        out += i16(pick_i16(rng)) + i16(pick_i16(rng))
    nent = rng.choice([0, 1, 2, 3, 5, rng.randint(0, 30)])
    out += u16(nent)
    times = []
    T = 0
    for k in range(nent):
        r = rng.random()
        action = 0 if r < 0.3 else rng.choice([1, 2, 3, 3, 2])
        flags = (action << 4) | rng.choice([0, 1, 2, 3])
        if rng.random() < 0.1:
            flags |= rng.choice([0x40, 0x80, 0x0c])
        out.append(flags)
        d = pick_time(rng) if rng.random() < 0.9 else 0
        if well_formed and T + d >= (1 << 32) and rng.random() < 0.7:
            d = rng.randint(0, 10)
        T += d
        times.append(T)
        pad = rng.random() < 0.08
        enc = varint(d)
        if pad and len(enc) < 5:
            enc = bytes([b | 0x80 for b in enc[:-1]] + [enc[-1] | 0x80] + [0x80] * (4 - len(enc)) + [0x00])[:5]
        out += enc
        # what the decoder will consider the action in force
        if action != 0:
            cur = action
        else:
            cur = plan.cur if hasattr(plan, "cur") and k > 0 else 1
        if k == 0 and action == 0:
            cur = 1
        plan.cur = cur
        if action != 0:
            if action in (2, 3):
                idx = rng.randint(0, max(0, npts - 1)) if (well_formed and npts > 0) else rng.randint(0, npts + 2)
                out += varint(idx)
            if action == 3:
                out += i16(pick_i16(rng))
                out += i16(pick_i16(rng)) + varint(pick_dur(rng) if rng.random() < 0.3 else rng.randint(0, 50))
        if cur in (2, 3):
            out += varint(pick_dur(rng))
        if flags & 2:
            out += varint(pick_dur(rng))
        if flags & 1:
            out += varint(pick_dur(rng))
    return bytes(out), times, npts


def eval_times(rng, times):
    ts = [NINF, f2b(-1.0), f2b(-0.0), 0, f2b(0.5), PINF, 0x7FC00000, f2b(1e12)]
    for T in times[:40]:
        if T < (1 << 33):
            for x in (T - 1, T - 0.5, T, T + 0.5, T + 1, T + 0.0005, T - 0.0005, T + 0.001, T - 0.001):
                ts.append(f2b(float(x)))
            # the binary32 neighbours of the entry time: 'at least t' is an exact comparison
            if 0 < T < (1 << 24):
                ts.append(f2b(float(T)) + 1)
                ts.append(f2b(float(T)) - 1)
    return sorted(set(ts))
