#!/usr/bin/env python3
"""Translator: /repo source -> lean/Sb/Generated/Tables.lean

Every table and constant that a theorem of the Lean development depends on is
re-extracted from the C/C++ source on every run, so that the theorems are
re-checked against what the code says now.  Control flow is NOT translated
(it is hand-modelled and tied by the correspondence run); this is stated in
DESIGN.md section 5.

The extraction is done in independent steps, each producing a group of facts.  A step whose pattern can no longer be
found does not stop the others: its facts are taken from the last good extraction (lean/Generated.good/facts.json), a line
`TRANSLATOR-PARTIAL step=<name> facts=<a,b,..> users=<Cxx,..> : <what was not found>` is printed, and the check of every
property listed in `users` treats that like a broken proof obligation (the theorems of the other properties do not
depend on those facts; the model's use of them is tied by the correspondence run as always).
"""
import json
import os
import re
import sys


class TranslatorError(Exception):
    pass


def _read(repo, rel):
    p = os.path.join(repo, rel)
    try:
        with open(p, "r", encoding="utf-8", errors="replace") as f:
            return f.read()
    except OSError as e:
        raise TranslatorError(f"cannot read {rel}: {e}")


def _strip_comments(src):
    src = re.sub(r"/\*.*?\*/", " ", src, flags=re.S)
    src = re.sub(r"//[^\n]*", " ", src)
    return src


def _need(m, what):
    if not m:
        raise TranslatorError(f"cannot find {what}")
    return m


def _int(tok):
    tok = tok.strip().rstrip("uUlL")
    return int(tok, 0)


def extract_crc_table(repo):
    src = _strip_comments(_read(repo, "src/crc32.c"))
    m = _need(re.search(r"crc32_tab\s*\[\s*\]\s*=\s*\{(.*?)\}\s*;", src, re.S), "crc32_tab")
    vals = [_int(t) for t in m.group(1).split(",") if t.strip()]
    # the update expression: remember its shape so a structural edit is noticed
    upd = _need(re.search(r"crc\s*=\s*([^;]*);", src), "crc update expression").group(1)
    upd_norm = re.sub(r"\s+", "", upd)
    return vals, upd_norm


def extract_enum(src, typedef_name, what):
    """Return [(name, value)] of a C enum `typedef enum {...} typedef_name;`"""
    m = _need(re.search(r"typedef\s+enum\s*\{([^{}]*)\}\s*" + re.escape(typedef_name) + r"\s*;", src, re.S), what)
    body = m.group(1)
    out = []
    cur = -1
    for item in body.split(","):
        item = item.strip()
        if not item:
            continue
        mm = re.match(r"^([A-Za-z_][A-Za-z0-9_]*)\s*(?:=\s*(.+))?$", item, re.S)
        if not mm:
            raise TranslatorError(f"cannot parse enum item {item!r} in {what}")
        if mm.group(2) is not None:
            expr = mm.group(2).strip()
            try:
                cur = _int(expr)
            except ValueError:
                # allow references to earlier items / simple expressions
                env = {k: v for k, v in out}
                try:
                    cur = int(eval(expr, {"__builtins__": {}}, env))
                except Exception:
                    raise TranslatorError(f"cannot evaluate enum value {expr!r} in {what}")
        else:
            cur += 1
        out.append((mm.group(1), cur))
    return out


def extract_define(src, name, what=None):
    m = _need(re.search(r"#\s*define\s+" + re.escape(name) + r"\s+\(?\s*([-0-9xXa-fA-F]+)[uUlL]*\s*\)?", src), what or name)
    return _int(m.group(1))


ALL = [f"C{i:02d}" for i in range(1, 21)]
CONTAINER = ["C03", "C04", "C05", "C06", "C17"]
LIGHTS = ["C02", "C03", "C09"]
POLY = ["C01", "C07", "C13", "C14", "C15", "C18"]
TRAJ = ["C01", "C07", "C08", "C12", "C13", "C14", "C15", "C16"]


def step_crc(repo):
    tab, upd = extract_crc_table(repo)
    return {"crc32Tab": tab, "crcUpdateExpr": upd}


def step_poly(repo):
    g = {}
    poly = _strip_comments(_read(repo, "src/trajectory/poly.c"))
    m = _need(re.search(r"facs\s*\[[^\]]*\]\s*=\s*\{(.*?)\}\s*;", poly, re.S), "facs")
    g["facs"] = [_int(t) for t in m.group(1).split(",") if t.strip()]
    polyh = _read(repo, "include/skybrush/poly.h")
    g["maxPolyCoeffs"] = extract_define(_strip_comments(polyh), "SB_MAX_POLY_COEFFS")
    return g


def step_errors(repo):
    err = _strip_comments(_read(repo, "include/skybrush/error.h"))
    return {"errors": extract_enum(err, "sb_error_t", "sb_error_t")}


def step_container_enums(repo):
    binh = _strip_comments(_read(repo, "include/skybrush/formats/binary.h"))
    return {"blockTypes": extract_enum(binh, "sb_binary_block_type_t", "sb_binary_block_type_t"),
            "features": extract_enum(binh, "sb_binary_header_feature_t", "sb_binary_header_feature_t")}


def step_crc_pass(repo):
    g = {}
    binc = _strip_comments(_read(repo, "src/formats/binary.c"))
    m = _need(re.search(r"uint8_t\s+buf\s*\[\s*(\d+)\s*\]\s*;\s*uint32_t\s+checksum", binc), "crc chunk buffer")
    g["crcChunk"] = int(m.group(1))
    # the stored checksum is blanked in the first chunk: `buf[6] = buf[7] = buf[8] = buf[9] = 0;` or `memset(buf + 6, 0, 4);`
    m = _need(re.search(r"offset\s*==\s*0\s*&&\s*bytes_read\s*>=\s*(\d+)\s*\)\s*\{\s*(?:((?:buf\[\d+\]\s*=\s*)+)0|memset\s*\(\s*buf\s*\+\s*(\d+)\s*,\s*0\s*,\s*(\d+)\s*\))\s*;", binc),
              "crc field zeroing")
    g["crcZeroMinRead"] = int(m.group(1))
    if m.group(2):
        g["crcZeroIdx"] = sorted(int(x) for x in re.findall(r"buf\[(\d+)\]", m.group(2)))
    else:
        g["crcZeroIdx"] = list(range(int(m.group(3)), int(m.group(3)) + int(m.group(4))))
    return g


def step_header(repo):
    g = {}
    binc = _strip_comments(_read(repo, "src/formats/binary.c"))
    m = re.search(r'strncmp\s*\(\s*buf\s*,\s*"([^"]*)"\s*,\s*(\d+)\s*\)', binc) or \
        re.search(r'memcmp\s*\(\s*buf\s*,\s*"([^"]*)"\s*,\s*(\d+)\s*\)', binc)
    m = _need(m, "magic")
    g["magic"] = [ord(c) for c in m.group(1)][: int(m.group(2))]
    m = _need(re.search(r"parser->version\s*!=\s*(\d+)\s*&&\s*parser->version\s*!=\s*(\d+)", binc), "version test")
    g["versions"] = sorted([int(m.group(1)), int(m.group(2))])
    return g


def step_lights(repo):
    g = {}
    cmds = _strip_comments(_read(repo, "src/lights/commands.h"))
    g["commands"] = extract_enum(cmds, "command_t", "command_t")
    cfg = _strip_comments(_read(repo, "src/lights/light_player_config.h"))
    g["maxLoopDepth"] = extract_define(cfg, "CONFIG_MAX_LOOP_DEPTH")
    g["numPyroChannels"] = extract_define(cfg, "CONFIG_NUM_PYRO_CHANNELS")
    g["maxTriggerCount"] = extract_define(cfg, "CONFIG_MAX_TRIGGER_COUNT")
    exe = _strip_comments(_read(repo, "src/lights/executor.cpp"))
    m = _need(re.search(r"return\s+durationInHalfFrames\s*\*\s*(\d+)\s*;", exe), "duration unit (*20)")
    g["msPerUnit"] = int(m.group(1))
    m = _need(re.search(r"delayExecutionUntil\s*\(\s*deadlineInHalfFrames\s*\*\s*(\d+)\s*\)", exe), "wait-until unit (*20)")
    g["msPerUnitWaitUntil"] = int(m.group(1))
    ends = re.findall(r"m_nextWakeupTime\s*=\s*(?:now|m_currentCommandStartTime)\s*\+\s*(\d+)\s*;", exe)
    if len(ends) < 2:
        raise TranslatorError("cannot find the 'ended' wake-up period (+ 60000)")
    g["endedWakeup"] = sorted(set(int(x) for x in ends))
    m = _need(re.search(r"return\s+address\s*<\s*([A-Z_0-9a-fx]+)\s*;", exe), "isAddressValid bound")
    g["addressBound"] = {"INT_MAX": 2147483647}.get(m.group(1))
    if g["addressBound"] is None:
        g["addressBound"] = _int(m.group(1))
    return g


def step_builder(repo):
    g = {}
    bld = _strip_comments(_read(repo, "src/trajectory/builder.c"))
    g["builderHeaderLength"] = extract_define(bld, "HEADER_LENGTH")
    g["builderMaxDurationMsec"] = extract_define(bld, "MAX_DURATION_MSEC")
    m = _need(re.search(r"sb_buffer_extend_with_zeros\s*\(\s*&builder->buffer\s*,\s*(\d+)\s*\)", bld), "builder extend size")
    g["builderExtend"] = int(m.group(1))
    return g


def step_rth(repo):
    rth = _strip_comments(_read(repo, "src/rth_plan/rth_plan.c"))
    rthh = _strip_comments(_read(repo, "include/skybrush/rth_plan.h"))
    return {"rthMaxDuration": extract_define(rth, "MAX_DURATION"),
            "rthActions": extract_enum(rthh, "sb_rth_action_t", "sb_rth_action_t")}


def step_yaw(repo):
    yaw = _strip_comments(_read(repo, "src/yaw_control/yaw_control.c"))
    _need(re.search(r"#\s*define\s+SIZE_OF_DELTA\s+\(\s*sizeof\(uint16_t\)\s*\+\s*sizeof\(int16_t\)\s*\)", yaw), "SIZE_OF_DELTA")
    return {"yawSizeOfDelta": 4}


def step_traj(repo):
    g = {}
    traj = _strip_comments(_read(repo, "src/trajectory/trajectory.c"))
    m = _need(re.search(r"sb_parse_int16\([^;]*\)\s*%\s*(\d+)\s*;", traj), "angle modulus")
    g["angleModulus"] = int(m.group(1))
    m = _need(re.search(r"return\s+angle\s*/\s*([0-9.]+)f\s*;", traj), "angle divisor")
    g["angleDivisor"] = int(float(m.group(1)))
    m = _need(re.search(r"start_time_msec\s*/\s*([0-9.]+)f\s*;", traj), "msec per sec")
    g["msecPerSec"] = int(float(m.group(1)))
    trajh = _strip_comments(_read(repo, "include/skybrush/trajectory.h"))
    g["segmentFormats"] = extract_enum(trajh, "sb_trajectory_segment_format_flags_t", "sb_trajectory_segment_format_flags_t")
    return g


# (step name, function, properties whose theorems or model semantics depend on the step's facts)
STEPS = [
    ("crc-table", step_crc, ["C05"]),
    ("poly-tables", step_poly, POLY),
    ("error-codes", step_errors, ALL),
    ("container-enums", step_container_enums, CONTAINER),
    ("crc-pass", step_crc_pass, ["C04", "C05", "C06"]),
    ("file-header", step_header, CONTAINER),
    ("light-player", step_lights, LIGHTS),
    ("builder", step_builder, ["C12", "C16"]),
    ("rth", step_rth, ["C11", "C12"]),
    ("yaw", step_yaw, ["C08", "C10"]),
    ("trajectory", step_traj, TRAJ),
]


def extract_all(repo, good=None):
    """returns (facts, partial) where partial lists (step, fact names, users, message) for every step that fell back on `good`"""
    g, partial = {}, []
    for name, fn, users in STEPS:
        try:
            g.update(fn(repo))
        except TranslatorError as e:
            keys = GOOD_KEYS.get(name)
            if good is None or keys is None or any(k not in good for k in keys):
                raise
            for k in keys:
                g[k] = good[k]
            partial.append((name, keys, users, str(e)))
    return g, partial


GOOD_KEYS = {
    "crc-table": ["crc32Tab", "crcUpdateExpr"],
    "poly-tables": ["facs", "maxPolyCoeffs"],
    "error-codes": ["errors"],
    "container-enums": ["blockTypes", "features"],
    "crc-pass": ["crcChunk", "crcZeroMinRead", "crcZeroIdx"],
    "file-header": ["magic", "versions"],
    "light-player": ["commands", "maxLoopDepth", "numPyroChannels", "maxTriggerCount", "msPerUnit", "msPerUnitWaitUntil", "endedWakeup", "addressBound"],
    "builder": ["builderHeaderLength", "builderMaxDurationMsec", "builderExtend"],
    "rth": ["rthMaxDuration", "rthActions"],
    "yaw": ["yawSizeOfDelta"],
    "trajectory": ["angleModulus", "angleDivisor", "msecPerSec", "segmentFormats"],
}


def lean_list(vals, per_line=8):
    lines = []
    for i in range(0, len(vals), per_line):
        lines.append("  " + ", ".join(str(v) for v in vals[i:i + per_line]))
    return "[\n" + ",\n".join(lines) + "]"


def lean_ident(name):
    return re.sub(r"[^A-Za-z0-9_]", "_", name)


def render(g):
    o = []
    o.append("/- GENERATED by /verif/translator/extract.py from /repo's current source. Do not edit. -/")
    o.append("namespace Sb.Gen")
    o.append("")
    o.append("/-- `crc32_tab` of src/crc32.c -/")
    o.append(f"def crc32Tab : List Nat := {lean_list(g['crc32Tab'])}")
    o.append("")
    o.append(f"def crcUpdateExpr : String := {lean_str(g['crcUpdateExpr'])}")
    o.append(f"def facs : List Nat := {lean_list(g['facs'])}")
    o.append(f"def maxPolyCoeffs : Nat := {g['maxPolyCoeffs']}")
    o.append("")
    o.append("/-- numbering of `sb_error_t` -/")
    o.append("def errors : List (String × Nat) := [" + ", ".join(f'("{n}", {v})' for n, v in g["errors"]) + "]")
    for n, v in g["errors"]:
        o.append(f"def {lean_ident(n)} : Nat := {v}")
    o.append("")
    o.append("def blockTypes : List (String × Nat) := [" + ", ".join(f'("{n}", {v})' for n, v in g["blockTypes"]) + "]")
    for n, v in g["blockTypes"]:
        o.append(f"def {lean_ident(n)} : Nat := {v}")
    for n, v in g["features"]:
        o.append(f"def {lean_ident(n)} : Nat := {v}")
    o.append(f"def crcChunk : Nat := {g['crcChunk']}")
    o.append(f"def crcZeroMinRead : Nat := {g['crcZeroMinRead']}")
    o.append(f"def crcZeroIdx : List Nat := {g['crcZeroIdx']}")
    o.append(f"def magic : List Nat := {g['magic']}")
    o.append(f"def versions : List Nat := {g['versions']}")
    o.append("")
    o.append("def commands : List (String × Nat) := [" + ", ".join(f'("{n}", {v})' for n, v in g["commands"]) + "]")
    for n, v in g["commands"]:
        o.append(f"def {lean_ident(n)} : Nat := {v}")
    for k in ["maxLoopDepth", "numPyroChannels", "maxTriggerCount", "msPerUnit", "msPerUnitWaitUntil",
              "addressBound", "builderHeaderLength", "builderMaxDurationMsec", "builderExtend",
              "rthMaxDuration", "yawSizeOfDelta", "angleModulus", "angleDivisor", "msecPerSec"]:
        o.append(f"def {k} : Nat := {g[k]}")
    o.append(f"def endedWakeup : List Nat := {g['endedWakeup']}")
    o.append("")
    o.append("/-- `sb_trajectory_segment_format_flags_t` (include/skybrush/trajectory.h) -/")
    o.append("def segmentFormats : List (String × Nat) := [" + ", ".join(f'("{n}", {v})' for n, v in g["segmentFormats"]) + "]")
    for n, v in g["segmentFormats"]:
        o.append(f"def {lean_ident(n)} : Nat := {v}")
    o.append("")
    o.append("/-- numbering of `sb_rth_action_t` (include/skybrush/rth_plan.h) -/")
    o.append("def rthActions : List (String × Nat) := [" + ", ".join(f'("{n}", {v})' for n, v in g["rthActions"]) + "]")
    for n, v in g["rthActions"]:
        o.append(f"def {lean_ident(n)} : Nat := {v}")
    o.append("")
    o.append("end Sb.Gen")
    return "\n".join(o) + "\n"


def lean_str(s):
    return '"' + s.replace("\\", "\\\\").replace('"', '\\"') + '"'


def _tuples(g):
    """JSON gives lists where the extraction gives tuples: normalise for rendering"""
    for k in ("errors", "blockTypes", "features", "commands", "rthActions", "segmentFormats"):
        if k in g:
            g[k] = [tuple(x) for x in g[k]]
    return g


def main():
    repo = os.environ.get("SB_REPO", "/repo")
    here = os.path.dirname(os.path.abspath(__file__))
    out = os.path.join(here, "..", "lean", "Sb", "Generated", "Tables.lean")
    if len(sys.argv) > 1:
        out = sys.argv[1]
    good = None
    try:
        with open(os.path.join(here, "..", "lean", "Generated.good", "facts.json")) as f:
            good = _tuples(json.load(f))
    except (OSError, ValueError):
        good = None
    try:
        g, partial = extract_all(repo, good)
    except TranslatorError as e:
        print(f"TRANSLATOR-ERROR: {e}")
        return 2
    if "--dump-facts" in sys.argv:
        print(json.dumps(g, indent=0))
        return 0
    text = render(_tuples(g))
    os.makedirs(os.path.dirname(out), exist_ok=True)
    old = None
    if os.path.exists(out):
        with open(out) as f:
            old = f.read()
    if old != text:
        with open(out, "w") as f:
            f.write(text)
        print(f"translator: wrote {os.path.normpath(out)}")
    else:
        print("translator: unchanged")
    for name, keys, users, msg in partial:
        print(f"TRANSLATOR-PARTIAL step={name} facts={','.join(keys)} users={','.join(users)} : {msg}")
    return 0


if __name__ == "__main__":
    sys.exit(main())
