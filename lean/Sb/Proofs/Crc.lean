/-
Lemmas for C05: the table-driven update equals the bit-serial register; the chunked file loop
equals one pass over the whole file.
-/
import Sb.Model.Crc
import Sb.Spec.Crc

namespace Sb.Proofs
open Sb Sb.Crc Sb.Spec

/-- the generated table is exactly the 8-fold bit step of each index (kernel evaluation over
all 256 entries of the table extracted from src/crc32.c) -/
theorem table_correct :
    Crc.tab = (List.range 256).map (fun i => step8 (BitVec.ofNat 32 i)) := by decide +kernel

theorem tabAt_eq (i : Nat) (h : i < 256) : tabAt i = step8 (BitVec.ofNat 32 i) := by
  unfold tabAt
  rw [table_correct]
  simp [List.getD, h]

/-- the bit step is GF(2)-linear -/
theorem step1_xor (a b : BitVec 32) : step1 (a ^^^ b) = step1 a ^^^ step1 b := by
  unfold step1
  rw [BitVec.getLsbD_xor, BitVec.ushiftRight_xor_distrib]
  cases ha : a.getLsbD 0 <;> cases hb : b.getLsbD 0 <;> simp
  · ac_rfl
  · ac_rfl
  · rw [show a >>> 1 ^^^ poly ^^^ (b >>> 1 ^^^ poly) = a >>> 1 ^^^ b >>> 1 ^^^ (poly ^^^ poly) by ac_rfl]
    simp

theorem step8_xor (a b : BitVec 32) : step8 (a ^^^ b) = step8 a ^^^ step8 b := by
  unfold step8; simp only [step1_xor]

theorem step1_of_lsb_false (a : BitVec 32) (h : a.getLsbD 0 = false) : step1 a = a >>> 1 := by
  unfold step1; rw [h]; rfl

/-- on a word whose low 8 bits are zero the 8 bit steps are a plain shift -/
theorem step8_high (x : BitVec 32) : step8 (x &&& 0xffffff00#32) = x >>> 8 := by
  have hbit : ∀ k, k < 8 → ((x &&& 0xffffff00#32) >>> k).getLsbD 0 = false := by
    intro k hk
    rw [BitVec.getLsbD_ushiftRight, BitVec.getLsbD_and]
    have : (0xffffff00#32).getLsbD (k + 0) = false := by
      have : k = 0 ∨ k = 1 ∨ k = 2 ∨ k = 3 ∨ k = 4 ∨ k = 5 ∨ k = 6 ∨ k = 7 := by omega
      rcases this with h | h | h | h | h | h | h | h <;> subst h <;> decide
    rw [this, Bool.and_false]
  have h0 := hbit 0 (by omega)
  simp only [BitVec.ushiftRight_zero] at h0
  unfold step8
  rw [step1_of_lsb_false _ h0,
      step1_of_lsb_false _ (hbit 1 (by omega)), ← BitVec.shiftRight_add,
      step1_of_lsb_false _ (hbit 2 (by omega)), ← BitVec.shiftRight_add,
      step1_of_lsb_false _ (hbit 3 (by omega)), ← BitVec.shiftRight_add,
      step1_of_lsb_false _ (hbit 4 (by omega)), ← BitVec.shiftRight_add,
      step1_of_lsb_false _ (hbit 5 (by omega)), ← BitVec.shiftRight_add,
      step1_of_lsb_false _ (hbit 6 (by omega)), ← BitVec.shiftRight_add,
      step1_of_lsb_false _ (hbit 7 (by omega)), ← BitVec.shiftRight_add]
  apply BitVec.eq_of_toNat_eq
  simp only [BitVec.toNat_ushiftRight, BitVec.toNat_and, BitVec.toNat_ofNat]
  have hx := x.isLt
  rw [Nat.shiftRight_and_distrib]
  have : (4294967040 % 2 ^ 32) >>> (0 + 1 + 1 + 1 + 1 + 1 + 1 + 1 + 1) = 2 ^ 24 - 1 := by decide
  rw [this, Nat.and_two_pow_sub_one_eq_mod]
  apply Nat.mod_eq_of_lt
  rw [Nat.shiftRight_eq_div_pow]
  omega

end Sb.Proofs

namespace Sb.Proofs
open Sb Sb.Crc Sb.Spec

theorem low_byte (x : BitVec 32) : x &&& 0xff#32 = BitVec.ofNat 32 (x.toNat % 256) := by
  apply BitVec.eq_of_toNat_eq
  simp [BitVec.toNat_and, BitVec.toNat_ofNat]
  have := Nat.and_two_pow_sub_one_eq_mod x.toNat 8
  simp at this
  omega

theorem split_low_high (x : BitVec 32) : x = (x &&& 0xff#32) ^^^ (x &&& 0xffffff00#32) := by
  apply BitVec.eq_of_getLsbD_eq
  intro i hi
  simp only [BitVec.getLsbD_xor, BitVec.getLsbD_and]
  have : ((0xff#32).getLsbD i ^^ (0xffffff00#32).getLsbD i) = true := by
    rw [← BitVec.getLsbD_xor]
    have : (0xff#32 ^^^ 0xffffff00#32) = BitVec.allOnes 32 := by decide
    rw [this, BitVec.getLsbD_allOnes]; simp [hi]
  cases hx : x.getLsbD i <;> cases ha : (0xff#32).getLsbD i <;> cases hb : (0xffffff00#32).getLsbD i <;>
    simp_all

/-- 8 bit steps = one table step: the classical byte-wise CRC identity -/
theorem step8_eq_table (x : BitVec 32) : step8 x = tabAt (x.toNat % 256) ^^^ (x >>> 8) := by
  conv => lhs; rw [split_low_high x]
  rw [step8_xor, step8_high, low_byte, tabAt_eq _ (Nat.mod_lt _ (by decide))]

theorem byte_shift8 (b : UInt8) : (BitVec.ofNat 32 b.toNat) >>> 8 = 0#32 := by
  apply BitVec.eq_of_toNat_eq
  have := b.toNat_lt
  simp [BitVec.toNat_ushiftRight, BitVec.toNat_ofNat, Nat.shiftRight_eq_div_pow]
  omega

/-- the loop body of `sb_ap_crc32_update` is the bit-serial byte step -/
theorem stepByte_eq_spec (c : BitVec 32) (b : UInt8) : stepByte c b = crcByte c b := by
  unfold stepByte crcByte
  rw [step8_eq_table, BitVec.ushiftRight_xor_distrib, byte_shift8]
  simp

theorem update_eq_spec (c : BitVec 32) (bs : Bytes) : update c bs = crc c bs := by
  unfold update crc
  induction bs generalizing c with
  | nil => rfl
  | cons b bs ih => simp only [List.foldl_cons, stepByte_eq_spec, ih]

theorem update_append (c : BitVec 32) (xs ys : Bytes) :
    update (update c xs) ys = update c (xs ++ ys) := by
  unfold update; rw [List.foldl_append]

/-- the loop after the first chunk -/
theorem fileLoop_false (rest : Bytes) (c : BitVec 32) : fileLoop rest false c = update c rest := by
  induction hn : rest.length using Nat.strongRecOn generalizing rest c with
  | _ n ih =>
    unfold fileLoop
    simp only [Bool.false_eq_true, if_false]
    by_cases h : rest.length < Gen.crcChunk
    · simp only [h, dif_pos]
      rw [List.take_of_length_le (by omega)]
    · simp only [h, dif_neg, not_false_eq_true]
      have hc : 0 < Gen.crcChunk := by decide
      rw [ih (rest.drop Gen.crcChunk).length (by simp [List.length_drop]; omega) _ _ rfl]
      rw [update_append, List.take_append_drop]

/-- Reading the file in chunks and zeroing bytes 6..9 of the first chunk is the same as one
pass over the whole file with the checksum field zeroed (for every length, including exact
multiples of the chunk size).  Side-condition on the generated chunk size: at least 10. -/
theorem fileCrc_eq_spec (file : Bytes) (hchunk : 10 ≤ Gen.crcChunk) :
    Crc.fileCrc file = Spec.fileCrc file := by
  unfold Crc.fileCrc Spec.fileCrc
  rw [← update_eq_spec]
  unfold fileLoop
  simp only [if_true]
  by_cases h : file.length < Gen.crcChunk
  · simp only [h, dif_pos]
    rw [List.take_of_length_le (by omega)]
    rfl
  · simp only [h, dif_neg, not_false_eq_true]
    rw [fileLoop_false, update_append]
    congr 1
    unfold zeroField zeroCrcField
    have h1 : (List.take Gen.crcChunk file).length = Gen.crcChunk := by
      simp [List.length_take]; omega
    have h2 : (List.take Gen.crcChunk file).length ≥ 10 := by omega
    have h3 : file.length ≥ 10 := by omega
    simp only [h2, h3, if_true]
    have hd : List.drop 10 (List.take Gen.crcChunk file) ++ List.drop Gen.crcChunk file = List.drop 10 file := by
      conv => rhs; rw [← List.take_append_drop Gen.crcChunk file]
      rw [List.drop_append_of_le_length (by omega)]
    rw [List.take_take, Nat.min_eq_left (by omega), List.append_assoc, hd]

end Sb.Proofs
