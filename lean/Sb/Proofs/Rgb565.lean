/-
Kernel-evaluated finite tables for the RGB565 codec (C19): all 65536 codes, all 256 channel values.
-/
import Sb.Model.Colors

namespace Sb.Proofs
open Sb.Colors

def rt565 (c : Nat) : Bool :=
  (let (r, g, b) := decodeRgb565 c; encodeRgb565 r g b) == c

theorem rt565_all : (List.range 65536).all rt565 = true := by decide +kernel

def chan5 (x : Nat) : Bool := ((x >>> 3) &&& 0x1f) == x / 8
def chan6 (x : Nat) : Bool := ((x >>> 2) &&& 0x3f) == x / 4
theorem chan_all : (List.range 256).all (fun x => chan5 x && chan6 x) = true := by decide +kernel

end Sb.Proofs
