/-
The trajectory player as an instance of the abstract cursor: totality of segment building,
the chain of segments tiles the time axis, the concrete seek loop is the abstract one.
-/
import Sb.Proofs.Cursor
import Sb.Proofs.TrajDecode

namespace Sb.Proofs
open Sb Sb.Poly Sb.Traj Sb.Spec

/-- what every segment produced by `buildSegment` satisfies -/
structure Built (sec : Nat → Rat) (tr : Traj) (s : Seg) : Prop where
  startSec : s.startSec = sec s.startMs
  cacheEmpty : s.dpoly = none ∧ s.ddpoly = none
  shape : (s.length = 0 ∧ s.endSec = none ∧ s.durSec = none) ∨
          (3 ≤ s.length ∧ s.endSec = some (sec s.endMs) ∧ s.durSec = some (sec s.durMs) ∧
            s.endMs = u32 (s.startMs + s.durMs) ∧ s.startOff + s.length ≤ tr.buf.length ∧
            s.startOff < tr.buf.length)

/-- **Totality.** Building a segment never faults and never fails, for every trajectory object,
offset, start time and start point. -/
theorem buildSegment_total (sec : Nat → Rat) (tr : Traj) (offset T : Nat) (start : Vec4) :
    ∃ s, buildSegment sec tr offset T start = .ok s ∧ Built sec tr s ∧ s.startOff = offset ∧ s.startMs = T := by
  by_cases h0 : offset ≥ tr.buf.length ∨ tr.scale = 0
  · refine ⟨terminalSeg sec offset T start, by simp [buildSegment, h0], ?_, rfl, rfl⟩
    exact ⟨rfl, ⟨rfl, rfl⟩, Or.inl ⟨rfl, rfl, rfl⟩⟩
  · have hs : tr.scale ≠ 0 := fun h => h0 (Or.inr h)
    have hoff : offset < tr.buf.length := by
      by_contra hh; exact h0 (Or.inl (by omega))
    rcases buildSegment_spec sec tr offset T start _ hs rfl (by omega) with ⟨_, hb⟩ | ⟨s, r, _, hlen, _, hb⟩
    · exact ⟨_, hb, ⟨rfl, ⟨rfl, rfl⟩, Or.inl ⟨rfl, rfl, rfl⟩⟩, rfl, rfl⟩
    · refine ⟨_, hb, ⟨rfl, ⟨rfl, rfl⟩, Or.inr ?_⟩, rfl, rfl⟩
      have hl : (tr.buf.drop offset).length = tr.buf.length - offset := by simp
      refine ⟨?_, rfl, rfl, rfl, ?_, hoff⟩
      · simp only [segOfSpec, mkSeg]; omega
      · simp only [segOfSpec, mkSeg]; omega

/-- total version of segment building -/
def buildSeg (sec : Nat → Rat) (tr : Traj) (offset T : Nat) (start : Vec4) : Seg :=
  match buildSegment sec tr offset T start with
  | .ok s => s
  | .error _ => terminalSeg sec offset T start

theorem buildSegment_eq (sec : Nat → Rat) (tr : Traj) (offset T : Nat) (start : Vec4) :
    buildSegment sec tr offset T start = .ok (buildSeg sec tr offset T start) := by
  obtain ⟨s, hs, _⟩ := buildSegment_total sec tr offset T start
  simp [buildSeg, hs]

theorem buildSeg_built (sec : Nat → Rat) (tr : Traj) (offset T : Nat) (start : Vec4) :
    Built sec tr (buildSeg sec tr offset T start) ∧ (buildSeg sec tr offset T start).startOff = offset ∧
      (buildSeg sec tr offset T start).startMs = T := by
  obtain ⟨s, hs, hb⟩ := buildSegment_total sec tr offset T start
  simp only [buildSeg, hs]; exact hb

/-- the trajectory player as an abstract cursor over segments -/
def trajCur (sec : Nat → Rat) (tr : Traj) : Cur Seg where
  rew := buildSeg sec tr tr.headerLength 0 tr.start
  nxt := fun s => buildSeg sec tr (s.startOff + s.length) s.endMs s.endPt
  st := fun s => s.startSec
  en := fun s => s.endSec

theorem rewind_eq (sec : Nat → Rat) (tr : Traj) : rewind sec tr = .ok ⟨tr, (trajCur sec tr).rew⟩ := by
  simp [rewind, buildSegment_eq, trajCur, bind, Except.bind, pure, Except.pure]

theorem next_eq (sec : Nat → Rat) (tr : Traj) (s : Seg) : next sec ⟨tr, s⟩ = .ok ⟨tr, (trajCur sec tr).nxt s⟩ := by
  simp [next, buildSegment_eq, trajCur, bind, Except.bind, pure, Except.pure]

/-- the concrete seek loop is the abstract one (and never fails except by running out of fuel) -/
theorem seekLoop_eq_cseek (sec : Nat → Rat) (tr : Traj) (t : QTime) (fuel : Nat) (s : Seg) :
    seekLoop sec t fuel ⟨tr, s⟩ =
      match cseek (trajCur sec tr) t fuel s with
      | some s' => .ok ⟨tr, s'⟩
      | none => .error .fault := by
  induction fuel generalizing s with
  | zero => rfl
  | succ f ih =>
    unfold seekLoop cseek
    by_cases h1 : gtQ s.startSec t = true
    · simp only [h1, if_true, rewind_eq, bind, Except.bind, trajCur]
      exact ih _
    · by_cases h2 : endLt s.endSec t = true
      · simp only [h1, h2, if_true, Bool.false_eq_true, if_false, next_eq, bind, Except.bind, trajCur]
        exact ih _
      · simp [h1, h2, trajCur]

/-- every chain element is a built segment -/
theorem chain_built (sec : Nat → Rat) (tr : Traj) (k : Nat) : Built sec tr ((trajCur sec tr).chain k) := by
  cases k with
  | zero => exact (buildSeg_built sec tr _ _ _).1
  | succ k => exact (buildSeg_built sec tr _ _ _).1

theorem chain_succ_start (sec : Nat → Rat) (tr : Traj) (k : Nat) :
    ((trajCur sec tr).chain (k + 1)).startMs = ((trajCur sec tr).chain k).endMs ∧
    ((trajCur sec tr).chain (k + 1)).startOff = ((trajCur sec tr).chain k).startOff + ((trajCur sec tr).chain k).length := by
  have := buildSeg_built sec tr (((trajCur sec tr).chain k).startOff + ((trajCur sec tr).chain k).length)
    ((trajCur sec tr).chain k).endMs ((trajCur sec tr).chain k).endPt
  exact ⟨this.2.2, this.2.1⟩

theorem least_exists (P : Nat → Prop) [DecidablePred P] : ∀ m, P m → ∃ N, N ≤ m ∧ P N ∧ ∀ k, k < N → ¬ P k := by
  intro m
  induction m using Nat.strongRecOn with
  | _ m ih =>
    intro hm
    by_cases h : ∃ k, k < m ∧ P k
    · obtain ⟨k, hk, hpk⟩ := h
      obtain ⟨N, hN, hPN, hmin⟩ := ih k hk hpk
      exact ⟨N, by omega, hPN, hmin⟩
    · exact ⟨m, Nat.le_refl _, hm, fun k hk hp => h ⟨k, hk, hp⟩⟩

/-- offsets grow by at least 3 per non-terminal chain element -/
theorem chain_offset_lb (sec : Nat → Rat) (tr : Traj) :
    ∀ m, (∀ k, k < m → ((trajCur sec tr).chain k).length ≠ 0) → 3 * m ≤ ((trajCur sec tr).chain m).startOff := by
  intro m
  induction m with
  | zero => intro _; omega
  | succ m ih =>
    intro h
    have h1 := ih (fun k hk => h k (by omega))
    have hb := chain_built sec tr m
    have hne := h m (by omega)
    rcases hb.shape with ⟨h0, _⟩ | ⟨h3, _⟩
    · exact absurd h0 hne
    · rw [(chain_succ_start sec tr m).2]; omega

/-- some chain element is terminal, at an index bounded by the block length -/
theorem chain_terminal_exists (sec : Nat → Rat) (tr : Traj) :
    ∃ N, N ≤ tr.buf.length ∧ ((trajCur sec tr).chain N).length = 0 ∧
      ∀ k, k < N → ((trajCur sec tr).chain k).length ≠ 0 := by
  have hex : ∃ m, m ≤ tr.buf.length ∧ ((trajCur sec tr).chain m).length = 0 := by
    by_contra hno
    have hall : ∀ k, k ≤ tr.buf.length → ((trajCur sec tr).chain k).length ≠ 0 := by
      intro k hk h0; exact hno ⟨k, hk, h0⟩
    have hlb := chain_offset_lb sec tr tr.buf.length (fun k hk => hall k (by omega))
    have hb := chain_built sec tr tr.buf.length
    rcases hb.shape with ⟨h0, _⟩ | ⟨_, _, _, _, _, hlt⟩
    · exact hall _ (Nat.le_refl _) h0
    · omega
  obtain ⟨m, hm, hPm⟩ := hex
  obtain ⟨N, hN, hPN, hmin⟩ := least_exists (fun k => ((trajCur sec tr).chain k).length = 0) m hPm
  exact ⟨N, by omega, hPN, hmin⟩

/-- seconds conversion is weakly monotone and maps 0 to (at most) 0 -/
structure MonoSec (sec : Nat → Rat) : Prop where
  zero : sec 0 ≤ 0
  mono : ∀ a b, a ≤ b → sec a ≤ sec b

/-- the millisecond counters never wrap around 2^32 along the chain -/
def NoWrap (sec : Nat → Rat) (tr : Traj) : Prop :=
  ∀ k, ((trajCur sec tr).chain k).length ≠ 0 →
    ((trajCur sec tr).chain k).startMs + ((trajCur sec tr).chain k).durMs < 4294967296

/-- **Termination structure.** For every trajectory object (any bytes) the chain of segments starts
at time 0, consecutive segments share their boundary, and a terminal element is reached after at
most `buf.length` segments.  Needs only `sec 0 ≤ 0`. -/
theorem traj_tiling0 (sec : Nat → Rat) (tr : Traj) (h0 : sec 0 ≤ 0) :
    ∃ N, N ≤ tr.buf.length ∧ Tiling0 (trajCur sec tr) N ∧
      ((trajCur sec tr).chain N).length = 0 ∧ ∀ k, k < N → ((trajCur sec tr).chain k).length ≠ 0 := by
  obtain ⟨N, hN, hterm, hmin⟩ := chain_terminal_exists sec tr
  refine ⟨N, hN, ?_, hterm, hmin⟩
  have hst : ∀ k, (trajCur sec tr).st ((trajCur sec tr).chain k) = sec ((trajCur sec tr).chain k).startMs :=
    fun k => (chain_built sec tr k).startSec
  refine ⟨?_, ?_, ?_⟩
  · rw [hst 0]
    have : ((trajCur sec tr).chain 0).startMs = 0 := (buildSeg_built sec tr _ _ _).2.2
    rw [this]; exact h0
  · intro k e he
    rw [hst (k + 1), (chain_succ_start sec tr k).1]
    rcases (chain_built sec tr k).shape with ⟨_, hnone, _⟩ | ⟨_, hsome, _⟩
    · change ((trajCur sec tr).chain k).endSec = some e at he; rw [hnone] at he; cases he
    · change ((trajCur sec tr).chain k).endSec = some e at he; rw [hsome] at he; injection he with he
  · rcases (chain_built sec tr N).shape with ⟨_, hnone, _⟩ | ⟨h3, _⟩
    · exact hnone
    · omega

/-- **Tiling.** The segments of any trajectory block tile the time axis. -/
theorem traj_tiling (sec : Nat → Rat) (tr : Traj) (hsec : MonoSec sec) (hw : NoWrap sec tr) :
    ∃ N, N ≤ tr.buf.length ∧ Tiling (trajCur sec tr) N := by
  obtain ⟨N, hN, T0, hterm, hmin⟩ := traj_tiling0 sec tr hsec.zero
  refine ⟨N, hN, ⟨T0, ?_, ?_⟩⟩
  have hst : ∀ k, (trajCur sec tr).st ((trajCur sec tr).chain k) = sec ((trajCur sec tr).chain k).startMs :=
    fun k => (chain_built sec tr k).startSec
  · intro k e he
    rw [hst k]
    rcases (chain_built sec tr k).shape with ⟨_, hnone, _⟩ | ⟨h3, hsome, _, hend, _⟩
    · change ((trajCur sec tr).chain k).endSec = some e at he; rw [hnone] at he; cases he
    · change ((trajCur sec tr).chain k).endSec = some e at he; rw [hsome] at he; injection he with he
      rw [← he]
      apply hsec.mono
      have := hw k (by omega)
      rw [hend]; unfold u32
      rw [Nat.mod_eq_of_lt this]; omega
  · intro k hk
    rcases (chain_built sec tr k).shape with ⟨h0, _⟩ | ⟨_, hsome, _⟩
    · exact absurd h0 (hmin k hk)
    · exact ⟨_, hsome⟩

end Sb.Proofs
