/-
`sb_poly_make_bezier` + `sb_poly_eval` (literal transcription in `Sb.Model.Poly`) evaluate to the
Bernstein-form Bézier curve, for every number of control points the format uses (1, 2, 4, 8) and
all others up to 8.
-/
import Mathlib.Tactic.Ring
import Mathlib.Tactic.NormNum
import Mathlib.Tactic.FieldSimp
import Mathlib.Algebra.Order.Field.Rat
import Sb.Model.Poly
import Sb.Spec.Bezier

namespace Sb.Proofs
open Sb.Poly Sb.Spec

/-- side-condition on the generated factorial table -/
theorem fac_vals : fac 0 = 1 ∧ fac 1 = 1 ∧ fac 2 = 2 ∧ fac 3 = 6 ∧ fac 4 = 24 ∧ fac 5 = 120 ∧
    fac 6 = 720 ∧ fac 7 = 5040 := by
  refine ⟨?_, ?_, ?_, ?_, ?_, ?_, ?_, ?_⟩ <;> simp [fac, Sb.Gen.facs]

theorem max_coeffs : Gen.maxPolyCoeffs = 8 := rfl

macro "bezier_tac" : tactic => `(tactic| (
  obtain ⟨f0, f1, f2, f3, f4, f5, f6, f7⟩ := fac_vals
  simp [makeBezier, makeConstant, makeLinear, fltEpsilon, absR, Sb.Gen.maxPolyCoeffs, bezierInner, stretch, stretchAux,
    eval, List.range, List.range.loop, f0, f1, f2, f3, f4, f5, f6, f7, bezier, bezierFrom, bernstein, choose]
  try ring))

theorem bezier1 (c0 u : Rat) : eval (makeBezier 1 [c0]) u = bezier [c0] u := by bezier_tac
theorem bezier2 (c0 c1 u : Rat) : eval (makeBezier 1 [c0, c1]) u = bezier [c0, c1] u := by
  have h : (1 / 8388608 : Rat) ≤ if (1 : Rat) < 0 then -1 else 1 := by norm_num
  simp only [makeBezier, makeLinear, fltEpsilon, absR, ge_iff_le, h, if_true, eval, List.foldr, bezier, bezierFrom,
    bernstein, choose, List.length]
  norm_num
  ring
theorem bezier3 (c0 c1 c2 u : Rat) : eval (makeBezier 1 [c0, c1, c2]) u = bezier [c0, c1, c2] u := by bezier_tac
theorem bezier4 (c0 c1 c2 c3 u : Rat) :
    eval (makeBezier 1 [c0, c1, c2, c3]) u = bezier [c0, c1, c2, c3] u := by bezier_tac
theorem bezier5 (c0 c1 c2 c3 c4 u : Rat) :
    eval (makeBezier 1 [c0, c1, c2, c3, c4]) u = bezier [c0, c1, c2, c3, c4] u := by bezier_tac
theorem bezier6 (c0 c1 c2 c3 c4 c5 u : Rat) :
    eval (makeBezier 1 [c0, c1, c2, c3, c4, c5]) u = bezier [c0, c1, c2, c3, c4, c5] u := by bezier_tac
theorem bezier7 (c0 c1 c2 c3 c4 c5 c6 u : Rat) :
    eval (makeBezier 1 [c0, c1, c2, c3, c4, c5, c6]) u = bezier [c0, c1, c2, c3, c4, c5, c6] u := by bezier_tac
theorem bezier8 (c0 c1 c2 c3 c4 c5 c6 c7 u : Rat) :
    eval (makeBezier 1 [c0, c1, c2, c3, c4, c5, c6, c7]) u = bezier [c0, c1, c2, c3, c4, c5, c6, c7] u := by
  bezier_tac

end Sb.Proofs
