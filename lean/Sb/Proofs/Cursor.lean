/-
Abstract theory of the "cursor" players (trajectory player, yaw player): a state is always one
of the chain rewind, next(rewind), next(next(rewind)), …; seeking to a time lands on the first
chain element from the current one whose end is not before the time; hence the landing place does
not depend on the history, except at instants that are exactly a boundary.
-/
import Mathlib.Tactic.Linarith
import Mathlib.Algebra.Order.Field.Rat
import Sb.Model.Trajectory

namespace Sb.Proofs
open Sb.Traj

structure Cur (σ : Type) where
  rew : σ
  nxt : σ → σ
  st : σ → Rat
  en : σ → Option Rat

variable {σ : Type}

def Cur.chain (C : Cur σ) : Nat → σ
  | 0 => C.rew
  | k + 1 => C.nxt (C.chain k)

/-- the seek loop of the players, abstractly -/
def cseek (C : Cur σ) (t : QTime) : Nat → σ → Option σ
  | 0, _ => none
  | f + 1, s =>
    if gtQ (C.st s) t then cseek C t f C.rew
    else if endLt (C.en s) t then cseek C t f (C.nxt s)
    else some s

/-- the part of the tiling that termination of a seek needs: the chain starts at or before 0,
consecutive elements share their boundary, and element `N` is unbounded -/
structure Tiling0 (C : Cur σ) (N : Nat) : Prop where
  start0 : C.st (C.chain 0) ≤ 0
  consec : ∀ k e, C.en (C.chain k) = some e → C.st (C.chain (k + 1)) = e
  last : C.en (C.chain N) = none

/-- the chain tiles the time axis: additionally every element is ordered and bounded before `N` -/
structure Tiling (C : Cur σ) (N : Nat) : Prop extends Tiling0 C N where
  ordered : ∀ k e, C.en (C.chain k) = some e → C.st (C.chain k) ≤ e
  bounded : ∀ k, k < N → ∃ e, C.en (C.chain k) = some e

/-- a clamped query time: finite and non-negative, or +∞ (NaN excluded) -/
def _root_.Sb.Traj.QTime.valid : QTime → Prop
  | .fin q => 0 ≤ q
  | .pinf => True
  | .nan => False

theorem gtQ_false_of_le {a : Rat} {t : QTime} (ht : t.valid) (h : ∀ q, t = .fin q → a ≤ q) : gtQ a t = false := by
  cases t with
  | fin q => simp only [gtQ, decide_eq_false_iff_not, not_lt]; exact h q rfl
  | pinf => rfl
  | nan => exact False.elim ht

/-- "k is the first index from j on whose end is not before t" -/
def FirstFrom (C : Cur σ) (t : QTime) (j k : Nat) : Prop :=
  j ≤ k ∧ endLt (C.en (C.chain k)) t = false ∧ ∀ i, j ≤ i → i < k → endLt (C.en (C.chain i)) t = true

theorem firstFrom_unique (C : Cur σ) (t : QTime) (j k k' : Nat)
    (h : FirstFrom C t j k) (h' : FirstFrom C t j k') : k = k' := by
  rcases Nat.lt_trichotomy k k' with hlt | heq | hgt
  · have := h'.2.2 k h.1 hlt; rw [h.2.1] at this; cases this
  · exact heq
  · have := h.2.2 k' h'.1 hgt; rw [h'.2.1] at this; cases this

/-- advancing from chain element `j` (whose start is not after `t`) lands on the first element
from `j` on whose end is not before `t` -/
theorem cseek_advance (C : Cur σ) (N : Nat) (T : Tiling0 C N) (t : QTime) (ht : t.valid) :
    ∀ (d j fuel : Nat), j + d = N → d < fuel → gtQ (C.st (C.chain j)) t = false →
      ∃ k, k ≤ N ∧ FirstFrom C t j k ∧ cseek C t fuel (C.chain j) = some (C.chain k) := by
  intro d
  induction d with
  | zero =>
    intro j fuel hj hf hst
    have hjN : j = N := by omega
    subst hjN
    obtain ⟨f, rfl⟩ : ∃ f, fuel = f + 1 := ⟨fuel - 1, by omega⟩
    refine ⟨j, Nat.le_refl _, ⟨Nat.le_refl _, by rw [T.last]; rfl, fun i h1 h2 => by omega⟩, ?_⟩
    simp [cseek, hst, T.last, endLt]
  | succ d ih =>
    intro j fuel hj hf hst
    obtain ⟨f, rfl⟩ : ∃ f, fuel = f + 1 := ⟨fuel - 1, by omega⟩
    by_cases he : endLt (C.en (C.chain j)) t = true
    · -- move on
      cases hen : C.en (C.chain j) with
      | none => rw [hen] at he; simp [endLt] at he
      | some e =>
        have hst' : gtQ (C.st (C.chain (j + 1))) t = false := by
          rw [T.consec j e hen]
          rw [hen] at he
          apply gtQ_false_of_le ht
          intro q hq; subst hq
          simp only [endLt, ltQ, decide_eq_true_eq] at he
          exact le_of_lt he
        obtain ⟨k, hkN, hk, hs⟩ := ih (j + 1) f (by omega) (by omega) hst'
        refine ⟨k, hkN, ⟨by have := hk.1; omega, hk.2.1, ?_⟩, ?_⟩
        · intro i h1 h2
          by_cases hij : i = j
          · subst hij; exact he
          · exact hk.2.2 i (by omega) h2
        · simp only [cseek, hst, he, if_true, Bool.false_eq_true, if_false]
          exact hs
    · have he' : endLt (C.en (C.chain j)) t = false := by simpa using he
      refine ⟨j, by omega, ⟨Nat.le_refl _, he', fun i h1 h2 => by omega⟩, ?_⟩
      simp [cseek, hst, he']

/-- the start of the rewound state is never after a valid query time -/
theorem gtQ_rew (C : Cur σ) (N : Nat) (T : Tiling0 C N) (t : QTime) (ht : t.valid) :
    gtQ (C.st (C.chain 0)) t = false := by
  apply gtQ_false_of_le ht
  intro q hq; subst hq
  exact le_trans T.start0 ht

/-- **Landing.** From any chain element `j ≤ N`, with enough fuel, the seek loop returns the first
chain element (from `j`, or from 0 when `j` starts after `t`) whose end is not before `t`. -/
theorem cseek_lands (C : Cur σ) (N : Nat) (T : Tiling0 C N) (t : QTime) (ht : t.valid)
    (j fuel : Nat) (hj : j ≤ N) (hf : N + 2 ≤ fuel) :
    ∃ k, k ≤ N ∧ cseek C t fuel (C.chain j) = some (C.chain k) ∧
      ((gtQ (C.st (C.chain j)) t = false ∧ FirstFrom C t j k) ∨
       (gtQ (C.st (C.chain j)) t = true ∧ FirstFrom C t 0 k)) := by
  by_cases hg : gtQ (C.st (C.chain j)) t = true
  · obtain ⟨f, rfl⟩ : ∃ f, fuel = f + 1 := ⟨fuel - 1, by omega⟩
    obtain ⟨k, hkN, hk, hs⟩ := cseek_advance C N T t ht N 0 f (by omega) (by omega) (gtQ_rew C N T t ht)
    refine ⟨k, hkN, ?_, Or.inr ⟨hg, hk⟩⟩
    simp only [cseek, hg, if_true]
    exact hs
  · have hg' : gtQ (C.st (C.chain j)) t = false := by simpa using hg
    obtain ⟨k, hkN, hk, hs⟩ := cseek_advance C N T t ht (N - j) j fuel (by omega) (by omega) hg'
    exact ⟨k, hkN, hs, Or.inl ⟨hg', hk⟩⟩

/-- starts are ordered along the chain -/
theorem en_le_st (C : Cur σ) (N : Nat) (T : Tiling C N) (k : Nat) (e : Rat) (he : C.en (C.chain k) = some e) :
    ∀ d, k + 1 + d ≤ N → e ≤ C.st (C.chain (k + 1 + d)) := by
  intro d
  induction d with
  | zero => intro _; rw [Nat.add_zero, T.consec k e he]
  | succ d ih =>
    intro hN
    have h1 := ih (by omega)
    obtain ⟨e', hen⟩ := T.bounded (k + 1 + d) (by omega)
    have h2 := T.ordered (k + 1 + d) e' hen
    have h3 := T.consec (k + 1 + d) e' hen
    have : k + 1 + (d + 1) = k + 1 + d + 1 := by omega
    rw [this, h3]
    linarith

/-- `t` is exactly the end of some bounded chain element -/
def IsBoundary (C : Cur σ) (t : QTime) : Prop := ∃ k q, t = .fin q ∧ C.en (C.chain k) = some q

/-- **History independence of the landing place.** Two seeks to the same time, one from chain
element `j` and one from a fresh (rewound) state, land on the same chain element unless the time
is exactly a boundary. -/
theorem landing_history_free (C : Cur σ) (N : Nat) (T : Tiling C N) (t : QTime) (ht : t.valid)
    (j fuel fuel' : Nat) (hj : j ≤ N) (hf : N + 2 ≤ fuel) (hf' : N + 2 ≤ fuel')
    (hnb : ¬ IsBoundary C t) :
    cseek C t fuel (C.chain j) = cseek C t fuel' (C.chain 0) := by
  obtain ⟨k, hkN, hs, hk⟩ := cseek_lands C N T.toTiling0 t ht j fuel hj hf
  obtain ⟨k0, hk0N, hs0, hk0⟩ := cseek_lands C N T.toTiling0 t ht 0 fuel' (by omega) hf'
  have hk0' : FirstFrom C t 0 k0 := by
    rcases hk0 with ⟨_, h⟩ | ⟨_, h⟩ <;> exact h
  rw [hs, hs0]
  congr 2
  rcases hk with ⟨hg, hk⟩ | ⟨_, hk⟩
  · -- advanced from j
    by_cases hjk : j ≤ k0
    · -- k0 is also the first from j
      have : FirstFrom C t j k0 := ⟨hjk, hk0'.2.1, fun i h1 h2 => hk0'.2.2 i (by omega) h2⟩
      exact firstFrom_unique C t j k k0 hk this
    · -- k0 < j : then t is the boundary en_{k0}
      exfalso
      have hlt : k0 < j := by omega
      obtain ⟨e, he⟩ := T.bounded k0 (by omega)
      have hle := en_le_st C N T k0 e he (j - (k0 + 1)) (by omega)
      have hidx : k0 + 1 + (j - (k0 + 1)) = j := by omega
      rw [hidx] at hle
      have hnot := hk0'.2.1
      rw [he] at hnot
      cases t with
      | nan => exact False.elim ht
      | pinf => simp [endLt, ltQ] at hnot
      | fin q =>
        simp only [endLt, ltQ, decide_eq_false_iff_not, not_lt] at hnot
        simp only [gtQ, decide_eq_false_iff_not, not_lt] at hg
        have : e = q := le_antisymm (le_trans hle hg) hnot
        exact hnb ⟨k0, q, rfl, by rw [he, this]⟩
  · exact firstFrom_unique C t 0 k k0 hk hk0'

/-- every bounded element has positive length -/
def StrictTiling (C : Cur σ) (N : Nat) : Prop := ∀ k e, C.en (C.chain k) = some e → C.st (C.chain k) < e

/-- **At a boundary the landing place adjoins.** With positive lengths, a seek from any chain
element lands on the fresh landing place or on its successor. -/
theorem landing_adjoining (C : Cur σ) (N : Nat) (T : Tiling C N) (S : StrictTiling C N) (t : QTime) (ht : t.valid)
    (j fuel fuel' : Nat) (hj : j ≤ N) (hf : N + 2 ≤ fuel) (hf' : N + 2 ≤ fuel') :
    ∃ k0, cseek C t fuel' (C.chain 0) = some (C.chain k0) ∧
      (cseek C t fuel (C.chain j) = some (C.chain k0) ∨ cseek C t fuel (C.chain j) = some (C.chain (k0 + 1))) := by
  obtain ⟨k, hkN, hs, hk⟩ := cseek_lands C N T.toTiling0 t ht j fuel hj hf
  obtain ⟨k0, hk0N, hs0, hk0⟩ := cseek_lands C N T.toTiling0 t ht 0 fuel' (by omega) hf'
  have hk0' : FirstFrom C t 0 k0 := by
    rcases hk0 with ⟨_, h⟩ | ⟨_, h⟩ <;> exact h
  refine ⟨k0, hs0, ?_⟩
  rw [hs]
  rcases hk with ⟨hg, hk⟩ | ⟨_, hk⟩
  · by_cases hjk : j ≤ k0
    · have : FirstFrom C t j k0 := ⟨hjk, hk0'.2.1, fun i h1 h2 => hk0'.2.2 i (by omega) h2⟩
      left; rw [firstFrom_unique C t j k k0 hk this]
    · right
      have hlt : k0 < j := by omega
      obtain ⟨e, he⟩ := T.bounded k0 (by omega)
      have hnot := hk0'.2.1
      rw [he] at hnot
      cases t with
      | nan => exact False.elim ht
      | pinf => simp [endLt, ltQ] at hnot
      | fin q =>
        simp only [endLt, ltQ, decide_eq_false_iff_not, not_lt] at hnot
        simp only [gtQ, decide_eq_false_iff_not, not_lt] at hg
        -- j = k0 + 1 : otherwise st_j ≥ en_{k0+1} > st_{k0+1} = e ≥ q ≥ st_j
        have hj1 : j = k0 + 1 := by
          by_contra hne
          have hlt2 : k0 + 1 < j := by omega
          obtain ⟨e1, he1⟩ := T.bounded (k0 + 1) (by omega)
          have h1 := en_le_st C N T (k0 + 1) e1 he1 (j - (k0 + 2)) (by omega)
          have hidx : k0 + 1 + 1 + (j - (k0 + 2)) = j := by omega
          rw [hidx] at h1
          have h2 := S (k0 + 1) e1 he1
          rw [T.consec k0 e he] at h2
          linarith
        subst hj1
        -- and the element k0+1 is not before t, so the seek stays there
        have hstay : endLt (C.en (C.chain (k0 + 1))) (.fin q) = false := by
          cases hen : C.en (C.chain (k0 + 1)) with
          | none => rfl
          | some e1 =>
            have h2 := S (k0 + 1) e1 hen
            rw [T.consec k0 e he] at h2
            simp only [endLt, ltQ, decide_eq_false_iff_not, not_lt]
            linarith
        have : FirstFrom C (.fin q) (k0 + 1) (k0 + 1) := ⟨Nat.le_refl _, hstay, fun i h1 h2 => by omega⟩
        rw [firstFrom_unique C _ (k0 + 1) k (k0 + 1) hk this]
  · left; rw [firstFrom_unique C t 0 k k0 hk hk0']

/-- a state transformer that the cursor cannot observe (e.g. clearing caches): seeking commutes
with it, unless the seek does not move at all -/
theorem cseek_congr (C : Cur σ) (t : QTime) (f : σ → σ)
    (hst : ∀ s, C.st (f s) = C.st s) (hen : ∀ s, C.en (f s) = C.en s) (hn : ∀ s, C.nxt (f s) = C.nxt s)
    (fuel : Nat) (s : σ) :
    cseek C t fuel (f s) = cseek C t fuel s ∨
      (cseek C t fuel s = some s ∧ cseek C t fuel (f s) = some (f s)) := by
  cases fuel with
  | zero => left; rfl
  | succ n =>
    unfold cseek
    rw [hst, hen, hn]
    by_cases h1 : gtQ (C.st s) t = true
    · left; simp [h1]
    · by_cases h2 : endLt (C.en s) t = true
      · left; simp [h1, h2]
      · right; simp [h1, h2]

end Sb.Proofs
