/-
Lemmas for C04/C06: the position-based parser of `Sb.Model.Container` walks exactly the
records of the grammar `Sb.Spec.records`.
-/
import Sb.Model.Container
import Sb.Spec.Container

namespace Sb.Proofs
open Sb Sb.Container Sb.Spec

/-- what reading a block header does, in terms of the bytes at the current position -/
theorem hdr_spec (p : Parser) :
    p.readNextBlockHeader =
      match p.data.drop p.pos with
      | [] => .ok { p with curType := 0, curLength := 0, curStart := 0 }
      | [_] => .error .eread
      | [_, _] => .error .eread
      | ty :: l0 :: l1 :: _ =>
        .ok { p with pos := p.pos + 3, curType := ty.toNat, curLength := l0.toNat + (l1.toNat <<< 8),
                     curStart := p.pos + 3 } := by
  unfold Parser.readNextBlockHeader Parser.read
  cases h : p.data.drop p.pos with
  | nil => simp
  | cons ty r1 =>
    have hd1 : List.drop (p.pos + 1) p.data = r1 := by
      have := congrArg (List.drop 1) h
      simpa [List.drop_drop, Nat.add_comm] using this
    cases r1 with
    | nil => simp [hd1]
    | cons l0 r2 =>
      cases r2 with
      | nil => simp [hd1]
      | cons l1 r3 => simp [hd1, Nat.add_assoc]

/-- Expected result of iterating with `seek_to_next_block`/`read_current_block`, starting at a
block whose header (type `ty`, length `len`) has been read and which is followed by `after`. -/
def expWalk (mem : Bool) (ty len : Nat) (after : Bytes) : List (Nat × Nat × R Bytes) × Nat :=
  if ty = 0 then ([], 0)
  else if after.length < len then ([(ty, len, .error .eread)], if mem then Err.eread.code else 0)
  else
    match h : after.drop len with
    | [] => ([(ty, len, .ok (after.take len))], 0)
    | [_] => ([(ty, len, .ok (after.take len))], Err.eread.code)
    | [_, _] => ([(ty, len, .ok (after.take len))], Err.eread.code)
    | ty' :: l0 :: l1 :: after' =>
      let r := expWalk mem ty'.toNat (recLen l0 l1) after'
      ((ty, len, .ok (after.take len)) :: r.1, r.2)
termination_by after.length
decreasing_by
  have := congrArg List.length h
  simp [List.length_drop] at this
  omega

theorem recLen_eq (l0 l1 : UInt8) : l0.toNat + (l1.toNat <<< 8) = recLen l0 l1 := by
  unfold recLen; rw [Nat.shiftLeft_eq]; omega

theorem valid_of_ne (p : Parser) (ht : p.curType ≠ 0) : p.isCurrentBlockValid = true := by
  simp [Parser.isCurrentBlockValid, Gen.SB_BINARY_BLOCK_NONE, ht]

/-- reading the current body -/
theorem readBody_spec (p : Parser) (ht : p.curType ≠ 0) (hs : p.curStart ≤ p.data.length) :
    (p.readCurrentBlock).map (·.1) =
      if p.data.length - p.curStart < p.curLength then .error .eread
      else .ok ((p.data.drop p.curStart).take p.curLength) := by
  unfold Parser.readCurrentBlock Parser.seek Parser.read
  have hns : ¬ (p.mem = true ∧ p.curStart > p.data.length) := by omega
  simp only [valid_of_ne p ht, Bool.not_true, Bool.false_eq_true, if_false, hns, bind, Except.bind,
    List.length_take, List.length_drop]
  by_cases hl : p.data.length - p.curStart < p.curLength
  · have : min p.curLength (p.data.length - p.curStart) ≠ p.curLength := by omega
    simp [hl, this, Except.map]
  · have : min p.curLength (p.data.length - p.curStart) = p.curLength := by omega
    simp [hl, this, Except.map, pure, Except.pure]

/-- stepping to the next block -/
theorem seekNext_spec (p : Parser) (ht : p.curType ≠ 0) :
    p.seekToNextBlock =
      if p.mem = true ∧ p.curStart + p.curLength > p.data.length then .error .eread
      else ({ p with pos := p.curStart + p.curLength } : Parser).readNextBlockHeader := by
  unfold Parser.seekToNextBlock Parser.seek
  simp only [valid_of_ne p ht, Bool.not_true, Bool.false_eq_true, if_false]
  split <;> simp [bind, Except.bind]

theorem expWalk_zero (mem : Bool) (len : Nat) (after : Bytes) : expWalk mem 0 len after = ([], 0) := by
  rw [expWalk]; simp

theorem expWalk_cut (mem : Bool) (ty len : Nat) (after : Bytes) (hty : ty ≠ 0) (h : after.length < len) :
    expWalk mem ty len after = ([(ty, len, .error .eread)], if mem then Err.eread.code else 0) := by
  rw [expWalk]; simp [hty, h]

theorem expWalk_nil (mem : Bool) (ty len : Nat) (after : Bytes) (hty : ty ≠ 0) (h : ¬ after.length < len)
    (hx : after.drop len = []) :
    expWalk mem ty len after = ([(ty, len, .ok (after.take len))], 0) := by
  rw [expWalk]; simp only [hty, h, if_false]
  split <;> simp_all

theorem expWalk_one (mem : Bool) (ty len : Nat) (after : Bytes) (hty : ty ≠ 0) (h : ¬ after.length < len)
    (x : UInt8) (hx : after.drop len = [x]) :
    expWalk mem ty len after = ([(ty, len, .ok (after.take len))], Err.eread.code) := by
  rw [expWalk]; simp only [hty, h, if_false]
  split <;> simp_all

theorem expWalk_two (mem : Bool) (ty len : Nat) (after : Bytes) (hty : ty ≠ 0) (h : ¬ after.length < len)
    (x y : UInt8) (hx : after.drop len = [x, y]) :
    expWalk mem ty len after = ([(ty, len, .ok (after.take len))], Err.eread.code) := by
  rw [expWalk]; simp only [hty, h, if_false]
  split <;> simp_all

theorem expWalk_more (mem : Bool) (ty len : Nat) (after : Bytes) (hty : ty ≠ 0) (h : ¬ after.length < len)
    (ty' l0 l1 : UInt8) (after' : Bytes) (hx : after.drop len = ty' :: l0 :: l1 :: after') :
    expWalk mem ty len after =
      ((ty, len, .ok (after.take len)) :: (expWalk mem ty'.toNat (recLen l0 l1) after').1,
       (expWalk mem ty'.toNat (recLen l0 l1) after').2) := by
  rw [expWalk]; simp only [hty, h, if_false]
  split
  · simp_all
  · simp_all
  · simp_all
  · rename_i a b c d h2
    rw [hx] at h2
    injection h2 with e1 h2; injection h2 with e2 h2; injection h2 with e3 e4
    subst e1 e2 e3 e4
    rfl

theorem walkLoop_eq (fuel : Nat) (p : Parser)
    (h0 : p.curType = 0 → fuel ≥ 1)
    (h1 : p.curType ≠ 0 → p.curStart ≤ p.data.length ∧ fuel + p.curStart ≥ p.data.length + 2) :
    walkLoop p fuel = expWalk p.mem p.curType p.curLength (p.data.drop p.curStart) := by
  induction fuel generalizing p with
  | zero =>
    by_cases ht : p.curType = 0
    · have := h0 ht; omega
    · have := h1 ht; omega
  | succ fuel ih =>
    unfold walkLoop
    by_cases ht : p.curType = 0
    · rw [ht, expWalk_zero]
      simp [Parser.isCurrentBlockValid, ht, Gen.SB_BINARY_BLOCK_NONE]
    · obtain ⟨hs, hf⟩ := h1 ht
      simp only [valid_of_ne p ht, Bool.not_true, Bool.false_eq_true, if_false]
      rw [readBody_spec p ht hs, seekNext_spec p ht]
      have hdd : (p.data.drop p.curStart).drop p.curLength = p.data.drop (p.curStart + p.curLength) := by
        rw [List.drop_drop]
      by_cases hl : p.data.length - p.curStart < p.curLength
      · -- body cut short
        have hl' : (p.data.drop p.curStart).length < p.curLength := by simpa [List.length_drop] using hl
        rw [expWalk_cut _ _ _ _ ht hl']
        simp only [hl, if_true]
        cases hm : p.mem with
        | true =>
          have : p.curStart + p.curLength > p.data.length := by omega
          simp [this]
        | false =>
          simp only [Bool.false_eq_true, false_and, if_false]
          rw [hdr_spec]
          have hnil : List.drop (p.curStart + p.curLength) p.data = [] := by
            apply List.drop_eq_nil_of_le; omega
          simp only [hnil]
          rw [ih _ (by intro _; omega) (by intro h; exact absurd rfl h), expWalk_zero]
      · have hl' : ¬ (p.data.drop p.curStart).length < p.curLength := by simpa [List.length_drop] using hl
        have hle : p.curStart + p.curLength ≤ p.data.length := by omega
        have hns : ¬ (p.mem = true ∧ p.curStart + p.curLength > p.data.length) := by omega
        simp only [hl, hns, if_false]
        rw [hdr_spec]
        simp only
        cases hx : p.data.drop (p.curStart + p.curLength) with
        | nil =>
          rw [expWalk_nil _ _ _ _ ht hl' (by rw [hdd]; exact hx)]
          simp only
          rw [ih _ (by intro _; omega) (by intro h; exact absurd rfl h), expWalk_zero]
        | cons a r1 =>
          cases r1 with
          | nil =>
            rw [expWalk_one _ _ _ _ ht hl' a (by rw [hdd]; exact hx)]
          | cons b r2 =>
            cases r2 with
            | nil =>
              rw [expWalk_two _ _ _ _ ht hl' a b (by rw [hdd]; exact hx)]
            | cons c r3 =>
              rw [expWalk_more _ _ _ _ ht hl' a b c r3 (by rw [hdd]; exact hx)]
              simp only
              have hlen3 : p.curStart + p.curLength + 3 ≤ p.data.length := by
                have := congrArg List.length hx
                simp [List.length_drop] at this; omega
              have hrest : List.drop (p.curStart + p.curLength + 3) p.data = r3 := by
                have := congrArg (List.drop 3) hx
                simpa [List.drop_drop] using this
              rw [ih _ (by intro _; omega) (by intro _; simp only; omega)]
              simp only [hrest, recLen_eq]

/-- the iteration result that corresponds to a record list and its ending, per backend -/
def walkOf (mem : Bool) (r : List (Nat × Bytes) × Ending) : List (Nat × Nat × R Bytes) × Nat :=
  let full := r.1.map (fun tb => (tb.1, tb.2.length, (.ok tb.2 : R Bytes)))
  match r.2 with
  | .eof => (full, 0)
  | .type0 => (full, 0)
  | .cutInHeader => (full, Err.eread.code)
  | .cutInBody ty len => (full ++ [(ty, len, .error .eread)], if mem then Err.eread.code else 0)

theorem walkOf_cons (mem : Bool) (t : Nat) (b : Bytes) (r : List (Nat × Bytes) × Ending) :
    walkOf mem ((t, b) :: r.1, r.2) = ((t, b.length, .ok b) :: (walkOf mem r).1, (walkOf mem r).2) := by
  unfold walkOf
  cases r.2 <;> simp

theorem expWalk_eq_records (mem : Bool) (n : Nat) : ∀ (ty l0 l1 : UInt8) (after : Bytes), after.length ≤ n →
    expWalk mem ty.toNat (recLen l0 l1) after = walkOf mem (records (ty :: l0 :: l1 :: after)) := by
  induction n using Nat.strongRecOn with
  | _ n ih =>
    intro ty l0 l1 after hn
    rw [records]
    by_cases hty : ty.toNat = 0
    · simp [hty, expWalk_zero, walkOf]
    · simp only [hty, if_false]
      by_cases hl : after.length < recLen l0 l1
      · rw [expWalk_cut _ _ _ _ hty hl]
        simp [hl, walkOf]
      · simp only [hl, if_false]
        have htake : (after.take (recLen l0 l1)).length = recLen l0 l1 := by
          simp [List.length_take]; omega
        rw [walkOf_cons, htake]
        cases hx : after.drop (recLen l0 l1) with
        | nil =>
          rw [expWalk_nil _ _ _ _ hty hl hx, records]; simp [walkOf]
        | cons a r1 =>
          cases r1 with
          | nil => rw [expWalk_one _ _ _ _ hty hl a hx, records]; simp [walkOf]
          | cons b r2 =>
            cases r2 with
            | nil => rw [expWalk_two _ _ _ _ hty hl a b hx, records]; simp [walkOf]
            | cons c r3 =>
              rw [expWalk_more _ _ _ _ hty hl a b c r3 hx]
              have hlen : r3.length < n := by
                have := congrArg List.length hx
                simp [List.length_drop] at this; omega
              rw [ih r3.length hlen a b c r3 (Nat.le_refl _)]

/-- the parser state right after a valid header of length `hlen` -/
def startParser (mem : Bool) (data : Bytes) (hlen ver feat : Nat) : Parser :=
  { mem := mem, data := data, pos := hlen, version := ver, features := feat, startOfFirstBlock := hlen }

/-- Iterating from the first block yields exactly the records of the grammar. -/
theorem walk_from_start (mem : Bool) (data : Bytes) (hlen ver feat : Nat) (hh : hlen ≤ data.length) :
    (do let p ← (startParser mem data hlen ver feat).rewind
        let r := walkLoop p (data.length + 2)
        pure (p.version, r.1, r.2) : R (Nat × List (Nat × Nat × R Bytes) × Nat)) =
      (if records (data.drop hlen) = ([], .cutInHeader) then .error .eread
       else .ok (ver, (walkOf mem (records (data.drop hlen))).1, (walkOf mem (records (data.drop hlen))).2)) := by
  unfold Parser.rewind Parser.seek startParser
  have hns : ¬ (mem = true ∧ hlen > data.length) := by omega
  simp only [hns, if_false, bind, Except.bind]
  rw [hdr_spec]
  simp only
  cases hx : data.drop hlen with
  | nil =>
    simp only
    rw [walkLoop_eq _ _ (by intro _; omega) (by intro h; exact absurd rfl h), expWalk_zero, records]
    simp [walkOf, pure, Except.pure]
  | cons a r1 =>
    cases r1 with
    | nil => simp [records]
    | cons b r2 =>
      cases r2 with
      | nil => simp [records]
      | cons c r3 =>
        simp only
        have hlen3 : hlen + 3 ≤ data.length := by
          have := congrArg List.length hx
          simp [List.length_drop] at this; omega
        have hrest : List.drop (hlen + 3) data = r3 := by
          have := congrArg (List.drop 3) hx
          simpa [List.drop_drop] using this
        rw [walkLoop_eq _ _ (by intro _; omega) (by intro _; simp only; omega)]
        simp only [hrest, recLen_eq]
        rw [expWalk_eq_records mem r3.length a b c r3 (Nat.le_refl _)]
        have hne : records (a :: b :: c :: r3) ≠ ([], Ending.cutInHeader) := by
          rw [records]
          split
          · simp
          · split <;> simp
        simp [hne, pure, Except.pure]

/-- what a successful lookup exposes: type, length and the body as `read_current_block` returns it -/
def findObs (r : R Parser) : R (Nat × Nat × R Bytes) :=
  r.map (fun p => (p.curType, p.curLength, (p.readCurrentBlock).map (·.1)))

/-- search an iteration result for the first block of a type -/
def searchWalk (ty : Nat) (w : List (Nat × Nat × R Bytes) × Nat) : R (Nat × Nat × R Bytes) :=
  match w.1.find? (fun x => x.1 == ty) with
  | some x => .ok x
  | none => if w.2 = 0 then .error .enoent else if w.2 = Err.eread.code then .error .eread else .error .fault

theorem seekNext_err (p : Parser) (e : Err) (h : p.seekToNextBlock = .error e) : e = .eread := by
  unfold Parser.seekToNextBlock Parser.seek at h
  split at h
  · injection h with h; exact h.symm
  · split at h
    · simp [bind, Except.bind] at h; exact h.symm
    · simp only [bind, Except.bind] at h
      rw [hdr_spec] at h
      split at h <;> first | (injection h with h; exact h.symm) | cases h

theorem findLoop_eq_search (fuel : Nat) (p : Parser) (ty : Nat) :
    findObs (findLoop p ty fuel) = searchWalk ty (walkLoop p fuel) := by
  induction fuel generalizing p with
  | zero => simp [findLoop, walkLoop, findObs, searchWalk, Except.map, Err.code, Gen.SB_EREAD]
  | succ fuel ih =>
    unfold findLoop walkLoop
    by_cases hv : p.isCurrentBlockValid = true
    · simp only [hv, Bool.not_true, Bool.false_eq_true, if_false]
      by_cases ht : p.curType = ty
      · simp only [ht, if_true]
        cases hs : p.seekToNextBlock with
        | error e => simp [findObs, searchWalk, Except.map, ← ht]
        | ok p1 => simp [findObs, searchWalk, Except.map, ← ht]
      · simp only [ht, if_false]
        cases hs : p.seekToNextBlock with
        | error e =>
          have := seekNext_err p e hs
          subst this
          simp [findObs, searchWalk, Except.map, ht, Err.code, Gen.SB_EREAD]
        | ok p1 =>
          simp only
          rw [ih p1]
          simp [searchWalk, ht]
    · have hv' : p.isCurrentBlockValid = false := by simpa using hv
      simp [hv', findObs, searchWalk, Except.map]

end Sb.Proofs
