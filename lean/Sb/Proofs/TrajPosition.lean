/-
C01: the position computed by a fresh player equals the format-level specification `Spec.posAt`
(exact arithmetic, `secExact`).
-/
import Sb.Proofs.TrajCursor
import Sb.Proofs.Bezier

namespace Sb.Proofs
open Sb Sb.Poly Sb.Traj Sb.Spec

/-- the Bézier identity for every control-point list of 1..8 points -/
theorem bezier_any (c : List Rat) (u : Rat) (h1 : 1 ≤ c.length) (h8 : c.length ≤ 8) :
    eval (makeBezier 1 c) u = bezier c u := by
  rcases c with _ | ⟨c0, _ | ⟨c1, _ | ⟨c2, _ | ⟨c3, _ | ⟨c4, _ | ⟨c5, _ | ⟨c6, _ | ⟨c7, _ | ⟨c8, r⟩⟩⟩⟩⟩⟩⟩⟩⟩
  · simp at h1
  · exact bezier1 c0 u
  · exact bezier2 c0 c1 u
  · exact bezier3 c0 c1 c2 u
  · exact bezier4 c0 c1 c2 c3 u
  · exact bezier5 c0 c1 c2 c3 c4 u
  · exact bezier6 c0 c1 c2 c3 c4 c5 u
  · exact bezier7 c0 c1 c2 c3 c4 c5 c6 u
  · exact bezier8 c0 c1 c2 c3 c4 c5 c6 c7 u
  · simp at h8

theorem takeVals_len (f : UInt8 → UInt8 → Rat) : ∀ (k : Nat) (bytes : Bytes) (vs : List Rat) (r : Bytes),
    takeVals f k bytes = some (vs, r) → vs.length = k
  | 0, _, vs, r, h => by simp [takeVals] at h; rw [h.1]; rfl
  | k + 1, [], _, _, h => by simp [takeVals] at h
  | k + 1, [_], _, _, h => by simp [takeVals] at h
  | k + 1, b0 :: b1 :: rest, vs, r, h => by
    simp only [takeVals] at h
    split at h
    · rename_i vs' r' hk
      injection h with h; injection h with h1 _
      rw [← h1]; simp [takeVals_len f k rest vs' r' hk]
    · cases h

theorem storedPoints_le (x : Nat) : storedPoints x ≤ 7 := by
  unfold storedPoints
  have : x % 4 < 4 := Nat.mod_lt _ (by decide)
  have h : x % 4 = 0 ∨ x % 4 = 1 ∨ x % 4 = 2 ∨ x % 4 = 3 := by omega
  rcases h with h | h | h | h <;> rw [h] <;> decide

/-- control-point lists of a decoded segment have 1..8 points -/
theorem decodeSeg_ctrl_len (scale : Nat) (start : Vec4) (rest : Bytes) (s : SegSpec) (r : Bytes)
    (h : decodeSeg scale start rest = some (s, r)) :
    (1 ≤ s.ctrl.x.length ∧ s.ctrl.x.length ≤ 8) ∧ (1 ≤ s.ctrl.y.length ∧ s.ctrl.y.length ≤ 8) ∧
    (1 ≤ s.ctrl.z.length ∧ s.ctrl.z.length ≤ 8) ∧ (1 ≤ s.ctrl.yaw.length ∧ s.ctrl.yaw.length ≤ 8) := by
  unfold decodeSeg at h
  split at h
  · rename_i hb d0 d1 r0
    split at h
    · cases h
    · rename_i xs r1 hx
      split at h
      · cases h
      · rename_i ys r2 hy
        split at h
        · cases h
        · rename_i zs r3 hz
          split at h
          · cases h
          · rename_i ws r4 hw
            injection h with h; injection h with h1 _
            subst h1
            have lx := takeVals_len _ _ _ _ _ hx
            have ly := takeVals_len _ _ _ _ _ hy
            have lz := takeVals_len _ _ _ _ _ hz
            have lw := takeVals_len _ _ _ _ _ hw
            have := storedPoints_le hb.toNat
            have := storedPoints_le (hb.toNat / 4)
            have := storedPoints_le (hb.toNat / 16)
            have := storedPoints_le (hb.toNat / 64)
            simp only [List.length_cons]
            omega
  · cases h

/-- end point after all segments -/
def endOf (segs : List SegSpec) (start : Vec4) : Vec4 := segs.foldl (fun st s => s.endPt st) start

/-- the specification's answer for a clamped query time -/
def posAtQ (segs : List SegSpec) (start : Vec4) (T : Nat) : QTime → Vec4
  | .fin q => posAt segs start T q
  | .pinf => endOf segs start
  | .nan => start

theorem secExact_eq (ms : Nat) : secExact ms = (ms : Rat) / 1000 := by
  unfold secExact
  have : ((Gen.msecPerSec : Nat) : Rat) = 1000 := by simp [Gen.msecPerSec]
  rw [this]

theorem eval_segOfSpec (sec : Nat → Rat) (off len T : Nat) (start : Vec4) (sp : SegSpec) (u : Rat)
    (hl : (1 ≤ sp.ctrl.x.length ∧ sp.ctrl.x.length ≤ 8) ∧ (1 ≤ sp.ctrl.y.length ∧ sp.ctrl.y.length ≤ 8) ∧
      (1 ≤ sp.ctrl.z.length ∧ sp.ctrl.z.length ≤ 8) ∧ (1 ≤ sp.ctrl.yaw.length ∧ sp.ctrl.yaw.length ≤ 8)) :
    (segOfSpec sec off len T start sp).poly.eval u = Vec4.ofAxes (fun c => bezier c u) sp.ctrl := by
  simp only [segOfSpec, mkSeg, Poly4.eval, Vec4.ofAxes]
  rw [bezier_any _ u hl.1.1 hl.1.2, bezier_any _ u hl.2.1.1 hl.2.1.2, bezier_any _ u hl.2.2.1.1 hl.2.2.1.2,
    bezier_any _ u hl.2.2.2.1 hl.2.2.2.2]

/-- **Position = specification**, by induction along the segment list. -/
theorem seek_pos_spec (tr : Traj) (hs : tr.scale ≠ 0) (t : QTime) (ht : t.valid) :
    ∀ (fd : Nat) (rest : Bytes) (off T : Nat) (start : Vec4) (fuel : Nat),
      tr.buf.drop off = rest → off ≤ tr.buf.length → rest.length ≤ fd →
      (∀ s, s ∈ decodeSegs tr.scale start rest fd → 1 ≤ s.durMs) →
      T + totalMs (decodeSegs tr.scale start rest fd) < 4294967296 →
      gtQ (secExact T) t = false →
      (decodeSegs tr.scale start rest fd).length < fuel →
      ∃ s', cseek (trajCur secExact tr) t fuel (buildSeg secExact tr off T start) = some s' ∧
        s'.poly.eval (relT s' t) = posAtQ (decodeSegs tr.scale start rest fd) start T t := by
  intro fd
  induction fd with
  | zero =>
    intro rest off T start fuel hr hoff hfd _ _ hgt hfuel
    have hnil : rest = [] := List.eq_nil_of_length_eq_zero (by omega)
    subst hnil
    obtain ⟨f, rfl⟩ : ∃ f, fuel = f + 1 := ⟨fuel - 1, by simp [decodeSegs] at hfuel; omega⟩
    have hb : buildSeg secExact tr off T start = terminalSeg secExact off T start := by
      rcases buildSegment_spec secExact tr off T start [] hs hr hoff with ⟨_, hb⟩ | ⟨s, r, hd, _⟩
      · simp [buildSeg, hb]
      · simp [decodeSeg] at hd
    refine ⟨terminalSeg secExact off T start, ?_, ?_⟩
    · rw [hb]; simp only [cseek, trajCur, terminalSeg, hgt, endLt]; simp
    · cases t <;> simp [decodeSegs, posAtQ, posAt, endOf, terminalSeg, relT, Poly4.const, Poly4.eval, Poly.eval]
  | succ fd ih =>
    intro rest off T start fuel hr hoff hfd hdur hwrap hgt hfuel
    obtain ⟨f, rfl⟩ : ∃ f, fuel = f + 1 := ⟨fuel - 1, by omega⟩
    rcases buildSegment_spec secExact tr off T start rest hs hr hoff with ⟨hd, hb⟩ | ⟨sp, r, hd, hlen, hdrop, hb⟩
    · -- no (complete) segment here
      have hbs : buildSeg secExact tr off T start = terminalSeg secExact off T start := by simp [buildSeg, hb]
      have hsegs : decodeSegs tr.scale start rest (fd + 1) = [] := by simp [decodeSegs, hd]
      refine ⟨terminalSeg secExact off T start, ?_, ?_⟩
      · rw [hbs]; simp only [cseek, trajCur, terminalSeg, hgt, endLt]; simp
      · rw [hsegs]
        cases t <;> simp [posAtQ, posAt, endOf, terminalSeg, relT, Poly4.const, Poly4.eval, Poly.eval]
    · have hbs : buildSeg secExact tr off T start = segOfSpec secExact off (rest.length - r.length) T start sp := by
        simp [buildSeg, hb]
      have hsegs : decodeSegs tr.scale start rest (fd + 1) = sp :: decodeSegs tr.scale (sp.endPt start) r fd := by
        simp [decodeSegs, hd]
      rw [hsegs] at hdur hwrap hfuel ⊢
      have hd1 : 1 ≤ sp.durMs := hdur sp (by simp)
      have hw : T + sp.durMs < 4294967296 := by
        simp only [totalMs, List.map_cons, List.sum_cons] at hwrap; omega
      have hctrl := decodeSeg_ctrl_len tr.scale start rest sp r hd
      have hst : (segOfSpec secExact off (rest.length - r.length) T start sp).startSec = secExact T := rfl
      have hen : (segOfSpec secExact off (rest.length - r.length) T start sp).endSec = some (secExact (T + sp.durMs)) := by
        simp only [segOfSpec, mkSeg, u32, Nat.mod_eq_of_lt hw]
      have hdu : (segOfSpec secExact off (rest.length - r.length) T start sp).durSec = some (secExact sp.durMs) := rfl
      have hcs : ∀ (sg : Seg) (n : Nat), cseek (trajCur secExact tr) t (n + 1) sg =
          if gtQ sg.startSec t = true then cseek (trajCur secExact tr) t n (trajCur secExact tr).rew
          else if endLt sg.endSec t = true then cseek (trajCur secExact tr) t n ((trajCur secExact tr).nxt sg)
          else some sg := fun _ _ => rfl
      -- does the seek stop here?
      by_cases hstop : endLt (some (secExact (T + sp.durMs))) t = false
      · refine ⟨segOfSpec secExact off (rest.length - r.length) T start sp, ?_, ?_⟩
        · rw [hbs, hcs, hst, hen, hgt, hstop]; simp
        · cases t with
          | nan => exact False.elim ht
          | pinf => simp [endLt, ltQ] at hstop
          | fin q =>
            simp only [endLt, ltQ, decide_eq_false_iff_not, not_lt] at hstop
            rw [eval_segOfSpec _ _ _ _ _ _ _ hctrl]
            simp only [posAtQ, posAt]
            rw [secExact_eq] at hstop
            rw [if_pos hstop]
            congr 1
            funext c
            congr 1
            simp only [relT, hdu, hst, secExact_eq]
            have hpos : absR ((sp.durMs : Rat) / 1000) > 1 / 1000000 := by
              unfold absR
              have h1 : (1 : Rat) ≤ (sp.durMs : Rat) := by exact_mod_cast hd1
              have h2 : ¬ ((sp.durMs : Rat) / 1000 < 0) := by
                have : (0 : Rat) ≤ (sp.durMs : Rat) / 1000 := div_nonneg (by linarith) (by norm_num)
                linarith
              rw [if_neg h2]
              have : (1 : Rat) / 1000 ≤ (sp.durMs : Rat) / 1000 := by
                apply div_le_div_of_nonneg_right h1 (by norm_num)
              linarith [show (1 : Rat) / 1000000 < 1 / 1000 by norm_num]
            rw [if_pos hpos]
      · -- move on to the next segment
        have hmove : endLt (some (secExact (T + sp.durMs))) t = true := by simpa using hstop
        have hnext : (trajCur secExact tr).nxt (segOfSpec secExact off (rest.length - r.length) T start sp)
            = buildSeg secExact tr (off + (rest.length - r.length)) (T + sp.durMs) (sp.endPt start) := by
          simp only [trajCur, segOfSpec, mkSeg, u32, Nat.mod_eq_of_lt hw]
          rfl
        have hgt' : gtQ (secExact (T + sp.durMs)) t = false := by
          cases t with
          | nan => exact False.elim ht
          | pinf => rfl
          | fin q =>
            simp only [endLt, ltQ, decide_eq_true_eq] at hmove
            simp only [gtQ, decide_eq_false_iff_not, not_lt]
            exact le_of_lt hmove
        have hoff' : off + (rest.length - r.length) ≤ tr.buf.length := by
          have : rest.length = tr.buf.length - off := by rw [← hr]; simp
          omega
        obtain ⟨s', hs', hv⟩ := ih r (off + (rest.length - r.length)) (T + sp.durMs) (sp.endPt start) f hdrop hoff'
          (by omega) (fun s hs => hdur s (by simp [hs]))
          (by simp only [totalMs, List.map_cons, List.sum_cons] at hwrap ⊢; omega)
          hgt' (by simp at hfuel; omega)
        refine ⟨s', ?_, ?_⟩
        · rw [hbs, hcs, hst, hen, hgt, hmove]
          simp only [Bool.false_eq_true, if_false, if_true]
          rw [hnext]; exact hs'
        · rw [hv]
          cases t with
          | nan => exact False.elim ht
          | pinf => simp [posAtQ, endOf]
          | fin q =>
            simp only [endLt, ltQ, decide_eq_true_eq] at hmove
            simp only [posAtQ, posAt]
            rw [secExact_eq] at hmove
            have : ¬ (q ≤ ((T + sp.durMs : Nat) : Rat) / 1000) := not_le.mpr hmove
            rw [if_neg this]

/-- the duration loop sums the durations of the decoded segments -/
theorem durLoop_spec (sec : Nat → Rat) (tr : Traj) (hs : tr.scale ≠ 0) :
    ∀ (fd : Nat) (rest : Bytes) (off T : Nat) (start : Vec4) (fuel acc : Nat),
      tr.buf.drop off = rest → off ≤ tr.buf.length → rest.length ≤ fd →
      (decodeSegs tr.scale start rest fd).length < fuel →
      ∃ p', durLoop sec fuel ⟨tr, buildSeg sec tr off T start⟩ acc =
        .ok (p', (decodeSegs tr.scale start rest fd).foldl (fun a s => u32 (a + s.durMs)) acc) := by
  intro fd
  induction fd with
  | zero =>
    intro rest off T start fuel acc hr hoff hfd hfuel
    have hnil : rest = [] := List.eq_nil_of_length_eq_zero (by omega)
    subst hnil
    obtain ⟨f, rfl⟩ : ∃ f, fuel = f + 1 := ⟨fuel - 1, by simp [decodeSegs] at hfuel; omega⟩
    have hb : buildSeg sec tr off T start = terminalSeg sec off T start := by
      rcases buildSegment_spec sec tr off T start [] hs hr hoff with ⟨_, hb⟩ | ⟨s, r, hd, _⟩
      · simp [buildSeg, hb]
      · simp [decodeSeg] at hd
    exact ⟨⟨tr, terminalSeg sec off T start⟩, by rw [hb]; simp [durLoop, Player.hasMore, terminalSeg, decodeSegs]⟩
  | succ fd ih =>
    intro rest off T start fuel acc hr hoff hfd hfuel
    obtain ⟨f, rfl⟩ : ∃ f, fuel = f + 1 := ⟨fuel - 1, by omega⟩
    rcases buildSegment_spec sec tr off T start rest hs hr hoff with ⟨hd, hb⟩ | ⟨sp, r, hd, hlen, hdrop, hb⟩
    · have hbs : buildSeg sec tr off T start = terminalSeg sec off T start := by simp [buildSeg, hb]
      exact ⟨⟨tr, terminalSeg sec off T start⟩, by rw [hbs]; simp [durLoop, Player.hasMore, terminalSeg, decodeSegs, hd]⟩
    · have hbs : buildSeg sec tr off T start = segOfSpec sec off (rest.length - r.length) T start sp := by
        simp [buildSeg, hb]
      have hsegs : decodeSegs tr.scale start rest (fd + 1) = sp :: decodeSegs tr.scale (sp.endPt start) r fd := by
        simp [decodeSegs, hd]
      rw [hsegs] at hfuel ⊢
      have hoff' : off + (rest.length - r.length) ≤ tr.buf.length := by
        have : rest.length = tr.buf.length - off := by rw [← hr]; simp
        omega
      obtain ⟨p', hp'⟩ := ih r (off + (rest.length - r.length)) (u32 (T + sp.durMs)) (sp.endPt start) f
        (u32 (acc + sp.durMs)) hdrop hoff' (by omega) (by simp at hfuel; omega)
      refine ⟨p', ?_⟩
      rw [hbs]
      have hmore : (⟨tr, segOfSpec sec off (rest.length - r.length) T start sp⟩ : Player).hasMore = true := by
        simp [Player.hasMore, segOfSpec, mkSeg]; omega
      simp only [durLoop, hmore, if_true, next_eq, bind, Except.bind, List.foldl_cons]
      exact hp'

theorem bezier_zero (c : List Rat) (h1 : 1 ≤ c.length) (h8 : c.length ≤ 8) : bezier c 0 = c.headD 0 := by
  rcases c with _ | ⟨c0, _ | ⟨c1, _ | ⟨c2, _ | ⟨c3, _ | ⟨c4, _ | ⟨c5, _ | ⟨c6, _ | ⟨c7, _ | ⟨c8, r⟩⟩⟩⟩⟩⟩⟩⟩⟩ <;>
    first
    | (simp at h1; done)
    | (simp at h8; done)
    | simp [bezier, bezierFrom, bernstein, choose]

theorem bezier_one (c : List Rat) (h1 : 1 ≤ c.length) (h8 : c.length ≤ 8) : bezier c 1 = c.getLastD 0 := by
  rcases c with _ | ⟨c0, _ | ⟨c1, _ | ⟨c2, _ | ⟨c3, _ | ⟨c4, _ | ⟨c5, _ | ⟨c6, _ | ⟨c7, _ | ⟨c8, r⟩⟩⟩⟩⟩⟩⟩⟩⟩ <;>
    first
    | (simp at h1; done)
    | (simp at h8; done)
    | simp [bezier, bezierFrom, bernstein, choose]

end Sb.Proofs
