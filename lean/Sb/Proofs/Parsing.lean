/-
Helper lemmas for C19 (codecs).
-/
import Sb.Spec.Parsing

namespace Sb.Proofs
open Sb Sb.Parsing Sb.Spec

theorem rd_append_add (pre mid post : Bytes) (i : Nat) (h : i < mid.length) :
    rd (pre ++ mid ++ post) (pre.length + i) = .ok (mid[i]).toNat := by
  simp [rd, List.getElem?_append_right, List.getElem?_append_left, h]

theorem rd_of_lt (b : Bytes) (i : Nat) (h : i < b.length) : rd b i = .ok (b[i]).toNat := by
  simp [rd, h]

theorem drop_take_cons (b : Bytes) (n off : Nat) (h1 : off < n) (h2 : n ≤ b.length) :
    (b.take n).drop off = b[off]'(by omega) :: (b.take n).drop (off + 1) := by
  have hlen : off < (b.take n).length := by simp [List.length_take]; omega
  rw [List.drop_eq_getElem_cons hlen]
  simp [List.getElem_take]

theorem drop_take_nil (b : Bytes) (n off : Nat) (h1 : n ≤ off) : (b.take n).drop off = [] := by
  apply List.drop_eq_nil_of_le
  simp [List.length_take]; omega

/-- byte-level facts (checked for all 256 byte values) -/
theorem byte_facts_list : (List.range 256).all (fun x =>
    (x &&& 0x7f == x % 128) && (decide (x &&& 0x80 = 0) == decide (x < 128)) &&
    (x >>> 4 == x / 16)) = true := by decide +kernel

theorem byte_facts (x : Fin 256) :
    (x.val &&& 0x7f = x.val % 128) ∧ ((x.val &&& 0x80 = 0) ↔ x.val < 128) ∧
    (x.val >>> 4 = x.val / 16) := by
  have := List.all_eq_true.mp byte_facts_list x.val (List.mem_range.mpr x.isLt)
  simp only [Bool.and_eq_true, beq_iff_eq, decide_eq_decide] at this
  exact ⟨this.1.1, this.1.2, this.2⟩

theorem and7f (x : UInt8) : x.toNat &&& 0x7f = x.toNat % 128 := (byte_facts ⟨x.toNat, x.toNat_lt⟩).1
theorem and80 (x : UInt8) : (x.toNat &&& 0x80 = 0) ↔ x.toNat < 128 := (byte_facts ⟨x.toNat, x.toNat_lt⟩).2.1
theorem shr4 (x : UInt8) : x.toNat >>> 4 = x.toNat / 16 := (byte_facts ⟨x.toNat, x.toNat_lt⟩).2.2

/-- the skipping loop: after an over-long or too-large prefix ending in `byte` -/
theorem skip_spec (b : Bytes) (n off byte : Nat) (hn : n ≤ b.length) :
    varuintSkip b n off byte =
      if byte &&& 0x80 = 0 then .overflow off
      else match scan ((b.take n).drop off) with
        | none => .parse (max off n)
        | some (len, _) => .overflow (off + len) := by
  fun_induction varuintSkip b n off byte with
  | case1 off byte h => simp [h]
  | case2 off byte h hoff =>
    simp only [h, if_false]
    rw [drop_take_nil b n off hoff]
    simp [scan]; omega
  | case3 off byte h hoff e hrd =>
    exfalso
    have : off < b.length := by omega
    rw [rd_of_lt b off this] at hrd
    cases hrd
  | case4 off byte h hoff byte' hrd ih =>
    simp only [h, if_false]
    have hlt : off < b.length := by omega
    rw [rd_of_lt b off hlt] at hrd
    injection hrd with hrd
    subst hrd
    rw [drop_take_cons b n off (by omega) hn, ih]
    simp only [scan, and80]
    by_cases hb : b[off].toNat < 128
    · simp [hb]
    · simp only [hb, if_false]
      cases scan (List.drop (off + 1) (List.take n b)) with
      | none => simp; omega
      | some p => simp; omega

end Sb.Proofs

namespace Sb.Proofs
open Sb Sb.Parsing Sb.Spec

theorem scan_len_pos : ∀ (l : List UInt8) (len v : Nat), scan l = some (len, v) → 1 ≤ len
  | [], _, _, h => by simp [scan] at h
  | x :: xs, len, v, h => by
    simp only [scan] at h
    split at h
    · injection h with h; injection h with h1 _; omega
    · split at h
      · cases h
      · injection h with h; injection h with h1 _; omega

/-- what the main loop must return when entered after `j` bytes with accumulated `value` -/
def loopSpec (b : Bytes) (n off value j P : Nat) : VarRes :=
  match scan ((b.take n).drop off) with
  | none => .parse (max off n)
  | some (len, v) =>
    if j + len ≤ 5 ∧ value + P * v < 4294967296 then .ok (value + P * v) (off + len)
    else .overflow (off + len)

theorem loop_spec4 (b : Bytes) (n off value : Nat) (hn : n ≤ b.length) (hv : value < 268435456) :
    varuintLoop b n off value 28 4 = loopSpec b n off value 4 268435456 := by
  unfold varuintLoop loopSpec
  by_cases hoff : off ≥ n
  · simp only [hoff, dif_pos]
    rw [drop_take_nil b n off hoff]; simp [scan]; omega
  · simp only [hoff, dif_neg, not_false_eq_true]
    have hlt : off < b.length := by omega
    rw [rd_of_lt b off hlt, drop_take_cons b n off (by omega) hn]
    simp only [scan, skip_spec b n (off + 1) _ hn, and80, and7f, shr4, Nat.shiftLeft_eq]
    have hx := b[off].toNat_lt
    by_cases hb : b[off].toNat < 128
    · simp only [hb, if_true]
      by_cases h16 : b[off].toNat / 16 > 0
      · have : ¬ (4 + 1 ≤ 5 ∧ value + 268435456 * b[off].toNat < 4294967296) := by omega
        simp [h16]; omega
      · have h1 : b[off].toNat % 128 = b[off].toNat := by omega
        have h2 : (value + b[off].toNat * 2 ^ 28) % 4294967296 = value + 268435456 * b[off].toNat := by omega
        have h3 : (4 + 1 ≤ 5 ∧ value + 268435456 * b[off].toNat < 4294967296) := by omega
        simp [h16, h1, h2, h3]
    · have h16 : b[off].toNat / 16 > 0 := by omega
      simp only [hb, if_false, h16, and_self, if_true]
      cases hs : scan (List.drop (off + 1) (List.take n b)) with
      | none =>
        have h1 : max (off + 1) n = n := Nat.max_eq_right (by omega)
        have h2 : max off n = n := Nat.max_eq_right (by omega)
        simp [h1, h2]
      | some p =>
        have hp := scan_len_pos _ _ _ hs
        have : ¬ (4 + (p.1 + 1) ≤ 5) := by omega
        simp [this]; omega


theorem loop_spec3 (b : Bytes) (n off value : Nat) (hn : n ≤ b.length) (hv : value < 2097152) :
    varuintLoop b n off value 21 11 = loopSpec b n off value 3 2097152 := by
  unfold varuintLoop loopSpec
  by_cases hoff : off ≥ n
  · simp only [hoff, dif_pos]
    rw [drop_take_nil b n off hoff]; simp [scan]; omega
  · simp only [hoff, dif_neg, not_false_eq_true]
    have hlt : off < b.length := by omega
    rw [rd_of_lt b off hlt, drop_take_cons b n off (by omega) hn]
    have hx := b[off].toNat_lt
    have hmod : (value + b[off].toNat % 128 * 2 ^ 21) % 4294967296 = value + 2097152 * (b[off].toNat % 128) := by
      have : b[off].toNat % 128 < 128 := Nat.mod_lt _ (by omega)
      omega
    have hnext : value + 2097152 * (b[off].toNat % 128) < 268435456 := by
      have : b[off].toNat % 128 < 128 := Nat.mod_lt _ (by omega)
      omega
    simp only [scan, and80, and7f, Nat.shiftLeft_eq, hmod, show ¬ (11 < 7) by omega, false_and, if_false]
    by_cases hb : b[off].toNat < 128
    · have h1 : b[off].toNat % 128 = b[off].toNat := by omega
      have h3 : (3 + 1 ≤ 5 ∧ value + 2097152 * b[off].toNat < 4294967296) := by omega
      simp [hb, h1, h3] <;> omega
    · simp only [hb, if_false, show ¬ (21 + 7 > 31) by omega]
      have := loop_spec4 b n (off + 1) (value + 2097152 * (b[off].toNat % 128)) hn hnext
      simp only [show 21 + 7 = 28 by rfl, show 11 - 7 = 4 by rfl]
      rw [this]
      unfold loopSpec
      cases hs : scan (List.drop (off + 1) (List.take n b)) with
      | none =>
        have h1 : max (off + 1) n = n := Nat.max_eq_right (by omega)
        have h2 : max off n = n := Nat.max_eq_right (by omega)
        simp [h1, h2]
      | some p =>
        simp only
        have e1 : value + 2097152 * (b[off].toNat % 128) + 268435456 * p.2 = value + 2097152 * (b[off].toNat % 128 + 128 * p.2) := by omega
        have e2 : off + 1 + p.1 = off + (p.1 + 1) := by omega
        have e3 : (4 + p.1 ≤ 5) ↔ (3 + (p.1 + 1) ≤ 5) := by omega
        rw [e1, e2]; simp only [e3]

theorem loop_spec2 (b : Bytes) (n off value : Nat) (hn : n ≤ b.length) (hv : value < 16384) :
    varuintLoop b n off value 14 18 = loopSpec b n off value 2 16384 := by
  unfold varuintLoop loopSpec
  by_cases hoff : off ≥ n
  · simp only [hoff, dif_pos]
    rw [drop_take_nil b n off hoff]; simp [scan]; omega
  · simp only [hoff, dif_neg, not_false_eq_true]
    have hlt : off < b.length := by omega
    rw [rd_of_lt b off hlt, drop_take_cons b n off (by omega) hn]
    have hx := b[off].toNat_lt
    have hmod : (value + b[off].toNat % 128 * 2 ^ 14) % 4294967296 = value + 16384 * (b[off].toNat % 128) := by
      have : b[off].toNat % 128 < 128 := Nat.mod_lt _ (by omega)
      omega
    have hnext : value + 16384 * (b[off].toNat % 128) < 2097152 := by
      have : b[off].toNat % 128 < 128 := Nat.mod_lt _ (by omega)
      omega
    simp only [scan, and80, and7f, Nat.shiftLeft_eq, hmod, show ¬ (18 < 7) by omega, false_and, if_false]
    by_cases hb : b[off].toNat < 128
    · have h1 : b[off].toNat % 128 = b[off].toNat := by omega
      have h3 : (2 + 1 ≤ 5 ∧ value + 16384 * b[off].toNat < 4294967296) := by omega
      simp [hb, h1, h3] <;> omega
    · simp only [hb, if_false, show ¬ (14 + 7 > 31) by omega]
      have := loop_spec3 b n (off + 1) (value + 16384 * (b[off].toNat % 128)) hn hnext
      simp only [show 14 + 7 = 21 by rfl, show 18 - 7 = 11 by rfl]
      rw [this]
      unfold loopSpec
      cases hs : scan (List.drop (off + 1) (List.take n b)) with
      | none =>
        have h1 : max (off + 1) n = n := Nat.max_eq_right (by omega)
        have h2 : max off n = n := Nat.max_eq_right (by omega)
        simp [h1, h2]
      | some p =>
        simp only
        have e1 : value + 16384 * (b[off].toNat % 128) + 2097152 * p.2 = value + 16384 * (b[off].toNat % 128 + 128 * p.2) := by omega
        have e2 : off + 1 + p.1 = off + (p.1 + 1) := by omega
        have e3 : (3 + p.1 ≤ 5) ↔ (2 + (p.1 + 1) ≤ 5) := by omega
        rw [e1, e2]; simp only [e3]

theorem loop_spec1 (b : Bytes) (n off value : Nat) (hn : n ≤ b.length) (hv : value < 128) :
    varuintLoop b n off value 7 25 = loopSpec b n off value 1 128 := by
  unfold varuintLoop loopSpec
  by_cases hoff : off ≥ n
  · simp only [hoff, dif_pos]
    rw [drop_take_nil b n off hoff]; simp [scan]; omega
  · simp only [hoff, dif_neg, not_false_eq_true]
    have hlt : off < b.length := by omega
    rw [rd_of_lt b off hlt, drop_take_cons b n off (by omega) hn]
    have hx := b[off].toNat_lt
    have hmod : (value + b[off].toNat % 128 * 2 ^ 7) % 4294967296 = value + 128 * (b[off].toNat % 128) := by
      have : b[off].toNat % 128 < 128 := Nat.mod_lt _ (by omega)
      omega
    have hnext : value + 128 * (b[off].toNat % 128) < 16384 := by
      have : b[off].toNat % 128 < 128 := Nat.mod_lt _ (by omega)
      omega
    simp only [scan, and80, and7f, Nat.shiftLeft_eq, hmod, show ¬ (25 < 7) by omega, false_and, if_false]
    by_cases hb : b[off].toNat < 128
    · have h1 : b[off].toNat % 128 = b[off].toNat := by omega
      have h3 : (1 + 1 ≤ 5 ∧ value + 128 * b[off].toNat < 4294967296) := by omega
      simp [hb, h1, h3] <;> omega
    · simp only [hb, if_false, show ¬ (7 + 7 > 31) by omega]
      have := loop_spec2 b n (off + 1) (value + 128 * (b[off].toNat % 128)) hn hnext
      simp only [show 7 + 7 = 14 by rfl, show 25 - 7 = 18 by rfl]
      rw [this]
      unfold loopSpec
      cases hs : scan (List.drop (off + 1) (List.take n b)) with
      | none =>
        have h1 : max (off + 1) n = n := Nat.max_eq_right (by omega)
        have h2 : max off n = n := Nat.max_eq_right (by omega)
        simp [h1, h2]
      | some p =>
        simp only
        have e1 : value + 128 * (b[off].toNat % 128) + 16384 * p.2 = value + 128 * (b[off].toNat % 128 + 128 * p.2) := by omega
        have e2 : off + 1 + p.1 = off + (p.1 + 1) := by omega
        have e3 : (2 + p.1 ≤ 5) ↔ (1 + (p.1 + 1) ≤ 5) := by omega
        rw [e1, e2]; simp only [e3]

theorem loop_spec0 (b : Bytes) (n off value : Nat) (hn : n ≤ b.length) (hv : value < 1) :
    varuintLoop b n off value 0 32 = loopSpec b n off value 0 1 := by
  unfold varuintLoop loopSpec
  by_cases hoff : off ≥ n
  · simp only [hoff, dif_pos]
    rw [drop_take_nil b n off hoff]; simp [scan]; omega
  · simp only [hoff, dif_neg, not_false_eq_true]
    have hlt : off < b.length := by omega
    rw [rd_of_lt b off hlt, drop_take_cons b n off (by omega) hn]
    have hx := b[off].toNat_lt
    have hmod : (value + b[off].toNat % 128 * 2 ^ 0) % 4294967296 = value + 1 * (b[off].toNat % 128) := by
      have : b[off].toNat % 128 < 128 := Nat.mod_lt _ (by omega)
      omega
    have hnext : value + 1 * (b[off].toNat % 128) < 128 := by
      have : b[off].toNat % 128 < 128 := Nat.mod_lt _ (by omega)
      omega
    simp only [scan, and80, and7f, Nat.shiftLeft_eq, hmod, show ¬ (32 < 7) by omega, false_and, if_false]
    by_cases hb : b[off].toNat < 128
    · have h1 : b[off].toNat % 128 = b[off].toNat := by omega
      have h3 : (0 + 1 ≤ 5 ∧ value + 1 * b[off].toNat < 4294967296) := by omega
      simp [hb, h1, h3] <;> omega
    · simp only [hb, if_false, show ¬ (0 + 7 > 31) by omega]
      have := loop_spec1 b n (off + 1) (value + 1 * (b[off].toNat % 128)) hn hnext
      simp only [show 0 + 7 = 7 by rfl, show 32 - 7 = 25 by rfl]
      rw [this]
      unfold loopSpec
      cases hs : scan (List.drop (off + 1) (List.take n b)) with
      | none =>
        have h1 : max (off + 1) n = n := Nat.max_eq_right (by omega)
        have h2 : max off n = n := Nat.max_eq_right (by omega)
        simp [h1, h2]
      | some p =>
        simp only
        have e1 : value + 1 * (b[off].toNat % 128) + 128 * p.2 = value + 1 * (b[off].toNat % 128 + 128 * p.2) := by omega
        have e2 : off + 1 + p.1 = off + (p.1 + 1) := by omega
        have e3 : (1 + p.1 ≤ 5) ↔ (0 + (p.1 + 1) ≤ 5) := by omega
        rw [e1, e2]; simp only [e3]

/-- The model of `sb_parse_varuint32` equals the declarative specification, for every buffer,
every claimed length `n` not exceeding the buffer, and every start offset. -/
theorem parseVaruint32_eq_spec (b : Bytes) (n off : Nat) (hn : n ≤ b.length) :
    parseVaruint32 b n off = varuintSpec b n off := by
  unfold parseVaruint32 varuintSpec
  rw [loop_spec0 b n off 0 hn (by omega)]
  unfold loopSpec
  cases scan (List.drop off (List.take n b)) with
  | none => rfl
  | some p => simp

end Sb.Proofs

namespace Sb.Proofs
open Sb Sb.Parsing

theorem rd_lt (b : Bytes) (i v : Nat) (h : rd b i = .ok v) : v < 256 := by
  unfold rd at h
  split at h
  · rename_i x _
    injection h with h; rw [← h]; exact x.toNat_lt
  · cases h

theorem u16_range (b : Bytes) (off : Nat) (r : Nat × Nat) (h : parseU16 b off = .ok r) : r.1 < 65536 := by
  unfold parseU16 at h
  cases h1 : rd b (off + 1) with
  | error e => rw [h1] at h; simp [bind, Except.bind] at h
  | ok hi =>
    cases h0 : rd b off with
    | error e => rw [h1, h0] at h; simp [bind, Except.bind] at h
    | ok lo =>
      rw [h1, h0] at h
      simp only [bind, Except.bind, pure, Except.pure] at h
      injection h with h
      rw [← h]
      have := rd_lt b _ _ h1
      have := rd_lt b _ _ h0
      simp only [Nat.shiftLeft_eq]
      omega

/-- a parsed 16-bit signed value is in range -/
theorem i16_range (b : Bytes) (off : Nat) (r : Int × Nat) (h : parseI16 b off = .ok r) :
    -32768 ≤ r.1 ∧ r.1 < 32768 := by
  unfold parseI16 at h
  cases hu : parseU16 b off with
  | error e => rw [hu] at h; simp [bind, Except.bind] at h
  | ok u =>
    rw [hu] at h
    simp only [bind, Except.bind, pure, Except.pure] at h
    injection h with h
    rw [← h]
    have := u16_range b off u hu
    simp only [toInt16]
    split <;> omega

end Sb.Proofs
