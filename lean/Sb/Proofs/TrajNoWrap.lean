/-
For every trajectory block that the container can carry (≤ 65535 bytes) the millisecond counters of the segment chain
stay below 2^32: the hypothesis `NoWrap` of the history-independence theorems (C08) is a theorem there.
-/
import Sb.Proofs.TrajCursor

namespace Sb.Proofs
open Sb Sb.Poly Sb.Traj Sb.Spec

/-- whether a segment can be decoded does not depend on the start point handed in -/
theorem decodeSeg_none_indep (sc : Nat) (st st' : Vec4) (rest : Bytes) (h : decodeSeg sc st rest = none) :
    decodeSeg sc st' rest = none := by
  unfold decodeSeg at h ⊢
  rcases rest with _ | ⟨hd, _ | ⟨d0, _ | ⟨d1, r0⟩⟩⟩
  · rfl
  · rfl
  · rfl
  · simp only at h ⊢
    cases h1 : takeVals (coordOf sc) (storedPoints hd.toNat) r0 with
    | none => rfl
    | some p1 =>
      obtain ⟨xs, r1⟩ := p1
      rw [h1] at h
      simp only at h ⊢
      cases h2 : takeVals (coordOf sc) (storedPoints (hd.toNat / 4)) r1 with
      | none => rfl
      | some p2 =>
        obtain ⟨ys, r2⟩ := p2
        rw [h2] at h
        simp only at h ⊢
        cases h3 : takeVals (coordOf sc) (storedPoints (hd.toNat / 16)) r2 with
        | none => rfl
        | some p3 =>
          obtain ⟨zs, r3⟩ := p3
          rw [h3] at h
          simp only at h ⊢
          cases h4 : takeVals angleOf (storedPoints (hd.toNat / 64)) r3 with
          | none => rfl
          | some p4 =>
            obtain ⟨ws, r4⟩ := p4
            rw [h4] at h
            simp at h

theorem decodeSeg_durMs (sc : Nat) (st : Vec4) (rest : Bytes) (s : SegSpec) (r : Bytes)
    (h : decodeSeg sc st rest = some (s, r)) : s.durMs ≤ 65535 := by
  unfold decodeSeg at h
  rcases rest with _ | ⟨hd, _ | ⟨d0, _ | ⟨d1, r0⟩⟩⟩
  · cases h
  · cases h
  · cases h
  · simp only at h
    cases h1 : takeVals (coordOf sc) (storedPoints hd.toNat) r0 with
    | none => rw [h1] at h; cases h
    | some p1 =>
      obtain ⟨xs, r1⟩ := p1
      rw [h1] at h
      simp only at h
      cases h2 : takeVals (coordOf sc) (storedPoints (hd.toNat / 4)) r1 with
      | none => rw [h2] at h; cases h
      | some p2 =>
        obtain ⟨ys, r2⟩ := p2
        rw [h2] at h
        simp only at h
        cases h3 : takeVals (coordOf sc) (storedPoints (hd.toNat / 16)) r2 with
        | none => rw [h3] at h; cases h
        | some p3 =>
          obtain ⟨zs, r3⟩ := p3
          rw [h3] at h
          simp only at h
          cases h4 : takeVals angleOf (storedPoints (hd.toNat / 64)) r3 with
          | none => rw [h4] at h; cases h
          | some p4 =>
            obtain ⟨ws, r4⟩ := p4
            rw [h4] at h
            simp only [Option.some.injEq, Prod.mk.injEq] at h
            obtain ⟨hs, _⟩ := h
            rw [← hs]
            simp only
            have := d0.toNat_lt; have := d1.toNat_lt
            omega

/-- every built segment lasts at most 65535 ms -/
theorem buildSeg_durMs (sec : Nat → Rat) (tr : Traj) (off T : Nat) (st : Vec4) : (buildSeg sec tr off T st).durMs ≤ 65535 := by
  by_cases h0 : off ≥ tr.buf.length ∨ tr.scale = 0
  · have : buildSegment sec tr off T st = .ok (terminalSeg sec off T st) := by simp [buildSegment, h0]
    unfold buildSeg; rw [this]
    simp only [terminalSeg]; omega
  · have hs : tr.scale ≠ 0 := fun h => h0 (Or.inr h)
    have hoff : off < tr.buf.length := by
      by_contra hh; exact h0 (Or.inl (by omega))
    rcases buildSegment_spec sec tr off T st _ hs rfl (by omega) with ⟨_, hb⟩ | ⟨s, r, hd, _, _, hb⟩
    · unfold buildSeg; rw [hb]; simp only [terminalSeg]; omega
    · unfold buildSeg; rw [hb]
      simp only [segOfSpec, mkSeg]
      exact decodeSeg_durMs _ _ _ s r hd

/-- whether the segment at an offset is the terminal one depends on the block and the offset only -/
theorem buildSeg_terminal_indep (sec : Nat → Rat) (tr : Traj) (off T T' : Nat) (st st' : Vec4)
    (h : (buildSeg sec tr off T st).length = 0) : (buildSeg sec tr off T' st').length = 0 := by
  by_cases h0 : off ≥ tr.buf.length ∨ tr.scale = 0
  · have : buildSegment sec tr off T' st' = .ok (terminalSeg sec off T' st') := by simp [buildSegment, h0]
    unfold buildSeg; rw [this]; rfl
  · have hs : tr.scale ≠ 0 := fun hh => h0 (Or.inr hh)
    have hoff : off < tr.buf.length := by
      by_contra hh; exact h0 (Or.inl (by omega))
    rcases buildSegment_spec sec tr off T st _ hs rfl (by omega) with ⟨hnone, _⟩ | ⟨s, r, _, hlen, _, hb⟩
    · have hnone' := decodeSeg_none_indep tr.scale st st' _ hnone
      rcases buildSegment_spec sec tr off T' st' _ hs rfl (by omega) with ⟨_, hb'⟩ | ⟨s', r', hd', _, _, _⟩
      · unfold buildSeg; rw [hb']; rfl
      · rw [hnone'] at hd'; cases hd'
    · exfalso
      unfold buildSeg at h
      rw [hb] at h
      simp only [segOfSpec, mkSeg] at h
      omega

theorem traj_terminal_persists (sec : Nat → Rat) (tr : Traj) (k : Nat) (h0 : ((trajCur sec tr).chain k).length = 0) :
    ((trajCur sec tr).chain (k + 1)).length = 0 := by
  have hb := buildSeg_built sec tr (((trajCur sec tr).chain k).startOff + ((trajCur sec tr).chain k).length)
    ((trajCur sec tr).chain k).endMs ((trajCur sec tr).chain k).endPt
  -- chain (k+1) is built at the same offset as chain k
  have hsame : ((trajCur sec tr).chain k).startOff + ((trajCur sec tr).chain k).length = ((trajCur sec tr).chain k).startOff := by
    rw [h0]; rfl
  show (buildSeg sec tr (((trajCur sec tr).chain k).startOff + ((trajCur sec tr).chain k).length)
    ((trajCur sec tr).chain k).endMs ((trajCur sec tr).chain k).endPt).length = 0
  rw [hsame]
  cases k with
  | zero =>
    have hso : ((trajCur sec tr).chain 0).startOff = tr.headerLength := (buildSeg_built sec tr _ _ _).2.1
    rw [hso]
    exact buildSeg_terminal_indep sec tr tr.headerLength 0 _ tr.start _ h0
  | succ j =>
    have hso := (chain_succ_start sec tr j).2
    rw [hso]
    exact buildSeg_terminal_indep sec tr _ ((trajCur sec tr).chain j).endMs _ ((trajCur sec tr).chain j).endPt _ h0

theorem traj_chain_durMs (sec : Nat → Rat) (tr : Traj) (k : Nat) : ((trajCur sec tr).chain k).durMs ≤ 65535 := by
  cases k with
  | zero => exact buildSeg_durMs sec tr _ _ _
  | succ k => exact buildSeg_durMs sec tr _ _ _

/-- along the non-terminal part of the chain the start time is bounded by 65535 ms per three bytes passed -/
theorem traj_chain_time_bound (sec : Nat → Rat) (tr : Traj) (hlen : tr.buf.length ≤ 65535) (k : Nat)
    (hk : ((trajCur sec tr).chain k).length ≠ 0) :
    ((trajCur sec tr).chain k).startMs ≤ 65535 * (((trajCur sec tr).chain k).startOff / 3) := by
  induction k with
  | zero =>
    have : ((trajCur sec tr).chain 0).startMs = 0 := (buildSeg_built sec tr _ _ _).2.2
    rw [this]; omega
  | succ k ih =>
    have hprev : ((trajCur sec tr).chain k).length ≠ 0 := by
      intro h0; exact hk (traj_terminal_persists sec tr k h0)
    have ihk := ih hprev
    have hd := traj_chain_durMs sec tr k
    rcases (chain_built sec tr k).shape with ⟨h0, _⟩ | ⟨h3, _, _, hend, hfit, _⟩
    · exact absurd h0 hprev
    · obtain ⟨hms, hso⟩ := chain_succ_start sec tr k
      rw [hms, hso, hend]
      have hq : ((trajCur sec tr).chain k).startOff / 3 ≤ 21844 := by omega
      have hsum : ((trajCur sec tr).chain k).startMs + ((trajCur sec tr).chain k).durMs < 4294967296 := by
        have : ((trajCur sec tr).chain k).startMs ≤ 65535 * 21844 := by
          calc ((trajCur sec tr).chain k).startMs ≤ 65535 * (((trajCur sec tr).chain k).startOff / 3) := ihk
            _ ≤ 65535 * 21844 := by omega
        omega
      unfold u32
      rw [Nat.mod_eq_of_lt hsum]
      have : ((trajCur sec tr).chain k).startOff / 3 + 1 ≤
          (((trajCur sec tr).chain k).startOff + ((trajCur sec tr).chain k).length) / 3 := by omega
      calc ((trajCur sec tr).chain k).startMs + ((trajCur sec tr).chain k).durMs
          ≤ 65535 * (((trajCur sec tr).chain k).startOff / 3) + 65535 := by omega
        _ = 65535 * (((trajCur sec tr).chain k).startOff / 3 + 1) := by omega
        _ ≤ 65535 * ((((trajCur sec tr).chain k).startOff + ((trajCur sec tr).chain k).length) / 3) :=
            Nat.mul_le_mul_left _ this

/-- **every trajectory block that fits the container's 16-bit block length keeps its millisecond counters below 2^32** -/
theorem noWrap_of_block (sec : Nat → Rat) (tr : Traj) (hlen : tr.buf.length ≤ 65535) : NoWrap sec tr := by
  intro k hk
  have hb := traj_chain_time_bound sec tr hlen k hk
  have hd := traj_chain_durMs sec tr k
  rcases (chain_built sec tr k).shape with ⟨h0, _⟩ | ⟨_, _, _, _, hfit, _⟩
  · exact absurd h0 hk
  · have hq : ((trajCur sec tr).chain k).startOff / 3 ≤ 21845 := by omega
    have : ((trajCur sec tr).chain k).startMs ≤ 65535 * 21845 := by
      calc ((trajCur sec tr).chain k).startMs ≤ 65535 * (((trajCur sec tr).chain k).startOff / 3) := hb
        _ ≤ 65535 * 21845 := by omega
    omega

end Sb.Proofs
