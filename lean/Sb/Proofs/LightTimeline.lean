/-
C02: straight-line light programs (sleep / set colour / fade / pyro / no-op) against their documented meaning.
Part 1: reading the bytecode of an encoded command list.
-/
import Sb.Proofs.LightLatitude
import Sb.Properties.C02

namespace Sb.Proofs.Light
open Sb Sb.Lights

/-- LEB128, as the format stores durations -/
def varint (n : Nat) : Bytes :=
  if h : n < 128 then [UInt8.ofNat n] else UInt8.ofNat (n % 128 + 128) :: varint (n / 128)
termination_by n
decreasing_by omega

theorem varint_length_pos (n : Nat) : 1 ≤ (varint n).length := by
  rw [varint]; split <;> simp

theorem varint_length_le (n : Nat) (h : n < 2097152) : (varint n).length ≤ 3 := by
  rw [varint]
  split
  · simp
  · rw [varint]
    split
    · simp
    · rw [varint]
      split
      · simp
      · omega

theorem byteAt_of_get (prog : Bytes) (size pc : Nat) (b : UInt8) (h : pc < size) (hb : prog[pc]? = some b) :
    byteAt prog size pc = (b.toNat, pc + 1) := by
  unfold byteAt
  rw [if_pos h, hb]

theorem get_of_drop (prog : Bytes) (pc : Nat) (b : UInt8) (rest : Bytes) (h : prog.drop pc = b :: rest) :
    prog[pc]? = some b ∧ prog.drop (pc + 1) = rest := by
  constructor
  · have := congrArg List.head? h
    simpa [List.head?_drop] using this
  · have : prog.drop (pc + 1) = (prog.drop pc).drop 1 := by rw [List.drop_drop]
    rw [this, h]; rfl

theorem byte_bits : ∀ x, x < 256 → ((x &&& 0x80 ≠ 0 ↔ 128 ≤ x) ∧ x &&& 0x7f = x % 128) := by decide +kernel

/-- decoding an encoded duration (below 2^21, so at most three bytes and no 64-bit truncation) -/
theorem varintAt_varint (prog : Bytes) (size : Nat) : ∀ (d fuel pc result shift : Nat) (rest : Bytes),
    d < 2 ^ (21 - shift) → shift ≤ 21 → result < 2 ^ shift →
    prog.drop pc = varint d ++ rest → pc + (varint d).length ≤ size → (varint d).length ≤ fuel →
    varintAt prog size fuel pc result shift = (result + d * 2 ^ shift, pc + (varint d).length) := by
  intro d
  induction d using Nat.strong_induction_on with
  | _ d ih =>
    intro fuel pc result shift rest hd hs hr hdrop hsize hfuel
    rw [varint] at hdrop hsize hfuel ⊢
    have hW : (2 : Nat) ^ 21 < W := by decide
    have hpow : (2 : Nat) ^ shift * 2 ^ (21 - shift) = 2 ^ 21 := by rw [← Nat.pow_add]; congr 1; omega
    have hlt21 : result + d * 2 ^ shift < 2 ^ 21 := by
      have : d * 2 ^ shift + 2 ^ shift ≤ 2 ^ (21 - shift) * 2 ^ shift := by
        have : d + 1 ≤ 2 ^ (21 - shift) := hd
        calc d * 2 ^ shift + 2 ^ shift = (d + 1) * 2 ^ shift := by ring
          _ ≤ 2 ^ (21 - shift) * 2 ^ shift := Nat.mul_le_mul_right _ this
      rw [Nat.mul_comm] at hpow
      omega
    by_cases h128 : d < 128
    · rw [dif_pos h128] at hdrop hsize hfuel ⊢
      simp only [List.length_singleton] at hsize hfuel ⊢
      obtain ⟨f, rfl⟩ : ∃ f, fuel = f + 1 := ⟨fuel - 1, by omega⟩
      obtain ⟨hg, _⟩ := get_of_drop prog pc _ _ hdrop
      unfold varintAt
      rw [byteAt_of_get prog size pc _ (by omega) hg]
      have hb : (UInt8.ofNat d).toNat = d := by
        rw [UInt8.toNat_ofNat']; omega
      simp only [hb]
      obtain ⟨bb1, bb2⟩ := byte_bits d (by omega)
      have h1 : d &&& 0x80 = 0 := by
        by_contra hc
        have := bb1.mp hc
        omega
      have h2 : d &&& 0x7f = d := by rw [bb2]; omega
      have hsh : shift < 64 := by omega
      rw [if_pos hsh]
      simp only [h1, h2, ne_eq, not_true_eq_false, if_false]
      have hor : result ||| d <<< shift = result + d * 2 ^ shift := by
        rw [Nat.or_comm, ← Nat.shiftLeft_add_eq_or_of_lt hr, Nat.shiftLeft_eq, Nat.add_comm]
      rw [hor, Nat.mod_eq_of_lt (by omega)]
    · rw [dif_neg h128] at hdrop hsize hfuel ⊢
      simp only [List.length_cons] at hsize hfuel ⊢
      obtain ⟨f, rfl⟩ : ∃ f, fuel = f + 1 := ⟨fuel - 1, by omega⟩
      obtain ⟨hg, hrest⟩ := get_of_drop prog pc _ _ hdrop
      unfold varintAt
      rw [byteAt_of_get prog size pc _ (by have := varint_length_pos (d / 128); omega) hg]
      have hb : (UInt8.ofNat (d % 128 + 128)).toNat = d % 128 + 128 := by
        rw [UInt8.toNat_ofNat']; omega
      simp only [hb]
      obtain ⟨bb1, bb2⟩ := byte_bits (d % 128 + 128) (by omega)
      have h1 : (d % 128 + 128) &&& 0x80 ≠ 0 := bb1.mpr (by omega)
      have h2 : (d % 128 + 128) &&& 0x7f = d % 128 := by rw [bb2]; omega
      have hsh : shift < 64 := by omega
      rw [if_pos hsh]
      simp only [h2]
      rw [if_pos h1]
      have hshift7 : shift < 14 := by
        by_contra hc
        have : (2 : Nat) ^ (21 - shift) ≤ 2 ^ 7 := Nat.pow_le_pow_right (by decide) (by omega)
        have h7 : (2 : Nat) ^ 7 = 128 := by decide
        omega
      have hor : result ||| (d % 128) <<< shift = result + (d % 128) * 2 ^ shift := by
        rw [Nat.or_comm, ← Nat.shiftLeft_add_eq_or_of_lt hr, Nat.shiftLeft_eq, Nat.add_comm]
      have hpow7 : (2 : Nat) ^ (shift + 7) = 2 ^ shift * 128 := by rw [Nat.pow_add]
      have hsmall : result + (d % 128) * 2 ^ shift < 2 ^ (shift + 7) := by
        rw [hpow7]
        have : (d % 128) * 2 ^ shift + 2 ^ shift ≤ 128 * 2 ^ shift := by
          have : d % 128 + 1 ≤ 128 := by omega
          calc (d % 128) * 2 ^ shift + 2 ^ shift = (d % 128 + 1) * 2 ^ shift := by ring
            _ ≤ 128 * 2 ^ shift := Nat.mul_le_mul_right _ this
        have e : (2 : Nat) ^ shift * 128 = 128 * 2 ^ shift := Nat.mul_comm _ _
        rw [e]
        omega
      have hlt : result + (d % 128) * 2 ^ shift < W := by
        have : (2 : Nat) ^ (shift + 7) ≤ 2 ^ 21 := Nat.pow_le_pow_right (by decide) (by omega)
        omega
      rw [hor, Nat.mod_eq_of_lt hlt]
      have hd' : d / 128 < 2 ^ (21 - (shift + 7)) := by
        have : (2 : Nat) ^ (21 - shift) = 2 ^ (21 - (shift + 7)) * 128 := by
          rw [show (128 : Nat) = 2 ^ 7 by decide, ← Nat.pow_add]; congr 1; omega
        rw [this] at hd
        exact Nat.div_lt_of_lt_mul (by rw [Nat.mul_comm]; exact hd)
      have := ih (d / 128) (Nat.div_lt_self (by omega) (by decide)) f (pc + 1) (result + d % 128 * 2 ^ shift) (shift + 7) rest
        hd' (by omega) hsmall hrest (by omega) (by omega)
      rw [this]
      have hre : result + d % 128 * 2 ^ shift + d / 128 * 2 ^ (shift + 7) = result + d * 2 ^ shift := by
        rw [hpow7]
        have : d = d % 128 + 128 * (d / 128) := (Nat.mod_add_div d 128).symm
        calc result + d % 128 * 2 ^ shift + d / 128 * (2 ^ shift * 128)
            = result + (d % 128 + 128 * (d / 128)) * 2 ^ shift := by ring
          _ = result + d * 2 ^ shift := by rw [← this]
      rw [hre]
      congr 1
      omega

/-! ### time conversions are exact below 2^24 ms when the clock was never reset -/

theorem fToUl_nat (n : Nat) (h : n < W) : fToUl (n : ℚ) = n := by
  unfold fToUl
  by_cases h0 : n = 0
  · subst h0; simp
  · have hpos : ¬ ((n : ℚ) ≤ 0) := by
      have : (0 : ℚ) < (n : ℚ) := by exact_mod_cast Nat.pos_of_ne_zero h0
      exact not_le.mpr this
    have hlt : ¬ ((n : ℚ) ≥ (W : ℚ)) := by
      have : (n : ℚ) < (W : ℚ) := by exact_mod_cast h
      exact not_le.mpr this
    rw [if_neg hpos, if_neg hlt]
    have : ((n : ℚ)).floor = (n : Int) := by
      have := Rat.floor_intCast (n : Int)
      simpa using this
    rw [this]; simp

theorem internalToAbs_exact (e : Exec) (h0 : e.lastReset = 0) (ms : Nat) (h : ms ≤ 16777216) : internalToAbs e ms = ms := by
  unfold internalToAbs ulToF lToF
  rw [h0]
  have hW : ms < W / 2 := by
    have : (16777216 : Nat) < W / 2 := by decide
    omega
  rw [if_pos hW]
  have h1 : roundF32 ((0 : Nat) : ℚ) = 0 := by simpa using roundF32_zero
  have h2 : roundF32 (ms : ℚ) = (ms : ℚ) := roundF32_natCast ms h
  rw [h1, h2, zero_add, h2]
  exact fToUl_nat ms (by have : (16777216 : Nat) < W := by decide
                         omega)

/-- with a clock origin `R`: internal time `ms` is the absolute time `R + ms` (exact below 2^24) -/
theorem internalToAbs_exactR (e : Exec) (ms : Nat) (h : e.lastReset + ms ≤ 16777216) :
    internalToAbs e ms = e.lastReset + ms := by
  unfold internalToAbs ulToF lToF
  have hW : ms < W / 2 := by
    have : (16777216 : Nat) < W / 2 := by decide
    omega
  rw [if_pos hW]
  have h1 : roundF32 (e.lastReset : ℚ) = (e.lastReset : ℚ) := roundF32_natCast _ (by omega)
  have h2 : roundF32 (ms : ℚ) = (ms : ℚ) := roundF32_natCast ms (by omega)
  rw [h1, h2]
  have h3 : (e.lastReset : ℚ) + (ms : ℚ) = ((e.lastReset + ms : Nat) : ℚ) := by push_cast; rfl
  rw [h3, roundF32_natCast _ h]
  exact fToUl_nat _ (by have : (16777216 : Nat) < W := by decide
                        omega)

theorem handleDelayByte_exactR (e : Exec) (d : Nat) (rest : Bytes) (hd : d < 2097152)
    (hdrop : e.prog.drop e.pc = varint d ++ rest) (hsize : e.pc + (varint d).length ≤ e.size)
    (hT : e.lastReset + (e.cumulative + 20 * d) ≤ 16777216) :
    handleDelayByte e = { e with pc := e.pc + (varint d).length, cumulative := e.cumulative + 20 * d,
                                 nextWakeup := max e.nextWakeup (e.lastReset + (e.cumulative + 20 * d)) } := by
  have hv := varintAt_varint e.prog e.size d (e.size + 2) e.pc 0 0 rest (by simpa using hd) (by omega) (by decide) hdrop hsize
    (by have := varint_length_le d hd; omega)
  unfold handleDelayByte
  rw [nextVarint_eq, hv]
  have hms : Gen.msPerUnit = 20 := rfl
  have hW : (16777216 : Nat) < W := by decide
  have hu1 : u64 ((0 + d * 2 ^ 0) * Gen.msPerUnit) = 20 * d := by
    unfold u64; rw [hms, Nat.mod_eq_of_lt (by omega)]; omega
  simp only [hu1]
  have hu2 : u64 (e.cumulative + 20 * d) = e.cumulative + 20 * d := by
    unfold u64; rw [Nat.mod_eq_of_lt (by omega)]
  simp only [hu2]
  unfold delayUntil delayUntilAbs
  rw [internalToAbs_exactR _ _ (by simpa using hT)]

/-- a delay byte sequence `varint d` at the program counter: the program clock advances by 20·d ms -/
theorem handleDelayByte_exact (e : Exec) (d : Nat) (rest : Bytes) (hd : d < 2097152)
    (hdrop : e.prog.drop e.pc = varint d ++ rest) (hsize : e.pc + (varint d).length ≤ e.size)
    (h0 : e.lastReset = 0) (hT : e.cumulative + 20 * d ≤ 16777216) :
    handleDelayByte e = { e with pc := e.pc + (varint d).length, cumulative := e.cumulative + 20 * d,
                                 nextWakeup := max e.nextWakeup (e.cumulative + 20 * d) } := by
  have hv := varintAt_varint e.prog e.size d (e.size + 2) e.pc 0 0 rest (by simpa using hd) (by omega) (by decide) hdrop hsize
    (by have := varint_length_le d hd; omega)
  unfold handleDelayByte
  rw [nextVarint_eq, hv]
  have hms : Gen.msPerUnit = 20 := rfl
  have hW : (16777216 : Nat) < W := by decide
  have hu1 : u64 ((0 + d * 2 ^ 0) * Gen.msPerUnit) = 20 * d := by
    unfold u64; rw [hms, Nat.mod_eq_of_lt (by omega)]; omega
  simp only [hu1]
  have hu2 : u64 (e.cumulative + 20 * d) = e.cumulative + 20 * d := by
    unfold u64; rw [Nat.mod_eq_of_lt (by omega)]
  simp only [hu2]
  unfold delayUntil delayUntilAbs
  rw [internalToAbs_exact _ (by simpa using h0) _ hT]

/-! ### the commands of a straight-line program -/

/-- how a colour command spells its colour: three bytes, one gray byte, or the opcodes for black and white -/
inductive Enc where
  | rgb
  | gray
  | black
  | white
  /-- SET/FADE_TO_COLOR_FROM_CHANNELS with channel indices `a b c`: a player without a signal source (every player
  made by the C interface) shows black -/
  | chan (a b c : Nat)
  deriving DecidableEq, Inhabited

/-- the colour an encoding can spell -/
def Enc.fits (en : Enc) (r g b : Nat) : Prop :=
  match en with
  | .rgb => True
  | .gray => r = g ∧ b = g
  | .black => r = 0 ∧ g = 0 ∧ b = 0
  | .white => r = 255 ∧ g = 255 ∧ b = 255
  | .chan i j k => (r = 0 ∧ g = 0 ∧ b = 0) ∧ i < 256 ∧ j < 256 ∧ k < 256

inductive Cmd where
  | sleep (d : Nat)
  | set (en : Enc) (r g b : Nat) (d : Nat)
  | fade (en : Enc) (r g b : Nat) (d : Nat)
  | pyro (m : Nat)
  | nop
  | waitUntil (v : Nat)
  | pyroSet (m : Nat)
  /-- TRIGGERED_JUMP with parameter byte `p` (and address `a` when bit 4 or 5 of `p` is set): a player has no trigger
  source, the command only consumes its operands -/
  | trigger (p a : Nat)
  deriving DecidableEq, Inhabited

def Cmd.bytes : Cmd → Bytes
  | .sleep d => UInt8.ofNat 2 :: varint d
  | .set .rgb r g b d => UInt8.ofNat 4 :: UInt8.ofNat r :: UInt8.ofNat g :: UInt8.ofNat b :: varint d
  | .set .gray _ g _ d => UInt8.ofNat 5 :: UInt8.ofNat g :: varint d
  | .set .black _ _ _ d => UInt8.ofNat 6 :: varint d
  | .set .white _ _ _ d => UInt8.ofNat 7 :: varint d
  | .set (.chan a b c) _ _ _ d => UInt8.ofNat 16 :: UInt8.ofNat a :: UInt8.ofNat b :: UInt8.ofNat c :: varint d
  | .fade .rgb r g b d => UInt8.ofNat 8 :: UInt8.ofNat r :: UInt8.ofNat g :: UInt8.ofNat b :: varint d
  | .fade .gray _ g _ d => UInt8.ofNat 9 :: UInt8.ofNat g :: varint d
  | .fade .black _ _ _ d => UInt8.ofNat 10 :: varint d
  | .fade .white _ _ _ d => UInt8.ofNat 11 :: varint d
  | .fade (.chan a b c) _ _ _ d => UInt8.ofNat 17 :: UInt8.ofNat a :: UInt8.ofNat b :: UInt8.ofNat c :: varint d
  | .pyro m => [UInt8.ofNat 21, UInt8.ofNat m]
  | .pyroSet m => [UInt8.ofNat 20, UInt8.ofNat m]
  | .nop => [UInt8.ofNat 1]
  | .waitUntil v => UInt8.ofNat 3 :: varint v
  | .trigger p a => UInt8.ofNat 19 :: UInt8.ofNat p :: (if p &&& 16 ≠ 0 ∨ p &&& 32 ≠ 0 then varint a else [])

/-- well-formed: channels and masks are bytes, durations below 2^21 units -/
def Cmd.ok : Cmd → Prop
  | .sleep d => d < 2097152
  | .set en r g b d => r < 256 ∧ g < 256 ∧ b < 256 ∧ d < 2097152 ∧ en.fits r g b
  | .fade en r g b d => r < 256 ∧ g < 256 ∧ b < 256 ∧ d < 2097152 ∧ en.fits r g b
  | .pyro m => m < 256
  | .pyroSet m => m < 256
  | .nop => True
  | .waitUntil v => v < 2097152
  | .trigger p a => p < 256 ∧ a < 2097152

/-- the program time after the command, given the time `T` at which it starts: 20 ms per duration unit; a wait-until
waits until 20 ms × its argument on the program clock unless that has passed already -/
def Cmd.next (c : Cmd) (T : Nat) : Nat :=
  match c with
  | .sleep d => T + 20 * d
  | .set _ _ _ _ d => T + 20 * d
  | .fade _ _ _ _ d => T + 20 * d
  | .pyro _ => T
  | .pyroSet _ => T
  | .nop => T
  | .trigger _ _ => T
  | .waitUntil v => max T (20 * v)

def Cmd.colour (c : Cmd) (prev : Color) : Color :=
  match c with
  | .set _ r g b _ => (r, g, b)
  | .fade _ r g b _ => (r, g, b)
  | _ => prev

def Cmd.pyroAfter (c : Cmd) (prev : Nat) : Nat :=
  match c with
  | .pyro m => m &&& 127
  | .pyroSet m =>
    if m &&& 128 ≠ 0 then (prev ||| (m &&& 127)) % 256 else prev &&& ((255 - ((m ||| 128) % 256)) % 256)
  | _ => prev

/-- the same with a clock origin `R` (a RESET_CLOCK moved the origin): a wait-until counts from the origin -/
def Cmd.nextR (c : Cmd) (T R : Nat) : Nat :=
  match c with
  | .waitUntil v => max T (R + 20 * v)
  | _ => c.next T

theorem Cmd.nextR_zero (c : Cmd) (T : Nat) : c.nextR T 0 = c.next T := by
  cases c <;> simp [Cmd.nextR, Cmd.next]

theorem Cmd.nextR_ge (c : Cmd) (T R : Nat) : T ≤ c.nextR T R := by
  cases c <;> simp [Cmd.nextR, Cmd.next] <;> omega

theorem Cmd.next_ge (c : Cmd) (T : Nat) : T ≤ c.next T := by
  cases c <;> simp [Cmd.next] <;> omega

theorem Cmd.bytes_pos (c : Cmd) : 1 ≤ c.bytes.length := by
  cases c with
  | set en r g b d => cases en <;> simp [Cmd.bytes]
  | fade en r g b d => cases en <;> simp [Cmd.bytes]
  | sleep d => simp [Cmd.bytes]
  | pyro m => simp [Cmd.bytes]
  | trigger p a => simp [Cmd.bytes]
  | pyroSet m => simp [Cmd.bytes]
  | nop => simp [Cmd.bytes]
  | waitUntil v => simp [Cmd.bytes]

theorem toNat_ofNat_byte (n : Nat) (h : n < 256) : (UInt8.ofNat n).toNat = n := by
  rw [UInt8.toNat_ofNat']; omega

/-- the executor is about to execute a command at the absolute time `T`: running, clock origin `R`, program clock at
`T - R`, wake-up time at `T` -/
structure Ready (e : Exec) (T R : Nat) : Prop where
  ended : e.ended = false
  resetR : e.lastReset = R
  cum : R + e.cumulative = T
  wake : e.nextWakeup = T
  start : e.cmdStart = T

theorem exec_sleep (e : Exec) (T R d : Nat) (rest : Bytes) (hr : Ready e T R) (hd : d < 2097152)
    (hdrop : e.prog.drop e.pc = (Cmd.sleep d).bytes ++ rest) (hsize : e.pc + (Cmd.sleep d).bytes.length ≤ e.size)
    (hT : T + 20 * d ≤ 16777216) :
    execCommand e = { e with pc := e.pc + (Cmd.sleep d).bytes.length, cumulative := e.cumulative + 20 * d, nextWakeup := T + 20 * d } := by
  obtain ⟨g1, g2⟩ := get_of_drop e.prog e.pc _ _ hdrop
  simp only [Cmd.bytes, List.length_cons] at hsize ⊢
  have hb := byteAt_of_get e.prog e.size e.pc _ (by have := varint_length_pos d; omega) g1
  have hc := hr.cum
  unfold execCommand
  rw [if_neg (by simp [hr.ended]), nextByte_eq, hb]
  simp only [toNat_ofNat_byte 2 (by decide)]
  rw [if_neg (by decide), if_neg (by decide), if_pos (by decide)]
  have := handleDelayByte_exactR { e with pc := e.pc + 1 } d rest hd g2 (by simp only; omega) (by simp only [hr.resetR]; omega)
  rw [this]
  simp only [hr.resetR, hr.wake]
  congr 1
  · omega
  · rw [Nat.max_eq_right (by omega)]; omega

theorem drop_cons4 (prog : Bytes) (pc : Nat) (a b c d : UInt8) (rest : Bytes) (h : prog.drop pc = a :: b :: c :: d :: rest) :
    prog[pc]? = some a ∧ prog[pc + 1]? = some b ∧ prog[pc + 2]? = some c ∧ prog[pc + 3]? = some d ∧ prog.drop (pc + 4) = rest := by
  obtain ⟨g1, h1⟩ := get_of_drop prog pc _ _ h
  obtain ⟨g2, h2⟩ := get_of_drop prog (pc + 1) _ _ h1
  obtain ⟨g3, h3⟩ := get_of_drop prog (pc + 2) _ _ h2
  obtain ⟨g4, h4⟩ := get_of_drop prog (pc + 3) _ _ h3
  exact ⟨g1, g2, g3, g4, h4⟩

/-- the common tail of every set-colour command: the delay bytes, then the colour -/
theorem setTo_exact (e' : Exec) (T : Nat) (c : Color) (d : Nat) (rest : Bytes) (hd : d < 2097152)
    (hc : e'.lastReset + e'.cumulative = T) (hw : e'.nextWakeup = T)
    (hdrop : e'.prog.drop e'.pc = varint d ++ rest) (hsize : e'.pc + (varint d).length ≤ e'.size) (hT : T + 20 * d ≤ 16777216) :
    setTo e' c = { e' with pc := e'.pc + (varint d).length, cumulative := e'.cumulative + 20 * d, nextWakeup := T + 20 * d,
                           color := c, startColor := c } := by
  unfold setTo
  rw [handleDelayByte_exactR e' d rest hd hdrop hsize (by omega)]
  unfold setColorAndResetTransition
  simp only [hw]
  congr 1
  rw [Nat.max_eq_right (by omega)]; omega

theorem exec_set (e : Exec) (T R : Nat) (en : Enc) (r g b d : Nat) (rest : Bytes) (hr : Ready e T R) (hok : (Cmd.set en r g b d).ok)
    (hdrop : e.prog.drop e.pc = (Cmd.set en r g b d).bytes ++ rest) (hsize : e.pc + (Cmd.set en r g b d).bytes.length ≤ e.size)
    (hT : T + 20 * d ≤ 16777216) :
    execCommand e = { e with pc := e.pc + (Cmd.set en r g b d).bytes.length, cumulative := e.cumulative + 20 * d,
                             nextWakeup := T + 20 * d, color := (r, g, b), startColor := (r, g, b) } := by
  obtain ⟨hr', hg', hb', hd, hfit⟩ := hok
  have hl := varint_length_pos d
  have hcR : e.lastReset + e.cumulative = T := by rw [hr.resetR]; exact hr.cum
  cases en with
  | rgb =>
    obtain ⟨g1, g2, g3, g4, g5⟩ := drop_cons4 e.prog e.pc _ _ _ _ _ hdrop
    simp only [Cmd.bytes, List.length_cons] at hsize ⊢
    have b1 := byteAt_of_get e.prog e.size e.pc _ (by omega) g1
    have b2 := byteAt_of_get e.prog e.size (e.pc + 1) _ (by omega) g2
    have b3 := byteAt_of_get e.prog e.size (e.pc + 2) _ (by omega) g3
    have b4 := byteAt_of_get e.prog e.size (e.pc + 3) _ (by omega) g4
    unfold execCommand
    rw [if_neg (by simp [hr.ended]), nextByte_eq, b1]
    simp only [toNat_ofNat_byte 4 (by decide)]
    rw [if_neg (by decide), if_neg (by decide), if_neg (by decide), if_neg (by decide), if_pos (by decide)]
    unfold next3
    simp only [nextByte_eq, b2, b3, b4, toNat_ofNat_byte r hr', toNat_ofNat_byte g hg', toNat_ofNat_byte b hb']
    rw [setTo_exact { e with pc := e.pc + 1 + 1 + 1 + 1 } T (r, g, b) d rest hd hcR hr.wake (by simpa using g5)
      (by simp only; omega) hT]
    congr 1
    simp only; omega
  | gray =>
    have hrg : r = g := hfit.1
    have hbg : b = g := hfit.2
    rw [hrg, hbg]
    obtain ⟨g1, h1⟩ := get_of_drop e.prog e.pc _ _ hdrop
    obtain ⟨g2, h2⟩ := get_of_drop e.prog (e.pc + 1) _ _ h1
    simp only [Cmd.bytes, List.length_cons] at hsize ⊢
    have b1 := byteAt_of_get e.prog e.size e.pc _ (by omega) g1
    have b2 := byteAt_of_get e.prog e.size (e.pc + 1) _ (by omega) g2
    unfold execCommand
    rw [if_neg (by simp [hr.ended]), nextByte_eq, b1]
    simp only [toNat_ofNat_byte 5 (by decide)]
    rw [if_neg (by decide), if_neg (by decide), if_neg (by decide), if_neg (by decide), if_neg (by decide), if_pos (by decide)]
    rw [nextByte_eq, b2]
    simp only [toNat_ofNat_byte g hg']
    rw [setTo_exact { e with pc := e.pc + 1 + 1 } T (g, g, g) d rest hd hcR hr.wake (by simpa using h2)
      (by simp only; omega) hT]
    congr 1
    simp only; omega
  | black =>
    obtain ⟨rfl, rfl, rfl⟩ := hfit
    obtain ⟨g1, h1⟩ := get_of_drop e.prog e.pc _ _ hdrop
    simp only [Cmd.bytes, List.length_cons] at hsize ⊢
    have b1 := byteAt_of_get e.prog e.size e.pc _ (by omega) g1
    unfold execCommand
    rw [if_neg (by simp [hr.ended]), nextByte_eq, b1]
    simp only [toNat_ofNat_byte 6 (by decide)]
    rw [if_neg (by decide), if_neg (by decide), if_neg (by decide), if_neg (by decide), if_neg (by decide), if_neg (by decide),
      if_pos (by decide)]
    rw [setTo_exact { e with pc := e.pc + 1 } T black d rest hd hcR hr.wake (by simpa using h1)
      (by simp only; omega) hT]
    congr 1
    simp only; omega
  | white =>
    obtain ⟨rfl, rfl, rfl⟩ := hfit
    obtain ⟨g1, h1⟩ := get_of_drop e.prog e.pc _ _ hdrop
    simp only [Cmd.bytes, List.length_cons] at hsize ⊢
    have b1 := byteAt_of_get e.prog e.size e.pc _ (by omega) g1
    unfold execCommand
    rw [if_neg (by simp [hr.ended]), nextByte_eq, b1]
    simp only [toNat_ofNat_byte 7 (by decide)]
    rw [if_neg (by decide), if_neg (by decide), if_neg (by decide), if_neg (by decide), if_neg (by decide), if_neg (by decide),
      if_neg (by decide), if_pos (by decide)]
    rw [setTo_exact { e with pc := e.pc + 1 } T white d rest hd hcR hr.wake (by simpa using h1)
      (by simp only; omega) hT]
    congr 1
    simp only; omega

  | chan i j k =>
    obtain ⟨⟨rfl, rfl, rfl⟩, _, _, _⟩ := hfit
    obtain ⟨g1, g2, g3, g4, g5⟩ := drop_cons4 e.prog e.pc _ _ _ _ _ hdrop
    simp only [Cmd.bytes, List.length_cons] at hsize ⊢
    have b1 := byteAt_of_get e.prog e.size e.pc _ (by omega) g1
    have b2 := byteAt_of_get e.prog e.size (e.pc + 1) _ (by omega) g2
    have b3 := byteAt_of_get e.prog e.size (e.pc + 2) _ (by omega) g3
    have b4 := byteAt_of_get e.prog e.size (e.pc + 3) _ (by omega) g4
    unfold execCommand
    rw [if_neg (by simp [hr.ended]), nextByte_eq, b1]
    simp only [toNat_ofNat_byte 16 (by decide)]
    rw [if_neg (by decide), if_neg (by decide), if_neg (by decide), if_neg (by decide), if_neg (by decide), if_neg (by decide),
      if_neg (by decide), if_neg (by decide), if_neg (by decide), if_neg (by decide), if_neg (by decide), if_neg (by decide),
      if_neg (by decide), if_neg (by decide), if_neg (by decide), if_pos (by decide)]
    unfold next3
    simp only [nextByte_eq, b2, b3, b4]
    rw [setTo_exact { e with pc := e.pc + 1 + 1 + 1 + 1 } T black d rest hd hcR hr.wake (by simpa using g5)
      (by simp only; omega) hT]
    congr 1
    simp only; omega

/-- what a fade command leaves behind, before the values are simplified -/
def fadeStart (e : Exec) (T r g b d len : Nat) : Exec :=
  { e with pc := e.pc + len, cumulative := e.cumulative + 20 * d, nextWakeup := T + 20 * d,
           endColor := (r, g, b), trStart := T, trDuration := 20 * d, trActive := true }

def fadeResult (e : Exec) (T r g b d len : Nat) : Exec :=
  fadeFinish (transitionStep (fadeStart e T r g b d len) T)

/-- the common tail of every fade command -/
theorem fadeTo_exact (e' : Exec) (T r g b d : Nat) (rest : Bytes) (hd : d < 2097152)
    (hc : e'.lastReset + e'.cumulative = T) (hw : e'.nextWakeup = T) (hs : e'.cmdStart = T)
    (hdrop : e'.prog.drop e'.pc = varint d ++ rest) (hsize : e'.pc + (varint d).length ≤ e'.size) (hT : T + 20 * d ≤ 16777216) :
    fadeTo e' (r, g, b) = fadeResult e' T r g b d (varint d).length := by
  rw [fadeTo_eq, handleDelayByte_exactR e' d rest hd hdrop hsize (by omega)]
  unfold fadeResult fadeStart
  simp only [hw, hs]
  have hmax : max T (e'.lastReset + (e'.cumulative + 20 * d)) = T + 20 * d := by
    rw [Nat.max_eq_right (by omega)]; omega
  have hsub : subU64 (T + 20 * d) T = 20 * d := by
    rw [subU64_of_le (by omega) (by have : (16777216 : Nat) < W := by decide
                                    omega)]
    omega
  rw [hmax, hsub]

theorem fadeResult_pc (e : Exec) (k T r g b d len : Nat) :
    fadeResult { e with pc := e.pc + k } T r g b d len = fadeResult e T r g b d (k + len) := by
  unfold fadeResult fadeStart
  simp only [Nat.add_assoc]

theorem exec_fade (e : Exec) (T R : Nat) (en : Enc) (r g b d : Nat) (rest : Bytes) (hr : Ready e T R) (hok : (Cmd.fade en r g b d).ok)
    (hdrop : e.prog.drop e.pc = (Cmd.fade en r g b d).bytes ++ rest) (hsize : e.pc + (Cmd.fade en r g b d).bytes.length ≤ e.size)
    (hT : T + 20 * d ≤ 16777216) :
    execCommand e = fadeResult e T r g b d (Cmd.fade en r g b d).bytes.length := by
  obtain ⟨hr', hg', hb', hd, hfit⟩ := hok
  have hl := varint_length_pos d
  have hcR : e.lastReset + e.cumulative = T := by rw [hr.resetR]; exact hr.cum
  cases en with
  | rgb =>
    obtain ⟨g1, g2, g3, g4, g5⟩ := drop_cons4 e.prog e.pc _ _ _ _ _ hdrop
    simp only [Cmd.bytes, List.length_cons] at hsize ⊢
    have b1 := byteAt_of_get e.prog e.size e.pc _ (by omega) g1
    have b2 := byteAt_of_get e.prog e.size (e.pc + 1) _ (by omega) g2
    have b3 := byteAt_of_get e.prog e.size (e.pc + 2) _ (by omega) g3
    have b4 := byteAt_of_get e.prog e.size (e.pc + 3) _ (by omega) g4
    unfold execCommand
    rw [if_neg (by simp [hr.ended]), nextByte_eq, b1]
    simp only [toNat_ofNat_byte 8 (by decide)]
    rw [if_neg (by decide), if_neg (by decide), if_neg (by decide), if_neg (by decide), if_neg (by decide), if_neg (by decide),
      if_neg (by decide), if_neg (by decide), if_pos (by decide)]
    unfold next3
    simp only [nextByte_eq, b2, b3, b4, toNat_ofNat_byte r hr', toNat_ofNat_byte g hg', toNat_ofNat_byte b hb']
    have e4 : ({ e with pc := e.pc + 1 + 1 + 1 + 1 } : Exec) = { e with pc := e.pc + 4 } := rfl
    rw [e4, fadeTo_exact { e with pc := e.pc + 4 } T r g b d rest hd hcR hr.wake hr.start (by simpa using g5)
      (by simp only; omega) hT, fadeResult_pc]
    congr 1
    omega
  | gray =>
    have hrg : r = g := hfit.1
    have hbg : b = g := hfit.2
    rw [hrg, hbg]
    obtain ⟨g1, h1⟩ := get_of_drop e.prog e.pc _ _ hdrop
    obtain ⟨g2, h2⟩ := get_of_drop e.prog (e.pc + 1) _ _ h1
    simp only [Cmd.bytes, List.length_cons] at hsize ⊢
    have b1 := byteAt_of_get e.prog e.size e.pc _ (by omega) g1
    have b2 := byteAt_of_get e.prog e.size (e.pc + 1) _ (by omega) g2
    unfold execCommand
    rw [if_neg (by simp [hr.ended]), nextByte_eq, b1]
    simp only [toNat_ofNat_byte 9 (by decide)]
    rw [if_neg (by decide), if_neg (by decide), if_neg (by decide), if_neg (by decide), if_neg (by decide), if_neg (by decide),
      if_neg (by decide), if_neg (by decide), if_neg (by decide), if_pos (by decide)]
    rw [nextByte_eq, b2]
    simp only [toNat_ofNat_byte g hg']
    have e2 : ({ e with pc := e.pc + 1 + 1 } : Exec) = { e with pc := e.pc + 2 } := rfl
    rw [e2, fadeTo_exact { e with pc := e.pc + 2 } T g g g d rest hd hcR hr.wake hr.start (by simpa using h2)
      (by simp only; omega) hT, fadeResult_pc]
    congr 1
    omega
  | black =>
    obtain ⟨rfl, rfl, rfl⟩ := hfit
    obtain ⟨g1, h1⟩ := get_of_drop e.prog e.pc _ _ hdrop
    simp only [Cmd.bytes, List.length_cons] at hsize ⊢
    have b1 := byteAt_of_get e.prog e.size e.pc _ (by omega) g1
    unfold execCommand
    rw [if_neg (by simp [hr.ended]), nextByte_eq, b1]
    simp only [toNat_ofNat_byte 10 (by decide)]
    rw [if_neg (by decide), if_neg (by decide), if_neg (by decide), if_neg (by decide), if_neg (by decide), if_neg (by decide),
      if_neg (by decide), if_neg (by decide), if_neg (by decide), if_neg (by decide), if_pos (by decide)]
    rw [show black = ((0, 0, 0) : Color) from rfl,
      fadeTo_exact { e with pc := e.pc + 1 } T 0 0 0 d rest hd hcR hr.wake hr.start (by simpa using h1)
      (by simp only; omega) hT, fadeResult_pc]
    congr 1
    omega
  | white =>
    obtain ⟨rfl, rfl, rfl⟩ := hfit
    obtain ⟨g1, h1⟩ := get_of_drop e.prog e.pc _ _ hdrop
    simp only [Cmd.bytes, List.length_cons] at hsize ⊢
    have b1 := byteAt_of_get e.prog e.size e.pc _ (by omega) g1
    unfold execCommand
    rw [if_neg (by simp [hr.ended]), nextByte_eq, b1]
    simp only [toNat_ofNat_byte 11 (by decide)]
    rw [if_neg (by decide), if_neg (by decide), if_neg (by decide), if_neg (by decide), if_neg (by decide), if_neg (by decide),
      if_neg (by decide), if_neg (by decide), if_neg (by decide), if_neg (by decide), if_neg (by decide), if_pos (by decide)]
    rw [show white = ((255, 255, 255) : Color) from rfl,
      fadeTo_exact { e with pc := e.pc + 1 } T 255 255 255 d rest hd hcR hr.wake hr.start (by simpa using h1)
      (by simp only; omega) hT, fadeResult_pc]
    congr 1
    omega

  | chan i j k =>
    obtain ⟨⟨rfl, rfl, rfl⟩, _, _, _⟩ := hfit
    obtain ⟨g1, g2, g3, g4, g5⟩ := drop_cons4 e.prog e.pc _ _ _ _ _ hdrop
    simp only [Cmd.bytes, List.length_cons] at hsize ⊢
    have b1 := byteAt_of_get e.prog e.size e.pc _ (by omega) g1
    have b2 := byteAt_of_get e.prog e.size (e.pc + 1) _ (by omega) g2
    have b3 := byteAt_of_get e.prog e.size (e.pc + 2) _ (by omega) g3
    have b4 := byteAt_of_get e.prog e.size (e.pc + 3) _ (by omega) g4
    unfold execCommand
    rw [if_neg (by simp [hr.ended]), nextByte_eq, b1]
    simp only [toNat_ofNat_byte 17 (by decide)]
    rw [if_neg (by decide), if_neg (by decide), if_neg (by decide), if_neg (by decide), if_neg (by decide), if_neg (by decide),
      if_neg (by decide), if_neg (by decide), if_neg (by decide), if_neg (by decide), if_neg (by decide), if_neg (by decide),
      if_neg (by decide), if_neg (by decide), if_neg (by decide), if_neg (by decide), if_pos (by decide)]
    unfold next3
    simp only [nextByte_eq, b2, b3, b4]
    have e4 : ({ e with pc := e.pc + 1 + 1 + 1 + 1 } : Exec) = { e with pc := e.pc + 4 } := rfl
    rw [e4, show black = ((0, 0, 0) : Color) from rfl,
      fadeTo_exact { e with pc := e.pc + 4 } T 0 0 0 d rest hd hcR hr.wake hr.start (by simpa using g5)
      (by simp only; omega) hT, fadeResult_pc]
    congr 1
    omega

theorem exec_pyro (e : Exec) (T R m : Nat) (rest : Bytes) (hr : Ready e T R) (hok : (Cmd.pyro m).ok)
    (hdrop : e.prog.drop e.pc = (Cmd.pyro m).bytes ++ rest) (hsize : e.pc + (Cmd.pyro m).bytes.length ≤ e.size) :
    execCommand e = { e with pc := e.pc + (Cmd.pyro m).bytes.length, pyro := m &&& 127 } := by
  obtain ⟨g1, h1⟩ := get_of_drop e.prog e.pc _ _ hdrop
  obtain ⟨g2, _⟩ := get_of_drop e.prog (e.pc + 1) _ _ h1
  simp only [Cmd.bytes, List.length_cons, List.length_nil] at hsize ⊢
  have b1 := byteAt_of_get e.prog e.size e.pc _ (by omega) g1
  have b2 := byteAt_of_get e.prog e.size (e.pc + 1) _ (by omega) g2
  unfold execCommand
  rw [if_neg (by simp [hr.ended]), nextByte_eq, b1]
  simp only [toNat_ofNat_byte 21 (by decide)]
  rw [if_neg (by decide), if_neg (by decide), if_neg (by decide), if_neg (by decide), if_neg (by decide), if_neg (by decide), if_neg (by decide), if_neg (by decide), if_neg (by decide), if_neg (by decide), if_neg (by decide), if_neg (by decide), if_neg (by decide), if_neg (by decide), if_neg (by decide), if_neg (by decide), if_neg (by decide), if_neg (by decide), if_neg (by decide), if_neg (by decide), if_pos (by decide)]
  rw [nextByte_eq, b2]
  simp only [toNat_ofNat_byte m hok]

theorem exec_pyroSet (e : Exec) (T R m : Nat) (rest : Bytes) (hr : Ready e T R) (hok : (Cmd.pyroSet m).ok)
    (hdrop : e.prog.drop e.pc = (Cmd.pyroSet m).bytes ++ rest) (hsize : e.pc + (Cmd.pyroSet m).bytes.length ≤ e.size) :
    execCommand e = { e with pc := e.pc + (Cmd.pyroSet m).bytes.length, pyro := (Cmd.pyroSet m).pyroAfter e.pyro } := by
  obtain ⟨g1, h1⟩ := get_of_drop e.prog e.pc _ _ hdrop
  obtain ⟨g2, _⟩ := get_of_drop e.prog (e.pc + 1) _ _ h1
  simp only [Cmd.bytes, List.length_cons, List.length_nil] at hsize ⊢
  have b1 := byteAt_of_get e.prog e.size e.pc _ (by omega) g1
  have b2 := byteAt_of_get e.prog e.size (e.pc + 1) _ (by omega) g2
  unfold execCommand
  rw [if_neg (by simp [hr.ended]), nextByte_eq, b1]
  simp only [toNat_ofNat_byte 20 (by decide)]
  rw [if_neg (by decide), if_neg (by decide), if_neg (by decide), if_neg (by decide), if_neg (by decide), if_neg (by decide), if_neg (by decide), if_neg (by decide), if_neg (by decide), if_neg (by decide), if_neg (by decide), if_neg (by decide), if_neg (by decide), if_neg (by decide), if_neg (by decide), if_neg (by decide), if_neg (by decide), if_neg (by decide), if_neg (by decide), if_pos (by decide)]
  rw [nextByte_eq, b2]
  simp only [toNat_ofNat_byte m hok, Cmd.pyroAfter]
  split <;> rfl

theorem exec_nop (e : Exec) (T R : Nat) (rest : Bytes) (hr : Ready e T R)
    (hdrop : e.prog.drop e.pc = Cmd.nop.bytes ++ rest) (hsize : e.pc + Cmd.nop.bytes.length ≤ e.size) :
    execCommand e = { e with pc := e.pc + Cmd.nop.bytes.length } := by
  obtain ⟨g1, _⟩ := get_of_drop e.prog e.pc _ _ hdrop
  simp only [Cmd.bytes, List.length_cons, List.length_nil] at hsize ⊢
  have b1 := byteAt_of_get e.prog e.size e.pc _ (by omega) g1
  unfold execCommand
  rw [if_neg (by simp [hr.ended]), nextByte_eq, b1]
  simp only [toNat_ofNat_byte 1 (by decide)]
  rw [if_neg (by decide), if_pos (by decide)]

/-- TRIGGERED_JUMP without a trigger source: the operands are consumed, nothing else happens -/
theorem exec_trigger (e : Exec) (T R p a : Nat) (rest : Bytes) (hr : Ready e T R) (hok : (Cmd.trigger p a).ok)
    (hdrop : e.prog.drop e.pc = (Cmd.trigger p a).bytes ++ rest) (hsize : e.pc + (Cmd.trigger p a).bytes.length ≤ e.size) :
    execCommand e = { e with pc := e.pc + (Cmd.trigger p a).bytes.length } := by
  obtain ⟨hp, ha⟩ := hok
  obtain ⟨g1, h1⟩ := get_of_drop e.prog e.pc _ _ hdrop
  obtain ⟨g2, h2⟩ := get_of_drop e.prog (e.pc + 1) _ _ h1
  simp only [Cmd.bytes, List.length_cons] at hsize ⊢
  have b1 := byteAt_of_get e.prog e.size e.pc _ (by omega) g1
  have b2 := byteAt_of_get e.prog e.size (e.pc + 1) _ (by omega) g2
  unfold execCommand
  rw [if_neg (by simp [hr.ended]), nextByte_eq, b1]
  simp only [toNat_ofNat_byte 19 (by decide)]
  rw [if_neg (by decide), if_neg (by decide), if_neg (by decide), if_neg (by decide), if_neg (by decide), if_neg (by decide),
    if_neg (by decide), if_neg (by decide), if_neg (by decide), if_neg (by decide), if_neg (by decide), if_neg (by decide),
    if_neg (by decide), if_neg (by decide), if_neg (by decide), if_neg (by decide), if_neg (by decide), if_neg (by decide),
    if_pos (by decide)]
  rw [nextByte_eq, b2]
  simp only [toNat_ofNat_byte p hp]
  by_cases hn : p &&& 16 ≠ 0 ∨ p &&& 32 ≠ 0
  · simp only [hn, if_true] at hsize h2 ⊢
    have hvv := varintAt_varint e.prog e.size a (e.size + 2) (e.pc + 1 + 1) 0 0 rest (by simpa using ha) (by omega) (by decide)
      (by simpa [List.append_assoc] using h2) (by omega) (by have := varint_length_le a ha; omega)
    rw [nextVarint_eq]
    simp only
    rw [hvv]
    have hab : 0 + a * 2 ^ 0 < Gen.addressBound := by
      have : Gen.addressBound = 2147483647 := rfl
      omega
    simp only [hab, if_true]
    congr 1
    omega
  · simp only [hn, if_false] at hsize ⊢
    try simp

theorem absToInternal_exact (e : Exec) (h0 : e.lastReset = 0) (ms : Nat) (h : ms ≤ 16777216) : absToInternal e ms = ms := by
  unfold absToInternal
  rw [h0]
  have hW : ms < W := by
    have : (16777216 : Nat) < W := by decide
    omega
  have h1 : subU64 ms 0 = ms := by
    unfold subU64
    simp only [Nat.zero_mod, Nat.sub_zero]
    rw [Nat.add_mod_right, Nat.mod_eq_of_lt hW]
  have h2 : ulToF ms = (ms : ℚ) := roundF32_natCast ms h
  rw [h1, h2]
  unfold fToL
  have hbig : ((ms : ℚ)) < ((W / 2 : Nat) : ℚ) := by
    have : ms < W / 2 := by
      have : (16777216 : Nat) < W / 2 := by decide
      omega
    exact_mod_cast this
  have hnn : (0 : ℚ) ≤ (ms : ℚ) := by exact_mod_cast Nat.zero_le ms
  rw [if_neg (not_le.mpr hbig), if_neg (by
    have : (0 : ℚ) < ((W / 2 : Nat) : ℚ) := by
      have : 0 < W / 2 := by decide
      exact_mod_cast this
    linarith), if_neg (not_lt.mpr hnn)]
  have : ((ms : ℚ)).floor = (ms : Int) := by
    have := Rat.floor_intCast (ms : Int)
    simpa using this
  rw [this]; simp

/-- with a clock origin `R`: the absolute time `a ≥ R` is the internal time `a - R` (exact below 2^24) -/
theorem absToInternal_exactR (e : Exec) (a : Nat) (h1 : e.lastReset ≤ a) (h2 : a ≤ 16777216) :
    absToInternal e a = a - e.lastReset := by
  unfold absToInternal
  have hW : a < W := by
    have : (16777216 : Nat) < W := by decide
    omega
  rw [subU64_of_le h1 hW]
  have h3 : ulToF (a - e.lastReset) = ((a - e.lastReset : Nat) : ℚ) := roundF32_natCast _ (by omega)
  rw [h3]
  unfold fToL
  have hbig : (((a - e.lastReset : Nat) : ℚ)) < ((W / 2 : Nat) : ℚ) := by
    have : a - e.lastReset < W / 2 := by
      have : (16777216 : Nat) < W / 2 := by decide
      omega
    exact_mod_cast this
  have hnn : (0 : ℚ) ≤ ((a - e.lastReset : Nat) : ℚ) := by exact_mod_cast Nat.zero_le _
  rw [if_neg (not_le.mpr hbig), if_neg (by
    have : (0 : ℚ) < ((W / 2 : Nat) : ℚ) := by
      have : 0 < W / 2 := by decide
      exact_mod_cast this
    linarith), if_neg (not_lt.mpr hnn)]
  have : (((a - e.lastReset : Nat) : ℚ)).floor = ((a - e.lastReset : Nat) : Int) := by
    have := Rat.floor_intCast ((a - e.lastReset : Nat) : Int)
    simpa using this
  rw [this]; simp

theorem exec_wait (e : Exec) (T R v : Nat) (rest : Bytes) (hr : Ready e T R) (hv : v < 2097152)
    (hdrop : e.prog.drop e.pc = (Cmd.waitUntil v).bytes ++ rest) (hsize : e.pc + (Cmd.waitUntil v).bytes.length ≤ e.size)
    (hT : max T (R + 20 * v) ≤ 16777216) :
    execCommand e = { e with pc := e.pc + (Cmd.waitUntil v).bytes.length, cumulative := max T (R + 20 * v) - R,
                             nextWakeup := max T (R + 20 * v) } := by
  obtain ⟨g1, g2⟩ := get_of_drop e.prog e.pc _ _ hdrop
  simp only [Cmd.bytes, List.length_cons] at hsize ⊢
  have hb := byteAt_of_get e.prog e.size e.pc _ (by have := varint_length_pos v; omega) g1
  have hvv := varintAt_varint e.prog e.size v (e.size + 2) (e.pc + 1) 0 0 rest (by simpa using hv) (by omega) (by decide) g2
    (by omega) (by have := varint_length_le v hv; omega)
  have hc := hr.cum
  unfold execCommand
  rw [if_neg (by simp [hr.ended]), nextByte_eq, hb]
  simp only [toNat_ofNat_byte 3 (by decide)]
  rw [if_neg (by decide), if_neg (by decide), if_neg (by decide), if_pos (by decide)]
  rw [nextVarint_eq]
  simp only
  rw [hvv]
  have hms : Gen.msPerUnitWaitUntil = 20 := rfl
  have h20 : R + 20 * v ≤ 16777216 := le_trans (Nat.le_max_right _ _) hT
  have hW : (16777216 : Nat) < W := by decide
  have hu1 : u64 ((0 + v * 2 ^ 0) * Gen.msPerUnitWaitUntil) = 20 * v := by
    unfold u64; rw [hms, Nat.mod_eq_of_lt (by omega)]; omega
  simp only [hu1]
  unfold delayUntil delayUntilAbs
  rw [internalToAbs_exactR _ _ (by simp only [hr.resetR]; exact h20)]
  simp only [hr.wake, hr.resetR]
  rw [absToInternal_exactR _ _ (by simp only [hr.resetR]; have := Nat.le_max_left T (R + 20 * v); omega) (by simpa using hT)]
  simp only [hr.resetR]
  congr 1
  omega

/-- RESET_CLOCK: the clock origin moves to the command's start time, the program clock restarts at 0 -/
theorem exec_reset (e : Exec) (T R : Nat) (rest : Bytes) (hr : Ready e T R) (hT : T ≤ 16777216)
    (hdrop : e.prog.drop e.pc = UInt8.ofNat 14 :: rest) (hsize : e.pc + 1 ≤ e.size) :
    execCommand e = { e with pc := e.pc + 1, lastReset := T, cumulative := 0 } := by
  obtain ⟨g1, _⟩ := get_of_drop e.prog e.pc _ _ hdrop
  have b1 := byteAt_of_get e.prog e.size e.pc _ (by omega) g1
  unfold execCommand
  rw [if_neg (by simp [hr.ended]), nextByte_eq, b1]
  simp only [toNat_ofNat_byte 14 (by decide)]
  rw [if_neg (by decide), if_neg (by decide), if_neg (by decide), if_neg (by decide), if_neg (by decide), if_neg (by decide),
    if_neg (by decide), if_neg (by decide), if_neg (by decide), if_neg (by decide), if_neg (by decide), if_neg (by decide),
    if_neg (by decide), if_neg (by decide), if_pos (by decide)]
  unfold setClockOrigin
  simp only [hr.start]
  rw [absToInternal_exactR _ _ (by simp) (by simpa using hT)]
  simp

/-! ### programs as command lists: offsets, times, colours -/

def encode (cs : List Cmd) : Bytes := (cs.map Cmd.bytes).flatten
def offAt (cs : List Cmd) (k : Nat) : Nat := (encode (cs.take k)).length
def timeAt (cs : List Cmd) (k : Nat) : Nat := (cs.take k).foldl (fun T c => c.next T) 0

def colAt (cs : List Cmd) (k : Nat) : Color := (cs.take k).foldl (fun c cmd => cmd.colour c) black
def pyroAt (cs : List Cmd) (k : Nat) : Nat := (cs.take k).foldl (fun p cmd => cmd.pyroAfter p) 0

theorem take_succ_get (cs : List Cmd) (k : Nat) (hk : k < cs.length) : cs.take (k + 1) = cs.take k ++ [cs[k]] := by
  rw [List.take_succ_eq_append_getElem hk]

theorem encode_append (a b : List Cmd) : encode (a ++ b) = encode a ++ encode b := by
  unfold encode; rw [List.map_append, List.flatten_append]

theorem offAt_succ (cs : List Cmd) (k : Nat) (hk : k < cs.length) : offAt cs (k + 1) = offAt cs k + cs[k].bytes.length := by
  unfold offAt
  rw [take_succ_get cs k hk, encode_append, List.length_append]
  simp [encode]

theorem timeAt_succ (cs : List Cmd) (k : Nat) (hk : k < cs.length) : timeAt cs (k + 1) = cs[k].next (timeAt cs k) := by
  unfold timeAt
  rw [take_succ_get cs k hk, List.foldl_append]
  rfl

theorem colAt_succ (cs : List Cmd) (k : Nat) (hk : k < cs.length) : colAt cs (k + 1) = cs[k].colour (colAt cs k) := by
  unfold colAt
  rw [take_succ_get cs k hk, List.foldl_append]
  rfl

theorem pyroAt_succ (cs : List Cmd) (k : Nat) (hk : k < cs.length) : pyroAt cs (k + 1) = cs[k].pyroAfter (pyroAt cs k) := by
  unfold pyroAt
  rw [take_succ_get cs k hk, List.foldl_append]
  rfl

theorem encode_drop (cs : List Cmd) (k : Nat) (hk : k < cs.length) :
    (encode cs).drop (offAt cs k) = cs[k].bytes ++ encode (cs.drop (k + 1)) := by
  have h1 : encode cs = encode (cs.take k) ++ encode (cs.drop k) := by rw [← encode_append, List.take_append_drop]
  rw [h1]
  unfold offAt
  rw [List.drop_left]
  rw [List.drop_eq_getElem_cons hk]
  unfold encode
  rw [List.map_cons, List.flatten_cons]

theorem encode_drop_end (cs : List Cmd) : (encode cs).length = offAt cs cs.length := by
  unfold offAt; rw [List.take_length]

theorem offAt_le (cs : List Cmd) (k : Nat) (hk : k ≤ cs.length) : offAt cs k ≤ (encode cs).length := by
  have h1 : encode cs = encode (cs.take k) ++ encode (cs.drop k) := by rw [← encode_append, List.take_append_drop]
  unfold offAt
  rw [h1, List.length_append]
  omega

theorem timeAt_step_le (cs : List Cmd) (k : Nat) (hk : k < cs.length) : timeAt cs k ≤ timeAt cs (k + 1) := by
  rw [timeAt_succ cs k hk]; exact Cmd.next_ge _ _

theorem timeAt_mono (cs : List Cmd) : ∀ i j, i ≤ j → j ≤ cs.length → timeAt cs i ≤ timeAt cs j := by
  intro i j hij
  induction j with
  | zero => intro _; have : i = 0 := by omega
            subst this; exact Nat.le_refl _
  | succ j ih =>
    intro hj
    by_cases h : i = j + 1
    · subst h; exact Nat.le_refl _
    · have := ih (by omega) (by omega)
      have := timeAt_step_le cs j (by omega)
      omega

theorem timeAt_le (cs : List Cmd) (k : Nat) (hk : k ≤ cs.length) : timeAt cs k ≤ timeAt cs cs.length :=
  timeAt_mono cs k cs.length hk (Nat.le_refl _)

def ValidC (c : Color) : Prop := c.1 ≤ 255 ∧ c.2.1 ≤ 255 ∧ c.2.2 ≤ 255

theorem lerp_zero (a b : Color) (h : ValidC a) : lerp a b 0 = a := by
  unfold lerp
  rw [Sb.C02.lerpChan_zero _ _ h.1, Sb.C02.lerpChan_zero _ _ h.2.1, Sb.C02.lerpChan_zero _ _ h.2.2]

theorem lerp_one (a b : Color) (h : ValidC b) : lerp a b 1 = b := by
  unfold lerp
  rw [Sb.C02.lerpChan_one _ _ h.1, Sb.C02.lerpChan_one _ _ h.2.1, Sb.C02.lerpChan_one _ _ h.2.2]

theorem colour_valid (c : Cmd) (prev : Color) (hc : c.ok) (hp : ValidC prev) : ValidC (c.colour prev) := by
  cases c with
  | set en r g b d =>
    obtain ⟨a, b', c', _⟩ := hc
    exact ⟨show r ≤ 255 by omega, show g ≤ 255 by omega, show b ≤ 255 by omega⟩
  | fade en r g b d =>
    obtain ⟨a, b', c', _⟩ := hc
    exact ⟨show r ≤ 255 by omega, show g ≤ 255 by omega, show b ≤ 255 by omega⟩
  | sleep d => exact hp
  | pyro m => exact hp
  | pyroSet m => exact hp
  | nop => exact hp
  | trigger p a => exact hp
  | waitUntil v => exact hp

theorem colAt_valid (cs : List Cmd) (hok : ∀ c ∈ cs, c.ok) : ∀ k, k ≤ cs.length → ValidC (colAt cs k) := by
  intro k
  induction k with
  | zero => intro _; exact ⟨Nat.zero_le _, Nat.zero_le _, Nat.zero_le _⟩
  | succ k ih =>
    intro hk
    rw [colAt_succ cs k (by omega)]
    exact colour_valid _ _ (hok _ (List.getElem_mem _)) (ih (by omega))

theorem progressOf_start (s d : Nat) (hd : 0 < d) : progressOf s d s = 0 := by
  unfold progressOf
  rw [if_neg (by omega), if_neg (by omega)]
  have h0 : ulToF (s - s) = 0 := by
    rw [Nat.sub_self]; unfold ulToF; simpa using roundF32_zero
  simp only [h0, zero_div]
  norm_num

theorem progressOf_end_eq (s d : Nat) : progressOf s d (s + d) = 1 := by
  unfold progressOf
  rw [if_neg (by omega)]
  split
  · rfl
  · rename_i hd
    have h1 : s + d - s = d := by omega
    rw [h1]
    have hp := ulToF_pos (Nat.pos_of_ne_zero hd)
    have h2 : ulToF d / ulToF d = 1 := div_self (ne_of_gt hp)
    simp only [h2]
    norm_num

/-! ### the executor state along the wake-up chain of an encoded command list -/

/-- well-formed command list: every command is, the bytecode fits the 16-bit size, the whole show lasts at most 2^24 ms -/
structure WF (cs : List Cmd) : Prop where
  ok : ∀ c ∈ cs, c.ok
  nonempty : 0 < cs.length
  size : (encode cs).length < 65536
  time : timeAt cs cs.length ≤ 16777216

structure Frame (cs : List Cmd) (e : Exec) (k : Nat) : Prop where
  prog : e.prog = encode cs
  size : e.size = (encode cs).length
  pc : e.pc = offAt cs k
  loops : e.loops = []
  ended : e.ended = false
  reset : e.resetFlag = false
  reset0 : e.lastReset = 0
  cum : e.cumulative = timeAt cs k
  wake : e.nextWakeup = timeAt cs k
  pyro : e.pyro = pyroAt cs k

/-- ready to execute command `k`: no fade running, the colour is the colour after the first `k` commands -/
structure Pre (cs : List Cmd) (e : Exec) (k : Nat) : Prop where
  frame : Frame cs e k
  tr : e.trActive = false
  color : e.color = colAt cs k
  startColor : e.startColor = colAt cs k

/-- the fade registers and the colour right after command `c` (the `k`-th) was executed at its start time -/
def AfterCmd (cs : List Cmd) (e : Exec) (k : Nat) (c : Cmd) : Prop :=
  match c with
  | .fade en r g b d =>
    if d = 0 then e.trActive = false ∧ e.color = colAt cs k ∧ e.startColor = colAt cs k
    else e.trActive = true ∧ e.trStart + 20 * d = timeAt cs k ∧ e.trDuration = 20 * d ∧ e.startColor = colAt cs (k - 1) ∧
         e.endColor = (r, g, b) ∧ e.color = colAt cs (k - 1)
  | _ => e.trActive = false ∧ e.color = colAt cs k ∧ e.startColor = colAt cs k

theorem exec_cmd (cs : List Cmd) (hw : WF cs) (e : Exec) (k : Nat) (hk : k < cs.length) (hp : Pre cs e k)
    (hs : e.cmdStart = timeAt cs k) :
    Frame cs (execCommand e) (k + 1) ∧ AfterCmd cs (execCommand e) (k + 1) cs[k] := by
  obtain ⟨⟨f1, f2, f3, f4, f5, f6, f7, f8, f9, f10⟩, p1, p2, p3⟩ := hp
  have hr : Ready e (timeAt cs k) 0 := ⟨f5, f7, by rw [f8, Nat.zero_add], f9, hs⟩
  have hdrop : e.prog.drop e.pc = cs[k].bytes ++ encode (cs.drop (k + 1)) := by rw [f1, f3]; exact encode_drop cs k hk
  have hsize : e.pc + cs[k].bytes.length ≤ e.size := by
    rw [f3, f2, ← offAt_succ cs k hk]; exact offAt_le cs (k + 1) (by omega)
  have hok := hw.ok cs[k] (List.getElem_mem _)
  have hT : cs[k].next (timeAt cs k) ≤ 16777216 := by
    rw [← timeAt_succ cs k hk]
    exact le_trans (timeAt_le cs (k + 1) (by omega)) hw.time
  have hoff := offAt_succ cs k hk
  have htime := timeAt_succ cs k hk
  have hcol := colAt_succ cs k hk
  have hpy := pyroAt_succ cs k hk
  have hvk := colAt_valid cs hw.ok k (by omega)
  generalize hc : cs[k] = c at *
  cases c with
  | sleep d =>
    rw [exec_sleep e _ 0 d _ hr hok hdrop hsize (by simpa [Cmd.next] using hT)]
    refine ⟨⟨f1, f2, ?_, f4, f5, f6, f7, ?_, ?_, ?_⟩, ?_⟩
    · simp only; rw [f3, hoff]
    · simp only; rw [htime, f8]; simp [Cmd.next]
    · simp only; rw [htime]; simp [Cmd.next]
    · simp only; rw [f10, hpy]; rfl
    · show _ ∧ _ ∧ _
      simp only
      rw [hcol]
      exact ⟨p1, p2, p3⟩
  | set en r g b d =>
    rw [exec_set e _ 0 en r g b d _ hr hok hdrop hsize (by simpa [Cmd.next] using hT)]
    refine ⟨⟨f1, f2, ?_, f4, f5, f6, f7, ?_, ?_, ?_⟩, ?_⟩
    · simp only; rw [f3, hoff]
    · simp only; rw [htime, f8]; simp [Cmd.next]
    · simp only; rw [htime]; simp [Cmd.next]
    · simp only; rw [f10, hpy]; rfl
    · show _ ∧ _ ∧ _
      simp only
      rw [hcol]
      exact ⟨p1, rfl, rfl⟩
  | pyro m =>
    rw [exec_pyro e _ 0 m _ hr hok hdrop hsize]
    refine ⟨⟨f1, f2, ?_, f4, f5, f6, f7, ?_, ?_, ?_⟩, ?_⟩
    · simp only; rw [f3, hoff]
    · simp only; rw [htime, f8]; rfl
    · simp only; rw [htime, f9]; rfl
    · simp only; rw [hpy]; rfl
    · show _ ∧ _ ∧ _
      simp only
      rw [hcol]
      exact ⟨p1, p2, p3⟩
  | pyroSet m =>
    rw [exec_pyroSet e _ 0 m _ hr hok hdrop hsize]
    refine ⟨⟨f1, f2, ?_, f4, f5, f6, f7, ?_, ?_, ?_⟩, ?_⟩
    · simp only; rw [f3, hoff]
    · simp only; rw [htime, f8]; rfl
    · simp only; rw [htime, f9]; rfl
    · simp only; rw [hpy, f10]
    · show _ ∧ _ ∧ _
      simp only
      rw [hcol]
      exact ⟨p1, p2, p3⟩
  | nop =>
    rw [exec_nop e _ 0 _ hr hdrop hsize]
    refine ⟨⟨f1, f2, ?_, f4, f5, f6, f7, ?_, ?_, ?_⟩, ?_⟩
    · simp only; rw [f3, hoff]
    · simp only; rw [htime, f8]; rfl
    · simp only; rw [htime, f9]; rfl
    · simp only; rw [f10, hpy]; rfl
    · show _ ∧ _ ∧ _
      simp only
      rw [hcol]
      exact ⟨p1, p2, p3⟩
  | trigger p a =>
    rw [exec_trigger e _ 0 p a _ hr hok hdrop hsize]
    refine ⟨⟨f1, f2, ?_, f4, f5, f6, f7, ?_, ?_, ?_⟩, ?_⟩
    · simp only; rw [f3, hoff]
    · simp only; rw [htime, f8]; rfl
    · simp only; rw [htime, f9]; rfl
    · simp only; rw [f10, hpy]; rfl
    · show _ ∧ _ ∧ _
      simp only
      rw [hcol]
      exact ⟨p1, p2, p3⟩
  | waitUntil v =>
    rw [exec_wait e _ 0 v _ hr hok hdrop hsize (by simpa [Cmd.next] using hT)]
    refine ⟨⟨f1, f2, ?_, f4, f5, f6, f7, ?_, ?_, ?_⟩, ?_⟩
    · simp only; rw [f3, hoff]
    · simp only; rw [htime]; simp [Cmd.next]
    · simp only; rw [htime]; simp [Cmd.next]
    · simp only; rw [f10, hpy]; rfl
    · show _ ∧ _ ∧ _
      simp only
      rw [hcol]
      exact ⟨p1, p2, p3⟩
  | fade en r g b d =>
    rw [exec_fade e _ 0 en r g b d _ hr hok hdrop hsize (by simpa [Cmd.next] using hT)]
    obtain ⟨q1, q2, q3, q4, q5, q6, q7, q8, q9, q10, q11⟩ := fadeFinish_frame (transitionStep
      (fadeStart e (timeAt cs k) r g b d (Cmd.fade en r g b d).bytes.length) (timeAt cs k))
    have hcolv : ValidC (r, g, b) := by obtain ⟨a, b', c', _⟩ := hok; exact ⟨show r ≤ 255 by omega, show g ≤ 255 by omega, show b ≤ 255 by omega⟩
    unfold fadeResult
    refine ⟨⟨?_, ?_, ?_, ?_, ?_, ?_, ?_, ?_, ?_, ?_⟩, ?_⟩
    · rw [q10]; simpa [transitionStep, fadeStart] using f1
    · rw [q11]; simpa [transitionStep, fadeStart] using f2
    · unfold fadeFinish; split <;> (simp only [transitionStep, fadeStart]; rw [f3, hoff])
    · unfold fadeFinish; split <;> (simp only [transitionStep, fadeStart]; exact f4)
    · rw [q9]; simpa [transitionStep, fadeStart] using f5
    · rw [q1]; simpa [transitionStep, fadeStart] using f6
    · unfold fadeFinish; split <;> (simp only [transitionStep, fadeStart]; exact f7)
    · unfold fadeFinish; split <;> (simp only [transitionStep, fadeStart]; rw [htime, f8]; rfl)
    · rw [q2]; simp only [transitionStep, fadeStart]; rw [htime]; rfl
    · unfold fadeFinish; split <;> (simp only [transitionStep, fadeStart]; rw [f10, hpy]; rfl)
    · show if d = 0 then _ else _
      by_cases hd0 : d = 0
      · rw [if_pos hd0]
        have hprog : progress (fadeStart e (timeAt cs k) r g b d (Cmd.fade en r g b d).bytes.length) (timeAt cs k) = 1 := by
          rw [progress_eq]; simp only [fadeStart]
          have := progressOf_end_eq (timeAt cs k) (20 * d)
          rw [hd0] at this ⊢
          simpa using this
        unfold fadeFinish transitionStep
        simp only [hprog]
        have hlt : ¬ ((1 : ℚ) < 1) := by norm_num
        simp only [hlt, decide_false, Bool.false_eq_true, if_false, fadeStart]
        rw [hcol, lerp_one _ _ hcolv]
        simp [Cmd.colour]
      · rw [if_neg hd0]
        have hprog : progress (fadeStart e (timeAt cs k) r g b d (Cmd.fade en r g b d).bytes.length) (timeAt cs k) = 0 := by
          rw [progress_eq]; simp only [fadeStart]
          exact progressOf_start _ _ (by omega)
        unfold fadeFinish transitionStep
        simp only [hprog]
        have hlt : ((0 : ℚ) < 1) := by norm_num
        simp only [hlt, decide_true, if_true, fadeStart]
        rw [p3, lerp_zero _ _ hvk, htime]
        simp [Cmd.next]

/-- at the next wake-up a running fade is complete: the executor is ready for the next command -/
theorem finish_cmd (cs : List Cmd) (hw : WF cs) (e : Exec) (k : Nat) (hk1 : 1 ≤ k) (hk : k ≤ cs.length)
    (hf : Frame cs e k) (ha : AfterCmd cs e k (cs[k - 1]'(by omega))) :
    Pre cs (stepFade e (timeAt cs k)) k := by
  have hok := hw.ok (cs[k - 1]'(by omega)) (List.getElem_mem _)
  have hcol : colAt cs k = (cs[k - 1]'(by omega)).colour (colAt cs (k - 1)) := by
    have := colAt_succ cs (k - 1) (by omega)
    rwa [show k - 1 + 1 = k by omega] at this
  generalize hc : cs[k - 1]'(by omega) = c at *
  have idle : e.trActive = false → e.color = colAt cs k → e.startColor = colAt cs k → Pre cs (stepFade e (timeAt cs k)) k := by
    intro t1 t2 t3
    have : stepFade e (timeAt cs k) = e := by unfold stepFade; simp [t1]
    rw [this]
    exact ⟨hf, t1, t2, t3⟩
  cases c with
  | sleep d => exact idle ha.1 ha.2.1 ha.2.2
  | set en r g b d => exact idle ha.1 ha.2.1 ha.2.2
  | pyro m => exact idle ha.1 ha.2.1 ha.2.2
  | pyroSet m => exact idle ha.1 ha.2.1 ha.2.2
  | nop => exact idle ha.1 ha.2.1 ha.2.2
  | trigger p a => exact idle ha.1 ha.2.1 ha.2.2
  | waitUntil v => exact idle ha.1 ha.2.1 ha.2.2
  | fade en r g b d =>
    by_cases hd0 : d = 0
    · simp only [AfterCmd, hd0, if_true] at ha
      exact idle ha.1 ha.2.1 ha.2.2
    · simp only [AfterCmd, hd0, if_false] at ha
      obtain ⟨a1, a2, a3, a4, a5, a6⟩ := ha
      obtain ⟨f1, f2, f3, f4, f5, f6, f7, f8, f9, f10⟩ := hf
      have hcolv : ValidC (r, g, b) := by
        obtain ⟨x, y, z, _⟩ := hok
        exact ⟨show r ≤ 255 by omega, show g ≤ 255 by omega, show b ≤ 255 by omega⟩
      have hprog : progress e (timeAt cs k) = 1 := by
        rw [progress_eq, a3, ← a2]
        exact progressOf_end_eq _ _
      have hlt : ¬ ((1 : ℚ) < 1) := by norm_num
      have hres : stepFade e (timeAt cs k) =
          { e with color := (r, g, b), trActive := false, startColor := (r, g, b) } := by
        unfold stepFade
        rw [if_pos a1]
        unfold fadeFinish transitionStep
        simp only [hprog, hlt, decide_false, Bool.false_eq_true, if_false, a5, lerp_one _ _ hcolv]
      rw [hres]
      refine ⟨⟨f1, f2, f3, f4, f5, f6, f7, f8, f9, f10⟩, rfl, ?_, ?_⟩
      · show (r, g, b) = colAt cs k
        rw [hcol]; rfl
      · show (r, g, b) = colAt cs k
        rw [hcol]; rfl

theorem absToInternal_zero (e : Exec) (h : e.lastReset = 0) : absToInternal e 0 = 0 := by
  unfold absToInternal
  rw [h]
  have h1 : subU64 0 0 = 0 := by decide
  have h2 : ulToF 0 = 0 := by unfold ulToF; simpa using roundF32_zero
  rw [h1, h2]
  unfold fToL
  have hW : (0 : ℚ) < ((W / 2 : Nat) : ℚ) := by
    have : 0 < W / 2 := by decide
    exact_mod_cast this
  rw [if_neg (not_le.mpr hW), if_neg (by linarith), if_neg (lt_irrefl _)]
  have : (0 : ℚ).floor = 0 := by
    have := Rat.floor_intCast (0 : Int)
    simpa using this
  rw [this]; rfl

/-- the state of a rewound executor after the reset stage of its first step at time 0 -/
theorem fresh_pre (cs : List Cmd) (hw : WF cs) :
    Pre cs (stepReset (Player.fresh (encode cs)).exec 0) 0 ∧ (stepReset (Player.fresh (encode cs)).exec 0).nextWakeup = 0 := by
  have hsz : (encode cs).length % 65536 = (encode cs).length := Nat.mod_eq_of_lt hw.size
  have hne : (encode cs).length ≠ 0 := by
    have h0 : 0 < cs.length := hw.nonempty
    have h3 := offAt_succ cs 0 h0
    have h1 : offAt cs 0 = 0 := rfl
    have h2 := offAt_le cs 1 (by omega)
    have h4 : ∀ c : Cmd, 1 ≤ c.bytes.length := Cmd.bytes_pos
    have h5 := h4 (cs[0]'h0)
    rw [h1] at h3
    rw [h3] at h2
    exact fun hz => by rw [hz] at h2; omega
  have hr : (Player.fresh (encode cs)).exec.resetFlag = true := (fresh_exec (encode cs)).1
  have hcum : (setClockOrigin (Player.fresh (encode cs)).exec 0).cumulative = 0 := by
    unfold setClockOrigin
    simp only
    rw [absToInternal_zero _ rfl]
    simp
  unfold stepReset
  rw [if_pos hr]
  refine ⟨⟨⟨?_, ?_, ?_, ?_, ?_, rfl, ?_, ?_, rfl, ?_⟩, ?_, rfl, rfl⟩, rfl⟩
  · simp [setColorAndResetTransition, setClockOrigin, Player.fresh, rewindExec]
  · simp [setColorAndResetTransition, setClockOrigin, Player.fresh, rewindExec, hsz]
  · simp [setColorAndResetTransition, setClockOrigin, Player.fresh, rewindExec]; rfl
  · simp [setColorAndResetTransition, setClockOrigin, Player.fresh, rewindExec]
  · simp [setColorAndResetTransition, setClockOrigin, Player.fresh, rewindExec, hsz, hne]
  · simp [setColorAndResetTransition, setClockOrigin]
  · show (setColorAndResetTransition (setClockOrigin (Player.fresh (encode cs)).exec 0) black).cumulative = timeAt cs 0
    simp only [setColorAndResetTransition]
    rw [hcum]; rfl
  · simp [setColorAndResetTransition, setClockOrigin, Player.fresh, rewindExec]; rfl
  · simp [setColorAndResetTransition, setClockOrigin, Player.fresh, rewindExec]

/-- one wake-up of the chain executes one command -/
theorem step_executes (cs : List Cmd) (hw : WF cs) (e : Exec) (k : Nat) (hk : k < cs.length) (hp : Pre cs e k) :
    step e (timeAt cs k) = execCommand { e with cmdStart := timeAt cs k } := by
  rw [step_eq, stepReset_of_not_reset hp.frame.reset, if_neg (by simp [hp.frame.ended])]
  have hsf : stepFade e (timeAt cs k) = e := by unfold stepFade; simp [hp.tr]
  rw [hsf]
  unfold stepWake
  rw [if_pos (by rw [hp.frame.wake])]

theorem pre_with_start (cs : List Cmd) (e : Exec) (k x : Nat) (hp : Pre cs e k) : Pre cs { e with cmdStart := x } k :=
  ⟨⟨hp.frame.prog, hp.frame.size, hp.frame.pc, hp.frame.loops, hp.frame.ended, hp.frame.reset, hp.frame.reset0, hp.frame.cum,
    hp.frame.wake, hp.frame.pyro⟩, hp.tr, hp.color, hp.startColor⟩

/-- **the wake-up chain of an encoded command list**: chain point `k` (1 ≤ k ≤ n) is the state right after command
`k-1` was started — at the time the first `k-1` durations add up to, until the time the first `k` durations add up to -/
theorem chain_timeline (cs : List Cmd) (hw : WF cs) : ∀ k, (h1 : 1 ≤ k) → (hk : k ≤ cs.length) →
    Frame cs (chain (encode cs) k).exec k ∧ AfterCmd cs (chain (encode cs) k).exec k (cs[k - 1]'(by omega)) ∧
    (chain (encode cs) k).current = timeAt cs (k - 1) ∧ (chain (encode cs) k).next = timeAt cs k := by
  intro k
  induction k with
  | zero => intro h; omega
  | succ k ih =>
    intro _ hk
    by_cases hk0 : k = 0
    · subst hk0
      obtain ⟨hp, hwk⟩ := fresh_pre cs hw
      have hn : (chain (encode cs) 0).next = 0 := rfl
      have hex : (chain (encode cs) 1).exec = execCommand { stepReset (Player.fresh (encode cs)).exec 0 with cmdStart := 0 } := by
        rw [chain_exec, hn]
        have hc0 : chain (encode cs) 0 = Player.fresh (encode cs) := rfl
        rw [hc0, step_eq, if_neg (by simp [hp.frame.ended])]
        have hsf : stepFade (stepReset (Player.fresh (encode cs)).exec 0) 0 = stepReset (Player.fresh (encode cs)).exec 0 := by
          unfold stepFade
          simp [hp.tr]
        rw [hsf]
        unfold stepWake
        rw [if_pos (by rw [hwk])]
      obtain ⟨a, b⟩ := exec_cmd cs hw _ 0 (by omega) (pre_with_start cs _ 0 0 hp) rfl
      rw [← hex] at a b
      refine ⟨a, b, ?_, ?_⟩
      · rw [chain_current]; rfl
      · rw [chain_succ, adv_next, ← chain_exec, a.wake, hn, if_neg (by omega)]
    · obtain ⟨f, af, c1, c2⟩ := ih (by omega) (by omega)
      have hp := finish_cmd cs hw _ k (by omega) (by omega) f af
      have hstep : (chain (encode cs) (k + 1)).exec =
          execCommand { stepFade (chain (encode cs) k).exec (timeAt cs k) with cmdStart := timeAt cs k } := by
        rw [chain_exec, c2, step_eq, stepReset_of_not_reset f.reset, if_neg (by simp [f.ended])]
        unfold stepWake
        rw [if_pos (by rw [hp.frame.wake])]
      obtain ⟨a, b⟩ := exec_cmd cs hw _ k (by omega) (pre_with_start cs _ k (timeAt cs k) hp) rfl
      rw [← hstep] at a b
      refine ⟨a, b, ?_, ?_⟩
      · rw [chain_current, c2]; rfl
      · rw [chain_succ, adv_next, ← chain_exec, a.wake, c2, if_neg]
        have := timeAt_step_le cs k (by omega)
        omega

/-- **after the last command the program ends and holds its last colour and pyro mask** (the end of the bytecode reads
as the end marker) -/
theorem chain_end (cs : List Cmd) (hw : WF cs) :
    (chain (encode cs) (cs.length + 1)).exec.ended = true ∧
    (chain (encode cs) (cs.length + 1)).exec.color = colAt cs cs.length ∧
    (chain (encode cs) (cs.length + 1)).exec.pyro = pyroAt cs cs.length ∧
    (chain (encode cs) (cs.length + 1)).current = timeAt cs cs.length := by
  obtain ⟨f, af, c1, c2⟩ := chain_timeline cs hw cs.length hw.nonempty (Nat.le_refl _)
  have hp := finish_cmd cs hw _ cs.length hw.nonempty (Nat.le_refl _) f af
  have hstep : (chain (encode cs) (cs.length + 1)).exec =
      execCommand { stepFade (chain (encode cs) cs.length).exec (timeAt cs cs.length) with cmdStart := timeAt cs cs.length } := by
    rw [chain_exec, c2, step_eq, stepReset_of_not_reset f.reset, if_neg (by simp [f.ended])]
    unfold stepWake
    rw [if_pos (by rw [hp.frame.wake])]
  have hend : execCommand { stepFade (chain (encode cs) cs.length).exec (timeAt cs cs.length) with cmdStart := timeAt cs cs.length } =
      { ({ stepFade (chain (encode cs) cs.length).exec (timeAt cs cs.length) with cmdStart := timeAt cs cs.length } : Exec) with ended := true } := by
    unfold execCommand
    rw [if_neg (by simp [hp.frame.ended])]
    have hb : byteAt (stepFade (chain (encode cs) cs.length).exec (timeAt cs cs.length)).prog
        (stepFade (chain (encode cs) cs.length).exec (timeAt cs cs.length)).size
        (stepFade (chain (encode cs) cs.length).exec (timeAt cs cs.length)).pc =
        (Gen.CMD_END, (stepFade (chain (encode cs) cs.length).exec (timeAt cs cs.length)).pc) := by
      unfold byteAt
      rw [if_neg]
      rw [hp.frame.pc, hp.frame.size, encode_drop_end]
      omega
    rw [nextByte_eq]
    simp only [hb, if_true]
  refine ⟨?_, ?_, ?_, ?_⟩
  · rw [hstep, hend]
  · rw [hstep, hend]; exact hp.color
  · rw [hstep, hend]; exact hp.frame.pyro
  · rw [chain_current, c2]

end Sb.Proofs.Light
