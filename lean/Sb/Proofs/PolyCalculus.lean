/-
Calculus of the coefficient-list polynomials of `Sb.Model.Poly` against Mathlib's `Polynomial ℚ`:
evaluation, derivative, scaling, and the chain rule for the affine time substitution of a segment.
-/
import Mathlib.Algebra.Polynomial.Derivative
import Mathlib.Algebra.Polynomial.Eval.Defs
import Mathlib.Tactic.Ring
import Mathlib.Tactic.FieldSimp
import Sb.Model.Poly

namespace Sb.Proofs
open Polynomial Sb.Poly

/-- the Mathlib polynomial with the given coefficient list (constant term first) -/
noncomputable def toPoly : List Rat → ℚ[X]
  | [] => 0
  | c :: cs => C c + X * toPoly cs

theorem eval_toPoly (p : List Rat) (t : Rat) : (toPoly p).eval t = Poly.eval p t := by
  induction p with
  | nil => simp [toPoly, Poly.eval]
  | cons c cs ih =>
    simp only [toPoly, eval_add, eval_C, eval_mul, eval_X, Poly.eval, List.foldr_cons]
    rw [ih]; simp only [Poly.eval]; ring

theorem toPoly_derivAux (cs : List Rat) (i : Nat) :
    toPoly (derivAux cs i) = (i : ℚ[X]) * toPoly cs + X * derivative (toPoly cs) := by
  induction cs generalizing i with
  | nil => simp [derivAux, toPoly]
  | cons c cs ih =>
    simp only [derivAux, toPoly, ih, derivative_add, derivative_C, derivative_mul, derivative_X]
    simp only [map_mul, map_natCast, Nat.cast_add, Nat.cast_one]
    ring

/-- `sb_poly_deriv` computes the derivative -/
theorem toPoly_deriv (p : List Rat) : toPoly (Poly.deriv p) = derivative (toPoly p) := by
  rcases p with _ | ⟨c, _ | ⟨c1, cs⟩⟩
  · simp [Poly.deriv, makeZero, toPoly]
  · simp [Poly.deriv, makeZero, toPoly]
  · simp only [Poly.deriv]
    rw [toPoly_derivAux]
    simp only [toPoly, derivative_add, derivative_C, derivative_mul, derivative_X]
    simp only [Nat.cast_one]
    ring

/-- `sb_poly_scale` multiplies the polynomial by the factor -/
theorem toPoly_scale (p : List Rat) (k : Rat) : toPoly (Poly.scale p k) = C k * toPoly p := by
  induction p with
  | nil => simp [Poly.scale, toPoly]
  | cons c cs ih =>
    simp only [Poly.scale, List.map_cons, toPoly] at ih ⊢
    rw [ih]; simp only [map_mul]; ring

theorem eval_deriv (p : List Rat) (t : Rat) : Poly.eval (Poly.deriv p) t = (derivative (toPoly p)).eval t := by
  rw [← eval_toPoly, toPoly_deriv]

theorem eval_scale (p : List Rat) (k t : Rat) : Poly.eval (Poly.scale p k) t = k * Poly.eval p t := by
  rw [← eval_toPoly, toPoly_scale, eval_mul, eval_C, eval_toPoly]

/-- the polynomial in absolute time τ of a segment starting at `T` lasting `D`: P((τ − T)/D) -/
noncomputable def inTime (P : ℚ[X]) (T D : Rat) : ℚ[X] := P.comp (C (1 / D) * X - C (T / D))

theorem eval_inTime (P : ℚ[X]) (T D τ : Rat) : (inTime P T D).eval τ = P.eval ((τ - T) / D) := by
  simp only [inTime, eval_comp, eval_sub, eval_mul, eval_C, eval_X]
  congr 1; ring

/-- chain rule for the affine time substitution -/
theorem derivative_inTime (P : ℚ[X]) (T D : Rat) :
    derivative (inTime P T D) = C (1 / D) * inTime (derivative P) T D := by
  simp only [inTime, derivative_comp, derivative_sub, derivative_mul, derivative_C, derivative_X]
  ring

end Sb.Proofs
