/-
C02: a command-level abstract machine for light programs with loops, and the executor's wake-up chain as a run of it.
Part 1: executing one command from an abstractly described executor state.
-/
import Sb.Proofs.LightTimeline

namespace Sb.Proofs.Light
open Sb Sb.Lights

/-- what the machine knows between two commands: program time, colour in effect, pyro mask -/
structure MState where
  T : Nat
  col : Color
  pyro : Nat
  /-- the clock origin: the time of the last RESET_CLOCK (0 before the first) -/
  R : Nat
  deriving DecidableEq, Inhabited

def Cmd.apply (c : Cmd) (m : MState) : MState := ⟨c.nextR m.T m.R, c.colour m.col, c.pyroAfter m.pyro, m.R⟩

structure GFrame (bc : Bytes) (e : Exec) (pc : Nat) (loops : List LoopItem) (T pyro R : Nat) : Prop where
  prog : e.prog = bc
  size : e.size = bc.length
  pc : e.pc = pc
  loops : e.loops = loops
  ended : e.ended = false
  reset : e.resetFlag = false
  reset0 : e.lastReset = R
  cum : R + e.cumulative = T
  wake : e.nextWakeup = T
  pyro : e.pyro = pyro

structure GPre (prog : Bytes) (e : Exec) (pc : Nat) (loops : List LoopItem) (m : MState) : Prop where
  frame : GFrame prog e pc loops m.T m.pyro m.R
  tr : e.trActive = false
  color : e.color = m.col
  startColor : e.startColor = m.col

/-- the fade registers and the colour right after command `c` was executed from the machine state `m` -/
def GAfter (e : Exec) (c : Cmd) (m : MState) : Prop :=
  match c with
  | .fade en r g b d =>
    if d = 0 then e.trActive = false ∧ e.color = (r, g, b) ∧ e.startColor = (r, g, b)
    else e.trActive = true ∧ e.trStart = m.T ∧ e.trDuration = 20 * d ∧ e.startColor = m.col ∧
         e.endColor = (r, g, b) ∧ e.color = m.col
  | _ => e.trActive = false ∧ e.color = c.colour m.col ∧ e.startColor = c.colour m.col

theorem exec_base (prog : Bytes) (e : Exec) (pc : Nat) (loops : List LoopItem) (m : MState) (c : Cmd) (rest : Bytes)
    (hp : GPre prog e pc loops m) (hs : e.cmdStart = m.T)
    (hdrop' : prog.drop pc = c.bytes ++ rest) (hsize' : pc + c.bytes.length ≤ prog.length) (hok : c.ok)
    (hT : c.nextR m.T m.R ≤ 16777216) (hvk : ValidC m.col) :
    GFrame prog (execCommand e) (pc + c.bytes.length) loops (c.nextR m.T m.R) (c.pyroAfter m.pyro) m.R ∧
      GAfter (execCommand e) c m := by
  obtain ⟨⟨f1, f2, f3, f4, f5, f6, f7, f8, f9, f10⟩, p1, p2, p3⟩ := hp
  have hr : Ready e m.T m.R := ⟨f5, f7, f8, f9, hs⟩
  have hdrop : e.prog.drop e.pc = c.bytes ++ rest := by rw [f1, f3]; exact hdrop'
  have hsize : e.pc + c.bytes.length ≤ e.size := by rw [f3, f2]; exact hsize'
  cases c with
  | sleep d =>
    rw [exec_sleep e _ _ d _ hr hok hdrop hsize (by simpa [Cmd.nextR, Cmd.next] using hT)]
    refine ⟨⟨f1, f2, ?_, f4, f5, f6, f7, ?_, rfl, ?_⟩, ?_⟩
    · simp only; rw [f3]
    · simp only [Cmd.nextR, Cmd.next]; omega
    · simp only; rw [f10]; rfl
    · exact ⟨p1, p2, p3⟩
  | set en r g b d =>
    rw [exec_set e _ _ en r g b d _ hr hok hdrop hsize (by simpa [Cmd.nextR, Cmd.next] using hT)]
    refine ⟨⟨f1, f2, ?_, f4, f5, f6, f7, ?_, rfl, ?_⟩, ?_⟩
    · simp only; rw [f3]
    · simp only [Cmd.nextR, Cmd.next]; omega
    · simp only; rw [f10]; rfl
    · exact ⟨p1, rfl, rfl⟩
  | pyro mm =>
    rw [exec_pyro e _ _ mm _ hr hok hdrop hsize]
    refine ⟨⟨f1, f2, ?_, f4, f5, f6, f7, ?_, ?_, rfl⟩, ?_⟩
    · simp only; rw [f3]
    · simp only [Cmd.nextR, Cmd.next]; exact f8
    · simp only; rw [f9]; rfl
    · exact ⟨p1, p2, p3⟩
  | pyroSet mm =>
    rw [exec_pyroSet e _ _ mm _ hr hok hdrop hsize]
    refine ⟨⟨f1, f2, ?_, f4, f5, f6, f7, ?_, ?_, ?_⟩, ?_⟩
    · simp only; rw [f3]
    · simp only [Cmd.nextR, Cmd.next]; exact f8
    · simp only; rw [f9]; rfl
    · simp only; rw [f10]
    · exact ⟨p1, p2, p3⟩
  | nop =>
    rw [exec_nop e _ _ _ hr hdrop hsize]
    refine ⟨⟨f1, f2, ?_, f4, f5, f6, f7, ?_, ?_, ?_⟩, ?_⟩
    · simp only; rw [f3]
    · simp only [Cmd.nextR, Cmd.next]; exact f8
    · simp only; rw [f9]; rfl
    · simp only; rw [f10]; rfl
    · exact ⟨p1, p2, p3⟩
  | trigger p a =>
    rw [exec_trigger e _ _ p a _ hr hok hdrop hsize]
    refine ⟨⟨f1, f2, ?_, f4, f5, f6, f7, ?_, ?_, ?_⟩, ?_⟩
    · simp only; rw [f3]
    · simp only [Cmd.nextR, Cmd.next]; exact f8
    · simp only; rw [f9]; rfl
    · simp only; rw [f10]; rfl
    · exact ⟨p1, p2, p3⟩
  | waitUntil v =>
    rw [exec_wait e _ _ v _ hr hok hdrop hsize (by simpa [Cmd.nextR] using hT)]
    refine ⟨⟨f1, f2, ?_, f4, f5, f6, f7, ?_, rfl, ?_⟩, ?_⟩
    · simp only; rw [f3]
    · simp only [Cmd.nextR]
      have := Nat.le_max_left m.T (m.R + 20 * v)
      omega
    · simp only; rw [f10]; rfl
    · exact ⟨p1, p2, p3⟩
  | fade en r g b d =>
    rw [exec_fade e _ _ en r g b d _ hr hok hdrop hsize (by simpa [Cmd.nextR, Cmd.next] using hT)]
    obtain ⟨q1, q2, q3, q4, q5, q6, q7, q8, q9, q10, q11⟩ := fadeFinish_frame (transitionStep
      (fadeStart e m.T r g b d (Cmd.fade en r g b d).bytes.length) m.T)
    have hcolv : ValidC (r, g, b) := by
      obtain ⟨a, b', c', _⟩ := hok
      exact ⟨show r ≤ 255 by omega, show g ≤ 255 by omega, show b ≤ 255 by omega⟩
    unfold fadeResult
    refine ⟨⟨?_, ?_, ?_, ?_, ?_, ?_, ?_, ?_, ?_, ?_⟩, ?_⟩
    · rw [q10]; simpa [transitionStep, fadeStart] using f1
    · rw [q11]; simpa [transitionStep, fadeStart] using f2
    · unfold fadeFinish; split <;> (simp only [transitionStep, fadeStart]; rw [f3])
    · unfold fadeFinish; split <;> (simp only [transitionStep, fadeStart]; exact f4)
    · rw [q9]; simpa [transitionStep, fadeStart] using f5
    · rw [q1]; simpa [transitionStep, fadeStart] using f6
    · unfold fadeFinish; split <;> (simp only [transitionStep, fadeStart]; exact f7)
    · unfold fadeFinish; split <;> (simp only [transitionStep, fadeStart, Cmd.nextR, Cmd.next]; omega)
    · rw [q2]; simp only [transitionStep, fadeStart]; rfl
    · unfold fadeFinish; split <;> (simp only [transitionStep, fadeStart]; rw [f10]; rfl)
    · show if d = 0 then _ else _
      by_cases hd0 : d = 0
      · rw [if_pos hd0]
        have hprog : progress (fadeStart e m.T r g b d (Cmd.fade en r g b d).bytes.length) m.T = 1 := by
          rw [progress_eq]; simp only [fadeStart]
          have := progressOf_end_eq m.T (20 * d)
          rw [hd0] at this ⊢
          simpa using this
        unfold fadeFinish transitionStep
        simp only [hprog]
        have hlt : ¬ ((1 : ℚ) < 1) := by norm_num
        simp only [hlt, decide_false, Bool.false_eq_true, if_false, fadeStart]
        rw [lerp_one _ _ hcolv]
        simp
      · rw [if_neg hd0]
        have hprog : progress (fadeStart e m.T r g b d (Cmd.fade en r g b d).bytes.length) m.T = 0 := by
          rw [progress_eq]; simp only [fadeStart]
          exact progressOf_start _ _ (by omega)
        unfold fadeFinish transitionStep
        simp only [hprog]
        have hlt : ((0 : ℚ) < 1) := by norm_num
        simp only [hlt, decide_true, if_true, fadeStart]
        rw [p3, lerp_zero _ _ hvk]
        simp

/-- at the next wake-up a running fade is complete: the executor is ready for the next command; `m'` is the machine
state after the command (its time and colour are those of `c` applied to `m`; its clock origin may have moved) -/
theorem finish_base (prog : Bytes) (e : Exec) (pc : Nat) (loops : List LoopItem) (c : Cmd) (m m' : MState) (hok : c.ok)
    (hT' : m'.T = c.nextR m.T m.R) (hcol' : m'.col = c.colour m.col)
    (hf : GFrame prog e pc loops m'.T m'.pyro m'.R) (ha : GAfter e c m) :
    GPre prog (stepFade e m'.T) pc loops m' := by
  have idle : e.trActive = false → e.color = c.colour m.col → e.startColor = c.colour m.col →
      GPre prog (stepFade e m'.T) pc loops m' := by
    intro t1 t2 t3
    have : stepFade e m'.T = e := by unfold stepFade; simp [t1]
    rw [this]
    exact ⟨hf, t1, by rw [hcol']; exact t2, by rw [hcol']; exact t3⟩
  cases c with
  | sleep d => exact idle ha.1 ha.2.1 ha.2.2
  | set en r g b d => exact idle ha.1 ha.2.1 ha.2.2
  | pyro mm => exact idle ha.1 ha.2.1 ha.2.2
  | pyroSet mm => exact idle ha.1 ha.2.1 ha.2.2
  | nop => exact idle ha.1 ha.2.1 ha.2.2
  | trigger p a => exact idle ha.1 ha.2.1 ha.2.2
  | waitUntil v => exact idle ha.1 ha.2.1 ha.2.2
  | fade en r g b d =>
    by_cases hd0 : d = 0
    · simp only [GAfter, hd0, if_true] at ha
      exact idle ha.1 ha.2.1 ha.2.2
    · simp only [GAfter, hd0, if_false] at ha
      obtain ⟨a1, a2, a3, a4, a5, a6⟩ := ha
      obtain ⟨f1, f2, f3, f4, f5, f6, f7, f8, f9, f10⟩ := hf
      have hcolv : ValidC (r, g, b) := by
        obtain ⟨x, y, z, _⟩ := hok
        exact ⟨show r ≤ 255 by omega, show g ≤ 255 by omega, show b ≤ 255 by omega⟩
      have hprog : progress e m'.T = 1 := by
        rw [progress_eq, a3, a2, hT']
        exact progressOf_end_eq _ _
      have hlt : ¬ ((1 : ℚ) < 1) := by norm_num
      have hres : stepFade e m'.T =
          { e with color := (r, g, b), trActive := false, startColor := (r, g, b) } := by
        unfold stepFade
        rw [if_pos a1]
        unfold fadeFinish transitionStep
        simp only [hprog, hlt, decide_false, Bool.false_eq_true, if_false, a5, lerp_one _ _ hcolv]
      rw [hres]
      exact ⟨⟨f1, f2, f3, f4, f5, f6, f7, f8, f9, f10⟩, rfl, hcol'.symm ▸ rfl, hcol'.symm ▸ rfl⟩

/-! ### loop commands -/

theorem exec_loopBegin (e : Exec) (n : Nat) (rest : Bytes) (hend : e.ended = false) (hn : n < 256)
    (hdrop : e.prog.drop e.pc = UInt8.ofNat 12 :: UInt8.ofNat n :: rest) (hsize : e.pc + 2 ≤ e.size) :
    execCommand e =
      (if e.loops.length ≥ Gen.maxLoopDepth then { e with pc := e.pc + 2 }
       else { e with pc := e.pc + 2, loops := { start := e.pc + 2, itersLeftPlusOne := n } :: e.loops }) := by
  obtain ⟨g1, h1⟩ := get_of_drop e.prog e.pc _ _ hdrop
  obtain ⟨g2, _⟩ := get_of_drop e.prog (e.pc + 1) _ _ h1
  have b1 := byteAt_of_get e.prog e.size e.pc _ (by omega) g1
  have b2 := byteAt_of_get e.prog e.size (e.pc + 1) _ (by omega) g2
  unfold execCommand
  rw [if_neg (by simp [hend]), nextByte_eq, b1]
  simp only [toNat_ofNat_byte 12 (by decide)]
  rw [if_neg (by decide), if_neg (by decide), if_neg (by decide), if_neg (by decide), if_neg (by decide), if_neg (by decide),
    if_neg (by decide), if_neg (by decide), if_neg (by decide), if_neg (by decide), if_neg (by decide), if_neg (by decide),
    if_pos (by decide)]
  rw [nextByte_eq, b2]
  simp only [toNat_ofNat_byte n hn]
  unfold loopBegin
  simp only

theorem exec_loopEnd (e : Exec) (rest : Bytes) (hend : e.ended = false)
    (hdrop : e.prog.drop e.pc = UInt8.ofNat 13 :: rest) (hsize : e.pc + 1 ≤ e.size) :
    execCommand e = loopEnd { e with pc := e.pc + 1 } := by
  obtain ⟨g1, _⟩ := get_of_drop e.prog e.pc _ _ hdrop
  have b1 := byteAt_of_get e.prog e.size e.pc _ (by omega) g1
  unfold execCommand
  rw [if_neg (by simp [hend]), nextByte_eq, b1]
  simp only [toNat_ofNat_byte 13 (by decide)]
  rw [if_neg (by decide), if_neg (by decide), if_neg (by decide), if_neg (by decide), if_neg (by decide), if_neg (by decide),
    if_neg (by decide), if_neg (by decide), if_neg (by decide), if_neg (by decide), if_neg (by decide), if_neg (by decide),
    if_neg (by decide), if_pos (by decide)]

/-- JUMP: the program counter moves to the address, the loop stack is cleared; no time passes -/
theorem exec_jump (e : Exec) (a : Nat) (rest : Bytes) (hend : e.ended = false) (ha : a < 2097152)
    (hdrop : e.prog.drop e.pc = UInt8.ofNat 18 :: (varint a ++ rest)) (hsize : e.pc + 1 + (varint a).length ≤ e.size) :
    execCommand e = { e with pc := a, loops := [] } := by
  obtain ⟨g1, g2⟩ := get_of_drop e.prog e.pc _ _ hdrop
  have hb := byteAt_of_get e.prog e.size e.pc _ (by have := varint_length_pos a; omega) g1
  have hvv := varintAt_varint e.prog e.size a (e.size + 2) (e.pc + 1) 0 0 rest (by simpa using ha) (by omega) (by decide) g2
    (by omega) (by have := varint_length_le a ha; omega)
  unfold execCommand
  rw [if_neg (by simp [hend]), nextByte_eq, hb]
  simp only [toNat_ofNat_byte 18 (by decide)]
  rw [if_neg (by decide), if_neg (by decide), if_neg (by decide), if_neg (by decide), if_neg (by decide), if_neg (by decide),
    if_neg (by decide), if_neg (by decide), if_neg (by decide), if_neg (by decide), if_neg (by decide), if_neg (by decide),
    if_neg (by decide), if_neg (by decide), if_neg (by decide), if_neg (by decide), if_neg (by decide), if_pos (by decide)]
  rw [nextVarint_eq]
  simp only
  rw [hvv]
  have hab : 0 + a * 2 ^ 0 < Gen.addressBound := by
    have : Gen.addressBound = 2147483647 := rfl
    omega
  simp only [hab, if_true]
  simp

/-! ### programs with loops and their abstract machine -/

inductive LCmd where
  | base (c : Cmd)
  | loopBegin (n : Nat)
  | loopEnd
  | resetClock
  /-- jump to the command with index `target`, whose byte offset is `addr` -/
  | jump (target addr : Nat)
  deriving DecidableEq, Inhabited

def LCmd.bytes : LCmd → Bytes
  | .base c => c.bytes
  | .loopBegin n => [UInt8.ofNat 12, UInt8.ofNat n]
  | .loopEnd => [UInt8.ofNat 13]
  | .resetClock => [UInt8.ofNat 14]
  | .jump _ a => UInt8.ofNat 18 :: varint a

def LCmd.ok : LCmd → Prop
  | .base c => c.ok
  | .loopBegin n => n < 256
  | .loopEnd => True
  | .resetClock => True
  | .jump _ a => a < 2097152

/-- the effect on time, colour and pyro: loop commands have none -/
def LCmd.asCmd : LCmd → Cmd
  | .base c => c
  | _ => .nop

/-- the effect of a command on the machine's time / colour / pyro / clock origin -/
def LCmd.applyM (c : LCmd) (m : MState) : MState :=
  match c with
  | .base c => c.apply m
  | .resetClock => { m with R := m.T }
  | _ => m

theorem LCmd.applyM_T (c : LCmd) (m : MState) : (c.applyM m).T = c.asCmd.nextR m.T m.R := by
  cases c <;> rfl

theorem LCmd.applyM_col (c : LCmd) (m : MState) : (c.applyM m).col = c.asCmd.colour m.col := by
  cases c <;> rfl

theorem LCmd.applyM_pyro (c : LCmd) (m : MState) : (c.applyM m).pyro = c.asCmd.pyroAfter m.pyro := by
  cases c <;> rfl

def encodeL (cs : List LCmd) : Bytes := (cs.map LCmd.bytes).flatten
def offL (cs : List LCmd) (k : Nat) : Nat := (encodeL (cs.take k)).length

theorem encodeL_append (a b : List LCmd) : encodeL (a ++ b) = encodeL a ++ encodeL b := by
  unfold encodeL; rw [List.map_append, List.flatten_append]

theorem offL_succ (cs : List LCmd) (k : Nat) (hk : k < cs.length) : offL cs (k + 1) = offL cs k + cs[k].bytes.length := by
  unfold offL
  rw [List.take_succ_eq_append_getElem hk, encodeL_append, List.length_append]
  simp [encodeL]

theorem encodeL_drop (cs : List LCmd) (k : Nat) (hk : k < cs.length) :
    (encodeL cs).drop (offL cs k) = cs[k].bytes ++ encodeL (cs.drop (k + 1)) := by
  have h1 : encodeL cs = encodeL (cs.take k) ++ encodeL (cs.drop k) := by rw [← encodeL_append, List.take_append_drop]
  rw [h1]
  unfold offL
  rw [List.drop_left, List.drop_eq_getElem_cons hk]
  unfold encodeL
  rw [List.map_cons, List.flatten_cons]

theorem offL_le (cs : List LCmd) (k : Nat) (hk : k ≤ cs.length) : offL cs k ≤ (encodeL cs).length := by
  have h1 : encodeL cs = encodeL (cs.take k) ++ encodeL (cs.drop k) := by rw [← encodeL_append, List.take_append_drop]
  unfold offL
  rw [h1, List.length_append]
  omega

theorem offL_end (cs : List LCmd) : offL cs cs.length = (encodeL cs).length := by
  unfold offL; rw [List.take_length]

/-- the byte address a machine index stands for: the offset of command `k`; an index beyond the last command stands for the
address that many bytes past the end of the program (where the executor reads END) -/
def offX (cs : List LCmd) (k : Nat) : Nat := offL cs k + (k - cs.length)

theorem offX_of_le (cs : List LCmd) (k : Nat) (hk : k ≤ cs.length) : offX cs k = offL cs k := by
  unfold offX; omega

theorem offX_ge (cs : List LCmd) (k : Nat) (hk : cs.length ≤ k) : (encodeL cs).length ≤ offX cs k := by
  unfold offX offL
  rw [List.take_of_length_le hk]
  omega

/-- the abstract machine: index of the next command, loop stack (index of the first body command, iterations left
plus one; 0 = forever), time / colour / pyro, ended -/
structure AM where
  idx : Nat
  stack : List (Nat × Nat)
  m : MState
  ended : Bool
  deriving DecidableEq, Inhabited

def AM.init : AM := ⟨0, [], ⟨0, black, 0, 0⟩, false⟩

def amStep (cs : List LCmd) (s : AM) : AM :=
  if s.ended then s else
  match cs[s.idx]? with
  | none => { s with ended := true }
  | some (.base c) => { s with idx := s.idx + 1, m := c.apply s.m }
  | some .resetClock => { s with idx := s.idx + 1, m := { s.m with R := s.m.T } }
  | some (.jump t _) => { s with idx := t, stack := [] }
  | some (.loopBegin n) =>
    { s with idx := s.idx + 1, stack := if s.stack.length ≥ 4 then s.stack else (s.idx + 1, n) :: s.stack }
  | some .loopEnd =>
    match s.stack with
    | [] => { s with idx := s.idx + 1 }
    | (st, it) :: rest =>
      if it = 0 then { s with idx := st }
      else if it = 1 then { s with idx := s.idx + 1, stack := rest }
      else { s with idx := st, stack := (st, it - 1) :: rest }

def am (cs : List LCmd) (k : Nat) : AM := (amStep cs)^[k] AM.init

theorem am_succ (cs : List LCmd) (k : Nat) : am cs (k + 1) = amStep cs (am cs k) := by
  unfold am; rw [Function.iterate_succ_apply']

/-- the executor's loop stack for a machine stack -/
def items (cs : List LCmd) (st : List (Nat × Nat)) : List LoopItem :=
  st.map (fun p => { start := offX cs p.1, itersLeftPlusOne := p.2 })

theorem items_length (cs : List LCmd) (st : List (Nat × Nat)) : (items cs st).length = st.length := by
  unfold items; simp

/-- every stack entry points inside the program -/
def StackOK (cs : List LCmd) (st : List (Nat × Nat)) : Prop := ∀ p ∈ st, p.1 ≤ cs.length

structure WFL (cs : List LCmd) : Prop where
  ok : ∀ c ∈ cs, c.ok
  nonempty : 0 < cs.length
  size : (encodeL cs).length < 65536
  /-- a jump's address is the byte offset of its target command, the end of the program (`t = cs.length`) or an address
  `t - cs.length` bytes beyond the end -/
  jumps : ∀ t a, LCmd.jump t a ∈ cs → a = offX cs t

theorem nop_apply (m : MState) : Cmd.nop.apply m = m := by
  cases m; rfl

theorem gpre_with_start {bc : Bytes} {e : Exec} {pc : Nat} {loops : List LoopItem} {m : MState} (x : Nat)
    (hp : GPre bc e pc loops m) : GPre bc { e with cmdStart := x } pc loops m :=
  ⟨⟨hp.frame.prog, hp.frame.size, hp.frame.pc, hp.frame.loops, hp.frame.ended, hp.frame.reset, hp.frame.reset0, hp.frame.cum,
    hp.frame.wake, hp.frame.pyro⟩, hp.tr, hp.color, hp.startColor⟩

/-- **one machine step is one executed command** -/
theorem step_machine (cs : List LCmd) (hw : WFL cs) (e : Exec) (s : AM) (hend : s.ended = false) (hidx : s.idx < cs.length)
    (hp : GPre (encodeL cs) e (offL cs s.idx) (items cs s.stack) s.m) (hst : e.cmdStart = s.m.T)
    (hv : ValidC s.m.col) (hT : (amStep cs s).m.T ≤ 16777216) :
    GFrame (encodeL cs) (execCommand e) (offX cs (amStep cs s).idx) (items cs (amStep cs s).stack)
        (amStep cs s).m.T (amStep cs s).m.pyro (amStep cs s).m.R ∧
      GAfter (execCommand e) (cs[s.idx]).asCmd s.m ∧ (amStep cs s).m = (cs[s.idx]).applyM s.m ∧
      (amStep cs s).ended = false := by
  have hget : cs[s.idx]? = some cs[s.idx] := List.getElem?_eq_getElem hidx
  have hdrop := encodeL_drop cs s.idx hidx
  have hoff := offL_succ cs s.idx hidx
  have hx1 : offX cs (s.idx + 1) = offL cs (s.idx + 1) := offX_of_le cs (s.idx + 1) (by omega)
  have hsz : offL cs s.idx + cs[s.idx].bytes.length ≤ (encodeL cs).length := by
    rw [← hoff]; exact offL_le cs (s.idx + 1) (by omega)
  have hok := hw.ok cs[s.idx] (List.getElem_mem _)
  generalize hc : cs[s.idx] = c at *
  obtain ⟨⟨f1, f2, f3, f4, f5, f6, f7, f8, f9, f10⟩, p1, p2, p3⟩ := hp
  cases c with
  | base c =>
    have hs' : amStep cs s = { s with idx := s.idx + 1, m := c.apply s.m } := by
      unfold amStep; simp only [hend, Bool.false_eq_true, if_false, hget]
    rw [hs'] at hT ⊢
    obtain ⟨a, b⟩ := exec_base (encodeL cs) e (offL cs s.idx) (items cs s.stack) s.m c _
      ⟨⟨f1, f2, f3, f4, f5, f6, f7, f8, f9, f10⟩, p1, p2, p3⟩ hst hdrop hsz hok hT hv
    refine ⟨?_, b, rfl, hend⟩
    show GFrame _ _ (offX cs (s.idx + 1)) _ _ _ _
    rw [hx1, hoff]
    exact a
  | loopBegin n =>
    have hs' : amStep cs s =
        { s with idx := s.idx + 1, stack := (if s.stack.length ≥ 4 then s.stack else (s.idx + 1, n) :: s.stack) } := by
      unfold amStep; simp only [hend, Bool.false_eq_true, if_false, hget]
    rw [hs']
    have hd : e.prog.drop e.pc = UInt8.ofNat 12 :: UInt8.ofNat n :: encodeL (cs.drop (s.idx + 1)) := by
      rw [f1, f3, hdrop]; rfl
    have hlen : (LCmd.loopBegin n).bytes.length = 2 := rfl
    rw [hlen] at hoff hsz
    rw [exec_loopBegin e n _ f5 hok hd (by rw [f3, f2]; exact hsz)]
    have hll : e.loops.length = s.stack.length := by rw [f4, items_length]
    have hmax : Gen.maxLoopDepth = 4 := rfl
    rw [hll, hmax]
    refine ⟨?_, ?_, rfl, hend⟩
    · show GFrame _ _ (offX cs (s.idx + 1)) (items cs (if s.stack.length ≥ 4 then s.stack else (s.idx + 1, n) :: s.stack)) s.m.T s.m.pyro s.m.R
      by_cases h4 : s.stack.length ≥ 4
      · rw [if_pos h4, if_pos h4]
        exact ⟨f1, f2, by simp only; rw [f3, hx1, hoff], f4, f5, f6, f7, f8, f9, f10⟩
      · rw [if_neg h4, if_neg h4]
        refine ⟨f1, f2, by simp only; rw [f3, hx1, hoff], ?_, f5, f6, f7, f8, f9, f10⟩
        simp only [items, List.map_cons]
        rw [f4, f3, hx1, hoff]
        rfl
    · show _ ∧ _ ∧ _
      split <;> exact ⟨p1, p2, p3⟩
  | resetClock =>
    have hs' : amStep cs s = { s with idx := s.idx + 1, m := { s.m with R := s.m.T } } := by
      unfold amStep; simp only [hend, Bool.false_eq_true, if_false, hget]
    rw [hs'] at hT ⊢
    have hd : e.prog.drop e.pc = UInt8.ofNat 14 :: encodeL (cs.drop (s.idx + 1)) := by
      rw [f1, f3, hdrop]; rfl
    have hlen : (LCmd.resetClock).bytes.length = 1 := rfl
    rw [hlen] at hoff hsz
    rw [exec_reset e s.m.T s.m.R _ ⟨f5, f7, f8, f9, hst⟩ hT hd (by rw [f3, f2]; exact hsz)]
    exact ⟨⟨f1, f2, by simp only; rw [f3, hx1, hoff], f4, f5, f6, rfl, rfl, f9, f10⟩, ⟨p1, p2, p3⟩, rfl, hend⟩
  | jump t a =>
    have hs' : amStep cs s = { s with idx := t, stack := [] } := by
      unfold amStep; simp only [hend, Bool.false_eq_true, if_false, hget]
    rw [hs']
    have hmem : LCmd.jump t a ∈ cs := by rw [← hc]; exact List.getElem_mem _
    have hat := hw.jumps t a hmem
    have hd : e.prog.drop e.pc = UInt8.ofNat 18 :: (varint a ++ encodeL (cs.drop (s.idx + 1))) := by
      rw [f1, f3, hdrop]; rfl
    have hlen : (LCmd.jump t a).bytes.length = 1 + (varint a).length := by simp [LCmd.bytes]; omega
    rw [hlen] at hsz
    rw [exec_jump e a _ f5 hok hd (by rw [f3, f2]; omega)]
    exact ⟨⟨f1, f2, hat, by simp [items], f5, f6, f7, f8, f9, f10⟩, ⟨p1, p2, p3⟩, rfl, hend⟩
  | loopEnd =>
    have hd : e.prog.drop e.pc = UInt8.ofNat 13 :: encodeL (cs.drop (s.idx + 1)) := by
      rw [f1, f3, hdrop]; rfl
    have hlen : (LCmd.loopEnd).bytes.length = 1 := rfl
    rw [hlen] at hoff hsz
    rw [exec_loopEnd e _ f5 hd (by rw [f3, f2]; exact hsz)]
    unfold loopEnd
    simp only [f4]
    cases hstk : s.stack with
    | nil =>
      have hs' : amStep cs s = { s with idx := s.idx + 1 } := by
        unfold amStep; simp only [hend, Bool.false_eq_true, if_false, hget, hstk]
      rw [hs']
      simp only [items, List.map_nil]
      refine ⟨⟨f1, f2, by simp only; rw [f3, hx1, hoff], ?_, f5, f6, f7, f8, f9, f10⟩, ⟨p1, p2, p3⟩, rfl, hend⟩
      simp [hstk, f4, items]
    | cons top rest =>
      obtain ⟨st, it⟩ := top
      simp only [items, List.map_cons]
      by_cases h0 : it = 0
      · have hs' : amStep cs s = { s with idx := st } := by
          unfold amStep; simp only [hend, Bool.false_eq_true, if_false, hget, hstk, h0, if_true]
        rw [hs']
        simp only [h0, if_true]
        refine ⟨⟨f1, f2, rfl, ?_, f5, f6, f7, f8, f9, f10⟩, ⟨p1, p2, p3⟩, rfl, hend⟩
        simp [hstk, h0]
      · by_cases h1 : it = 1
        · have hs' : amStep cs s = { s with idx := s.idx + 1, stack := rest } := by
            unfold amStep; simp only [hend, Bool.false_eq_true, if_false, hget, hstk, h1, if_true, show ¬ ((1 : Nat) = 0) by decide]
          rw [hs']
          simp only [h1, if_true, show ¬ ((1 : Nat) = 0) by decide, if_false]
          exact ⟨⟨f1, f2, by simp only; rw [f3, hx1, hoff], by simp, f5, f6, f7, f8, f9, f10⟩, ⟨p1, p2, p3⟩, rfl, hend⟩
        · have hs' : amStep cs s = { s with idx := st, stack := (st, it - 1) :: rest } := by
            unfold amStep; simp only [hend, Bool.false_eq_true, if_false, hget, hstk, h0, h1]
          rw [hs']
          simp only [h0, h1, if_false]
          exact ⟨⟨f1, f2, rfl, by simp, f5, f6, f7, f8, f9, f10⟩, ⟨p1, p2, p3⟩, rfl, hend⟩

/-- the state of a rewound executor after the reset stage of its first step at time 0, for any non-empty bytecode -/
theorem fresh_gpre (bc : Bytes) (hsize : bc.length < 65536) (hne : bc.length ≠ 0) :
    GPre bc (stepReset (Player.fresh bc).exec 0) 0 [] ⟨0, black, 0, 0⟩ ∧ (stepReset (Player.fresh bc).exec 0).nextWakeup = 0 := by
  have hsz : bc.length % 65536 = bc.length := Nat.mod_eq_of_lt hsize
  have hr : (Player.fresh bc).exec.resetFlag = true := (fresh_exec bc).1
  have hcum : (setClockOrigin (Player.fresh bc).exec 0).cumulative = 0 := by
    unfold setClockOrigin
    simp only
    rw [absToInternal_zero _ rfl]
    simp
  unfold stepReset
  rw [if_pos hr]
  refine ⟨⟨⟨?_, ?_, ?_, ?_, ?_, rfl, ?_, ?_, rfl, ?_⟩, ?_, rfl, rfl⟩, rfl⟩
  · simp [setColorAndResetTransition, setClockOrigin, Player.fresh, rewindExec]
  · simp [setColorAndResetTransition, setClockOrigin, Player.fresh, rewindExec, hsz]
  · simp [setColorAndResetTransition, setClockOrigin, Player.fresh, rewindExec]
  · simp [setColorAndResetTransition, setClockOrigin, Player.fresh, rewindExec]
  · simp [setColorAndResetTransition, setClockOrigin, Player.fresh, rewindExec, hsz, hne]
  · simp [setColorAndResetTransition, setClockOrigin]
  · show (0 : Nat) + _ = 0
    simp only [setColorAndResetTransition, Nat.zero_add]
    exact hcum
  · simp [setColorAndResetTransition, setClockOrigin, Player.fresh, rewindExec]
  · simp [setColorAndResetTransition, setClockOrigin, Player.fresh, rewindExec]

theorem encodeL_ne (cs : List LCmd) (h0 : 0 < cs.length) : (encodeL cs).length ≠ 0 := by
  have h3 := offL_succ cs 0 h0
  have h1 : offL cs 0 = 0 := rfl
  have h2 := offL_le cs 1 (by omega)
  have h4 : ∀ c : LCmd, 1 ≤ c.bytes.length := by
    intro c
    cases c with
    | base c => exact Cmd.bytes_pos c
    | loopBegin n => simp [LCmd.bytes]
    | loopEnd => simp [LCmd.bytes]
    | resetClock => simp [LCmd.bytes]
    | jump t a => simp [LCmd.bytes]
  have h5 := h4 (cs[0]'h0)
  rw [h1] at h3
  rw [h3] at h2
  exact fun hz => by rw [hz] at h2; omega

/-- the first `K` machine steps each execute a command (the program has not run off its end) -/
def LiveM (cs : List LCmd) (K : Nat) : Prop := ∀ j, j < K → (am cs j).idx < cs.length

theorem am_not_ended (cs : List LCmd) : ∀ k, LiveM cs k → (am cs k).ended = false := by
  intro k
  induction k with
  | zero => intro _; rfl
  | succ k ih =>
    intro hl
    have h1 := ih (fun j hj => hl j (by omega))
    have h2 := hl k (by omega)
    rw [am_succ]
    unfold amStep
    simp only [h1, Bool.false_eq_true, if_false, List.getElem?_eq_getElem h2]
    generalize cs[(am cs k).idx] = c
    cases c with
    | base c => rfl
    | loopBegin n => rfl
    | resetClock => rfl
    | jump t a => rfl
    | loopEnd =>
      simp only
      repeat (first | rfl | split)

theorem am_m_succ (cs : List LCmd) (k : Nat) (hl : LiveM cs (k + 1)) :
    (am cs (k + 1)).m = (cs[(am cs k).idx]'(hl k (by omega))).applyM (am cs k).m := by
  have h1 := am_not_ended cs k (fun j hj => hl j (by omega))
  have h2 := hl k (by omega)
  rw [am_succ]
  unfold amStep
  simp only [h1, Bool.false_eq_true, if_false, List.getElem?_eq_getElem h2]
  generalize cs[(am cs k).idx] = c
  cases c with
  | base c => rfl
  | loopBegin n => rfl
  | resetClock => rfl
  | jump t a => rfl
  | loopEnd =>
    simp only [LCmd.applyM]
    split
    · rfl
    · split
      · rfl
      · split <;> rfl

theorem apply_valid (c : Cmd) (m : MState) (hc : c.ok) (hv : ValidC m.col) : ValidC (c.apply m).col :=
  colour_valid c m.col hc hv

theorem asCmd_ok (c : LCmd) (h : c.ok) : c.asCmd.ok := by
  cases c with
  | base c => exact h
  | loopBegin n => trivial
  | loopEnd => trivial
  | resetClock => trivial
  | jump t a => trivial

theorem am_valid (cs : List LCmd) (hw : WFL cs) : ∀ k, LiveM cs k → ValidC (am cs k).m.col := by
  intro k
  induction k with
  | zero => intro _; exact ⟨Nat.zero_le _, Nat.zero_le _, Nat.zero_le _⟩
  | succ k ih =>
    intro hl
    rw [am_m_succ cs k hl, LCmd.applyM_col]
    exact colour_valid _ _ (asCmd_ok _ (hw.ok _ (List.getElem_mem _))) (ih (fun j hj => hl j (by omega)))

theorem am_T_mono (cs : List LCmd) (k : Nat) (hl : LiveM cs (k + 1)) : (am cs k).m.T ≤ (am cs (k + 1)).m.T := by
  rw [am_m_succ cs k hl, LCmd.applyM_T]
  exact Cmd.nextR_ge _ _ _

/-- **the wake-up chain of a program with loops is a run of the abstract machine**: chain point `k+1` is the executor
right after the `k`-th machine step, sitting from the machine time before that step until the machine time after it -/
theorem machine_chain (cs : List LCmd) (hw : WFL cs) : ∀ k (hl : LiveM cs (k + 1)), (∀ j, j ≤ k + 1 → (am cs j).m.T ≤ 16777216) →
    GFrame (encodeL cs) (chain (encodeL cs) (k + 1)).exec (offX cs (am cs (k + 1)).idx) (items cs (am cs (k + 1)).stack)
        (am cs (k + 1)).m.T (am cs (k + 1)).m.pyro (am cs (k + 1)).m.R ∧
      GAfter (chain (encodeL cs) (k + 1)).exec ((cs[(am cs k).idx]'(hl k (by omega))).asCmd) (am cs k).m ∧
      (chain (encodeL cs) (k + 1)).current = (am cs k).m.T ∧ (chain (encodeL cs) (k + 1)).next = (am cs (k + 1)).m.T := by
  intro k
  induction k with
  | zero =>
    intro hl hT
    obtain ⟨hp, hwk⟩ := fresh_gpre (encodeL cs) hw.size (encodeL_ne cs hw.nonempty)
    have hn : (chain (encodeL cs) 0).next = 0 := rfl
    have hc0 : chain (encodeL cs) 0 = Player.fresh (encodeL cs) := rfl
    have hex : (chain (encodeL cs) 1).exec = execCommand { stepReset (Player.fresh (encodeL cs)).exec 0 with cmdStart := 0 } := by
      rw [chain_exec, hn, hc0, step_eq, if_neg (by simp [hp.frame.ended])]
      have hsf : stepFade (stepReset (Player.fresh (encodeL cs)).exec 0) 0 = stepReset (Player.fresh (encodeL cs)).exec 0 := by
        unfold stepFade
        simp [hp.tr]
      rw [hsf]
      unfold stepWake
      rw [if_pos (by rw [hwk])]
    have h0 : am cs 0 = AM.init := rfl
    obtain ⟨a, b, c, _⟩ := step_machine cs hw _ (am cs 0) rfl (hl 0 (by omega))
      (by rw [h0]; exact gpre_with_start 0 hp) (by rw [h0]; rfl) (by rw [h0]; exact ⟨Nat.zero_le _, Nat.zero_le _, Nat.zero_le _⟩)
      (by rw [← am_succ]; exact hT 1 (by omega))
    rw [← am_succ, ← hex] at a
    rw [← hex] at b
    refine ⟨a, b, ?_, ?_⟩
    · rw [chain_current]; rfl
    · rw [chain_succ, adv_next, ← chain_exec, a.wake, hn, if_neg (by omega)]
  | succ k ih =>
    intro hl hT
    obtain ⟨f, af, c1, c2⟩ := ih (fun j hj => hl j (by omega)) (fun j hj => hT j (by omega))
    have hm := am_m_succ cs k (fun j hj => hl j (by omega))
    have hok := asCmd_ok _ (hw.ok (cs[(am cs k).idx]'(hl k (by omega))) (List.getElem_mem _))
    have hp := finish_base (encodeL cs) _ _ _ _ (am cs k).m (am cs (k + 1)).m hok
      (by rw [hm, LCmd.applyM_T]) (by rw [hm, LCmd.applyM_col]) f af
    have hne : (am cs (k + 1)).ended = false := am_not_ended cs (k + 1) (fun j hj => hl j (by omega))
    have hstep : (chain (encodeL cs) (k + 1 + 1)).exec =
        execCommand { stepFade (chain (encodeL cs) (k + 1)).exec ((am cs (k + 1)).m.T) with cmdStart := (am cs (k + 1)).m.T } := by
      rw [chain_exec, c2, step_eq, stepReset_of_not_reset f.reset, if_neg (by simp [f.ended])]
      unfold stepWake
      rw [if_pos (by rw [hp.frame.wake])]
    have hp' := hp
    rw [offX_of_le cs _ (Nat.le_of_lt (hl (k + 1) (by omega)))] at hp'
    obtain ⟨a, b, c, _⟩ := step_machine cs hw _ (am cs (k + 1)) hne (hl (k + 1) (by omega))
      (gpre_with_start (am cs (k + 1)).m.T hp') rfl (am_valid cs hw (k + 1) (fun j hj => hl j (by omega)))
      (by rw [← am_succ]; exact hT (k + 1 + 1) (by omega))
    rw [← am_succ, ← hstep] at a
    rw [← hstep] at b
    refine ⟨a, b, ?_, ?_⟩
    · rw [chain_current, c2]
    · rw [chain_succ, adv_next, ← chain_exec, a.wake, c2, if_neg]
      have := am_T_mono cs (k + 1) hl
      omega

/-- loop targets stay inside the program (machine indices need not: a jump may leave it, and the run ends there) -/
theorem am_stack_ok (cs : List LCmd) : ∀ k, LiveM cs k → StackOK cs (am cs k).stack := by
  intro k
  induction k with
  | zero => intro _; exact fun p hp => by cases hp
  | succ k ih =>
    intro hl
    have i2 := ih (fun j hj => hl j (by omega))
    have h1 := am_not_ended cs k (fun j hj => hl j (by omega))
    have h2 := hl k (by omega)
    rw [am_succ]
    unfold amStep
    simp only [h1, Bool.false_eq_true, if_false, List.getElem?_eq_getElem h2]
    have hmem : cs[(am cs k).idx] ∈ cs := List.getElem_mem _
    generalize cs[(am cs k).idx] = c at hmem
    cases c with
    | base c => exact i2
    | resetClock => exact i2
    | jump t a => exact fun p hp => by cases hp
    | loopBegin n =>
      simp only
      split
      · exact i2
      · intro p hp
        rcases List.mem_cons.mp hp with rfl | hp'
        · exact h2
        · exact i2 p hp'
    | loopEnd =>
      simp only
      cases hstk : (am cs k).stack with
      | nil => rw [hstk] at i2; exact i2
      | cons top rest =>
        obtain ⟨st, it⟩ := top
        rw [hstk] at i2
        have hst : st ≤ cs.length := i2 (st, it) List.mem_cons_self
        have hrest : StackOK cs rest := fun p hp => i2 p (List.mem_cons_of_mem _ hp)
        simp only
        split
        · exact i2
        · split
          · exact hrest
          · intro p hp
            rcases List.mem_cons.mp hp with rfl | hp'
            · exact hst
            · exact hrest p hp'

/-- **when the machine runs off the end of the program the executor ends**, holding the machine's colour and pyro mask -/
theorem machine_end (cs : List LCmd) (hw : WFL cs) (K : Nat) (hK : 1 ≤ K) (hl : LiveM cs K) (hoff : cs.length ≤ (am cs K).idx)
    (hT : ∀ j, j ≤ K → (am cs j).m.T ≤ 16777216) :
    (chain (encodeL cs) (K + 1)).exec.ended = true ∧ (chain (encodeL cs) (K + 1)).exec.color = (am cs K).m.col ∧
    (chain (encodeL cs) (K + 1)).exec.pyro = (am cs K).m.pyro ∧ (chain (encodeL cs) (K + 1)).current = (am cs K).m.T := by
  obtain ⟨k, rfl⟩ : ∃ k, K = k + 1 := ⟨K - 1, by omega⟩
  obtain ⟨f, af, c1, c2⟩ := machine_chain cs hw k hl hT
  have hm := am_m_succ cs k hl
  have hok := asCmd_ok _ (hw.ok (cs[(am cs k).idx]'(hl k (by omega))) (List.getElem_mem _))
  have hp := finish_base (encodeL cs) _ _ _ _ (am cs k).m (am cs (k + 1)).m hok
    (by rw [hm, LCmd.applyM_T]) (by rw [hm, LCmd.applyM_col]) f af
  have hidx : (encodeL cs).length ≤ offX cs (am cs (k + 1)).idx := offX_ge cs _ hoff
  have hstep : (chain (encodeL cs) (k + 1 + 1)).exec =
      execCommand { stepFade (chain (encodeL cs) (k + 1)).exec ((am cs (k + 1)).m.T) with cmdStart := (am cs (k + 1)).m.T } := by
    rw [chain_exec, c2, step_eq, stepReset_of_not_reset f.reset, if_neg (by simp [f.ended])]
    unfold stepWake
    rw [if_pos (by rw [hp.frame.wake])]
  have hp' := hp
  have hend : execCommand { stepFade (chain (encodeL cs) (k + 1)).exec ((am cs (k + 1)).m.T) with cmdStart := (am cs (k + 1)).m.T } =
      { ({ stepFade (chain (encodeL cs) (k + 1)).exec ((am cs (k + 1)).m.T) with cmdStart := (am cs (k + 1)).m.T } : Exec) with ended := true } := by
    unfold execCommand
    rw [if_neg (by simp [hp'.frame.ended])]
    have hb : byteAt (stepFade (chain (encodeL cs) (k + 1)).exec ((am cs (k + 1)).m.T)).prog
        (stepFade (chain (encodeL cs) (k + 1)).exec ((am cs (k + 1)).m.T)).size
        (stepFade (chain (encodeL cs) (k + 1)).exec ((am cs (k + 1)).m.T)).pc =
        (Gen.CMD_END, (stepFade (chain (encodeL cs) (k + 1)).exec ((am cs (k + 1)).m.T)).pc) := by
      unfold byteAt
      rw [if_neg]
      rw [hp'.frame.pc, hp'.frame.size]
      omega
    rw [nextByte_eq]
    simp only [hb, if_true]
  refine ⟨?_, ?_, ?_, ?_⟩
  · rw [hstep, hend]
  · rw [hstep, hend]; exact hp'.color
  · rw [hstep, hend]; exact hp'.frame.pyro
  · rw [chain_current, c2]

/-! ### loops on the abstract machine: the body is repeated the stated number of times -/

/-- the effect of a straight run of commands on time, colour and pyro mask -/
def runBase (body : List Cmd) (m : MState) : MState := body.foldl (fun m c => c.apply m) m

theorem iterate_add_apply {α : Type} (f : α → α) (a b : Nat) (x : α) : f^[a + b] x = f^[b] (f^[a] x) := by
  rw [Nat.add_comm, Function.iterate_add_apply]

/-- a straight run of commands is executed in order -/
theorem am_straight (cs : List LCmd) : ∀ (body : List Cmd) (s : AM), s.ended = false →
    (∀ q, (hq : q < body.length) → cs[s.idx + q]? = some (.base body[q])) →
    (amStep cs)^[body.length] s = { s with idx := s.idx + body.length, m := runBase body s.m } := by
  intro body
  induction body with
  | nil => intro s _ _; cases s; rfl
  | cons c rest ih =>
    intro s hend hq
    have h0 := hq 0 (by simp)
    simp only [Nat.add_zero, List.getElem_cons_zero] at h0
    have hstep : amStep cs s = { s with idx := s.idx + 1, m := c.apply s.m } := by
      unfold amStep
      simp only [hend, Bool.false_eq_true, if_false, h0]
    rw [List.length_cons, Function.iterate_succ_apply, hstep]
    have := ih { s with idx := s.idx + 1, m := c.apply s.m } hend (by
      intro q hq'
      have := hq (q + 1) (by simp; omega)
      simp only [List.getElem_cons_succ] at this
      rw [show s.idx + 1 + q = s.idx + (q + 1) by omega]
      exact this)
    rw [this]
    simp only [runBase, List.foldl_cons]
    congr 1
    omega

/-- **a loop repeats its body the stated number of times**: from a LOOP_BEGIN n (n ≥ 1, fewer than four loops active)
over a straight body to its LOOP_END, the machine needs 1 + n·(|body|+1) steps, ends right behind the LOOP_END with the
loop stack as before, and time / colour / pyro are those of running the body n times -/
theorem loop_unrolled (cs : List LCmd) (body : List Cmd) (n i0 : Nat) (s : AM) (hn : 1 ≤ n)
    (hend : s.ended = false) (hidx : s.idx = i0) (hdepth : s.stack.length < 4)
    (hbegin : cs[i0]? = some (.loopBegin n))
    (hbody : ∀ q, (hq : q < body.length) → cs[i0 + 1 + q]? = some (.base body[q]))
    (hloopEnd : cs[i0 + 1 + body.length]? = some .loopEnd) :
    (amStep cs)^[1 + n * (body.length + 1)] s =
      { s with idx := i0 + body.length + 2, m := (runBase body)^[n] s.m } := by
  -- the LOOP_BEGIN
  have h1 : amStep cs s = { s with idx := i0 + 1, stack := (i0 + 1, n) :: s.stack } := by
    unfold amStep
    simp only [hend, Bool.false_eq_true, if_false, hidx, hbegin]
    rw [if_neg (by omega)]
  rw [iterate_add_apply, Function.iterate_one, h1]
  -- the iterations
  have key : ∀ (j : Nat) (m : MState), 1 ≤ j →
      (amStep cs)^[j * (body.length + 1)] { s with idx := i0 + 1, stack := (i0 + 1, j) :: s.stack, m := m } =
        { s with idx := i0 + body.length + 2, m := (runBase body)^[j] m } := by
    intro j
    induction j with
    | zero => intro m h; omega
    | succ j ih =>
      intro m _
      have hb := am_straight cs body { s with idx := i0 + 1, stack := (i0 + 1, j + 1) :: s.stack, m := m } hend
        (by intro q hq; exact hbody q hq)
      have hsplit : (j + 1) * (body.length + 1) = body.length + (1 + j * (body.length + 1)) := by
        rw [Nat.succ_mul]; omega
      rw [hsplit, iterate_add_apply, hb, iterate_add_apply, Function.iterate_one]
      by_cases hj0 : j = 0
      · subst hj0
        have hstep : amStep cs { s with idx := i0 + 1 + body.length, stack := (i0 + 1, 0 + 1) :: s.stack, m := runBase body m } =
            { s with idx := i0 + body.length + 2, m := runBase body m } := by
          unfold amStep
          simp only [hend, Bool.false_eq_true, if_false, hloopEnd]
          simp only [show ¬ ((0 + 1 : Nat) = 0) by omega, if_false, if_true]
          congr 1
          omega
        rw [hstep]
        simp
      · have hstep : amStep cs { s with idx := i0 + 1 + body.length, stack := (i0 + 1, j + 1) :: s.stack, m := runBase body m } =
            { s with idx := i0 + 1, stack := (i0 + 1, j) :: s.stack, m := runBase body m } := by
          unfold amStep
          simp only [hend, Bool.false_eq_true, if_false, hloopEnd]
          simp only [show ¬ (j + 1 = 0) by omega, show ¬ (j + 1 = 1) by omega, if_false, Nat.add_sub_cancel]
        rw [hstep, ih (runBase body m) (by omega)]
        rfl
  have := key n s.m hn
  have hs : ({ s with idx := i0 + 1, stack := (i0 + 1, n) :: s.stack, m := s.m } : AM) =
      { s with idx := i0 + 1, stack := (i0 + 1, n) :: s.stack } := rfl
  rw [hs] at this
  exact this

end Sb.Proofs.Light
