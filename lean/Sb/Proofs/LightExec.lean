/-
C02 / C09: what one executed command does to the wake-up time and to the fade registers.

`Post e x` (x = the executor after the command, e = before): the reset flag is untouched, the wake-up time never moves
backwards and stays a 64-bit value, and if no fade was active before and one is active after, then the fade was started by
this command: it starts at the command's start time, lasts until the new wake-up time, and the colour is the fade's
colour at the start time.
-/
import Sb.Proofs.RoundF32
import Sb.Proofs.LightSim

namespace Sb.Proofs.Light
open Sb Sb.Lights

structure Post (e x : Exec) : Prop where
  resetFlag : x.resetFlag = e.resetFlag
  wake_le : e.nextWakeup ≤ x.nextWakeup
  wake_lt : e.nextWakeup < W → x.nextWakeup < W
  fade : e.trActive = false → x.trActive = true →
    x.trStart = e.cmdStart ∧ x.trDuration = subU64 x.nextWakeup e.cmdStart ∧
      x.color = lerp x.startColor x.endColor (progressOf x.trStart x.trDuration e.cmdStart)
  /-- a command that ends the program does not start a fade -/
  ended_keeps : e.ended = false → x.ended = true → x.trActive = e.trActive
  prog : x.prog = e.prog
  size : x.size = e.size

/-- a command that leaves the fade registers alone -/
theorem Post.of_frame {e x : Exec} (h1 : x.resetFlag = e.resetFlag) (h2 : e.nextWakeup ≤ x.nextWakeup)
    (h3 : e.nextWakeup < W → x.nextWakeup < W) (h4 : x.trActive = e.trActive) (h5 : x.prog = e.prog) (h6 : x.size = e.size) :
    Post e x :=
  ⟨h1, h2, h3, fun ha hx => by rw [h4, ha] at hx; exact absurd hx (by decide), fun _ _ => h4, h5, h6⟩

/-- the command read some bytes first (only the program counter differs) -/
theorem Post.trans_frame {e e' x : Exec} (h : Post e' x) (h1 : e'.resetFlag = e.resetFlag) (h2 : e'.nextWakeup = e.nextWakeup)
    (h4 : e'.trActive = e.trActive ∧ e'.cmdStart = e.cmdStart ∧ e'.ended = e.ended ∧ e'.prog = e.prog ∧ e'.size = e.size) :
    Post e x :=
  ⟨h.resetFlag.trans h1, h2 ▸ h.wake_le, fun hw => h.wake_lt (h2 ▸ hw),
   fun ha hx => by
     have := h.fade (h4.1.trans ha) hx
     rw [h4.2.1] at this
     exact this,
   fun he hx => (h.ended_keeps (h4.2.2.1.trans he) hx).trans h4.1, h.prog.trans h4.2.2.2.1, h.size.trans h4.2.2.2.2⟩

theorem fToUl_lt (q : Rat) : fToUl q < W := by
  unfold fToUl
  split
  · decide
  · split
    · decide
    · rename_i h1 h2
      have h2' : q < (W : Rat) := lt_of_not_ge h2
      have hfl : (q.floor : Rat) ≤ q := Rat.floor_le q
      have : q.floor < (W : Int) := by
        have hq : ((q.floor : Int) : Rat) < ((W : Int) : Rat) := lt_of_le_of_lt hfl (by exact_mod_cast h2')
        exact_mod_cast hq
      have hW : (0 : Int) < (W : Int) := by decide
      omega

theorem handleDelayByte_wake (e : Exec) :
    e.nextWakeup ≤ (handleDelayByte e).nextWakeup ∧ (e.nextWakeup < W → (handleDelayByte e).nextWakeup < W) := by
  simp only [handleDelayByte, nextVarint_eq, delayUntil, delayUntilAbs, internalToAbs]
  constructor
  · exact Nat.le_max_left _ _
  · intro h
    exact Nat.max_lt.mpr ⟨h, fToUl_lt _⟩

theorem handleDelayByte_frame (e : Exec) :
    (handleDelayByte e).resetFlag = e.resetFlag ∧ (handleDelayByte e).trActive = e.trActive ∧
    (handleDelayByte e).startColor = e.startColor ∧ (handleDelayByte e).ended = e.ended ∧
    (handleDelayByte e).prog = e.prog ∧ (handleDelayByte e).size = e.size := by
  simp [handleDelayByte, nextVarint_eq, delayUntil, delayUntilAbs]

theorem fadeFinish_frame (x : Exec) :
    (fadeFinish x).resetFlag = x.resetFlag ∧ (fadeFinish x).nextWakeup = x.nextWakeup ∧ (fadeFinish x).trActive = x.trActive ∧
    (fadeFinish x).trStart = x.trStart ∧ (fadeFinish x).trDuration = x.trDuration ∧ (fadeFinish x).color = x.color ∧
    (fadeFinish x).endColor = x.endColor ∧ (x.trActive = true → (fadeFinish x).startColor = x.startColor) ∧
    (fadeFinish x).ended = x.ended ∧ (fadeFinish x).prog = x.prog ∧ (fadeFinish x).size = x.size := by
  unfold fadeFinish
  split <;> simp_all

theorem fadeTo_post (e : Exec) (c : Color) : Post e (fadeTo e c) := by
  rw [fadeTo_eq]
  obtain ⟨f1, f2, f3, f4, f5, f6, f7, f8, f9, f10, f11⟩ := fadeFinish_frame (transitionStep
      { handleDelayByte e with endColor := c, trStart := (handleDelayByte e).cmdStart,
                               trDuration := subU64 (handleDelayByte e).nextWakeup e.cmdStart, trActive := true } e.cmdStart)
  obtain ⟨w1, w2⟩ := handleDelayByte_wake e
  obtain ⟨g1, g2, g3, g4, g5, g6⟩ := handleDelayByte_frame e
  refine ⟨?_, ?_, ?_, ?_, ?_, ?_, ?_⟩
  · rw [f1]; simpa [transitionStep] using g1
  · rw [f2]; simpa [transitionStep] using w1
  · rw [f2]; simpa [transitionStep] using w2
  · intro _ hx
    rw [f3] at hx
    rw [f4, f5, f6, f7, f8 hx, f2]
    simp [transitionStep, progress_eq, handleDelayByte_cmdStart]
  · intro he hx
    rw [f9] at hx
    have : (handleDelayByte e).ended = true := by simpa [transitionStep] using hx
    rw [g4, he] at this
    exact absurd this (by decide)
  · rw [f10]; simpa [transitionStep] using g5
  · rw [f11]; simpa [transitionStep] using g6

macro "frame_tac" : tactic => `(tactic|
  (apply Post.of_frame <;>
    simp_all [next3, nextByte_eq, nextVarint_eq, setTo, handleDelayByte, delayUntil, delayUntilAbs, internalToAbs,
      absToInternal, setColorAndResetTransition, setClockOrigin, fToUl_lt, Nat.max_lt, Nat.le_max_left] <;>
    omega))

/-- **one command**, executor not ended -/
theorem execCommand_post (e : Exec) (he : e.ended = false) : Post e (execCommand e) := by
  unfold execCommand
  rw [if_neg (by simp [he])]
  rcases hn : nextByte e with ⟨ca, e1⟩
  simp only
  have h1 : e1.resetFlag = e.resetFlag ∧ e1.nextWakeup = e.nextWakeup ∧ e1.trActive = e.trActive ∧ e1.cmdStart = e.cmdStart ∧
      e1.ended = e.ended ∧ e1.prog = e.prog ∧ e1.size = e.size := by
    have := congrArg Prod.snd hn
    simp only [nextByte_eq] at this
    subst this
    simp
  refine Post.trans_frame ?_ h1.1 h1.2.1 ⟨h1.2.2.1, h1.2.2.2.1, h1.2.2.2.2.1, h1.2.2.2.2.2.1, h1.2.2.2.2.2.2⟩
  clear h1 hn he
  by_cases hk_END : ca = Gen.CMD_END
  · rw [if_pos hk_END]
    clear hk_END
    frame_tac
  rw [if_neg hk_END]
  clear hk_END
  by_cases hk_NOP : ca = Gen.CMD_NOP
  · rw [if_pos hk_NOP]
    clear hk_NOP
    frame_tac
  rw [if_neg hk_NOP]
  clear hk_NOP
  by_cases hk_SLEEP : ca = Gen.CMD_SLEEP
  · rw [if_pos hk_SLEEP]
    clear hk_SLEEP
    frame_tac
  rw [if_neg hk_SLEEP]
  clear hk_SLEEP
  by_cases hk_WAIT_UNTIL : ca = Gen.CMD_WAIT_UNTIL
  · rw [if_pos hk_WAIT_UNTIL]
    clear hk_WAIT_UNTIL
    frame_tac
  rw [if_neg hk_WAIT_UNTIL]
  clear hk_WAIT_UNTIL
  by_cases hk_SET_COLOR : ca = Gen.CMD_SET_COLOR
  · rw [if_pos hk_SET_COLOR]
    clear hk_SET_COLOR
    frame_tac
  rw [if_neg hk_SET_COLOR]
  clear hk_SET_COLOR
  by_cases hk_SET_GRAY : ca = Gen.CMD_SET_GRAY
  · rw [if_pos hk_SET_GRAY]
    clear hk_SET_GRAY
    frame_tac
  rw [if_neg hk_SET_GRAY]
  clear hk_SET_GRAY
  by_cases hk_SET_BLACK : ca = Gen.CMD_SET_BLACK
  · rw [if_pos hk_SET_BLACK]
    clear hk_SET_BLACK
    frame_tac
  rw [if_neg hk_SET_BLACK]
  clear hk_SET_BLACK
  by_cases hk_SET_WHITE : ca = Gen.CMD_SET_WHITE
  · rw [if_pos hk_SET_WHITE]
    clear hk_SET_WHITE
    frame_tac
  rw [if_neg hk_SET_WHITE]
  clear hk_SET_WHITE
  by_cases hk_FADE_TO_COLOR : ca = Gen.CMD_FADE_TO_COLOR
  · rw [if_pos hk_FADE_TO_COLOR]
    clear hk_FADE_TO_COLOR
    simp only [next3, nextByte_eq]
    exact (fadeTo_post _ _).trans_frame (by simp) (by simp) (by simp)
  rw [if_neg hk_FADE_TO_COLOR]
  clear hk_FADE_TO_COLOR
  by_cases hk_FADE_TO_GRAY : ca = Gen.CMD_FADE_TO_GRAY
  · rw [if_pos hk_FADE_TO_GRAY]
    clear hk_FADE_TO_GRAY
    simp only [nextByte_eq]
    exact (fadeTo_post _ _).trans_frame (by simp) (by simp) (by simp)
  rw [if_neg hk_FADE_TO_GRAY]
  clear hk_FADE_TO_GRAY
  by_cases hk_FADE_TO_BLACK : ca = Gen.CMD_FADE_TO_BLACK
  · rw [if_pos hk_FADE_TO_BLACK]
    clear hk_FADE_TO_BLACK
    exact fadeTo_post _ _
  rw [if_neg hk_FADE_TO_BLACK]
  clear hk_FADE_TO_BLACK
  by_cases hk_FADE_TO_WHITE : ca = Gen.CMD_FADE_TO_WHITE
  · rw [if_pos hk_FADE_TO_WHITE]
    clear hk_FADE_TO_WHITE
    exact fadeTo_post _ _
  rw [if_neg hk_FADE_TO_WHITE]
  clear hk_FADE_TO_WHITE
  by_cases hk_LOOP_BEGIN : ca = Gen.CMD_LOOP_BEGIN
  · rw [if_pos hk_LOOP_BEGIN]
    clear hk_LOOP_BEGIN
    simp only [nextByte_eq, loopBegin]
    split <;> frame_tac
  rw [if_neg hk_LOOP_BEGIN]
  clear hk_LOOP_BEGIN
  by_cases hk_LOOP_END : ca = Gen.CMD_LOOP_END
  · rw [if_pos hk_LOOP_END]
    clear hk_LOOP_END
    unfold loopEnd
    split
    · frame_tac
    · split
      · frame_tac
      · split <;> frame_tac
  rw [if_neg hk_LOOP_END]
  clear hk_LOOP_END
  by_cases hk_RESET_CLOCK : ca = Gen.CMD_RESET_CLOCK
  · rw [if_pos hk_RESET_CLOCK]
    clear hk_RESET_CLOCK
    frame_tac
  rw [if_neg hk_RESET_CLOCK]
  clear hk_RESET_CLOCK
  by_cases hk_SET_COLOR_FROM_CHANNELS : ca = Gen.CMD_SET_COLOR_FROM_CHANNELS
  · rw [if_pos hk_SET_COLOR_FROM_CHANNELS]
    clear hk_SET_COLOR_FROM_CHANNELS
    frame_tac
  rw [if_neg hk_SET_COLOR_FROM_CHANNELS]
  clear hk_SET_COLOR_FROM_CHANNELS
  by_cases hk_FADE_TO_COLOR_FROM_CHANNELS : ca = Gen.CMD_FADE_TO_COLOR_FROM_CHANNELS
  · rw [if_pos hk_FADE_TO_COLOR_FROM_CHANNELS]
    clear hk_FADE_TO_COLOR_FROM_CHANNELS
    simp only [next3, nextByte_eq]
    exact (fadeTo_post _ _).trans_frame (by simp) (by simp) (by simp)
  rw [if_neg hk_FADE_TO_COLOR_FROM_CHANNELS]
  clear hk_FADE_TO_COLOR_FROM_CHANNELS
  by_cases hk_JUMP : ca = Gen.CMD_JUMP
  · rw [if_pos hk_JUMP]
    clear hk_JUMP
    simp only [nextVarint_eq]
    split <;> frame_tac
  rw [if_neg hk_JUMP]
  clear hk_JUMP
  by_cases hk_TRIGGERED_JUMP : ca = Gen.CMD_TRIGGERED_JUMP
  · rw [if_pos hk_TRIGGERED_JUMP]
    clear hk_TRIGGERED_JUMP
    simp only [nextByte_eq, nextVarint_eq]
    split
    · split <;> frame_tac
    · frame_tac
  rw [if_neg hk_TRIGGERED_JUMP]
  clear hk_TRIGGERED_JUMP
  by_cases hk_SET_PYRO : ca = Gen.CMD_SET_PYRO
  · rw [if_pos hk_SET_PYRO]
    clear hk_SET_PYRO
    simp only [nextByte_eq]
    split <;> frame_tac
  rw [if_neg hk_SET_PYRO]
  clear hk_SET_PYRO
  by_cases hk_SET_PYRO_ALL : ca = Gen.CMD_SET_PYRO_ALL
  · rw [if_pos hk_SET_PYRO_ALL]
    clear hk_SET_PYRO_ALL
    frame_tac
  rw [if_neg hk_SET_PYRO_ALL]
  clear hk_SET_PYRO_ALL
  frame_tac

end Sb.Proofs.Light
