/-
C02 / C09: single steps of the light executor at a wake-up instant, right after a rewind, between two wake-ups and
after the program has ended.
-/
import Sb.Proofs.LightExec

namespace Sb.Proofs.Light
open Sb Sb.Lights

theorem subU64_of_le {a b : Nat} (h : b ≤ a) (ha : a < W) : subU64 a b = a - b := by
  unfold subU64
  have hb : b % W = b := Nat.mod_eq_of_lt (lt_of_le_of_lt h ha)
  rw [hb]
  have h1 : a + W - b = (a - b) + W := by omega
  rw [h1, Nat.add_mod_right, Nat.mod_eq_of_lt (by omega)]

theorem ulToF_pos {d : Nat} (hd : 0 < d) : 0 < ulToF d := by
  unfold ulToF
  have h1 : roundF32 ((1 : Nat) : ℚ) ≤ roundF32 (d : ℚ) := roundF32_mono _ _ (by exact_mod_cast hd)
  rw [roundF32_natCast 1 (by norm_num)] at h1
  have : (0 : ℚ) < ((1 : Nat) : ℚ) := by norm_num
  linarith

/-- at its end instant a fade is complete -/
theorem progressOf_end (s d : Nat) : ¬ (progressOf s d (s + d) < 1) := by
  unfold progressOf
  rw [if_neg (by omega)]
  split
  · norm_num
  · rename_i hd
    have h1 : s + d - s = d := by omega
    rw [h1]
    have hp := ulToF_pos (Nat.pos_of_ne_zero hd)
    have h2 : ulToF d / ulToF d = 1 := div_self (ne_of_gt hp)
    simp only [h2]
    norm_num

/-- strictly inside a fade of at most 2^24 ms the progress is below one -/
theorem progressOf_interior (s d t : Nat) (hs : s ≤ t) (ht : t < s + d) (hd : d ≤ 16777216) : progressOf s d t < 1 := by
  unfold progressOf
  rw [if_neg (by omega), if_neg (by omega)]
  have h1 : ulToF (t - s) = ((t - s : Nat) : ℚ) := roundF32_natCast _ (by omega)
  have h2 : ulToF d = (d : ℚ) := roundF32_natCast _ hd
  simp only [h1, h2]
  have hlt : ((t - s : Nat) : ℚ) < (d : ℚ) := by exact_mod_cast (by omega : t - s < d)
  have hdpos : (0 : ℚ) < d := by exact_mod_cast (by omega : 0 < d)
  have h3 : ((t - s : Nat) : ℚ) / (d : ℚ) < 1 := (div_lt_one hdpos).mpr hlt
  split
  · linarith
  · exact h3

/-- timing facts about an executor that was last stepped at the wake-up instant `cur` -/
structure GoodT (e : Exec) (cur : Nat) : Prop where
  reset : e.resetFlag = false
  lt : e.nextWakeup < W
  le : cur ≤ e.nextWakeup
  fade : e.trActive = true → e.trStart = cur ∧ e.trDuration = e.nextWakeup - cur

/-- the colour is the fade's colour at the instant `cur` -/
def ColorOK (e : Exec) (cur : Nat) : Prop :=
  e.trActive = true → e.color = lerp e.startColor e.endColor (progressOf e.trStart e.trDuration cur)

theorem GoodT.of_sim {a c : Exec} {cur : Nat} (h : Sim a c) (g : GoodT c cur) : GoodT a cur := by
  refine ⟨h.resetFlag.trans g.reset, h.nextWakeup ▸ g.lt, h.nextWakeup ▸ g.le, ?_⟩
  intro ha
  obtain ⟨x, y, _⟩ := h.fade ha
  obtain ⟨u, v⟩ := g.fade (h.trActive.symm.trans ha)
  rw [x, y, h.nextWakeup]
  exact ⟨u, v⟩

theorem stepFade_frame (e : Exec) (t : Nat) :
    (stepFade e t).resetFlag = e.resetFlag ∧ (stepFade e t).nextWakeup = e.nextWakeup ∧ (stepFade e t).ended = e.ended := by
  unfold stepFade fadeFinish transitionStep
  split
  · split <;> simp
  · simp

/-- at the wake-up instant an active fade finishes -/
theorem stepFade_at_end {e : Exec} {cur : Nat} (g : GoodT e cur) : (stepFade e e.nextWakeup).trActive = false := by
  unfold stepFade
  split
  · rename_i ht
    obtain ⟨u, v⟩ := g.fade ht
    have hp : ¬ (progress e e.nextWakeup < 1) := by
      rw [progress_eq, u, v]
      have : e.nextWakeup = cur + (e.nextWakeup - cur) := by have := g.le; omega
      rw [this]
      simpa using progressOf_end cur (e.nextWakeup - cur)
    unfold fadeFinish transitionStep
    simp [hp]
  · rename_i ht
    simpa using ht

theorem stepReset_of_not_reset {e : Exec} (h : e.resetFlag = false) (t : Nat) : stepReset e t = e := by
  unfold stepReset
  simp [h]

/-- **a step at the wake-up instant** of a live executor -/
theorem wake_step {e : Exec} {cur : Nat} (g : GoodT e cur) (hne : e.ended = false) :
    GoodT (step e e.nextWakeup) e.nextWakeup ∧ ColorOK (step e e.nextWakeup) e.nextWakeup ∧
      ((step e e.nextWakeup).ended = true → (step e e.nextWakeup).trActive = false) := by
  rw [step_eq, stepReset_of_not_reset g.reset, if_neg (by simp [hne])]
  obtain ⟨f1, f2, f3⟩ := stepFade_frame e e.nextWakeup
  have f4 := stepFade_at_end g
  unfold stepWake
  rw [if_pos (by rw [f2])]
  have P := execCommand_post { stepFade e e.nextWakeup with cmdStart := e.nextWakeup } (by simpa using f3.trans hne)
  refine ⟨⟨?_, ?_, ?_, ?_⟩, ?_, ?_⟩
  · rw [P.resetFlag]; simpa using f1.trans g.reset
  · apply P.wake_lt; simpa [f2] using g.lt
  · have := P.wake_le; simpa [f2] using this
  · intro hx
    obtain ⟨a1, a2, _⟩ := P.fade (by simpa using f4) hx
    refine ⟨by simpa using a1, ?_⟩
    rw [a2]
    simp only
    apply subU64_of_le
    · have := P.wake_le; simpa [f2] using this
    · apply P.wake_lt; simpa [f2] using g.lt
  · intro hx
    obtain ⟨_, _, a3⟩ := P.fade (by simpa using f4) hx
    simpa using a3
  · intro hx
    have := P.ended_keeps (by simpa using f3.trans hne) hx
    rw [this]
    simpa using f4

/-- **the first step after a rewind** (the player always makes it at time 0) -/
theorem reset_step {e : Exec} (hr : e.resetFlag = true) (ht : e.trActive = false) :
    GoodT (step e 0) 0 ∧ ColorOK (step e 0) 0 ∧ ((step e 0).ended = true → (step e 0).trActive = false) := by
  have r1 : (stepReset e 0).resetFlag = false ∧ (stepReset e 0).nextWakeup = 0 ∧ (stepReset e 0).trActive = false ∧
      (stepReset e 0).ended = e.ended := by
    unfold stepReset
    simp [hr, setColorAndResetTransition, setClockOrigin, ht]
  obtain ⟨r1a, r1b, r1c, r1d⟩ := r1
  rw [step_eq]
  split
  · rename_i he
    refine ⟨⟨by simpa using r1a, ?_, Nat.zero_le _, ?_⟩, ?_, ?_⟩
    · show u64 (0 + 60000) < W
      decide
    · intro hx; rw [show ({ stepReset e 0 with nextWakeup := u64 (0 + 60000) } : Exec).trActive = (stepReset e 0).trActive from rfl, r1c] at hx
      exact absurd hx (by decide)
    · intro hx; rw [show ({ stepReset e 0 with nextWakeup := u64 (0 + 60000) } : Exec).trActive = (stepReset e 0).trActive from rfl, r1c] at hx
      exact absurd hx (by decide)
    · intro _; exact r1c
  · rename_i he
    have he' : (stepReset e 0).ended = false := by simpa using he
    have sf : stepFade (stepReset e 0) 0 = stepReset e 0 := by
      unfold stepFade; simp [r1c]
    rw [sf]
    unfold stepWake
    rw [if_pos (by rw [r1b])]
    have P := execCommand_post { stepReset e 0 with cmdStart := 0 } (by simpa using he')
    refine ⟨⟨?_, ?_, Nat.zero_le _, ?_⟩, ?_, ?_⟩
    · rw [P.resetFlag]; simpa using r1a
    · apply P.wake_lt; simp only [r1b]; decide
    · intro hx
      obtain ⟨a1, a2, _⟩ := P.fade (by simpa using r1c) hx
      refine ⟨by simpa using a1, ?_⟩
      rw [a2]
      simp only
      rw [subU64_of_le (Nat.zero_le _)]
      apply P.wake_lt; simp only [r1b]; decide
    · intro hx
      obtain ⟨_, _, a3⟩ := P.fade (by simpa using r1c) hx
      simpa using a3
    · intro hx
      have := P.ended_keeps (by simpa using he') hx
      rw [this]
      simpa using r1c

/-- **after the end** nothing but the wake-up time changes -/
theorem dead_step {e : Exec} (hr : e.resetFlag = false) (he : e.ended = true) (t : Nat) :
    step e t = { e with nextWakeup := u64 (t + 60000) } := by
  rw [step_eq, stepReset_of_not_reset hr, if_pos he]

/-- **a step strictly between two wake-ups** only re-evaluates the fade -/
theorem interior_step {e : Exec} {cur t : Nat} (g : GoodT e cur) (hne : e.ended = false) (h1 : cur ≤ t) (h2 : t < e.nextWakeup)
    (hshort : e.trActive = true → e.trDuration ≤ 16777216) :
    step e t = stepFade e t ∧ Sim (stepFade e t) e := by
  obtain ⟨f1, f2, f3⟩ := stepFade_frame e t
  constructor
  · rw [step_eq, stepReset_of_not_reset g.reset, if_neg (by simp [hne])]
    unfold stepWake
    rw [if_neg (by rw [f2]; omega)]
  · unfold stepFade
    split
    · rename_i ht
      obtain ⟨u, v⟩ := g.fade ht
      have hp : progress e t < 1 := by
        rw [progress_eq, u, v]
        apply progressOf_interior
        · exact h1
        · have := g.le; omega
        · rw [← v]; exact hshort ht
      unfold fadeFinish transitionStep
      simp only [hp, decide_true, if_true]
      constructor <;> simp [ht]
    · exact Sim.refl e

theorem fadeFinish_color (x : Exec) : (fadeFinish x).color = x.color := (fadeFinish_frame x).2.2.2.2.2.1

/-- the colour a fade evaluation produces depends on `Sim`-visible fields only -/
theorem stepFade_color {a c : Exec} (h : Sim a c) (t : Nat) : (stepFade a t).color = (stepFade c t).color := by
  unfold stepFade
  rw [← h.trActive]
  split
  · rename_i ht
    obtain ⟨x, y, z⟩ := h.fade ht
    rw [fadeFinish_color, fadeFinish_color]
    unfold transitionStep
    simp only [progress_eq, x, y, z, h.startColor]
  · rename_i ht
    exact h.color (by simpa using ht)

theorem stepFade_color_self {e : Exec} {cur : Nat} (hc : ColorOK e cur) : (stepFade e cur).color = e.color := by
  unfold stepFade
  split
  · rename_i ht
    rw [hc ht, fadeFinish_color]
    unfold transitionStep
    simp only [progress_eq]
  · rfl

theorem color_eq_of_sim {a c : Exec} {cur : Nat} (h : Sim a c) (ha : ColorOK a cur) (hc : ColorOK c cur) : a.color = c.color := by
  by_cases ht : a.trActive = true
  · obtain ⟨x, y, z⟩ := h.fade ht
    rw [ha ht, hc (h.trActive.symm.trans ht), x, y, z, h.startColor]
  · exact h.color (by simpa using ht)

end Sb.Proofs.Light
