/-
C05: a non-zero error pattern confined to four consecutive bytes never has checksum zero
(so that, by linearity, altering up to four consecutive bytes of a checksummed file always changes its CRC).

The argument follows the register backwards: if the register is 0 after the fourth byte, it equalled that byte before
it, hence had an empty top byte, hence the previous step was a pure shift, … until the first byte, whose table entry
has a non-empty top byte unless the byte is 0 (kernel-checked over the 256 entries).
-/
import Sb.Proofs.CrcLinear

namespace Sb.Proofs
open Sb Sb.Spec

/-- a byte as a 32-bit word -/
def W (b : UInt8) : BitVec 32 := BitVec.ofNat 32 b.toNat

theorem W_lt (b : UInt8) : (W b).toNat < 256 := by
  unfold W
  rw [BitVec.toNat_ofNat]
  have := b.toNat_lt
  omega

theorem W_shift8 (b : UInt8) : W b >>> 8 = 0 := by
  apply BitVec.eq_of_toNat_eq
  rw [BitVec.toNat_ushiftRight, Nat.shiftRight_eq_div_pow]
  have := W_lt b
  show (W b).toNat / 2 ^ 8 = 0
  omega

theorem W_eq_zero (b : UInt8) (h : W b = 0) : b = 0 := by
  have h' := congrArg BitVec.toNat h
  unfold W at h'
  rw [BitVec.toNat_ofNat] at h'
  have := b.toNat_lt
  have h'' : b.toNat % 2 ^ 32 = 0 := h'
  have : b.toNat = 0 := by omega
  exact UInt8.toNat_inj.mp this

theorem W_low (b : UInt8) : W b &&& 0xff#32 = W b := by
  rw [low_byte]
  apply BitVec.eq_of_toNat_eq
  rw [BitVec.toNat_ofNat]
  have := W_lt b
  omega

/-- the top byte of the table entry of a non-zero index is not empty (256 entries, kernel evaluation) -/
theorem top_byte_table : (List.range 256).all (fun i => i == 0 || (step8 (BitVec.ofNat 32 i) >>> 24 != 0)) = true := by
  decide +kernel

theorem top_byte_of_low (x : BitVec 32) (h : step8 (x &&& 0xff#32) >>> 24 = 0) : x &&& 0xff#32 = 0 := by
  rw [low_byte] at h ⊢
  have hlt : x.toNat % 256 < 256 := Nat.mod_lt _ (by omega)
  have := List.all_eq_true.mp top_byte_table (x.toNat % 256) (List.mem_range.mpr hlt)
  simp only [Bool.or_eq_true, beq_iff_eq, bne_iff_ne, ne_eq] at this
  rcases this with h0 | hne
  · rw [h0]; rfl
  · exact absurd h hne

/-- 8 bit steps: the low byte goes through the table, the rest is shifted -/
theorem step8_split (x : BitVec 32) : step8 x = step8 (x &&& 0xff#32) ^^^ (x >>> 8) := by
  conv => lhs; rw [split_low_high x]
  rw [step8_xor, step8_high]

theorem shift24_of_shift8 (x : BitVec 32) : (x >>> 8) >>> 24 = 0 := by
  apply BitVec.eq_of_toNat_eq
  simp only [BitVec.toNat_ushiftRight, Nat.shiftRight_eq_div_pow]
  have := x.isLt
  show x.toNat / 2 ^ 8 / 2 ^ 24 = 0
  omega

/-- if the register has an empty top byte after a byte step, the step consumed a zero low byte -/
theorem low_zero_of_top_zero (x : BitVec 32) (h : step8 x >>> 24 = 0) : x &&& 0xff#32 = 0 := by
  apply top_byte_of_low
  have := step8_split x
  rw [this, BitVec.ushiftRight_xor_distrib, shift24_of_shift8] at h
  simpa using h

/-- … and then the step was a plain shift -/
theorem step8_of_low_zero (x : BitVec 32) (h : x &&& 0xff#32 = 0) : step8 x = x >>> 8 := by
  rw [step8_split, h]
  have : step8 (0 : BitVec 32) = 0 := step8_zero
  rw [this]; simp

theorem xor_W_shift8 (x : BitVec 32) (b : UInt8) : (x ^^^ W b) >>> 8 = x >>> 8 := by
  rw [BitVec.ushiftRight_xor_distrib, W_shift8]; simp

theorem crcByte_W (c : BitVec 32) (b : UInt8) : crcByte c b = step8 (c ^^^ W b) := rfl

/-- **four-byte window**: the register is zero after four bytes fed into a zero register only if all four are zero -/
theorem crc_window4 (w0 w1 w2 w3 : UInt8) (h : crc 0 [w0, w1, w2, w3] = 0) :
    w0 = 0 ∧ w1 = 0 ∧ w2 = 0 ∧ w3 = 0 := by
  simp only [crc, List.foldl_cons, List.foldl_nil, crcByte_W] at h
  -- name the registers
  generalize hr1 : step8 (0 ^^^ W w0) = r1 at h
  generalize hr2 : step8 (r1 ^^^ W w1) = r2 at h
  generalize hr3 : step8 (r2 ^^^ W w2) = r3 at h
  -- last step
  have hz3 : r3 ^^^ W w3 = 0 := step8_eq_zero _ h
  have hr3W : r3 = W w3 := by
    have := congrArg (· ^^^ W w3) hz3
    simpa [BitVec.xor_assoc] using this
  -- third step was a shift
  have h3top : r3 >>> 24 = 0 := by
    rw [hr3W]
    have : W w3 >>> 24 = (W w3 >>> 8) >>> 16 := by rw [← BitVec.shiftRight_add]
    rw [this, W_shift8]; simp
  have hl2 : (r2 ^^^ W w2) &&& 0xff#32 = 0 := low_zero_of_top_zero _ (by rw [hr3]; exact h3top)
  have hs3 : r3 = r2 >>> 8 := by rw [← hr3, step8_of_low_zero _ hl2, xor_W_shift8]
  -- second step was a shift
  have h2top : r2 >>> 24 = 0 := by
    have : r2 >>> 24 = (r2 >>> 8) >>> 16 := by rw [← BitVec.shiftRight_add]
    rw [this, ← hs3, hr3W]
    have : W w3 >>> 16 = (W w3 >>> 8) >>> 8 := by rw [← BitVec.shiftRight_add]
    rw [this, W_shift8]; simp
  have hl1 : (r1 ^^^ W w1) &&& 0xff#32 = 0 := low_zero_of_top_zero _ (by rw [hr2]; exact h2top)
  have hs2 : r2 = r1 >>> 8 := by rw [← hr2, step8_of_low_zero _ hl1, xor_W_shift8]
  -- first step
  have h1top : r1 >>> 24 = 0 := by
    have : r1 >>> 24 = (r1 >>> 8) >>> 16 := by rw [← BitVec.shiftRight_add]
    rw [this, ← hs2]
    have : r2 >>> 16 = (r2 >>> 8) >>> 8 := by rw [← BitVec.shiftRight_add]
    rw [this, ← hs3, hr3W, W_shift8]
  have hl0 : ((0 : BitVec 32) ^^^ W w0) &&& 0xff#32 = 0 := low_zero_of_top_zero _ (by rw [hr1]; exact h1top)
  have hW0 : W w0 = 0 := by
    have : ((0 : BitVec 32) ^^^ W w0) = W w0 := by simp
    rw [this, W_low] at hl0; exact hl0
  have e0 : w0 = 0 := W_eq_zero _ hW0
  have hr1z : r1 = 0 := by
    rw [← hr1, hW0]
    have : (0 : BitVec 32) ^^^ 0 = 0 := by simp
    rw [this]; exact step8_zero
  have hW1 : W w1 = 0 := by
    rw [hr1z] at hl1
    have : ((0 : BitVec 32) ^^^ W w1) = W w1 := by simp
    rw [this, W_low] at hl1; exact hl1
  have e1 : w1 = 0 := W_eq_zero _ hW1
  have hr2z : r2 = 0 := by rw [hs2, hr1z]; simp
  have hW2 : W w2 = 0 := by
    rw [hr2z] at hl2
    have : ((0 : BitVec 32) ^^^ W w2) = W w2 := by simp
    rw [this, W_low] at hl2; exact hl2
  have e2 : w2 = 0 := W_eq_zero _ hW2
  have hr3z : r3 = 0 := by rw [hs3, hr2z]; simp
  have e3 : w3 = 0 := W_eq_zero _ (by rw [← hr3W, hr3z])
  exact ⟨e0, e1, e2, e3⟩

/-- windows of at most four bytes: a non-zero pattern has a non-zero checksum -/
theorem crc_window_ne (e : Bytes) (hlen : e.length ≤ 4) (hnz : e ≠ zeros e.length) : crc 0 e ≠ 0 := by
  intro h
  apply hnz
  -- pad to four bytes with leading zeros (they leave the zero register unchanged)
  have hpad : crc 0 (zeros (4 - e.length) ++ e) = 0 := by rw [crc_append, crc_zeros_zero]; exact h
  rcases e with _ | ⟨a, _ | ⟨b, _ | ⟨c, _ | ⟨d, _ | ⟨x, rest⟩⟩⟩⟩⟩
  · rfl
  · have := crc_window4 0 0 0 a (by simpa [zeros] using hpad)
    simp [zeros, this.2.2.2]
  · have := crc_window4 0 0 a b (by simpa [zeros] using hpad)
    simp [zeros, this.2.2.1, this.2.2.2]
  · have := crc_window4 0 a b c (by simpa [zeros] using hpad)
    simp [zeros, this.2.1, this.2.2.1, this.2.2.2]
  · have := crc_window4 a b c d (by simpa [zeros] using hpad)
    simp [zeros, this.1, this.2.1, this.2.2.1, this.2.2.2]
  · simp at hlen

theorem xorBytes_self (bs : Bytes) : xorBytes bs bs = zeros bs.length := by
  induction bs with
  | nil => rfl
  | cons b bs ih =>
    unfold xorBytes zeros at *
    simp only [List.zipWith_cons_cons, List.length_cons, List.replicate_succ, List.cons.injEq]
    exact ⟨by simp, ih⟩

theorem eq_of_xorBytes_zero (w w' : Bytes) (hsame : w'.length = w.length) (hz : xorBytes w w' = zeros w.length) : w = w' := by
  induction w generalizing w' with
  | nil =>
    cases w' with
    | nil => rfl
    | cons a t => simp at hsame
  | cons a t ih =>
    cases w' with
    | nil => simp at hsame
    | cons b t' =>
      simp only [List.length_cons, Nat.add_right_cancel_iff] at hsame
      unfold xorBytes zeros at hz
      simp only [List.zipWith_cons_cons, List.length_cons, List.replicate_succ, List.cons.injEq] at hz
      have hab : a = b := by
        have := congrArg (· ^^^ b) hz.1
        simpa [UInt8.xor_assoc] using this
      have ht : t = t' := ih t' hsame (by unfold xorBytes zeros; exact hz.2)
      rw [hab, ht]

/-- two different registers stay different whatever is fed to both -/
theorem crc_register_injective (c1 c2 : BitVec 32) (bs : Bytes) (h : c1 ≠ c2) : crc c1 bs ≠ crc c2 bs := by
  intro heq
  have hl := crc_linear bs bs rfl c1 c2
  have hx : xorBytes bs bs = zeros bs.length := xorBytes_self bs
  rw [hx, heq] at hl
  have hne : c1 ^^^ c2 ≠ 0 := by
    intro hz
    apply h
    have := congrArg (· ^^^ c2) hz
    simpa [BitVec.xor_assoc] using this
  exact crc_zeros_ne (c1 ^^^ c2) bs.length hne (by rw [hl]; simp)

/-- **altering up to four consecutive bytes changes the checksum**, wherever the window lies -/
theorem crc_window_changes (c : BitVec 32) (pre w w' post : Bytes) (hlen : w.length ≤ 4) (hsame : w'.length = w.length)
    (hne : w ≠ w') : crc c (pre ++ w ++ post) ≠ crc c (pre ++ w' ++ post) := by
  rw [crc_append, crc_append, crc_append, crc_append]
  apply crc_register_injective
  intro heq
  have hl := crc_linear w w' hsame.symm (crc c pre) (crc c pre)
  rw [heq] at hl
  have hz : crc 0 (xorBytes w w') = 0 := by
    have : crc c pre ^^^ crc c pre = 0 := by simp
    rw [this] at hl; rw [hl]; simp
  have hxl : (xorBytes w w').length = w.length := by
    unfold xorBytes; simp [List.length_zipWith, hsame]
  have := crc_window_ne (xorBytes w w') (by omega)
  apply this _ hz
  intro hzero
  apply hne
  rw [hxl] at hzero
  exact eq_of_xorBytes_zero w w' hsame hzero

end Sb.Proofs
