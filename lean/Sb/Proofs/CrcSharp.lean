/-
C05: the two-bit detection bound stated through the period itself, and its sharpness.
`crc_two_bits_ne_period`: two flipped bits whose distance in the bit stream is below the order of x (2^32 - 1 bit
positions) always change the checksum; `crc_two_bits_at_period`: at exactly that distance they never do.
-/
import Sb.Proofs.CrcTwoBits

namespace Sb.Proofs
open Sb Sb.Spec

/-- distance, in steps of the bit-serial register, between bit `a1` of one byte and bit `a2` of the byte `g + 1`
places later (the register is reflected: bit 0 of a byte is fed first) -/
def bitDistance (g : Nat) (a1 a2 : Fin 8) : Int := 8 * (g + 1 : Nat) + (a2.val : Int) - (a1.val : Int)

/-- **two bits in different bytes, bound stated by the period**: whenever the distance between the two flipped bit
positions is below the order of x, the error pattern has a non-zero checksum -/
theorem crc_two_bits_ne_period (k g m : Nat) (a1 a2 : Fin 8) (hd : bitDistance g a1 a2 < ordN) :
    crc 0 (zeros k ++ [UInt8.ofNat (2 ^ a1.val)] ++ zeros g ++ [UInt8.ofNat (2 ^ a2.val)] ++ zeros m) ≠ 0 := by
  rw [crc_append, crc_append, crc_append, crc_append, crc_zeros_zero]
  apply crc_zeros_ne
  intro h
  simp only [crc, List.foldl_cons, List.foldl_nil] at h
  have h1 : crcByte 0 (UInt8.ofNat (2 ^ a1.val)) = step1^[8] (W (UInt8.ofNat (2 ^ a1.val))) := by
    unfold crcByte W; simp [step8_eq_iterate]
  rw [h1] at h
  have hz := crc_zeros_iterate (step1^[8] (W (UInt8.ofNat (2 ^ a1.val)))) g
  simp only [crc] at hz
  rw [hz] at h
  have h2 : ∀ c, crcByte c (UInt8.ofNat (2 ^ a2.val)) = step8 (c ^^^ W (UInt8.ofNat (2 ^ a2.val))) := fun c => rfl
  rw [h2] at h
  have hx := step8_eq_zero _ h
  have heq : step1^[8 * g] (step1^[8] (W (UInt8.ofNat (2 ^ a1.val)))) = W (UInt8.ofNat (2 ^ a2.val)) := by
    have := congrArg (· ^^^ W (UInt8.ofNat (2 ^ a2.val))) hx
    simpa [BitVec.xor_assoc] using this
  rw [single_bit_byte a1, single_bit_byte a2, ← Function.iterate_add_apply, ← Function.iterate_add_apply] at heq
  have ha1 := a1.isLt
  have ha2 := a2.isLt
  have hcancel := iterate_cancel (8 * g + 8 + (31 - a1.val)) (31 - a2.val) (by omega) e0 heq
  have hpos : 0 < 8 * g + 8 + (31 - a1.val) - (31 - a2.val) := by omega
  have hlt : 8 * g + 8 + (31 - a1.val) - (31 - a2.val) < ordN := by
    unfold bitDistance at hd
    unfold ordN at hd ⊢
    omega
  exact no_small_period _ hpos hlt hcancel

/-- every gap of fewer than 2^29 - 2 bytes is below the period, whichever bits are flipped -/
theorem bitDistance_lt (g : Nat) (a1 a2 : Fin 8) (hg : g < 536870910) : bitDistance g a1 a2 < ordN := by
  have ha1 := a1.isLt
  have ha2 := a2.isLt
  unfold bitDistance ordN
  omega

theorem crc_two_bits_ne_gap (k g m : Nat) (a1 a2 : Fin 8) (hg : g < 536870910) :
    crc 0 (zeros k ++ [UInt8.ofNat (2 ^ a1.val)] ++ zeros g ++ [UInt8.ofNat (2 ^ a2.val)] ++ zeros m) ≠ 0 :=
  crc_two_bits_ne_period k g m a1 a2 (bitDistance_lt g a1 a2 hg)

/-- **sharpness**: two flipped bits that are exactly one period apart (for instance bit 0 of one byte and bit 7 of the
byte 2^29 - 1 places later, or bit 1 of one byte and bit 0 of the byte 2^29 places later) form a pattern with checksum
zero wherever it sits - no CRC-32 can see it.  The bound of `crc_two_bits_ne_period` cannot be improved. -/
theorem crc_two_bits_at_period (k g m : Nat) (a1 a2 : Fin 8) (hd : bitDistance g a1 a2 = ordN) :
    crc 0 (zeros k ++ [UInt8.ofNat (2 ^ a1.val)] ++ zeros g ++ [UInt8.ofNat (2 ^ a2.val)] ++ zeros m) = 0 := by
  rw [crc_append, crc_append, crc_append, crc_append, crc_zeros_zero]
  have hin : crc (crc (crc 0 [UInt8.ofNat (2 ^ a1.val)]) (zeros g)) [UInt8.ofNat (2 ^ a2.val)] = 0 := by
    simp only [crc, List.foldl_cons, List.foldl_nil]
    have h1 : crcByte 0 (UInt8.ofNat (2 ^ a1.val)) = step1^[8] (W (UInt8.ofNat (2 ^ a1.val))) := by
      unfold crcByte W; simp [step8_eq_iterate]
    rw [h1]
    have hz := crc_zeros_iterate (step1^[8] (W (UInt8.ofNat (2 ^ a1.val)))) g
    simp only [crc] at hz
    rw [hz]
    have h2 : ∀ c, crcByte c (UInt8.ofNat (2 ^ a2.val)) = step8 (c ^^^ W (UInt8.ofNat (2 ^ a2.val))) := fun c => rfl
    rw [h2, single_bit_byte a1, single_bit_byte a2, ← Function.iterate_add_apply, ← Function.iterate_add_apply]
    have ha1 := a1.isLt
    have ha2 := a2.isLt
    have hsum : 8 * g + 8 + (31 - a1.val) = (31 - a2.val) + ordN := by
      unfold bitDistance at hd
      unfold ordN at hd ⊢
      omega
    rw [hsum, Function.iterate_add_apply, period_full, BitVec.xor_self]
    rfl
  rw [hin, crc_zeros_zero]

/-- the distance is the period for a gap of 2^29 - 2 bytes between bit 0 and bit 7 (so such gaps exist) -/
theorem bitDistance_period_example : bitDistance 536870910 ⟨0, by omega⟩ ⟨7, by omega⟩ = ordN := by
  unfold bitDistance ordN
  simp

/-! ### one bit of the stored word and one bit of the data -/

/-- distance between bit `k` of the stored checksum word and bit `a` of a data byte followed by `m` more bytes, in steps
of the register (the stored word is compared with the register after the last byte) -/
def fieldDistance (m : Nat) (a : Fin 8) (k : Fin 32) : Int := 8 * (m + 1 : Nat) + (k.val : Int) - (a.val : Int)

theorem crc_one_bit_as_iterate (pre m : Nat) (a : Fin 8) :
    crc 0 (zeros pre ++ [UInt8.ofNat (2 ^ a.val)] ++ zeros m) = step1^[8 * m + 8 + (31 - a.val)] e0 := by
  rw [crc_append, crc_append, crc_zeros_zero]
  simp only [crc, List.foldl_cons, List.foldl_nil]
  have h1 : crcByte 0 (UInt8.ofNat (2 ^ a.val)) = step1^[8] (W (UInt8.ofNat (2 ^ a.val))) := by
    unfold crcByte W; simp [step8_eq_iterate]
  rw [h1]
  have hz := crc_zeros_iterate (step1^[8] (W (UInt8.ofNat (2 ^ a.val)))) m
  simp only [crc] at hz
  rw [hz, single_bit_byte a, ← Function.iterate_add_apply, ← Function.iterate_add_apply]

/-- below one period the checksum of a single-bit data pattern is never a single-bit word -/
theorem crc_one_bit_ne_basis_period (pre m : Nat) (a : Fin 8) (k : Fin 32) (hd : fieldDistance m a k < ordN) :
    crc 0 (zeros pre ++ [UInt8.ofNat (2 ^ a.val)] ++ zeros m) ≠ basis k.val := by
  rw [crc_one_bit_as_iterate, basis_as_iterate k]
  intro h
  have ha := a.isLt
  have hk := k.isLt
  have hcancel := iterate_cancel (8 * m + 8 + (31 - a.val)) (31 - k.val) (by omega) e0 h
  have hpos : 0 < 8 * m + 8 + (31 - a.val) - (31 - k.val) := by omega
  have hlt : 8 * m + 8 + (31 - a.val) - (31 - k.val) < ordN := by
    unfold fieldDistance at hd
    unfold ordN at hd ⊢
    omega
  exact no_small_period _ hpos hlt hcancel

/-- at exactly one period it is that single-bit word -/
theorem crc_one_bit_eq_basis_at_period (pre m : Nat) (a : Fin 8) (k : Fin 32) (hd : fieldDistance m a k = ordN) :
    crc 0 (zeros pre ++ [UInt8.ofNat (2 ^ a.val)] ++ zeros m) = basis k.val := by
  rw [crc_one_bit_as_iterate, basis_as_iterate k]
  have ha := a.isLt
  have hk := k.isLt
  have hsum : 8 * m + 8 + (31 - a.val) = (31 - k.val) + ordN := by
    unfold fieldDistance at hd
    unfold ordN at hd ⊢
    omega
  rw [hsum, Function.iterate_add_apply, period_full]

theorem fieldDistance_lt (m : Nat) (a : Fin 8) (k : Fin 32) (hm : m < 536870907) : fieldDistance m a k < ordN := by
  have ha := a.isLt
  have hk := k.isLt
  unfold fieldDistance ordN
  omega

theorem fieldDistance_period_example : fieldDistance 536870910 ⟨0, by omega⟩ ⟨7, by omega⟩ = ordN := by
  unfold fieldDistance ordN
  simp

end Sb.Proofs
