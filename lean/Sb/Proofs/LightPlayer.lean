/-
C09: the light player's answers do not depend on earlier seeks.

The fresh player's wake-up chain `chain prog k` (k-th iteration of the seek loop from the fresh player) is the reference.
Every player reachable by seeks is, up to `Sim`, at some point of that chain (`Inv`), or past the end of the program with
the final colour and pyro mask; a seek re-establishes this (`seek_inv`); two players that satisfy it at the same
timestamp, which is not the start instant of a command, show the same colour, pyro mask and ended flag (`inv_unique`).
-/
import Sb.Proofs.LightChain

namespace Sb.Proofs.Light
open Sb Sb.Lights

/-- one iteration of the `while (target > m_nextTimestamp)` loop -/
def adv (p : Player) : Player :=
  { exec := step p.exec p.next, current := p.next,
    next := if (step p.exec p.next).nextWakeup < p.next then p.next + 1 else (step p.exec p.next).nextWakeup }

theorem adv_exec (p : Player) : (adv p).exec = step p.exec p.next := rfl
theorem adv_current (p : Player) : (adv p).current = p.next := rfl
theorem adv_next (p : Player) :
    (adv p).next = if (step p.exec p.next).nextWakeup < p.next then p.next + 1 else (step p.exec p.next).nextWakeup := rfl

theorem seekLoop_succ (t fuel : Nat) (p : Player) :
    seekLoop t (fuel + 1) p = if t > p.next then seekLoop t fuel (adv p) else .ok p := rfl

/-- loop invariants -/
theorem seekLoop_inv {t : Nat} (I : Player → Prop) (hadv : ∀ q, I q → q.next < t → I (adv q)) :
    ∀ (fuel : Nat) (p p' : Player), I p → seekLoop t fuel p = .ok p' → I p' ∧ t ≤ p'.next := by
  intro fuel
  induction fuel with
  | zero => intro p p' _ h; cases h
  | succ fuel ih =>
    intro p p' hI h
    rw [seekLoop_succ] at h
    by_cases ht : t > p.next
    · rw [if_pos ht] at h
      exact ih _ _ (hadv p hI ht) h
    · rw [if_neg ht] at h
      cases h
      exact ⟨hI, by omega⟩

/-! ### prog and size never change -/

theorem step_prog (e : Exec) (t : Nat) : (step e t).prog = e.prog ∧ (step e t).size = e.size := by
  rw [step_eq]
  have r : (stepReset e t).prog = e.prog ∧ (stepReset e t).size = e.size := by
    unfold stepReset; split <;> simp [setColorAndResetTransition, setClockOrigin]
  split
  · exact r
  · have f : (stepFade (stepReset e t) t).prog = (stepReset e t).prog ∧ (stepFade (stepReset e t) t).size = (stepReset e t).size := by
      unfold stepFade
      split
      · obtain ⟨_, _, _, _, _, _, _, _, _, f10, f11⟩ := fadeFinish_frame (transitionStep (stepReset e t) t)
        rw [f10, f11]; simp [transitionStep]
      · exact ⟨rfl, rfl⟩
    unfold stepWake
    split
    · by_cases he : (stepFade (stepReset e t) t).ended = false
      · have P := execCommand_post { stepFade (stepReset e t) t with cmdStart := t } (by simpa using he)
        rw [P.prog, P.size]
        exact ⟨f.1.trans r.1, f.2.trans r.2⟩
      · have he' : (stepFade (stepReset e t) t).ended = true := by simpa using he
        unfold execCommand
        simp only [he', if_true]
        exact ⟨f.1.trans r.1, f.2.trans r.2⟩
    · exact ⟨f.1.trans r.1, f.2.trans r.2⟩

/-! ### the reference chain -/

def chain (prog : Bytes) (k : Nat) : Player := adv^[k] (Player.fresh prog)

theorem chain_zero (prog : Bytes) : chain prog 0 = Player.fresh prog := rfl
theorem chain_succ (prog : Bytes) (k : Nat) : chain prog (k + 1) = adv (chain prog k) := by
  unfold chain; rw [Function.iterate_succ_apply']

theorem chain_current (prog : Bytes) (k : Nat) : (chain prog (k + 1)).current = (chain prog k).next := by
  rw [chain_succ]; rfl

theorem chain_exec (prog : Bytes) (k : Nat) :
    (chain prog (k + 1)).exec = step (chain prog k).exec (chain prog k).next := by
  rw [chain_succ]; rfl

theorem chain_prog (prog : Bytes) (k : Nat) :
    (chain prog k).exec.prog = (Player.fresh prog).exec.prog ∧ (chain prog k).exec.size = (Player.fresh prog).exec.size := by
  induction k with
  | zero => exact ⟨rfl, rfl⟩
  | succ k ih =>
    rw [chain_exec]
    obtain ⟨a, b⟩ := step_prog (chain prog k).exec (chain prog k).next
    exact ⟨a.trans ih.1, b.trans ih.2⟩

/-- the chain points 1 .. k-1 have not reached the end of the program -/
def liveUpTo (prog : Bytes) (k : Nat) : Prop := ∀ i, 1 ≤ i → i < k → (chain prog i).exec.ended = false

theorem liveUpTo.mono {prog : Bytes} {j k : Nat} (h : liveUpTo prog k) (hjk : j ≤ k) : liveUpTo prog j :=
  fun i h1 h2 => h i h1 (by omega)

structure GoodP (p : Player) : Prop where
  t : GoodT p.exec p.current
  c : ColorOK p.exec p.current
  next_eq : p.next = p.exec.nextWakeup
  ended_tr : p.exec.ended = true → p.exec.trActive = false

theorem fresh_exec (prog : Bytes) :
    (Player.fresh prog).exec.resetFlag = true ∧ (Player.fresh prog).exec.trActive = false ∧ (Player.fresh prog).next = 0 ∧
    (Player.fresh prog).current = 0 := by
  refine ⟨?_, ?_, rfl, rfl⟩ <;> simp [Player.fresh, rewindExec]

theorem chain_good (prog : Bytes) : ∀ k, 1 ≤ k → liveUpTo prog k → GoodP (chain prog k) := by
  intro k
  induction k with
  | zero => intro h; omega
  | succ k ih =>
    intro _ hl
    obtain ⟨fr, ft, fn, fc⟩ := fresh_exec prog
    by_cases hk : k = 0
    · subst hk
      have hn : (chain prog 0).next = 0 := fn
      obtain ⟨g1, g2, g3⟩ := reset_step (e := (chain prog 0).exec) fr ft
      refine ⟨?_, ?_, ?_, ?_⟩
      · rw [chain_current, chain_exec, hn]; exact g1
      · rw [chain_current, chain_exec, hn]; exact g2
      · rw [chain_succ, adv_next, adv_exec, hn, if_neg (by omega)]
      · rw [chain_exec, hn]; exact g3
    · have hk1 : 1 ≤ k := by omega
      have G := ih hk1 (hl.mono (by omega))
      have hne : (chain prog k).exec.ended = false := hl k hk1 (by omega)
      obtain ⟨g1, g2, g3⟩ := wake_step G.t hne
      rw [← G.next_eq] at g1 g2 g3
      refine ⟨?_, ?_, ?_, ?_⟩
      · rw [chain_current, chain_exec]; exact g1
      · rw [chain_current, chain_exec]; exact g2
      · rw [chain_succ, adv_next, adv_exec, if_neg (by have := g1.le; omega)]
      · rw [chain_exec]; exact g3

/-- wake-up times do not decrease along the live part of the chain -/
theorem chain_next_le_current (prog : Bytes) (i : Nat) : ∀ j, i < j → liveUpTo prog j →
    (chain prog i).next ≤ (chain prog j).current := by
  intro j
  induction j with
  | zero => intro h; omega
  | succ j ih =>
    intro hij hl
    rw [chain_current]
    by_cases h : i = j
    · subst h; exact Nat.le_refl _
    · have h1 := ih (by omega) (hl.mono (by omega))
      have G := chain_good prog j (by omega) (hl.mono (by omega))
      have := G.t.le
      rw [← G.next_eq] at this
      omega

/-! ### rewound executors -/

/-- two executors that are about to be reset by their next step -/
structure RSim (a b : Exec) : Prop where
  ra : a.resetFlag = true
  ta : a.trActive = false
  rb : b.resetFlag = true
  tb : b.trActive = false
  prog : a.prog = b.prog
  size : a.size = b.size
  pc : a.pc = b.pc
  loops : a.loops = b.loops
  pyro : a.pyro = b.pyro
  ended : a.ended = b.ended

theorem rsim_step {a b : Exec} (h : RSim a b) (t : Nat) : Sim (step a t) (step b t) := by
  apply step_sim_of_reset
  obtain ⟨ra, ta, rb, tb, h1, h2, h3, h4, h5, h6⟩ := h
  unfold stepReset
  rw [ra, rb]
  simp only [if_true]
  constructor <;> simp_all [setColorAndResetTransition, setClockOrigin, absToInternal]

theorem rewind_rsim {a b : Exec} (h1 : a.prog = b.prog) (h2 : a.size = b.size) : RSim (rewindExec a) (rewindExec b) := by
  constructor <;> simp [rewindExec, h1, h2]

theorem fresh_rewound (prog : Bytes) : ∃ e : Exec, (Player.fresh prog).exec = rewindExec e :=
  ⟨_, rfl⟩

/-- what is left to compare after the program has ended -/
structure DeadEq (a b : Exec) : Prop where
  ended : a.ended = true
  reset : a.resetFlag = false
  color : a.color = b.color
  pyro : a.pyro = b.pyro
  prog : a.prog = b.prog
  size : a.size = b.size

theorem DeadEq.step {a b : Exec} (h : DeadEq a b) (t : Nat) : DeadEq (step a t) b := by
  rw [dead_step h.reset h.ended]
  exact ⟨h.ended, h.reset, h.color, h.pyro, h.prog, h.size⟩

section
variable (prog : Bytes)

/-- loop invariant of a seek to `t` -/
def LInv (t : Nat) (q : Player) : Prop :=
  (q.next = 0 ∧ RSim q.exec (chain prog 0).exec) ∨
  (∃ k, 1 ≤ k ∧ liveUpTo prog (k + 1) ∧ Sim q.exec (chain prog k).exec ∧ q.next = (chain prog k).next ∧
      (chain prog k).current ≤ t) ∨
  (∃ m, 1 ≤ m ∧ liveUpTo prog m ∧ (chain prog m).exec.ended = true ∧ DeadEq q.exec (chain prog m).exec ∧
      (chain prog m).current ≤ t)

/-- what every player reachable by seeks satisfies -/
def Inv (r : Player) : Prop :=
  (r.current = 0 ∧ r.next = 0 ∧ RSim r.exec (chain prog 0).exec) ∨
  (∃ k, 1 ≤ k ∧ liveUpTo prog (k + 1) ∧ Sim r.exec (chain prog k).exec ∧ r.next = (chain prog k).next ∧
      (chain prog k).current ≤ r.current ∧ r.current ≤ (chain prog k).next ∧
      (r.current < (chain prog k).next ∨ r.current = (chain prog k).current) ∧
      r.exec.color = (stepFade (chain prog k).exec r.current).color) ∨
  (∃ m, 1 ≤ m ∧ liveUpTo prog m ∧ (chain prog m).exec.ended = true ∧ DeadEq r.exec (chain prog m).exec ∧
      (chain prog m).current ≤ r.current)

theorem inv_fresh : Inv prog (Player.fresh prog) := by
  left
  obtain ⟨fr, ft, fn, fc⟩ := fresh_exec prog
  exact ⟨fc, fn, ⟨fr, ft, fr, ft, rfl, rfl, rfl, rfl, rfl, rfl⟩⟩

/-- an executor `Sim`-related to the next chain point is either live there or has just ended -/
theorem classify (k : Nat) (hl : liveUpTo prog (k + 1)) (x : Exec) (hs : Sim x (chain prog (k + 1)).exec) :
    ((chain prog (k + 1)).exec.ended = true ∧ DeadEq x (chain prog (k + 1)).exec) ∨
    ((chain prog (k + 1)).exec.ended = false ∧ liveUpTo prog (k + 2)) := by
  have G := chain_good prog (k + 1) (by omega) hl
  by_cases he : (chain prog (k + 1)).exec.ended = true
  · left
    refine ⟨he, hs.ended.trans he, hs.resetFlag.trans G.t.reset, ?_, hs.pyro, hs.prog, hs.size⟩
    exact hs.color (hs.trActive.trans (G.ended_tr he))
  · right
    have he' : (chain prog (k + 1)).exec.ended = false := by simpa using he
    refine ⟨he', ?_⟩
    intro i h1 h2
    by_cases hi : i = k + 1
    · subst hi; exact he'
    · exact hl i h1 (by omega)

theorem chain0_next : (chain prog 0).next = 0 := rfl

theorem adv_linv (t : Nat) (q : Player) (h : LInv prog t q) (hq : q.next < t) : LInv prog t (adv q) := by
  rcases h with ⟨hn, hr⟩ | ⟨k, hk, hl, hs, hn, hc⟩ | ⟨m, hm, hl, he, hd, hc⟩
  · have hs : Sim (step q.exec 0) (chain prog 1).exec := by
      rw [chain_exec, chain0_next]; exact rsim_step hr 0
    have G := chain_good prog 1 (by omega) (fun i h1 h2 => by omega)
    have hnext : (adv q).next = (chain prog 1).next := by
      rw [adv_next, hn, if_neg (by omega), G.next_eq, hs.nextWakeup]
    have hcur : (chain prog 1).current ≤ t := by rw [chain_current, chain0_next]; omega
    have hex : (adv q).exec = step q.exec 0 := by rw [adv_exec, hn]
    rcases classify prog 0 (fun i h1 h2 => by omega) _ hs with ⟨he, hd⟩ | ⟨he, hl2⟩
    · right; right
      exact ⟨1, by omega, fun i h1 h2 => by omega, he, hex ▸ hd, hcur⟩
    · right; left
      exact ⟨1, by omega, hl2, hex ▸ hs, hnext, hcur⟩
  · have hs' : Sim (step q.exec q.next) (chain prog (k + 1)).exec := by
      rw [chain_exec, hn]; exact step_sim hs _
    have hnext : (adv q).next = (chain prog (k + 1)).next := by
      rw [adv_next, chain_succ, adv_next, hn, ← hn, hs'.nextWakeup, chain_exec, hn]
    have hcur : (chain prog (k + 1)).current ≤ t := by rw [chain_current, ← hn]; omega
    rcases classify prog k hl _ hs' with ⟨he, hd⟩ | ⟨he, hl2⟩
    · right; right
      exact ⟨k + 1, by omega, hl, he, hd, hcur⟩
    · right; left
      exact ⟨k + 1, by omega, hl2, hs', hnext, hcur⟩
  · right; right
    exact ⟨m, hm, hl, he, hd.step _, hc⟩

end

/-- the state a seek to `t` leaves behind, given the state the loop stopped in -/
def finish (q : Player) (t : Nat) : Player :=
  { exec := step q.exec t, current := t, next := (step q.exec t).nextWakeup }

section
variable (prog : Bytes)
-- the horizon: every timestamp asked for is at most `H`; the hypotheses about the program concern the chain up to `H` only
variable (H : Nat)
variable (short : ∀ k, liveUpTo prog (k + 1) → (chain prog k).current ≤ H → (chain prog k).exec.trActive = true →
  (chain prog k).exec.trDuration ≤ 16777216)
include short

theorem final_inv (t : Nat) (htH : t ≤ H) (q : Player) (h : LInv prog t q) (hq : t ≤ q.next) : Inv prog (finish q t) := by
  rcases h with ⟨hn, hr⟩ | ⟨k, hk, hl, hs, hn, hc⟩ | ⟨m, hm, hl, he, hd, hc⟩
  · have ht : t = 0 := by omega
    subst ht
    have hs : Sim (step q.exec 0) (chain prog 1).exec := by
      rw [chain_exec, chain0_next]; exact rsim_step hr 0
    have G := chain_good prog 1 (by omega) (fun i h1 h2 => by omega)
    have hcur : (chain prog 1).current = 0 := by rw [chain_current, chain0_next]
    rcases classify prog 0 (fun i h1 h2 => by omega) _ hs with ⟨he, hd⟩ | ⟨he, hl2⟩
    · right; right
      exact ⟨1, by omega, fun i h1 h2 => by omega, he, hd, by rw [hcur]; exact Nat.zero_le _⟩
    · right; left
      refine ⟨1, by omega, hl2, hs, ?_, by rw [hcur]; exact Nat.zero_le _, Nat.zero_le _, Or.inr hcur.symm, ?_⟩
      · show (step q.exec 0).nextWakeup = _
        rw [G.next_eq, hs.nextWakeup]
      · show (step q.exec 0).color = (stepFade (chain prog 1).exec 0).color
        have c1 : ColorOK (chain prog 1).exec 0 := hcur ▸ G.c
        rw [stepFade_color_self c1]
        exact color_eq_of_sim hs (reset_step hr.ra hr.ta).2.1 c1
  · have Gk := chain_good prog k hk (hl.mono (by omega))
    have hne : (chain prog k).exec.ended = false := hl k hk (by omega)
    have gq : GoodT q.exec (chain prog k).current := GoodT.of_sim hs Gk.t
    have hqne : q.exec.ended = false := hs.ended.trans hne
    have hqw : q.exec.nextWakeup = (chain prog k).next := by rw [hs.nextWakeup, Gk.next_eq]
    by_cases hte : t = (chain prog k).next
    · -- the seek stops exactly at the next wake-up: the command scheduled there is executed
      have hs' : Sim (step q.exec t) (chain prog (k + 1)).exec := by
        rw [chain_exec, hte]; exact step_sim hs _
      have G := chain_good prog (k + 1) (by omega) hl
      have hcur : (chain prog (k + 1)).current = t := by rw [chain_current, hte]
      rcases classify prog k hl _ hs' with ⟨he, hd⟩ | ⟨he, hl2⟩
      · right; right
        exact ⟨k + 1, by omega, hl, he, hd, by rw [hcur]; exact Nat.le_refl _⟩
      · right; left
        refine ⟨k + 1, by omega, hl2, hs', ?_, by rw [hcur]; exact Nat.le_refl _, ?_, Or.inr hcur.symm, ?_⟩
        · show (step q.exec t).nextWakeup = _
          rw [G.next_eq, hs'.nextWakeup]
        · show t ≤ (chain prog (k + 1)).next
          have := G.t.le
          rw [hcur, ← G.next_eq] at this
          exact this
        · show (step q.exec t).color = (stepFade (chain prog (k + 1)).exec t).color
          have c1 : ColorOK (chain prog (k + 1)).exec t := hcur ▸ G.c
          rw [stepFade_color_self c1]
          have c2 : ColorOK (step q.exec t) t := by
            have := (wake_step gq hqne).2.1
            rw [hqw, ← hte] at this
            exact this
          exact color_eq_of_sim hs' c2 c1
    · -- strictly between two wake-ups: only the fade is re-evaluated
      have hlt : t < q.exec.nextWakeup := by rw [hqw]; omega
      have hsh : q.exec.trActive = true → q.exec.trDuration ≤ 16777216 := by
        intro ha
        obtain ⟨_, y, _⟩ := hs.fade ha
        rw [y]
        exact short k hl (le_trans hc htH) (hs.trActive.symm.trans ha)
      obtain ⟨e1, e2⟩ := interior_step gq hqne hc hlt hsh
      right; left
      refine ⟨k, hk, hl, ?_, ?_, hc, (by show t ≤ (chain prog k).next; rw [← hqw]; omega),
        Or.inl (by show t < (chain prog k).next; rw [← hqw]; exact hlt), ?_⟩
      · show Sim (step q.exec t) _
        rw [e1]; exact e2.trans hs
      · show (step q.exec t).nextWakeup = _
        rw [e1, e2.nextWakeup, hqw]
      · show (step q.exec t).color = _
        rw [e1]; exact stepFade_color hs t
  · right; right
    exact ⟨m, hm, hl, he, hd.step _, hc⟩

omit short in
theorem inv_start (p : Player) (h : Inv prog p) (t : Nat) :
    LInv prog t (if t < p.current then { exec := rewindExec p.exec, current := 0, next := 0 } else p) := by
  have hprog : p.exec.prog = (Player.fresh prog).exec.prog ∧ p.exec.size = (Player.fresh prog).exec.size := by
    rcases h with ⟨_, _, hr⟩ | ⟨k, _, _, hs, _⟩ | ⟨m, _, _, _, hd, _⟩
    · exact ⟨hr.prog, hr.size⟩
    · exact ⟨hs.prog.trans (chain_prog prog k).1, hs.size.trans (chain_prog prog k).2⟩
    · exact ⟨hd.prog.trans (chain_prog prog m).1, hd.size.trans (chain_prog prog m).2⟩
  split
  · left
    refine ⟨rfl, ?_⟩
    obtain ⟨e, he⟩ := fresh_rewound prog
    show RSim (rewindExec p.exec) (Player.fresh prog).exec
    rw [he]
    apply rewind_rsim
    · rw [hprog.1, he]; simp [rewindExec]
    · rw [hprog.2, he]; simp [rewindExec]
  · rename_i hge
    rcases h with ⟨_, hn, hr⟩ | ⟨k, hk, hl, hs, hn, hc, _, _, _⟩ | ⟨m, hm, hl, he, hd, hc⟩
    · left; exact ⟨hn, hr⟩
    · right; left; exact ⟨k, hk, hl, hs, hn, by omega⟩
    · right; right; exact ⟨m, hm, hl, he, hd, by omega⟩

omit short in
theorem seek_eq (p : Player) (t fuel : Nat) :
    p.seek t fuel =
      (seekLoop t fuel (if t < p.current then { exec := rewindExec p.exec, current := 0, next := 0 } else p)).map
        (fun q => finish q t) := by
  unfold Player.seek
  show (seekLoop t fuel (if t < p.current then { exec := rewindExec p.exec, current := 0, next := 0 } else p) >>=
    fun p2 => pure (finish p2 t)) = _
  cases seekLoop t fuel (if t < p.current then { exec := rewindExec p.exec, current := 0, next := 0 } else p) <;> rfl

/-- **a seek re-establishes the invariant** -/
theorem seek_inv (p r : Player) (t fuel : Nat) (htH : t ≤ H) (h : Inv prog p) (hs : p.seek t fuel = .ok r) :
    Inv prog r ∧ r.current = t := by
  rw [seek_eq] at hs
  cases hl : seekLoop t fuel (if t < p.current then { exec := rewindExec p.exec, current := 0, next := 0 } else p) with
  | error e => rw [hl] at hs; cases hs
  | ok q =>
    rw [hl] at hs
    have : r = finish q t := by
      simp only [Except.map] at hs
      cases hs; rfl
    subst this
    obtain ⟨hI, hle⟩ := seekLoop_inv (LInv prog t) (adv_linv prog t) fuel _ _ (inv_start prog p h t) hl
    exact ⟨final_inv prog H short t htH q hI hle, rfl⟩

end

/-- what a caller sees: colour, pyro mask, ended flag -/
def obs3 (e : Exec) : Color × Nat × Bool := (e.color, e.pyro, e.ended)

section
variable (prog : Bytes)

/-- `t` is not the start instant of a command of the running program (wake-ups after the end are no command starts) -/
def NotInstant (t : Nat) : Prop := ∀ k, liveUpTo prog (k + 1) → (chain prog k).next ≠ t

/-- the same, asked only of the chain points that start by the horizon `H` -/
def NotInstantUpTo (H t : Nat) : Prop := ∀ k, liveUpTo prog (k + 1) → (chain prog k).current ≤ H → (chain prog k).next ≠ t

theorem NotInstant.upTo {prog : Bytes} {t : Nat} (h : NotInstant prog t) (H : Nat) : NotInstantUpTo prog H t :=
  fun k hl _ => h k hl

theorem live_strict {prog : Bytes} {H t k : Nat} (hni : NotInstantUpTo prog H t) (htH : t ≤ H) (hk : 1 ≤ k) (hl : liveUpTo prog (k + 1))
    (h1 : (chain prog k).current ≤ t) (h2 : t ≤ (chain prog k).next) :
    (chain prog k).current < t ∧ t < (chain prog k).next := by
  obtain ⟨j, rfl⟩ : ∃ j, k = j + 1 := ⟨k - 1, by omega⟩
  have a := hni (j + 1) hl (le_trans h1 htH)
  have hjc : (chain prog j).current ≤ H := by
    by_cases hj0 : j = 0
    · subst hj0; exact Nat.zero_le _
    · have G := chain_good prog j (by omega) (hl.mono (by omega))
      have h3 := G.t.le
      rw [← G.next_eq] at h3
      rw [chain_current] at h1
      omega
  have b := hni j (hl.mono (by omega)) hjc
  rw [chain_current] at h1 ⊢
  omega

/-- **two players that satisfy the invariant at the same timestamp, which is not a start instant, look the same** -/
theorem inv_unique (H : Nat) (r r' : Player) (t : Nat) (htH : t ≤ H) (h : Inv prog r) (h' : Inv prog r') (ht : r.current = t)
    (ht' : r'.current = t) (hni : NotInstantUpTo prog H t) : obs3 r.exec = obs3 r'.exec := by
  have h0 : t ≠ 0 := fun h0 => hni 0 (fun i h1 h2 => by omega) (Nat.zero_le _) (by rw [chain0_next, h0])
  rcases h with ⟨hc, _, _⟩ | ⟨k, hk, hl, hs, hn, hc1, hc2, hc3, hcol⟩ | ⟨m, hm, hl, he, hd, hc⟩
  · omega
  · rw [ht] at hc1 hc2 hcol
    obtain ⟨b1, b2⟩ := live_strict hni htH hk hl hc1 hc2
    rcases h' with ⟨hc', _, _⟩ | ⟨k', hk', hl', hs', hn', hc1', hc2', hc3', hcol'⟩ | ⟨m', hm', hl', he', hd', hc'⟩
    · omega
    · rw [ht'] at hc1' hc2' hcol'
      obtain ⟨b1', b2'⟩ := live_strict hni htH hk' hl' hc1' hc2'
      have hkk : k = k' := by
        rcases Nat.lt_trichotomy k k' with hlt | heq | hgt
        · have := chain_next_le_current prog k k' hlt (hl'.mono (by omega)); omega
        · exact heq
        · have := chain_next_le_current prog k' k hgt (hl.mono (by omega)); omega
      subst hkk
      unfold obs3
      rw [hcol, hcol', hs.pyro, hs'.pyro, hs.ended, hs'.ended]
    · rw [ht'] at hc'
      have hkm : k < m' := by
        by_contra hge
        have := hl m' hm' (by omega)
        rw [this] at he'
        exact absurd he' (by decide)
      have := chain_next_le_current prog k m' hkm hl'
      omega
  · rw [ht] at hc
    rcases h' with ⟨hc', _, _⟩ | ⟨k', hk', hl', hs', hn', hc1', hc2', hc3', hcol'⟩ | ⟨m', hm', hl', he', hd', hc'⟩
    · omega
    · rw [ht'] at hc1' hc2'
      obtain ⟨b1', b2'⟩ := live_strict hni htH hk' hl' hc1' hc2'
      have hkm : k' < m := by
        by_contra hge
        have := hl' m hm (by omega)
        rw [this] at he
        exact absurd he (by decide)
      have := chain_next_le_current prog k' m hkm hl
      omega
    · have hmm : m = m' := by
        rcases Nat.lt_trichotomy m m' with hlt | heq | hgt
        · have := hl' m hm hlt; rw [this] at he; exact absurd he (by decide)
        · exact heq
        · have := hl m' hm' hgt; rw [this] at he'; exact absurd he' (by decide)
      subst hmm
      unfold obs3
      rw [hd.color, hd'.color, hd.pyro, hd'.pyro, hd.ended, hd'.ended]

end

end Sb.Proofs.Light
