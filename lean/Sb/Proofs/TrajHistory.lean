/-
C08 for the trajectory player: after any history of queries the cursor is a chain element (up to
its derivative caches, which stay coherent), and answers at non-boundary instants equal a fresh
player's answers.
-/
import Sb.Proofs.TrajCursor

namespace Sb.Proofs
open Sb Sb.Poly Sb.Traj

def clearCache (s : Seg) : Seg := { s with dpoly := none, ddpoly := none }

/-- the derivative polynomials as computed from scratch -/
def dOf (s : Seg) : Poly4 := (getDpoly (clearCache s)).2
def ddOf (s : Seg) : Poly4 := (getDdpoly (clearCache s)).2

/-- cached derivative polynomials, when present, are the ones computed from scratch -/
def Coh (s : Seg) : Prop :=
  (s.dpoly = none ∨ s.dpoly = some (dOf s)) ∧ (s.ddpoly = none ∨ s.ddpoly = some (ddOf s))

theorem clear_of_built {sec tr s} (h : Built sec tr s) : clearCache s = s := by
  obtain ⟨h1, h2⟩ := h.cacheEmpty
  cases s; simp_all [clearCache]

theorem coh_of_built {sec tr s} (h : Built sec tr s) : Coh s := by
  obtain ⟨h1, h2⟩ := h.cacheEmpty
  exact ⟨Or.inl h1, Or.inl h2⟩

theorem chain_clear (sec : Nat → Rat) (tr : Traj) (k : Nat) :
    clearCache ((trajCur sec tr).chain k) = (trajCur sec tr).chain k := clear_of_built (chain_built sec tr k)

theorem nxt_clear (sec : Nat → Rat) (tr : Traj) (s : Seg) :
    (trajCur sec tr).nxt (clearCache s) = (trajCur sec tr).nxt s := rfl

theorem st_clear (sec : Nat → Rat) (tr : Traj) (s : Seg) :
    (trajCur sec tr).st (clearCache s) = (trajCur sec tr).st s := rfl
theorem en_clear (sec : Nat → Rat) (tr : Traj) (s : Seg) :
    (trajCur sec tr).en (clearCache s) = (trajCur sec tr).en s := rfl

/-- the invariant of a player's cursor: a chain element up to coherent caches -/
def CurInv (sec : Nat → Rat) (tr : Traj) (N : Nat) (s : Seg) : Prop :=
  ∃ j, j ≤ N ∧ clearCache s = (trajCur sec tr).chain j ∧ Coh s

/-- seeking from a state satisfying the invariant lands (up to caches) where seeking from the
corresponding chain element lands, and the invariant is preserved -/
theorem cseek_from_inv (sec : Nat → Rat) (tr : Traj) (N : Nat) (T : Tiling0 (trajCur sec tr) N)
    (t : QTime) (ht : t.valid) (fuel : Nat) (hf : N + 2 ≤ fuel) (s : Seg) (j : Nat) (hj : j ≤ N)
    (hs : clearCache s = (trajCur sec tr).chain j) (hc : Coh s) :
    ∃ s' k, k ≤ N ∧ cseek (trajCur sec tr) t fuel s = some s' ∧
      cseek (trajCur sec tr) t fuel ((trajCur sec tr).chain j) = some ((trajCur sec tr).chain k) ∧
      clearCache s' = (trajCur sec tr).chain k ∧ Coh s' := by
  obtain ⟨k, hk, hland, _⟩ := cseek_lands (trajCur sec tr) N T t ht j fuel hj hf
  rcases cseek_congr (trajCur sec tr) t clearCache (st_clear sec tr) (en_clear sec tr) (nxt_clear sec tr) fuel s
    with h | ⟨h1, h2⟩
  · rw [hs, hland] at h
    exact ⟨_, k, hk, h.symm, hland, chain_clear sec tr k, coh_of_built (chain_built sec tr k)⟩
  · rw [hs, hland] at h2
    injection h2 with h2
    refine ⟨s, k, hk, h1, hland, ?_, hc⟩
    rw [hs, h2]

theorem getDpoly_coh (s : Seg) (hc : Coh s) :
    (getDpoly s).2 = dOf s ∧ clearCache (getDpoly s).1 = clearCache s ∧ Coh (getDpoly s).1 := by
  unfold getDpoly
  cases hd : s.dpoly with
  | some d0 =>
    rcases hc.1 with h | h
    · rw [hd] at h; cases h
    · rw [hd] at h; injection h with h
      exact ⟨h, rfl, hc⟩
  | none =>
    simp only
    refine ⟨rfl, rfl, ?_⟩
    constructor
    · right; rfl
    · rcases hc.2 with h | h
      · left; exact h
      · right; exact h

theorem dOf_congr {a b : Seg} (h : clearCache a = clearCache b) : dOf a = dOf b := by
  unfold dOf; rw [h]
theorem ddOf_congr {a b : Seg} (h : clearCache a = clearCache b) : ddOf a = ddOf b := by
  unfold ddOf; rw [h]

theorem clear_set_dd (s : Seg) (d : Option Poly4) : clearCache { s with ddpoly := d } = clearCache s := rfl

/-- the second derivative from scratch, in terms of the first -/
theorem ddOf_eq (s : Seg) :
    ddOf s = (match s.durSec with
      | some dur => if absR dur > 1 / 1000000 then (dOf s).deriv.scale (1 / dur) else (dOf s).deriv
      | none => (dOf s).deriv.scale 0) := rfl

theorem getDdpoly_coh (s : Seg) (hc : Coh s) :
    (getDdpoly s).2 = ddOf s ∧ clearCache (getDdpoly s).1 = clearCache s ∧ Coh (getDdpoly s).1 := by
  obtain ⟨h1, h2, h3⟩ := getDpoly_coh s hc
  cases hd : s.ddpoly with
  | some d0 =>
    have : getDdpoly s = (s, d0) := by unfold getDdpoly; rw [hd]
    rw [this]
    rcases hc.2 with h | h
    · rw [hd] at h; cases h
    · rw [hd] at h; injection h with h
      exact ⟨h, rfl, hc⟩
  | none =>
    have hg : getDdpoly s =
        ({ (getDpoly s).1 with ddpoly := some (ddOf s) }, ddOf s) := by
      unfold getDdpoly
      rw [hd]
      simp only
      rw [ddOf_eq, ← h1]
      rfl
    rw [hg]
    refine ⟨rfl, ?_, ?_⟩
    · rw [clear_set_dd]; exact h2
    · constructor
      · have e : dOf { (getDpoly s).1 with ddpoly := some (ddOf s) } = dOf (getDpoly s).1 :=
          dOf_congr (clear_set_dd _ _)
        rcases h3.1 with h | h
        · left; exact h
        · right; rw [e]; exact h
      · right
        have e : ddOf { (getDpoly s).1 with ddpoly := some (ddOf s) } = ddOf s :=
          ddOf_congr (by rw [clear_set_dd]; exact h2)
        rw [e]

/-- the duration loop walks the chain to its terminal element and never runs out of fuel -/
theorem durLoop_chain (sec : Nat → Rat) (tr : Traj) (N : Nat)
    (hterm : ((trajCur sec tr).chain N).length = 0)
    (hmin : ∀ k, k < N → ((trajCur sec tr).chain k).length ≠ 0) :
    ∀ (d j fuel acc : Nat), j + d = N → d < fuel →
      ∃ total, durLoop sec fuel ⟨tr, (trajCur sec tr).chain j⟩ acc = .ok (⟨tr, (trajCur sec tr).chain N⟩, total) := by
  intro d
  induction d with
  | zero =>
    intro j fuel acc hj hf
    have : j = N := by omega
    subst this
    obtain ⟨f, rfl⟩ : ∃ f, fuel = f + 1 := ⟨fuel - 1, by omega⟩
    exact ⟨acc, by simp [durLoop, Player.hasMore, hterm]⟩
  | succ d ih =>
    intro j fuel acc hj hf
    obtain ⟨f, rfl⟩ : ∃ f, fuel = f + 1 := ⟨fuel - 1, by omega⟩
    have hne := hmin j (by omega)
    have hpos : ((trajCur sec tr).chain j).length > 0 := by omega
    obtain ⟨total, ht⟩ := ih (j + 1) f (u32 (acc + ((trajCur sec tr).chain j).durMs)) (by omega) (by omega)
    refine ⟨total, ?_⟩
    simp only [durLoop, Player.hasMore, hpos, decide_true, if_true, next_eq, bind, Except.bind]
    exact ht

end Sb.Proofs
