/-
GF(2)-linear algebra of the CRC register, for the detection claims of C05:
linearity in (register, message), injectivity of the bit step, bursts of at most 32 bits.
-/
import Sb.Proofs.Crc

namespace Sb.Proofs
open Sb Sb.Spec

/-- bytewise xor of two byte strings (the "error pattern" view of a corruption) -/
def xorBytes (a b : Bytes) : Bytes := List.zipWith (· ^^^ ·) a b

def zeros (n : Nat) : Bytes := List.replicate n 0

theorem crcByte_xor (a b : BitVec 32) (x y : UInt8) :
    crcByte (a ^^^ b) (x ^^^ y) = crcByte a x ^^^ crcByte b y := by
  unfold crcByte
  rw [UInt8.toNat_xor, BitVec.ofNat_xor, ← step8_xor]
  congr 1
  ac_rfl

/-- the register is linear in (initial value, message) jointly -/
theorem crc_linear (xs ys : Bytes) (h : xs.length = ys.length) (a b : BitVec 32) :
    crc (a ^^^ b) (xorBytes xs ys) = crc a xs ^^^ crc b ys := by
  induction xs generalizing ys a b with
  | nil =>
    cases ys with
    | nil => simp [crc, xorBytes]
    | cons y ys => simp at h
  | cons x xs ih =>
    cases ys with
    | nil => simp at h
    | cons y ys =>
      simp only [List.length_cons, Nat.add_right_cancel_iff] at h
      simp only [crc, xorBytes, List.zipWith_cons_cons, List.foldl_cons, crcByte_xor]
      exact ih ys h _ _

theorem step1_zero : step1 0 = 0 := by decide
theorem step8_zero : step8 0 = 0 := by decide

/-- the bit step has trivial kernel (the polynomial has its top coefficient set) -/
theorem step1_eq_zero (x : BitVec 32) (h : step1 x = 0) : x = 0 := by
  unfold step1 at h
  by_cases hl : x.getLsbD 0 = true
  · rw [if_pos hl] at h
    exfalso
    have h31 : (x >>> 1 ^^^ poly).getLsbD 31 = (0#32).getLsbD 31 := by rw [h]; rfl
    rw [BitVec.getLsbD_xor, BitVec.getLsbD_ushiftRight] at h31
    have hp : poly.getLsbD 31 = true := by decide
    have hx : x.getLsbD (1 + 31) = false := BitVec.getLsbD_of_ge _ _ (by omega)
    have hz : (0#32).getLsbD 31 = false := by decide
    rw [hp, hx, hz] at h31
    exact absurd h31 (by decide)
  · rw [if_neg hl] at h
    apply BitVec.eq_of_getLsbD_eq
    intro i hi
    have hz : (0 : BitVec 32).getLsbD i = false := BitVec.getLsbD_zero
    rw [hz]
    cases i with
    | zero => simpa using hl
    | succ j =>
      have hj : (x >>> 1).getLsbD j = (0#32).getLsbD j := by rw [h]; rfl
      rw [BitVec.getLsbD_ushiftRight, Nat.add_comm] at hj
      rw [hj]; exact BitVec.getLsbD_zero

theorem step8_eq_zero (x : BitVec 32) (h : step8 x = 0) : x = 0 := by
  unfold step8 at h
  exact step1_eq_zero _ (step1_eq_zero _ (step1_eq_zero _ (step1_eq_zero _
    (step1_eq_zero _ (step1_eq_zero _ (step1_eq_zero _ (step1_eq_zero _ h)))))))

/-- feeding zero bytes keeps a non-zero register non-zero, and a zero register zero -/
theorem crc_zeros_ne (c : BitVec 32) (n : Nat) (h : c ≠ 0) : crc c (zeros n) ≠ 0 := by
  induction n generalizing c with
  | zero => simpa [crc, zeros] using h
  | succ n ih =>
    simp only [crc, zeros, List.replicate_succ, List.foldl_cons]
    apply ih
    intro hz
    apply h
    unfold crcByte at hz
    have := step8_eq_zero _ hz
    simpa using this

theorem crc_zeros_zero (n : Nat) : crc 0 (zeros n) = 0 := by
  induction n with
  | zero => rfl
  | succ n ih =>
    simp only [crc, zeros, List.replicate_succ, List.foldl_cons]
    have : crcByte 0 0 = 0 := by decide
    rw [this]; exact ih

theorem crc_append (c : BitVec 32) (xs ys : Bytes) : crc c (xs ++ ys) = crc (crc c xs) ys := by
  unfold crc; rw [List.foldl_append]

end Sb.Proofs
