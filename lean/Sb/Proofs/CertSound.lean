/-
What a successful certificate check (`Sb/Corr/Cert.lean`) means over the real numbers.

The judges of C13 / C14 / C15 / C18 consult a real-root oracle.  Its search part (Sturm sequences, bisection)
is not proven; its *answers* are accepted only together with certificates, and this file proves the
certificate checkers sound:

* `pos_sound`    : `posCheck q A ps B = true` → `0 < q(x)` for every real `x` between `A` and `B`;
* `root_sound`   : `RootCert.ok p c = true`   → `p` has a real root in `[c.lo, c.hi]` (intermediate value theorem
                   on a factor `s` with `p = s·g` checked coefficient by coefficient);
* `segs_cover`   : `segsOK p A segs B = true` → every real `x` between `A` and `B` lies in a stretch where `σ·p > 0`
                   is certified or in one of the root intervals; `segs_roots` : every root interval contains a root;
* the answers of `Sb/Corr/CertOracle.lean` : `reachesCert_true/false`, `hasRootCert_true/false`,
  `partition_complete`, `partition_sound`.

`evalR p x` is the value of the coefficient list `p` at the real `x`; on rationals it is the model's `Poly.eval`
(`evalR_cast`).
-/
import Mathlib.Tactic.Ring
import Mathlib.Tactic.Linarith
import Mathlib.Tactic.Positivity
import Mathlib.Tactic.NormNum
import Mathlib.Data.Rat.Cast.Order
import Mathlib.Data.Real.Basic
import Mathlib.Topology.Order.IntermediateValue
import Mathlib.Topology.Algebra.Polynomial
import Sb.Corr.CertOracle

namespace Sb.Corr.Cert
open Sb Sb.Corr.Sturm

noncomputable def evalR (p : P) (x : ℝ) : ℝ := p.foldr (fun c acc => acc * x + (c : ℝ)) 0

@[simp] theorem evalR_nil (x : ℝ) : evalR [] x = 0 := rfl
@[simp] theorem evalR_cons (c : Rat) (p : P) (x : ℝ) : evalR (c :: p) x = evalR p x * x + (c : ℝ) := rfl

theorem evalR_cast (p : P) (t : Rat) : evalR p (t : ℝ) = ((eval p t : Rat) : ℝ) := by
  induction p with
  | nil => simp [eval, Poly.eval]
  | cons c p ih =>
    have : eval (c :: p) t = eval p t * t + c := rfl
    rw [this, evalR_cons, ih]
    push_cast
    ring

theorem evalR_continuous (p : P) : Continuous (evalR p) := by
  induction p with
  | nil => exact continuous_const
  | cons c p ih =>
    have : evalR (c :: p) = fun x => evalR p x * x + (c : ℝ) := rfl
    rw [this]
    exact (ih.mul continuous_id).add continuous_const

theorem evalR_addP : ∀ (p q : P) (x : ℝ), evalR (addP p q) x = evalR p x + evalR q x
  | [], q, x => by simp [addP]
  | a :: p, [], x => by simp [addP]
  | a :: p, b :: q, x => by
    simp only [addP, evalR_cons, evalR_addP p q x]
    push_cast
    ring

theorem evalR_scaleP (k : Rat) (p : P) (x : ℝ) : evalR (scaleP k p) x = (k : ℝ) * evalR p x := by
  induction p with
  | nil => simp [scaleP]
  | cons c p ih =>
    have : scaleP k (c :: p) = (k * c) :: scaleP k p := rfl
    rw [this, evalR_cons, ih, evalR_cons]
    push_cast
    ring

theorem evalR_neg (p : P) (x : ℝ) : evalR (neg p) x = - evalR p x := by
  induction p with
  | nil => simp [neg]
  | cons c p ih =>
    have : neg (c :: p) = (-c) :: neg p := rfl
    rw [this, evalR_cons, ih, evalR_cons]
    push_cast
    ring

theorem evalR_mulP : ∀ (p q : P) (x : ℝ), evalR (mulP p q) x = evalR p x * evalR q x
  | [], q, x => by simp [mulP]
  | a :: p, q, x => by
    simp only [mulP, evalR_addP, evalR_scaleP, evalR_cons, evalR_mulP p q x]
    push_cast
    ring

theorem evalR_powP (p : P) (n : Nat) (x : ℝ) : evalR (powP p n) x = (evalR p x) ^ n := by
  induction n with
  | zero => simp [powP]
  | succ n ih => simp only [powP, evalR_mulP, ih]; ring

theorem evalR_allZero : ∀ (p : P), allZero p = true → ∀ x : ℝ, evalR p x = 0
  | [], _, _ => rfl
  | c :: p, h, x => by
    simp only [allZero, Bool.and_eq_true, beq_iff_eq] at h
    simp [evalR_allZero p h.2 x, h.1]

theorem evalR_eqP : ∀ (p q : P), eqP p q = true → ∀ x : ℝ, evalR p x = evalR q x
  | [], q, h, x => by
    simp only [eqP] at h
    simp [evalR_allZero q h x]
  | a :: p, [], h, x => by
    simp only [eqP, Bool.and_eq_true, beq_iff_eq] at h
    simp [evalR_allZero p h.2 x, h.1]
  | a :: p, b :: q, h, x => by
    simp only [eqP, Bool.and_eq_true, beq_iff_eq] at h
    simp [evalR_eqP p q h.2 x, h.1]

theorem evalR_term (a b : Rat) (t : Rat × Nat × Nat) (x : ℝ) :
    evalR (term a b t) x = (t.1 : ℝ) * ((x - a) ^ t.2.1 * ((b : ℝ) - x) ^ t.2.2) := by
  simp only [term, evalR_scaleP, evalR_mulP, evalR_powP, evalR_cons, evalR_nil]
  push_cast
  ring

/-! ### Regions -/

/-- `x` is at or above the lower bound `A` (`none` = no bound) -/
def InLo (A : Option Rat) (x : ℝ) : Prop := ∀ a, A = some a → (a : ℝ) ≤ x
/-- `x` is at or below the upper bound `B` -/
def InHi (B : Option Rat) (x : ℝ) : Prop := ∀ b, B = some b → x ≤ (b : ℝ)

theorem leLo_sound {l A : Option Rat} {x : ℝ} (h : leLo l A = true) (hx : InLo A x) : InLo l x := by
  intro a ha
  subst ha
  cases A with
  | none => simp [leLo] at h
  | some a' =>
    simp only [leLo, decide_eq_true_eq] at h
    have := hx a' rfl
    have h' : (a : ℝ) ≤ (a' : ℝ) := by exact_mod_cast h
    linarith

theorem geHi_sound {u B : Option Rat} {x : ℝ} (h : geHi u B = true) (hx : InHi B x) : InHi u x := by
  intro b hb
  subst hb
  cases B with
  | none => simp [geHi] at h
  | some b' =>
    simp only [geHi, decide_eq_true_eq] at h
    have := hx b' rfl
    have h' : (b' : ℝ) ≤ (b : ℝ) := by exact_mod_cast h
    linarith

/-! ### Positivity pieces -/

theorem term_nonneg (pc : Piece) (t : Rat × Nat × Nat) (ht : termOK pc t = true) (x : ℝ)
    (hl : InLo pc.lo x) (hh : InHi pc.hi x) : 0 ≤ evalR (term pc.a pc.b t) x := by
  simp only [termOK, Bool.and_eq_true, decide_eq_true_eq, Bool.or_eq_true, beq_iff_eq] at ht
  obtain ⟨⟨hc, hi⟩, hj⟩ := ht
  rw [evalR_term]
  have hc' : (0 : ℝ) ≤ (t.1 : ℝ) := by exact_mod_cast hc
  have h1 : (0 : ℝ) ≤ (x - (pc.a : ℝ)) ^ t.2.1 := by
    rcases hi with hi | hi
    · obtain ⟨a, ha⟩ := Option.isSome_iff_exists.mp hi
      have := hl a ha
      have e : pc.a = a := by simp [Piece.a, ha]
      rw [e]
      exact pow_nonneg (by linarith) _
    · rw [hi]; simp
  have h2 : (0 : ℝ) ≤ ((pc.b : ℝ) - x) ^ t.2.2 := by
    rcases hj with hj | hj
    · obtain ⟨b, hb⟩ := Option.isSome_iff_exists.mp hj
      have := hh b hb
      have e : pc.b = b := by simp [Piece.b, hb]
      rw [e]
      exact pow_nonneg (by linarith) _
    · rw [hj]; simp
  positivity

theorem sumTerms_nonneg (pc : Piece) (x : ℝ) (hl : InLo pc.lo x) (hh : InHi pc.hi x) :
    ∀ ts : List (Rat × Nat × Nat), ts.all (termOK pc) = true → 0 ≤ evalR (sumTerms pc.a pc.b ts) x
  | [], _ => by simp [sumTerms]
  | t :: ts, h => by
    simp only [List.all_cons, Bool.and_eq_true] at h
    have : sumTerms pc.a pc.b (t :: ts) = addP (term pc.a pc.b t) (sumTerms pc.a pc.b ts) := rfl
    rw [this, evalR_addP]
    have := term_nonneg pc t h.1 x hl hh
    have := sumTerms_nonneg pc x hl hh ts h.2
    linarith

/-- a valid piece: `q ≥ δ > 0` on the piece's interval -/
theorem piece_pos (q : P) (pc : Piece) (h : pc.ok q = true) (x : ℝ) (hl : InLo pc.lo x) (hh : InHi pc.hi x) :
    0 < evalR q x := by
  simp only [Piece.ok, Bool.and_eq_true, decide_eq_true_eq] at h
  obtain ⟨⟨hd, hts⟩, heq⟩ := h
  have e := evalR_eqP _ _ heq x
  rw [evalR_addP] at e
  have := sumTerms_nonneg pc x hl hh pc.ts hts
  have hd' : (0 : ℝ) < (pc.delta : ℝ) := by exact_mod_cast hd
  simp only [evalR_cons, evalR_nil] at e
  linarith

theorem chain_cover : ∀ (ps : List Piece) (A B : Option Rat) (x : ℝ), chainOK A ps B = true → InLo A x → InHi B x →
    ∃ pc ∈ ps, InLo pc.lo x ∧ InHi pc.hi x
  | [], _, _, _, h, _, _ => by simp [chainOK] at h
  | [pc], A, B, x, h, hl, hh => by
    simp only [chainOK, Bool.and_eq_true] at h
    exact ⟨pc, by simp, leLo_sound h.1 hl, geHi_sound h.2 hh⟩
  | pc :: pc' :: rest, A, B, x, h, hl, hh => by
    simp only [chainOK, Bool.and_eq_true] at h
    by_cases hx : InHi pc.hi x
    · exact ⟨pc, by simp, leLo_sound h.1 hl, hx⟩
    · cases hpc : pc.hi with
      | none => exact absurd (fun b hb => by rw [hpc] at hb; cases hb) hx
      | some u =>
        have h2 := h.2
        rw [hpc] at h2
        have hux : (u : ℝ) ≤ x := by
          by_contra hcon
          apply hx
          intro b hb
          rw [hpc] at hb
          cases hb
          linarith
        obtain ⟨pc2, hm, h3⟩ := chain_cover (pc' :: rest) (some u) B x h2
          (fun a ha => by cases ha; exact hux) hh
        exact ⟨pc2, List.mem_cons_of_mem _ hm, h3⟩

/-- **Soundness of the positivity check**: `q` is positive at every real point of the region -/
theorem pos_sound (q : P) (A B : Option Rat) (ps : List Piece) (h : posCheck q A ps B = true) (x : ℝ)
    (hl : InLo A x) (hh : InHi B x) : 0 < evalR q x := by
  simp only [posCheck, Bool.and_eq_true] at h
  obtain ⟨pc, hm, h1, h2⟩ := chain_cover ps A B x h.1 hl hh
  exact piece_pos q pc (List.all_eq_true.mp h.2 pc hm) x h1 h2

/-! ### Root certificates -/

/-- **Soundness of the root certificate**: a real root of `p` between the two rational end points -/
theorem root_sound (p : P) (c : RootCert) (h : c.ok p = true) :
    ∃ x : ℝ, (c.lo : ℝ) ≤ x ∧ x ≤ (c.hi : ℝ) ∧ evalR p x = 0 := by
  simp only [RootCert.ok, Bool.and_eq_true, decide_eq_true_eq] at h
  obtain ⟨⟨hle, heq⟩, hs⟩ := h
  have hle' : (c.lo : ℝ) ≤ (c.hi : ℝ) := by exact_mod_cast hle
  have hs' : evalR c.s (c.lo : ℝ) * evalR c.s (c.hi : ℝ) ≤ 0 := by
    rw [evalR_cast, evalR_cast]
    exact_mod_cast hs
  have hcont : ContinuousOn (evalR c.s) (Set.Icc (c.lo : ℝ) (c.hi : ℝ)) := (evalR_continuous c.s).continuousOn
  have hroot : ∃ x ∈ Set.Icc (c.lo : ℝ) (c.hi : ℝ), evalR c.s x = 0 := by
    rcases mul_nonpos_iff.mp hs' with ⟨h1, h2⟩ | ⟨h1, h2⟩
    · have := intermediate_value_Icc' hle' hcont
      exact this ⟨h2, h1⟩
    · have := intermediate_value_Icc hle' hcont
      exact this ⟨h1, h2⟩
  obtain ⟨x, ⟨hx1, hx2⟩, hx⟩ := hroot
  refine ⟨x, hx1, hx2, ?_⟩
  rw [← evalR_eqP _ _ heq x, evalR_mulP, hx, zero_mul]

/-! ### Partitions -/

/-- the point `x` is accounted for by the partition -/
def Covered (p : P) (segs : List Seg) (x : ℝ) : Prop :=
  (∃ sigma ps hi, Seg.gap sigma ps hi ∈ segs ∧ (sigma = 1 ∨ sigma = -1) ∧ 0 < (sigma : ℝ) * evalR p x) ∨
  (∃ lo hi c, Seg.root lo hi c ∈ segs ∧ (lo : ℝ) ≤ x ∧ x ≤ (hi : ℝ))

theorem Covered.cons {p : P} {s : Seg} {segs : List Seg} {x : ℝ} (h : Covered p segs x) : Covered p (s :: segs) x := by
  rcases h with ⟨sg, ps, hi, hm, h1, h2⟩ | ⟨lo, hi, c, hm, h1, h2⟩
  · exact Or.inl ⟨sg, ps, hi, List.mem_cons_of_mem _ hm, h1, h2⟩
  · exact Or.inr ⟨lo, hi, c, List.mem_cons_of_mem _ hm, h1, h2⟩

/-- covering, for points strictly beyond the frontier -/
theorem segs_cover_strict (p : P) : ∀ (segs : List Seg) (A B : Option Rat) (x : ℝ), segsOK p A segs B = true →
    (∀ a, A = some a → (a : ℝ) < x) → InHi B x → Covered p segs x
  | [], A, B, x, h, hl, hh => by
    exfalso
    cases A with
    | none => simp [segsOK] at h
    | some a =>
      cases B with
      | none => simp [segsOK] at h
      | some b =>
        simp only [segsOK, decide_eq_true_eq] at h
        have h' : (b : ℝ) ≤ (a : ℝ) := by exact_mod_cast h
        have := hl a rfl
        have := hh b rfl
        linarith
  | .gap sigma ps hi :: rest, A, B, x, h, hl, hh => by
    simp only [segsOK, Bool.and_eq_true, Bool.or_eq_true, beq_iff_eq] at h
    obtain ⟨⟨⟨hsig, hpos⟩, _⟩, hrest⟩ := h
    by_cases hx : InHi hi x
    · refine Or.inl ⟨sigma, ps, hi, by simp, hsig, ?_⟩
      have := pos_sound (scaleP sigma p) A hi ps hpos x (fun a ha => le_of_lt (hl a ha)) hx
      rwa [evalR_scaleP] at this
    · cases hhi : hi with
      | none => exact absurd (fun b hb => by rw [hhi] at hb; cases hb) hx
      | some u =>
        rw [hhi] at hrest
        have hux : (u : ℝ) < x := by
          by_contra hcon
          apply hx
          intro b hb
          rw [hhi] at hb
          cases hb
          linarith
        exact (segs_cover_strict p rest (some u) B x hrest (fun a ha => by cases ha; exact hux) hh).cons
  | .root lo hi c :: rest, A, B, x, h, hl, hh => by
    simp only [segsOK, Bool.and_eq_true, decide_eq_true_eq, beq_iff_eq] at h
    obtain ⟨⟨⟨⟨⟨hA, _⟩, _⟩, _⟩, _⟩, hrest⟩ := h
    by_cases hx : x ≤ (hi : ℝ)
    · exact Or.inr ⟨lo, hi, c, by simp, le_of_lt (hl lo hA), hx⟩
    · exact (segs_cover_strict p rest (some hi) B x hrest (fun a ha => by cases ha; linarith) hh).cons

/-- **Every real point of the region is accounted for** by a non-empty checked partition: it lies in a stretch
where `σ·p > 0` is certified, or in one of the root intervals. -/
theorem segs_cover (p : P) (segs : List Seg) (A B : Option Rat) (x : ℝ) (hne : segs ≠ [])
    (h : segsOK p A segs B = true) (hl : InLo A x) (hh : InHi B x) : Covered p segs x := by
  cases segs with
  | nil => exact absurd rfl hne
  | cons s rest =>
    cases s with
    | gap sigma ps hi =>
      simp only [segsOK, Bool.and_eq_true, Bool.or_eq_true, beq_iff_eq] at h
      obtain ⟨⟨⟨hsig, hpos⟩, _⟩, hrest⟩ := h
      by_cases hx : InHi hi x
      · refine Or.inl ⟨sigma, ps, hi, by simp, hsig, ?_⟩
        have := pos_sound (scaleP sigma p) A hi ps hpos x hl hx
        rwa [evalR_scaleP] at this
      · cases hhi : hi with
        | none => exact absurd (fun b hb => by rw [hhi] at hb; cases hb) hx
        | some u =>
          rw [hhi] at hrest
          have hux : (u : ℝ) < x := by
            by_contra hcon
            apply hx
            intro b hb
            rw [hhi] at hb
            cases hb
            linarith
          exact (segs_cover_strict p rest (some u) B x hrest (fun a ha => by cases ha; exact hux) hh).cons
    | root lo hi c =>
      simp only [segsOK, Bool.and_eq_true, decide_eq_true_eq, beq_iff_eq] at h
      obtain ⟨⟨⟨⟨⟨hA, _⟩, _⟩, _⟩, _⟩, hrest⟩ := h
      by_cases hx : x ≤ (hi : ℝ)
      · exact Or.inr ⟨lo, hi, c, by simp, hl lo hA, hx⟩
      · exact (segs_cover_strict p rest (some hi) B x hrest (fun a ha => by cases ha; linarith) hh).cons

/-- **Every root interval of a checked partition contains a real root**, and that root lies in the region (the
intervals are clipped to it). -/
theorem segs_roots (p : P) : ∀ (segs : List Seg) (A B : Option Rat), segsOK p A segs B = true →
    ∀ lo hi c, Seg.root lo hi c ∈ segs →
      ∃ x : ℝ, (lo : ℝ) ≤ x ∧ x ≤ (hi : ℝ) ∧ InLo A x ∧ InHi B x ∧ evalR p x = 0
  | [], _, _, _, _, _, _, hm => by simp at hm
  | .gap sigma ps hi :: rest, A, B, h, lo, hi', c, hm => by
    simp only [segsOK, Bool.and_eq_true] at h
    simp only [List.mem_cons, reduceCtorEq, false_or] at hm
    cases hhi : hi with
    | none =>
      have h2 := h.2
      rw [hhi] at h2
      simp only [List.isEmpty_iff] at h2
      subst h2
      simp at hm
    | some u =>
      have h2 := h.2
      rw [hhi] at h2
      obtain ⟨x, hx1, hx2, hx3, hx4, hx5⟩ := segs_roots p rest (some u) B h2 lo hi' c hm
      refine ⟨x, hx1, hx2, ?_, hx4, hx5⟩
      intro a ha
      subst ha
      have hf := h.1.2
      rw [hhi] at hf
      simp only [frontLe, decide_eq_true_eq] at hf
      have hf' : (a : ℝ) ≤ (u : ℝ) := by exact_mod_cast hf
      have := hx3 u rfl
      linarith
  | .root lo0 hi0 c0 :: rest, A, B, h, lo, hi, c, hm => by
    simp only [segsOK, Bool.and_eq_true, decide_eq_true_eq, beq_iff_eq] at h
    obtain ⟨⟨⟨⟨⟨hA, h1⟩, h2⟩, hok⟩, hB⟩, hrest⟩ := h
    simp only [List.mem_cons, Seg.root.injEq] at hm
    have hcc : (c0.lo : ℝ) ≤ (c0.hi : ℝ) := by
      have := hok
      simp only [RootCert.ok, Bool.and_eq_true, decide_eq_true_eq] at this
      exact_mod_cast this.1.1
    have h1' : (lo0 : ℝ) ≤ (c0.lo : ℝ) := by exact_mod_cast h1
    have h2' : (c0.hi : ℝ) ≤ (hi0 : ℝ) := by exact_mod_cast h2
    rcases hm with ⟨rfl, rfl, rfl⟩ | hm
    · obtain ⟨x, hx1, hx2, hx⟩ := root_sound p c hok
      refine ⟨x, by linarith, by linarith, ?_, ?_, hx⟩
      · intro a ha
        rw [hA] at ha
        cases ha
        linarith
      · intro b hb
        subst hb
        simp only [decide_eq_true_eq] at hB
        have : (hi : ℝ) ≤ (b : ℝ) := by exact_mod_cast hB
        linarith
    · obtain ⟨x, hx1, hx2, hx3, hx4, hx5⟩ := segs_roots p rest (some hi0) B hrest lo hi c hm
      refine ⟨x, hx1, hx2, ?_, hx4, hx5⟩
      intro a ha
      rw [hA] at ha
      cases ha
      have := hx3 hi0 rfl
      linarith

/-! ### The answers of `Sb/Corr/CertOracle.lean` -/

theorem partition_ok (p : P) (A B : Option Rat) (segs : List Seg) (h : partition p A B = some segs) :
    segs ≠ [] ∧ segsOK p A segs B = true := by
  unfold partition at h
  split at h
  · cases h
  · simp only at h
    split at h
    · rename_i s hs
      split at h
      · rename_i hc
        cases h
        simp only [Bool.and_eq_true, Bool.not_eq_true', List.isEmpty_eq_false_iff] at hc
        exact hc
      · cases h
    · cases h

/-- a checked partition of the region from `A` to `B`: every real root of `p` in the region lies in one of the root
intervals -/
theorem partition_complete (p : P) (A B : Option Rat) (segs : List Seg) (h : partition p A B = some segs)
    (x : ℝ) (hl : InLo A x) (hh : InHi B x) (hx : evalR p x = 0) :
    ∃ lo hi c, Seg.root lo hi c ∈ segs ∧ (lo : ℝ) ≤ x ∧ x ≤ (hi : ℝ) := by
  obtain ⟨hne, hok⟩ := partition_ok p A B segs h
  rcases segs_cover p segs A B x hne hok hl hh with ⟨sg, ps, hi, _, _, hpos⟩ | hr
  · rw [hx] at hpos
    simp at hpos
  · exact hr

/-- … and every root interval contains a real root of `p` that lies in the region -/
theorem partition_sound (p : P) (A B : Option Rat) (segs : List Seg) (h : partition p A B = some segs)
    (lo hi : Rat) (c : RootCert) (hm : Seg.root lo hi c ∈ segs) :
    ∃ x : ℝ, (lo : ℝ) ≤ x ∧ x ≤ (hi : ℝ) ∧ InLo A x ∧ InHi B x ∧ evalR p x = 0 :=
  segs_roots p segs A B (partition_ok p A B segs h).2 lo hi c hm

theorem rootPoint_mem (lo hi : Rat) (c : RootCert) (h1 : lo ≤ c.lo) (h2 : c.hi ≤ hi) (h3 : c.lo ≤ c.hi) :
    lo ≤ rootPoint lo hi c ∧ rootPoint lo hi c ≤ hi := by
  unfold rootPoint
  have hlh : lo ≤ hi := le_trans h1 (le_trans h3 h2)
  split
  · rename_i he
    exact ⟨h1, by rw [he]; exact h2⟩
  · constructor <;> linarith

theorem evalR_sub_const (p : P) (v : Rat) (x : ℝ) : evalR (addP p [-v]) x = evalR p x - (v : ℝ) := by
  rw [evalR_addP]
  simp only [evalR_cons, evalR_nil]
  push_cast
  ring

theorem any_isRoot {segs : List Seg} (h : segs.any Seg.isRoot = true) : ∃ lo hi c, Seg.root lo hi c ∈ segs := by
  obtain ⟨s, hm, hs⟩ := List.any_eq_true.mp h
  cases s with
  | gap _ _ _ => simp [Seg.isRoot] at hs
  | root lo hi c => exact ⟨lo, hi, c, hm⟩

/-- `reachesCert … = some true` : the level is reached at some real point of the interval -/
theorem reachesCert_true (p : P) (a b v : Rat) (h : reachesCert p a b v = some true) :
    ∃ x : ℝ, (a : ℝ) ≤ x ∧ x ≤ (b : ℝ) ∧ (v : ℝ) ≤ evalR p x := by
  unfold reachesCert at h
  split at h
  · cases h
  · rename_i hab
    have hab' : (a : ℝ) ≤ (b : ℝ) := by
      have : a ≤ b := by simpa using hab
      exact_mod_cast this
    simp only at h
    split at h
    · rename_i hw
      rcases hw with hw | hw
      · refine ⟨a, le_refl _, hab', ?_⟩
        have : (0 : ℝ) ≤ evalR (addP p [-v]) (a : ℝ) := by rw [evalR_cast]; exact_mod_cast hw
        rw [evalR_sub_const] at this
        linarith
      · refine ⟨b, hab', le_refl _, ?_⟩
        have : (0 : ℝ) ≤ evalR (addP p [-v]) (b : ℝ) := by rw [evalR_cast]; exact_mod_cast hw
        rw [evalR_sub_const] at this
        linarith
    · split at h
      · cases h
      · rename_i segs hp
        split at h
        · rename_i hr
          obtain ⟨lo, hi, c, hm⟩ := any_isRoot hr
          obtain ⟨x, _, _, hx3, hx4, hx5⟩ := partition_sound _ _ _ segs hp lo hi c hm
          refine ⟨x, hx3 a rfl, hx4 b rfl, ?_⟩
          rw [evalR_sub_const] at hx5
          linarith
        · split at h <;> cases h

/-- `reachesCert … = some false` : the polynomial stays strictly below the level on the whole interval -/
theorem reachesCert_false (p : P) (a b v : Rat) (h : reachesCert p a b v = some false) :
    ∀ x : ℝ, (a : ℝ) ≤ x → x ≤ (b : ℝ) → evalR p x < (v : ℝ) := by
  intro x hxa hxb
  unfold reachesCert at h
  split at h
  · rename_i hab
    exfalso
    have : (b : ℝ) < (a : ℝ) := by exact_mod_cast hab
    linarith
  · simp only at h
    split at h
    · cases h
    · split at h
      · cases h
      · rename_i segs hp
        split at h
        · cases h
        · split at h
          · rename_i hall
            obtain ⟨hne, hok⟩ := partition_ok _ _ _ segs hp
            rcases segs_cover _ segs _ _ x hne hok (fun a' ha => by cases ha; exact hxa)
                (fun b' hb => by cases hb; exact hxb) with ⟨sg, ps, hi, hm, _, hpos⟩ | ⟨lo, hi, c, hm, _, _⟩
            · have := List.all_eq_true.mp hall _ hm
              simp only [isGapOf, beq_iff_eq] at this
              subst this
              rw [evalR_sub_const] at hpos
              push_cast at hpos
              linarith
            · have := List.all_eq_true.mp hall _ hm
              simp [isGapOf] at this
          · cases h

/-- `hasRootCert … = some true` : a real root in the interval -/
theorem hasRootCert_true (q : P) (a b : Rat) (h : hasRootCert q a b = some true) :
    ∃ x : ℝ, (a : ℝ) ≤ x ∧ x ≤ (b : ℝ) ∧ evalR q x = 0 := by
  unfold hasRootCert at h
  split at h
  · cases h
  · rename_i hab
    have hab' : (a : ℝ) ≤ (b : ℝ) := by
      have : a ≤ b := by simpa using hab
      exact_mod_cast this
    split at h
    · rename_i hw
      rcases hw with hw | hw
      · exact ⟨a, le_refl _, hab', by rw [evalR_cast, hw]; simp⟩
      · exact ⟨b, hab', le_refl _, by rw [evalR_cast, hw]; simp⟩
    · split at h
      · cases h
      · rename_i segs hp
        simp only [Option.some.injEq] at h
        obtain ⟨lo, hi, c, hm⟩ := any_isRoot h
        obtain ⟨x, _, _, hx3, hx4, hx5⟩ := partition_sound _ _ _ segs hp lo hi c hm
        exact ⟨x, hx3 a rfl, hx4 b rfl, hx5⟩

/-- `hasRootCert … = some false` : no real root in the interval -/
theorem hasRootCert_false (q : P) (a b : Rat) (h : hasRootCert q a b = some false) :
    ∀ x : ℝ, (a : ℝ) ≤ x → x ≤ (b : ℝ) → evalR q x ≠ 0 := by
  intro x hxa hxb hx
  unfold hasRootCert at h
  split at h
  · rename_i hab
    have : (b : ℝ) < (a : ℝ) := by exact_mod_cast hab
    linarith
  · split at h
    · cases h
    · split at h
      · cases h
      · rename_i segs hp
        simp only [Option.some.injEq] at h
        obtain ⟨lo, hi, c, hm, _, _⟩ := partition_complete _ _ _ segs hp x (fun a' ha => by cases ha; exact hxa)
          (fun b' hb => by cases hb; exact hxb) hx
        have : segs.any Seg.isRoot = true := List.any_eq_true.mpr ⟨_, hm, rfl⟩
        rw [this] at h
        cases h

/-- the whole line: every real root of `q` lies in a root interval of `rootsCert q`, and each of them holds one -/
theorem rootsCert_complete (q : P) (segs : List Seg) (h : rootsCert q = some segs) (x : ℝ) (hx : evalR q x = 0) :
    ∃ lo hi c, Seg.root lo hi c ∈ segs ∧ (lo : ℝ) ≤ x ∧ x ≤ (hi : ℝ) :=
  partition_complete q none none segs h x (fun _ ha => by cases ha) (fun _ hb => by cases hb) hx

theorem rootsCert_sound (q : P) (segs : List Seg) (h : rootsCert q = some segs) (lo hi : Rat) (c : RootCert)
    (hm : Seg.root lo hi c ∈ segs) : ∃ x : ℝ, (lo : ℝ) ≤ x ∧ x ≤ (hi : ℝ) ∧ evalR q x = 0 := by
  obtain ⟨x, h1, h2, _, _, h5⟩ := partition_sound q none none segs h lo hi c hm
  exact ⟨x, h1, h2, h5⟩

/-! ### Non-vacuity: a hand-written certificate is accepted by the checker (kernel-evaluated), and the theorems
apply to it -/

/-- `x² − 2` on `[0, 2]`: negative on `[0, 1]`, a root in `[1, 3/2]`, positive on `[3/2, 2]` -/
def sqrt2Segs : List Seg :=
  [ .gap (-1) [{ lo := some 0, hi := some 1, delta := 1 / 2, ts := [(3 / 2, 0, 2), (3, 1, 1), (1 / 2, 2, 0)] }] (some 1),
    .root 1 (3 / 2) { lo := 1, hi := 3 / 2, s := [-2, 0, 1], g := [1] },
    .gap 1 [{ lo := some (3 / 2), hi := some 2, delta := 1 / 8, ts := [(1 / 2, 0, 2), (7, 1, 1), (15 / 2, 2, 0)] }] (some 2) ]

theorem sqrt2Segs_ok : segsOK [-2, 0, 1] (some 0) sqrt2Segs (some 2) = true := by decide +kernel

/-- … hence a real square root of two exists in `[1, 3/2]`, and `x² − 2` has no other root in `[0, 2]` -/
example : (∃ x : ℝ, 1 ≤ x ∧ x ≤ 3 / 2 ∧ evalR [-2, 0, 1] x = 0) ∧
    (∀ x : ℝ, 0 ≤ x → x ≤ 2 → evalR [-2, 0, 1] x = 0 → 1 ≤ x ∧ x ≤ 3 / 2) := by
  constructor
  · obtain ⟨x, h1, h2, _, _, h5⟩ := segs_roots [-2, 0, 1] sqrt2Segs (some 0) (some 2) sqrt2Segs_ok 1 (3 / 2)
      { lo := 1, hi := 3 / 2, s := [-2, 0, 1], g := [1] } (by simp [sqrt2Segs])
    refine ⟨x, ?_, ?_, h5⟩
    · simpa using h1
    · have : ((3 / 2 : Rat) : ℝ) = 3 / 2 := by norm_num
      linarith
  · intro x h0 h2 hx
    have hc := segs_cover [-2, 0, 1] sqrt2Segs (some 0) (some 2) x (by simp [sqrt2Segs]) sqrt2Segs_ok
      (fun a ha => by cases ha; simpa using h0) (fun b hb => by cases hb; simpa using h2)
    rcases hc with ⟨sg, ps, hi, _, _, hpos⟩ | ⟨lo, hi, c, hm, h1, h2'⟩
    · rw [hx] at hpos; simp at hpos
    · simp only [sqrt2Segs, List.mem_cons, reduceCtorEq, Seg.root.injEq, List.mem_nil_iff, or_false, false_or] at hm
      obtain ⟨rfl, rfl, _⟩ := hm
      constructor
      · simpa using h1
      · have : ((3 / 2 : Rat) : ℝ) = 3 / 2 := by norm_num
        linarith

/-- an unbounded stretch: `x² − 2 > 0` on `[3/2, ∞)` (all Taylor coefficients at 3/2 are positive) -/
example : ∀ x : ℝ, 3 / 2 ≤ x → 0 < evalR [-2, 0, 1] x := by
  intro x hx
  have h : posCheck [-2, 0, 1] (some (3 / 2))
      [{ lo := some (3 / 2), hi := none, delta := 1 / 8, ts := [(1 / 8, 0, 0), (3, 1, 0), (1, 2, 0)] }] none = true := by
    decide +kernel
  have e : ((3 / 2 : Rat) : ℝ) = 3 / 2 := by norm_num
  exact pos_sound _ _ _ _ h x (fun a ha => by cases ha; linarith) (fun b hb => by cases hb)

end Sb.Corr.Cert
