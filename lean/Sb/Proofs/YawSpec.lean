/-
C10: the yaw player equals the list-level specification (exact arithmetic, `secExact`).
-/
import Sb.Proofs.TrajPosition
import Sb.Model.Yaw
import Sb.Spec.Yaw

namespace Sb.Proofs
open Sb Sb.Traj Sb.Yaw Sb.Spec Sb.Parsing

def termSp (sec : Nat → Rat) (off T : Nat) (y : Int) : Setpoint :=
  { startOff := off, length := 0, startMs := T, endMs := 4294967295, durMs := (4294967295 - T) % 65536,
    startSec := sec T, endSec := none, durSec := none, startYawDdeg := y, changeDdeg := 0, endYawDdeg := y }

def mkSp (sec : Nat → Rat) (off T d : Nat) (y c : Int) : Setpoint :=
  { startOff := off, length := 4, startMs := T, endMs := u32 (T + d), durMs := d,
    startSec := sec T, endSec := some (sec (u32 (T + d))), durSec := some (sec d),
    startYawDdeg := y, changeDdeg := c, endYawDdeg := y + c }

/-- building a setpoint at an offset = taking it from the front of the bytes there -/
theorem buildSetpoint_spec (sec : Nat → Rat) (c : Ctrl) (off T : Nat) (y : Int) (rest : Bytes)
    (hr : c.buf.drop off = rest) (hoff : off ≤ c.buf.length) :
    (decodeDeltas rest = [] ∧ buildSetpoint sec c off T y = .ok (termSp sec off T y)) ∨
    (∃ d0 d1 c0 c1 r, rest = d0 :: d1 :: c0 :: c1 :: r ∧ c.buf.drop (off + 4) = r ∧
      (-2147483648 ≤ y + i16le c0 c1 ∧ y + i16le c0 c1 ≤ 2147483647 →
        buildSetpoint sec c off T y = .ok (mkSp sec off T (d0.toNat + 256 * d1.toNat) y (i16le c0 c1)))) := by
  have hlen : rest.length = c.buf.length - off := by rw [← hr]; simp
  have hsz : Gen.yawSizeOfDelta = 4 := rfl
  unfold buildSetpoint
  rw [hsz]
  rcases rest with _ | ⟨d0, _ | ⟨d1, _ | ⟨c0, _ | ⟨c1, r⟩⟩⟩⟩
  · left; simp at hlen; have : off + 4 > c.buf.length := by omega
    simp [decodeDeltas, this, termSp]
  · left; simp at hlen; have : off + 4 > c.buf.length := by omega
    simp [decodeDeltas, this, termSp]
  · left; simp at hlen; have : off + 4 > c.buf.length := by omega
    simp [decodeDeltas, this, termSp]
  · left; simp at hlen; have : off + 4 > c.buf.length := by omega
    simp [decodeDeltas, this, termSp]
  · right
    simp only [List.length_cons] at hlen
    have hfit : ¬ (off + 4 > c.buf.length) := by omega
    have h2 := parseU16_of_drop c.buf off d0 d1 _ hr
    have h4 : c.buf.drop (off + 2 + 2) = r := (parseU16_of_drop c.buf (off + 2) c0 c1 r h2.2).2
    refine ⟨d0, d1, c0, c1, r, rfl, by rw [show off + 4 = off + 2 + 2 by omega]; exact h4, ?_⟩
    intro hrange
    simp only [hfit, if_false, h2.1, parseI16_of_drop c.buf (off + 2) c0 c1 r h2.2, bind, Except.bind, addI32, hrange,
      and_self, if_true, pure, Except.pure, mkSp]
    congr 2
    omega

def yawVal (sp : Setpoint) (t : QTime) : Rat :=
  (sp.startYawDdeg : Rat) / 10 + (sp.changeDdeg : Rat) / 10 * Yaw.relT sp t

def rateVal (sp : Setpoint) : Option Rat :=
  match sp.durSec with
  | some d => if d = 0 then none else some ((sp.changeDdeg : Rat) / 10 / d)
  | none => some 0

def yawAtSpecQ (deltas : List (Nat × Int)) (y : Int) (T : Nat) : QTime → Rat
  | .fin q => yawAtSpec deltas y T q
  | .pinf => (yawEnd deltas y : Rat) / 10
  | .nan => 0

def rateAtSpecQ (deltas : List (Nat × Int)) (T : Nat) : QTime → Rat
  | .fin q => rateAtSpec deltas T q
  | _ => 0

theorem yaw_seek_spec (c : Ctrl) (t : QTime) (ht : t.valid) :
    ∀ (n : Nat) (rest : Bytes) (off T : Nat) (y : Int) (fuel : Nat),
      c.buf.drop off = rest → off ≤ c.buf.length → rest.length ≤ n →
      (∀ dc, dc ∈ decodeDeltas rest → 1 ≤ dc.1) →
      T + yawTotalMs (decodeDeltas rest) < 4294967296 →
      y.natAbs + yawAbsSum (decodeDeltas rest) ≤ 2147483647 →
      gtQ (secExact T) t = false →
      (decodeDeltas rest).length < fuel →
      ∃ s0 sp, buildSetpoint secExact c off T y = .ok s0 ∧
        Yaw.seekLoop secExact t fuel ⟨c, s0⟩ = .ok ⟨c, sp⟩ ∧
        yawVal sp t = yawAtSpecQ (decodeDeltas rest) y T t ∧
        (∀ q, t = .fin q → rateVal sp = some (rateAtSpec (decodeDeltas rest) T q)) := by
  intro n
  induction n using Nat.strongRecOn with
  | _ n ih =>
    intro rest off T y fuel hr hoff hn hdur hwrap hrange hgt hfuel
    obtain ⟨f, rfl⟩ : ∃ f, fuel = f + 1 := ⟨fuel - 1, by omega⟩
    rcases buildSetpoint_spec secExact c off T y rest hr hoff with ⟨hnil, hb⟩ | ⟨d0, d1, c0, c1, r, hrest, hdrop, hb⟩
    · -- no further setpoint: the terminal one holds the yaw
      refine ⟨_, termSp secExact off T y, hb, ?_, ?_, ?_⟩
      · simp [Yaw.seekLoop, termSp, hgt, endLt]
      · rw [hnil]
        cases t with
        | nan => exact False.elim ht
        | pinf => simp [yawVal, yawAtSpecQ, yawEnd, termSp, Yaw.relT]
        | fin q => simp [yawVal, yawAtSpecQ, yawAtSpec, termSp, Yaw.relT]
      · intro q hq; rw [hnil]; simp [rateVal, termSp, rateAtSpec]
    · subst hrest
      have hdd : decodeDeltas (d0 :: d1 :: c0 :: c1 :: r) =
          (d0.toNat + 256 * d1.toNat, i16le c0 c1) :: decodeDeltas r := rfl
      rw [hdd] at hdur hwrap hrange hfuel ⊢
      generalize hd : d0.toNat + 256 * d1.toNat = d at *
      generalize hc : i16le c0 c1 = ch at *
      have hd1 : 1 ≤ d := hdur (d, ch) (by simp)
      have hw : T + d < 4294967296 := by
        simp only [yawTotalMs, List.map_cons, List.sum_cons] at hwrap; omega
      have hra : y.natAbs + ch.natAbs + yawAbsSum (decodeDeltas r) ≤ 2147483647 := by
        simp only [yawAbsSum, List.map_cons, List.sum_cons] at hrange ⊢; omega
      have hyc : -2147483648 ≤ y + ch ∧ y + ch ≤ 2147483647 := by omega
      have hbs := hb hyc
      have hen : (mkSp secExact off T d y ch).endSec = some (secExact (T + d)) := by
        simp only [mkSp, u32, Nat.mod_eq_of_lt hw]
      have hloop : ∀ m, Yaw.seekLoop secExact t (m + 1) ⟨c, mkSp secExact off T d y ch⟩ =
          if endLt (some (secExact (T + d))) t = true then
            (do let p' ← Yaw.next secExact ⟨c, mkSp secExact off T d y ch⟩; Yaw.seekLoop secExact t m p')
          else .ok ⟨c, mkSp secExact off T d y ch⟩ := by
        intro m
        simp only [Yaw.seekLoop]
        have : (mkSp secExact off T d y ch).startSec = secExact T := rfl
        rw [this, hgt, hen]
        simp
      by_cases hstop : endLt (some (secExact (T + d))) t = false
      · refine ⟨_, mkSp secExact off T d y ch, hbs, ?_, ?_, ?_⟩
        · rw [hloop, hstop]; simp
        · cases t with
          | nan => exact False.elim ht
          | pinf => simp [endLt, ltQ] at hstop
          | fin q =>
            simp only [endLt, ltQ, decide_eq_false_iff_not, not_lt, secExact_eq] at hstop
            simp only [yawAtSpecQ, yawAtSpec]
            rw [if_pos hstop]
            simp only [yawVal, Yaw.relT, mkSp, secExact_eq]
            have hpos : absR ((d : Rat) / 1000) > 1 / 1000000 := by
              unfold absR
              have h1 : (1 : Rat) ≤ (d : Rat) := by exact_mod_cast hd1
              have h2 : ¬ ((d : Rat) / 1000 < 0) := by
                have : (0 : Rat) ≤ (d : Rat) / 1000 := div_nonneg (by linarith) (by norm_num)
                linarith
              rw [if_neg h2]
              have : (1 : Rat) / 1000 ≤ (d : Rat) / 1000 := div_le_div_of_nonneg_right h1 (by norm_num)
              linarith [show (1 : Rat) / 1000000 < 1 / 1000 by norm_num]
            rw [if_pos hpos]
        · intro q hq
          subst hq
          simp only [endLt, ltQ, decide_eq_false_iff_not, not_lt, secExact_eq] at hstop
          simp only [rateAtSpec]
          rw [if_pos hstop]
          simp only [rateVal, mkSp, secExact_eq]
          have hne : ¬ ((d : Rat) / 1000 = 0) := by
            have h1 : (1 : Rat) ≤ (d : Rat) := by exact_mod_cast hd1
            have : (0 : Rat) < (d : Rat) / 1000 := div_pos (by linarith) (by norm_num)
            linarith
          rw [if_neg hne]
      · have hmove : endLt (some (secExact (T + d))) t = true := by simpa using hstop
        have hgt' : gtQ (secExact (T + d)) t = false := by
          cases t with
          | nan => exact False.elim ht
          | pinf => rfl
          | fin q =>
            simp only [endLt, ltQ, decide_eq_true_eq] at hmove
            simp only [gtQ, decide_eq_false_iff_not, not_lt]
            exact le_of_lt hmove
        have hlen : (d0 :: d1 :: c0 :: c1 :: r).length = c.buf.length - off := by rw [← hr]; simp
        simp only [List.length_cons] at hlen hn
        obtain ⟨s1, sp, hb1, hs1, hv, hrate⟩ := ih r.length (by omega) r (off + 4) (T + d) (y + ch) f hdrop (by omega)
          (Nat.le_refl _) (fun dc h => hdur dc (by simp [h]))
          (by simp only [yawTotalMs, List.map_cons, List.sum_cons] at hwrap ⊢; omega)
          (by
            have : (y + ch).natAbs ≤ y.natAbs + ch.natAbs := Int.natAbs_add_le y ch
            omega)
          hgt' (by simp at hfuel; omega)
        refine ⟨_, sp, hbs, ?_, ?_, ?_⟩
        · rw [hloop, hmove]
          simp only [if_true, Yaw.next, mkSp, u32, Nat.mod_eq_of_lt hw, bind, Except.bind]
          rw [hb1]
          exact hs1
        · rw [hv]
          cases t with
          | nan => exact False.elim ht
          | pinf => simp [yawAtSpecQ, yawEnd]
          | fin q =>
            simp only [endLt, ltQ, decide_eq_true_eq, secExact_eq] at hmove
            simp only [yawAtSpecQ, yawAtSpec]
            rw [if_neg (not_le.mpr hmove)]
        · intro q hq
          subst hq
          rw [hrate q rfl]
          simp only [endLt, ltQ, decide_eq_true_eq, secExact_eq] at hmove
          simp only [rateAtSpec]
          rw [if_neg (not_le.mpr hmove)]

end Sb.Proofs
