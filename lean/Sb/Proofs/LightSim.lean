/-
C09 / C02: the light executor reads some of its fields only after it has overwritten them.

`Sim a b` relates two executor states that agree on everything a later `step` can observe:
`cmdStart` is always rewritten before it is read; the colour is recomputed from the fade while a fade is active;
the fade's start time, duration and target are rewritten by the next fade command while no fade is active.
`step_sim` : `step` preserves `Sim`.  This is what makes a rewound player equal to a fresh one and what makes a
query between two wake-ups invisible to later queries.
-/
import Mathlib.Tactic.SplitIfs
import Sb.Model.Lights

namespace Sb.Proofs.Light
open Sb Sb.Lights

structure Sim (a b : Exec) : Prop where
  prog : a.prog = b.prog
  size : a.size = b.size
  pc : a.pc = b.pc
  loops : a.loops = b.loops
  pyro : a.pyro = b.pyro
  ended : a.ended = b.ended
  cumulative : a.cumulative = b.cumulative
  lastReset : a.lastReset = b.lastReset
  nextWakeup : a.nextWakeup = b.nextWakeup
  resetFlag : a.resetFlag = b.resetFlag
  trActive : a.trActive = b.trActive
  startColor : a.startColor = b.startColor
  color : a.trActive = false → a.color = b.color
  fade : a.trActive = true → a.trStart = b.trStart ∧ a.trDuration = b.trDuration ∧ a.endColor = b.endColor

theorem Sim.refl (a : Exec) : Sim a a :=
  ⟨rfl, rfl, rfl, rfl, rfl, rfl, rfl, rfl, rfl, rfl, rfl, rfl, fun _ => rfl, fun _ => ⟨rfl, rfl, rfl⟩⟩

theorem Sim.symm {a b : Exec} (h : Sim a b) : Sim b a :=
  ⟨h.prog.symm, h.size.symm, h.pc.symm, h.loops.symm, h.pyro.symm, h.ended.symm, h.cumulative.symm, h.lastReset.symm,
   h.nextWakeup.symm, h.resetFlag.symm, h.trActive.symm, h.startColor.symm,
   fun hb => (h.color (h.trActive.trans hb)).symm,
   fun hb => let ⟨x, y, z⟩ := h.fade (h.trActive.trans hb); ⟨x.symm, y.symm, z.symm⟩⟩

theorem Sim.trans {a b c : Exec} (h : Sim a b) (g : Sim b c) : Sim a c :=
  ⟨h.prog.trans g.prog, h.size.trans g.size, h.pc.trans g.pc, h.loops.trans g.loops, h.pyro.trans g.pyro,
   h.ended.trans g.ended, h.cumulative.trans g.cumulative, h.lastReset.trans g.lastReset,
   h.nextWakeup.trans g.nextWakeup, h.resetFlag.trans g.resetFlag, h.trActive.trans g.trActive,
   h.startColor.trans g.startColor,
   fun ha => (h.color ha).trans (g.color (h.trActive.symm.trans ha)),
   fun ha =>
     let ⟨x, y, z⟩ := h.fade ha
     let ⟨x', y', z'⟩ := g.fade (h.trActive.symm.trans ha)
     ⟨x.trans x', y.trans y', z.trans z'⟩⟩

/-! ### reading the bytecode touches the program counter only -/

def byteAt (prog : Bytes) (size pc : Nat) : Nat × Nat :=
  if pc < size then
    match prog[pc]? with
    | some b => (b.toNat, pc + 1)
    | none => (0, pc)
  else (Gen.CMD_END, pc)

theorem nextByte_eq (e : Exec) :
    nextByte e = ((byteAt e.prog e.size e.pc).1, { e with pc := (byteAt e.prog e.size e.pc).2 }) := by
  unfold nextByte byteAt
  by_cases hlt : e.pc < e.size
  · rw [if_pos hlt, if_pos hlt]
    generalize e.prog[e.pc]? = o
    cases o <;> rfl
  · rw [if_neg hlt, if_neg hlt]

def varintAt (prog : Bytes) (size : Nat) : Nat → Nat → Nat → Nat → Nat × Nat
  | 0, pc, result, _ => (result, pc)
  | fuel + 1, pc, result, shift =>
    let b := (byteAt prog size pc).1
    let pc1 := (byteAt prog size pc).2
    let rs : Nat × Nat :=
      if shift < 64 then ((result ||| ((b &&& 0x7f) <<< shift)) % W, shift + 7) else (result, shift)
    if b &&& 0x80 ≠ 0 then varintAt prog size fuel pc1 rs.1 rs.2 else (rs.1, pc1)

theorem nextVarintLoop_eq (fuel : Nat) (e : Exec) (result shift : Nat) :
    nextVarintLoop fuel e result shift =
      ((varintAt e.prog e.size fuel e.pc result shift).1, { e with pc := (varintAt e.prog e.size fuel e.pc result shift).2 }) := by
  induction fuel generalizing e result shift with
  | zero => rfl
  | succ fuel ih =>
    unfold nextVarintLoop varintAt
    rw [nextByte_eq]
    simp only
    split
    · rw [ih]
    · rfl

theorem nextVarint_eq (e : Exec) :
    nextVarint e = ((varintAt e.prog e.size (e.size + 2) e.pc 0 0).1,
      { e with pc := (varintAt e.prog e.size (e.size + 2) e.pc 0 0).2 }) := by
  unfold nextVarint
  exact nextVarintLoop_eq _ _ _ _

/-! ### every helper of the executor preserves `Sim` -/

variable {a b : Exec}

theorem nextByte_fst (h : Sim a b) : (nextByte a).1 = (nextByte b).1 := by
  simp [nextByte_eq, h.prog, h.size, h.pc]

theorem nextByte_sim (h : Sim a b) : Sim (nextByte a).2 (nextByte b).2 := by
  obtain ⟨h1, h2, h3, h4, h5, h6, h7, h8, h9, h10, h11, h12, h13, h14⟩ := h
  constructor <;> simp_all [nextByte_eq]

theorem nextByte_cmdStart (e : Exec) : (nextByte e).2.cmdStart = e.cmdStart := by
  simp [nextByte_eq]

theorem handleDelayByte_sim (h : Sim a b) : Sim (handleDelayByte a) (handleDelayByte b) := by
  obtain ⟨h1, h2, h3, h4, h5, h6, h7, h8, h9, h10, h11, h12, h13, h14⟩ := h
  constructor <;>
    simp_all [handleDelayByte, nextVarint_eq, delayUntil, delayUntilAbs, internalToAbs]

/-- the fade progress as a function of the three numbers it reads -/
def progressOf (trStart trDuration clock : Nat) : Rat :=
  if clock < trStart then 0
  else if trDuration = 0 then 1
  else
    let r : Rat := ulToF (clock - trStart) / ulToF trDuration
    if r > 1 then 1 else r

theorem progress_eq (e : Exec) (clock : Nat) : progress e clock = progressOf e.trStart e.trDuration clock := rfl

/-- a fade evaluation followed by the bookkeeping of a finished fade -/
def fadeFinish (e : Exec) : Exec := if e.trActive then e else { e with startColor := e.endColor }

theorem fadeFinish_transitionStep_sim (h : Sim a b) (h1 : a.trStart = b.trStart) (h2 : a.trDuration = b.trDuration)
    (h3 : a.endColor = b.endColor) (t : Nat) :
    Sim (fadeFinish (transitionStep a t)) (fadeFinish (transitionStep b t)) := by
  obtain ⟨g1, g2, g3, g4, g5, g6, g7, g8, g9, g10, g11, g12, g13, g14⟩ := h
  unfold fadeFinish transitionStep
  simp only [progress_eq, h1, h2, h3, g12]
  by_cases hp : progressOf b.trStart b.trDuration t < 1
  · simp only [hp, decide_true, if_true]
    constructor <;> simp_all
  · simp only [hp, decide_false]
    constructor <;> simp_all

theorem handleDelayByte_cmdStart (e : Exec) : (handleDelayByte e).cmdStart = e.cmdStart := by
  simp [handleDelayByte, nextVarint_eq, delayUntil, delayUntilAbs]

theorem handleDelayByte_trActive (e : Exec) : (handleDelayByte e).trActive = e.trActive := by
  simp [handleDelayByte, nextVarint_eq, delayUntil, delayUntilAbs]

theorem fadeTo_eq (e : Exec) (c : Color) :
    fadeTo e c = fadeFinish (transitionStep
      { handleDelayByte e with endColor := c, trStart := (handleDelayByte e).cmdStart,
                               trDuration := subU64 (handleDelayByte e).nextWakeup e.cmdStart, trActive := true } e.cmdStart) := rfl

theorem fadeTo_sim (h : Sim a b) (hc : a.cmdStart = b.cmdStart) (c : Color) : Sim (fadeTo a c) (fadeTo b c) := by
  have hd := handleDelayByte_sim h
  rw [fadeTo_eq, fadeTo_eq, hc]
  apply fadeFinish_transitionStep_sim
  · obtain ⟨g1, g2, g3, g4, g5, g6, g7, g8, g9, g10, g11, g12, g13, g14⟩ := hd
    have c1 := handleDelayByte_cmdStart a
    have c2 := handleDelayByte_cmdStart b
    constructor <;> simp_all
  · simp only [handleDelayByte_cmdStart, hc]
  · simp only [hd.nextWakeup]
  · rfl

theorem setTo_sim (h : Sim a b) (c : Color) : Sim (setTo a c) (setTo b c) := by
  obtain ⟨g1, g2, g3, g4, g5, g6, g7, g8, g9, g10, g11, g12, g13, g14⟩ := handleDelayByte_sim h
  unfold setTo setColorAndResetTransition
  constructor <;> simp_all

theorem loopBegin_sim (h : Sim a b) (loc iters : Nat) : Sim (loopBegin a loc iters) (loopBegin b loc iters) := by
  obtain ⟨g1, g2, g3, g4, g5, g6, g7, g8, g9, g10, g11, g12, g13, g14⟩ := h
  unfold loopBegin
  rw [g4]
  split
  · constructor <;> simp_all
  · constructor <;> simp_all

theorem loopEnd_sim (h : Sim a b) : Sim (loopEnd a) (loopEnd b) := by
  obtain ⟨g1, g2, g3, g4, g5, g6, g7, g8, g9, g10, g11, g12, g13, g14⟩ := h
  unfold loopEnd
  rw [g4]
  split
  · constructor <;> simp_all
  · split
    · constructor <;> simp_all
    · split
      · constructor <;> simp_all
      · constructor <;> simp_all

theorem setClockOrigin_sim (h : Sim a b) (ts : Nat) : Sim (setClockOrigin a ts) (setClockOrigin b ts) := by
  obtain ⟨g1, g2, g3, g4, g5, g6, g7, g8, g9, g10, g11, g12, g13, g14⟩ := h
  constructor <;> simp_all [setClockOrigin, absToInternal]

theorem Sim.withPc (h : Sim a b) (p : Nat) : Sim { a with pc := p } { b with pc := p } := by
  obtain ⟨g1, g2, g3, g4, g5, g6, g7, g8, g9, g10, g11, g12, g13, g14⟩ := h
  constructor <;> simp_all

macro "sim_branch" : tactic => `(tactic|
  (constructor <;>
    simp_all [next3, nextByte_eq, nextVarint_eq, setTo, fadeTo, handleDelayByte, delayUntil, delayUntilAbs,
      internalToAbs, absToInternal, setColorAndResetTransition, transitionStep, progress_eq, loopBegin, loopEnd,
      setClockOrigin]))

/-- one command: the command's start time must agree (the player sets it right before) -/
theorem execCommand_sim (h : Sim a b) (hc : a.cmdStart = b.cmdStart) : Sim (execCommand a) (execCommand b) := by
  have hcode := nextByte_fst h
  have hs1 := nextByte_sim h
  have hc1 : (nextByte a).2.cmdStart = (nextByte b).2.cmdStart := by
    rw [nextByte_cmdStart, nextByte_cmdStart, hc]
  have hend := h.ended
  unfold execCommand
  rcases hna : nextByte a with ⟨ca, a1⟩
  rcases hnb : nextByte b with ⟨cb, b1⟩
  rw [hna, hnb] at hcode hs1 hc1
  simp only at hcode hs1 hc1
  subst hcode
  rw [← hend]
  by_cases he : a.ended = true
  · rw [if_pos he, if_pos he]
    obtain ⟨h1, h2, h3, h4, h5, h6, h7, h8, h9, h10, h11, h12, h13, h14⟩ := h
    constructor <;> simp_all
  · rw [if_neg he, if_neg he]
    simp only
    have hs := hs1
    obtain ⟨h1, h2, h3, h4, h5, h6, h7, h8, h9, h10, h11, h12, h13, h14⟩ := hs1
    clear hna hnb h hc hend he
    by_cases hk_END : ca = Gen.CMD_END
    · rw [if_pos hk_END, if_pos hk_END]
      clear hk_END
      sim_branch
    rw [if_neg hk_END, if_neg hk_END]
    clear hk_END
    by_cases hk_NOP : ca = Gen.CMD_NOP
    · rw [if_pos hk_NOP, if_pos hk_NOP]
      clear hk_NOP
      exact hs
    rw [if_neg hk_NOP, if_neg hk_NOP]
    clear hk_NOP
    by_cases hk_SLEEP : ca = Gen.CMD_SLEEP
    · rw [if_pos hk_SLEEP, if_pos hk_SLEEP]
      clear hk_SLEEP
      exact handleDelayByte_sim hs
    rw [if_neg hk_SLEEP, if_neg hk_SLEEP]
    clear hk_SLEEP
    by_cases hk_WAIT_UNTIL : ca = Gen.CMD_WAIT_UNTIL
    · rw [if_pos hk_WAIT_UNTIL, if_pos hk_WAIT_UNTIL]
      clear hk_WAIT_UNTIL
      sim_branch
    rw [if_neg hk_WAIT_UNTIL, if_neg hk_WAIT_UNTIL]
    clear hk_WAIT_UNTIL
    by_cases hk_SET_COLOR : ca = Gen.CMD_SET_COLOR
    · rw [if_pos hk_SET_COLOR, if_pos hk_SET_COLOR]
      clear hk_SET_COLOR
      simp only [next3, nextByte_eq, h1, h2, h3]
      exact setTo_sim (by constructor <;> simp_all) _
    rw [if_neg hk_SET_COLOR, if_neg hk_SET_COLOR]
    clear hk_SET_COLOR
    by_cases hk_SET_GRAY : ca = Gen.CMD_SET_GRAY
    · rw [if_pos hk_SET_GRAY, if_pos hk_SET_GRAY]
      clear hk_SET_GRAY
      simp only [nextByte_eq, h1, h2, h3]
      exact setTo_sim (by constructor <;> simp_all) _
    rw [if_neg hk_SET_GRAY, if_neg hk_SET_GRAY]
    clear hk_SET_GRAY
    by_cases hk_SET_BLACK : ca = Gen.CMD_SET_BLACK
    · rw [if_pos hk_SET_BLACK, if_pos hk_SET_BLACK]
      clear hk_SET_BLACK
      exact setTo_sim hs _
    rw [if_neg hk_SET_BLACK, if_neg hk_SET_BLACK]
    clear hk_SET_BLACK
    by_cases hk_SET_WHITE : ca = Gen.CMD_SET_WHITE
    · rw [if_pos hk_SET_WHITE, if_pos hk_SET_WHITE]
      clear hk_SET_WHITE
      exact setTo_sim hs _
    rw [if_neg hk_SET_WHITE, if_neg hk_SET_WHITE]
    clear hk_SET_WHITE
    by_cases hk_FADE_TO_COLOR : ca = Gen.CMD_FADE_TO_COLOR
    · rw [if_pos hk_FADE_TO_COLOR, if_pos hk_FADE_TO_COLOR]
      clear hk_FADE_TO_COLOR
      simp only [next3, nextByte_eq, h1, h2, h3]
      exact fadeTo_sim (by constructor <;> simp_all) (by simpa using hc1) _
    rw [if_neg hk_FADE_TO_COLOR, if_neg hk_FADE_TO_COLOR]
    clear hk_FADE_TO_COLOR
    by_cases hk_FADE_TO_GRAY : ca = Gen.CMD_FADE_TO_GRAY
    · rw [if_pos hk_FADE_TO_GRAY, if_pos hk_FADE_TO_GRAY]
      clear hk_FADE_TO_GRAY
      simp only [nextByte_eq, h1, h2, h3]
      exact fadeTo_sim (by constructor <;> simp_all) (by simpa using hc1) _
    rw [if_neg hk_FADE_TO_GRAY, if_neg hk_FADE_TO_GRAY]
    clear hk_FADE_TO_GRAY
    by_cases hk_FADE_TO_BLACK : ca = Gen.CMD_FADE_TO_BLACK
    · rw [if_pos hk_FADE_TO_BLACK, if_pos hk_FADE_TO_BLACK]
      clear hk_FADE_TO_BLACK
      exact fadeTo_sim hs hc1 _
    rw [if_neg hk_FADE_TO_BLACK, if_neg hk_FADE_TO_BLACK]
    clear hk_FADE_TO_BLACK
    by_cases hk_FADE_TO_WHITE : ca = Gen.CMD_FADE_TO_WHITE
    · rw [if_pos hk_FADE_TO_WHITE, if_pos hk_FADE_TO_WHITE]
      clear hk_FADE_TO_WHITE
      exact fadeTo_sim hs hc1 _
    rw [if_neg hk_FADE_TO_WHITE, if_neg hk_FADE_TO_WHITE]
    clear hk_FADE_TO_WHITE
    by_cases hk_LOOP_BEGIN : ca = Gen.CMD_LOOP_BEGIN
    · rw [if_pos hk_LOOP_BEGIN, if_pos hk_LOOP_BEGIN]
      clear hk_LOOP_BEGIN
      simp only [nextByte_eq, h1, h2, h3]
      exact loopBegin_sim (by constructor <;> simp_all) _ _
    rw [if_neg hk_LOOP_BEGIN, if_neg hk_LOOP_BEGIN]
    clear hk_LOOP_BEGIN
    by_cases hk_LOOP_END : ca = Gen.CMD_LOOP_END
    · rw [if_pos hk_LOOP_END, if_pos hk_LOOP_END]
      clear hk_LOOP_END
      exact loopEnd_sim hs
    rw [if_neg hk_LOOP_END, if_neg hk_LOOP_END]
    clear hk_LOOP_END
    by_cases hk_RESET_CLOCK : ca = Gen.CMD_RESET_CLOCK
    · rw [if_pos hk_RESET_CLOCK, if_pos hk_RESET_CLOCK]
      clear hk_RESET_CLOCK
      rw [hc1]
      exact setClockOrigin_sim hs _
    rw [if_neg hk_RESET_CLOCK, if_neg hk_RESET_CLOCK]
    clear hk_RESET_CLOCK
    by_cases hk_SET_COLOR_FROM_CHANNELS : ca = Gen.CMD_SET_COLOR_FROM_CHANNELS
    · rw [if_pos hk_SET_COLOR_FROM_CHANNELS, if_pos hk_SET_COLOR_FROM_CHANNELS]
      clear hk_SET_COLOR_FROM_CHANNELS
      simp only [next3, nextByte_eq, h1, h2, h3]
      exact setTo_sim (by constructor <;> simp_all) _
    rw [if_neg hk_SET_COLOR_FROM_CHANNELS, if_neg hk_SET_COLOR_FROM_CHANNELS]
    clear hk_SET_COLOR_FROM_CHANNELS
    by_cases hk_FADE_TO_COLOR_FROM_CHANNELS : ca = Gen.CMD_FADE_TO_COLOR_FROM_CHANNELS
    · rw [if_pos hk_FADE_TO_COLOR_FROM_CHANNELS, if_pos hk_FADE_TO_COLOR_FROM_CHANNELS]
      clear hk_FADE_TO_COLOR_FROM_CHANNELS
      simp only [next3, nextByte_eq, h1, h2, h3]
      exact fadeTo_sim (by constructor <;> simp_all) (by simpa using hc1) _
    rw [if_neg hk_FADE_TO_COLOR_FROM_CHANNELS, if_neg hk_FADE_TO_COLOR_FROM_CHANNELS]
    clear hk_FADE_TO_COLOR_FROM_CHANNELS
    by_cases hk_JUMP : ca = Gen.CMD_JUMP
    · rw [if_pos hk_JUMP, if_pos hk_JUMP]
      clear hk_JUMP
      simp only [nextVarint_eq, h1, h2, h3]
      split <;> sim_branch
    rw [if_neg hk_JUMP, if_neg hk_JUMP]
    clear hk_JUMP
    by_cases hk_TRIGGERED_JUMP : ca = Gen.CMD_TRIGGERED_JUMP
    · rw [if_pos hk_TRIGGERED_JUMP, if_pos hk_TRIGGERED_JUMP]
      clear hk_TRIGGERED_JUMP
      simp only [nextByte_eq, nextVarint_eq, h1, h2, h3]
      split
      · split <;> sim_branch
      · sim_branch
    rw [if_neg hk_TRIGGERED_JUMP, if_neg hk_TRIGGERED_JUMP]
    clear hk_TRIGGERED_JUMP
    by_cases hk_SET_PYRO : ca = Gen.CMD_SET_PYRO
    · rw [if_pos hk_SET_PYRO, if_pos hk_SET_PYRO]
      clear hk_SET_PYRO
      simp only [nextByte_eq, h1, h2, h3]
      split <;> sim_branch
    rw [if_neg hk_SET_PYRO, if_neg hk_SET_PYRO]
    clear hk_SET_PYRO
    by_cases hk_SET_PYRO_ALL : ca = Gen.CMD_SET_PYRO_ALL
    · rw [if_pos hk_SET_PYRO_ALL, if_pos hk_SET_PYRO_ALL]
      clear hk_SET_PYRO_ALL
      sim_branch
    rw [if_neg hk_SET_PYRO_ALL, if_neg hk_SET_PYRO_ALL]
    clear hk_SET_PYRO_ALL
    sim_branch

theorem Sim.withCmdStart (h : Sim a b) (x y : Nat) : Sim { a with cmdStart := x } { b with cmdStart := y } := by
  obtain ⟨g1, g2, g3, g4, g5, g6, g7, g8, g9, g10, g11, g12, g13, g14⟩ := h
  constructor <;> simp_all

/-- the three stages of `step` -/
def stepReset (e : Exec) (now : Nat) : Exec :=
  if e.resetFlag then
    { (setColorAndResetTransition (setClockOrigin e now) black) with resetFlag := false, nextWakeup := now }
  else e

def stepFade (e : Exec) (now : Nat) : Exec :=
  if e.trActive then fadeFinish (transitionStep e now) else e

def stepWake (e : Exec) (now : Nat) : Exec :=
  if now ≥ e.nextWakeup then execCommand { e with cmdStart := now } else e

theorem step_eq (e : Exec) (now : Nat) :
    step e now =
      if (stepReset e now).ended then { stepReset e now with nextWakeup := u64 (now + 60000) }
      else stepWake (stepFade (stepReset e now) now) now := rfl

theorem stepReset_sim (h : Sim a b) (now : Nat) : Sim (stepReset a now) (stepReset b now) := by
  unfold stepReset
  rw [h.resetFlag]
  split
  · obtain ⟨g1, g2, g3, g4, g5, g6, g7, g8, g9, g10, g11, g12, g13, g14⟩ := setClockOrigin_sim h now
    unfold setColorAndResetTransition
    constructor <;> simp_all
  · exact h

theorem stepFade_sim (h : Sim a b) (now : Nat) : Sim (stepFade a now) (stepFade b now) := by
  unfold stepFade
  rw [h.trActive]
  split
  · rename_i ht
    obtain ⟨x, y, z⟩ := h.fade (h.trActive.trans ht)
    exact fadeFinish_transitionStep_sim h x y z now
  · exact h

theorem stepWake_sim (h : Sim a b) (now : Nat) : Sim (stepWake a now) (stepWake b now) := by
  unfold stepWake
  by_cases hw : now ≥ a.nextWakeup
  · rw [if_pos hw, if_pos (h.nextWakeup ▸ hw)]
    exact execCommand_sim (h.withCmdStart now now) rfl
  · rw [if_neg hw, if_neg (h.nextWakeup ▸ hw)]
    exact h

/-- after the reset stage -/
theorem step_sim_of_reset (now : Nat) (h1 : Sim (stepReset a now) (stepReset b now)) : Sim (step a now) (step b now) := by
  rw [step_eq, step_eq]
  rw [h1.ended]
  split
  · obtain ⟨g1, g2, g3, g4, g5, g6, g7, g8, g9, g10, g11, g12, g13, g14⟩ := h1
    constructor <;> simp_all
  · exact stepWake_sim (stepFade_sim h1 now) now

/-- **`step` cannot tell two `Sim`-related executors apart** -/
theorem step_sim (h : Sim a b) (now : Nat) : Sim (step a now) (step b now) := by
  rw [step_eq, step_eq]
  have h1 := stepReset_sim h now
  rw [h1.ended]
  split
  · obtain ⟨g1, g2, g3, g4, g5, g6, g7, g8, g9, g10, g11, g12, g13, g14⟩ := h1
    constructor <;> simp_all
  · exact stepWake_sim (stepFade_sim h1 now) now

/-- what a caller can see of an executor: colour, pyro mask, ended flag, next wake-up -/
def obs (e : Exec) : Color × Nat × Bool × Nat := (e.color, e.pyro, e.ended, e.nextWakeup)

end Sb.Proofs.Light
