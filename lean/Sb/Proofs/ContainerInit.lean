/-
`init` of the container parser equals its grammar-level specification, for every byte string.
-/
import Sb.Proofs.Container
import Sb.Proofs.Crc

namespace Sb.Proofs
open Sb Sb.Container Sb.Spec

def storedCrc (data : Bytes) : BitVec 32 := le32 ((data.drop 6).take 4)

/-- what `init` must do, from the grammar -/
def initSpec (mem : Bool) (data : Bytes) : R Parser :=
  match header data with
  | none => .error .eparse
  | some (ver, hlen, hasCrc) =>
    if hasCrc ∧ storedCrc data ≠ Spec.fileCrc data then .error .ecorrupted
    else (startParser mem data hlen ver (if ver = 2 then (data.getD 5 0).toNat else 0)).rewind

theorem and_one (f : UInt8) : (f.toNat &&& Gen.SB_BINARY_FEATURE_CRC32 ≠ 0) ↔ f.toNat % 2 = 1 := by
  have : Gen.SB_BINARY_FEATURE_CRC32 = 1 := rfl
  rw [this, Nat.and_one_is_mod]; omega

theorem init_spec (mem : Bool) (data : Bytes) : init mem data = initSpec mem data := by
  unfold init initCommon initSpec
  rcases data with _ | ⟨a, _ | ⟨b, _ | ⟨c, _ | ⟨d, _ | ⟨v, rest⟩⟩⟩⟩⟩
  · simp [Parser.read, header]
  · simp [Parser.read, header]
  · simp [Parser.read, header]
  · simp [Parser.read, header]
  · simp [Parser.read, header, magicBytes, Gen.magic]
  · by_cases hm : a = 0x73 ∧ b = 0x6b ∧ c = 0x79 ∧ d = 0x62
    · obtain ⟨rfl, rfl, rfl, rfl⟩ := hm
      by_cases h1 : v.toNat = 1
      · simp [Parser.read, header, magicBytes, Gen.magic, Gen.versions, h1, startParser]
      · by_cases h2 : v.toNat = 2
        · rcases rest with _ | ⟨f, rest'⟩
          · simp [Parser.read, header, magicBytes, Gen.magic, Gen.versions, h2]
          · by_cases hf : f.toNat % 2 = 1
            · have hf' := (and_one f).mpr hf
              rcases rest' with _ | ⟨c0, _ | ⟨c1, _ | ⟨c2, _ | ⟨c3, payload⟩⟩⟩⟩
              · simp [Parser.read, header, magicBytes, Gen.magic, Gen.versions, h2, hf, hf']
              · simp [Parser.read, header, magicBytes, Gen.magic, Gen.versions, h2, hf, hf']
              · simp [Parser.read, header, magicBytes, Gen.magic, Gen.versions, h2, hf, hf']
              · simp [Parser.read, header, magicBytes, Gen.magic, Gen.versions, h2, hf, hf']
              · simp [Parser.read, header, magicBytes, Gen.magic, Gen.versions, h2, hf, hf', startParser, storedCrc,
                  fileCrc_eq_spec _ (show 10 ≤ Gen.crcChunk by decide)]
            · have hf' : ¬ (f.toNat &&& Gen.SB_BINARY_FEATURE_CRC32 ≠ 0) := fun h => hf ((and_one f).mp h)
              simp [Parser.read, header, magicBytes, Gen.magic, Gen.versions, h2, hf, hf', startParser]
        · simp [Parser.read, header, magicBytes, Gen.magic, Gen.versions, h1, h2]
    · have h' : (a = 115 → b = 107 → c = 121 → ¬ d = 98) := fun h1 h2 h3 h4 => hm ⟨h1, h2, h3, h4⟩
      have hh : header (a :: b :: c :: d :: v :: rest) = none := by
        unfold header
        split
        · rename_i heq
          injection heq with e1 heq; injection heq with e2 heq; injection heq with e3 heq; injection heq with e4 heq
          exact absurd ⟨e1, e2, e3, e4⟩ hm
        · rfl
      simp [Parser.read, magicBytes, Gen.magic, hh]
      intro h1 h2 h3 h4
      exact absurd ⟨h1, h2, h3, h4⟩ hm

end Sb.Proofs
