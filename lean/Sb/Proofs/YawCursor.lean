/-
The yaw player as an instance of the abstract cursor (C08, yaw half): the chain of setpoints tiles the time axis,
the concrete seek loop is the abstract one, so the landing place of a seek does not depend on the history.

`buildSetpoint` can fail in one way only: `int32_t` overflow of the accumulated yaw (undefined behaviour in C; it
needs more than 65535 setpoints).  The theorems assume it does not happen along the chain (`NoYawOverflow`).
-/
import Sb.Proofs.Cursor
import Sb.Proofs.YawSpec
import Sb.Proofs.TrajCursor

namespace Sb.Proofs
open Sb Sb.Traj Sb.Yaw Sb.Spec Sb.Parsing

/-- total version of setpoint building (an overflowing build is mapped to the terminal setpoint) -/
def buildSp (sec : Nat → Rat) (c : Ctrl) (off T : Nat) (y : Int) : Setpoint :=
  match buildSetpoint sec c off T y with
  | .ok s => s
  | .error _ => termSp sec off T y

/-- what every setpoint produced by `buildSp` satisfies -/
structure BuiltSp (sec : Nat → Rat) (c : Ctrl) (s : Setpoint) : Prop where
  startSec : s.startSec = sec s.startMs
  shape : (s.length = 0 ∧ s.endSec = none) ∨
          (s.length = 4 ∧ s.endSec = some (sec s.endMs) ∧ s.endMs = u32 (s.startMs + s.durMs) ∧
            s.startOff + 4 ≤ c.buf.length ∧ s.durMs ≤ 65535)

theorem buildSetpoint_cases (sec : Nat → Rat) (c : Ctrl) (off T : Nat) (y : Int) (hfit : off + 4 ≤ c.buf.length) :
    ∃ d ch, d ≤ 65535 ∧ -32768 ≤ ch ∧ ch ≤ 32767 ∧ buildSetpoint sec c off T y =
      (if -2147483648 ≤ y + ch ∧ y + ch ≤ 2147483647 then .ok (mkSp sec off T d y ch) else .error .fault) := by
  have hlen : (c.buf.drop off).length = c.buf.length - off := by simp
  rcases hr : c.buf.drop off with _ | ⟨d0, _ | ⟨d1, _ | ⟨c0, _ | ⟨c1, r⟩⟩⟩⟩
  · rw [hr] at hlen; simp at hlen; omega
  · rw [hr] at hlen; simp at hlen; omega
  · rw [hr] at hlen; simp at hlen; omega
  · rw [hr] at hlen; simp at hlen; omega
  · have hsz : Gen.yawSizeOfDelta = 4 := rfl
    have hfit' : ¬ (off + 4 > c.buf.length) := by omega
    have h2 := parseU16_of_drop c.buf off d0 d1 _ hr
    have hb : -32768 ≤ i16le c0 c1 ∧ i16le c0 c1 ≤ 32767 := by
      unfold i16le toInt16
      have := c0.toNat_lt; have := c1.toNat_lt
      split <;> omega
    have hd : d0.toNat + 256 * d1.toNat ≤ 65535 := by
      have := d0.toNat_lt; have := d1.toNat_lt; omega
    refine ⟨d0.toNat + 256 * d1.toNat, i16le c0 c1, hd, hb.1, hb.2, ?_⟩
    unfold buildSetpoint
    rw [hsz]
    simp only [hfit', if_false, h2.1, parseI16_of_drop c.buf (off + 2) c0 c1 r h2.2, bind, Except.bind, addI32]
    by_cases hrange : -2147483648 ≤ y + i16le c0 c1 ∧ y + i16le c0 c1 ≤ 2147483647
    · simp only [hrange, and_self, if_true, pure, Except.pure, mkSp]
      congr 2
      omega
    · simp only [hrange, if_false]

theorem buildSp_built (sec : Nat → Rat) (c : Ctrl) (off T : Nat) (y : Int) :
    BuiltSp sec c (buildSp sec c off T y) ∧ (buildSp sec c off T y).startOff = off ∧ (buildSp sec c off T y).startMs = T := by
  by_cases hfit : off + 4 ≤ c.buf.length
  · obtain ⟨d, ch, hd, _, _, h⟩ := buildSetpoint_cases sec c off T y hfit
    unfold buildSp
    rw [h]
    by_cases hrange : -2147483648 ≤ y + ch ∧ y + ch ≤ 2147483647
    · simp only [hrange, and_self, if_true]
      exact ⟨⟨rfl, Or.inr ⟨rfl, rfl, rfl, hfit, hd⟩⟩, rfl, rfl⟩
    · simp only [hrange, if_false]
      exact ⟨⟨rfl, Or.inl ⟨rfl, rfl⟩⟩, rfl, rfl⟩
  · have hterm : buildSetpoint sec c off T y = .ok (termSp sec off T y) := by
      unfold buildSetpoint
      have hsz : Gen.yawSizeOfDelta = 4 := rfl
      rw [hsz]
      have : off + 4 > c.buf.length := by omega
      simp [this, termSp]
    unfold buildSp
    rw [hterm]
    exact ⟨⟨rfl, Or.inl ⟨rfl, rfl⟩⟩, rfl, rfl⟩

/-- the yaw player as an abstract cursor over setpoints -/
def yawCur (sec : Nat → Rat) (c : Ctrl) : Cur Setpoint where
  rew := buildSp sec c c.headerLength 0 c.yawOffsetDdeg
  nxt := fun s => buildSp sec c (s.startOff + s.length) s.endMs s.endYawDdeg
  st := fun s => s.startSec
  en := fun s => s.endSec

/-- the accumulated yaw never leaves `int32_t` along the chain: every build of the real code succeeds -/
structure NoYawOverflow (sec : Nat → Rat) (c : Ctrl) : Prop where
  first : buildSetpoint sec c c.headerLength 0 c.yawOffsetDdeg = .ok (yawCur sec c).rew
  later : ∀ k, buildSetpoint sec c (((yawCur sec c).chain k).startOff + ((yawCur sec c).chain k).length)
      ((yawCur sec c).chain k).endMs ((yawCur sec c).chain k).endYawDdeg = .ok ((yawCur sec c).chain (k + 1))

theorem yaw_rewind_eq (sec : Nat → Rat) (c : Ctrl) (h : NoYawOverflow sec c) :
    Yaw.rewind sec c = .ok ⟨c, (yawCur sec c).chain 0⟩ := by
  simp [Yaw.rewind, h.first, bind, Except.bind, pure, Except.pure, Cur.chain]

theorem yaw_next_eq (sec : Nat → Rat) (c : Ctrl) (h : NoYawOverflow sec c) (k : Nat) :
    Yaw.next sec ⟨c, (yawCur sec c).chain k⟩ = .ok ⟨c, (yawCur sec c).chain (k + 1)⟩ := by
  simp [Yaw.next, h.later k, bind, Except.bind, pure, Except.pure]

/-- the concrete yaw seek loop is the abstract one on chain elements -/
theorem yaw_seekLoop_eq_cseek (sec : Nat → Rat) (c : Ctrl) (h : NoYawOverflow sec c) (t : QTime) (fuel : Nat) (j : Nat) :
    Yaw.seekLoop sec t fuel ⟨c, (yawCur sec c).chain j⟩ =
      match cseek (yawCur sec c) t fuel ((yawCur sec c).chain j) with
      | some s' => .ok ⟨c, s'⟩
      | none => .error .fault := by
  induction fuel generalizing j with
  | zero => rfl
  | succ f ih =>
    unfold Yaw.seekLoop cseek
    by_cases h1 : gtQ ((yawCur sec c).chain j).startSec t = true
    · have h1' : gtQ ((yawCur sec c).st ((yawCur sec c).chain j)) t = true := h1
      simp only [h1, h1', if_true, yaw_rewind_eq sec c h, bind, Except.bind]
      exact ih 0
    · have h1' : ¬ gtQ ((yawCur sec c).st ((yawCur sec c).chain j)) t = true := h1
      by_cases h2 : endLt ((yawCur sec c).chain j).endSec t = true
      · have h2' : endLt ((yawCur sec c).en ((yawCur sec c).chain j)) t = true := h2
        simp only [h1, h1', h2, h2', if_true, Bool.false_eq_true, if_false, yaw_next_eq sec c h j, bind, Except.bind]
        exact ih (j + 1)
      · have h2' : ¬ endLt ((yawCur sec c).en ((yawCur sec c).chain j)) t = true := h2
        simp [h1, h1', h2, h2']

theorem yaw_chain_built (sec : Nat → Rat) (c : Ctrl) (k : Nat) : BuiltSp sec c ((yawCur sec c).chain k) := by
  cases k with
  | zero => exact (buildSp_built sec c _ _ _).1
  | succ k => exact (buildSp_built sec c _ _ _).1

theorem yaw_chain_succ (sec : Nat → Rat) (c : Ctrl) (k : Nat) :
    ((yawCur sec c).chain (k + 1)).startMs = ((yawCur sec c).chain k).endMs ∧
    ((yawCur sec c).chain (k + 1)).startOff = ((yawCur sec c).chain k).startOff + ((yawCur sec c).chain k).length := by
  have := buildSp_built sec c (((yawCur sec c).chain k).startOff + ((yawCur sec c).chain k).length)
    ((yawCur sec c).chain k).endMs ((yawCur sec c).chain k).endYawDdeg
  exact ⟨this.2.2, this.2.1⟩

theorem yaw_chain_offset_lb (sec : Nat → Rat) (c : Ctrl) :
    ∀ m, (∀ k, k < m → ((yawCur sec c).chain k).length ≠ 0) → 4 * m ≤ ((yawCur sec c).chain m).startOff := by
  intro m
  induction m with
  | zero => intro _; omega
  | succ m ih =>
    intro h
    have h1 := ih (fun k hk => h k (by omega))
    have hne := h m (by omega)
    rcases (yaw_chain_built sec c m).shape with ⟨h0, _⟩ | ⟨h4, _⟩
    · exact absurd h0 hne
    · rw [(yaw_chain_succ sec c m).2]; omega

theorem yaw_chain_terminal_exists (sec : Nat → Rat) (c : Ctrl) :
    ∃ N, N ≤ c.buf.length ∧ ((yawCur sec c).chain N).length = 0 ∧
      ∀ k, k < N → ((yawCur sec c).chain k).length ≠ 0 := by
  have hex : ∃ m, m ≤ c.buf.length ∧ ((yawCur sec c).chain m).length = 0 := by
    by_contra hno
    have hall : ∀ k, k ≤ c.buf.length → ((yawCur sec c).chain k).length ≠ 0 := by
      intro k hk h0; exact hno ⟨k, hk, h0⟩
    have hlb := yaw_chain_offset_lb sec c c.buf.length (fun k hk => hall k (by omega))
    rcases (yaw_chain_built sec c c.buf.length).shape with ⟨h0, _⟩ | ⟨_, _, _, hlt, _⟩
    · exact hall _ (Nat.le_refl _) h0
    · have hpos : 0 < c.buf.length := by omega
      omega
  obtain ⟨m, hm, hPm⟩ := hex
  obtain ⟨N, hN, hPN, hmin⟩ := least_exists (fun k => ((yawCur sec c).chain k).length = 0) m hPm
  exact ⟨N, by omega, hPN, hmin⟩

/-- the millisecond counters never wrap around 2^32 along the chain -/
def NoWrapYaw (sec : Nat → Rat) (c : Ctrl) : Prop :=
  ∀ k, ((yawCur sec c).chain k).length ≠ 0 →
    ((yawCur sec c).chain k).startMs + ((yawCur sec c).chain k).durMs < 4294967296

/-- **Tiling.** The setpoints of any yaw block tile the time axis. -/
theorem yaw_tiling (sec : Nat → Rat) (c : Ctrl) (hsec : MonoSec sec) (hw : NoWrapYaw sec c) :
    ∃ N, N ≤ c.buf.length ∧ Tiling (yawCur sec c) N ∧ ((yawCur sec c).chain N).length = 0 := by
  obtain ⟨N, hN, hterm, hmin⟩ := yaw_chain_terminal_exists sec c
  have hst : ∀ k, (yawCur sec c).st ((yawCur sec c).chain k) = sec ((yawCur sec c).chain k).startMs :=
    fun k => (yaw_chain_built sec c k).startSec
  refine ⟨N, hN, ⟨⟨?_, ?_, ?_⟩, ?_, ?_⟩, hterm⟩
  · rw [hst 0]
    have : ((yawCur sec c).chain 0).startMs = 0 := (buildSp_built sec c _ _ _).2.2
    rw [this]; exact hsec.zero
  · intro k e he
    rw [hst (k + 1), (yaw_chain_succ sec c k).1]
    rcases (yaw_chain_built sec c k).shape with ⟨_, hnone⟩ | ⟨_, hsome, _⟩
    · change ((yawCur sec c).chain k).endSec = some e at he; rw [hnone] at he; cases he
    · change ((yawCur sec c).chain k).endSec = some e at he; rw [hsome] at he; injection he with he
  · rcases (yaw_chain_built sec c N).shape with ⟨_, hnone⟩ | ⟨h4, _⟩
    · exact hnone
    · omega
  · intro k e he
    rw [hst k]
    rcases (yaw_chain_built sec c k).shape with ⟨_, hnone⟩ | ⟨h4, hsome, hend, _, _⟩
    · change ((yawCur sec c).chain k).endSec = some e at he; rw [hnone] at he; cases he
    · change ((yawCur sec c).chain k).endSec = some e at he; rw [hsome] at he; injection he with he
      rw [← he]
      apply hsec.mono
      have := hw k (by omega)
      rw [hend]; unfold u32
      rw [Nat.mod_eq_of_lt this]; omega
  · intro k hk
    rcases (yaw_chain_built sec c k).shape with ⟨h0, _⟩ | ⟨_, hsome, _⟩
    · exact absurd h0 (hmin k hk)
    · exact ⟨_, hsome⟩

/-! ### blocks of the file format never overflow -/

theorem buildSetpoint_terminal (sec : Nat → Rat) (c : Ctrl) (off T : Nat) (y : Int) (h : ¬ off + 4 ≤ c.buf.length) :
    buildSetpoint sec c off T y = .ok (termSp sec off T y) := by
  unfold buildSetpoint
  have hsz : Gen.yawSizeOfDelta = 4 := rfl
  rw [hsz]
  have : off + 4 > c.buf.length := by omega
  simp [this, termSp]

/-- one build step: from a start yaw bounded by `32768·(1 + off/4)` the build succeeds (block ≤ 65535 bytes) and the
end yaw obeys the bound at the next offset -/
theorem buildSp_bound (sec : Nat → Rat) (c : Ctrl) (hlen : c.buf.length ≤ 65535) (off T : Nat) (y : Int)
    (hy : y.natAbs ≤ 32768 * (1 + off / 4)) :
    buildSetpoint sec c off T y = .ok (buildSp sec c off T y) ∧
      (buildSp sec c off T y).endYawDdeg.natAbs ≤
        32768 * (1 + ((buildSp sec c off T y).startOff + (buildSp sec c off T y).length) / 4) := by
  by_cases hfit : off + 4 ≤ c.buf.length
  · obtain ⟨d, ch, _, hc1, hc2, h⟩ := buildSetpoint_cases sec c off T y hfit
    have hoff : off / 4 ≤ 16382 := by omega
    have hyb : y.natAbs ≤ 32768 * 16383 := by
      calc y.natAbs ≤ 32768 * (1 + off / 4) := hy
        _ ≤ 32768 * 16383 := by omega
    have hrange : -2147483648 ≤ y + ch ∧ y + ch ≤ 2147483647 := by omega
    have hok : buildSetpoint sec c off T y = .ok (mkSp sec off T d y ch) := by rw [h, if_pos hrange]
    have hsp : buildSp sec c off T y = mkSp sec off T d y ch := by unfold buildSp; rw [hok]
    rw [hsp]
    refine ⟨hok, ?_⟩
    simp only [mkSp]
    have : (off + 4) / 4 = off / 4 + 1 := by omega
    rw [this]
    omega
  · have hok := buildSetpoint_terminal sec c off T y hfit
    have hsp : buildSp sec c off T y = termSp sec off T y := by unfold buildSp; rw [hok]
    rw [hsp]
    refine ⟨hok, ?_⟩
    simp only [termSp, Nat.add_zero]
    exact hy

/-- **every yaw block that fits the container's 16-bit block length is free of `int32_t` overflow** -/
theorem noYawOverflow_of_block (sec : Nat → Rat) (c : Ctrl) (hlen : c.buf.length ≤ 65535)
    (hoff : c.yawOffsetDdeg.natAbs ≤ 32768) : NoYawOverflow sec c := by
  have h0 := buildSp_bound sec c hlen c.headerLength 0 c.yawOffsetDdeg (by
    calc c.yawOffsetDdeg.natAbs ≤ 32768 := hoff
      _ ≤ 32768 * (1 + c.headerLength / 4) := by omega)
  have hall : ∀ k, ((yawCur sec c).chain k).endYawDdeg.natAbs ≤
      32768 * (1 + (((yawCur sec c).chain k).startOff + ((yawCur sec c).chain k).length) / 4) ∧
      (k = 0 ∨ True) := by
    intro k
    induction k with
    | zero => exact ⟨h0.2, Or.inl rfl⟩
    | succ k ih =>
      have := buildSp_bound sec c hlen (((yawCur sec c).chain k).startOff + ((yawCur sec c).chain k).length)
        ((yawCur sec c).chain k).endMs ((yawCur sec c).chain k).endYawDdeg ih.1
      exact ⟨this.2, Or.inr trivial⟩
  refine ⟨h0.1, ?_⟩
  intro k
  exact (buildSp_bound sec c hlen (((yawCur sec c).chain k).startOff + ((yawCur sec c).chain k).length)
    ((yawCur sec c).chain k).endMs ((yawCur sec c).chain k).endYawDdeg (hall k).1).1

/-- under the block bound a terminal setpoint means that no further setpoint fits -/
theorem terminal_iff_not_fit (sec : Nat → Rat) (c : Ctrl) (hlen : c.buf.length ≤ 65535) (off T : Nat) (y : Int)
    (hy : y.natAbs ≤ 32768 * (1 + off / 4)) :
    (buildSp sec c off T y).length = 0 ↔ ¬ off + 4 ≤ c.buf.length := by
  constructor
  · intro h0 hfit
    obtain ⟨d, ch, _, hc1, hc2, h⟩ := buildSetpoint_cases sec c off T y hfit
    have hoff : off / 4 ≤ 16382 := by omega
    have hrange : -2147483648 ≤ y + ch ∧ y + ch ≤ 2147483647 := by
      have hyb : y.natAbs ≤ 32768 * 16383 := by
        calc y.natAbs ≤ 32768 * (1 + off / 4) := hy
          _ ≤ 32768 * 16383 := by omega
      omega
    have hsp : buildSp sec c off T y = mkSp sec off T d y ch := by unfold buildSp; rw [h, if_pos hrange]
    rw [hsp] at h0
    simp [mkSp] at h0
  · intro hnf
    have hsp : buildSp sec c off T y = termSp sec off T y := by
      unfold buildSp; rw [buildSetpoint_terminal sec c off T y hnf]
    rw [hsp]; rfl

theorem yaw_chain_yaw_bound (sec : Nat → Rat) (c : Ctrl) (hlen : c.buf.length ≤ 65535)
    (hoff : c.yawOffsetDdeg.natAbs ≤ 32768) (k : Nat) :
    ((yawCur sec c).chain k).endYawDdeg.natAbs ≤
      32768 * (1 + (((yawCur sec c).chain k).startOff + ((yawCur sec c).chain k).length) / 4) := by
  induction k with
  | zero =>
    exact (buildSp_bound sec c hlen c.headerLength 0 c.yawOffsetDdeg (by
      calc c.yawOffsetDdeg.natAbs ≤ 32768 := hoff
        _ ≤ 32768 * (1 + c.headerLength / 4) := by omega)).2
  | succ k ih =>
    exact (buildSp_bound sec c hlen _ ((yawCur sec c).chain k).endMs ((yawCur sec c).chain k).endYawDdeg ih).2

/-- a terminal chain element is followed by terminal elements only -/
theorem yaw_terminal_persists (sec : Nat → Rat) (c : Ctrl) (hlen : c.buf.length ≤ 65535)
    (hoff : c.yawOffsetDdeg.natAbs ≤ 32768) (k : Nat) (h0 : ((yawCur sec c).chain k).length = 0) :
    ((yawCur sec c).chain (k + 1)).length = 0 := by
  have hnf : ¬ ((yawCur sec c).chain k).startOff + 4 ≤ c.buf.length := by
    cases k with
    | zero =>
      exact (terminal_iff_not_fit sec c hlen c.headerLength 0 c.yawOffsetDdeg (by
        calc c.yawOffsetDdeg.natAbs ≤ 32768 := hoff
          _ ≤ 32768 * (1 + c.headerLength / 4) := by omega)).mp h0 |> fun h => by
            have := (buildSp_built sec c c.headerLength 0 c.yawOffsetDdeg).2.1
            change ((yawCur sec c).chain 0).startOff = c.headerLength at this
            rw [this]; exact h
    | succ j =>
      have hb := yaw_chain_yaw_bound sec c hlen hoff j
      have := (terminal_iff_not_fit sec c hlen _ ((yawCur sec c).chain j).endMs ((yawCur sec c).chain j).endYawDdeg hb).mp h0
      have hso := (yaw_chain_succ sec c j).2
      rw [hso]; exact this
  have hb := yaw_chain_yaw_bound sec c hlen hoff k
  have hnf' : ¬ (((yawCur sec c).chain k).startOff + ((yawCur sec c).chain k).length) + 4 ≤ c.buf.length := by
    rw [h0]; simpa using hnf
  exact (terminal_iff_not_fit sec c hlen _ ((yawCur sec c).chain k).endMs ((yawCur sec c).chain k).endYawDdeg hb).mpr hnf'

/-- along the non-terminal part of the chain the start time is bounded by 65535 ms per setpoint passed -/
theorem yaw_chain_time_bound (sec : Nat → Rat) (c : Ctrl) (hlen : c.buf.length ≤ 65535)
    (hoff : c.yawOffsetDdeg.natAbs ≤ 32768) (k : Nat) (hk : ((yawCur sec c).chain k).length ≠ 0) :
    ((yawCur sec c).chain k).startMs ≤ 65535 * (((yawCur sec c).chain k).startOff / 4) := by
  induction k with
  | zero =>
    have : ((yawCur sec c).chain 0).startMs = 0 := (buildSp_built sec c _ _ _).2.2
    rw [this]; omega
  | succ k ih =>
    have hprev : ((yawCur sec c).chain k).length ≠ 0 := by
      intro h0; exact hk (yaw_terminal_persists sec c hlen hoff k h0)
    have ihk := ih hprev
    rcases (yaw_chain_built sec c k).shape with ⟨h0, _⟩ | ⟨h4, _, hend, hfit, hd⟩
    · exact absurd h0 hprev
    · obtain ⟨hms, hso⟩ := yaw_chain_succ sec c k
      rw [hms, hso, hend, h4]
      have hq : ((yawCur sec c).chain k).startOff / 4 ≤ 16382 := by omega
      have hsum : ((yawCur sec c).chain k).startMs + ((yawCur sec c).chain k).durMs < 4294967296 := by
        have : ((yawCur sec c).chain k).startMs ≤ 65535 * 16382 := by
          calc ((yawCur sec c).chain k).startMs ≤ 65535 * (((yawCur sec c).chain k).startOff / 4) := ihk
            _ ≤ 65535 * 16382 := by omega
        omega
      unfold u32
      rw [Nat.mod_eq_of_lt hsum]
      have : (((yawCur sec c).chain k).startOff + 4) / 4 = ((yawCur sec c).chain k).startOff / 4 + 1 := by omega
      rw [this]
      omega

/-- **every yaw block that fits the container's 16-bit block length keeps its millisecond counters below 2^32** -/
theorem noWrapYaw_of_block (sec : Nat → Rat) (c : Ctrl) (hlen : c.buf.length ≤ 65535)
    (hoff : c.yawOffsetDdeg.natAbs ≤ 32768) : NoWrapYaw sec c := by
  intro k hk
  have hb := yaw_chain_time_bound sec c hlen hoff k hk
  rcases (yaw_chain_built sec c k).shape with ⟨h0, _⟩ | ⟨_, _, _, hfit, hd⟩
  · exact absurd h0 hk
  · have hq : ((yawCur sec c).chain k).startOff / 4 ≤ 16382 := by omega
    have : ((yawCur sec c).chain k).startMs ≤ 65535 * 16382 := by
      calc ((yawCur sec c).chain k).startMs ≤ 65535 * (((yawCur sec c).chain k).startOff / 4) := hb
        _ ≤ 65535 * 16382 := by omega
    omega

end Sb.Proofs
