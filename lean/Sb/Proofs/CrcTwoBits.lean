/-
C05: two flipped bits in different bytes after the checksum field always change the checksum
(for gaps below 2^28 bytes), from the order of x (`no_small_period`).
-/
import Sb.Proofs.CrcPeriod

namespace Sb.Proofs
open Sb Sb.Spec

theorem step1_injective : Function.Injective step1 := by
  intro a b h
  have : step1 (a ^^^ b) = 0 := by rw [step1_xor, h]; simp
  have hz := step1_eq_zero _ this
  have := congrArg (· ^^^ b) hz
  simpa [BitVec.xor_assoc] using this

theorem iterate_cancel (m1 m2 : Nat) (h : m2 ≤ m1) (v : BitVec 32) (heq : step1^[m1] v = step1^[m2] v) :
    step1^[m1 - m2] v = v := by
  have hsplit : m1 = m2 + (m1 - m2) := by omega
  rw [hsplit, Function.iterate_add_apply] at heq
  exact (step1_injective.iterate m2) heq

theorem step8_eq_iterate (c : BitVec 32) : step8 c = step1^[8] c := rfl

/-- feeding `g` zero bytes is 8g bit steps -/
theorem crc_zeros_iterate (c : BitVec 32) (g : Nat) : crc c (zeros g) = step1^[8 * g] c := by
  induction g generalizing c with
  | zero => rfl
  | succ g ih =>
    simp only [zeros, List.replicate_succ, crc, List.foldl_cons]
    have h0 : crcByte c 0 = step1^[8] c := by
      unfold crcByte
      have : c ^^^ BitVec.ofNat 32 (0 : UInt8).toNat = c := by simp
      rw [this]; rfl
    rw [h0]
    have := ih (step1^[8] c)
    simp only [zeros, crc] at this
    rw [this, ← Function.iterate_add_apply]
    congr 1

/-- the eight single-bit bytes are the monomials x^(31-a) -/
theorem single_bit_byte : ∀ a : Fin 8, W (UInt8.ofNat (2 ^ a.val)) = step1^[31 - a.val] e0 := by
  decide +kernel

/-- **two bits in different bytes**: the error pattern `0…0 2^a1 0…0 2^a2 0…0` never has checksum zero -/
theorem crc_two_bits_ne (k g m : Nat) (a1 a2 : Fin 8) (hg : g < 2 ^ 28) :
    crc 0 (zeros k ++ [UInt8.ofNat (2 ^ a1.val)] ++ zeros g ++ [UInt8.ofNat (2 ^ a2.val)] ++ zeros m) ≠ 0 := by
  rw [crc_append, crc_append, crc_append, crc_append, crc_zeros_zero]
  apply crc_zeros_ne
  -- register after the second flipped byte
  intro h
  simp only [crc, List.foldl_cons, List.foldl_nil] at h
  have h1 : crcByte 0 (UInt8.ofNat (2 ^ a1.val)) = step1^[8] (W (UInt8.ofNat (2 ^ a1.val))) := by
    unfold crcByte W; simp [step8_eq_iterate]
  rw [h1] at h
  have hz := crc_zeros_iterate (step1^[8] (W (UInt8.ofNat (2 ^ a1.val)))) g
  simp only [crc] at hz
  rw [hz] at h
  have h2 : ∀ c, crcByte c (UInt8.ofNat (2 ^ a2.val)) = step8 (c ^^^ W (UInt8.ofNat (2 ^ a2.val))) := fun c => rfl
  rw [h2] at h
  have hx := step8_eq_zero _ h
  have heq : step1^[8 * g] (step1^[8] (W (UInt8.ofNat (2 ^ a1.val)))) = W (UInt8.ofNat (2 ^ a2.val)) := by
    have := congrArg (· ^^^ W (UInt8.ofNat (2 ^ a2.val))) hx
    simpa [BitVec.xor_assoc] using this
  rw [single_bit_byte a1, single_bit_byte a2, ← Function.iterate_add_apply, ← Function.iterate_add_apply] at heq
  have ha1 := a1.isLt
  have ha2 := a2.isLt
  have hcancel := iterate_cancel (8 * g + 8 + (31 - a1.val)) (31 - a2.val) (by omega) e0 heq
  have hpos : 0 < 8 * g + 8 + (31 - a1.val) - (31 - a2.val) := by omega
  have hlt : 8 * g + 8 + (31 - a1.val) - (31 - a2.val) < ordN := by
    have : 8 * g < 2 ^ 31 := by
      have : g < 268435456 := by simpa using hg
      omega
    unfold ordN; omega
  exact no_small_period _ hpos hlt hcancel

/-- the 32 single-bit words are the monomials x^(31-k) -/
theorem basis_as_iterate : ∀ k : Fin 32, basis k.val = step1^[31 - k.val] e0 := by
  decide +kernel

/-- **one bit of the stored checksum word and one bit of the data**: the checksum of the single-bit data pattern is never
a single-bit word (for fewer than 2^28 bytes after the flipped data bit) -/
theorem crc_one_bit_ne_basis (pre m : Nat) (a : Fin 8) (k : Fin 32) (hm : m < 2 ^ 28) :
    crc 0 (zeros pre ++ [UInt8.ofNat (2 ^ a.val)] ++ zeros m) ≠ basis k.val := by
  rw [crc_append, crc_append, crc_zeros_zero]
  intro h
  simp only [crc, List.foldl_cons, List.foldl_nil] at h
  have h1 : crcByte 0 (UInt8.ofNat (2 ^ a.val)) = step1^[8] (W (UInt8.ofNat (2 ^ a.val))) := by
    unfold crcByte W; simp [step8_eq_iterate]
  rw [h1] at h
  have hz := crc_zeros_iterate (step1^[8] (W (UInt8.ofNat (2 ^ a.val)))) m
  simp only [crc] at hz
  rw [hz, single_bit_byte a, basis_as_iterate k, ← Function.iterate_add_apply, ← Function.iterate_add_apply] at h
  have ha := a.isLt
  have hk := k.isLt
  have hcancel := iterate_cancel (8 * m + 8 + (31 - a.val)) (31 - k.val) (by omega) e0 h
  have hpos : 0 < 8 * m + 8 + (31 - a.val) - (31 - k.val) := by omega
  have hlt : 8 * m + 8 + (31 - a.val) - (31 - k.val) < ordN := by
    have : m < 268435456 := by simpa using hm
    unfold ordN; omega
  exact no_small_period _ hpos hlt hcancel

end Sb.Proofs
