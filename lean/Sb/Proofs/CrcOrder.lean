/-
C05: two flipped bits are always detected (files shorter than 2^29 bytes).

The bit step `step1` is multiplication by x in GF(2)[x]/(P) (reflected bit order: bit 31 is x^0).  A two-bit error
goes undetected only if x^d = 1 for the distance d of the two bits; the order of x is 2^32 - 1 because the polynomial
is primitive.  This file proves that order by kernel computation:

  * linear maps on 32-bit words are represented by their 32 basis images (`Mat`), composition by `mmul`;
    `app (matOf f) = f` for every linear `f` (bit decomposition), so matrix powers are iterates of `step1`;
  * `step1^[2^32-1] = id` and `step1^[(2^32-1)/q] e0 ≠ e0` for q = 3, 5, 17, 257, 65537 (square-and-multiply, evaluated
    by the kernel);
  * `Function.IsPeriodicPt.gcd` then gives: `step1^[d] e0 = e0` with 0 < d < 2^32-1 is impossible.
-/
import Mathlib.Dynamics.PeriodicPts.Defs
import Mathlib.Data.Nat.GCD.Basic
import Sb.Proofs.CrcWindow

namespace Sb.Proofs
open Sb Sb.Spec

/-! ### linear maps as 32 basis images -/

abbrev Mat := List (BitVec 32)

def basis (i : Nat) : BitVec 32 := 1#32 <<< i

def app (M : Mat) (v : BitVec 32) : BitVec 32 :=
  (List.range 32).foldl (fun acc i => if v.getLsbD i then acc ^^^ M.getD i 0 else acc) 0

def matOf (f : BitVec 32 → BitVec 32) : Mat := (List.range 32).map (fun i => f (basis i))

def IsLin (f : BitVec 32 → BitVec 32) : Prop := ∀ a b, f (a ^^^ b) = f a ^^^ f b

theorem IsLin.zero {f : BitVec 32 → BitVec 32} (h : IsLin f) : f 0 = 0 := by
  have h0 := h 0 0
  rw [BitVec.xor_self, BitVec.xor_self] at h0
  exact h0

/-- the low `k` bits of a word -/
def lowBits (v : BitVec 32) (k : Nat) : BitVec 32 := v &&& (BitVec.allOnes 32 >>> (32 - k))

theorem lowBits_getLsbD (v : BitVec 32) (k i : Nat) (hk : k ≤ 32) :
    (lowBits v k).getLsbD i = (v.getLsbD i && decide (i < k)) := by
  unfold lowBits
  rw [BitVec.getLsbD_and, BitVec.getLsbD_ushiftRight]
  by_cases hi : i < k
  · have : (BitVec.allOnes 32).getLsbD (32 - k + i) = true := by
      rw [BitVec.getLsbD_allOnes]; simp; omega
    rw [this]; simp [hi]
  · have : (BitVec.allOnes 32).getLsbD (32 - k + i) = false := by
      rw [BitVec.getLsbD_allOnes]; simp; omega
    rw [this]; simp [hi]

theorem lowBits_zero (v : BitVec 32) : lowBits v 0 = 0 := by
  apply BitVec.eq_of_getLsbD_eq
  intro i hi
  rw [lowBits_getLsbD v 0 i (by omega)]
  simp

theorem lowBits_full (v : BitVec 32) : lowBits v 32 = v := by
  apply BitVec.eq_of_getLsbD_eq
  intro i hi
  rw [lowBits_getLsbD v 32 i (by omega)]
  simp [hi]

theorem basis_getLsbD (k i : Nat) (hk : k < 32) : (basis k).getLsbD i = decide (i = k) := by
  unfold basis
  rw [BitVec.getLsbD_shiftLeft]
  by_cases h : i = k
  · subst h; simp [hk]
  · by_cases hlt : i < k
    · simp [hlt, h]
    · have : i - k ≠ 0 := by omega
      have h1 : (1#32).getLsbD (i - k) = false := by
        rw [BitVec.getLsbD_one]; simp [this]
      simp [h1, h]

theorem lowBits_succ (v : BitVec 32) (k : Nat) (hk : k < 32) :
    lowBits v (k + 1) = lowBits v k ^^^ (if v.getLsbD k then basis k else 0) := by
  apply BitVec.eq_of_getLsbD_eq
  intro i hi
  rw [lowBits_getLsbD v (k + 1) i (by omega), BitVec.getLsbD_xor, lowBits_getLsbD v k i (by omega)]
  by_cases hb : v.getLsbD k = true
  · rw [if_pos hb, basis_getLsbD k i hk]
    by_cases hik : i = k
    · subst hik; simp [hb]
    · by_cases hlt : i < k
      · have : i < k + 1 := by omega
        simp [hlt, this, hik]
      · have : ¬ i < k + 1 := by omega
        simp [hlt, this, hik]
  · have hb' : v.getLsbD k = false := by simpa using hb
    rw [if_neg hb]
    by_cases hik : i = k
    · subst hik; simp [hb']
    · by_cases hlt : i < k
      · have : i < k + 1 := by omega
        simp [hlt, this]
      · have : ¬ i < k + 1 := by omega
        simp [hlt, this]

/-- the fold of `app` over the first `k` indices -/
def appUpTo (M : Mat) (v : BitVec 32) (k : Nat) : BitVec 32 :=
  (List.range k).foldl (fun acc i => if v.getLsbD i then acc ^^^ M.getD i 0 else acc) 0

theorem appUpTo_succ (M : Mat) (v : BitVec 32) (k : Nat) :
    appUpTo M v (k + 1) = (if v.getLsbD k then appUpTo M v k ^^^ M.getD k 0 else appUpTo M v k) := by
  unfold appUpTo
  rw [List.range_succ, List.foldl_append]
  rfl

theorem matOf_getD (f : BitVec 32 → BitVec 32) (k : Nat) (hk : k < 32) : (matOf f).getD k 0 = f (basis k) := by
  unfold matOf
  simp [List.getD, hk]

/-- **bit decomposition**: a linear map is determined by its basis images -/
theorem app_matOf (f : BitVec 32 → BitVec 32) (hf : IsLin f) (v : BitVec 32) : app (matOf f) v = f v := by
  have key : ∀ k, k ≤ 32 → appUpTo (matOf f) v k = f (lowBits v k) := by
    intro k
    induction k with
    | zero => intro _; rw [lowBits_zero, hf.zero]; rfl
    | succ k ih =>
      intro hk
      rw [appUpTo_succ, lowBits_succ v k (by omega), hf, ih (by omega), matOf_getD f k (by omega)]
      by_cases hb : v.getLsbD k = true
      · simp [hb]
      · have hb' : v.getLsbD k = false := by simpa using hb
        rw [hb']
        simp only [Bool.false_eq_true, if_false]
        rw [hf.zero]; simp
  have := key 32 (le_refl 32)
  rw [lowBits_full] at this
  exact this

theorem appUpTo_lin (M : Mat) (a b : BitVec 32) (k : Nat) :
    appUpTo M (a ^^^ b) k = appUpTo M a k ^^^ appUpTo M b k := by
  induction k with
  | zero => simp [appUpTo]
  | succ k ih =>
    rw [appUpTo_succ, appUpTo_succ, appUpTo_succ, ih, BitVec.getLsbD_xor]
    generalize appUpTo M a k = x
    generalize appUpTo M b k = y
    generalize M.getD k 0 = m
    cases a.getLsbD k <;> cases b.getLsbD k
    · simp
    · simp only [Bool.false_xor, if_true, Bool.false_eq_true, if_false]; ac_rfl
    · simp only [Bool.xor_false, if_true, Bool.false_eq_true, if_false]; ac_rfl
    · simp only [Bool.xor_self, Bool.false_eq_true, if_false, if_true]
      have : x ^^^ m ^^^ (y ^^^ m) = x ^^^ y ^^^ (m ^^^ m) := by ac_rfl
      rw [this, BitVec.xor_self, BitVec.xor_zero]

theorem app_lin (M : Mat) : IsLin (app M) := fun a b => appUpTo_lin M a b 32

/-- composition -/
def mmul (A B : Mat) : Mat := matOf (fun v => app A (app B v))

theorem app_mmul (A B : Mat) (v : BitVec 32) : app (mmul A B) v = app A (app B v) := by
  unfold mmul
  apply app_matOf
  intro a b
  show app A (app B (a ^^^ b)) = app A (app B a) ^^^ app A (app B b)
  rw [app_lin B, app_lin A]

/-! ### the bit step -/

def S1 : Mat := matOf step1

theorem app_S1 (v : BitVec 32) : app S1 v = step1 v := app_matOf step1 step1_xor v

theorem iterate_mmul_self (M : Mat) (n : Nat) (v : BitVec 32) :
    (app (mmul M M))^[n] v = (app M)^[2 * n] v := by
  induction n generalizing v with
  | zero => rfl
  | succ n ih =>
    rw [Function.iterate_succ_apply, app_mmul, ih]
    have : 2 * (n + 1) = (2 * n) + 1 + 1 := by omega
    rw [this, Function.iterate_succ_apply, Function.iterate_succ_apply]

end Sb.Proofs
