/-
The offset-based segment decoder of `Sb.Model.Trajectory` agrees with the list-structured
specification `Sb.Spec.decodeSeg`.
-/
import Sb.Model.Trajectory
import Sb.Spec.Trajectory

namespace Sb.Proofs
open Sb Sb.Parsing Sb.Poly Sb.Traj Sb.Spec

theorem rd_of_drop (buf : Bytes) (off : Nat) (b : UInt8) (rest : Bytes) (h : buf.drop off = b :: rest) :
    rd buf off = .ok b.toNat := by
  unfold rd
  have : buf[off]? = some b := by
    have := congrArg List.head? h
    simpa [List.head?_drop] using this
  simp [this]

theorem drop_succ_of_drop (buf : Bytes) (off : Nat) (b : UInt8) (rest : Bytes) (h : buf.drop off = b :: rest) :
    buf.drop (off + 1) = rest := by
  have := congrArg (List.drop 1) h
  simpa [List.drop_drop] using this

theorem parseU16_of_drop (buf : Bytes) (off : Nat) (b0 b1 : UInt8) (rest : Bytes)
    (h : buf.drop off = b0 :: b1 :: rest) :
    parseU16 buf off = .ok (b0.toNat + 256 * b1.toNat, off + 2) ∧ buf.drop (off + 2) = rest := by
  have h1 := drop_succ_of_drop buf off b0 _ h
  have h2 := drop_succ_of_drop buf (off + 1) b1 _ h1
  refine ⟨?_, h2⟩
  unfold parseU16
  rw [rd_of_drop buf (off + 1) b1 rest h1, rd_of_drop buf off b0 _ h]
  simp only [bind, Except.bind, pure, Except.pure, Nat.shiftLeft_eq]
  congr 2
  omega

theorem parseI16_of_drop (buf : Bytes) (off : Nat) (b0 b1 : UInt8) (rest : Bytes)
    (h : buf.drop off = b0 :: b1 :: rest) :
    parseI16 buf off = .ok (i16le b0 b1, off + 2) := by
  unfold parseI16
  rw [(parseU16_of_drop buf off b0 b1 rest h).1]
  rfl

theorem parseCoord_of_drop (buf : Bytes) (scale off : Nat) (b0 b1 : UInt8) (rest : Bytes)
    (h : buf.drop off = b0 :: b1 :: rest) :
    parseCoord buf scale off = .ok (coordOf scale b0 b1, off + 2) := by
  unfold parseCoord
  rw [parseI16_of_drop buf off b0 b1 rest h]
  rfl

theorem angle_reduce (v : Int) :
    (if Int.tmod v 3600 < 0 then Int.tmod v 3600 + 3600 else Int.tmod v 3600) = v % 3600 := by
  by_cases hv : v < 0
  · have h1 := @Int.tmod_eq_emod v 3600
    by_cases hd : (3600 : Int) ∣ v
    · have hz : v % 3600 = 0 := Int.emod_eq_zero_of_dvd hd
      simp only [hd, or_true, if_true] at h1
      rw [h1, hz]; simp
    · have hn : ¬ (0 ≤ v ∨ (3600 : Int) ∣ v) := by
        intro h; rcases h with h | h
        · omega
        · exact hd h
      simp only [hn, if_false] at h1
      have : (Int.natAbs 3600 : Int) = 3600 := rfl
      rw [this] at h1
      have hlt : v % 3600 < 3600 := Int.emod_lt_of_pos v (by decide)
      have hlt' : Int.tmod v 3600 < 0 := by omega
      simp only [hlt', if_true]; omega
  · have h1 : Int.tmod v 3600 = v % 3600 := Int.tmod_eq_emod_of_nonneg (by omega)
    rw [h1]
    have : ¬ (v % 3600 < 0) := by omega
    simp [this]

theorem parseAngle_of_drop (buf : Bytes) (off : Nat) (b0 b1 : UInt8) (rest : Bytes)
    (h : buf.drop off = b0 :: b1 :: rest) :
    parseAngle buf off = .ok (angleOf b0 b1, off + 2) := by
  unfold parseAngle
  rw [parseI16_of_drop buf off b0 b1 rest h]
  simp only [bind, Except.bind, pure, Except.pure, angleOf]
  have hm : ((Gen.angleModulus : Nat) : Int) = 3600 := rfl
  have hd : ((Gen.angleDivisor : Nat) : Rat) = 10 := rfl
  rw [hm, hd, angle_reduce]

theorem takeVals_some (f : UInt8 → UInt8 → Rat) : ∀ (k : Nat) (bytes : Bytes), 2 * k ≤ bytes.length →
    ∃ vs, takeVals f k bytes = some (vs, bytes.drop (2 * k)) ∧ vs.length = k
  | 0, bytes, _ => ⟨[], by simp [takeVals]⟩
  | k + 1, [], h => by simp at h
  | k + 1, [_], h => by simp at h; omega
  | k + 1, b0 :: b1 :: rest, h => by
    have h' : 2 * k ≤ rest.length := by simp at h; omega
    obtain ⟨vs, hv, hl⟩ := takeVals_some f k rest h'
    refine ⟨f b0 b1 :: vs, ?_, by simp [hl]⟩
    have : 2 * (k + 1) = 2 * k + 2 := by omega
    simp [takeVals, hv, this]

theorem takeVals_none (f : UInt8 → UInt8 → Rat) : ∀ (k : Nat) (bytes : Bytes), bytes.length < 2 * k →
    takeVals f k bytes = none
  | 0, _, h => by omega
  | k + 1, [], _ => by simp [takeVals]
  | k + 1, [_], _ => by simp [takeVals]
  | k + 1, b0 :: b1 :: rest, h => by
    have h' : rest.length < 2 * k := by simp at h; omega
    simp [takeVals, takeVals_none f k rest h']

/-- reading `k` values of one axis through offsets = taking them from the byte list -/
theorem parseAxis_of_take (buf : Bytes) (angle : Bool) (scale : Nat) :
    ∀ (k off : Nat) (acc : List Rat) (bytes : Bytes) (vs : List Rat) (r : Bytes),
      buf.drop off = bytes →
      takeVals (if angle then angleOf else coordOf scale) k bytes = some (vs, r) →
      parseAxis buf angle scale k off acc = .ok (acc.reverse ++ vs, off + 2 * k) ∧ buf.drop (off + 2 * k) = r
  | 0, off, acc, bytes, vs, r, hb, ht => by
    simp only [takeVals] at ht
    injection ht with ht; injection ht with h1 h2
    subst h1 h2
    simp [parseAxis, hb]
  | k + 1, off, acc, bytes, vs, r, hb, ht => by
    match bytes, ht with
    | b0 :: b1 :: rest, ht =>
      simp only [takeVals] at ht
      split at ht
      · rename_i vs' r' hk
        injection ht with ht; injection ht with h1 h2
        subst h1 h2
        have hd : buf.drop (off + 2) = rest := (parseU16_of_drop buf off b0 b1 rest hb).2
        have ih := parseAxis_of_take buf angle scale k (off + 2)
          ((if angle then angleOf else coordOf scale) b0 b1 :: acc) rest vs' r' hd hk
        have harith : off + 2 + 2 * k = off + 2 * (k + 1) := by omega
        rw [harith] at ih
        refine ⟨?_, ih.2⟩
        unfold parseAxis
        cases angle with
        | true =>
          simp only [if_true, parseAngle_of_drop buf off b0 b1 rest hb, bind, Except.bind]
          simp only [if_true] at ih
          rw [ih.1]; simp
        | false =>
          simp only [Bool.false_eq_true, if_false, parseCoord_of_drop buf scale off b0 b1 rest hb, bind, Except.bind]
          simp only [Bool.false_eq_true, if_false] at ih
          rw [ih.1]; simp
      · cases ht

theorem numCoords_eq (x : Nat) : numCoords x - 1 = storedPoints x := by
  unfold numCoords storedPoints
  have : x &&& 3 = x % 4 := Nat.and_two_pow_sub_one_eq_mod x 2
  rw [this, Nat.shiftLeft_eq]; simp

theorem segSize_eq (h : Nat) :
    segSize h = 3 + 2 * (storedPoints h + storedPoints (h / 4) + storedPoints (h / 16) + storedPoints (h / 64)) := by
  unfold segSize
  simp only [numCoords_eq, Nat.shiftRight_eq_div_pow]

/-- the segment the model builds from a decoded `SegSpec` -/
def segOfSpec (sec : Nat → Rat) (offset len T : Nat) (start : Vec4) (s : SegSpec) : Seg :=
  mkSeg sec offset len T s.durMs start s.ctrl.x s.ctrl.y s.ctrl.z s.ctrl.yaw

/-- **Segment decoding.** Building the segment at an offset agrees with decoding it from the
byte list that starts there; an incomplete segment yields the terminal pseudo-segment. -/
theorem buildSegment_spec (sec : Nat → Rat) (tr : Traj) (offset T : Nat) (start : Vec4) (rest : Bytes)
    (hs : tr.scale ≠ 0) (hr : tr.buf.drop offset = rest) (hoff : offset ≤ tr.buf.length) :
    (decodeSeg tr.scale start rest = none ∧
        buildSegment sec tr offset T start = .ok (terminalSeg sec offset T start)) ∨
    (∃ s r, decodeSeg tr.scale start rest = some (s, r) ∧ r.length + 3 ≤ rest.length ∧
        tr.buf.drop (offset + (rest.length - r.length)) = r ∧
        buildSegment sec tr offset T start = .ok (segOfSpec sec offset (rest.length - r.length) T start s)) := by
  have hlen : rest.length = tr.buf.length - offset := by rw [← hr]; simp
  unfold buildSegment
  rcases rest with _ | ⟨h, tl⟩
  · left
    have : offset ≥ tr.buf.length := by simp at hlen; omega
    simp [decodeSeg, this]
  · have hlt : ¬ (offset ≥ tr.buf.length ∨ tr.scale = 0) := by
      simp at hlen; intro hh; rcases hh with hh | hh
      · omega
      · exact hs hh
    simp only [hlt, if_false, rd_of_drop tr.buf offset h tl hr, bind, Except.bind]
    have htl : tr.buf.drop (offset + 1) = tl := drop_succ_of_drop _ _ _ _ hr
    rw [segSize_eq]
    generalize ha : storedPoints h.toNat = a
    generalize hb : storedPoints (h.toNat / 4) = b
    generalize hc : storedPoints (h.toNat / 16) = c
    generalize hd : storedPoints (h.toNat / 64) = d
    by_cases hfit : offset + (3 + 2 * (a + b + c + d)) > tr.buf.length
    · -- does not fit
      left
      simp only [hfit, if_true, and_true]
      rcases tl with _ | ⟨d0, _ | ⟨d1, r0⟩⟩
      · simp [decodeSeg]
      · simp [decodeSeg]
      · simp only [decodeSeg, ha, hb, hc, hd]
        simp only [List.length_cons] at hlen
        by_cases h1 : r0.length < 2 * a
        · rw [takeVals_none _ a r0 h1]
        · obtain ⟨xs, hx, _⟩ := takeVals_some (coordOf tr.scale) a r0 (by omega)
          simp only [hx]
          by_cases h2 : (r0.drop (2 * a)).length < 2 * b
          · rw [takeVals_none _ b _ h2]
          · obtain ⟨ys, hy, _⟩ := takeVals_some (coordOf tr.scale) b (r0.drop (2 * a)) (by omega)
            simp only [hy]
            by_cases h3 : ((r0.drop (2 * a)).drop (2 * b)).length < 2 * c
            · rw [takeVals_none _ c _ h3]
            · obtain ⟨zs, hz, _⟩ := takeVals_some (coordOf tr.scale) c ((r0.drop (2 * a)).drop (2 * b)) (by omega)
              simp only [hz]
              have h4 : (((r0.drop (2 * a)).drop (2 * b)).drop (2 * c)).length < 2 * d := by
                simp only [List.length_drop] at h1 h2 h3 ⊢; omega
              rw [takeVals_none _ d _ h4]
    · -- fits
      right
      simp only [hfit, if_false]
      rcases tl with _ | ⟨d0, _ | ⟨d1, r0⟩⟩
      · simp at hlen; omega
      · simp at hlen; omega
      · simp only [List.length_cons] at hlen
        have hr0 : tr.buf.drop (offset + 1 + 2) = r0 := (parseU16_of_drop tr.buf (offset + 1) d0 d1 r0 htl).2
        obtain ⟨xs, hx, _⟩ := takeVals_some (coordOf tr.scale) a r0 (by omega)
        obtain ⟨ys, hy, _⟩ := takeVals_some (coordOf tr.scale) b (r0.drop (2 * a)) (by simp only [List.length_drop]; omega)
        obtain ⟨zs, hz, _⟩ := takeVals_some (coordOf tr.scale) c ((r0.drop (2 * a)).drop (2 * b))
          (by simp only [List.length_drop]; omega)
        obtain ⟨ws, hw, _⟩ := takeVals_some angleOf d (((r0.drop (2 * a)).drop (2 * b)).drop (2 * c))
          (by simp only [List.length_drop]; omega)
        have px := parseAxis_of_take tr.buf false tr.scale a (offset + 1 + 2) [start.x] r0 xs _ hr0 (by simp only [Bool.false_eq_true, if_false]; exact hx)
        have py := parseAxis_of_take tr.buf false tr.scale b (offset + 1 + 2 + 2 * a) [start.y] _ ys _ px.2 (by simp only [Bool.false_eq_true, if_false]; exact hy)
        have pz := parseAxis_of_take tr.buf false tr.scale c (offset + 1 + 2 + 2 * a + 2 * b) [start.z] _ zs _ py.2 (by simp only [Bool.false_eq_true, if_false]; exact hz)
        have pw := parseAxis_of_take tr.buf true tr.scale d (offset + 1 + 2 + 2 * a + 2 * b + 2 * c) [start.yaw] _ ws _ pz.2 (by simp only [if_true]; exact hw)
        refine ⟨{ durMs := d0.toNat + 256 * d1.toNat, ctrl := ⟨start.x :: xs, start.y :: ys, start.z :: zs, start.yaw :: ws⟩ },
          (((r0.drop (2 * a)).drop (2 * b)).drop (2 * c)).drop (2 * d), ?_, ?_, ?_, ?_⟩
        · simp only [decodeSeg, ha, hb, hc, hd, hx, hy, hz, hw]
        · simp only [List.length_drop, List.length_cons]; omega
        · have : offset + ((r0.length + 1 + 1 + 1) - ((((r0.drop (2 * a)).drop (2 * b)).drop (2 * c)).drop (2 * d)).length)
              = offset + 1 + 2 + 2 * a + 2 * b + 2 * c + 2 * d := by
            simp only [List.length_drop]; omega
          simp only [List.length_cons]
          rw [this]; exact pw.2
        · rw [(parseU16_of_drop tr.buf (offset + 1) d0 d1 r0 htl).1]
          simp only [numCoords_eq, Nat.shiftRight_eq_div_pow, ha]
          have e4 : h.toNat / 2 ^ 2 = h.toNat / 4 := rfl
          have e16 : h.toNat / 2 ^ 4 = h.toNat / 16 := rfl
          have e64 : h.toNat / 2 ^ 6 = h.toNat / 64 := rfl
          rw [e4, e16, e64, hb, hc, hd, px.1]
          simp only [py.1, pz.1, pw.1, pure, Except.pure]
          congr 1
          unfold segOfSpec
          simp only [List.reverse_cons, List.reverse_nil, List.nil_append, List.singleton_append]
          congr 1
          simp only [List.length_drop, List.length_cons]; omega

end Sb.Proofs
