/-
C09 / C02: what happens at a timestamp that IS the start instant of a command.

* a fresh player's seek lands exactly on the chain (`fresh_seek_exact`); when the timestamp is the next wake-up of the
  chain point it lands on, the answer is the state after the FIRST command scheduled at that instant
  (`fresh_at_instant`);
* any two players reachable by seeks that are asked the same timestamp show two points of the fresh player's wake-up
  chain, and every chain step between the two is a command of the running program that starts exactly at that
  timestamp (`latitude`): answers may differ only by a further prefix of the commands scheduled at that instant.
-/
import Sb.Proofs.LightPlayer

namespace Sb.Proofs.Light
open Sb Sb.Lights

section
variable (prog : Bytes)

/-- a fresh player's replay loop walks the chain itself and stops at the first chain point whose next wake-up is not
before the timestamp -/
theorem fresh_seek_exact (t fuel : Nat) (r0 : Player) (h : (Player.fresh prog).seek t fuel = .ok r0) :
    ∃ j0, (∀ i, i < j0 → (chain prog i).next < t) ∧ t ≤ (chain prog j0).next ∧ r0 = finish (chain prog j0) t := by
  rw [seek_eq] at h
  have hcur : ¬ (t < (Player.fresh prog).current) := by
    have : (Player.fresh prog).current = 0 := rfl
    omega
  rw [if_neg hcur] at h
  cases hl : seekLoop t fuel (Player.fresh prog) with
  | error e => rw [hl] at h; cases h
  | ok q =>
    rw [hl] at h
    have hr : r0 = finish q t := by simp only [Except.map] at h; cases h; rfl
    have hI := seekLoop_inv (t := t) (fun q => ∃ n, q = chain prog n ∧ ∀ i, i < n → (chain prog i).next < t)
      (by
        rintro q ⟨n, rfl, hn⟩ hlt
        refine ⟨n + 1, (chain_succ prog n).symm, ?_⟩
        intro i hi
        by_cases hin : i = n
        · subst hin; exact hlt
        · exact hn i (by omega))
      fuel (Player.fresh prog) q ⟨0, rfl, fun i hi => by omega⟩ hl
    obtain ⟨⟨n, rfl, hn⟩, hle⟩ := hI
    exact ⟨n, hn, hle, hr⟩

/-- **at the exact start instant of a command a fresh player shows the state after the first command scheduled at that
instant**: its executor is the next chain point's -/
theorem fresh_at_instant (t fuel : Nat) (r0 : Player) (h : (Player.fresh prog).seek t fuel = .ok r0)
    (j0 : Nat) (hmin : ∀ i, i < j0 → (chain prog i).next < t) (hinst : (chain prog j0).next = t) :
    r0.exec = (chain prog (j0 + 1)).exec := by
  obtain ⟨j, hj1, hj2, hr⟩ := fresh_seek_exact prog t fuel r0 h
  have hjj : j = j0 := by
    rcases Nat.lt_trichotomy j j0 with hlt | heq | hgt
    · have := hmin j hlt; omega
    · exact heq
    · have := hj1 j0 hgt; omega
  subst hjj
  rw [hr, chain_exec, hinst]
  rfl

/-- what chain point `k` looks like at time `t`: the running fade evaluated at `t`, the pyro mask, the ended flag -/
def view (k t : Nat) : Color × Nat × Bool :=
  ((stepFade (chain prog k).exec t).color, (chain prog k).exec.pyro, (chain prog k).exec.ended)

/-- the player shows chain point `k` (for a player past the end: the first ended chain point) -/
structure At (r : Player) (k : Nat) : Prop where
  k1 : 1 ≤ k
  before : liveUpTo prog k
  cur : (chain prog k).current ≤ r.current
  obs : obs3 r.exec = view prog k r.current
  span : (chain prog k).exec.ended = false →
    (r.current < (chain prog k).next ∨ r.current = (chain prog k).current) ∧ liveUpTo prog (k + 1)

/-- every player that a seek leaves behind shows some chain point -/
theorem at_of_inv (r : Player) (h : Inv prog r) (hne : r.exec.resetFlag = false) : ∃ k, At prog r k := by
  rcases h with ⟨_, _, hr⟩ | ⟨k, hk, hl, hs, hn, hc1, hc2, hc3, hcol⟩ | ⟨m, hm, hl, he, hd, hc⟩
  · rw [hr.ra] at hne; exact absurd hne (by decide)
  · refine ⟨k, hk, hl.mono (by omega), hc1, ?_, fun _ => ⟨hc3, hl⟩⟩
    unfold obs3 view
    rw [hcol, hs.pyro, hs.ended]
  · refine ⟨m, hm, hl, hc, ?_, fun hne' => by rw [he] at hne'; exact absurd hne' (by decide)⟩
    have G := chain_good prog m hm hl
    have hsf : stepFade (chain prog m).exec r.current = (chain prog m).exec := by
      unfold stepFade; simp [G.ended_tr he]
    unfold obs3 view
    rw [hsf, hd.color, hd.pyro, hd.ended, he]

/-- **between two players asked the same timestamp lie only commands that start at that timestamp** -/
theorem at_between (r r' : Player) (t k k' : Nat) (h : At prog r k) (h' : At prog r' k') (ht : r.current = t) (ht' : r'.current = t)
    (hkk : k ≤ k') : ∀ j, k ≤ j → j < k' → (chain prog j).next = t ∧ (chain prog j).exec.ended = false := by
  intro j hj1 hj2
  have hlive : (chain prog j).exec.ended = false := h'.before j (by have := h.k1; omega) hj2
  refine ⟨?_, hlive⟩
  have hup : (chain prog j).next ≤ t := by
    have := chain_next_le_current prog j k' hj2 h'.before
    have := h'.cur
    omega
  have hklive : (chain prog k).exec.ended = false := h'.before k h.k1 (by omega)
  obtain ⟨hsp, hl1⟩ := h.span hklive
  have Gk := chain_good prog k h.k1 h.before
  have hk_le : t ≤ (chain prog k).next := by
    rcases hsp with h1 | h1
    · omega
    · have := Gk.t.le
      rw [← Gk.next_eq] at this
      omega
  have hlow : t ≤ (chain prog j).next := by
    by_cases hjk : j = k
    · subst hjk; exact hk_le
    · have h2 := chain_next_le_current prog k j (by omega) (h'.before.mono (by omega))
      have Gj := chain_good prog j (by have := h.k1; omega) (h'.before.mono (by omega))
      have h3 := Gj.t.le
      rw [← Gj.next_eq] at h3
      omega
  omega

end

/-- a step always leaves the reset flag cleared -/
theorem step_clears_reset (e : Exec) (t : Nat) : (step e t).resetFlag = false := by
  rw [step_eq]
  have h1 : (stepReset e t).resetFlag = false := by
    unfold stepReset; split <;> simp_all [setColorAndResetTransition, setClockOrigin]
  split
  · exact h1
  · obtain ⟨f1', _, f3'⟩ := stepFade_frame (stepReset e t) t
    unfold stepWake
    split
    · by_cases he : (stepFade (stepReset e t) t).ended = false
      · have P := execCommand_post { stepFade (stepReset e t) t with cmdStart := t } (by simpa using he)
        rw [P.resetFlag]; simpa using f1'.trans h1
      · have he' : (stepFade (stepReset e t) t).ended = true := by simpa using he
        unfold execCommand
        simp only [he', if_true]
        exact f1'.trans h1
    · exact f1'.trans h1

/-- what a seek leaves behind has made at least one step -/
theorem seek_reset (p r : Player) (t fuel : Nat) (h : p.seek t fuel = .ok r) : r.exec.resetFlag = false ∧ r.current = t := by
  rw [seek_eq] at h
  cases hl : seekLoop t fuel (if t < p.current then { exec := rewindExec p.exec, current := 0, next := 0 } else p) with
  | error e => rw [hl] at h; cases h
  | ok q =>
    rw [hl] at h
    have : r = finish q t := by simp only [Except.map] at h; cases h; rfl
    subst this
    exact ⟨step_clears_reset q.exec t, rfl⟩

section
variable (prog : Bytes)

theorem first_ended : ∀ n, ¬ liveUpTo prog n →
    ∃ m, 1 ≤ m ∧ m < n ∧ liveUpTo prog m ∧ (chain prog m).exec.ended = true := by
  intro n
  induction n with
  | zero => intro h; exact absurd (fun i h1 h2 => by omega) h
  | succ n ih =>
    intro h
    by_cases hn : liveUpTo prog n
    · -- the first ended one is n itself
      have hne : ¬ ((chain prog n).exec.ended = false) ∧ 1 ≤ n := by
        by_contra hc
        apply h
        intro i h1 h2
        by_cases hi : i = n
        · subst hi
          by_contra hx
          exact hc ⟨hx, h1⟩
        · exact hn i h1 (by omega)
      exact ⟨n, hne.2, by omega, hn, by simpa using hne.1⟩
    · obtain ⟨m, a, b, c, d⟩ := ih hn
      exact ⟨m, a, by omega, c, d⟩

/-- after the first ended chain point nothing observable changes along the chain -/
theorem chain_dead (m : Nat) (hm : 1 ≤ m) (hl : liveUpTo prog m) (he : (chain prog m).exec.ended = true) :
    ∀ j, m ≤ j → DeadEq (chain prog j).exec (chain prog m).exec := by
  have G := chain_good prog m hm hl
  intro j hj
  induction j with
  | zero => omega
  | succ j ih =>
    by_cases hjm : j + 1 = m
    · rw [hjm]; exact ⟨he, G.t.reset, rfl, rfl, rfl, rfl⟩
    · rw [chain_exec]
      exact (ih (by omega)).step _

variable (H : Nat)
variable (short : ∀ k, liveUpTo prog (k + 1) → (chain prog k).current ≤ H → (chain prog k).exec.trActive = true →
  (chain prog k).exec.trDuration ≤ 16777216)
include short

/-- **the fresh player shows the earliest chain point of all**: whatever chain point another player shows at the same
timestamp, the fresh player's is not later -/
theorem fresh_least (t fuel : Nat) (htH : t ≤ H) (r0 : Player) (h : (Player.fresh prog).seek t fuel = .ok r0) :
    ∃ k0, At prog r0 k0 ∧ ∀ (r : Player) (k : Nat), At prog r k → r.current = t → k0 ≤ k := by
  obtain ⟨j0, hmin, hle, hr⟩ := fresh_seek_exact prog t fuel r0 h
  have hcur0 : r0.current = t := by rw [hr]; rfl
  -- a player that shows a live chain point before j0, or j0 itself at its next wake-up, does not exist
  have key : ∀ (r : Player) (k : Nat), At prog r k → r.current = t → (chain prog k).exec.ended = false →
      j0 ≤ k ∧ (k = j0 → t < (chain prog j0).next) := by
    intro r k ha hct hlive
    obtain ⟨hsp, hl1⟩ := ha.span hlive
    rw [hct] at hsp
    have Gk := chain_good prog k ha.k1 ha.before
    have hkle : (chain prog k).current ≤ (chain prog k).next := by
      have := Gk.t.le; rw [← Gk.next_eq] at this; exact this
    have hcurk : (chain prog k).current = (chain prog (k - 1)).next := by
      have : k = (k - 1) + 1 := by have := ha.k1; omega
      rw [this, chain_current]; simp
    constructor
    · by_contra hlt
      have h1 := hmin k (by omega)
      rcases hsp with h2 | h2 <;> omega
    · intro hkj
      subst hkj
      rcases hsp with h2 | h2
      · exact h2
      · exfalso
        have h1 := hmin (k - 1) (by have := ha.k1; omega)
        omega
  by_cases hlive : liveUpTo prog (j0 + 1)
  · by_cases hlt : t < (chain prog j0).next
    · -- strictly inside the span of chain point j0
      have hj1 : 1 ≤ j0 := by
        by_contra h0
        have : j0 = 0 := by omega
        subst this
        rw [chain0_next] at hlt; omega
      have G := chain_good prog j0 hj1 (hlive.mono (by omega))
      have hne : (chain prog j0).exec.ended = false := hlive j0 hj1 (by omega)
      have hcj : (chain prog j0).current < t := by
        have : j0 = (j0 - 1) + 1 := by omega
        rw [this, chain_current]
        exact hmin (j0 - 1) (by omega)
      obtain ⟨e1, e2⟩ := interior_step G.t hne (le_of_lt hcj) (by rw [← G.next_eq]; exact hlt) (short j0 hlive (le_trans (le_of_lt hcj) htH))
      refine ⟨j0, ⟨hj1, hlive.mono (by omega), by rw [hcur0]; exact le_of_lt hcj, ?_, fun _ => ⟨Or.inl (by rw [hcur0]; exact hlt), hlive⟩⟩, ?_⟩
      · rw [hcur0, hr]
        show obs3 (step (chain prog j0).exec t) = _
        rw [e1]
        unfold obs3 view
        rw [e2.pyro, e2.ended]
      · intro r k ha hct
        by_cases hkl : (chain prog k).exec.ended = false
        · exact (key r k ha hct hkl).1
        · -- an ended chain point at or before j0 contradicts liveness up to j0
          by_contra hlt'
          exact hkl (hlive k ha.k1 (by omega))
    · -- exactly at the next wake-up: the first command scheduled there is executed
      have hinst : (chain prog j0).next = t := by omega
      have hex : r0.exec = (chain prog (j0 + 1)).exec := fresh_at_instant prog t fuel r0 h j0 hmin hinst
      have G := chain_good prog (j0 + 1) (by omega) hlive
      have hc1 : (chain prog (j0 + 1)).current = t := by rw [chain_current, hinst]
      refine ⟨j0 + 1, ⟨by omega, hlive, by rw [hcur0, hc1], ?_, ?_⟩, ?_⟩
      · rw [hcur0, hex]
        unfold obs3 view
        have c1 : ColorOK (chain prog (j0 + 1)).exec t := hc1 ▸ G.c
        rw [stepFade_color_self c1]
      · intro hne
        refine ⟨Or.inr (by rw [hcur0, hc1]), ?_⟩
        intro i h1 h2
        by_cases hi : i = j0 + 1
        · subst hi; exact hne
        · exact hlive i h1 (by omega)
      · intro r k ha hct
        by_cases hkl : (chain prog k).exec.ended = false
        · obtain ⟨k1, k2⟩ := key r k ha hct hkl
          by_contra hlt'
          have : k = j0 := by omega
          have := k2 this
          omega
        · by_contra hlt'
          exact hkl (hlive k ha.k1 (by omega))
  · -- the program has ended at or before chain point j0
    obtain ⟨m, hm1, hm2, hml, hme⟩ := first_ended prog (j0 + 1) hlive
    have hd := (chain_dead prog m hm1 hml hme j0 (by omega)).step t
    have G := chain_good prog m hm1 hml
    have hcm : (chain prog m).current ≤ t := by
      have : m = (m - 1) + 1 := by omega
      rw [this, chain_current]
      by_cases hmj : m - 1 < j0
      · exact le_of_lt (hmin (m - 1) hmj)
      · have : m - 1 = j0 := by omega
        rw [this]
        -- then t ≤ next(j0) and ... we only need current(m) ≤ t; here m = j0 + 1 is excluded by m < j0 + 1
        omega
    refine ⟨m, ⟨hm1, hml, by rw [hcur0]; exact hcm, ?_, fun hne => by rw [hme] at hne; exact absurd hne (by decide)⟩, ?_⟩
    · rw [hcur0, hr]
      show obs3 (step (chain prog j0).exec t) = _
      have hsf : stepFade (chain prog m).exec t = (chain prog m).exec := by
        unfold stepFade; simp [G.ended_tr hme]
      unfold obs3 view
      rw [hsf, hd.color, hd.pyro, hd.ended, hme]
    · intro r k ha hct
      by_cases hkl : (chain prog k).exec.ended = false
      · have := (key r k ha hct hkl).1; omega
      · by_contra hlt'
        exact hkl (hml k ha.k1 (by omega))

end

end Sb.Proofs.Light
