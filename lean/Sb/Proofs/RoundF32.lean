/-
Monotonicity of the binary32 rounding `roundF32` used by the model (round to nearest, ties to even, gradual underflow),
and with it of the milliseconds-to-seconds conversion `secF32` that the C code performs with float division.
Consequence: the hypothesis `MonoSec` of the history-independence theorems (C08) holds for the real conversion.
-/
import Mathlib.Algebra.Order.Field.Rat
import Mathlib.Algebra.Order.Field.Power
import Mathlib.Algebra.Order.Floor.Ring
import Mathlib.Tactic.Ring
import Mathlib.Tactic.Linarith
import Mathlib.Tactic.Positivity
import Mathlib.Tactic.FieldSimp
import Mathlib.Tactic.NormNum
import Sb.Model.Basic

namespace Sb.Proofs
open Sb

theorem pow2_eq_zpow (e : Int) : pow2 e = (2 : ℚ) ^ e := by
  unfold pow2
  by_cases h : e ≥ 0
  · rw [if_pos h]
    obtain ⟨n, rfl⟩ := Int.eq_ofNat_of_zero_le h
    simp
  · rw [if_neg h]
    have hneg : e < 0 := by omega
    obtain ⟨n, hn⟩ := Int.exists_eq_neg_ofNat (le_of_lt hneg)
    subst hn
    simp [zpow_neg]

theorem pow2_pos (e : Int) : 0 < pow2 e := by rw [pow2_eq_zpow]; positivity

theorem pow2_add (a b : Int) : pow2 (a + b) = pow2 a * pow2 b := by
  rw [pow2_eq_zpow, pow2_eq_zpow, pow2_eq_zpow, zpow_add₀ (by norm_num)]

theorem pow2_mono {a b : Int} (h : a ≤ b) : pow2 a ≤ pow2 b := by
  rw [pow2_eq_zpow, pow2_eq_zpow]
  exact zpow_le_zpow_right₀ (by norm_num) h

theorem pow2_lt {a b : Int} (h : a < b) : pow2 a < pow2 b := by
  rw [pow2_eq_zpow, pow2_eq_zpow]
  exact zpow_lt_zpow_right₀ (by norm_num) h

theorem pow2_lt_iff {a b : Int} : pow2 a < pow2 b ↔ a < b := by
  constructor
  · intro h
    by_contra hn
    have := pow2_mono (not_lt.mp hn)
    linarith
  · exact pow2_lt

theorem pow2_nat (k : Nat) : pow2 (k : Int) = ((2 ^ k : Nat) : Rat) := by
  rw [pow2_eq_zpow]; simp

/-! ### `floorLog2` -/

theorem floorLog2_spec (a : Rat) (ha : 0 < a) : pow2 (floorLog2 a) ≤ a ∧ a < pow2 (floorLog2 a + 1) := by
  have hnum : 0 < a.num := Rat.num_pos.mpr ha
  have hN : a.num.natAbs ≠ 0 := by omega
  have hD : a.den ≠ 0 := a.den_nz
  have hNq : (a.num : ℚ) = (a.num.natAbs : ℚ) := by
    have : (a.num.natAbs : Int) = a.num := Int.natAbs_of_nonneg (le_of_lt hnum)
    rw [← this]; simp
  have hq : a = (a.num.natAbs : ℚ) / (a.den : ℚ) := by
    rw [← hNq]; exact (Rat.num_div_den a).symm
  have hDpos : (0 : ℚ) < (a.den : ℚ) := by exact_mod_cast Nat.pos_of_ne_zero hD
  -- bounds of numerator and denominator by powers of two
  have hN1 : ((2 ^ a.num.natAbs.log2 : Nat) : ℚ) ≤ (a.num.natAbs : ℚ) := by exact_mod_cast Nat.log2_self_le hN
  have hN2 : (a.num.natAbs : ℚ) < ((2 ^ (a.num.natAbs.log2 + 1) : Nat) : ℚ) := by exact_mod_cast Nat.lt_log2_self
  have hD1 : ((2 ^ a.den.log2 : Nat) : ℚ) ≤ (a.den : ℚ) := by exact_mod_cast Nat.log2_self_le hD
  have hD2 : (a.den : ℚ) < ((2 ^ (a.den.log2 + 1) : Nat) : ℚ) := by exact_mod_cast Nat.lt_log2_self
  rw [← pow2_nat] at hN1 hN2 hD1 hD2
  set ln : Int := (a.num.natAbs.log2 : Int) with hln
  set ld : Int := (a.den.log2 : Int) with hld
  have hN2' : (a.num.natAbs : ℚ) < pow2 (ln + 1) := by simpa [hln] using hN2
  have hD2' : (a.den : ℚ) < pow2 (ld + 1) := by simpa [hld] using hD2
  -- a < 2^(e0+1)
  have hup : a < pow2 (ln - ld + 1) := by
    rw [hq, div_lt_iff₀ hDpos]
    calc (a.num.natAbs : ℚ) < pow2 (ln + 1) := hN2'
      _ = pow2 (ln - ld + 1) * pow2 ld := by rw [← pow2_add]; congr 1; ring
      _ ≤ pow2 (ln - ld + 1) * (a.den : ℚ) := by
          apply mul_le_mul_of_nonneg_left hD1 (le_of_lt (pow2_pos _))
  -- 2^(e0-1) < a
  have hlo : pow2 (ln - ld - 1) < a := by
    rw [hq, lt_div_iff₀ hDpos]
    calc pow2 (ln - ld - 1) * (a.den : ℚ) < pow2 (ln - ld - 1) * pow2 (ld + 1) := by
          apply mul_lt_mul_of_pos_left hD2' (pow2_pos _)
      _ = pow2 ln := by rw [← pow2_add]; congr 1; ring
      _ ≤ (a.num.natAbs : ℚ) := hN1
  unfold floorLog2
  simp only
  by_cases hc : pow2 (ln - ld) ≤ a
  · rw [if_pos hc]; exact ⟨hc, hup⟩
  · rw [if_neg hc]
    refine ⟨le_of_lt hlo, ?_⟩
    have : ln - ld - 1 + 1 = ln - ld := by ring
    rw [this]; exact lt_of_not_ge hc

theorem floorLog2_unique (a : Rat) (e : Int) (h1 : pow2 e ≤ a) (h2 : a < pow2 (e + 1)) : floorLog2 a = e := by
  have ha : 0 < a := lt_of_lt_of_le (pow2_pos e) h1
  obtain ⟨s1, s2⟩ := floorLog2_spec a ha
  have hA : floorLog2 a < e + 1 := pow2_lt_iff.mp (lt_of_le_of_lt s1 h2)
  have hB : e < floorLog2 a + 1 := pow2_lt_iff.mp (lt_of_le_of_lt h1 s2)
  omega

theorem floorLog2_mono (a b : Rat) (ha : 0 < a) (hab : a ≤ b) : floorLog2 a ≤ floorLog2 b := by
  obtain ⟨a1, _⟩ := floorLog2_spec a ha
  obtain ⟨_, b2⟩ := floorLog2_spec b (lt_of_lt_of_le ha hab)
  have : floorLog2 a < floorLog2 b + 1 := pow2_lt_iff.mp (lt_of_le_of_lt a1 (lt_of_le_of_lt hab b2))
  omega

/-! ### round half to even -/

theorem rhe_floor_le (r : Rat) : r.floor ≤ roundHalfEven r ∧ roundHalfEven r ≤ r.floor + 1 := by
  unfold roundHalfEven
  simp only
  split
  · omega
  · split
    · omega
    · split <;> omega

theorem rhe_int (n : Int) : roundHalfEven (n : ℚ) = n := by
  unfold roundHalfEven
  simp only [Rat.floor_intCast]
  have : ((n : ℚ) - (n : ℚ)) < 1 / 2 := by norm_num
  rw [if_pos this]

theorem rhe_mono (r s : Rat) (h : r ≤ s) : roundHalfEven r ≤ roundHalfEven s := by
  have hfl : r.floor ≤ s.floor := Rat.floor_monotone h
  rcases lt_or_eq_of_le hfl with hlt | heq
  · have := (rhe_floor_le r).2
    have := (rhe_floor_le s).1
    omega
  · unfold roundHalfEven
    simp only
    rw [← heq]
    have hfr : r - (r.floor : ℚ) ≤ s - (r.floor : ℚ) := by linarith
    by_cases h1 : r - (r.floor : ℚ) < 1 / 2
    · rw [if_pos h1]
      split
      · omega
      · split
        · omega
        · split <;> omega
    · rw [if_neg h1]
      have h1s : ¬ s - (r.floor : ℚ) < 1 / 2 := by intro hh; apply h1; linarith
      rw [if_neg h1s]
      by_cases h2 : 1 / 2 < r - (r.floor : ℚ)
      · have h2s : 1 / 2 < s - (r.floor : ℚ) := by linarith
        rw [if_pos h2, if_pos h2s]
      · rw [if_neg h2]
        by_cases h2s : 1 / 2 < s - (r.floor : ℚ)
        · rw [if_pos h2s]; split <;> omega
        · rw [if_neg h2s]

theorem rhe_le_of_le_int (r : Rat) (n : Int) (h : r ≤ (n : ℚ)) : roundHalfEven r ≤ n := by
  have := rhe_mono r n h; rwa [rhe_int] at this

theorem rhe_ge_of_int_le (r : Rat) (n : Int) (h : (n : ℚ) ≤ r) : n ≤ roundHalfEven r := by
  have := rhe_mono n r h; rwa [rhe_int] at this

/-! ### `roundF32` -/

/-- exponent of the quantum (unit in the last place) for a value in binade `e` -/
def qexp (e : Int) : Int := if e < -126 then -149 else e - 23

theorem qexp_mono {a b : Int} (h : a ≤ b) : qexp a ≤ qexp b := by
  unfold qexp; split <;> split <;> omega

theorem qexp_le (e : Int) : qexp e ≤ max (e - 23) (-149) := by unfold qexp; split <;> omega

theorem roundF32_pos (x : Rat) (hx : 0 < x) :
    roundF32 x = (roundHalfEven (x / pow2 (qexp (floorLog2 x))) : ℚ) * pow2 (qexp (floorLog2 x)) := by
  unfold roundF32 qexp
  have h0 : x ≠ 0 := ne_of_gt hx
  have hn : ¬ x < 0 := not_lt.mpr (le_of_lt hx)
  simp only [h0, if_false, hn]

theorem roundF32_neg (x : Rat) (hx : x < 0) : roundF32 x = -roundF32 (-x) := by
  have hpos : 0 < -x := by linarith
  rw [roundF32_pos (-x) hpos]
  unfold roundF32 qexp
  have h0 : x ≠ 0 := ne_of_lt hx
  simp only [h0, if_false, hx, if_true]

theorem roundF32_zero : roundF32 0 = 0 := by unfold roundF32; simp

/-- a positive value rounds to at least the bottom of its binade … -/
theorem roundF32_ge_binade (y : Rat) (hy : 0 < y) (hn : -126 ≤ floorLog2 y) : pow2 (floorLog2 y) ≤ roundF32 y := by
  rw [roundF32_pos y hy]
  set e := floorLog2 y with he
  have hq : qexp e = e - 23 := by unfold qexp; rw [if_neg (by omega)]
  rw [hq]
  obtain ⟨s1, _⟩ := floorLog2_spec y hy
  have hqpos := pow2_pos (e - 23)
  -- y / q ≥ 2^23
  have h23 : ((8388608 : Int) : ℚ) ≤ y / pow2 (e - 23) := by
    rw [le_div_iff₀ hqpos]
    have : ((8388608 : Int) : ℚ) * pow2 (e - 23) = pow2 e := by
      have h : ((8388608 : Int) : ℚ) = pow2 23 := by rw [pow2_eq_zpow]; norm_num
      rw [h, ← pow2_add]; congr 1; ring
    rw [this]; exact s1
  have hr := rhe_ge_of_int_le _ _ h23
  have : pow2 e = ((8388608 : Int) : ℚ) * pow2 (e - 23) := by
    have h : ((8388608 : Int) : ℚ) = pow2 23 := by rw [pow2_eq_zpow]; norm_num
    rw [h, ← pow2_add]; congr 1; ring
  rw [this]
  apply mul_le_mul_of_nonneg_right _ (le_of_lt hqpos)
  exact_mod_cast hr

/-- … and to at most the bottom of the next binade (or of the subnormal quantum) -/
theorem roundF32_le_next (x : Rat) (hx : 0 < x) :
    roundF32 x ≤ pow2 (max (floorLog2 x + 1) (qexp (floorLog2 x))) := by
  rw [roundF32_pos x hx]
  set e := floorLog2 x with he
  set q := qexp e with hqd
  obtain ⟨_, s2⟩ := floorLog2_spec x hx
  have hqpos := pow2_pos q
  set U := max (e + 1) q with hU
  have hUq : 0 ≤ U - q := by omega
  obtain ⟨k, hk⟩ := Int.eq_ofNat_of_zero_le hUq
  -- x / q ≤ 2^(U - q), an integer
  have hle : x / pow2 q ≤ (((2 ^ k : Nat) : Int) : ℚ) := by
    rw [div_le_iff₀ hqpos]
    have hM : (((2 ^ k : Nat) : Int) : ℚ) = pow2 (U - q) := by
      rw [hk, pow2_nat]; simp
    rw [hM, ← pow2_add]
    have : U - q + q = U := by ring
    rw [this]
    exact le_of_lt (lt_of_lt_of_le s2 (pow2_mono (by omega)))
  have hr := rhe_le_of_le_int _ _ hle
  have hM : pow2 U = (((2 ^ k : Nat) : Int) : ℚ) * pow2 q := by
    have h1 : (((2 ^ k : Nat) : Int) : ℚ) = pow2 (U - q) := by rw [hk, pow2_nat]; simp
    rw [h1, ← pow2_add]; congr 1; ring
  rw [hM]
  apply mul_le_mul_of_nonneg_right _ (le_of_lt hqpos)
  exact_mod_cast hr

theorem roundF32_nonneg (x : Rat) (hx : 0 ≤ x) : 0 ≤ roundF32 x := by
  rcases eq_or_lt_of_le hx with h | h
  · rw [← h, roundF32_zero]
  · rw [roundF32_pos x h]
    apply mul_nonneg _ (le_of_lt (pow2_pos _))
    have : (0 : ℚ) ≤ x / pow2 (qexp (floorLog2 x)) := div_nonneg hx (le_of_lt (pow2_pos _))
    have := rhe_ge_of_int_le _ 0 (by simpa using this)
    exact_mod_cast this

/-- **rounding to binary32 is monotone** on positive values -/
theorem roundF32_mono_pos (x y : Rat) (hx : 0 < x) (hxy : x ≤ y) : roundF32 x ≤ roundF32 y := by
  have hy : 0 < y := lt_of_lt_of_le hx hxy
  have hee := floorLog2_mono x y hx hxy
  have hqq := qexp_mono hee
  rcases eq_or_lt_of_le hqq with heq | hlt
  · -- same quantum: the integer multiples are ordered
    rw [roundF32_pos x hx, roundF32_pos y hy, ← heq]
    apply mul_le_mul_of_nonneg_right _ (le_of_lt (pow2_pos _))
    have : x / pow2 (qexp (floorLog2 x)) ≤ y / pow2 (qexp (floorLog2 x)) :=
      div_le_div_of_nonneg_right hxy (le_of_lt (pow2_pos _))
    exact_mod_cast rhe_mono _ _ this
  · -- different quanta: a power of two separates the two results
    have hey : -126 ≤ floorLog2 y := by
      by_contra hc
      have h1 : qexp (floorLog2 y) = -149 := by unfold qexp; rw [if_pos (by omega)]
      have h2 : -149 ≤ qexp (floorLog2 x) := by unfold qexp; split <;> omega
      omega
    have hqy : qexp (floorLog2 y) = floorLog2 y - 23 := by unfold qexp; rw [if_neg (by omega)]
    have hexy : floorLog2 x < floorLog2 y := by
      by_contra hc
      have : floorLog2 x = floorLog2 y := by omega
      rw [this] at hlt; exact lt_irrefl _ hlt
    calc roundF32 x ≤ pow2 (max (floorLog2 x + 1) (qexp (floorLog2 x))) := roundF32_le_next x hx
      _ ≤ pow2 (floorLog2 y) := pow2_mono (by omega)
      _ ≤ roundF32 y := roundF32_ge_binade y hy hey

/-- monotone on non-negative values -/
theorem roundF32_mono_nonneg (x y : Rat) (hx : 0 ≤ x) (hxy : x ≤ y) : roundF32 x ≤ roundF32 y := by
  rcases eq_or_lt_of_le hx with h | h
  · rw [← h, roundF32_zero]; exact roundF32_nonneg y (le_trans hx hxy)
  · exact roundF32_mono_pos x y h hxy

/-- **rounding to binary32 is monotone** -/
theorem roundF32_mono (x y : Rat) (hxy : x ≤ y) : roundF32 x ≤ roundF32 y := by
  by_cases hx : 0 ≤ x
  · exact roundF32_mono_nonneg x y hx hxy
  · have hx' : x < 0 := lt_of_not_ge hx
    by_cases hy : 0 ≤ y
    · have h1 : roundF32 x ≤ 0 := by
        rw [roundF32_neg x hx']
        have := roundF32_nonneg (-x) (by linarith)
        linarith
      exact le_trans h1 (roundF32_nonneg y hy)
    · have hy' : y < 0 := lt_of_not_ge hy
      rw [roundF32_neg x hx', roundF32_neg y hy']
      have := roundF32_mono_nonneg (-y) (-x) (by linarith) (by linarith)
      linarith

/-! ### integers up to 2^24 are exactly representable -/

theorem roundF32_natCast (n : Nat) (hn : n ≤ 16777216) : roundF32 (n : ℚ) = (n : ℚ) := by
  rcases Nat.eq_zero_or_pos n with h0 | hpos
  · subst h0; simp [roundF32_zero]
  · have hx : (0 : ℚ) < (n : ℚ) := by exact_mod_cast hpos
    rw [roundF32_pos _ hx]
    set e := floorLog2 (n : ℚ) with he
    obtain ⟨s1, s2⟩ := floorLog2_spec (n : ℚ) hx
    rw [← he] at s1 s2
    -- 0 ≤ e ≤ 24
    have he0 : 0 ≤ e := by
      by_contra hc
      have : pow2 (e + 1) ≤ pow2 0 := pow2_mono (by omega)
      have h1 : pow2 0 = 1 := by rw [pow2_eq_zpow]; simp
      have : (n : ℚ) < 1 := by linarith
      have : n < 1 := by exact_mod_cast this
      omega
    have he24 : e ≤ 24 := by
      by_contra hc
      have : pow2 25 ≤ pow2 e := pow2_mono (by omega)
      have h25 : pow2 25 = 33554432 := by rw [pow2_eq_zpow]; norm_num
      have : (33554432 : ℚ) ≤ (n : ℚ) := by linarith
      have : 33554432 ≤ n := by exact_mod_cast this
      omega
    have hq : qexp e = e - 23 := by unfold qexp; rw [if_neg (by omega)]
    rw [hq]
    have hqpos := pow2_pos (e - 23)
    -- n / 2^(e-23) is an integer
    have hint : ∃ m : Int, (n : ℚ) / pow2 (e - 23) = (m : ℚ) := by
      by_cases h24 : e = 24
      · -- then n = 2^24
        have h1 : pow2 24 = 16777216 := by rw [pow2_eq_zpow]; norm_num
        rw [h24] at s1
        have : (16777216 : ℚ) ≤ (n : ℚ) := by linarith
        have hn' : 16777216 ≤ n := by exact_mod_cast this
        have hneq : n = 16777216 := by omega
        refine ⟨8388608, ?_⟩
        rw [h24, hneq]
        have : pow2 (24 - 23) = 2 := by rw [pow2_eq_zpow]; norm_num
        rw [this]; norm_num
      · have hk : 0 ≤ 23 - e := by omega
        obtain ⟨k, hk'⟩ := Int.eq_ofNat_of_zero_le hk
        refine ⟨(n : Int) * ((2 ^ k : Nat) : Int), ?_⟩
        rw [div_eq_iff (ne_of_gt hqpos)]
        push_cast
        have h2 : ((2 : ℚ) ^ k) = pow2 (23 - e) := by rw [hk', pow2_nat]; simp
        rw [h2, mul_assoc, ← pow2_add]
        have : 23 - e + (e - 23) = 0 := by ring
        rw [this]
        have : pow2 0 = 1 := by rw [pow2_eq_zpow]; simp
        rw [this]; ring
    obtain ⟨m, hm⟩ := hint
    rw [hm, rhe_int, ← hm]
    field_simp

theorem roundF32_intCast (n : Int) (hn : n.natAbs ≤ 16777216) : roundF32 (n : ℚ) = (n : ℚ) := by
  rcases le_or_gt 0 n with h | h
  · obtain ⟨k, rfl⟩ := Int.eq_ofNat_of_zero_le h
    have := roundF32_natCast k (by simpa using hn)
    simpa using this
  · have hneg : (n : ℚ) < 0 := by exact_mod_cast h
    rw [roundF32_neg _ hneg]
    obtain ⟨k, hk⟩ := Int.exists_eq_neg_ofNat (le_of_lt h)
    subst hk
    have := roundF32_natCast k (by simpa using hn)
    simp only [Int.cast_neg, Int.cast_natCast, neg_neg]
    rw [this]

/-- **flooring a correctly rounded quotient is within one unit of the exact quotient**, as long as the integers
around it are representable (|r| < 2^24): the basis of "every stored coordinate is within one quantum" -/
theorem floor_round_within_one (r : Rat) (hr : |r| ≤ 16777215) :
    ((roundF32 r).floor : ℚ) ≤ r + 1 ∧ r - 1 < ((roundF32 r).floor : ℚ) ∧
      r.floor ≤ (roundF32 r).floor ∧ (roundF32 r).floor ≤ r.floor + 1 := by
  have hfl1 : (r.floor : ℚ) ≤ r := Rat.floor_le r
  have hfl2 : r < (r.floor : ℚ) + 1 := by
    have := Rat.lt_floor_add_one r
    push_cast at this
    exact this
  have habs := abs_le.mp hr
  have hb1 : (r.floor).natAbs ≤ 16777216 := by
    have h1 : (-16777216 : ℚ) ≤ (r.floor : ℚ) := by linarith
    have h2 : (r.floor : ℚ) ≤ 16777215 := by linarith
    have h1' : (-16777216 : Int) ≤ r.floor := by exact_mod_cast h1
    have h2' : r.floor ≤ (16777215 : Int) := by exact_mod_cast h2
    omega
  have hb2 : (r.floor + 1).natAbs ≤ 16777216 := by
    have h1 : (-16777216 : ℚ) ≤ (r.floor : ℚ) := by linarith
    have h2 : (r.floor : ℚ) ≤ 16777215 := by linarith
    have h1' : (-16777216 : Int) ≤ r.floor := by exact_mod_cast h1
    have h2' : r.floor ≤ (16777215 : Int) := by exact_mod_cast h2
    omega
  -- monotonicity and exactness on the neighbouring integers
  have hlo : (r.floor : ℚ) ≤ roundF32 r := by
    have := roundF32_mono _ _ hfl1
    rwa [roundF32_intCast _ hb1] at this
  have hhi : roundF32 r ≤ ((r.floor + 1 : Int) : ℚ) := by
    have := roundF32_mono r ((r.floor + 1 : Int) : ℚ) (by push_cast; linarith)
    rwa [roundF32_intCast _ hb2] at this
  have h3 : r.floor ≤ (roundF32 r).floor := Rat.le_floor_iff.mpr hlo
  have h4 : (roundF32 r).floor ≤ r.floor + 1 := by
    have : ((roundF32 r).floor : ℚ) ≤ ((r.floor + 1 : Int) : ℚ) := le_trans (Rat.floor_le _) hhi
    exact_mod_cast this
  refine ⟨?_, ?_, h3, h4⟩
  · have : ((roundF32 r).floor : ℚ) ≤ (r.floor : ℚ) + 1 := by exact_mod_cast h4
    linarith
  · have : (r.floor : ℚ) ≤ ((roundF32 r).floor : ℚ) := by exact_mod_cast h3
    linarith

/-! ### representable values -/

/-- `x` is a binary32 value of the model (no overflow bound is imposed) -/
def Repr (x : Rat) : Prop := roundF32 x = x

theorem repr_zero : Repr 0 := roundF32_zero

theorem repr_neg {x : Rat} (h : Repr x) : Repr (-x) := by
  unfold Repr at *
  rcases lt_trichotomy x 0 with hx | hx | hx
  · have := roundF32_neg x hx
    rw [h] at this
    linarith
  · subst hx; simp [roundF32_zero]
  · have hneg : -x < 0 := by linarith
    rw [roundF32_neg (-x) hneg, neg_neg, h]

theorem floorLog2_pow2 (k : Int) : floorLog2 (pow2 k) = k :=
  floorLog2_unique _ k (le_refl _) (pow2_lt (by omega))

/-- a positive integer multiple of `2^k` is a fixed point when `2^k` is at least the quantum of its binade -/
theorem repr_of_multiple (n : Int) (k : Int) (hn : 0 < n) (hk : qexp (floorLog2 ((n : ℚ) * pow2 k)) ≤ k) :
    Repr ((n : ℚ) * pow2 k) := by
  have hx : (0 : ℚ) < (n : ℚ) * pow2 k := mul_pos (by exact_mod_cast hn) (pow2_pos k)
  unfold Repr
  rw [roundF32_pos _ hx]
  set q := qexp (floorLog2 ((n : ℚ) * pow2 k)) with hq
  have hd : 0 ≤ k - q := by omega
  obtain ⟨j, hj⟩ := Int.eq_ofNat_of_zero_le hd
  have hint : (n : ℚ) * pow2 k / pow2 q = ((n * ((2 ^ j : Nat) : Int) : Int) : ℚ) := by
    rw [div_eq_iff (ne_of_gt (pow2_pos q))]
    push_cast
    have h2 : ((2 : ℚ) ^ j) = pow2 (k - q) := by rw [hj, pow2_nat]; simp
    rw [h2, mul_assoc, ← pow2_add]
    congr 2; ring
  rw [hint, rhe_int, ← hint]
  exact div_mul_cancel₀ _ (ne_of_gt (pow2_pos q))

theorem qexp_ge (e : Int) : -149 ≤ qexp e := by unfold qexp; split <;> omega
theorem qexp_succ_le (e : Int) : qexp (e + 1) ≤ qexp e + 1 := by unfold qexp; split <;> split <;> omega

theorem repr_pow2 (k : Int) (hk : -149 ≤ k) : Repr (pow2 k) := by
  have := repr_of_multiple 1 k (by norm_num) (by
    simp only [Int.cast_one, one_mul]
    rw [floorLog2_pow2]
    unfold qexp; split <;> omega)
  simpa using this

/-- **rounding is idempotent** (positive arguments) -/
theorem repr_round_pos (x : Rat) (hx : 0 < x) : Repr (roundF32 x) := by
  by_cases hr0 : roundF32 x = 0
  · rw [hr0]; exact repr_zero
  · have hrpos : 0 < roundF32 x := lt_of_le_of_ne (roundF32_nonneg x (le_of_lt hx)) (Ne.symm hr0)
    have hub := roundF32_le_next x hx
    rw [roundF32_pos x hx] at hrpos hub ⊢
    set e := floorLog2 x with he
    set q := qexp e with hq
    set n := roundHalfEven (x / pow2 q) with hn
    have hqpos := pow2_pos q
    have hnpos : 0 < n := by
      by_contra hc
      have : (n : ℚ) ≤ 0 := by exact_mod_cast (not_lt.mp hc)
      have : (n : ℚ) * pow2 q ≤ 0 := mul_nonpos_of_nonpos_of_nonneg this (le_of_lt hqpos)
      linarith
    obtain ⟨s1, s2⟩ := floorLog2_spec _ hrpos
    by_cases hcase : floorLog2 ((n : ℚ) * pow2 q) ≤ e
    · exact repr_of_multiple n q hnpos (qexp_mono hcase)
    · -- the result left the binade: it is exactly the power of two above
      have he' : e + 1 ≤ floorLog2 ((n : ℚ) * pow2 q) := by omega
      have heq : (n : ℚ) * pow2 q = pow2 (max (e + 1) q) := by
        apply le_antisymm hub
        rcases le_total (e + 1) q with hm | hm
        · rw [max_eq_right hm]
          have : (1 : ℚ) ≤ (n : ℚ) := by exact_mod_cast hnpos
          calc pow2 q = 1 * pow2 q := by ring
            _ ≤ (n : ℚ) * pow2 q := mul_le_mul_of_nonneg_right this (le_of_lt hqpos)
        · rw [max_eq_left hm]
          exact le_trans (pow2_mono he') s1
      rw [heq]
      apply repr_pow2
      have := qexp_ge e
      omega

/-- **rounding is idempotent**: the result of `roundF32` is a binary32 value -/
theorem repr_round (x : Rat) : Repr (roundF32 x) := by
  rcases lt_trichotomy x 0 with hx | hx | hx
  · rw [roundF32_neg x hx]
    exact repr_neg (repr_round_pos (-x) (by linarith))
  · subst hx; rw [roundF32_zero]; exact repr_zero
  · exact repr_round_pos x hx

/-- doubling a binary32 value gives a binary32 value (no overflow in the model) -/
theorem repr_two_mul {a : Rat} (h : Repr a) : Repr (2 * a) := by
  rcases lt_trichotomy a 0 with ha | ha | ha
  · have hn := repr_neg h
    have hpos : 0 < -a := by linarith
    -- positive case applied to -a
    have key : ∀ b : Rat, 0 < b → Repr b → Repr (2 * b) := by
      intro b hb hrb
      have hb' := hrb
      unfold Repr at hb'
      rw [roundF32_pos b hb] at hb'
      set e := floorLog2 b with he
      set q := qexp e with hq
      set n := roundHalfEven (b / pow2 q) with hn'
      have hqpos := pow2_pos q
      have hnpos : 0 < n := by
        by_contra hc
        have : (n : ℚ) ≤ 0 := by exact_mod_cast (not_lt.mp hc)
        have : (n : ℚ) * pow2 q ≤ 0 := mul_nonpos_of_nonpos_of_nonneg this (le_of_lt hqpos)
        linarith
      have h2 : 2 * b = (n : ℚ) * pow2 (q + 1) := by
        rw [pow2_add]
        have : pow2 1 = 2 := by rw [pow2_eq_zpow]; norm_num
        rw [this, ← hb']; ring
      rw [h2]
      apply repr_of_multiple n (q + 1) hnpos
      rw [← h2]
      obtain ⟨s1, s2⟩ := floorLog2_spec b hb
      have hfl : floorLog2 (2 * b) = e + 1 := by
        apply floorLog2_unique
        · have : pow2 (e + 1) = 2 * pow2 e := by
            rw [pow2_add]; have : pow2 1 = 2 := by rw [pow2_eq_zpow]; norm_num
            rw [this]; ring
          rw [this]; linarith
        · have : pow2 (e + 1 + 1) = 2 * pow2 (e + 1) := by
            rw [pow2_add (e + 1) 1]; have : pow2 1 = 2 := by rw [pow2_eq_zpow]; norm_num
            rw [this]; ring
          rw [this]; linarith
      rw [hfl]
      exact qexp_succ_le e
    have := repr_neg (key (-a) hpos hn)
    have h2 : -(2 * -a) = 2 * a := by ring
    rwa [h2] at this
  · subst ha; simpa using repr_zero
  · have hb' := h
    unfold Repr at hb'
    rw [roundF32_pos a ha] at hb'
    set e := floorLog2 a with he
    set q := qexp e with hq
    set n := roundHalfEven (a / pow2 q) with hn'
    have hqpos := pow2_pos q
    have hnpos : 0 < n := by
      by_contra hc
      have : (n : ℚ) ≤ 0 := by exact_mod_cast (not_lt.mp hc)
      have : (n : ℚ) * pow2 q ≤ 0 := mul_nonpos_of_nonpos_of_nonneg this (le_of_lt hqpos)
      linarith
    have h2 : 2 * a = (n : ℚ) * pow2 (q + 1) := by
      rw [pow2_add]
      have : pow2 1 = 2 := by rw [pow2_eq_zpow]; norm_num
      rw [this, ← hb']; ring
    rw [h2]
    apply repr_of_multiple n (q + 1) hnpos
    rw [← h2]
    obtain ⟨s1, s2⟩ := floorLog2_spec a ha
    have hfl : floorLog2 (2 * a) = e + 1 := by
      apply floorLog2_unique
      · have : pow2 (e + 1) = 2 * pow2 e := by
          rw [pow2_add]; have : pow2 1 = 2 := by rw [pow2_eq_zpow]; norm_num
          rw [this]; ring
        rw [this]; linarith
      · have : pow2 (e + 1 + 1) = 2 * pow2 (e + 1) := by
          rw [pow2_add (e + 1) 1]; have : pow2 1 = 2 := by rw [pow2_eq_zpow]; norm_num
          rw [this]; ring
        rw [this]; linarith
    rw [hfl]
    exact qexp_succ_le e

/-- **the float midpoint of two binary32 values lies between them** (`(a + b) / 2` computed as the C code does,
with both operations rounded) -/
theorem midpoint_between (a b : Rat) (hab : a ≤ b) (ha : Repr a) (hb : Repr b) :
    a ≤ roundF32 (roundF32 (a + b) / 2) ∧ roundF32 (roundF32 (a + b) / 2) ≤ b := by
  have h2a := repr_two_mul ha
  have h2b := repr_two_mul hb
  unfold Repr at ha hb h2a h2b
  have hs1 : 2 * a ≤ roundF32 (a + b) := by
    have := roundF32_mono (2 * a) (a + b) (by linarith)
    rwa [h2a] at this
  have hs2 : roundF32 (a + b) ≤ 2 * b := by
    have := roundF32_mono (a + b) (2 * b) (by linarith)
    rwa [h2b] at this
  constructor
  · have := roundF32_mono a (roundF32 (a + b) / 2) (by linarith)
    rwa [ha] at this
  · have := roundF32_mono (roundF32 (a + b) / 2) b (by linarith)
    rwa [hb] at this

end Sb.Proofs
