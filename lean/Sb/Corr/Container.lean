/-
Correspondence ops for C04 / C05 / C06 : container parsing through both backends.
-/
import Sb.Corr.Util
import Sb.Model.Container

namespace Sb.Corr
open Sb.Container

def routeMem? (s : String) : Option Bool :=
  if s = "m" then some true else if s = "f" then some false else none

def opFacc (args impl : List String) : Verdict :=
  match args with
  | [rt, hx] =>
    match routeMem? rt, hexToBytes hx with
    | some mem, some b =>
      let r := init mem b
      expectTokens [toString (R.rc r)] impl [s!"facc:rc{R.rc r}"]
    | _, _ => .badCase "facc"
  | _ => .badCase "facc"

/-- `fcorr`: the case is a corrupted checksummed file (the generator guarantees that); both the
model and the implementation must report corrupted data. -/
def opFcorr (args impl : List String) : Verdict :=
  match args with
  | [rt, hx] =>
    match routeMem? rt, hexToBytes hx with
    | some mem, some b =>
      let r := init mem b
      if R.rc r != Err.ecorrupted.code then
        .fail s!"model accepts a corrupted file (rc {R.rc r}); impl={" ".intercalate impl}"
      else expectTokens [toString (R.rc r)] impl ["fcorr"]
    | _, _ => .badCase "fcorr"
  | _ => .badCase "fcorr"

/-- `faccseq`: several files loaded one after the other from the same caller buffer / descriptor: every verdict is
the verdict of the bytes that are there now -/
def opFaccSeq (args impl : List String) : Verdict :=
  match args with
  | rt :: hxs =>
    match routeMem? rt, hxs.mapM hexToBytes with
    | some mem, some files =>
      let rcs := files.map (fun b => toString (R.rc (init mem b)))
      expectTokens rcs impl [s!"faccseq:{min files.length 9}"]
    | _, _ => .badCase "faccseq"
  | _ => .badCase "faccseq"

def bodyTok : R Bytes → String
  | .ok b => bytesToHex b
  | .error e => s!"E{e.code}"

def opWalk (args impl : List String) : Verdict :=
  match args with
  | [rt, hx] =>
    match routeMem? rt, hexToBytes hx with
    | some mem, some b =>
      match walk mem b with
      | .error e => expectTokens [toString e.code] impl [s!"walk:rc{e.code}"]
      | .ok (ver, blocks, rc) =>
        -- the public rewind after the walk: absolute, hence the same as rewinding the freshly opened parser
        let rw : String := match init mem b with
          | .ok p0 =>
            (match p0.rewind with
             | .ok p1 => s!"R0:{p1.curType}:{p1.curLength}:{if p1.isCurrentBlockValid then 1 else 0}"
             | .error e => s!"R{e.code}")
          | .error e => s!"R{e.code}"
        let toks := ["0", toString ver] ++
          blocks.map (fun (ty, len, body) => s!"{ty}:{len}:{bodyTok body}") ++ [toString rc, rw]
        expectTokens toks impl [s!"walk:blocks{blocks.length}", s!"walk:end{rc}"]
    | _, _ => .badCase "walk"
  | _ => .badCase "walk"

/-- `k` calls of `seek_to_next_block`, stopping at the first failure (history before a lookup) -/
def walkForward (p : Parser) : Nat → Parser
  | 0 => p
  | k + 1 =>
    match p.seekToNextBlock with
    | .error _ => p
    | .ok p1 => walkForward p1 k

def opFind (args impl : List String) : Verdict :=
  match args with
  | rt :: hx :: tys :: rest =>
    match routeMem? rt, hexToBytes hx, tys.toNat? with
    | some mem, some b, some ty =>
      match init mem b with
      | .error e => expectTokens [toString e.code] impl [s!"find:init{e.code}"]
      | .ok p0 =>
        let hist := match rest with
          | [ks] => ks.toNat?.getD 0
          | _ => 0
        let p := walkForward p0 hist
        match p.findFirstBlockByType ty with
        | .error e => expectTokens ["0", toString e.code] impl [s!"find:rc{e.code}"]
        | .ok p1 =>
          let body := (p1.readCurrentBlock).map (·.1)
          let pre := ["0", "0", toString p1.curType, toString p1.curLength, toString p1.curStart, bodyTok body]
          match p1.readCurrentBlockEx with
          | .error e => expectTokens (pre ++ [toString e.code]) impl ["find:ok", s!"find:ex{e.code}"]
          | .ok (bytes, owned, _) =>
            expectTokens (pre ++ ["0", if owned then "1" else "0", toString bytes.length, bytesToHex bytes]) impl
              ["find:ok", "find:ex0"]
    | _, _, _ => .badCase "find"
  | _ => .badCase "find"

end Sb.Corr
