/-
Correspondence ops for C01 / C07 / C08 (trajectory player) and C10 (yaw player).

The model is run with `secF32` (exact binary32 rounding of `msec / 1000.0f`), so segment selection
is compared exactly; values are compared within the analytically derived float32 bounds below
(the latitude the properties themselves grant).
-/
import Sb.Corr.Util
import Sb.Model.Yaw

namespace Sb.Corr
open Sb.Poly Sb.Traj

def f32Tok (s : String) : Option F32 := s.toNat?.map F32.ofBits

/-- a duration in seconds reports `ms` milliseconds: the sum over 1000 up to two units in the last place of binary32 (the
correctly rounded quotient `secF32 ms` is what the library computes; a product with 0.001f would be as good an answer) -/
def secTokClose (tok : String) (ms : Nat) : Bool :=
  match f32Tok tok with
  | some (.fin x) => absR (x - secExact ms) ≤ secExact ms / 4194304
  | _ => false

def choose : Nat → Nat → Nat
  | _, 0 => 1
  | 0, _ + 1 => 0
  | n + 1, k + 1 => choose n k + choose n (k + 1)

def sumAbsS (c : List Rat) : Rat :=
  let n := c.length - 1
  (List.range (n + 1)).foldl (fun acc j =>
    acc + (choose n j : Rat) * (List.range (j + 1)).foldl (fun a i => a + (choose j i : Rat) * absR (c.getD i 0)) 0) 0

def maxDelta (c : List Rat) : Rat :=
  (List.range (c.length - 1)).foldl (fun acc i => max acc (absR (c.getD (i + 1) 0 - c.getD i 0))) 0

def eps24 : Rat := 1 / 16777216
def eps23 : Rat := 1 / 8388608
def eps21 : Rat := 1 / 2097152

/-- rounding of the relative time: (T_k+|t|)·2⁻²³/d + 2⁻²¹ (0 when rel_t is computed without division) -/
def deltaU (s : Seg) (t : QTime) : Rat :=
  match t, s.durSec with
  | .fin q, some d => if absR d > 1 / 1000000 then (s.startSec + absR q) * eps23 / d + eps21 else 0
  | _, _ => 0

/-- C01 tolerance for one axis (DESIGN.md section 4, C01) -/
def tolPos (c : List Rat) (s : Seg) (t : QTime) : Rat :=
  let n : Rat := ((c.length - 1 : Nat) : Rat)
  4 * (n + 2) * eps24 * sumAbsS c + n * maxDelta c * deltaU s t + 1 / 1000000

def durOr1 (s : Seg) : Rat :=
  match s.durSec with
  | some d => if absR d > 1 / 1000000 then d else 1
  | none => 1

/-- C07 tolerance, velocity -/
def tolVel (c : List Rat) (s : Seg) (t : QTime) : Rat :=
  let n : Rat := ((c.length - 1 : Nat) : Rat)
  (4 * n * (n + 3) * eps24 * sumAbsS c + 2 * n * (n - 1) * maxDelta c * deltaU s t + n * maxDelta c * eps21) / durOr1 s
    + 1 / 1000000

/-- C07 tolerance, acceleration -/
def tolAcc (c : List Rat) (s : Seg) (t : QTime) : Rat :=
  let n : Rat := ((c.length - 1 : Nat) : Rat)
  (4 * n * (n - 1) * (n + 4) * eps24 * sumAbsS c + 4 * n * (n - 1) * (n - 2) * maxDelta c * deltaU s t
      + 4 * n * (n - 1) * maxDelta c * eps21) / (durOr1 s * durOr1 s)
    + 1 / 1000000

def closeTo (impl : F32) (model tol : Rat) : Bool :=
  match impl with
  | .fin q => absR (q - model) ≤ tol
  | _ => false

def parseQ (tok : String) : Option (Char × F32) :=
  match tok.toList with
  | k :: rest =>
    match (String.ofList rest).toNat? with
    | some b => some (k, F32.ofBits b)
    | none => none
  | [] => none

def splitComma (s : String) : List String := s.splitOn ","

def fmtVec (v : Vec4) : String := s!"({ratToString v.x},{ratToString v.y},{ratToString v.z},{ratToString v.yaw})"

/-- is the query instant exactly a segment boundary of the current segment? -/
def atBoundary (s : Seg) (t : QTime) : Bool :=
  match t with
  | .fin q => q == s.startSec || s.endSec == some q
  | _ => false

/-- compare one p/v/a answer -/
def cmpVec (kind : Char) (p' : Player) (mv : Vec4) (t : QTime) (toks : List String) : Option String :=
  match toks with
  | [rc, x, y, z, w, off, len, fresh] =>
    if rc ≠ "0" then some s!"impl rc={rc}, model ok" else
    match f32Tok x, f32Tok y, f32Tok z, f32Tok w with
    | some fx, some fy, some fz, some fw =>
      let s := p'.cur
      let tol := fun (c : List Rat) =>
        if kind = 'p' then tolPos c s t else if kind = 'v' then tolVel c s t else tolAcc c s t
      if off ≠ toString s.startOff ∨ len ≠ toString s.length then
        some s!"segment differs: model off={s.startOff} len={s.length}, impl off={off} len={len}"
      else if !closeTo fx mv.x (tol s.ctrl.x) then some s!"x: model {ratToString mv.x} tol {ratToString (tol s.ctrl.x)} impl bits {x}"
      else if !closeTo fy mv.y (tol s.ctrl.y) then some s!"y: model {ratToString mv.y} tol {ratToString (tol s.ctrl.y)} impl bits {y}"
      else if !closeTo fz mv.z (tol s.ctrl.z) then some s!"z: model {ratToString mv.z} tol {ratToString (tol s.ctrl.z)} impl bits {z}"
      else if !closeTo fw mv.yaw (tol s.ctrl.yaw) then some s!"yaw: model {ratToString mv.yaw} tol {ratToString (tol s.ctrl.yaw)} impl bits {w}"
      else if fresh ≠ "=" ∧ !atBoundary s t then some "answer differs from a fresh player's (not at a segment boundary)"
      else none
    | _, _, _, _ => some "unparsable floats"
  | _ => some "bad answer shape"

structure TrajRun where
  player : Player
  err : Option String := none
  tags : List String := []

def stepTraj (tr : Traj) (st : TrajRun) (q : String × String) : TrajRun :=
  if st.err.isSome then st else
  let (qt, ans) := q
  let atoks := splitComma ans
  match qt.toList with
  | [] => { st with err := some "empty query" }
  | k :: rest =>
    let arg := String.ofList rest
    if k = 'p' ∨ k = 'v' ∨ k = 'a' then
      match arg.toNat? with
      | none => { st with err := some "bad time" }
      | some b =>
        let tf := F32.ofBits b
        let t := QTime.ofF32 tf
        let r : R (Player × Vec4) :=
          if k = 'p' then positionAt secF32 st.player t
          else if k = 'v' then velocityAt secF32 st.player t else accelerationAt secF32 st.player t
        match r with
        | .error e => { st with err := some s!"model error {e.code} on query {qt}; impl {ans}" }
        | .ok (p', v) =>
          match cmpVec k p' v t atoks with
          | some m => { st with err := some s!"query {qt}: {m}" }
          | none =>
            let tag := if p'.cur.length = 0 then "seg:terminal" else s!"seg:deg{p'.cur.ctrl.x.length - 1}{p'.cur.ctrl.y.length - 1}{p'.cur.ctrl.z.length - 1}{p'.cur.ctrl.yaw.length - 1}"
            { st with player := p', tags := if st.tags.contains tag then st.tags else tag :: st.tags }
    else if k = 'd' then
      match totalDurationMsec secF32 st.player with
      | .error e => { st with err := some s!"model error {e.code} on duration" }
      | .ok (p', ms) =>
        if atoks = ["0", toString ms, toString p'.cur.startOff] then { st with player := p' }
        else { st with err := some s!"player duration: model 0,{ms},{p'.cur.startOff} impl {ans}" }
    else if k = 'D' then
      match (do let p0 ← rewind secF32 tr; totalDurationMsec secF32 p0) with
      | .error _ => if atoks = ["0"] then st else { st with err := some s!"duration: model error, impl {ans}" }
      | .ok (_, ms) => if atoks = [toString ms] then st else { st with err := some s!"trajectory duration: model {ms} impl {ans}" }
    else if k = 'E' then
      match (do let p0 ← rewind secF32 tr; totalDurationMsec secF32 p0) with
      | .error _ => st
      | .ok (_, ms) =>
        match atoks with
        | [b] => if secTokClose b ms then st else { st with err := some s!"duration sec: model {ratToString (secF32 ms)} impl bits {b}" }
        | _ => { st with err := some "bad E answer" }
    else if k = 'S' then
      match (do let p0 ← rewind secF32 tr; totalDurationMsec secF32 p0) with
      | .error _ => st
      | .ok (_, ms) =>
        match atoks with
        | [rc, m, secs, same] =>
          if rc = "0" ∧ m = toString ms ∧ same = "=" then
            -- the statistics' duration in seconds is the same sum, in seconds (as the trajectory's own query 'E')
            (if secTokClose secs ms then st
             else { st with err := some s!"stats duration in seconds: model {ratToString (secF32 ms)} (= {ms} ms) impl bits {secs}" })
          else { st with err := some s!"stats duration: model {ms} (whatever else is requested with it) impl {ans}" }
        | _ => { st with err := some "bad S answer" }
    else if k = 's' ∨ k = 'e' then
      let t : QTime := if k = 's' then .fin 0 else .pinf
      match (do let p0 ← rewind secF32 tr; positionAt secF32 p0 t) with
      | .error e => { st with err := some s!"model error {e.code} on {qt}" }
      | .ok (p', v) =>
        match atoks with
        | [rc, x, y, z, w] =>
          match cmpVec 'p' p' v t [rc, x, y, z, w, toString p'.cur.startOff, toString p'.cur.length, "="] with
          | some m => { st with err := some s!"query {qt}: {m}" }
          | none => st
        | _ => { st with err := some "bad s/e answer" }
    else if k = 'n' ∨ k = 'w' then
      let r : R Player := if k = 'n' then next secF32 st.player else rewind secF32 tr
      match r with
      | .error e => { st with err := some s!"model error {e.code} on {qt}" }
      | .ok p' =>
        if atoks = ["0", toString p'.cur.startOff, toString p'.cur.length, if p'.hasMore then "1" else "0"] then { st with player := p' }
        else { st with err := some s!"cursor call {qt}: model 0,{p'.cur.startOff},{p'.cur.length},{p'.hasMore} impl {ans}" }
    else { st with err := some s!"unknown query {qt}" }

def opTraj (args impl : List String) : Verdict :=
  match args with
  | _mode :: hx :: qs =>
    match hexToBytes hx with
    | none => .badCase "traj hex"
    | some b =>
      match Traj.init b with
      | .error e =>
        expectTokens [toString e.code] impl [s!"traj:init{e.code}"]
      | .ok tr =>
        match impl with
        | rc :: hdr :: answers =>
          if rc ≠ "0" then .fail s!"init: model ok, impl rc={rc}" else
          let expHdr := s!"H{tr.scale},{if tr.useYaw then 1 else 0}"
          let hparts := splitComma hdr
          if hparts.take 2 ≠ splitComma expHdr then .fail s!"header: model {expHdr} impl {hdr}" else
          match hparts.drop 2 with
          | [x, y, z, w, hl] =>
            match f32Tok x, f32Tok y, f32Tok z, f32Tok w with
            | some fx, some fy, some fz, some fw =>
              if !(closeTo fx tr.start.x 0 && closeTo fy tr.start.y 0 && closeTo fz tr.start.z 0 &&
                   closeTo fw tr.start.yaw (absR tr.start.yaw * eps23)) then .fail s!"start: model {fmtVec tr.start} impl {hdr}"
              else if hl ≠ toString tr.headerLength then .fail "header length"
              else if answers.length ≠ qs.length then .fail s!"answer count {answers.length} vs {qs.length}"
              else
                match rewind secF32 tr with
                | .error e => .fail s!"model rewind error {e.code}"
                | .ok p0 =>
                  let st := (qs.zip answers).foldl (stepTraj tr) { player := p0 }
                  match st.err with
                  | some m => .fail m
                  | none => .ok (s!"traj:q{qs.length}" :: st.tags)
            | _, _, _, _ => .fail "header floats"
          | _ => .fail "header shape"
        | _ => .fail s!"impl answer too short: {" ".intercalate impl}"
  | _ => .badCase "traj"

end Sb.Corr
