/-
Correspondence op for C11 (RTH plan evaluation): all outputs are integers below 2^24, scaled
int16 values or `roundF32` of integers, hence compared exactly.
-/
import Sb.Corr.Traj
import Sb.Model.Rth

namespace Sb.Corr
open Sb.Rth

def f32Eq (tok : String) (q : Rat) : Bool :=
  match f32Tok tok with
  | some (.fin x) => x == q
  | _ => false

def f32EqF (tok : String) (v : F32) : Bool :=
  match f32Tok tok, v with
  | some (.fin x), .fin q => x == q
  | some .pinf, .pinf => true
  | some .ninf, .ninf => true
  | some .nan, .nan => true
  | _, _ => false

def stepRth (p : Plan) (err : Option String) (q : String × String) : Option String :=
  if err.isSome then err else
  let (qt, ans) := q
  let a := splitComma ans
  match qt.toList with
  | 'm' :: _ =>
    let exp := [toString p.scale, toString p.numPoints, toString (numEntries p), if numEntries p = 0 then "1" else "0"]
    if a = exp then none else some s!"meta: model {exp} impl {ans}"
  | 'p' :: rest =>
    match (String.ofList rest).toNat? with
    | none => some "bad point index"
    | some i =>
      match getPoint p i, a with
      | .error e, rc :: _ => if rc = toString e.code then none else some s!"point {i}: model rc {e.code} impl {ans}"
      | .ok (x, y), [rc, bx, by'] =>
        if rc = "0" ∧ f32Eq bx x ∧ f32Eq by' y then none
        else some s!"point {i}: model ({ratToString x},{ratToString y}) impl {ans}"
      | _, _ => some "bad point answer"
  | 'e' :: rest =>
    match (String.ofList rest).toNat? with
    | none => some "bad time"
    | some b =>
      let t := F32.ofBits b
      match evaluateAt p t, a with
      | .error e, [rc] => if rc = toString e.code then none else some s!"{qt}: model rc {e.code} impl {ans}"
      | .error e, _ => some s!"{qt}: model rc {e.code} impl {ans}"
      | .ok e, [rc, tm, act, dur, tx, ty, alt, pre, post, neck, nd] =>
        if rc = "0" ∧ f32EqF tm e.time ∧ act = toString e.action ∧ f32Eq dur e.duration ∧ f32Eq tx e.target.1 ∧
           f32Eq ty e.target.2 ∧ f32Eq alt e.targetAlt ∧ f32Eq pre e.preDelay ∧ f32Eq post e.postDelay ∧
           f32Eq neck e.preNeck ∧ f32Eq nd e.preNeckDur then none
        else some s!"{qt}: model action {e.action} dur {ratToString e.duration} target ({ratToString e.target.1},{ratToString e.target.2}) alt {ratToString e.targetAlt} pre {ratToString e.preDelay} post {ratToString e.postDelay} neck {ratToString e.preNeck}/{ratToString e.preNeckDur}; impl {ans}"
      | .ok _, _ => some s!"{qt}: model ok, impl {ans}"
  | _ => some s!"unknown query {qt}"

def opRth (args impl : List String) : Verdict :=
  match args with
  | hx :: qs =>
    -- "-" : `sb_rth_plan_init_empty` (the harness calls it on an object filled with 0xA5)
    match (if hx = "-" then some [] else hexToBytes hx) with
    | none => .badCase "rth hex"
    | some b =>
      match (if hx = "-" then (.ok { buf := [], scale := 1, numPoints := 0, headerLength := 0 } : R Rth.Plan) else Rth.init b) with
      | .error e => expectTokens [toString e.code] impl [s!"rth:init{e.code}"]
      | .ok p =>
        match impl with
        | rc :: answers =>
          if rc ≠ "0" then .fail s!"init: model ok, impl rc {rc}"
          else if answers.length ≠ qs.length then .fail "answer count"
          else
            match (qs.zip answers).foldl (stepRth p) none with
            | some m => .fail m
            | none => .ok [s!"rth:entries{min (numEntries p) 9}", s!"rth:points{min p.numPoints 9}"]
        | [] => .fail "no answer"
  | _ => .badCase "rth"

end Sb.Corr
