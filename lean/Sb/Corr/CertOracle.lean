/-
The root oracle as the judges use it: every answer is derived from a *checked* partition
(`Cert.segsOK`) of the region into certified sign-definite stretches and certified root intervals.
The Sturm oracle only proposes where the roots are.  `Sb/Proofs/CertSound.lean` proves what the `…Cert`
functions' answers mean over ℝ.

When no certificate can be built the answer of the (unproven) Sturm oracle is used and the event is written
to the diagnostic channel as a line starting with `ORACLE-UNCERTIFIED`; the check scripts count those lines
and print the count in the evidence (it is 0 on everything explored so far).
-/
import Sb.Corr.Cert

namespace Sb.Corr.Cert
open Sb Sb.Corr.Sturm

/-- accuracy handed to the Sturm search (2^-40) -/
def oracleEps : Rat := 1 / 1099511627776

def nearRegion (A B : Option Rat) (w : Rat) (r : Rat) : Bool :=
  (match A with | some a => decide (a - w ≤ r) | none => true) &&
  (match B with | some b => decide (r ≤ b + w) | none => true)

/-- a checked partition of the region from `A` to `B` (`none` = unbounded); `none` when none was found -/
def partition (p : P) (A B : Option Rat) : Option (List Seg) :=
  if isZero p then none else
  let w := 2 * oracleEps
  let approx := (Sturm.roots p oracleEps).filter (nearRegion A B w)
  match mkSegs p A B approx w with
  | some segs => if !segs.isEmpty && segsOK p A segs B then some segs else none
  | none => none

def isGapOf (sigma : Rat) : Seg → Bool
  | .gap s _ _ => s == sigma
  | .root .. => false

/-- `∃ x ∈ [a, b], p x ≥ v`; `none` = no certificate -/
def reachesCert (p : P) (a b v : Rat) : Option Bool :=
  if a > b then some false else
  let q := addP p [-v]
  if eval q a ≥ 0 ∨ eval q b ≥ 0 then some true
  else
    match partition q (some a) (some b) with
    | none => none
    | some segs =>
      if segs.any Seg.isRoot then some true
      else if segs.all (isGapOf (-1)) then some false
      else none

def reaches (p : P) (a b v : Rat) : Bool :=
  match reachesCert p a b v with
  | some r => r
  | none => dbgTrace s!"ORACLE-UNCERTIFIED reaches {p} [{a},{b}] {v}" fun _ => Sturm.reaches p a b v

def dipsTo (p : P) (a b v : Rat) : Bool := reaches (neg p) a b (-v)

/-- does `q` have a real root in `[a, b]`? -/
def hasRootCert (q : P) (a b : Rat) : Option Bool :=
  if a > b then some false else
  if eval q a = 0 ∨ eval q b = 0 then some true
  else
    match partition q (some a) (some b) with
    | none => none
    | some segs => some (segs.any Seg.isRoot)

def hasRoot (q : P) (a b : Rat) : Bool :=
  match hasRootCert q a b with
  | some r => r
  | none => dbgTrace s!"ORACLE-UNCERTIFIED hasRoot {q} [{a},{b}]" fun _ => decide (Sturm.countClosed q a b > 0)

/-- all real roots: intervals of width ≤ 2^-37 each containing a root, together containing every root -/
def rootsCert (q : P) : Option (List Seg) := partition q none none

def roots (q : P) : List Rat :=
  match rootsCert q with
  | some l => rootPoints l
  | none => dbgTrace s!"ORACLE-UNCERTIFIED roots {q}" fun _ => Sturm.roots q oracleEps

/-- the real roots in `[a, b]` -/
def rootsInCert (q : P) (a b : Rat) : Option (List Seg) :=
  if a > b then some [] else partition q (some a) (some b)

def rootsIn (q : P) (a b : Rat) : List Rat :=
  match rootsInCert q a b with
  | some l => rootPoints l
  | none => dbgTrace s!"ORACLE-UNCERTIFIED rootsIn {q} [{a},{b}]" fun _ => Sturm.rootsIn q a b oracleEps

end Sb.Corr.Cert
