/-
Correspondence ops for C20.
-/
import Sb.Corr.RthOps
import Sb.Model.Utils

namespace Sb.Corr
open Sb.Utils

def fbitsArg (s : String) : Option F32 := f32Tok s

/-- travel time: the symmetric accelerate–cruise–decelerate profile, compared without `sqrt`.
`.ok tag` or `.error message` for the implementation's answer `r` to (distance, speed, acceleration) -/
def ttJudge (d v a r : F32) (rb : String) : Except String String :=
  let invalid : Bool :=
    (match d with | .fin q => q < 0 | .ninf => true | .nan => true | .pinf => false) ||
    (match v with | .fin q => q ≤ 0 | .ninf => true | .nan => true | .pinf => false) ||
    (match a with | .fin q => q ≤ 0 | .ninf => true | .nan => true | .pinf => false)
  if invalid then (if r = .pinf then .ok "tt:invalid" else .error s!"invalid arguments must give +inf, impl bits {rb}")
  else
    match d, v, a with
    | .fin dq, .fin vq, .fin aq =>
      if dq = 0 then (if r = .fin 0 then .ok "tt:zero" else .error "distance 0 must give 0")
      else
        match r with
        | .fin t =>
          let rel : Rat := 1 / 262144
          if dq ≥ vq * vq / aq then
            let exact := vq / aq + dq / vq
            if absR (t - exact) ≤ rel * exact then .ok "tt:cruise" else .error s!"cruise regime: model {ratToString exact} impl {ratToString t}"
          else
            let sq := 4 * dq / aq
            -- distance/acceleration in the subnormal range has only a few significant bits: no precision is demanded
            if sq < 16 * pow2 (-126) then
              (if t ≥ 0 ∧ t * t ≤ 64 * pow2 (-126) then .ok "tt:triangular-subnormal" else .error s!"triangular regime (subnormal): model² {ratToString sq} impl {ratToString t}")
            else
            if absR (t * t - sq) ≤ 4 * rel * sq ∧ t ≥ 0 then .ok "tt:triangular" else .error s!"triangular regime: model² {ratToString sq} impl {ratToString t}"
        | .pinf =>
          -- a climb that takes longer than binary32 can express (subnormal speed, say) is reported as +inf
          if vq / aq + dq / vq ≥ pow2 127 then .ok "tt:overflow" else .error s!"finite arguments must give a finite time, impl bits {rb}"
        | _ => .error s!"finite arguments must give a finite time, impl bits {rb}"
    | .fin dq, .fin vq, .pinf =>
      if dq = 0 then (if r = .fin 0 then .ok "tt:zero" else .error "distance 0 must give 0") else
      match r with
      | .fin t => if absR (t - dq / vq) ≤ dq / vq / 262144 then .ok "tt:infacc" else .error s!"infinite acceleration: model {ratToString (dq / vq)} impl {ratToString t}"
      | .pinf => if dq / vq ≥ pow2 127 then .ok "tt:overflow" else .error "infinite acceleration must give distance/speed"
      | _ => .error "infinite acceleration must give distance/speed"
    | .pinf, .fin _, _ =>
      if r = .pinf then .ok "tt:infdist" else .error s!"infinite distance at finite speed must take infinitely long, impl bits {rb}"
    | .fin dq, .pinf, .fin aq =>
      if dq = 0 then (if r = .fin 0 then .ok "tt:zero" else .error "distance 0 must give 0") else
      match r with
      | .fin t =>
        let sq := 4 * dq / aq
        if absR (t * t - sq) ≤ sq / 65536 ∧ t ≥ 0 then .ok "tt:infspeed" else .error s!"unlimited speed: model² {ratToString sq} impl {ratToString t}"
      | _ => .error "unlimited speed, finite distance: finite time expected"
    | _, _, _ => .ok "tt:undetermined"     -- infinite distance at unlimited speed etc.: nothing is promised

def opTt (args impl : List String) : Verdict :=
  match args.map fbitsArg, impl with
  | [some d, some v, some a], [rb] =>
    match f32Tok rb with
    | none => .fail "unparsable result"
    | some r =>
      match ttJudge d v a r rb with
      | .ok tag => .ok [tag]
      | .error m => .fail m
  | _, _ => .badCase "tt"

/-- travel time never decreases with distance, up to float rounding (2^-20 relative) -/
def opTtMono (args impl : List String) : Verdict :=
  let ts := impl.map f32Tok
  if ts.length + 2 ≠ args.length then .fail "answer count" else
  let rec go : List (Option F32) → Option String
    | some (.fin a) :: some (.fin b) :: rest =>
      if b < a * (1 - 1 / 1048576) then some s!"time decreases: {ratToString a} then {ratToString b}" else go (some (.fin b) :: rest)
    | some (.fin _) :: some .pinf :: rest => go (some .pinf :: rest)
    | some .pinf :: some (.fin b) :: _ => some s!"time decreases from +inf to {ratToString b}"
    | some .pinf :: some .pinf :: rest => go (some .pinf :: rest)
    | [_] => none
    | [] => none
    | _ => some "unexpected value (NaN, -inf or unparsable)"
  match go ts with
  | some m => .fail m
  | none => .ok ["ttmono"]

def opScale (args impl : List String) : Verdict :=
  match args with
  | [ss, xs, ys, zs] =>
    match ss.toNat?, fbitsArg xs, fbitsArg ys, fbitsArg zs with
    | some s, some x, some y, some z =>
      let r3 := scaleUpdate s x y z
      let r2 := (scaleUpdate s x y (.fin 0)).bind (fun s2 => scaleUpdate s2 (.fin 0) (.fin 0) z)
      let tok := fun (r : R Nat) (sOld : Nat) => match r with
        | .ok n => ["0", toString n]
        | .error e => [toString e.code, toString sOld]
      -- on overflow the scale keeps its (normalised) old value
      let s1 := if s = 0 then 1 else s
      let exp3 := tok r3 s1
      let exp2 := match scaleUpdate s x y (.fin 0) with
        | .error e => [toString e.code, toString s1]
        | .ok s2 => tok (scaleUpdate s2 (.fin 0) (.fin 0) z) s2
      let _ := r2
      -- the documented contract, checked on the model's own answer: the new scale is the least one
      -- (not below the old) whose 16-bit range holds the point; latitude of one float ulp of the quotient
      let contract : Option String :=
        match x, y, z, r3 with
        | .fin xq, .fin yq, .fin zq, .ok ns =>
          let m := max (absR xq) (max (absR yq) (absR zq))
          if ns < s1 then some "scale lowered"
          else if m > 32767 * (ns : Rat) * (1 + 1 / 4194304) then some s!"point does not fit at scale {ns}"
          else if ns > s1 ∧ m * (1 + 1 / 4194304) ≤ 32767 * ((ns : Rat) - 1) then some s!"scale {ns} is not the least one"
          else none
        | _, _, _, _ => none
      match contract with
      | some m => .fail m
      | none => expectTokens (exp3 ++ exp2) impl [s!"scale:{exp3.headD "?"}"]
    | _, _, _, _ => .badCase "scale"
  | _ => .badCase "scale"

def opMs (args impl : List String) : Verdict :=
  match args.map fbitsArg with
  | [some s] =>
    match msecFromSeconds s with
    | .ok v => expectTokens ["0", toString v] impl ["ms:ok"]
    | .error e => expectTokens [toString e.code, "0"] impl [s!"ms:rc{e.code}"]
  | _ => .badCase "ms"

def opIvl (args impl : List String) : Verdict :=
  match args.map fbitsArg with
  | [some (.fin mn), some (.fin mx), some (.fin off)] =>
    let (a, b) := intervalExpand mn mx off
    match impl with
    | [ba, bb, same] =>
      if f32Eq ba a ∧ f32Eq bb b ∧ same = "1" then
        -- the documented contract: never inverted; a negative expansion collapses to the midpoint
        if a ≤ b then .ok [if a = b ∧ mn < mx then "ivl:collapsed" else "ivl:plain"] else .fail "model produced an inverted interval"
      else .fail s!"model ({ratToString a},{ratToString b}) impl {ba} {bb} box-same={same}"
    | _ => .fail "answer shape"
  | _ => .badCase "ivl (finite arguments expected)"

/-- what the property says of one interpolated channel, judged on the implementation's own answer `v`: the first colour
at ratio 0, the second at ratio 1, between them for ratios in [0,1] - and, as for fades (C02), less than one unit
(+2^-10) from the exact linear interpolation clamped to 0..255.  The model's binary32 evaluation (`lerpChanF`, about which
`lerp_zero/one/between` are proven) is one admissible answer, not the only one: an implementation that multiplies in double
precision differs from it by one unit where the binary32 product rounds up to a whole number. -/
def lerpChanOK (f s : Nat) (ratio : Rat) (v : Nat) : Option String :=
  let exact : Rat := (f : Rat) + (((s : Int) - (f : Int) : Int) : Rat) * ratio
  let cl : Rat := if exact < 0 then 0 else if exact > 255 then 255 else exact
  if ratio = 0 ∧ v ≠ f then some "ratio 0 must give the first colour"
  else if ratio = 1 ∧ v ≠ s then some "ratio 1 must give the second colour"
  else if 0 ≤ ratio ∧ ratio ≤ 1 ∧ !(decide (min f s ≤ v) && decide (v ≤ max f s)) then
    some "interpolated colour leaves the range spanned by the two colours"
  else if absR ((v : Rat) - cl) < 1 + 1 / 1024 then none
  else some s!"channel {v} is a unit or more away from the linear interpolation {ratToString cl}"

def opLerp (args impl : List String) : Verdict :=
  match args with
  | [r1, g1, b1, r2, g2, b2, rt] =>
    match [r1, g1, b1, r2, g2, b2].map String.toNat?, fbitsArg rt with
    | [some a, some b, some c, some d, some e, some f], some (.fin ratio) =>
      -- the model's own answer meets the contract (a run-time instance of the theorems about it)
      let m := [lerpChanOK a d ratio (lerpChanF a d ratio), lerpChanOK b e ratio (lerpChanF b e ratio), lerpChanOK c f ratio (lerpChanF c f ratio)]
      match m.filterMap id with
      | e0 :: _ => .fail s!"model: {e0}"
      | [] =>
        match impl.map String.toNat? with
        | [some x, some y, some z] =>
          match [lerpChanOK a d ratio x, lerpChanOK b e ratio y, lerpChanOK c f ratio z].filterMap id with
          | e0 :: _ => .fail s!"{e0} (impl {" ".intercalate impl})"
          | [] => .ok ["lerp"]
        | _ => .fail s!"answer shape {impl}"
    | _, _ => .badCase "lerp"
  | _ => .badCase "lerp"

/-- a whole row: first colour `f`, every second colour 0..255, ratios k/32 - the implementation's 256·33 answers as hex -/
def opLerpRow (args impl : List String) : Verdict :=
  match args.map String.toNat?, impl with
  | [some f], [hx] =>
    match hexToBytes hx with
    | none => .fail "lerp_row: answer is not hex"
    | some bs =>
      if bs.length ≠ 256 * 33 then .fail s!"lerp_row: {bs.length} answers instead of 8448" else
      let rec go (i : Nat) (l : List UInt8) : Option String :=
        match l with
        | [] => none
        | v :: rest =>
          match lerpChanOK f (i / 33) (((i % 33 : Nat) : Rat) / 32) v.toNat with
          | some e => some s!"second colour {i / 33}, ratio {i % 33}/32: {e}"
          | none => go (i + 1) rest
      match go 0 bs with
      | some e => .fail e
      | none => .ok ["lerp_row"]
  | _, _ => .badCase "lerp_row"

/-- the reference-colour method is float arithmetic (a scaled minimum, three scaled subtractions, each truncated): the
property demands that no channel exceeds the original; beyond that the implementation's answer has to stay within two units
of the model's binary32 evaluation (one truncation in the white channel and one in the subtraction may each fall the
other way when an intermediate product is rounded differently) -/
def refAnswerOK (orig : Nat × Nat × Nat) (m a : Nat × Nat × Nat × Nat) : Option String :=
  let near := fun (x y : Nat) => decide (x ≤ y + 2) && decide (y ≤ x + 2)
  if a.1 > orig.1 ∨ a.2.1 > orig.2.1 ∨ a.2.2.1 > orig.2.2 then some "reference colour: a channel exceeds the original"
  else if near a.1 m.1 && near a.2.1 m.2.1 && near a.2.2.1 m.2.2.1 && near a.2.2.2 m.2.2.2 then none
  else some "reference colour: more than two units from the conversion formula"

def opRgbw (args impl : List String) : Verdict :=
  match args with
  | m :: rest =>
    match rest.map String.toNat? with
    | [some r, some g, some b] =>
      if m = "s" then
        let (a, c, d, w) := rgbwSubtractMin r g b
        expectTokens [toString a, toString c, toString d, toString w] impl ["rgbw:min"]
      else .badCase "rgbw"
    | [some r, some g, some b, some fx] =>
      if m = "f" then expectTokens [toString r, toString g, toString b, toString fx] impl ["rgbw:fixed"] else .badCase "rgbw"
    | [some r, some g, some b, some rr, some rg, some rb] =>
      let (mul, div) := refParams rr rg rb
      let (a, c, d, w) := rgbwReference r g b mul div
      if a > r ∨ c > g ∨ d > b then .fail "model: reference-colour conversion exceeds an original channel"
      else
        match impl.map String.toNat? with
        | [some x, some y, some z, some v] =>
          match refAnswerOK (r, g, b) (a, c, d, w) (x, y, z, v) with
          | some e => .fail s!"{e} (model {a} {c} {d} {w}, impl {" ".intercalate impl})"
          | none => .ok ["rgbw:ref"]
        | _ => .fail s!"answer shape {impl}"
    | _ => .badCase "rgbw"
  | _ => .badCase "rgbw"

def natTriple (s : String) : Option (Nat × Nat × Nat) :=
  match (s.splitOn ",").map String.toNat? with
  | [some a, some b, some c] => some (a, b, c)
  | _ => none

/-- the documented contract of a conversion, checked on the implementation's own answer -/
def convContract (c : Conv) (r g b : Nat) (a : Nat × Nat × Nat × Nat) : Option String :=
  match c with
  | .fixed v => if a = (r, g, b, v) then none else some "fixed value: rgb must be untouched"
  | .subMin =>
    let w := a.2.2.2
    if a.1 + w = r ∧ a.2.1 + w = g ∧ a.2.2.1 + w = b ∧ w = min r (min g b) then none
    else some "min subtraction: rgb+w must give the original with w the smallest channel"
  | .ref _ _ _ =>
    if a.1 ≤ r ∧ a.2.1 ≤ g ∧ a.2.2.1 ≤ b then none else some "reference colour: a channel exceeds the original"

/-- one conversion object through set-up calls and conversions; the black-body colour of a temperature is taken from
the implementation (libm is not modelled) and held to the clamping contract of the function -/
def rgbwSeqGo : List String → List String → Conv → List String → Verdict
  | [], [], _, tags => .ok tags.eraseDups
  | [], _ :: _, _, _ => .fail "more answers than steps"
  | st :: rest, impl, c, tags =>
    let body := (st.drop 1).toString
    match (st.take 1).toString with
    | "s" => rgbwSeqGo rest impl c.useMin ("rgbwseq:min" :: tags)
    | "o" => rgbwSeqGo rest impl c.turnOff ("rgbwseq:off" :: tags)
    | "f" =>
      match body.toNat? with
      | some v => rgbwSeqGo rest impl (c.useFixed v) ("rgbwseq:fixed" :: tags)
      | none => .badCase "rgbwseq f"
    | "r" =>
      match natTriple body with
      | some (a, b, d) => rgbwSeqGo rest impl (c.useReference a b d) ("rgbwseq:ref" :: tags)
      | none => .badCase "rgbwseq r"
    | "t" =>
      match f32Tok body, impl with
      | some t, ans :: impl' =>
        if (ans.take 1).toString ≠ "T" then .fail s!"step {st}: answer {ans}" else
        match ((ans.drop 1).toString.splitOn ",").map String.toNat? with
        | [some r, some g, some b, some r', some g', some b'] =>
          let cached : Bool := match c with | .ref _ _ t0 => floatEq t0 t | _ => false
          let tag := if cached then "rgbwseq:temp-cached" else "rgbwseq:temp"
          let structural : Option String :=
            match t with
            | .nan => none
            | _ =>
              if (r, g, b) ≠ (r', g', b') then some "temperature outside 1000..40000 K must give the colour of the nearest bound"
              else
                let le66 : Bool := match t with | .fin q => q ≤ 6600 | .ninf => true | _ => false
                let ge66 : Bool := match t with | .fin q => q ≥ 6600 | .pinf => true | _ => false
                if le66 ∧ r ≠ 255 then some "red must be saturated up to 6600 K"
                else if ge66 ∧ b ≠ 255 then some "blue must be saturated from 6600 K"
                else none
          match structural with
          | some m => .fail s!"step {st}: {m} (impl {ans})"
          | none => rgbwSeqGo rest impl' (c.useTemperature t (r, g, b)) (tag :: tags)
        | _ => .fail s!"step {st}: answer {ans}"
      | some _, [] => .fail "fewer answers than steps"
      | none, _ => .badCase "rgbwseq t"
    | "c" =>
      match natTriple body, impl with
      | some (r, g, b), ans :: impl' =>
        match (ans.take 1).toString, ((ans.drop 1).toString.splitOn ",").map String.toNat? with
        | "C", [some a0, some a1, some a2, some a3] =>
          match convContract c r g b (a0, a1, a2, a3) with
          | some m => .fail s!"step {st}: {m} (impl {ans})"
          | none =>
            let m := c.convert r g b
            let isRef : Bool := match c with | .ref _ _ _ => true | _ => false
            if m = (a0, a1, a2, a3) then rgbwSeqGo rest impl' c tags
            else if isRef ∧ (refAnswerOK (r, g, b) m (a0, a1, a2, a3)).isNone then rgbwSeqGo rest impl' c tags
            else .fail s!"step {st}: model={m.1},{m.2.1},{m.2.2.1},{m.2.2.2} impl={ans}"
        | _, _ => .fail s!"step {st}: answer {ans}"
      | some _, [] => .fail "fewer answers than steps"
      | none, _ => .badCase "rgbwseq c"
    | _ => .badCase s!"rgbwseq step {st}"

def opRgbwSeq (args impl : List String) : Verdict := rgbwSeqGo args impl Conv.zero []

def opRgbwRow (args impl : List String) : Verdict :=
  match args with
  | m :: rest =>
    match rest.map String.toNat? with
    | some red :: ps =>
      match m, ps, impl with
      | "r", [some rr, some rg, some rb], [hx] =>
        -- reference colour: the implementation's 65536 answers (r g b w per colour) as hex, each held to `refAnswerOK`
        match hexToBytes hx with
        | none => .fail "rgbw_row: answer is not hex"
        | some bs =>
          if bs.length ≠ 4 * 65536 then .fail s!"rgbw_row: {bs.length} bytes instead of 262144" else
          let (mul, div) := refParams rr rg rb
          let rec go (i : Nat) (l : List UInt8) : Option String :=
            match l with
            | x :: y :: z :: v :: rest =>
              let g := i / 256
              let b := i % 256
              match refAnswerOK (red, g, b) (rgbwReference red g b mul div) (x.toNat, y.toNat, z.toNat, v.toNat) with
              | some e => some s!"colour {red} {g} {b}: {e} (impl {x.toNat} {y.toNat} {z.toNat} {v.toNat})"
              | none => go (i + 1) rest
            | _ => none
          match go 0 bs with
          | some e => .fail e
          | none => .ok ["rgbw_row:ref"]
      | _, _, _ =>
        let step (h : UInt64) (byte : Nat) : UInt64 := (h ^^^ UInt64.ofNat byte) * 1099511628211
        let h := (List.range 256).foldl (fun (h : UInt64) g =>
          (List.range 256).foldl (fun (h : UInt64) b =>
            let (a, c, d, w) := rgbwSubtractMin red g b
            step (step (step (step h a) c) d) w) h) (14695981039346656037 : UInt64)
        expectTokens [toString h.toNat] impl ["rgbw_row"]
    | _ => .badCase "rgbw_row"
  | _ => .badCase "rgbw_row"

def bufTok (rc : Nat) (b : Buf) : String :=
  s!"{rc}:{b.bytes.length}:{b.capacity}:{if b.owned then 0 else 1}:{bytesToHex b.bytes}"

def stepBuf (st : Buf × Option String × Nat) (q : String × String) : Buf × Option String × Nat :=
  let (b, err, rejected) := st
  if err.isSome then st else
  let (op, ans) := q
  match op.toList with
  | [] => (b, some "empty op", rejected)
  | k :: rest =>
    let a := String.ofList rest
    let r : Option (R Buf) :=
      if k = 'a' then (hexToBytes a).map (fun xs => b.append xs)
      else if k = 'b' then a.toNat?.map (fun v => b.append [UInt8.ofNat v])
      else if k = 'z' then a.toNat?.map (fun n => b.extendZeros n)
      else if k = 'r' then a.toNat?.map (fun n => b.resize n)
      else if k = 'c' then some b.clear
      else if k = 'p' then some b.prune
      else if k = 'f' then a.toNat?.map (fun v => .ok (b.fill (UInt8.ofNat v)))
      else if k = 'k' then (hexToBytes a).map (fun xs => b.append xs)
      else none
    match r with
    | none => (b, some s!"bad op {op}", rejected)
    | some (.ok b') => if ans = bufTok 0 b' then (b', none, rejected) else (b, some s!"{op}: model {bufTok 0 b'} impl {ans}", rejected)
    | some (.error e) =>
      -- a refused operation leaves the buffer as it was
      if ans = bufTok e.code b then (b, none, rejected + 1) else (b, some s!"{op}: model {bufTok e.code b} impl {ans}", rejected)

def opBufops (args impl : List String) : Verdict :=
  match args with
  | initS :: ops =>
    let b0? : Option Buf :=
      match initS.toList with
      | 'o' :: rest => (String.ofList rest).toNat?.map Buf.init
      | 'v' :: rest => (hexToBytes (String.ofList rest)).map Buf.view
      | _ => none
    match b0?, impl with
    | some b0, rc :: s0 :: answers =>
      if rc ≠ "0" then .fail "init rc" else
      if s0 ≠ bufTok 0 b0 then .fail s!"initial state: model {bufTok 0 b0} impl {s0}" else
      if answers.length ≠ ops.length then .fail "answer count" else
      let (bf, err, rej) := (ops.zip answers).foldl stepBuf (b0, none, 0)
      match err with
      | some m => .fail m
      | none =>
        -- invariants of the byte-vector refinement
        if bf.bytes.length > bf.capacity then .fail "size exceeds capacity in the model" else
        .ok [if b0.owned then "buf:owned" else "buf:view", s!"buf:refused{min rej 3}"]
    | _, _ => .badCase "bufops"
  | _ => .badCase "bufops"

end Sb.Corr
