/-
Correspondence op for C16: builder call sequences, the buffer compared byte for byte after every call.
-/
import Sb.Corr.Traj
import Sb.Model.Builder
import Sb.Spec.Trajectory

namespace Sb.Corr
open Sb.Builder Sb.Poly

def ratOfBits (s : String) : Option Rat :=
  match f32Tok s with
  | some (.fin q) => some q
  | _ => none

def vecOf (a : List String) : Option Vec4 :=
  match a.map ratOfBits with
  | some x :: some y :: some z :: some w :: _ => some ⟨x, y, z, w⟩
  | _ => none

structure BRun where
  b : Option Builder := none
  err : Option String := none
  ops : Nat := 0
  rejected : Nat := 0
  /-- what the successful calls since the last (re)start asked for: cumulative time in ms, the point given,
  and whether the call lasted longer than 0 ms -/
  pts : List (Nat × Vec4 × Bool) := []
  cum : Nat := 0
  startGiven : Option Vec4 := none

/-- yaw difference modulo 360, in (-180, 180] -/
def yawDiff (a b : Rat) : Rat :=
  let d := a - b
  let k : Int := (d / 360 + 1 / 2).floor
  d - 360 * (k : Rat)

/-- within one quantum per coordinate, yaw within a tenth of a degree (plus the rounding of `* 10.0f`) modulo 360 -/
def nearPoint (scale : Nat) (got want : Vec4) : Bool :=
  decide (absR (got.x - want.x) ≤ scale) && decide (absR (got.y - want.y) ≤ scale) &&
  decide (absR (got.z - want.z) ≤ scale) && decide (absR (yawDiff got.yaw want.yaw) ≤ 1 / 10 + 1 / 1000)

/-- The statement of C16 evaluated on the bytes handed over by `finish`, read with the format specification
(`Sb.Spec`): the trajectory lasts the sum of the requested durations, consists of straight segments, and at the
cumulative time of every successful call (that lasted longer than 0 ms) it is within one quantum of the point
given to that call. -/
def contractErr (bytes : Bytes) (scale : Nat) (startGiven : Option Vec4) (pts : List (Nat × Vec4 × Bool)) (cum : Nat) :
    Option String :=
  match Spec.segmentsOf bytes with
  | none => some "the finished trajectory has no header"
  | some (h, segs) =>
    if Spec.totalMs segs ≠ cum then some s!"the finished trajectory lasts {Spec.totalMs segs} ms, the calls asked for {cum} ms"
    else if segs.any (fun sg => sg.ctrl.x.length > 2 ∨ sg.ctrl.y.length > 2 ∨ sg.ctrl.z.length > 2 ∨ sg.ctrl.yaw.length > 2) then
      some "the finished trajectory contains a segment that is not a straight line"
    else
      let bad := pts.find? fun (T, want, pos) =>
        pos && !nearPoint scale (Spec.posAt segs h.start 0 ((T : Rat) / 1000)) want
      match bad with
      | some (T, want, _) =>
        some s!"at {T} ms the finished trajectory is at {fmtVec (Spec.posAt segs h.start 0 ((T : Rat) / 1000))}, the call that ends there gave {fmtVec want} (quantum {scale})"
      | none =>
        match startGiven with
        | some sp => if nearPoint scale h.start sp then none else some s!"the finished trajectory starts at {fmtVec h.start}, set-start gave {fmtVec sp}"
        | none => none

def stepBld (st : BRun) (q : String × String) : BRun :=
  if st.err.isSome then st else
  let (call, ans) := q
  match call.toList with
  | [] => { st with err := some "empty call" }
  | k :: rest =>
    let a := (String.ofList rest).splitOn ","
    let parts := ans.splitOn ":"
    if k = 'I' ∨ (k = 'R' ∧ st.b.isSome) then
      match a.map String.toNat? with
      | [some sc, some fl] =>
        match init sc fl with
        | .ok b => if parts = ["0", bytesToHex b.buf] then { st with b := some b, ops := st.ops + 1, pts := [], cum := 0, startGiven := none } else { st with err := some s!"init: model 0:{bytesToHex b.buf} impl {ans}" }
        | .error e => if parts.head? = some (toString e.code) then { st with b := none, rejected := st.rejected + 1 } else { st with err := some s!"init: model rc {e.code} impl {ans}" }
      | _ => { st with err := some "bad init args" }
    else
      match st.b with
      | none => st
      | some b =>
        let check (r : R Builder) (what : String) (upd : BRun → BRun := id) : BRun :=
          match r with
          | .ok b' =>
            if parts = ["0", bytesToHex b'.buf] then upd { st with b := some b', ops := st.ops + 1 }
            else { st with err := some s!"{what}: model 0:{bytesToHex b'.buf} impl {ans}" }
          | .error e =>
            -- a failed call must leave the builder exactly as it was
            if parts = [toString e.code, bytesToHex b.buf] then { st with rejected := st.rejected + 1 }
            else { st with err := some s!"{what}: model {e.code}:{bytesToHex b.buf} (unchanged) impl {ans}" }
        if k = 'J' then
          -- a refused init on a live builder leaves it exactly as it was
          match a.map String.toNat? with
          | [some sc, some fl] =>
            match init sc fl with
            | .error e => check (.error e) call
            | .ok _ => { st with err := some "J expects an invalid scale" }
          | _ => { st with err := some "bad init args" }
        else if k = 'S' then
          match vecOf a with
          | some v => check (setStart b v) call (fun r => { r with startGiven := some v })
          | none => { st with err := some "bad vector" }
        else if k = 'A' then
          match vecOf a, (a.getD 4 "").toNat? with
          | some v, some ms => check (appendLine b v ms) call
              (fun r => { r with cum := r.cum + ms, pts := r.pts ++ [(r.cum + ms, v, decide (ms > 0))] })
          | _, _ => { st with err := some "bad append args" }
        else if k = 'H' then
          match (a.getD 0 "").toNat? with
          | some ms => check (holdFor b ms) call
              (fun r => { r with cum := r.cum + ms, pts := r.pts ++ [(r.cum + ms, b.last, decide (ms > 0))] })
          | none => { st with err := some "bad hold args" }
        else if k = 'F' then
          let (bytes, b') := finish b
          -- total duration of what was built, from the trajectory model
          let trm := Traj.init bytes
          let dur : String :=
            match trm with
            | .ok tr =>
              match (do let p0 ← Traj.rewind Traj.secF32 tr; Traj.totalDurationMsec Traj.secF32 p0) with
              | .ok (_, ms) => toString ms
              | .error _ => "?"
            | .error _ => "?"
          -- where the finished trajectory starts and ends, read back through the trajectory model
          let probe := fun (t : Traj.QTime) (tok : String) =>
            match trm with
            | .ok tr =>
              match (do let p0 ← Traj.rewind Traj.secF32 tr; Traj.positionAt Traj.secF32 p0 t) with
              | .ok (p', v) =>
                match tok.splitOn "," with
                | [rc, x, y, z, w] =>
                  if rc ≠ "0" then some s!"position query rc {rc}" else
                  match f32Tok x, f32Tok y, f32Tok z, f32Tok w with
                  | some fx, some fy, some fz, some fw =>
                    let s := p'.cur
                    if closeTo fx v.x (tolPos s.ctrl.x s t) ∧ closeTo fy v.y (tolPos s.ctrl.y s t) ∧ closeTo fz v.z (tolPos s.ctrl.z s t)
                        ∧ closeTo fw v.yaw (tolPos s.ctrl.yaw s t) then none
                    else some s!"finished trajectory read back: model {fmtVec v} impl bits {tok}"
                  | _, _, _, _ => some "unparsable position"
                | _ => some s!"bad position answer {tok}"
              | .error _ => some "model cannot evaluate the finished trajectory"
            | .error _ => some "model cannot load the finished trajectory"
          match parts with
          | [rc, hb, hbuf, d, pos0, posEnd] =>
            if [rc, hb, hbuf, d] ≠ ["0", bytesToHex bytes, bytesToHex b'.buf, dur] then
              { st with err := some s!"finish: model 0:{bytesToHex bytes}:{bytesToHex b'.buf}:{dur} impl {ans}" }
            else
              match probe (.fin 0) pos0, probe .pinf posEnd with
              | some m, _ => { st with err := some s!"finish (t=0): {m}" }
              | _, some m => { st with err := some s!"finish (t=end): {m}" }
              | none, none =>
                match contractErr bytes b.scale st.startGiven st.pts st.cum with
                | some m => { st with err := some s!"finish: {m}" }
                | none => { st with b := some b', ops := st.ops + 1, pts := [], cum := 0, startGiven := none }
          | _ => { st with err := some s!"finish: model 0:{bytesToHex bytes}:{bytesToHex b'.buf}:{dur} impl {ans}" }
        else { st with err := some s!"unknown call {call}" }

def opBld (args impl : List String) : Verdict :=
  if impl.length > args.length then .fail "answer count" else
  let st := (args.zip impl).foldl stepBld {}
  match st.err with
  | some m => .fail m
  | none => .ok [s!"bld:ops{min st.ops 9}", s!"bld:rejected{min st.rejected 3}"]

end Sb.Corr
