/-
Correspondence op `stats <skyb file> queries…` for C13 (takeoff time), C14 (landing time), C15 (bounding box).

The trajectory is decoded by the specification (`Sb.Spec.segmentsOf`), every segment's axis polynomials are the
exact Bézier polynomials; the implementation's float answers are judged with the exact Sturm oracle:
  * a reported instant must yield the requested altitude (within the tolerance of the segment it falls in),
  * the altitude must not have been robustly reached earlier / "never reached" must be true,
  * the bounding box must contain every segment's curve and every face must be touched.
Bit-exact parts: parameter screening, `E - T`, equality of the proposal functions and the one-pass interface,
equality of the two loading routes.
-/
import Sb.Corr.PolyOps
import Sb.Corr.LoadOps
import Sb.Model.Stats
import Sb.Model.Trajectory

namespace Sb.Corr
open Sb.Poly Sb.Spec Sb.Stats

structure SegX where
  startMs : Nat
  durMs : Nat
  px : Poly
  py : Poly
  pz : Poly
  nx : Nat      -- number of control points per axis (8 = degree-7 encoding)
  ny : Nat
  nz : Nat
  zs : ZSeg

def segxs : List SegSpec → Vec4 → Nat → List SegX
  | [], _, _ => []
  | s :: rest, start, T =>
    let e := s.endPt start
    let zs : ZSeg := ZSeg.mk T s.durMs (makeBezier 1 s.ctrl.z) (s.ctrl.x.headD start.x) (s.ctrl.y.headD start.y)
      (s.ctrl.z.headD start.z) e.x e.y e.z
    { startMs := T, durMs := s.durMs, px := makeBezier 1 s.ctrl.x, py := makeBezier 1 s.ctrl.y, pz := makeBezier 1 s.ctrl.z,
      nx := s.ctrl.x.length, ny := s.ctrl.y.length, nz := s.ctrl.z.length, zs := zs } :: segxs rest e (T + s.durMs)

def SegX.startSec (s : SegX) : Rat := (s.startMs : Rat) / 1000
def SegX.endSec (s : SegX) : Rat := ((s.startMs + s.durMs : Nat) : Rat) / 1000

/-- altitude tolerance inside one segment: float rounding for constant / linear altitude, the calibrated
residual tolerance of the closed-form solvers for curved altitude -/
def zTol (p : Poly) (level : Rat) : Rat :=
  let s := absSum p 1 + absR level
  if (Sturm.trim p).length ≤ 2 then 32 * epsF * s + tinyF else residTol * s

/-- local-time tolerance of a reported instant inside a segment -/
def uTol (p : Poly) : Rat := if (Sturm.trim p).length ≤ 2 then 1 / 65536 else rootTol

/-- float slack of a reported absolute time -/
def timeSlack (e : Rat) : Rat := 8 * epsF * max 1 (absR e)

/-- does the instant `e` (seconds) yield the altitude `level` (in some segment containing it)? -/
def yieldsAltitude (segs : List SegX) (e level : Rat) (extra : Rat := 0) : Bool :=
  let δ := timeSlack e
  segs.any fun s =>
    if s.startSec - δ ≤ e ∧ e ≤ s.endSec + δ then
      let d : Rat := (s.durMs : Rat) / 1000
      let u0 : Rat := if s.durMs = 0 then 0 else (e - s.startSec) / d
      let u := max 0 (min 1 u0)
      let δu : Rat := if s.durMs = 0 then 0 else δ / d
      -- the value it yields, or (forward criterion, as for the solver in C18) an exact solution within the
      -- local-time tolerance of the reported point
      absR (Sturm.eval s.pz u - level) ≤ zTol s.pz level + absSum (Sturm.deriv s.pz) 1 * δu + extra ||
        (let q := Sturm.addP s.pz [-level]
         !Sturm.isZero q && Cert.hasRoot q (max 0 (u - uTol s.pz - δu)) (min 1 (u + uTol s.pz + δu)))
    else false

/-- is `level` robustly reached (from below) strictly before the instant `e`? -/
def reachedBefore (segs : List SegX) (e level : Rat) : Option String :=
  let δ := timeSlack e
  let bad := segs.find? fun s =>
    if s.nz = 8 then false      -- degree-7 altitude: outside the quantifier
    else if s.endSec < e - δ then Cert.reaches s.pz 0 1 (level + zTol s.pz level)
    else if s.startSec < e - δ ∧ s.durMs ≠ 0 then
      let d : Rat := (s.durMs : Rat) / 1000
      let u := (e - δ - s.startSec) / d - uTol s.pz
      Cert.reaches s.pz 0 (min 1 u) (level + zTol s.pz level)
    else false
  bad.map fun s => s!"the altitude {ratToString level} is already exceeded in the segment starting at {s.startMs} ms, before the reported {ratToString e} s"

def reachedAnywhere (segs : List SegX) (level : Rat) : Option String :=
  (segs.find? fun s => s.nz ≠ 8 ∧ Cert.reaches s.pz 0 1 (level + zTol s.pz level)).map fun s =>
    s!"reported 'never reached' but the segment starting at {s.startMs} ms exceeds the altitude {ratToString level}"

def f32OfTok (s : String) : Option F32 := f32Tok s

/-- the exact root oracle handed to the model `Sb.Stats`: the leftmost solution of p = v in [0,1] (2^-40 accurate) -/
def exactTouch : Touch := fun p v =>
  let q := Sturm.addP p [-v]
  if Sturm.isZero q then some 0
  else if Sturm.eval q 0 = 0 then some 0
  else (Cert.rootsIn q 0 1).head?

/-- does the implementation's instant agree with the model's (run with the exact oracle), up to 2% of the duration
of the segment the model's instant lies in?  Reported as a tag; the verdict is the acceptance rule. -/
def agreesWithModel (segs : List SegX) (impl : Option Rat) (model : Option Rat) : String :=
  match impl, model with
  | none, none => "model-agrees"
  | some e, some m =>
    let d : Rat := ((segs.find? (fun s => s.startSec ≤ m ∧ m ≤ s.endSec)).map (fun s => (s.durMs : Rat) / 1000)).getD 0
    if absR (e - m) ≤ d / 50 + timeSlack m then "model-agrees" else "model-differs-within-altitude-tolerance"
  | _, _ => "model-differs-within-altitude-tolerance"

def F32.subF (a b : Rat) : Rat := roundF32 (a - b)

/-- K<h>,<v>,<a> -/
def checkTakeoff (segs : List SegX) (z0 : Rat) (q ans : String) : Except String (List String) :=
  match (splitCommas q).map f32OfTok, splitCommas ans with
  | [some h, some v, some a], [propS, rcS, takeS, earlS, adjS, same] =>
    if same ≠ "=" then .error "takeoff: the two loading routes answer differently" else
    match f32OfTok propS, rcS.toNat?, f32OfTok takeS, f32OfTok earlS, f32OfTok adjS with
    | some prop, some rc, some take, some earl, some adj =>
      if !takeoffParamsValid h v a then
        if prop ≠ .pinf then .error s!"takeoff: invalid parameters must give +infinity (bits {propS})"
        else if rc ≠ Err.einval.code then .error s!"takeoff: the one-pass interface must reject invalid parameters, rc {rc}"
        else .ok ["takeoff:invalid"]
      else if rc ≠ 0 then .error s!"takeoff: one-pass interface rc {rc}"
      else if prop ≠ take then .error s!"takeoff: proposal (bits {propS}) and one-pass interface (bits {takeS}) differ"
      else
        match h with
        | .fin hq =>
          let target := roundF32 (z0 + hq)
          -- E - T, bit exact on the implementation's own E and T
          let expectTake : F32 := match earl, adj with
            | .fin e, .fin t => .fin (roundF32 (e - t))
            | _, _ => .pinf
          if take ≠ expectTake then .error s!"takeoff: E - T: E bits {earlS}, T bits {adjS}, result bits {takeS}"
          else
          -- T is the accelerate-cruise-decelerate climb time of height h (the rule of C20)
          match Sb.Corr.ttJudge h v a adj adjS with
          | .error m => .error s!"takeoff: climb time T: {m}"
          | .ok _ =>
            match earl with
            | .fin e =>
              if e < 0 then .error "takeoff: negative crossing time" else
              -- constant-altitude segments are compared exactly: a crossing inside the initial hover means its altitude IS the target
              let hoverEnd : Rat := (((segs.takeWhile (fun s => s.nz == 1)).map (·.durMs)).sum : Nat) / 1000
              if e < hoverEnd - 1 / 2000 ∧ target ≠ z0 then
                .error s!"takeoff: crossing reported at {ratToString e} s inside the initial hover (altitude {ratToString z0}) although the takeoff altitude is {ratToString target}"
              else
              -- a segment that is level at exactly the takeoff altitude (constant, or linear with equal ends: compared
              -- exactly) reaches it at its start: the crossing cannot be reported later than that
              match segs.find? (fun s => s.nz ≤ 2 ∧ s.durMs > 0 ∧ s.pz.headD 0 = target ∧ (s.pz.drop 1).all (· == 0)) with
              | some s =>
                if s.startSec < e - 1 / 2000 then
                  .error s!"takeoff: the segment starting at {s.startMs} ms is level at exactly the takeoff altitude {ratToString target}, but the crossing is reported later, at {ratToString e} s"
                else
                  (if !yieldsAltitude segs e target then .error s!"takeoff: at the reported crossing {ratToString e} s the altitude is not {ratToString target}"
                   else
                    match reachedBefore segs e target with
                    | some m => .error s!"takeoff: {m}"
                    | none => .ok [match adj with | .fin _ => "takeoff:finite" | _ => "takeoff:reached-but-climb-infinite", "takeoff:level-at-target",
                                   "takeoff:" ++ agreesWithModel segs (some e) (earliestAbove exactTouch (segs.map (·.zs)) target)])
              | none =>
              if !yieldsAltitude segs e target then .error s!"takeoff: at the reported crossing {ratToString e} s the altitude is not {ratToString target}"
              else
                match reachedBefore segs e target with
                | some m => .error s!"takeoff: {m}"
                | none => .ok [match adj with | .fin _ => "takeoff:finite" | _ => "takeoff:reached-but-climb-infinite",
                               "takeoff:" ++ agreesWithModel segs (some e) (earliestAbove exactTouch (segs.map (·.zs)) target)]
            | .pinf =>
              if segs.any (fun s => s.nz ≤ 2 ∧ s.durMs > 0 ∧ s.pz.headD 0 = target ∧ (s.pz.drop 1).all (· == 0)) then
                .error s!"takeoff: reported 'never reached' although a segment is level at exactly the takeoff altitude {ratToString target}"
              else
              match reachedAnywhere segs target with
              | some m => .error s!"takeoff: {m}"
              | none => .ok ["takeoff:never-reached", "takeoff:" ++ agreesWithModel segs none (earliestAbove exactTouch (segs.map (·.zs)) target)]
            | _ => .error s!"takeoff: crossing time bits {earlS}"
        | _ => .error "takeoff: unreachable"
    | _, _, _, _, _ => .error s!"takeoff: unparsable {ans}"
  | _, _ => .error s!"takeoff: unparsable {q} / {ans}"

/-- L<descent>,<threshold> -/
def checkLanding (segs : List SegX) (q ans : String) : Except String (List String) :=
  match (splitCommas q).map f32OfTok, splitCommas ans with
  | [some pd, some thr], [propS, rcS, landS, totalS, same] =>
    if same ≠ "=" then .error "landing: the two loading routes answer differently" else
    match f32OfTok propS, rcS.toNat?, f32OfTok landS, f32OfTok totalS with
    | some (.fin prop), some rc, some land, some (.fin total) =>
      let totalMs := (segs.map (·.durMs)).sum
      if absR (total - Sb.Traj.secExact totalMs) > Sb.Traj.secExact totalMs / 4194304 then .error s!"landing: total duration {ratToString total}" else
      -- start + 1.0 * duration may exceed (start_ms + duration_ms)/1000 by a rounding step
      if prop < 0 ∨ prop > total + timeSlack total then .error s!"landing: result {ratToString prop} outside [0, {ratToString total}]" else
      let screened : Bool := match pd, thr with
        | .fin p, .fin _ => p ≤ fltMin
        | _, _ => true
      if screened then
        if prop ≠ total then .error s!"landing: non-positive or non-finite arguments must give the total duration, got {ratToString prop}"
        else
          -- a preferred descent of exactly 0 is a valid setting of the one-pass interface too (negative and non-finite
          -- settings are refused there): it succeeds and reports an instant of the trajectory.  It need not be the total
          -- duration: the calculator does not screen 0, and with a level stretch at the end every instant of it leaves a
          -- remaining descent of 0 (the unchanged library reports its first instant).
          match pd, thr with
          | .fin p, .fin t0 =>
            if p = 0 ∧ t0 ≥ 0 then
              (if rc ≠ 0 then .error s!"landing: one-pass interface rc {rc} for a preferred descent of 0"
               else match land with
                 | .fin l =>
                   if l < 0 ∨ l > total + timeSlack total then .error s!"landing: preferred descent 0: one-pass result {ratToString l} outside [0, {ratToString total}]"
                   else .ok ["landing:screened", "landing:zero-descent-one-pass"]
                 | _ => .error s!"landing: preferred descent 0: one-pass result is not finite (bits {landS})")
            else .ok ["landing:screened"]
          | _, _ => .ok ["landing:screened"]
      else
        match pd, thr with
        | .fin p, .fin t0 =>
          let t := if t0 < 0 then 0 else t0
          let zs := segs.map (·.zs)
          let run := verticalSuffix t zs
          -- the one-pass interface agrees (it does not clamp a negative threshold)
          let passCheck : Option String :=
            if t0 < 0 then none
            else if rc ≠ 0 then some s!"landing: one-pass interface rc {rc}"
            else if land ≠ .fin prop then some s!"landing: proposal {ratToString prop} and one-pass interface (bits {landS}) differ"
            else none
          match passCheck with
          | some m => .error m
          | none =>
            match run with
            | [] => if prop = total then .ok ["landing:no-vertical-end"] else .error s!"landing: no vertical descent at the end, expected the total duration, got {ratToString prop}"
            | first :: _ =>
              let startAlt := first.z0
              let endAlt := (run.getLast?.map (·.ze)).getD startAlt
              let descent := startAlt - endAlt
              let startR := Sb.Traj.secF32 first.startMs
              let noise := 16 * epsF * (absR startAlt + absR endAlt + absR p) + tinyF
              let level := endAlt + p
              let runX := segs.drop (segs.length - run.length)
              let inside : Bool := prop ≥ startR ∧ yieldsAltitude runX prop level (2 * noise)
              let mtag := "landing:" ++ agreesWithModel segs (some prop) (some (proposeLanding exactTouch zs pd thr))
              if descent ≤ p - noise then
                if prop = startR then .ok [s!"landing:short-run:{run.length}", mtag] else .error s!"landing: the final descent {ratToString descent} does not exceed the preferred {ratToString p}: expected the start of the run {ratToString startR}, got {ratToString prop}"
              else if descent ≥ p + noise then
                if inside then .ok [s!"landing:inside-run:{run.length}", mtag]
                else .error s!"landing: at the reported {ratToString prop} s the remaining descent is not {ratToString p} (level {ratToString level}, run starts {ratToString startR})"
              else if descent = p ∧ run.all (fun s => s.z.length ≤ 2) then
                -- exactly the preferred descent, in a run of constant / linear altitude segments (integers times the scale: no rounding is involved): "no more than
                -- the preferred descent", so the start of the run, not a later instant of a hover at its beginning
                if prop = startR then .ok ["landing:boundary-exact"]
                else .error s!"landing: the final descent is exactly the preferred {ratToString p}: expected the start of the run {ratToString startR}, got {ratToString prop}"
              else
                if prop = startR ∨ inside then .ok ["landing:boundary"] else .error s!"landing: boundary case, got {ratToString prop}"
        | _, _ => .error "landing: unreachable"
    | _, _, _, _ => .error s!"landing: unparsable or non-finite {ans}"
  | _, _ => .error s!"landing: unparsable {q} / {ans}"

/-- tolerance of one face of the box against one segment polynomial -/
def boxTol (p : Poly) : Rat := 64 * epsF * absSum p 1 + tinyF

def checkAxis (name : String) (ps : List Poly) (lo hi : Rat) : Option String :=
  if lo > hi then some s!"box {name}: min > max" else
  match ps.find? (fun p => Cert.reaches p 0 1 (hi + boxTol p)) with
  | some _ => some s!"box {name}: the trajectory exceeds the reported maximum {ratToString hi}"
  | none =>
    match ps.find? (fun p => Cert.dipsTo p 0 1 (lo - boxTol p)) with
    | some _ => some s!"box {name}: the trajectory goes below the reported minimum {ratToString lo}"
    | none =>
      if !ps.any (fun p => Cert.reaches p 0 1 (hi - boxTol p)) then some s!"box {name}: the reported maximum {ratToString hi} is never touched"
      else if !ps.any (fun p => Cert.dipsTo p 0 1 (lo + boxTol p)) then some s!"box {name}: the reported minimum {ratToString lo} is never touched"
      else none

def checkBox (segs : List SegX) (ans : String) : Except String (List String) :=
  let deg7 := segs.any (fun s => s.nx = 8 ∨ s.ny = 8 ∨ s.nz = 8)
  let pre := if deg7 then "[degree7-bbox] " else ""
  let r : Except String (List String) :=
    match splitCommas ans with
    | [rcS, a, b, c, d, e, f, flag, same] =>
      if same ≠ "=" then .error "box: the two loading routes answer differently" else
      if rcS ≠ "0" ∨ flag ≠ "=" then .error s!"box: rc {rcS} {flag}" else
      match [a, b, c, d, e, f].map f32OfTok with
      | [some xl, some xh, some yl, some yh, some zl, some zh] =>
        if segs.isEmpty then
          if xl = .pinf ∧ yl = .pinf ∧ zl = .pinf ∧ xh = .ninf ∧ yh = .ninf ∧ zh = .ninf then .ok ["box:empty"]
          else .error "box: a trajectory without segments has the empty box [+inf, -inf]"
        else
          match xl, xh, yl, yh, zl, zh with
          | .fin x0, .fin x1, .fin y0, .fin y1, .fin z0, .fin z1 =>
            match checkAxis "x" (segs.map (·.px)) x0 x1, checkAxis "y" (segs.map (·.py)) y0 y1, checkAxis "z" (segs.map (·.pz)) z0 z1 with
            | none, none, none => .ok [if deg7 then "box:with-degree7" else "box:ok"]
            | some m, _, _ => .error m
            | _, some m, _ => .error m
            | _, _, some m => .error m
          | _, _, _, _, _, _ => .error s!"box: non-finite bounds {ans}"
      | _ => .error s!"box: unparsable {ans}"
    | _ => .error s!"box: unparsable {ans}"
  match r with
  | .ok t => .ok t
  | .error m => .error (pre ++ m)

def opStats (args impl : List String) : Verdict :=
  match args, impl with
  | hx :: qs, rcs :: answers =>
    match hexToBytes hx with
    | none => .badCase "stats: hex"
    | some data =>
      let rf := Sb.Load.load .traj false data
      let rm := Sb.Load.load .traj true data
      if rcs ≠ s!"{R.rc rf},{R.rc rm}" then .fail s!"load rc: model {R.rc rf},{R.rc rm} impl {rcs}" else
      match rf, rm with
      | .ok (b, _), .ok _ =>
        match segmentsOf b with
        | none => .fail "stats: model cannot decode the header of a trajectory the loader accepted"
        | some (hd, ss) =>
          let segs := segxs ss hd.start 0
          if qs.length ≠ answers.length then .fail s!"answer count: {qs.length} queries, {answers.length} answers" else
          let rec go (l : List (String × String)) (tags : List String) : Verdict :=
            match l with
            | [] => .ok tags
            | (q, a) :: more =>
              let r := match q.toList with
                | 'K' :: rest => checkTakeoff segs hd.start.z (String.ofList rest) a
                | 'L' :: rest => checkLanding segs (String.ofList rest) a
                | ['B'] => checkBox segs a
                | _ => .error s!"unknown query {q}"
              match r with
              | .ok t => go more (tags ++ t)
              | .error m => .fail s!"[{q}] {m}"
          go (qs.zip answers) [s!"segs{min segs.length 9}"]
      | _, _ => if answers.isEmpty then .ok ["stats:load-failed"] else .fail "answers after a failed load"
  | _, _ => .badCase "stats"

/-- one caller buffer / one allocator, several trajectories one after the other: every box is judged on its own bytes -/
def opStatsSeq (args impl : List String) : Verdict :=
  if args.length ≠ impl.length then .fail s!"answer count: {args.length} files, {impl.length} answers" else
  let rec go (l : List (String × String)) (i : Nat) (tags : List String) : Verdict :=
    match l with
    | [] => .ok tags
    | (hx, a) :: more =>
      match hexToBytes hx with
      | none => .badCase "statsseq: hex"
      | some data =>
        match Sb.Load.load .traj false data, Sb.Load.load .traj true data with
        | .ok (b, _), .ok _ =>
          match segmentsOf b with
          | none => .fail "statsseq: model cannot decode the header of a trajectory the loader accepted"
          | some (hd, ss) =>
            match a.splitOn "," with
            | rcm :: rcf :: rest =>
              if rcm ≠ "0" ∨ rcf ≠ "0" then .fail s!"file {i}: load rc {rcm},{rcf}, model accepts" else
              match checkBox (segxs ss hd.start 0) (",".intercalate rest) with
              | .ok t => go more (i + 1) (tags ++ t)
              | .error m => .fail s!"file {i} of the sequence: {m}"
            | _ => .fail s!"file {i}: answer {a}"
        | _, _ => .badCase "statsseq: a file the model rejects"
  go (args.zip impl) 0 [s!"statsseq:n{args.length}"]

end Sb.Corr
