/-
Shared helpers of the correspondence driver: token parsing, verdicts.
-/
import Sb.Model.Basic

namespace Sb.Corr

def hexVal (c : Char) : Option Nat :=
  if '0' ≤ c ∧ c ≤ '9' then some (c.toNat - '0'.toNat)
  else if 'a' ≤ c ∧ c ≤ 'f' then some (c.toNat - 'a'.toNat + 10)
  else if 'A' ≤ c ∧ c ≤ 'F' then some (c.toNat - 'A'.toNat + 10)
  else none

def hexToBytesAux : List Char → List UInt8 → Option (List UInt8)
  | [], acc => some acc.reverse
  | [_], _ => none
  | a :: b :: rest, acc =>
    match hexVal a, hexVal b with
    | some x, some y => hexToBytesAux rest (UInt8.ofNat (x * 16 + y) :: acc)
    | _, _ => none

/-- "-" denotes the empty string -/
def hexToBytes (s : String) : Option Bytes :=
  if s = "-" then some [] else hexToBytesAux s.toList []

def hexDigit (n : Nat) : Char :=
  if n < 10 then Char.ofNat ('0'.toNat + n) else Char.ofNat ('a'.toNat + n - 10)

def bytesToHex (b : Bytes) : String :=
  if b.isEmpty then "-" else
  String.ofList (b.foldr (fun x acc => hexDigit (x.toNat / 16) :: hexDigit (x.toNat % 16) :: acc) [])

/-- signed decimal -/
def parseInt (s : String) : Option Int :=
  if s.startsWith "-" then (s.drop 1).toNat?.map (fun n => -(n : Int)) else s.toNat?.map (fun n => (n : Int))

inductive Verdict where
  | ok (tags : List String := [])
  | fail (msg : String)
  | badCase (msg : String)
  deriving Inhabited

def Verdict.render : Verdict → String
  | .ok tags => "OK" ++ (if tags.isEmpty then "" else " " ++ " ".intercalate tags)
  | .fail m => "FAIL " ++ m
  | .badCase m => "BADCASE " ++ m

/-- compare expected token list with the implementation's -/
def expectTokens (expected impl : List String) (tags : List String := []) : Verdict :=
  if expected = impl then .ok tags
  else .fail s!"model={" ".intercalate expected} impl={" ".intercalate impl}"

def ratToString (q : Rat) : String :=
  if q.den = 1 then toString q.num else s!"{q.num}/{q.den}"

end Sb.Corr
