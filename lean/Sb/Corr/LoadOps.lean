/-
Correspondence op for C06 / C03: `load2 kind hex` — both routes on the same bytes.
-/
import Sb.Corr.Util
import Sb.Model.Load
import Sb.Corr.LightOps

namespace Sb.Corr
open Sb.Load

def kindOf (s : String) : Option Kind :=
  if s = "t" then some .traj else if s = "l" then some .light else if s = "y" then some .yaw
  else if s = "r" then some .rth else none

def opLoad2 (args impl : List String) : Verdict :=
  match args with
  | [ks, hx] =>
    match kindOf ks, hexToBytes hx with
    | some k, some data =>
      let rf := load k false data
      let rm := load k true data
      match impl with
      | rcF :: rcM :: rest =>
        if rcF.contains '!' then
          .fail s!"the descriptor route does not leave the caller's descriptor usable (a second load of the same bytes through it must behave like the first): {rcF}"
        else if rcM.contains '!' then
          .fail s!"the memory route wrote to the caller's bytes: {rcM}"
        else if rcF ≠ toString (R.rc rf) then .fail s!"descriptor route rc: model {R.rc rf} impl {rcF}"
        else if rcM ≠ toString (R.rc rm) then .fail s!"memory route rc: model {R.rc rm} impl {rcM}"
        else
          -- C06: both fail or both succeed
          if (rcF = "0") ≠ (rcM = "0") then .fail s!"one route fails and the other succeeds: fd {rcF} mem {rcM}"
          else
            match rf, rm, rest with
            | .ok (bf, of), .ok (bm, om), [hbF, hbM, oF, oM, sameQ, sameC, _] =>
              if hbF ≠ bytesToHex bf ∨ hbM ≠ bytesToHex bm then .fail s!"block bytes: model {bytesToHex bf} impl {hbF} / {hbM}"
              else if hbF ≠ hbM then .fail "block bytes differ between the routes"
              else if oF ≠ (if of then "1" else "0") ∨ oM ≠ (if om then "1" else "0") then
                .fail s!"ownership: model {of}/{om} impl {oF}/{oM}"
              else if sameQ ≠ "same" then .fail s!"query results differ between the routes: {sameQ}"
              else if sameC ≠ "same" then .fail s!"after clear the routes differ: {sameC}"
              else .ok [s!"load:{ks}:ok", s!"len{min bf.length 9}"]
            | .error _, .error _, [] => .ok [s!"load:{ks}:rc{R.rc rf}/{R.rc rm}"]
            | _, _, _ => .fail s!"answer shape: {" ".intercalate impl}"
      | _ => .fail "answer too short"
    | _, _ => .badCase "load2"
  | _ => .badCase "load2"

/-- the timestamps of the harness' light battery (ops_load.cpp) -/
def lightBatteryStamps : List Nat :=
  [0, 0, 0, 1, 1, 1, 20, 20, 20, 500, 500, 500, 1000, 1000, 1000, 1001, 1001, 1001, 5000, 5000, 5000,
   60000, 60000, 60000, 123456, 123456, 123456, 16777215, 16777215, 16777215, 20]

/-- explanation of a watchdog timeout: a light program with a cycle that consumes no time -/
def timeoutExplain (op : String) (args : List String) : String :=
  let generic := "implementation did not return (watchdog)"
  match op, args with
  | "lightq", hx :: qs =>
    match hexToBytes hx with
    | some prog =>
      let stamps := qs.filterMap (fun q => (q.drop 1).toNat?)
      if lightHangs prog stamps then "[zero-time-cycle] " ++ generic ++ "; the model's seek does not terminate either: the program has a loop or jump cycle that consumes no time" else generic
    | none => generic
  | "load2", ["l", hx] =>
    match hexToBytes hx with
    | some data =>
      match load .light true data with
      | .ok (prog, _) =>
        if lightHangs prog lightBatteryStamps then "[zero-time-cycle] " ++ generic ++ "; the light program has a cycle that consumes no time" else generic
      | .error _ => generic
    | none => generic
  | _, _ => generic

end Sb.Corr
