/-
Correspondence ops for C19 (codecs, RGB565) and C05 (incremental CRC).
Each op computes the model's answer from the case arguments and compares it with the
implementation's answer tokens (exact equality: all outputs are integers / byte strings).
-/
import Sb.Corr.Util
import Sb.Model.Parsing
import Sb.Model.Crc
import Sb.Model.Colors

namespace Sb.Corr
open Sb.Parsing

def opWr16 (args impl : List String) : Verdict :=
  match args with
  | [vs] =>
    match vs.toNat? with
    | some v =>
      let bytes := writeU16 (v % 65536)
      match parseU16 bytes 0, parseI16 bytes 0 with
      | .ok (u, _), .ok (i, _) =>
        expectTokens [bytesToHex bytes, "4", toString u, "4", toString i, "1"] impl
      | _, _ => .fail "model fault"
    | none => .badCase "wr16"
  | _ => .badCase "wr16"

def opWri16 (args impl : List String) : Verdict :=
  match args with
  | [vs] =>
    match parseInt vs with
    | some v =>
      let bytes := writeI16 v
      match parseI16 bytes 0 with
      | .ok (i, _) => expectTokens [bytesToHex bytes, "4", toString i, "4", "1"] impl
      | _ => .fail "model fault"
    | none => .badCase "wri16"
  | _ => .badCase "wri16"

def opWr32 (args impl : List String) : Verdict :=
  match args with
  | [vs] =>
    match vs.toNat? with
    | some v =>
      let bytes := writeU32 (v % 4294967296)
      match parseU32 bytes 0, parseI32 bytes 0 with
      | .ok (u, _), .ok (i, _) =>
        expectTokens [bytesToHex bytes, "6", toString u, "6", toString i, "1"] impl
      | _, _ => .fail "model fault"
    | none => .badCase "wr32"
  | _ => .badCase "wr32"

def opWri32 (args impl : List String) : Verdict :=
  match args with
  | [vs] =>
    match parseInt vs with
    | some v =>
      let bytes := writeI32 v
      match parseI32 bytes 0 with
      | .ok (i, _) => expectTokens [bytesToHex bytes, "6", toString i, "6", "1"] impl
      | _ => .fail "model fault"
    | none => .badCase "wri32"
  | _ => .badCase "wri32"

def opP16 (args impl : List String) : Verdict :=
  match args with
  | [hx, offs] =>
    match hexToBytes hx, offs.toNat? with
    | some b, some off =>
      match parseU16 b off, parseI16 b off with
      | .ok (u, o), .ok (i, _) => expectTokens [toString u, toString i, toString o] impl
      | _, _ => .badCase "p16 out of range"
    | _, _ => .badCase "p16"
  | _ => .badCase "p16"

def opP32 (args impl : List String) : Verdict :=
  match args with
  | [hx, offs] =>
    match hexToBytes hx, offs.toNat? with
    | some b, some off =>
      match parseU32 b off, parseI32 b off with
      | .ok (u, o), .ok (i, _) => expectTokens [toString u, toString i, toString o] impl
      | _, _ => .badCase "p32 out of range"
    | _, _ => .badCase "p32"
  | _ => .badCase "p32"

def opVaru (args impl : List String) : Verdict :=
  match args with
  | [hx, ns, offs] =>
    match hexToBytes hx, ns.toNat?, offs.toNat? with
    | some b, some n, some off =>
      let n := min n b.length
      match parseVaruint32 (b.take n) n off with
      | .ok v o => expectTokens ["ok", toString v, toString o] impl ["varu:ok"]
      | .overflow o => expectTokens ["overflow", toString o] impl ["varu:overflow"]
      | .parse o => expectTokens ["parse", toString o] impl ["varu:parse"]
      | .fault => .fail s!"model: out-of-bounds read; impl={" ".intercalate impl}"
    | _, _, _ => .badCase "varu"
  | _ => .badCase "varu"

def opR565d (args impl : List String) : Verdict :=
  match args with
  | [cs] =>
    match cs.toNat? with
    | some c =>
      let (r, g, b) := Colors.decodeRgb565 (c % 65536)
      expectTokens [toString r, toString g, toString b] impl
    | none => .badCase "r565d"
  | _ => .badCase "r565d"

def opR565e (args impl : List String) : Verdict :=
  match args.map String.toNat? with
  | [some r, some g, some b] => expectTokens [toString (Colors.encodeRgb565 r g b)] impl
  | _ => .badCase "r565e"

def fnv (h : UInt64) (v : Nat) : UInt64 :=
  let step (h : UInt64) (byte : Nat) : UInt64 := (h ^^^ UInt64.ofNat byte) * 1099511628211
  step (step (step (step h (v % 256)) (v / 256 % 256)) (v / 65536 % 256)) (v / 16777216 % 256)

def opR565eAll (args impl : List String) : Verdict :=
  match args.map String.toNat? with
  | [some r] =>
    let h := (List.range 256).foldl (fun h g =>
      (List.range 256).foldl (fun h b => fnv h (Colors.encodeRgb565 r g b)) h) (14695981039346656037 : UInt64)
    expectTokens [toString h.toNat] impl
  | _ => .badCase "r565e_all"

def opCrcUpd (args impl : List String) : Verdict :=
  match args with
  | crcs :: hx :: splits =>
    match crcs.toNat?, hexToBytes hx with
    | some c, some b =>
      let r := Crc.update (BitVec.ofNat 32 c) b
      expectTokens [toString r.toNat] impl [s!"crcupd:splits{splits.length}"]
    | _, _ => .badCase "crcupd"
  | _ => .badCase "crcupd"

/-- all words of length k over the alphabet, lexicographic -/
def wordsFold {σ} (alpha : List UInt8) : Nat → List UInt8 → (σ → List UInt8 → σ) → σ → σ
  | 0, acc, f, st => f st acc.reverse
  | k + 1, acc, f, st => alpha.foldl (fun st a => wordsFold alpha k (a :: acc) f st) st

def opVaruGrid (args impl : List String) : Verdict :=
  match args with
  | [alphaS, ls, prefS] =>
    let alpha? : Option (List UInt8) :=
      if alphaS = "*" then some ((List.range 256).map UInt8.ofNat) else hexToBytes alphaS
    match alpha?, ls.toNat?, hexToBytes prefS with
    | some alpha, some l, some pre =>
      if pre.length > l then .badCase "varu_grid prefix" else
      let step (st : UInt64 × Nat) (s : List UInt8) : UInt64 × Nat :=
        (List.range (l + 1)).foldl (fun (st : UInt64 × Nat) off =>
          let (h, c) := st
          let (cls, v, o) : Nat × Nat × Nat :=
            match parseVaruint32 s l off with
            | .ok v o => (0, v, o)
            | .overflow o => (1, 0, o)
            | .parse o => (2, 0, o)
            | .fault => (3, 0, 0)
          (fnv (fnv (fnv h cls) v) o, c + 1)) st
      let (h, c) := wordsFold alpha (l - pre.length) pre.reverse step ((14695981039346656037 : UInt64), 0)
      expectTokens [toString h.toNat, toString c] impl
    | _, _, _ => .badCase "varu_grid"
  | _ => .badCase "varu_grid"

end Sb.Corr
