/-
Correspondence op for C02 / C09 (light player).  Every query (`s` = seek, `c` = colour, `y` = pyro)
performs exactly one seek on the player, as the C API does.
-/
import Sb.Corr.Util
import Sb.Model.Lights

namespace Sb.Corr
open Sb.Lights

def lightFuel : Nat := 400000

/-- exact (unrounded, untruncated) channel value of the running fade -/
def fadeExact (e : Exec) (clock : Nat) (f s : Nat) : Rat :=
  let p := progress e clock
  (f : Rat) + ((s : Rat) - (f : Rat)) * p

structure LObs where
  r : Int
  g : Int
  b : Int
  pyro : Int
  ended : Int
  next : Nat

def parseLObs (s : String) : Option LObs :=
  match (s.splitOn ",").map parseInt with
  | [some r, some g, some b, some p, some e, some n] => some ⟨r, g, b, p, e, n.toNat⟩
  | _ => none

/-- does the implementation's observation agree with the model state after the seek? -/
def checkObs (kind : Char) (p : Player) (t : Nat) (o : LObs) : Option String :=
  let e := p.exec
  if o.next ≠ e.nextWakeup then some s!"next: model {e.nextWakeup} impl {o.next}"
  else if kind = 's' then
    if o.ended ≠ (if e.ended then 1 else 0) then some s!"ended: model {e.ended} impl {o.ended}" else none
  else if kind = 'y' then
    if o.pyro ≠ (p.pyroChannels : Int) then some s!"pyro: model {p.pyroChannels} impl {o.pyro}" else none
  else
    let (mr, mg, mb) := e.color
    if e.trActive then
      -- inside a fade: each channel within (less than) one unit of exact linear interpolation
      let lim : Rat := 1 + 1 / 1024
      let okc := fun (impl : Int) (f s : Nat) => absR ((impl : Rat) - fadeExact e t f s) < lim
      if okc o.r e.startColor.1 e.endColor.1 && okc o.g e.startColor.2.1 e.endColor.2.1 &&
         okc o.b e.startColor.2.2 e.endColor.2.2 then none
      else some s!"fade colour: model ({mr},{mg},{mb}) impl ({o.r},{o.g},{o.b})"
    else if (o.r, o.g, o.b) ≠ ((mr : Int), (mg : Int), (mb : Int)) then
      some s!"colour: model ({mr},{mg},{mb}) impl ({o.r},{o.g},{o.b})"
    else none

structure LRun where
  player : Player
  err : Option String := none
  tags : List String := []
  diffs : Nat := 0
  gaveUp : Bool := false

def addTag (tags : List String) (t : String) : List String := if tags.contains t then tags else t :: tags

def stepLight (prog : Bytes) (st : LRun) (q : String × String) : LRun :=
  if st.err.isSome || st.gaveUp then st else
  let (qt, ans) := q
  match qt.toList with
  | [] => { st with err := some "empty query" }
  | k :: rest =>
    match (String.ofList rest).toNat?, ans.splitOn "/" with
    | some t, [hs, fs] =>
      match parseLObs hs, parseLObs fs with
      | some ho, some fo =>
        match st.player.seek t lightFuel, (Player.fresh prog).seek t lightFuel with
        | .ok ph, .ok pf =>
          match checkObs k ph t ho with
          | some m => { st with err := some s!"{qt} (history): {m}" }
          | none =>
            match checkObs k pf t fo with
            | some m => { st with err := some s!"{qt} (fresh): {m}" }
            | none =>
              -- C09: answers after a history equal a fresh player's, except at an instant where
              -- zero-duration commands are still pending (fresh next == t)
              let same := (ho.r, ho.g, ho.b, ho.pyro) == (fo.r, fo.g, fo.b, fo.pyro)
              if !same ∧ pf.exec.nextWakeup ≠ t then
                { st with err := some s!"{qt}: answer after history ({hs}) differs from a fresh player's ({fs}) at an instant without pending zero-duration commands" }
              else
                let tags := addTag st.tags (if ph.exec.trActive then "in-fade" else if ph.exec.ended then "ended" else "steady")
                let tags := if ph.exec.loops.length > 0 then addTag tags s!"loopdepth{ph.exec.loops.length}" else tags
                { st with player := ph, tags := tags, diffs := st.diffs + (if same then 0 else 1) }
        -- the model ran out of fuel (an extremely long or endless run of zero-duration commands):
        -- the implementation did return, so there is nothing to object to; stop comparing this case
        | .error _, _ => { st with tags := addTag st.tags "model-out-of-fuel", gaveUp := true }
        | _, .error _ => { st with tags := addTag st.tags "model-out-of-fuel", gaveUp := true }
      | _, _ => { st with err := some s!"unparsable answer {ans}" }
    | _, _ => { st with err := some s!"bad query/answer {qt} {ans}" }

def opLightq (args impl : List String) : Verdict :=
  match args with
  | hx :: qs =>
    match hexToBytes hx with
    | none => .badCase "lightq hex"
    | some prog =>
      match impl with
      | rc1 :: rc2 :: answers =>
        if rc1 ≠ "0" ∨ rc2 ≠ "0" then .fail s!"init rc {rc1} {rc2}"
        else if answers.length ≠ qs.length then .fail "answer count"
        else
          let st := (qs.zip answers).foldl (stepLight prog) { player := Player.fresh prog }
          match st.err with
          | some m => .fail m
          | none => .ok (s!"lightq:n{qs.length}" :: s!"latitude{if st.diffs > 0 then 1 else 0}" :: st.tags)
      | _ => .fail s!"impl answer too short: {" ".intercalate impl}"
  | _ => .badCase "lightq"

/-- does the model run out of fuel (= a cycle that consumes no time) on this seek history? -/
def lightHangs (prog : Bytes) (stamps : List Nat) : Bool :=
  let r := stamps.foldl (fun (st : Option Player) t =>
    match st with
    | none => none
    | some p =>
      match p.seek t lightFuel with
      | .ok p' => some p'
      | .error _ => none) (some (Player.fresh prog))
  r.isNone

end Sb.Corr
