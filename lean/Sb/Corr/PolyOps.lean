/-
Correspondence ops for C18 (polynomial toolkit).

Construction and calculus: the implementation's float coefficients / values are compared with the exact
rational model `Sb.Poly` within a float error bound that is computed from the magnitudes involved.
Root finding (degree ≤ 3): the implementation's answers are judged against the exact real-root oracle
`Sb.Corr.Sturm`, with the acceptance rule documented at `rootTol`.
-/
import Sb.Corr.CertOracle
import Sb.Corr.UtilOps

namespace Sb.Corr
open Sb.Poly

/-- 2^-24 : unit round-off of binary32 -/
def epsF : Rat := 1 / 16777216
/-- FLT_MIN = 2^-126 -/
def fltMin : Rat := pow2 (-126)
/-- smallest subnormal -/
def tinyF : Rat := pow2 (-149)

/-- the root tolerance of C18 (calibrated on the property's domain, see DESIGN.md):
a reported root is accepted when it is within `rootTol` (relative to max(1,|root|)) of a real root, or when
the residual |p(r) - y| is at most `residTol` of the magnitude Σ|c_i||r|^i + |y| ("the value it yields");
a real root may be missing only when it is likewise covered, or not robust (an adjacent extremum of
p - y is within `residTol` of zero, so that a relative perturbation of that size removes it). -/
def rootTol : Rat := 1 / 100
def residTol : Rat := 1 / 500
/-- extrema tolerance, relative to Σ|c_i| -/
def extTol : Rat := 1 / 20000

def splitCommas (s : String) : List String := s.splitOn ","

def finList (l : List String) : Option (List Rat) :=
  l.mapM (fun s => (f32Tok s).bind F32.toRat?)

def absSum (p : List Rat) (x : Rat) : Rat :=
  p.foldr (fun c acc => acc * absR x + absR c) 0

/-- decode an IEEE binary64 bit pattern (finite only) -/
def f64Tok (s : String) : Option Rat :=
  s.toNat?.bind fun w =>
    let sign := (w / 9223372036854775808) % 2
    let ex := (w / 4503599627370496) % 2048
    let man := w % 4503599627370496
    if ex = 2047 then none else
    let mag : Rat :=
      if ex = 0 then (man : Rat) * pow2 (-1074)
      else ((4503599627370496 + man : Nat) : Rat) * pow2 ((ex : Int) - 1075)
    some (if sign = 0 then mag else -mag)

/-- compare an implementation coefficient token list `num,c0..c7` with exact coefficients and per-coefficient
tolerances; coefficients beyond `num` must be zero -/
def checkCoeffs (what : String) (tok : String) (expected : List Rat) (tol : List Rat) : Option String :=
  match splitCommas tok with
  | [] => some s!"{what}: empty answer"
  | ns :: cs =>
    match ns.toNat?, finList cs with
    | some n, some got =>
      if n ≠ expected.length then some s!"{what}: num_coeffs model {expected.length} impl {n}"
      else if got.length ≠ 8 then some s!"{what}: coefficient dump length {got.length}"
      else
        let rec go (i : Nat) (e t g : List Rat) : Option String :=
          match g with
          | [] => none
          | gv :: gs =>
            match e, t with
            | ev :: es, tv :: ts =>
              if absR (gv - ev) ≤ tv then go (i + 1) es ts gs
              else some s!"{what}: coefficient {i} model {ratToString ev} impl {ratToString gv} (tolerance {ratToString tv})"
            | ev :: es, [] =>
              if gv = ev then go (i + 1) es [] gs else some s!"{what}: coefficient {i} model {ratToString ev} impl {ratToString gv}"
            | [], _ => if gv = 0 then go (i + 1) [] [] gs else some s!"{what}: coefficient {i} beyond num_coeffs is {ratToString gv}"
        go 0 expected tol got
    | _, _ => some s!"{what}: non-finite or unparsable coefficients {tok}"

/-- magnitudes of the Bezier coefficient sums (all signs positive), for the error bound -/
def bezierMag (duration : Rat) (xs : List Rat) : List Rat :=
  makeBezier (absR duration) ((xs.map absR).zipIdx.map (fun (x, i) => if i % 2 = 0 then x else -x))
    |>.map absR

def opPolymk (args impl : List String) : Verdict :=
  match args with
  | "m" :: ns :: xs =>
    match ns.toNat?, finList xs, impl with
    | some n, some v, [tok] =>
      let e := v.take (min n 8)
      match checkCoeffs "make" tok e [] with
      | none => .ok [s!"mk:make{min n 8}"]
      | some m => .fail m
    | _, _, _ => .badCase "polymk m"
  | ["z"] =>
    match impl with
    | [tok] => match checkCoeffs "make_zero" tok [0] [] with
      | none => .ok ["mk:zero"]
      | some m => .fail m
    | _ => .fail "answer count"
  | ["c", x] =>
    match finList [x], impl with
    | some [v], [tok] => match checkCoeffs "make_constant" tok [v] [] with
      | none => .ok ["mk:const"]
      | some m => .fail m
    | _, _ => .badCase "polymk c"
  | ["l", d, x0, x1] =>
    match finList [d, x0, x1], impl with
    | some [dv, a, b], [tok] =>
      let e := makeLinear dv a b
      let tol := if absR dv ≥ fltEpsilon then [0, 4 * epsF * (absR a + absR b) / absR dv + tinyF] else [2 * epsF * (absR a + absR b) + tinyF, 0]
      match checkCoeffs "make_linear" tok e tol with
      | none => .ok [if absR dv ≥ fltEpsilon then "mk:linear" else "mk:linear-tiny-duration"]
      | some m => .fail m
    | _, _ => .badCase "polymk l"
  | "b" :: d :: ns :: xs =>
    match finList [d], ns.toNat?, finList xs, impl with
    | some [dv], some n, some v, [tok, agree] =>
      if v.length ≠ n then .badCase "polymk b count" else
      if dv = 0 then .badCase "polymk b: zero duration" else
      let e := makeBezier dv v
      let tol : List Rat :=
        if n ≤ 1 then [] else
        if n = 2 then (if absR dv ≥ fltEpsilon then [0, 4 * epsF * (absR (v.getD 0 0) + absR (v.getD 1 0)) / absR dv + tinyF]
                       else [2 * epsF * (absR (v.getD 0 0) + absR (v.getD 1 0)) + tinyF, 0])
        else (bezierMag dv v).map (fun m => 64 * epsF * m + tinyF)
      match checkCoeffs "make_bezier" tok e tol with
      | none => if agree = "1" then .ok [s!"mk:bezier{min n 8}"] else .fail "quadratic/cubic wrapper differs from make_bezier"
      | some m => .fail m
    | _, _, _, _ => .badCase "polymk b"
  | _ => .badCase "polymk"

/-- `sb_i_poly_count_significant_coeffs` -/
def countSignificant (p : List Rat) : Nat :=
  if p.isEmpty then 0 else
  let rec go : List Rat → Nat
    | [] => 1
    | c :: rest => if rest.isEmpty then 1 else if absR c < fltMin then go rest else rest.length + 1
  go p.reverse

/-- trimming of `sb_poly_get_extrema`: while coeffs > 2 and the last is insignificant -/
def extremaCount (p : List Rat) : Nat :=
  let rec go : List Rat → Nat
    | [] => 0
    | c :: rest => if rest.length + 1 > 2 ∧ absR c < fltMin then go rest else rest.length + 1
  go p.reverse

structure RootCtx where
  p : List Rat      -- the polynomial
  y : Rat           -- right-hand side
  q : List Rat      -- p - y
  roots : List Rat  -- distinct real roots of q (eps-accurate)
  crit : List Rat   -- distinct real roots of q'

def mkRootCtx (p : List Rat) (y : Rat) : RootCtx :=
  let q := Sturm.addP p [-y]
  { p := p, y := y, q := q, roots := Cert.roots q,
    crit := if Sturm.isZero (Sturm.deriv q) then [] else Cert.roots (Sturm.deriv q) }

def RootCtx.scaleAt (c : RootCtx) (x : Rat) : Rat := absSum c.p x + absR c.y
def RootCtx.small (c : RootCtx) (x : Rat) : Bool := absR (Sturm.eval c.q x) ≤ residTol * c.scaleAt x
def rootClose (a b : Rat) : Bool := absR (a - b) ≤ rootTol * max 1 (absR b)

/-- |q| stays small on the whole stretch between a and b (9 samples; q has degree ≤ 3) -/
def RootCtx.flatBetween (c : RootCtx) (a b : Rat) : Bool :=
  (List.range 9).all (fun i => c.small (a + (b - a) * (i : Rat) / 8))

/-- a reported root is acceptable -/
def RootCtx.sound (c : RootCtx) (r : Rat) : Bool :=
  c.roots.any (fun ρ => rootClose r ρ) || c.small r

/-- a real root that may be absent from the answer: an adjacent extremum of q is within the residual
tolerance of zero -/
def RootCtx.removable (c : RootCtx) (ρ : Rat) : Bool :=
  c.crit.any (fun x => c.small x ∧ !(c.crit.any (fun z => (min ρ x < z ∧ z < max ρ x))))

def RootCtx.covered (c : RootCtx) (reported : List Rat) (ρ : Rat) : Bool :=
  reported.any (fun r => rootClose r ρ || c.flatBetween r ρ) || c.removable ρ

def checkSolve (p : List Rat) (y : Rat) (ans : String) : Except String (List String) :=
  let parts := splitCommas ans
  match parts with
  | rcS :: numS :: rest =>
    match rcS.toNat?, numS.toNat? with
    | some rc, some num =>
      let flags := rest.getLastD ""
      let rootsTok := rest.dropLast
      let sig := countSignificant p
      if flags ≠ "==" then .error s!"solve: call styles disagree or the polynomial was modified ({flags})" else
      if sig ≥ 5 then
        if rc = Err.eunimplemented.code then .ok ["solve:unimplemented"] else .error s!"solve: degree > 3 expected 'unimplemented', impl rc {rc}"
      else if rc ≠ 0 then .error s!"solve: rc {rc}"
      else if rootsTok.length ≠ num then .error "solve: root count vs dump"
      else
        match finList rootsTok with
        | none => .error s!"solve: non-finite root reported ({ans})"
        | some rs =>
          if sig = 0 then (if num = 0 then .ok ["solve:empty"] else .error "solve: empty polynomial must have no roots")
          else if sig = 1 then
            let z := absR (roundF32 (p.getD 0 0 - y)) < fltMin
            if z then (if rs = [0] then .ok ["solve:const-eq"] else .error s!"solve: constant equal to rhs: expected the single root 0, impl {ans}")
            else (if num = 0 then .ok ["solve:const-ne"] else .error s!"solve: constant different from rhs must have no roots, impl {ans}")
          else if sig = 2 then
            let exact := -(p.getD 0 0 - y) / p.getD 1 1
            match rs with
            | [r] => if absR (r - exact) ≤ 8 * epsF * absR exact + tinyF then .ok ["solve:linear"]
                     else .error s!"solve: linear root model {ratToString exact} impl {ratToString r}"
            | _ => .error s!"solve: linear equation must have one root, impl {num}"
          else
            let c := mkRootCtx (p.take sig) y
            match rs.find? (fun r => !c.sound r) with
            | some r => .error s!"solve: reported root {ratToString r} is not a solution (real roots {c.roots.map ratToString})"
            | none =>
              match c.roots.find? (fun ρ => !c.covered rs ρ) with
              | some ρ => .error s!"solve: real root {ratToString ρ} is missing (reported {rs.map ratToString})"
              | none => .ok [s!"solve:deg{sig - 1}:roots{c.roots.length}:reported{num}"]
    | _, _ => .error "solve: unparsable"
  | _ => .error "solve: unparsable"

/-- every number is a multiple of 1/16 of magnitude at most 2^16: sums of up to four of them are exact in binary32 -/
def dyadicSafe (xs : List Rat) : Bool := xs.all (fun x => (x * 16).den = 1 ∧ absR x ≤ 65536)

def checkTouches (p : List Rat) (v : Rat) (ans : String) : Except String (List String) :=
  match splitCommas ans with
  | [bS, rS, flag] =>
    match bS.toNat?, (f32Tok rS).bind F32.toRat? with
    | some b, some r =>
      if flag ≠ "=" then .error "touches: result differs when the output pointer is null" else
      let sig := countSignificant p
      let hit : Bool := b ≠ 0
      if sig < 2 then
        let e : Bool := p.getD 0 0 = v
        if hit ≠ e then .error s!"touches: constant polynomial, model {e} impl {hit}"
        else if hit ∧ r ≠ 0 then .error "touches: constant polynomial touches at 0"
        else .ok [s!"touches:const:{hit}"]
      else if sig = 2 then
        let a := p.getD 1 0
        let b0 := p.getD 0 0
        let s := roundF32 (a + b0)
        let e : Bool := (a > 0 ∧ v ≥ b0 ∧ v ≤ s) ∨ (a < 0 ∧ v ≥ s ∧ v ≤ b0)
        if hit ≠ e then .error s!"touches: linear polynomial, model {e} impl {hit}"
        else if !hit then .ok ["touches:linear:false"]
        else
          let exact := (v - b0) / a
          if absR (r - exact) ≤ 8 * epsF * max 1 (absR exact) + tinyF then .ok ["touches:linear:true"]
          else .error s!"touches: linear, model {ratToString exact} impl {ratToString r}"
      else if sig ≥ 5 then
        if hit then .error "touches: degree > 3 is reported as never touching" else .ok ["touches:unimplemented"]
      else
        let c := mkRootCtx (p.take sig) v
        if hit then
          if r < 0 ∨ r > 1 then .error s!"touches: reported point {ratToString r} outside [0,1]"
          else if c.sound r then .ok [s!"touches:deg{sig - 1}:true"]
          else .error s!"touches: reported point {ratToString r} is not a solution (real roots {c.roots.map ratToString})"
        else
          -- an end point that solves the equation exactly, with nothing rounded on the way (coefficients and value are multiples
          -- of 1/16 up to 2^16: p(0) and p(1) are exact in binary32 in every summation order): a solution lies in [0,1]
          if dyadicSafe (v :: p.take sig) ∧ (Sturm.eval c.q 0 = 0 ∨ Sturm.eval c.q 1 = 0) then
            .error s!"touches: reported no solution in [0,1] but an end point solves the equation exactly (p(0) = {ratToString (Sturm.eval p 0)}, p(1) = {ratToString (Sturm.eval p 1)}, value {ratToString v}; no rounding involved)"
          else
          match c.roots.find? (fun ρ => rootTol ≤ ρ ∧ ρ ≤ 1 - rootTol ∧ !c.removable ρ) with
          | some ρ => .error s!"touches: reported no solution in [0,1] but {ratToString ρ} is one"
          | none => .ok [s!"touches:deg{sig - 1}:false"]
    | _, _ => .error s!"touches: unparsable {ans}"
  | _ => .error s!"touches: unparsable {ans}"

def checkExtrema (p : List Rat) (ans : String) : Except String (List String) :=
  match splitCommas ans with
  | [rcS, loS, hiS, flag] =>
    if rcS ≠ "0" ∨ flag ≠ "=" then .error s!"extrema: rc {rcS} {flag}" else
    let cnt := extremaCount p
    if cnt ≥ 5 then .ok ["extrema:degree>3"]   -- outside the property's domain (C15 records it)
    else
      match (f32Tok loS).bind F32.toRat?, (f32Tok hiS).bind F32.toRat? with
      | some lo, some hi =>
        if cnt = 0 then (if lo = 0 ∧ hi = 0 then .ok ["extrema:empty"] else .error "extrema: empty polynomial is [0,0]")
        else if cnt = 1 then
          (if lo = p.getD 0 0 ∧ hi = lo then .ok ["extrema:const"] else .error "extrema: constant")
        else if cnt = 2 then
          let a := p.getD 0 0
          let s := roundF32 (a + p.getD 1 0)
          let (elo, ehi) := if p.getD 1 0 > 0 then (a, s) else (s, a)
          if lo = elo ∧ hi = ehi then .ok ["extrema:linear"]
          else .error s!"extrema: linear model [{ratToString elo},{ratToString ehi}] impl [{ratToString lo},{ratToString hi}]"
        else
          let pp := p.take cnt
          let tol := extTol * absSum pp 1 + tinyF
          if lo > hi then .error "extrema: min > max"
          else if Cert.reaches pp 0 1 (hi + tol) then
            .error s!"extrema: polynomial exceeds the reported maximum {ratToString hi} on [0,1]"
          else if Cert.dipsTo pp 0 1 (lo - tol) then
            .error s!"extrema: polynomial goes below the reported minimum {ratToString lo} on [0,1]"
          else if !Cert.reaches pp 0 1 (hi - tol) then .error s!"extrema: reported maximum {ratToString hi} is not attained on [0,1]"
          else if !Cert.dipsTo pp 0 1 (lo + tol) then .error s!"extrema: reported minimum {ratToString lo} is not attained on [0,1]"
          else .ok [s!"extrema:deg{cnt - 1}"]
      | _, _ => .error s!"extrema: non-finite bounds {ans}"
  | _ => .error s!"extrema: unparsable {ans}"

/-- one query of the `poly` op -/
def checkPolyQuery (p : List Rat) (q : String) (ans : String) : Except String (List String) :=
  let n := p.length
  match q.toList with
  | 'e' :: rest =>
    match (f32Tok (String.ofList rest)).bind F32.toRat?, splitCommas ans with
    | some t, [fs, ds] =>
      let exact := eval p t
      let s := absSum p t
      match (f32Tok fs).bind F32.toRat?, f64Tok ds with
      | some f, some d =>
        if absR (f - exact) > (4 * (n : Rat) + 4) * epsF * s + tinyF then .error s!"eval: model {ratToString exact} impl {ratToString f}"
        else if absR (d - exact) > (4 * (n : Rat) + 4) * pow2 (-53) * s + pow2 (-1074) then .error s!"eval_double: model {ratToString exact} impl {ratToString d}"
        else .ok [s!"eval:n{n}"]
      | _, _ => .error s!"eval: non-finite {ans}"
    | _, _ => .error "eval: unparsable"
  | ['g'] => if ans = toString (getDegree p) then .ok ["degree"] else .error s!"degree: model {getDegree p} impl {ans}"
  | ['d'] =>
    let e := deriv p
    match checkCoeffs "deriv" ans e (e.map (fun c => 2 * epsF * absR c + tinyF)) with
    | none => .ok [s!"deriv:n{n}"]
    | some m => .error m
  | 'k' :: rest =>
    match (f32Tok (String.ofList rest)).bind F32.toRat? with
    | some k =>
      let e := scale p k
      match checkCoeffs "scale" ans e (e.map (fun c => 2 * epsF * absR c + tinyF)) with
      | none => .ok [s!"scale:n{n}"]
      | some m => .error m
    | none => .error "scale: bad factor"
  | 's' :: rest =>
    match (f32Tok (String.ofList rest)).bind F32.toRat? with
    | some k =>
      if k = 0 then .error "stretch: zero factor in the case" else
      let e := stretch p k
      match checkCoeffs "stretch" ans e ((e.zipIdx).map (fun (c, i) => if i = 0 then 0 else (4 * (i : Rat) + 4) * epsF * absR c + tinyF)) with
      | none => .ok [s!"stretch:n{n}"]
      | some m => .error m
    | none => .error "stretch: bad factor"
  | 'a' :: rest =>
    match (f32Tok (String.ofList rest)).bind F32.toRat? with
    | some k =>
      let e := addConstant p k
      let tol := if n = 0 then [] else [2 * epsF * (absR (p.getD 0 0) + absR k) + tinyF] ++ (p.drop 1).map (fun _ => (0 : Rat))
      match checkCoeffs "add_constant" ans e tol with
      | none => .ok [s!"addconst:n{n}"]
      | some m => .error m
    | none => .error "add_constant: bad constant"
  | 'S' :: rest =>
    match (f32Tok (String.ofList rest)).bind F32.toRat? with
    | some y => checkSolve p y ans
    | none => .error "solve: bad rhs"
  | 'T' :: rest =>
    match (f32Tok (String.ofList rest)).bind F32.toRat? with
    | some v => checkTouches p v ans
    | none => .error "touches: bad value"
  | ['X'] => checkExtrema p ans
  | '4' :: _ => if ans = "=" then .ok ["4d"] else .error "4-D wrapper differs from the component-wise 1-D functions"
  | _ => .error s!"unknown query {q}"

def opPoly (args impl : List String) : Verdict :=
  match args with
  | ns :: rest =>
    match ns.toNat? with
    | some n =>
      match finList (rest.take n) with
      | some p0 =>
        let p := p0.take 8
        let qs := rest.drop n
        if qs.length ≠ impl.length then .fail s!"answer count: {qs.length} queries, {impl.length} answers" else
        let rec go (l : List (String × String)) (tags : List String) : Verdict :=
          match l with
          | [] => .ok tags
          | (q, a) :: more =>
            match checkPolyQuery p q a with
            | .ok t => go more (tags ++ t)
            | .error m => .fail s!"[{q}] {m}"
        go (qs.zip impl) []
      | none => .badCase "poly: coefficients"
    | none => .badCase "poly: count"
  | _ => .badCase "poly"

end Sb.Corr
