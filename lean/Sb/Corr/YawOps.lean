/-
Correspondence op for C10 / C08 (yaw player).
-/
import Sb.Corr.Traj

namespace Sb.Corr
open Sb.Traj

def deltaUY (s : Yaw.Setpoint) (t : QTime) : Rat :=
  match t, s.durSec with
  | .fin q, some d => if absR d > 1 / 1000000 then (s.startSec + absR q) * eps23 / d + eps21 else 0
  | _, _ => 0

def tolYaw (s : Yaw.Setpoint) (t : QTime) : Rat :=
  let st := absR ((s.startYawDdeg : Rat) / 10)
  let ch := absR ((s.changeDdeg : Rat) / 10)
  (st + ch) * eps21 + ch * deltaUY s t + 1 / 1000000

def atBoundaryY (s : Yaw.Setpoint) (t : QTime) : Bool :=
  match t with
  | .fin q => q == s.startSec || s.endSec == some q
  | _ => false

structure YawRun where
  player : Yaw.Player
  err : Option String := none
  tags : List String := []

def stepYaw (st : YawRun) (q : String × String) : YawRun :=
  if st.err.isSome then st else
  let (qt, ans) := q
  let atoks := splitComma ans
  match qt.toList with
  | [] => { st with err := some "empty query" }
  | k :: rest =>
    let arg := String.ofList rest
    if k = 'y' ∨ k = 'r' then
      match arg.toNat? with
      | none => { st with err := some "bad time" }
      | some b =>
        let t := QTime.ofF32 (F32.ofBits b)
        match atoks with
        | [rc, v, off, len, fresh] =>
          if k = 'y' then
            match Yaw.yawAt secF32 st.player t with
            | .error e => { st with err := some s!"model error {e.code} on {qt}; impl {ans}" }
            | .ok (p', m) =>
              let s := p'.cur
              if rc ≠ "0" then { st with err := some s!"{qt}: impl rc {rc}" }
              else if off ≠ toString s.startOff ∨ len ≠ toString s.length then
                { st with err := some s!"{qt}: setpoint differs: model off={s.startOff} len={s.length} impl off={off} len={len}" }
              else if !(match f32Tok v with | some f => closeTo f m (tolYaw s t) | none => false) then
                { st with err := some s!"{qt}: yaw model {ratToString m} tol {ratToString (tolYaw s t)} impl bits {v}" }
              else if fresh ≠ "=" ∧ !atBoundaryY s t then { st with err := some s!"{qt}: differs from a fresh player's answer" }
              else { st with player := p', tags := if st.tags.contains "yaw" then st.tags else "yaw" :: st.tags }
          else
            match Yaw.yawRateAt secF32 st.player t with
            | .error e => { st with err := some s!"model error {e.code} on {qt}; impl {ans}" }
            | .ok (p', m) =>
              let s := p'.cur
              if rc ≠ "0" then { st with err := some s!"{qt}: impl rc {rc}" }
              else if off ≠ toString s.startOff ∨ len ≠ toString s.length then
                { st with err := some s!"{qt}: setpoint differs: model off={s.startOff} impl off={off}" }
              else
                let okv : Bool :=
                  match m, f32Tok v with
                  | none, some .pinf => true
                  | some r, some f => closeTo f r (absR r * eps21 + 1 / 1000000)
                  | _, _ => false
                if !okv then { st with err := some s!"{qt}: rate model {m.map ratToString} impl bits {v}" }
                else if fresh ≠ "=" ∧ !atBoundaryY s t then { st with err := some s!"{qt}: differs from a fresh player's answer" }
                else { st with player := p', tags := if st.tags.contains "rate" then st.tags else "rate" :: st.tags }
        | _ => { st with err := some "bad answer shape" }
    else if k = 'd' then
      match Yaw.totalDurationMsec secF32 st.player with
      | .error e => { st with err := some s!"model error {e.code} on duration" }
      | .ok (p', ms) =>
        if atoks = ["0", toString ms, toString p'.cur.startOff] then { st with player := p' }
        else { st with err := some s!"duration: model 0,{ms},{p'.cur.startOff} impl {ans}" }
    else { st with err := some s!"unknown query {qt}" }

def opYawq (args impl : List String) : Verdict :=
  match args with
  | hx :: qs =>
    match hexToBytes hx with
    | none => .badCase "yawq hex"
    | some b =>
      match Yaw.init b with
      | .error e => expectTokens [toString e.code] impl [s!"yaw:init{e.code}"]
      | .ok c =>
        match impl with
        | rc :: hdr :: answers =>
          if rc ≠ "0" then .fail s!"init: model ok, impl rc={rc}" else
          let expHdr := s!"H{if c.autoYaw then 1 else 0},{c.yawOffsetDdeg},{c.numDeltas},{c.headerLength},{if c.numDeltas = 0 then 1 else 0}"
          if hdr ≠ expHdr then .fail s!"header: model {expHdr} impl {hdr}"
          else if answers.length ≠ qs.length then .fail "answer count"
          else
            match Yaw.rewind secF32 c with
            | .error e => .fail s!"model rewind error {e.code}"
            | .ok p0 =>
              let st := (qs.zip answers).foldl stepYaw { player := p0 }
              match st.err with
              | some m => .fail m
              | none => .ok (s!"yawq:n{c.numDeltas}" :: st.tags)
        | _ => .fail s!"impl answer too short: {" ".intercalate impl}"
  | _ => .badCase "yawq"

end Sb.Corr
