/-
Correspondence op for C17: allocation scenarios with the k-th C allocation failing.
-/
import Sb.Corr.ConvOps
import Sb.Model.Ledger

namespace Sb.Corr
open Sb.Ledger Sb.Load

def kindOfChar (c : Char) : Option Kind :=
  if c = 'T' then some .traj else if c = 'L' then some .light else if c = 'Y' then some .yaw
  else if c = 'R' then some .rth else none

def parseFloatList (str : String) : List Rat :=
  (str.splitOn ",").map (fun t =>
    -- decimal numbers as written by the generator: integer or with a fractional part
    let neg := t.startsWith "-"
    let t := if neg then (t.drop 1).toString else t
    let v : Rat := match t.splitOn "." with
      | [a] => (a.toNat?.getD 0 : Nat)
      | [a, b] => ((a.toNat?.getD 0 : Nat) : Rat) + ((b.toNat?.getD 0 : Nat) : Rat) / ((10 ^ b.length : Nat) : Rat)
      | _ => 0
    if neg then -v else v)

/-- parse one scenario op -/
def parseOp (op : String) : Option Op :=
  match op.toList with
  | 'B' :: k :: rest => some (.buf k ((String.ofList rest).toNat?.getD 0))
  | 'U' :: k :: rest => some (.bld k ((String.ofList rest).toNat?.getD 0))
  | 'P' :: k :: _ => if k = 'i' then some .playerInit else some .playerDestroy
  | 'S' :: rest => some (.solve ((String.ofList rest).toNat?.getD 0))
  | 'C' :: rest =>
    let f := parseFloatList (String.ofList rest)
    let g := fun (i : Nat) => Utils.rf (f.getD i 0)
    some (.convert { time := .fin (g 1), action := (f.getD 0 0).floor.toNat, duration := .fin (g 2), target := (5000, -3000),
                     targetAlt := 20000, preDelay := .fin (g 3), postDelay := .fin (g 4), preNeck := g 5, preNeckDur := .fin (g 6) }
                   ⟨1000, 2000, 10000, 0⟩)
  | c :: k :: rest =>
    match kindOfChar c with
    | none => none
    | some kind =>
      let arg := String.ofList rest
      let data := (hexToBytes (if arg.isEmpty then "-" else arg)).getD []
      if k = 'f' then some (.loadFd kind data)
      else if k = 'm' then some (.loadMem kind data)
      else if k = 'o' then some (.loadOwned kind data)
      else if k = 'e' then some (.initEmpty kind)
      else if k = 'd' then some (.destroy kind)
      else some (.other kind)
  | _ => none

def ledgerOp (s : L) (op : String) : Int × L :=
  match parseOp op with
  | some o => Ledger.run s o
  | none => (-3, s)

def opAlloc (args impl : List String) : Verdict :=
  match args with
  | ks :: ops =>
    match ks.toNat? with
    | none => .badCase "alloc k"
    | some k =>
      if impl.length ≠ ops.length + 1 then .fail s!"answer count {impl.length} for {ops.length} ops" else
      let step (st : L × Option String) (q : String × String) : L × Option String :=
        let (s, err) := st
        if err.isSome then st else
        let (op, ans) := q
        let (rc, s') := ledgerOp s op
        -- queries on trajectories / plans report their own result code: not part of the ledger
        let rcTok := (ans.splitOn ":").headD ""
        let isQuery := op.length ≥ 2 ∧ (op.toList.getD 1 ' ') = 'q'
        let exp := s!"{rc}:{s'.live}:{s'.allocs}"
        let got := if isQuery then s!"{rc}:" ++ ":".intercalate ((ans.splitOn ":").drop 1) else ans
        let _ := rcTok
        if got = exp then (s', none) else (s', some s!"{op}: model {exp} impl {ans}")
      let (sf, err) := (ops.zip impl).foldl step ({ failAt := k }, none)
      match err with
      | some m => .fail m
      | none =>
        let fired := if k ≠ 0 ∧ sf.allocs ≥ k then 1 else 0
        let expEnd := s!"E{sf.live}:0:0:{fired}"
        let gotEnd := impl.getLastD ""
        if gotEnd ≠ expEnd then .fail s!"end of scenario: model {expEnd} impl {gotEnd} (live blocks : frees of foreign memory : reallocs of foreign memory : injected failures)"
        else .ok [s!"alloc:k{min k 9}", s!"alloc:fired{fired}", s!"alloc:endlive{sf.live}"]
  | _ => .badCase "alloc"

end Sb.Corr
