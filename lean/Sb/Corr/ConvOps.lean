/-
Correspondence op for C12: RTH entry → trajectory.  The bytes are predicted exactly; the claims of
the property (phase durations, path within one quantum of the ideal path) are then checked on the
predicted bytes with the trajectory model.
-/
import Sb.Corr.BuilderOps
import Sb.Model.RthConvert

namespace Sb.Corr
open Sb.RthConvert Sb.Poly Sb.Traj

def ratOr0 (f : F32) : Rat := match f with | .fin q => q | _ => 0

/-- whole milliseconds of a non-negative float number of seconds (what the property calls the phase length) -/
def phaseMs (f : F32) : Nat := match Utils.msecFromSeconds f with | .ok v => v | .error _ => 0

/-- ideal path: position at time `tau` ms given the phases; returns per-axis ideal value -/
def idealAt (start : Vec4) (e : EntryF) (d0 dn da : Nat) (tau : Rat) : Vec4 :=
  let neckTarget : Vec4 := { start with z := Utils.rf (start.z + e.preNeck) }
  let hasNeck : Bool := RthConvert.hasNeck e
  let p1 : Vec4 := if hasNeck then neckTarget else start
  let fin : Vec4 :=
    if e.action = 2 then { p1 with x := e.target.1, y := e.target.2 }
    else if e.action = 3 then { p1 with x := e.target.1, y := e.target.2, z := e.targetAlt }
    else p1
  let lerpV (a b : Vec4) (u : Rat) : Vec4 :=
    ⟨a.x + (b.x - a.x) * u, a.y + (b.y - a.y) * u, a.z + (b.z - a.z) * u, a.yaw⟩
  let t0 : Rat := d0
  let t1 : Rat := t0 + (if hasNeck then (dn : Rat) else 0)
  let t2 : Rat := t1 + (if e.action = 1 then 0 else (da : Rat))
  if tau ≤ t0 then start
  else if tau ≤ t1 then (if dn = 0 then p1 else lerpV start p1 ((tau - t0) / dn))
  else if tau ≤ t2 then (if da = 0 then fin else lerpV p1 fin ((tau - t1) / da))
  else fin

def opRthConv (args impl : List String) : Verdict :=
  match args with
  | [act, tm, dur, tx, ty, alt, pre, post, neck, nd, sx, sy, sz, sw] =>
    match act.toNat?, [tm, dur, pre, post, nd].map f32Tok, [tx, ty, alt, neck, sx, sy, sz, sw].map ratOfBits with
    | some a, [some tmF, some durF, some preF, some postF, some ndF],
      [some txq, some tyq, some altq, some neckq, some sxq, some syq, some szq, some swq] =>
      let e : EntryF := { time := tmF, action := a, duration := durF, target := (txq, tyq), targetAlt := altq,
                          preDelay := preF, postDelay := postF, preNeck := neckq, preNeckDur := ndF }
      let start : Vec4 := ⟨sxq, syq, szq, swq⟩
      match convert e start with
      | .error err => expectTokens [toString err.code] impl [s!"conv:rc{err.code}"]
      | .ok bytes =>
        match impl with
        | rc :: hx :: durTok :: ptoks =>
          if rc ≠ "0" then .fail s!"model ok, impl rc {rc}"
          else if hx ≠ bytesToHex bytes then .fail s!"bytes: model {bytesToHex bytes} impl {hx}"
          else
            -- contract checks on the (identical) bytes
            let startTime : F32 := if ltZeroF e.time then .fin 0 else e.time
            let d0 := phaseMs (addF startTime (if gt0 e.preDelay then e.preDelay else .fin 0))
            let hasNeck : Bool := RthConvert.hasNeck e
            let dn := if hasNeck then phaseMs e.preNeckDur else 0
            let da := if e.action = 1 then 0 else phaseMs e.duration
            let dp := if gt0 e.postDelay then phaseMs e.postDelay else 0
            let total := d0 + dn + da + dp
            if durTok ≠ toString total then .fail s!"total duration: phases sum to {total} ms, trajectory lasts {durTok} ms"
            else
              match Traj.init bytes with
              | .error _ => .fail "model cannot load its own bytes"
              | .ok tr =>
                let q : Rat := tr.scale          -- one coordinate quantum
                -- probe along every leg (interior fractions), away from zero-duration legs
                let probes : List Rat :=
                  [0, (d0 : Rat) / 2, d0] ++
                  (if dn > 0 then [(d0 : Rat) + (dn : Rat) / 3, (d0 : Rat) + (dn : Rat) * 7 / 8] else []) ++
                  (if da > 0 then [(d0 + dn : Nat) + (da : Rat) / 4, (d0 + dn : Nat) + (da : Rat) / 2, (d0 + dn : Nat) + (da : Rat) * 15 / 16] else []) ++
                  [((d0 + dn + da : Nat) : Rat) + (dp : Rat) / 2, total, (total : Rat) + 1000]
                -- instants of zero-duration legs are not probed (the property excludes them)
                let zeroInstants : List Rat :=
                  (if hasNeck ∧ dn = 0 then [(d0 : Rat)] else []) ++ (if e.action ≠ 1 ∧ da = 0 then [((d0 + dn : Nat) : Rat)] else [])
                let probes := probes.filter (fun tau => !zeroInstants.contains tau)
                -- a leg longer than 60 s is split at whole milliseconds, so a knot may be reached up to
                -- half a millisecond per split level away from its ideal instant: allow that much travel
                let legSlack (a b : Vec4) (dur : Nat) : Rat :=
                  if dur = 0 then 0 else
                  let len := max (absR (b.x - a.x)) (max (absR (b.y - a.y)) (absR (b.z - a.z)))
                  len / (dur : Rat) * ((2 + Nat.log2 (dur / 60000 + 1) : Nat) : Rat)
                let neckTarget : Vec4 := { start with z := Utils.rf (start.z + e.preNeck) }
                let p1 : Vec4 := if hasNeck then neckTarget else start
                let fin : Vec4 :=
                  if e.action = 2 then { p1 with x := e.target.1, y := e.target.2 }
                  else if e.action = 3 then { p1 with x := e.target.1, y := e.target.2, z := e.targetAlt }
                  else p1
                let slackAt (tau : Rat) : Rat :=
                  if tau ≤ (d0 : Rat) then 0
                  else if tau ≤ ((d0 + dn : Nat) : Rat) then legSlack start p1 dn
                  else if tau ≤ ((d0 + dn + da : Nat) : Rat) then legSlack p1 fin da
                  else 0
                let bad := probes.filterMap (fun tau =>
                  match (do let p0 ← rewind secExact tr; positionAt secExact p0 (.fin (tau / 1000))) with
                  | .ok (_, pos) =>
                    let idl := idealAt start e d0 dn da tau
                    -- one quantum, the timing slack of split legs, and the float slack of the midpoints
                    let lim := q + slackAt tau + (absR idl.x + absR idl.y + absR idl.z + 1) / 1048576
                    if absR (pos.x - idl.x) ≤ lim ∧ absR (pos.y - idl.y) ≤ lim ∧ absR (pos.z - idl.z) ≤ lim then none
                    else some s!"at {ratToString tau} ms: trajectory {fmtVec pos} ideal {fmtVec idl} quantum {q} slack {ratToString (slackAt tau)}"
                  | .error _ => some "model query failed")
                -- the library's own player on the generated trajectory (harness-chosen interior instants of its segments):
                -- within one quantum of the ideal path, plus what the binary32 time stamp can move a point along a leg
                let lenOf (a b : Vec4) : Rat := max (absR (b.x - a.x)) (max (absR (b.y - a.y)) (absR (b.z - a.z)))
                let speed : Rat := max (if dn > 0 then lenOf start p1 / (dn : Rat) else 0) (if da > 0 then lenOf p1 fin / (da : Rat) else 0)
                let maxLen : Rat := max (lenOf start p1) (lenOf p1 fin)
                -- a leg of at most 60 s is one segment between knots at whole milliseconds: no timing slack there
                let slackP (tau : Rat) : Rat :=
                  if tau ≤ (d0 : Rat) then 0
                  else if tau ≤ ((d0 + dn : Nat) : Rat) then (if dn ≤ 60000 then 0 else legSlack start p1 dn)
                  else if tau ≤ ((d0 + dn + da : Nat) : Rat) then (if da ≤ 60000 then 0 else legSlack p1 fin da)
                  else 0
                let rec playerBad (ts : List String) (fuel : Nat) : Option String :=
                  match fuel, ts with
                  | 0, _ => none
                  | _, [] => none
                  | fuel + 1, "P" :: tb :: qrc :: xb :: yb :: zb :: rest =>
                    match ratOfBits tb, ratOfBits xb, ratOfBits yb, ratOfBits zb with
                    | some t, some x, some y, some z =>
                      if qrc ≠ "0" then some s!"player query at {ratToString t} s failed with {qrc}"
                      else
                        let tau : Rat := t * 1000
                        let idl := idealAt start e d0 dn da tau
                        let lim := q + slackP tau + (absR idl.x + absR idl.y + absR idl.z + 1) / 1048576
                                     + speed * (absR tau / 2097152 + 1 / 1000) + maxLen / 262144
                        if absR (x - idl.x) ≤ lim ∧ absR (y - idl.y) ≤ lim ∧ absR (z - idl.z) ≤ lim then playerBad rest fuel
                        else some s!"library player at {ratToString tau} ms: ({ratToString x}, {ratToString y}, {ratToString z}) ideal {fmtVec idl} allowed {ratToString lim}"
                    | _, _, _, _ => some "library player returned a non-finite position"
                  | _, _ => some s!"answer shape (player probes) {" ".intercalate ts}"
                let bad := match bad with
                  | m :: _ => [m]
                  | [] => match playerBad ptoks (ptoks.length + 1) with | some m => [m] | none => []
                match bad with
                | m :: _ => .fail m
                | [] =>
                  -- the scale is the smallest one that can represent all coordinates involved (C20)
                  .ok [s!"conv:action{a}", s!"conv:neck{if hasNeck then 1 else 0}", s!"conv:scale{min tr.scale 9}",
                       s!"conv:split{if total > 60000 then 1 else 0}"]
        | _ => .fail s!"answer shape {" ".intercalate impl}"
    | _, _, _ => .badCase "rthconv args"
  | _ => .badCase "rthconv"

end Sb.Corr
