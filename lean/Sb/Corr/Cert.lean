/-
Certificates for the answers of the real-root oracle (`Sb.Corr.Sturm`).

The Sturm oracle is a *search*: Sturm's theorem is not proven in this development.  This file makes its
answers checkable.  Every answer the judges of C13 / C14 / C15 / C18 consume is accompanied by a
certificate, and the certificate is verified by the small checkers below (exact rational arithmetic,
polynomial identities compared coefficient by coefficient):

* `Piece.ok q pc` : `q = δ + Σ c·(X − a)^i·(b − X)^j` as polynomials, with `δ > 0` and every `c ≥ 0`
  (a Bernstein-type positivity certificate on `[a, b]`; with `j = 0` throughout it is a certificate on
  `[a, ∞)`, with `i = 0` throughout on `(−∞, b]`);
* `posCheck q A B ps` : pieces that are individually valid and whose intervals chain from `A` to `B`;
* `RootCert.ok p c` : `p = s·g` as polynomials and `s` takes values of opposite sign (or zero) at the two
  rational end points of `c`;
* `segsOK p A segs B` : a partition of `[A, B]` into stretches on which `σ·p > 0` is certified and
  intervals that are certified to contain a real root of `p`.

`Sb/Proofs/CertSound.lean` proves over ℝ what a successful check means (`pos_sound`, `root_sound`,
`segs_cover`, ...).  The searches in the second half of this file (Bernstein coefficients, subdivision,
Taylor shifts, the use of the Sturm oracle to propose root intervals) are *not* trusted: whatever they
propose is accepted only if the checker accepts it.  An answer whose certificate cannot be built or does
not check is reported on the diagnostic channel (`ORACLE-UNCERTIFIED`), see `Sb/Corr/CertOracle.lean`.

Core only (no Mathlib): this file is linked into the driver.
-/
import Sb.Corr.Sturm

namespace Sb.Corr.Cert
open Sb Sb.Corr.Sturm

/-! ## Checked part -/

def mulP : P → P → P
  | [], _ => []
  | a :: p, q => addP (scaleP a q) (0 :: mulP p q)

def powP (p : P) : Nat → P
  | 0 => [1]
  | n + 1 => mulP p (powP p n)

def allZero : P → Bool
  | [] => true
  | c :: p => c == 0 && allZero p

/-- equality of polynomials up to trailing zero coefficients -/
def eqP : P → P → Bool
  | [], q => allZero q
  | a :: p, [] => a == 0 && allZero p
  | a :: p, b :: q => a == b && eqP p q

/-- `c · (X − a)^i · (b − X)^j` -/
def term (a b : Rat) (t : Rat × Nat × Nat) : P :=
  scaleP t.1 (mulP (powP [-a, 1] t.2.1) (powP [b, -1] t.2.2))

def sumTerms (a b : Rat) (ts : List (Rat × Nat × Nat)) : P :=
  ts.foldr (fun t acc => addP (term a b t) acc) []

/-- a positivity certificate on `[lo, hi]` (`none` = unbounded on that side) -/
structure Piece where
  lo : Option Rat
  hi : Option Rat
  delta : Rat
  ts : List (Rat × Nat × Nat)

def Piece.a (pc : Piece) : Rat := pc.lo.getD 0
def Piece.b (pc : Piece) : Rat := pc.hi.getD 0

def termOK (pc : Piece) (t : Rat × Nat × Nat) : Bool :=
  decide (0 ≤ t.1) && (pc.lo.isSome || t.2.1 == 0) && (pc.hi.isSome || t.2.2 == 0)

def Piece.ok (q : P) (pc : Piece) : Bool :=
  decide (0 < pc.delta) && pc.ts.all (termOK pc) &&
    eqP (addP [pc.delta] (sumTerms pc.a pc.b pc.ts)) q

/-- lower bound `l` is at or below the lower bound `A` -/
def leLo : Option Rat → Option Rat → Bool
  | none, _ => true
  | some _, none => false
  | some l, some a => decide (l ≤ a)

/-- upper bound `h` is at or above the upper bound `B` -/
def geHi : Option Rat → Option Rat → Bool
  | none, _ => true
  | some _, none => false
  | some h, some b => decide (b ≤ h)

def chainOK : Option Rat → List Piece → Option Rat → Bool
  | _, [], _ => false
  | A, [pc], B => leLo pc.lo A && geHi pc.hi B
  | A, pc :: pc' :: rest, B =>
    leLo pc.lo A && (match pc.hi with
      | none => true
      | some h => chainOK (some h) (pc' :: rest) B)

def posCheck (q : P) (A : Option Rat) (ps : List Piece) (B : Option Rat) : Bool :=
  chainOK A ps B && ps.all (Piece.ok q)

/-- a certificate that `p` has a real root in `[lo, hi]` -/
structure RootCert where
  lo : Rat
  hi : Rat
  s : P
  g : P

def RootCert.ok (p : P) (c : RootCert) : Bool :=
  decide (c.lo ≤ c.hi) && eqP (mulP c.s c.g) p && decide (eval c.s c.lo * eval c.s c.hi ≤ 0)

inductive Seg where
  /-- `σ·p > 0` from the frontier up to `hi` -/
  | gap (sigma : Rat) (ps : List Piece) (hi : Option Rat)
  /-- the interval from the frontier (`= lo`) to `hi` contains a real root, located by `c` -/
  | root (lo hi : Rat) (c : RootCert)

/-- the frontier does not move backwards -/
def frontLe : Option Rat → Option Rat → Bool
  | some a, some h => decide (a ≤ h)
  | _, _ => true

def segsOK (p : P) : Option Rat → List Seg → Option Rat → Bool
  | A, [], B =>
    match A, B with
    | some a, some b => decide (b ≤ a)
    | _, _ => false
  | A, .gap sigma ps hi :: rest, B =>
    (sigma == 1 || sigma == -1) && posCheck (scaleP sigma p) A ps hi && frontLe A hi &&
      (match hi with
       | none => rest.isEmpty
       | some h => segsOK p (some h) rest B)
  | A, .root lo hi c :: rest, B =>
    (A == some lo) && decide (lo ≤ c.lo) && decide (c.hi ≤ hi) && c.ok p &&
      (match B with | none => true | some b => decide (hi ≤ b)) &&
      segsOK p (some hi) rest B

def Seg.isRoot : Seg → Bool
  | .root .. => true
  | _ => false

/-- the point reported for a root interval: the root itself when the certificate pins it exactly -/
def rootPoint (lo hi : Rat) (c : RootCert) : Rat := if c.lo = c.hi then c.lo else (lo + hi) / 2

def rootPoints : List Seg → List Rat
  | [] => []
  | .gap .. :: rest => rootPoints rest
  | .root lo hi c :: rest => rootPoint lo hi c :: rootPoints rest

/-- the root intervals of a partition -/
def rootIntervals : List Seg → List (Rat × Rat)
  | [] => []
  | .gap .. :: rest => rootIntervals rest
  | .root lo hi _ :: rest => (lo, hi) :: rootIntervals rest

/-! ## Unchecked part: searches that propose certificates -/

def binom : Nat → Nat → Nat
  | _, 0 => 1
  | 0, _ + 1 => 0
  | n + 1, k + 1 => binom n k + binom n (k + 1)

/-- `p(a + h·u)` as a polynomial in `u` -/
def compLin (p : P) (a h : Rat) : P :=
  p.foldr (fun c acc => addP (mulP [a, h] acc) [c]) []

/-- Bernstein coefficients (degree `n`) on [0,1] of a polynomial given in the power basis -/
def bern01 (q : P) (n : Nat) : List Rat :=
  (List.range (n + 1)).map fun i =>
    (List.range (i + 1)).foldl (fun s k => s + (binom i k : Rat) / (binom n k : Rat) * q.getD k 0) 0

def ratPow (x : Rat) : Nat → Rat
  | 0 => 1
  | n + 1 => x * ratPow x n

def leafPiece (q : P) (a b : Rat) : Option Piece :=
  if b ≤ a then none else
  let n := q.length - 1
  let β := bern01 (compLin q a (b - a)) n
  let m := β.foldl min (β.headD 0)
  if m > 0 then
    let δ := m / 2
    let w := ratPow (b - a) n
    some { lo := some a, hi := some b, delta := δ,
           ts := β.zipIdx.map fun (βi, i) => ((βi - δ) * (binom n i : Rat) / w, i, n - i) }
  else none

/-- positivity pieces for `q` on `[a, b]` by subdivision -/
def posIcc (q : P) : Nat → Rat → Rat → Option (List Piece)
  | fuel, a, b =>
    if eval q a ≤ 0 ∨ eval q b ≤ 0 then none else
    match leafPiece q a b with
    | some pc => some [pc]
    | none =>
      match fuel with
      | 0 => none
      | f + 1 =>
        let m := (a + b) / 2
        match posIcc q f a m with
        | none => none
        | some l =>
          match posIcc q f m b with
          | none => none
          | some r => some (l ++ r)

/-- positivity piece on `[a, ∞)`: all Taylor coefficients at `a` are ≥ 0 and the value is > 0 -/
def posIci (q : P) (a : Rat) : Option Piece :=
  match compLin q a 1 with
  | [] => none
  | c0 :: rest =>
    if c0 > 0 ∧ rest.all (fun c => decide (0 ≤ c)) then
      some { lo := some a, hi := none, delta := c0 / 2,
             ts := (c0 / 2, 0, 0) :: rest.zipIdx.map (fun (c, i) => (c, i + 1, 0)) }
    else none

/-- positivity piece on `(−∞, b]` -/
def posIic (q : P) (b : Rat) : Option Piece :=
  match compLin q b (-1) with
  | [] => none
  | c0 :: rest =>
    if c0 > 0 ∧ rest.all (fun c => decide (0 ≤ c)) then
      some { lo := none, hi := some b, delta := c0 / 2,
             ts := (c0 / 2, 0, 0) :: rest.zipIdx.map (fun (c, i) => (c, 0, i + 1)) }
    else none

def depth : Nat := 80

/-- pieces for `q > 0` on `[a, ∞)`: bounded part up to a far point, then a Taylor piece -/
def posFrom (q : P) (a : Rat) : Nat → Rat → Option (List Piece)
  | fuel, far =>
    let far := max far (a + 1)
    match posIci q far with
    | some pc =>
      (posIcc q depth a far).map (· ++ [pc])
    | none =>
      match fuel with
      | 0 => none
      | f + 1 => posFrom q a f (2 * far + 1 - a)

def posUpTo (q : P) (b : Rat) : Nat → Rat → Option (List Piece)
  | fuel, far =>
    let far := min far (b - 1)
    match posIic q far with
    | some pc =>
      (posIcc q depth far b).map (pc :: ·)
    | none =>
      match fuel with
      | 0 => none
      | f + 1 => posUpTo q b f (2 * far - 1 - b)

/-- pieces for `q > 0` on the region from `A` to `B` -/
def posSearch (q : P) (A B : Option Rat) : Option (List Piece) :=
  let R := rootBound q
  match A, B with
  | some a, some b => posIcc q depth a b
  | some a, none => posFrom q a 8 R
  | none, some b => posUpTo q b 8 (-R)
  | none, none =>
    match posIic q (-R - 1), posIci q (R + 1) with
    | some l, some r => (posIcc q depth (-R - 1) (R + 1)).map (fun m => l :: m ++ [r])
    | _, _ => none

/-- a single-point region `[a, a]`: a short interval around it -/
def posPoint (q : P) (a : Rat) : Option (List Piece) :=
  if eval q a ≤ 0 then none else
  -- shrink until the leaf test passes
  let rec go : Nat → Rat → Option (List Piece)
    | 0, _ => none
    | f + 1, h =>
      match leafPiece q (a - h) (a + h) with
      | some pc => some [pc]
      | none => go f (h / 2)
  go 200 1

def gapSearch (p : P) (A B : Option Rat) : Option Seg :=
  let try1 (σ : Rat) : Option Seg :=
    let q := scaleP σ p
    let ps := match A, B with
      | some a, some b => if a = b then posPoint q a else posSearch q A B
      | _, _ => posSearch q A B
    ps.map (fun ps => Seg.gap σ ps B)
  -- decide the sign at a sample point first
  let x : Rat := match A, B with
    | some a, _ => a
    | none, some b => b
    | none, none => 0
  if eval p x > 0 then try1 1 else if eval p x < 0 then try1 (-1) else none

/-- square-free factorisation `p = s · g` proposed by the Euclidean algorithm -/
def factorPair (p : P) : P × P :=
  let pt := trim p
  if pt.length ≤ 1 then (pt, [1]) else
  let g := gcd pt (deriv pt)
  (quo pt g, g)

/-- try to certify a root of `p` inside `[lo, hi]` -/
def rootSearch (sg : P × P) (lo hi : Rat) (approx : List Rat) : Option RootCert :=
  let s := sg.1
  let cands : List (Rat × Rat) :=
    approx.map (fun r => (r, r)) ++ (lo, hi) ::
      approx.map (fun r => (max lo (r - (hi - lo) / 4), min hi (r + (hi - lo) / 4)))
  (cands.find? (fun (l, h) => lo ≤ l ∧ l ≤ h ∧ h ≤ hi ∧ eval s l * eval s h ≤ 0)).map
    fun (l, h) => { lo := l, hi := h, s := s, g := sg.2 }

/-- group sorted approximate roots whose `w`-neighbourhoods overlap -/
def groupRoots (w : Rat) : List Rat → List (Rat × Rat × List Rat)
  | [] => []
  | r :: rest =>
    match groupRoots w rest with
    | [] => [(r - w, r + w, [r])]
    | (l, h, rs) :: more =>
      if r + w ≥ l then (r - w, h, r :: rs) :: more else (r - w, r + w, [r]) :: (l, h, rs) :: more

def ltOpt (x : Rat) : Option Rat → Bool
  | none => true
  | some b => decide (x < b)

/-- build a certified partition of the region from `A` to `B` from approximate roots (sorted, each within
`w` of a real root) -/
def mkSegs (p : P) (A B : Option Rat) (approx : List Rat) (w : Rat) : Option (List Seg) :=
  let sg := factorPair p
  let groups := groupRoots w approx
  let rec go (front : Option Rat) (gs : List (Rat × Rat × List Rat)) (fuel : Nat) : Option (List Seg) :=
    match fuel with
    | 0 => none
    | fuel + 1 =>
    match gs with
    | [] =>
      -- final gap
      (match front, B with
       | some f, some b => if b ≤ f then some [] else (gapSearch p front B).map ([·])
       | _, _ => (gapSearch p front B).map ([·]))
    | (l, h, rs) :: more =>
      -- clip the interval to the region still to be covered
      let l' := match front with | some f => max f l | none => l
      let h' := match B with | some b => min b h | none => h
      if h' < l' then go front more fuel          -- the group lies outside the region
      else if (match front with | some f => decide (h < f) | none => false) then go front more fuel
      else
        match rootSearch sg l' h' rs with
        | none => go front more fuel          -- no root located in the clipped interval: the next gap must cover it
        | some c =>
          let rootSeg := Seg.root l' h' c
          let tail := go (some h') more fuel
          match front with
          | some f =>
            if f = l' then tail.map (rootSeg :: ·)
            else
              match gapSearch p front (some l'), tail with
              | some g, some t => some (g :: rootSeg :: t)
              | _, _ => none
          | none =>
            match gapSearch p none (some l'), tail with
            | some g, some t => some (g :: rootSeg :: t)
            | _, _ => none
  go A groups (groups.length + 2)

end Sb.Corr.Cert
