/-
Exact real-root oracle for polynomials with rational coefficients (used only by the correspondence
driver, for the root-finding claims of C13 / C14 / C15 / C18): Sturm sequences on the square-free part,
root counting on intervals, isolation by bisection.  Everything is exact rational arithmetic.

A polynomial is the list of its coefficients, constant term first (as in `Sb.Poly`).
This file is part of the *trusted* correspondence machinery: Sturm's theorem itself is not proven here.
-/
import Sb.Model.Poly

namespace Sb.Corr.Sturm
open Sb

abbrev P := List Rat

def trim (p : P) : P := (p.reverse.dropWhile (· == 0)).reverse

def isZero (p : P) : Bool := (trim p).isEmpty

def deg (p : P) : Nat := (trim p).length - 1

def lead (p : P) : Rat := (trim p).getLastD 0

def eval (p : P) (x : Rat) : Rat := Poly.eval p x

def deriv (p : P) : P :=
  match p with
  | [] => []
  | _ :: cs => (Poly.derivAux cs 1)

def neg (p : P) : P := p.map (fun c => -c)

def addP : P → P → P
  | [], q => q
  | p, [] => p
  | a :: p, b :: q => (a + b) :: addP p q

def scaleP (k : Rat) (p : P) : P := p.map (k * ·)

/-- `p * x^n` -/
def shift (n : Nat) (p : P) : P := List.replicate n 0 ++ p

/-- remainder of `a` by `b` (`b ≠ 0`), by repeated cancellation of the leading term -/
def remAux (b : P) (db : Nat) (lb : Rat) : Nat → P → P
  | 0, a => trim a
  | fuel + 1, a =>
    let a := trim a
    if a.isEmpty ∨ a.length - 1 < db then a
    else
      let da := a.length - 1
      let k := a.getLastD 0 / lb
      remAux b db lb fuel ((addP a (neg (scaleP k (shift (da - db) b)))).take da)

def rem (a b : P) : P :=
  let b := trim b
  if b.isEmpty then trim a else remAux b (b.length - 1) (b.getLastD 0) (a.length + 1) a

/-- quotient of `a` by `b` when the division is exact or not (only the quotient is returned) -/
def quoAux (b : P) (db : Nat) (lb : Rat) : Nat → P → P → P
  | 0, _, q => q
  | fuel + 1, a, q =>
    let a := trim a
    if a.isEmpty ∨ a.length - 1 < db then q
    else
      let da := a.length - 1
      let k := a.getLastD 0 / lb
      let a' := (addP a (neg (scaleP k (shift (da - db) b)))).take da
      quoAux b db lb fuel a' (addP q (shift (da - db) [k]))

def quo (a b : P) : P :=
  let b := trim b
  if b.isEmpty then [] else quoAux b (b.length - 1) (b.getLastD 0) (a.length + 1) a []

/-- gcd by the Euclidean algorithm (not normalised) -/
def gcdAux : Nat → P → P → P
  | 0, a, _ => a
  | fuel + 1, a, b => if (trim b).isEmpty then trim a else gcdAux fuel b (rem a b)

def gcd (a b : P) : P := gcdAux (a.length + b.length + 2) a b

/-- square-free part of a non-zero polynomial -/
def squareFree (p : P) : P :=
  let p := trim p
  if p.length ≤ 1 then p else quo p (gcd p (deriv p))

/-- Sturm chain of a square-free polynomial: p, p', -rem(p,p'), ... -/
def chainAux : Nat → P → P → List P
  | 0, _, _ => []
  | fuel + 1, a, b =>
    if (trim b).isEmpty then [] else
    let r := neg (rem a b)
    b :: chainAux fuel b r

def chain (p : P) : List P :=
  let p := trim p
  p :: chainAux (p.length + 2) p (deriv p)

def sgn (x : Rat) : Int := if x > 0 then 1 else if x < 0 then -1 else 0

def variations : List Int → Nat
  | [] => 0
  | s :: rest =>
    let rest' := rest.filter (· != 0)
    if s == 0 then variations rest' else
    match rest' with
    | [] => 0
    | t :: _ => (if s != t then 1 else 0) + variations rest'
termination_by l => l.length
decreasing_by
  all_goals simp_wf
  all_goals
    have := List.length_filter_le (fun x : Int => x != 0) rest
    omega

def varAt (ch : List P) (x : Rat) : Nat := variations (ch.map (fun q => sgn (eval q x)))

/-- sign of the polynomial at +∞ / -∞ -/
def sgnInf (q : P) (plus : Bool) : Int :=
  let q := trim q
  if q.isEmpty then 0 else
  let s := sgn (q.getLastD 0)
  if plus then s else if (q.length - 1) % 2 = 0 then s else -s

def varInf (ch : List P) (plus : Bool) : Nat := variations (ch.map (fun q => sgnInf q plus))

/-- number of distinct real roots of `p` (non-zero) in the half-open interval (a, b] -/
def countHalfOpen (p : P) (a b : Rat) : Nat :=
  let sf := squareFree p
  let ch := chain sf
  varAt ch a - varAt ch b

/-- number of distinct real roots in the closed interval [a, b] -/
def countClosed (p : P) (a b : Rat) : Nat :=
  if a > b then 0 else
  countHalfOpen p a b + (if eval p a == 0 then 1 else 0)

/-- number of distinct real roots on the whole line -/
def countAll (p : P) : Nat :=
  let ch := chain (squareFree p)
  varInf ch false - varInf ch true

/-- Cauchy bound: all real roots lie in [-B, B] -/
def rootBound (p : P) : Rat :=
  let p := trim p
  match p.getLast? with
  | none => 1
  | some l => 1 + (p.dropLast.foldl (fun m c => max m (Sb.absR (c / l))) 0)

/-- isolate the distinct real roots of `p` in (a, b]: a list of intervals (lo, hi], one root each,
refined until `hi - lo ≤ eps` -/
def isolateAux (ch : List P) (eps : Rat) : Nat → Rat → Rat → Nat → Nat → List (Rat × Rat)
  | 0, a, b, _, _ => [(a, b)]
  | fuel + 1, a, b, va, vb =>
    let n := va - vb
    if n = 0 then []
    else if n = 1 ∧ b - a ≤ eps then [(a, b)]
    else
      let m := (a + b) / 2
      let vm := varAt ch m
      isolateAux ch eps fuel a m va vm ++ isolateAux ch eps fuel m b vm vb

/-- distinct real roots of a non-zero polynomial, as midpoints of isolating intervals of width ≤ eps,
in increasing order -/
def roots (p : P) (eps : Rat) : List Rat :=
  let sf := squareFree p
  if sf.length ≤ 1 then [] else
  let ch := chain sf
  let B := rootBound sf
  (isolateAux ch eps 200 (-B) B (varAt ch (-B)) (varAt ch B)).map (fun (lo, hi) =>
    -- an exact rational root at the right end is returned exactly
    if eval sf hi == 0 then hi else (lo + hi) / 2)

/-- roots inside the closed interval [a, b] -/
def rootsIn (p : P) (a b eps : Rat) : List Rat := (roots p eps).filter (fun r => a ≤ r ∧ r ≤ b)

/-- maximum and minimum of `p` on [a, b] up to `eps`-accurate critical points (values at the end
points and at the roots of `p'`) -/
def rangeOn (p : P) (a b eps : Rat) : Rat × Rat :=
  let crit := if isZero (deriv p) then [] else rootsIn (deriv p) a b eps
  let vals := (a :: b :: crit).map (eval p)
  (vals.foldl min (eval p a), vals.foldl max (eval p a))

/-- `∃ x ∈ [a, b], p x ≥ v` decided exactly -/
def reaches (p : P) (a b v : Rat) : Bool :=
  if a > b then false else
  let q := addP p [-v]
  if eval q a ≥ 0 ∨ eval q b ≥ 0 then true
  else if isZero q then true
  else countHalfOpen q a b > 0

/-- `∃ x ∈ [a, b], p x ≤ v` decided exactly -/
def dipsTo (p : P) (a b v : Rat) : Bool := reaches (neg p) a b (-v)

end Sb.Corr.Sturm
