/-
C16 — the statement of the property, end to end: the builder's bytes, read back with the format specification.

The other C16 files prove pieces (durations of the split add up, an accepted coordinate is stored within one scale
unit, a validated call never fails half-way, `finish` restarts the builder).  This file joins them into the
property as stated, for every history of calls:

* `decodeSeg_encoded`, `appendSegment_inv` : the bytes `appendSegment` writes are read back by `Spec.decodeSeg`
  as one straight segment with the requested duration whose end point is, per axis, the stored value of the target
  (axes equal to the builder's last point are not written and keep the previous end point — the invariant `Rel`
  says the decoded end point *is* the stored value of the last point given, which is what makes that correct;
  this is the invariant the defect repaired in bb77cde broke across `finish`);
* `appendLine_inv`, `holdFor_inv`, `setStart_inv`, `init_inv` : one call;
* `history_good` : every history (failed calls included): the buffer always decodes (`Spec.segmentsOf`), old
  segments are never changed, new ones are straight and ≤ 60 s, the total is the sum of the successful calls;
* **`builder_roundtrip`** : the finished trajectory lasts exactly the sum of the requested durations, consists of
  straight segments, and ends within one quantum of the last point given;
* **`passes_through_appendLine` / `passes_through_hold`** : at the cumulative time of every successful call that
  lasts ≥ 1 ms the specified curve `Spec.posAt` is within one quantum of the point given to that call, whatever
  calls follow (yaw: exactly the value `yawDec` the builder's yaw encoding stands for).

Together with `Sb.C01.position_eq_spec` (the player computes `Spec.posAt`) and `history_finish_restarts` (a finished
builder is a fresh one) this is C16 for all call sequences.  Not covered here: the numeric bound "a tenth of a degree"
for `yawDec` (float `fmodf` and `* 10.0f` rounding; checked by the correspondence run with tolerance 0.1° + 0.001°), and
calls that last 0 ms (the curve jumps there; the statement says nothing about an instant that two points share).
-/
import Sb.Properties.C16Quantum
import Sb.Spec.Trajectory
import Sb.Properties.C01Corollaries
import Sb.Properties.C16Restart

namespace Sb.C16
open Sb Sb.Builder Sb.Parsing Sb.Poly Sb.Spec Sb.Proofs

theorem u8_toNat_ofNat (n : Nat) : (UInt8.ofNat n).toNat = n % 256 := by
  simp [UInt8.toNat_ofNat']

theorem i16le_writeI16 (s : Int) (h1 : -32768 ≤ s) (h2 : s ≤ 32767) :
    ∃ b0 b1, writeI16 s = [b0, b1] ∧ i16le b0 b1 = s := by
  refine ⟨_, _, rfl, ?_⟩
  unfold i16le ofInt16 toInt16
  rw [u8_toNat_ofNat, u8_toNat_ofNat]
  have hv : ((s % 65536).toNat) < 65536 := by omega
  generalize hg : (s % 65536).toNat = v at *
  have e : v % 256 % 256 + 256 * (v / 256 % 256 % 256) = v := by omega
  rw [e]
  split <;> omega

theorem u16_writeU16 (v : Nat) (hv : v < 65536) :
    ∃ b0 b1 : UInt8, writeU16 v = [b0, b1] ∧ b0.toNat + 256 * b1.toNat = v := by
  refine ⟨_, _, rfl, ?_⟩
  rw [u8_toNat_ofNat, u8_toNat_ofNat]
  omega


/-- bytes and decoded stored values of one axis of an appended segment -/
def AxisEnc (f : UInt8 → UInt8 → Rat) (v : Rat) (changed : Bool) (bs : Bytes) (vals : List Rat) : Prop :=
  if changed then ∃ b0 b1, bs = [b0, b1] ∧ f b0 b1 = v ∧ vals = [v] else bs = [] ∧ vals = []

theorem takeVals_axis (f : UInt8 → UInt8 → Rat) (v : Rat) (changed : Bool) (bs : Bytes) (vals : List Rat)
    (h : AxisEnc f v changed bs vals) (rest : Bytes) :
    takeVals f (if changed then 1 else 0) (bs ++ rest) = some (vals, rest) := by
  unfold AxisEnc at h
  cases changed with
  | false =>
    simp only [Bool.false_eq_true, if_false] at h ⊢
    obtain ⟨rfl, rfl⟩ := h
    simp [takeVals]
  | true =>
    simp only [if_true] at h ⊢
    obtain ⟨b0, b1, rfl, hv, rfl⟩ := h
    simp [takeVals, hv]

theorem storedPoints_flags (cx cy cz cw : Bool) :
    let F := (if cx then 1 else 0) + (if cy then 4 else 0) + (if cz then 16 else 0) + (if cw then 64 else 0)
    (UInt8.ofNat F).toNat = F ∧
    storedPoints F = (if cx then 1 else 0) ∧ storedPoints (F / 4) = (if cy then 1 else 0) ∧
    storedPoints (F / 16) = (if cz then 1 else 0) ∧ storedPoints (F / 64) = (if cw then 1 else 0) := by
  cases cx <;> cases cy <;> cases cz <;> cases cw <;> decide

/-- **One encoded segment decodes to what was asked for.** -/
theorem decodeSeg_encoded (sc : Nat) (start : Vec4) (ms : Nat) (hms : ms < 65536) (cx cy cz cw : Bool)
    (vx vy vz vw : Rat) (xs ys zs ws : Bytes) (lx ly lz lw : List Rat)
    (hx : AxisEnc (coordOf sc) vx cx xs lx) (hy : AxisEnc (coordOf sc) vy cy ys ly)
    (hz : AxisEnc (coordOf sc) vz cz zs lz) (hw : AxisEnc angleOf vw cw ws lw) (rest : Bytes) :
    decodeSeg sc start
      ([UInt8.ofNat ((if cx then 1 else 0) + (if cy then 4 else 0) + (if cz then 16 else 0) + (if cw then 64 else 0))]
        ++ writeU16 ms ++ xs ++ ys ++ zs ++ ws ++ rest) =
    some ({ durMs := ms, ctrl := ⟨start.x :: lx, start.y :: ly, start.z :: lz, start.yaw :: lw⟩ }, rest) := by
  obtain ⟨d0, d1, hd, hdv⟩ := u16_writeU16 ms hms
  obtain ⟨hF, h1, h2, h3, h4⟩ := storedPoints_flags cx cy cz cw
  rw [hd]
  simp only [List.cons_append, List.nil_append, List.append_assoc]
  unfold decodeSeg
  simp only [hF, h1, h2, h3, h4]
  rw [takeVals_axis _ _ _ _ _ hx, ]
  simp only
  rw [takeVals_axis _ _ _ _ _ hy]
  simp only
  rw [takeVals_axis _ _ _ _ _ hz]
  simp only
  rw [takeVals_axis _ _ _ _ _ hw]
  simp only [hdv]


theorem scaleCoord_range (b : Builder) (c : Rat) (s : Int) (h : scaleCoord b c = .ok s) : -32768 ≤ s ∧ s ≤ 32767 := by
  unfold scaleCoord at h
  simp only at h
  split at h
  · cases h
  · rename_i hr
    simp only [Except.ok.injEq] at h
    subst h
    omega

/-- the decoded value of a coordinate the builder accepted -/
def quant (b : Builder) (c : Rat) : Rat :=
  match scaleCoord b c with
  | .ok s => (s : Rat) * (b.scale : Rat)
  | .error _ => 0

/-- the decoded value of a yaw angle as the builder writes it -/
def yawDec (a : Rat) : Rat :=
  match angleBytes a with
  | [b0, b1] => angleOf b0 b1
  | _ => 0

theorem axisEnc_coord (b : Builder) (c : Rat) (s : Int) (h : scaleCoord b c = .ok s) :
    AxisEnc (coordOf b.scale) (quant b c) true (writeI16 s) [quant b c] := by
  obtain ⟨h1, h2⟩ := scaleCoord_range b c s h
  obtain ⟨b0, b1, hw, hv⟩ := i16le_writeI16 s h1 h2
  unfold AxisEnc
  rw [if_pos rfl]
  refine ⟨b0, b1, hw, ?_, rfl⟩
  unfold quant coordOf
  rw [h, hv]

theorem axisEnc_yaw (a : Rat) : AxisEnc angleOf (yawDec a) true (angleBytes a) [yawDec a] := by
  unfold AxisEnc
  rw [if_pos rfl]
  have : ∃ b0 b1, angleBytes a = [b0, b1] := ⟨_, _, rfl⟩
  obtain ⟨b0, b1, hb⟩ := this
  refine ⟨b0, b1, hb, ?_, rfl⟩
  unfold yawDec
  rw [hb]

theorem axisEnc_none (f : UInt8 → UInt8 → Rat) (v : Rat) : AxisEnc f v false [] [] := by
  simp [AxisEnc]

/-- what a successful `appendSegment` appended, axis by axis -/
theorem appendSegment_form (b b' : Builder) (t : Vec4) (ms : Nat) (h : appendSegment b t ms = .ok b') :
    ∃ (xs ys zs ws : Bytes) (lx ly lz lw : List Rat),
      AxisEnc (coordOf b.scale) (quant b t.x) (decide (b.last.x ≠ t.x)) xs lx ∧
      AxisEnc (coordOf b.scale) (quant b t.y) (decide (b.last.y ≠ t.y)) ys ly ∧
      AxisEnc (coordOf b.scale) (quant b t.z) (decide (b.last.z ≠ t.z)) zs lz ∧
      AxisEnc angleOf (yawDec t.yaw) (decide (b.last.yaw ≠ t.yaw)) ws lw ∧
      (b.last.x ≠ t.x → ∃ s, scaleCoord b t.x = .ok s) ∧ (b.last.y ≠ t.y → ∃ s, scaleCoord b t.y = .ok s) ∧
      (b.last.z ≠ t.z → ∃ s, scaleCoord b t.z = .ok s) ∧
      b' = { b with
        buf := b.buf ++ ([UInt8.ofNat ((if decide (b.last.x ≠ t.x) then 1 else 0) + (if decide (b.last.y ≠ t.y) then 4 else 0)
                + (if decide (b.last.z ≠ t.z) then 16 else 0) + (if decide (b.last.yaw ≠ t.yaw) then 64 else 0))]
              ++ writeU16 (ms % 65536) ++ xs ++ ys ++ zs ++ ws),
        last := t } := by
  unfold appendSegment at h
  simp only [bind, Except.bind, pure, Except.pure] at h
  -- x
  have key : ∀ (c l : Rat) (r : R (List UInt8)),
      r = (if l ≠ c then (scaleCoord b c).map writeI16 else Except.ok []) →
      ∀ bs, r = .ok bs → ∃ lv, AxisEnc (coordOf b.scale) (quant b c) (decide (l ≠ c)) bs lv ∧
        (l ≠ c → ∃ s, scaleCoord b c = .ok s) := by
    intro c l r hr bs hbs
    subst hr
    by_cases hc : l ≠ c
    · rw [if_pos hc] at hbs
      cases hs : scaleCoord b c with
      | error e => rw [hs] at hbs; cases hbs
      | ok s =>
        rw [hs] at hbs
        simp only [Except.map, Except.ok.injEq] at hbs
        subst hbs
        exact ⟨_, by simpa [hc] using axisEnc_coord b c s hs, fun _ => ⟨s, rfl⟩⟩
    · rw [if_neg hc] at hbs
      simp only [Except.ok.injEq] at hbs
      subst hbs
      exact ⟨[], by simpa [hc] using axisEnc_none _ _, fun h => absurd h hc⟩
  split at h
  · cases h
  · rename_i xs hxs
    split at h
    · cases h
    · rename_i ys hys
      split at h
      · cases h
      · rename_i zs hzs
        simp only [Except.ok.injEq] at h
        obtain ⟨lx, hx, vx⟩ := key t.x b.last.x _ rfl xs hxs
        obtain ⟨ly, hy, vy⟩ := key t.y b.last.y _ rfl ys hys
        obtain ⟨lz, hz, vz⟩ := key t.z b.last.z _ rfl zs hzs
        have hw : ∃ lw, AxisEnc angleOf (yawDec t.yaw) (decide (b.last.yaw ≠ t.yaw))
            (if b.last.yaw ≠ t.yaw then angleBytes t.yaw else []) lw := by
          by_cases hc : b.last.yaw ≠ t.yaw
          · exact ⟨_, by simpa [hc] using axisEnc_yaw t.yaw⟩
          · exact ⟨[], by simpa [hc] using axisEnc_none _ _⟩
        obtain ⟨lw, hw⟩ := hw
        refine ⟨xs, ys, zs, _, lx, ly, lz, lw, hx, hy, hz, hw, vx, vy, vz, ?_⟩
        subst h
        simp only [decide_eq_true_eq, List.append_assoc]


/-! ### Chains of encoded segments -/

/-- `body` is exactly the encodings of `segs`, read from the point `p`, ending at the point `e` -/
inductive Enc (sc : Nat) : Vec4 → Bytes → List SegSpec → Vec4 → Prop
  | nil (p : Vec4) : Enc sc p [] [] p
  | cons (p : Vec4) (sb : Bytes) (seg : SegSpec) (body : Bytes) (segs : List SegSpec) (e : Vec4) :
      3 ≤ sb.length → (∀ rest, decodeSeg sc p (sb ++ rest) = some (seg, rest)) →
      Enc sc (seg.endPt p) body segs e → Enc sc p (sb ++ body) (seg :: segs) e

theorem Enc.snoc {sc : Nat} {p e : Vec4} {body : Bytes} {segs : List SegSpec} (h : Enc sc p body segs e)
    (sb : Bytes) (seg : SegSpec) (hl : 3 ≤ sb.length) (hd : ∀ rest, decodeSeg sc e (sb ++ rest) = some (seg, rest)) :
    Enc sc p (body ++ sb) (segs ++ [seg]) (seg.endPt e) := by
  induction h with
  | nil p =>
    have := Enc.cons p sb seg [] [] (seg.endPt p) hl hd (Enc.nil _)
    simpa using this
  | cons p sb0 seg0 body segs e hl0 hd0 _ ih =>
    have := Enc.cons p sb0 seg0 (body ++ sb) (segs ++ [seg]) (seg.endPt e) hl0 hd0 (ih hd)
    simpa [List.append_assoc] using this

theorem Enc.length_le {sc : Nat} {p e : Vec4} {body : Bytes} {segs : List SegSpec} (h : Enc sc p body segs e) :
    3 * segs.length ≤ body.length := by
  induction h with
  | nil p => simp
  | cons p sb seg body segs e hl _ _ ih => simp only [List.length_append, List.length_cons]; omega

/-- the format specification reads an encoded chain back as the segments it encodes -/
theorem Enc.decode {sc : Nat} {p e : Vec4} {body : Bytes} {segs : List SegSpec} (h : Enc sc p body segs e) :
    ∀ fuel, segs.length ≤ fuel → decodeSegs sc p body fuel = segs := by
  induction h with
  | nil p =>
    intro fuel _
    cases fuel with
    | zero => simp [decodeSegs]
    | succ f => simp [decodeSegs, decodeSeg]
  | cons p sb seg body segs e _ hd _ ih =>
    intro fuel hf
    cases fuel with
    | zero => simp at hf
    | succ f =>
      have := hd body
      simp only [decodeSegs, this]
      rw [ih f (by simpa using hf)]

theorem Enc.decode_default {sc : Nat} {p e : Vec4} {body : Bytes} {segs : List SegSpec} (h : Enc sc p body segs e) :
    decodeSegs sc p body = segs :=
  h.decode _ (by have := h.length_le; omega)


/-! ### The builder invariant -/

/-- `e` is the stored value of the coordinate `c` -/
def RelAx (b : Builder) (e c : Rat) : Prop := ∃ s, scaleCoord b c = .ok s ∧ e = (s : Rat) * (b.scale : Rat)

/-- the decoded end point is the stored value of the builder's last (unquantised) point -/
def Rel (b : Builder) (e : Vec4) : Prop :=
  RelAx b e.x b.last.x ∧ RelAx b e.y b.last.y ∧ RelAx b e.z b.last.z ∧ e.yaw = yawDec b.last.yaw

/-- the buffer is a 9-byte header with decoded start point `start`, followed by exactly the encodings of `segs`,
which end at `e`, the stored value of the last point given -/
def BInv (b : Builder) (start : Vec4) (segs : List SegSpec) (e : Vec4) : Prop :=
  ∃ hd x0 x1 y0 y1 z0 z1 w0 w1 body,
    b.buf = hd :: x0 :: x1 :: y0 :: y1 :: z0 :: z1 :: w0 :: w1 :: body ∧
    start = ⟨coordOf b.scale x0 x1, coordOf b.scale y0 y1, coordOf b.scale z0 z1, angleOf w0 w1⟩ ∧
    Enc b.scale start body segs e ∧ Rel b e

theorem axisEnc_vals {f : UInt8 → UInt8 → Rat} {v : Rat} {c : Bool} {bs : Bytes} {l : List Rat}
    (h : AxisEnc f v c bs l) : l = if c then [v] else [] := by
  unfold AxisEnc at h
  cases c with
  | false => simpa using h.2
  | true =>
    simp only [if_true] at h ⊢
    obtain ⟨_, _, _, _, hl⟩ := h
    exact hl

theorem axisEnc_len {f : UInt8 → UInt8 → Rat} {v : Rat} {c : Bool} {bs : Bytes} {l : List Rat}
    (h : AxisEnc f v c bs l) : l.length ≤ 1 := by
  rw [axisEnc_vals h]; cases c <;> simp

theorem relAx_step (b : Builder) (e l c : Rat) (lx : List Rat) (hrel : RelAx b e l)
    (hl : lx = if decide (l ≠ c) then [quant b c] else []) (hv : l ≠ c → ∃ s, scaleCoord b c = .ok s) :
    RelAx b (lastOr (e :: lx) e) c := by
  by_cases hc : l ≠ c
  · obtain ⟨s, hs⟩ := hv hc
    rw [decide_eq_true hc, if_pos rfl] at hl
    subst hl
    refine ⟨s, hs, ?_⟩
    simp [lastOr, quant, hs]
  · have : l = c := by simpa using hc
    subst this
    rw [decide_eq_false hc, if_neg (by simp)] at hl
    subst hl
    simpa [lastOr] using hrel

/-- **One appended segment**: the buffer still decodes, one more segment with the requested duration, ending at
the stored value of the target. -/
theorem appendSegment_inv (b b' : Builder) (start : Vec4) (segs : List SegSpec) (e : Vec4) (t : Vec4) (ms : Nat)
    (hinv : BInv b start segs e) (hms : ms < 65536) (h : appendSegment b t ms = .ok b') :
    ∃ seg : SegSpec, BInv b' start (segs ++ [seg]) (seg.endPt e) ∧ seg.durMs = ms ∧ b'.last = t ∧ b'.scale = b.scale ∧
      seg.ctrl.x.length ≤ 2 ∧ seg.ctrl.y.length ≤ 2 ∧ seg.ctrl.z.length ≤ 2 ∧ seg.ctrl.yaw.length ≤ 2 := by
  obtain ⟨xs, ys, zs, ws, lx, ly, lz, lw, hx, hy, hz, hw, vx, vy, vz, hb'⟩ := appendSegment_form b b' t ms h
  obtain ⟨hd, x0, x1, y0, y1, z0, z1, w0, w1, body, hbuf, hstart, henc, hrx, hry, hrz, hrw⟩ := hinv
  have hmod : ms % 65536 = ms := Nat.mod_eq_of_lt hms
  rw [hmod] at hb'
  let seg : SegSpec := { durMs := ms, ctrl := ⟨e.x :: lx, e.y :: ly, e.z :: lz, e.yaw :: lw⟩ }
  let sb : Bytes := [UInt8.ofNat ((if decide (b.last.x ≠ t.x) then 1 else 0) + (if decide (b.last.y ≠ t.y) then 4 else 0)
                + (if decide (b.last.z ≠ t.z) then 16 else 0) + (if decide (b.last.yaw ≠ t.yaw) then 64 else 0))]
              ++ writeU16 ms ++ xs ++ ys ++ zs ++ ws
  have hb2 : b' = { b with buf := b.buf ++ sb, last := t } := hb'
  have hdec : ∀ rest, decodeSeg b.scale e (sb ++ rest) = some (seg, rest) := by
    intro rest
    have := decodeSeg_encoded b.scale e ms hms _ _ _ _ _ _ _ _ xs ys zs ws lx ly lz lw hx hy hz hw rest
    simpa [sb, List.append_assoc] using this
  have hlen : 3 ≤ sb.length := by simp [sb, writeU16]
  subst hb2
  refine ⟨seg, ⟨hd, x0, x1, y0, y1, z0, z1, w0, w1, body ++ sb, ?_, hstart, henc.snoc sb seg hlen hdec, ?_, ?_, ?_, ?_⟩,
    rfl, rfl, rfl, ?_, ?_, ?_, ?_⟩
  · simp only [hbuf, List.cons_append]
  · exact relAx_step b e.x b.last.x t.x lx hrx (axisEnc_vals hx) vx
  · exact relAx_step b e.y b.last.y t.y ly hry (axisEnc_vals hy) vy
  · exact relAx_step b e.z b.last.z t.z lz hrz (axisEnc_vals hz) vz
  · show lastOr (e.yaw :: lw) e.yaw = yawDec t.yaw
    rw [axisEnc_vals hw]
    by_cases hc : b.last.yaw ≠ t.yaw
    · rw [decide_eq_true hc, if_pos rfl]; simp [lastOr]
    · have : b.last.yaw = t.yaw := by simpa using hc
      rw [decide_eq_false hc, if_neg (by simp)]
      simp [lastOr, hrw, this]
  · show (e.x :: lx).length ≤ 2
    have := axisEnc_len hx; simp; omega
  · show (e.y :: ly).length ≤ 2
    have := axisEnc_len hy; simp; omega
  · show (e.z :: lz).length ≤ 2
    have := axisEnc_len hz; simp; omega
  · show (e.yaw :: lw).length ≤ 2
    have := axisEnc_len hw; simp; omega


/-- a straight (or constant) segment -/
def Lin (s : SegSpec) : Prop :=
  s.ctrl.x.length ≤ 2 ∧ s.ctrl.y.length ≤ 2 ∧ s.ctrl.z.length ≤ 2 ∧ s.ctrl.yaw.length ≤ 2

/-- **A run of appended segments**: one decoded segment per appended one, with the same durations -/
theorem appendMany_inv : ∀ (pts : List (Vec4 × Nat)) (b b' : Builder) (start : Vec4) (segs : List SegSpec) (e : Vec4),
    BInv b start segs e → (∀ p ∈ pts, p.2 < 65536) → appendMany b pts = .ok b' →
    ∃ (news : List SegSpec) (e' : Vec4), BInv b' start (segs ++ news) e' ∧ news.map (·.durMs) = pts.map (·.2) ∧
      (∀ s ∈ news, Lin s) ∧ b'.scale = b.scale ∧ (∀ q, pts.getLast? = some q → b'.last = q.1) ∧
      (pts = [] → b' = b ∧ e' = e) := by
  intro pts
  induction pts with
  | nil =>
    intro b b' start segs e hinv _ h
    simp only [appendMany, Except.ok.injEq] at h
    subst h
    exact ⟨[], e, by simpa using hinv, rfl, by simp, rfl, by simp, fun _ => ⟨rfl, rfl⟩⟩
  | cons pd rest ih =>
    intro b b' start segs e hinv hd h
    obtain ⟨p, d⟩ := pd
    simp only [appendMany, bind, Except.bind] at h
    split at h
    · cases h
    · rename_i b1 hb1
      obtain ⟨seg, hinv1, hdur, hlast1, hsc1, l1, l2, l3, l4⟩ :=
        appendSegment_inv b b1 start segs e p d hinv (hd (p, d) (by simp)) hb1
      obtain ⟨news, e', hinv', hdurs, hlin, hsc', hlast', _⟩ :=
        ih b1 b' start (segs ++ [seg]) (seg.endPt e) hinv1 (fun q hq => hd q (List.mem_cons_of_mem _ hq)) h
      refine ⟨seg :: news, e', by simpa [List.append_assoc] using hinv', ?_, ?_, by rw [hsc', hsc1], ?_, by simp⟩
      · simp [hdur, hdurs]
      · intro s hs
        rcases List.mem_cons.mp hs with rfl | hs
        · exact ⟨l1, l2, l3, l4⟩
        · exact hlin s hs
      · intro q hq
        cases rest with
        | nil =>
          simp only [List.getLast?_singleton, Option.some.injEq] at hq
          subst hq
          simp only [appendMany, Except.ok.injEq] at h
          subst h
          exact hlast1
        | cons r rs =>
          apply hlast'
          rw [List.getLast?_cons_cons] at hq
          exact hq

theorem splitDur_pos : ∀ (f ms d : Nat), 1 ≤ ms → d ∈ splitDur f ms → 1 ≤ d := by
  intro f
  induction f with
  | zero => intro ms d _ h; simp [splitDur] at h
  | succ f ih =>
    intro ms d hms h
    unfold splitDur at h
    by_cases hm : ms > 60000
    · simp only [hm, if_true, List.mem_append] at h
      rcases h with h | h
      · exact ih _ _ (by omega) h
      · exact ih _ _ (by omega) h
    · simp only [hm, if_false, List.mem_singleton] at h
      omega

theorem holdChunks_pos : ∀ (f ms d : Nat), d ∈ holdChunks f ms → 1 ≤ d := by
  intro f
  induction f with
  | zero => intro ms d h; simp [holdChunks] at h
  | succ f ih =>
    intro ms d h
    rw [holdChunks] at h
    by_cases h0 : ms > 0
    · simp only [h0, if_true] at h
      rcases List.mem_cons.mp h with rfl | h'
      · split <;> omega
      · exact ih _ _ h'
    · simp only [h0, if_false] at h
      cases h

/-- **`append_line`**: the buffer decodes to the old segments followed by straight segments that last `ms`
in total (each at most 60 s, each at least 1 ms when `ms > 0`) and end at the stored value of the target. -/
theorem appendLine_inv (b b' : Builder) (start : Vec4) (segs : List SegSpec) (e : Vec4) (t : Vec4) (ms : Nat)
    (hinv : BInv b start segs e) (hms : ms < 4294967296) (h : appendLine b t ms = .ok b') :
    ∃ (news : List SegSpec) (e' : Vec4), BInv b' start (segs ++ news) e' ∧ totalMs news = ms ∧ news ≠ [] ∧
      (∀ s ∈ news, Lin s ∧ s.durMs ≤ 60000 ∧ (1 ≤ ms → 1 ≤ s.durMs)) ∧ b'.last = t ∧ b'.scale = b.scale := by
  have haux := appendLine_aux b b' t ms h
  obtain ⟨pts, hmany, hdurs, hlast⟩ := appendLineAux_as_segments 34 b b' t ms haux
  have hle : ∀ p ∈ pts, p.2 < 65536 := by
    intro p hp
    have : p.2 ∈ splitDur 34 ms := by rw [← hdurs]; exact List.mem_map_of_mem hp
    have := splitDur_le 34 ms _ this
    omega
  obtain ⟨news, e', hinv', hd, hlin, hsc, hl, _⟩ := appendMany_inv pts b b' start segs e hinv hle hmany
  have hne : pts ≠ [] := by intro hc; subst hc; simp at hlast
  refine ⟨news, e', hinv', ?_, ?_, ?_, ?_, hsc⟩
  · unfold totalMs
    rw [hd, hdurs]
    exact splitDur_sum 33 ms (by norm_num at hms ⊢; omega)
  · intro hc
    subst hc
    simp only [List.map_nil] at hd
    exact hne (List.map_eq_nil_iff.mp hd.symm)
  · intro s hs
    have hm : s.durMs ∈ splitDur 34 ms := by
      rw [← hdurs, ← hd]; exact List.mem_map_of_mem hs
    exact ⟨hlin s hs, splitDur_le 34 ms _ hm, fun h1 => splitDur_pos 34 ms _ h1 hm⟩
  · obtain ⟨q, hq⟩ : ∃ q, pts.getLast? = some q := by
      cases hg : pts.getLast? with
      | none => simp [hg] at hlast
      | some q => exact ⟨q, rfl⟩
    rw [hl q hq]
    rw [hq] at hlast
    simpa using hlast

/-- **`hold_position_for`**: segments that last `ms` in total; the builder's last point does not change. -/
theorem holdFor_inv (b b' : Builder) (start : Vec4) (segs : List SegSpec) (e : Vec4) (ms : Nat)
    (hinv : BInv b start segs e) (h : holdFor b ms = .ok b') :
    ∃ (news : List SegSpec) (e' : Vec4), BInv b' start (segs ++ news) e' ∧ totalMs news = ms ∧
      (∀ s ∈ news, Lin s ∧ s.durMs ≤ 60000 ∧ 1 ≤ s.durMs) ∧ b'.last = b.last ∧ b'.scale = b.scale ∧
      (ms = 0 → news = [] ∧ e' = e) := by
  unfold holdFor at h
  have hmax : Gen.builderMaxDurationMsec = 60000 := rfl
  rw [hmax] at h
  obtain ⟨pts, hmany, hdurs, _, hlast⟩ := holdForAux_segments _ b b' ms h
  have hle : ∀ p ∈ pts, p.2 < 65536 := by
    intro p hp
    have : p.2 ∈ holdChunks (ms / 60000 + 2) ms := by rw [← hdurs]; exact List.mem_map_of_mem hp
    have := holdChunks_le _ ms _ this
    omega
  obtain ⟨news, e', hinv', hd, hlin, hsc, _, hnil⟩ := appendMany_inv pts b b' start segs e hinv hle hmany
  refine ⟨news, e', hinv', ?_, ?_, hlast, hsc, ?_⟩
  · unfold totalMs
    rw [hd, hdurs]
    exact holdChunks_sum _ ms (by omega)
  · intro s hs
    have hm : s.durMs ∈ holdChunks (ms / 60000 + 2) ms := by
      rw [← hdurs, ← hd]; exact List.mem_map_of_mem hs
    exact ⟨hlin s hs, holdChunks_le _ ms _ hm, holdChunks_pos _ ms _ hm⟩
  · intro h0
    subst h0
    have hp : pts = [] := by
      have : holdChunks (0 / 60000 + 2) 0 = [] := by simp [holdChunks]
      rw [this] at hdurs
      exact List.map_eq_nil_iff.mp hdurs
    have hn : news = [] := by
      rw [hp] at hd
      exact List.map_eq_nil_iff.mp hd
    exact ⟨hn, (hnil hp).2⟩


/-! ### `init`, `set_start_position`, and reading the buffer back -/

theorem scaleCoord_zero (b : Builder) : scaleCoord b 0 = .ok 0 := by
  unfold scaleCoord rf
  simp only [zero_div, roundF32_zero]
  have : (0 : ℚ).floor = 0 := by simpa using Rat.floor_intCast 0
  rw [this]; simp

theorem yawDec_zero : yawDec 0 = 0 := by
  unfold yawDec angleBytes rf fmod360
  simp only [zero_div, roundF32_zero, zero_mul, mul_zero, sub_zero]
  have h0 : (0 : ℚ).floor = 0 := by simpa using Rat.floor_intCast 0
  simp [h0, roundF32_zero, writeI16, writeU16, ofInt16, angleOf, i16le, toInt16]

theorem rel_origin (b : Builder) (h : b.last = ⟨0, 0, 0, 0⟩) : Rel b ⟨0, 0, 0, 0⟩ := by
  unfold Rel RelAx
  rw [h]
  refine ⟨⟨0, scaleCoord_zero b, by simp⟩, ⟨0, scaleCoord_zero b, by simp⟩, ⟨0, scaleCoord_zero b, by simp⟩, ?_⟩
  exact yawDec_zero.symm

theorem coordOf_zero (sc : Nat) : coordOf sc 0 0 = 0 := by simp [coordOf, i16le, toInt16]
theorem angleOf_zero : angleOf 0 0 = 0 := by simp [angleOf, i16le, toInt16]

/-- a freshly initialised builder: no segments, start and end at the origin -/
theorem init_inv (sc fl : Nat) (b : Builder) (h : init sc fl = .ok b) :
    BInv b ⟨0, 0, 0, 0⟩ [] ⟨0, 0, 0, 0⟩ ∧ b.scale = sc ∧ 1 ≤ sc ∧ sc ≤ 127 := by
  unfold init at h
  split at h
  · cases h
  · rename_i hsc
    simp only [Except.ok.injEq] at h
    subst h
    refine ⟨⟨UInt8.ofNat (if fl &&& 1 ≠ 0 then sc ||| 128 else sc), 0, 0, 0, 0, 0, 0, 0, 0, [], ?_, ?_, Enc.nil _,
      rel_origin _ rfl⟩, rfl, by omega, by omega⟩
    · simp [headerLength]
    · simp [coordOf_zero, angleOf_zero]

/-- `set_start_position` on a builder without segments: the header now decodes to the stored value of the point -/
theorem setStart_inv (b b' : Builder) (start e : Vec4) (p : Vec4) (hinv : BInv b start [] e)
    (h : setStart b p = .ok b') :
    ∃ start', BInv b' start' [] start' ∧ b'.last = p ∧ b'.scale = b.scale := by
  obtain ⟨hd, x0, x1, y0, y1, z0, z1, w0, w1, body, hbuf, _, henc, _⟩ := hinv
  unfold setStart at h
  split at h
  · cases h
  · rename_i hlen
    have hbody : body = [] := by
      have h9 := headerLength
      simp only [ne_eq, Decidable.not_not] at hlen
      rw [hbuf] at hlen
      simp only [List.length_cons] at hlen
      cases body with
      | nil => rfl
      | cons _ _ => simp at hlen; omega
    subst hbody
    simp only [bind, Except.bind, pure, Except.pure] at h
    split at h
    · cases h
    · rename_i sx hx
      split at h
      · cases h
      · rename_i sy hy
        split at h
        · cases h
        · rename_i sz hz
          simp only [Except.ok.injEq] at h
          obtain ⟨rx1, rx2⟩ := scaleCoord_range b p.x sx hx
          obtain ⟨ry1, ry2⟩ := scaleCoord_range b p.y sy hy
          obtain ⟨rz1, rz2⟩ := scaleCoord_range b p.z sz hz
          obtain ⟨a0, a1, hwx, hvx⟩ := i16le_writeI16 sx rx1 rx2
          obtain ⟨c0, c1, hwy, hvy⟩ := i16le_writeI16 sy ry1 ry2
          obtain ⟨d0, d1, hwz, hvz⟩ := i16le_writeI16 sz rz1 rz2
          have hang : ∃ g0 g1, angleBytes p.yaw = [g0, g1] := ⟨_, _, rfl⟩
          obtain ⟨g0, g1, hg⟩ := hang
          subst h
          refine ⟨⟨coordOf b.scale a0 a1, coordOf b.scale c0 c1, coordOf b.scale d0 d1, angleOf g0 g1⟩,
            ⟨hd, a0, a1, c0, c1, d0, d1, g0, g1, [], ?_, rfl, Enc.nil _, ?_⟩, rfl, rfl⟩
          · simp [hbuf, replaceAt, hwx, hwy, hwz, hg]
          · refine ⟨⟨sx, hx, by simp [coordOf, hvx]⟩, ⟨sy, hy, by simp [coordOf, hvy]⟩, ⟨sz, hz, by simp [coordOf, hvz]⟩, ?_⟩
            simp [yawDec, hg]

/-- the chain end of a list of segments -/
def endOf (segs : List SegSpec) (start : Vec4) : Vec4 := segs.foldl (fun p s => s.endPt p) start

theorem Enc.end_eq {sc : Nat} {p e : Vec4} {body : Bytes} {segs : List SegSpec} (h : Enc sc p body segs e) :
    e = endOf segs p := by
  induction h with
  | nil p => rfl
  | cons p sb seg body segs e _ _ _ ih => simpa [endOf] using ih

/-- **Reading the buffer back with the format specification** gives exactly the segments of the invariant. -/
theorem segmentsOf_of_inv (b : Builder) (start : Vec4) (segs : List SegSpec) (e : Vec4) (hinv : BInv b start segs e)
    (hs1 : 1 ≤ b.scale) (hs2 : b.scale ≤ 127) (hd : ∀ h ∈ b.buf.head?, h.toNat % 128 = b.scale) :
    ∃ hdr, segmentsOf b.buf = some (hdr, segs) ∧ hdr.scale = b.scale ∧ hdr.start = start ∧ e = endOf segs start := by
  obtain ⟨h0, x0, x1, y0, y1, z0, z1, w0, w1, body, hbuf, hstart, henc, _⟩ := hinv
  have hh : h0.toNat % 128 = b.scale := hd h0 (by simp [hbuf])
  refine ⟨{ scale := h0.toNat % 128, useYaw := decide (h0.toNat ≥ 128), start := start }, ?_, hh, rfl, henc.end_eq⟩
  · unfold segmentsOf decodeHeader
    rw [hbuf]
    simp only [hh]
    have hne : ¬ b.scale = 0 := by omega
    simp only [hne, if_false, ← hstart]
    rw [henc.decode_default]

/-- **Within one quantum**: the decoded end point differs from the point given by at most the scale on every
coordinate, and its yaw is the stored value of the yaw given. -/
theorem rel_within_quantum (b : Builder) (e : Vec4) (hsc : 0 < b.scale) (h : Rel b e) :
    |e.x - b.last.x| ≤ b.scale ∧ |e.y - b.last.y| ≤ b.scale ∧ |e.z - b.last.z| ≤ b.scale ∧ e.yaw = yawDec b.last.yaw := by
  obtain ⟨⟨sx, hx, ex⟩, ⟨sy, hy, ey⟩, ⟨sz, hz, ez⟩, hw⟩ := h
  have qx := scaleCoord_within_quantum b b.last.x sx hsc hx
  have qy := scaleCoord_within_quantum b b.last.y sy hsc hy
  have qz := scaleCoord_within_quantum b b.last.z sz hsc hz
  refine ⟨?_, ?_, ?_, hw⟩
  · rw [ex, abs_sub_comm]; exact qx.1
  · rw [ey, abs_sub_comm]; exact qy.1
  · rw [ez, abs_sub_comm]; exact qz.1


/-! ### The curve at the end instant of a call -/

open Sb.C01 in
/-- at the instant a segment with a positive duration ends, the specified curve is at its end point — also when
zero-length segments precede it and whatever follows -/
theorem posAt_at_total : ∀ (pre : List SegSpec) (s : SegSpec) (post : List SegSpec) (start : Vec4) (T0 : Nat),
    1 ≤ s.durMs → Chained (pre ++ s :: post) start →
    posAt (pre ++ s :: post) start T0 (((T0 + totalMs pre + s.durMs : Nat) : Rat) / 1000) = s.endPt (endOf pre start) := by
  intro pre
  induction pre with
  | nil =>
    intro s post start T0 hd hc
    simpa [totalMs, endOf] using posAt_segment_end s post start T0 hc hd
  | cons p pre ih =>
    intro s post start T0 hd hc
    have hc' : Chained (pre ++ s :: post) (p.endPt start) := hc.2.2.2.2
    have htot : totalMs (p :: pre) = p.durMs + totalMs pre := by simp [totalMs]
    simp only [List.cons_append]
    unfold posAt
    have hlt : ¬ (((T0 + totalMs (p :: pre) + s.durMs : Nat) : Rat) / 1000 ≤ ((T0 + p.durMs : Nat) : Rat) / 1000) := by
      rw [not_le]
      apply div_lt_div_of_pos_right _ (by norm_num)
      have : T0 + p.durMs < T0 + totalMs (p :: pre) + s.durMs := by rw [htot]; omega
      exact_mod_cast this
    rw [if_neg hlt]
    have := ih s post (p.endPt start) (T0 + p.durMs) hd hc'
    have e : T0 + p.durMs + totalMs pre + s.durMs = T0 + totalMs (p :: pre) + s.durMs := by rw [htot]; omega
    rw [e] at this
    simpa [endOf] using this

open Sb.C01 in
theorem chained_of_inv (b : Builder) (start : Vec4) (segs : List SegSpec) (e : Vec4) (hinv : BInv b start segs e) :
    Chained segs start := by
  obtain ⟨_, _, _, _, _, _, _, _, _, body, _, _, henc, _⟩ := hinv
  have := decodeSegs_chained b.scale body.length start body
  rwa [henc.decode_default] at this

theorem endOf_append (a c : List SegSpec) (start : Vec4) : endOf (a ++ c) start = endOf c (endOf a start) := by
  simp [endOf, List.foldl_append]

theorem totalMs_append (a c : List SegSpec) : totalMs (a ++ c) = totalMs a + totalMs c := by
  simp [totalMs, List.map_append, List.sum_append]

/-- the key step for "passes through the point at the cumulative time": if the segments appended by a call are not
empty and the last of them lasts at least 1 ms, then — whatever is appended later — the curve is at the call's end
point at the call's cumulative time -/
theorem posAt_after_call (start : Vec4) (old news later : List SegSpec) (hne : news ≠ [])
    (hpos : ∀ s ∈ news, 1 ≤ s.durMs) (hc : Sb.C01.Chained (old ++ news ++ later) start) :
    posAt (old ++ news ++ later) start 0 (((totalMs old + totalMs news : Nat) : Rat) / 1000) = endOf (old ++ news) start := by
  obtain ⟨front, s, rfl⟩ : ∃ front s, news = front ++ [s] := by
    refine ⟨news.dropLast, news.getLast hne, ?_⟩
    exact (List.dropLast_append_getLast hne).symm
  have hs : 1 ≤ s.durMs := hpos s (by simp)
  have h1 : old ++ (front ++ [s]) ++ later = (old ++ front) ++ s :: later := by simp [List.append_assoc]
  rw [h1] at hc ⊢
  have := posAt_at_total (old ++ front) s later start 0 hs hc
  have e : 0 + totalMs (old ++ front) + s.durMs = totalMs old + totalMs (front ++ [s]) := by
    simp [totalMs_append, totalMs]; omega
  rw [e] at this
  rw [this]
  have : old ++ (front ++ [s]) = (old ++ front) ++ [s] := by simp [List.append_assoc]
  rw [this, endOf_append]
  simp [endOf]


/-! ### Histories of calls -/

/-- the invariant carried along a history: the header byte is `init`'s, and the buffer decodes -/
def Good (h : UInt8) (sc : Nat) (b : Builder) (start : Vec4) (segs : List SegSpec) : Prop :=
  Hdr h sc b ∧ BInv b start segs (endOf segs start)

theorem binv_end (b : Builder) (start : Vec4) (segs : List SegSpec) (e : Vec4) (h : BInv b start segs e) :
    e = endOf segs start := by
  obtain ⟨_, _, _, _, _, _, _, _, _, _, _, _, henc, _⟩ := h
  exact henc.end_eq

theorem good_of_binv (h : UInt8) (sc : Nat) (b : Builder) (start : Vec4) (segs : List SegSpec) (e : Vec4)
    (hh : Hdr h sc b) (hb : BInv b start segs e) : Good h sc b start segs := by
  refine ⟨hh, ?_⟩
  rw [← binv_end b start segs e hb]; exact hb

/-- a timed call or `set_start_position` (everything but the hand-over) -/
def Call.timed : Call → Bool
  | .finish => false
  | _ => true

/-- the milliseconds a call adds when it succeeds on `b` -/
def Call.adds (b : Builder) : Call → Nat
  | .appendLine t ms => match Builder.appendLine b t ms with | .ok _ => ms | .error _ => 0
  | .hold ms => match Builder.holdFor b ms with | .ok _ => ms | .error _ => 0
  | _ => 0

/-- the sum of the durations of the successful calls of a history -/
def askedMs : Builder → List Call → Nat
  | _, [] => 0
  | b, c :: cs => c.adds b + askedMs (applyCall b c) cs

/-- durations are 32-bit in the C interface -/
def Call.inRange : Call → Bool
  | .appendLine _ ms => decide (ms < 4294967296)
  | _ => true

/-- **one call** keeps the buffer decodable: the old segments stay, the new ones are straight, last what the call
asked for, and the start point changes only by a `set_start_position` on a builder without segments -/
theorem applyCall_good (h : UInt8) (sc : Nat) (b : Builder) (start : Vec4) (segs : List SegSpec) (c : Call)
    (hg : Good h sc b start segs) (hc : c.timed = true) (hr : c.inRange = true) :
    ∃ start' news, Good h sc (applyCall b c) start' (segs ++ news) ∧ totalMs news = c.adds b ∧
      (∀ s ∈ news, Lin s ∧ s.durMs ≤ 60000) ∧ (segs ≠ [] → start' = start) := by
  obtain ⟨hh, hb⟩ := hg
  have hh' := applyCall_hdr h sc b c hh
  cases c with
  | finish => simp [Call.timed] at hc
  | setStart p =>
    simp only [applyCall] at hh' ⊢
    cases hs : Builder.setStart b p with
    | error e =>
      simp only [hs] at hh' ⊢
      exact ⟨start, [], by simpa using good_of_binv h sc b start segs _ hh hb, by simp [totalMs, Call.adds], by simp, fun _ => rfl⟩
    | ok b' =>
      simp only [hs] at hh' ⊢
      -- a successful set-start means there are no segments yet
      have hnil : segs = [] := by
        obtain ⟨_, _, _, _, _, _, _, _, _, body, hbuf, _, henc, _⟩ := hb
        have hlen : b.buf.length = 9 := by
          by_contra hne
          have := setStart_after_segment b p hne
          rw [this] at hs; cases hs
        rw [hbuf] at hlen
        have : body = [] := by
          cases body with
          | nil => rfl
          | cons _ _ => simp at hlen
        subst this
        have hl := henc.length_le
        simp only [List.length_nil] at hl
        exact List.length_eq_zero_iff.mp (by omega)
      subst hnil
      obtain ⟨start', hb', _, _⟩ := setStart_inv b b' start _ p hb hs
      refine ⟨start', [], ?_, by simp [totalMs, Call.adds], by simp, fun hne => absurd rfl hne⟩
      simpa [endOf] using good_of_binv h sc b' start' [] start' hh' hb'
  | appendLine t ms =>
    simp only [applyCall] at hh' ⊢
    simp only [Call.inRange, decide_eq_true_eq] at hr
    cases hs : Builder.appendLine b t ms with
    | error e =>
      simp only [hs] at hh' ⊢
      exact ⟨start, [], by simpa using good_of_binv h sc b start segs _ hh hb, by simp [totalMs, Call.adds, hs], by simp, fun _ => rfl⟩
    | ok b' =>
      simp only [hs] at hh' ⊢
      obtain ⟨news, e', hb', htot, _, hl, _, _⟩ := appendLine_inv b b' start segs _ t ms hb hr hs
      exact ⟨start, news, good_of_binv h sc b' start _ e' hh' hb', by simp [Call.adds, hs, htot],
        fun s hs' => ⟨(hl s hs').1, (hl s hs').2.1⟩, fun _ => rfl⟩
  | hold ms =>
    simp only [applyCall] at hh' ⊢
    cases hs : Builder.holdFor b ms with
    | error e =>
      simp only [hs] at hh' ⊢
      exact ⟨start, [], by simpa using good_of_binv h sc b start segs _ hh hb, by simp [totalMs, Call.adds, hs], by simp, fun _ => rfl⟩
    | ok b' =>
      simp only [hs] at hh' ⊢
      obtain ⟨news, e', hb', htot, hl, _, _, _⟩ := holdFor_inv b b' start segs _ ms hb hs
      exact ⟨start, news, good_of_binv h sc b' start _ e' hh' hb', by simp [Call.adds, hs, htot],
        fun s hs' => ⟨(hl s hs').1, (hl s hs').2.1⟩, fun _ => rfl⟩

/-- **any history of calls** (without a hand-over in between) keeps the buffer decodable; the segments only grow,
they are straight, and together they last exactly the sum of the durations of the successful calls -/
theorem history_good (h : UInt8) (sc : Nat) : ∀ (calls : List Call) (b : Builder) (start : Vec4) (segs : List SegSpec),
    Good h sc b start segs → (∀ c ∈ calls, c.timed = true ∧ c.inRange = true) →
    ∃ start' news, Good h sc (calls.foldl applyCall b) start' (segs ++ news) ∧ totalMs news = askedMs b calls ∧
      (∀ s ∈ news, Lin s ∧ s.durMs ≤ 60000) ∧ (segs ≠ [] → start' = start) := by
  intro calls
  induction calls with
  | nil =>
    intro b start segs hg _
    exact ⟨start, [], by simpa using hg, by simp [totalMs, askedMs], by simp, fun _ => rfl⟩
  | cons c cs ih =>
    intro b start segs hg hall
    obtain ⟨hc, hr⟩ := hall c (by simp)
    obtain ⟨start1, news1, hg1, ht1, hl1, hs1⟩ := applyCall_good h sc b start segs c hg hc hr
    obtain ⟨start2, news2, hg2, ht2, hl2, hs2⟩ := ih (applyCall b c) start1 (segs ++ news1) hg1
      (fun c' hc' => hall c' (List.mem_cons_of_mem _ hc'))
    refine ⟨start2, news1 ++ news2, by simpa [List.append_assoc] using hg2, ?_, ?_, ?_⟩
    · rw [totalMs_append, ht1, ht2]; simp [askedMs]
    · intro s hs
      rcases List.mem_append.mp hs with hs | hs
      · exact hl1 s hs
      · exact hl2 s hs
    · intro hne
      rw [hs2 (by simp [hne]), hs1 hne]


/-! ### The statement of C16 for every history -/

theorem hdr_byte (sc fl : Nat) (h1 : 1 ≤ sc) (h2 : sc ≤ 127) :
    (UInt8.ofNat (if fl &&& 1 ≠ 0 then sc ||| 128 else sc)).toNat % 128 = sc := by
  rw [u8_toNat_ofNat]
  split
  · have h := Nat.two_pow_add_eq_or_of_lt (by omega : sc < 2 ^ 7) 1
    have e : sc ||| 128 = 128 + sc := by rw [Nat.or_comm]; simpa using h.symm
    rw [e]; omega
  · omega

/-- the fresh builder satisfies the history invariant -/
theorem init_good (sc fl : Nat) (b : Builder) (h : init sc fl = .ok b) :
    ∃ hb : UInt8, Good hb sc b ⟨0, 0, 0, 0⟩ [] ∧ hb.toNat % 128 = sc ∧ 1 ≤ sc ∧ sc ≤ 127 := by
  obtain ⟨hinv, _, h1, h2⟩ := init_inv sc fl b h
  have hb := hdr_byte sc fl h1 h2
  unfold init at h
  split at h
  · cases h
  · simp only [Except.ok.injEq] at h
    subst h
    refine ⟨_, ⟨⟨rfl, by simp, by simp [headerLength]⟩, by simpa [endOf] using hinv⟩, hb, h1, h2⟩

theorem good_segmentsOf (h : UInt8) (sc : Nat) (b : Builder) (start : Vec4) (segs : List SegSpec)
    (hg : Good h sc b start segs) (hh : h.toNat % 128 = sc) (h1 : 1 ≤ sc) (h2 : sc ≤ 127) :
    ∃ hdr, segmentsOf b.buf = some (hdr, segs) ∧ hdr.scale = sc ∧ hdr.start = start := by
  obtain ⟨⟨hs, ht, _⟩, hb⟩ := hg
  obtain ⟨hdr, h3, h4, h5, _⟩ := segmentsOf_of_inv b start segs _ hb (by omega) (by omega) (by
    intro x hx
    have : b.buf.head? = some h := by
      cases hbuf : b.buf with
      | nil => rw [hbuf] at ht; simp at ht
      | cons a as => rw [hbuf] at ht; simp at ht; simp [ht]
    rw [this] at hx
    cases hx
    rw [hs]; exact hh)
  exact ⟨hdr, h3, by rw [h4, hs], h5⟩

/-- **C16, the whole trajectory.**  After `init` and any history of `set_start_position` / `append_line` /
`hold_position_for` calls (failed calls included — they change nothing), the bytes handed over by `finish`, read with
the format specification, are a trajectory at the builder's scale that consists of straight segments of at most 60 s,
lasts exactly the sum of the durations of the successful calls, and ends within one quantum of the last point given
(yaw: the stored value of the yaw given). -/
theorem builder_roundtrip (sc fl : Nat) (b0 : Builder) (hi : init sc fl = .ok b0) (calls : List Call)
    (hall : ∀ c ∈ calls, c.timed = true ∧ c.inRange = true) :
    let b := calls.foldl applyCall b0
    ∃ hdr segs, segmentsOf (finish b).1 = some (hdr, segs) ∧ hdr.scale = sc ∧
      totalMs segs = askedMs b0 calls ∧ (∀ s ∈ segs, Lin s ∧ s.durMs ≤ 60000) ∧
      |(endOf segs hdr.start).x - b.last.x| ≤ sc ∧ |(endOf segs hdr.start).y - b.last.y| ≤ sc ∧
      |(endOf segs hdr.start).z - b.last.z| ≤ sc ∧ (endOf segs hdr.start).yaw = yawDec b.last.yaw := by
  intro b
  obtain ⟨hb, hg0, hh, h1, h2⟩ := init_good sc fl b0 hi
  obtain ⟨start, news, hg, htot, hlin, _⟩ := history_good hb sc calls b0 _ [] hg0 hall
  simp only [List.nil_append] at hg
  obtain ⟨hdr, hseg, hsc, hst⟩ := good_segmentsOf hb sc _ start news hg hh h1 h2
  have hscale : (calls.foldl applyCall b0).scale = sc := hg.1.1
  obtain ⟨q1, q2, q3, q4⟩ := rel_within_quantum _ _ (by rw [hscale]; omega) (by
    obtain ⟨_, _, _, _, _, _, _, _, _, _, _, _, _, hrel⟩ := hg.2
    exact hrel)
  rw [hscale] at q1 q2 q3
  exact ⟨hdr, news, hseg, hsc, htot, hlin, by rw [hst]; exact q1, by rw [hst]; exact q2, by rw [hst]; exact q3,
    by rw [hst]; exact q4⟩

/-- **C16, every call's point.**  If, somewhere in a history, an `append_line` to `t` lasting `ms ≥ 1` succeeds, then
in the finished trajectory — whatever calls follow — the curve at the cumulative time of that call is within one
quantum of `t` on every coordinate (yaw: the stored value of `t.yaw`). -/
theorem passes_through_appendLine (sc fl : Nat) (b0 : Builder) (hi : init sc fl = .ok b0)
    (pre post : List Call) (t : Vec4) (ms : Nat) (b2 : Builder)
    (hpre : ∀ c ∈ pre, c.timed = true ∧ c.inRange = true) (hpost : ∀ c ∈ post, c.timed = true ∧ c.inRange = true)
    (hms : 1 ≤ ms) (hms2 : ms < 4294967296) (hok : Builder.appendLine (pre.foldl applyCall b0) t ms = .ok b2) :
    let b := post.foldl applyCall b2
    let T := askedMs b0 pre + ms
    ∃ hdr segs, segmentsOf (finish b).1 = some (hdr, segs) ∧
      |(posAt segs hdr.start 0 ((T : Rat) / 1000)).x - t.x| ≤ sc ∧
      |(posAt segs hdr.start 0 ((T : Rat) / 1000)).y - t.y| ≤ sc ∧
      |(posAt segs hdr.start 0 ((T : Rat) / 1000)).z - t.z| ≤ sc ∧
      (posAt segs hdr.start 0 ((T : Rat) / 1000)).yaw = yawDec t.yaw := by
  intro b T
  obtain ⟨hb, hg0, hh, h1, h2⟩ := init_good sc fl b0 hi
  obtain ⟨start, segs1, hg1, htot1, _, _⟩ := history_good hb sc pre b0 _ [] hg0 hpre
  simp only [List.nil_append] at hg1
  obtain ⟨news, e', hb2, htotn, hne, hl, hlast, hsc2⟩ :=
    appendLine_inv _ b2 start segs1 _ t ms hg1.2 hms2 hok
  have hh2 : Hdr hb sc b2 := appendLine_hdr hb sc _ b2 t ms hg1.1 hok
  have hg2 : Good hb sc b2 start (segs1 ++ news) := good_of_binv hb sc b2 start _ e' hh2 hb2
  obtain ⟨start3, later, hg3, _, _, hst3⟩ := history_good hb sc post b2 start (segs1 ++ news) hg2 hpost
  have hst : start3 = start := hst3 (by simp [hne])
  subst hst
  obtain ⟨hdr, hseg, _, hstart⟩ := good_segmentsOf hb sc _ start3 _ hg3 hh h1 h2
  have hchain := chained_of_inv _ _ _ _ hg3.2
  have hpos := posAt_after_call start3 segs1 news later hne (fun s hs => (hl s hs).2.2 hms) hchain
  have hT : ((T : Nat) : Rat) = ((totalMs segs1 + totalMs news : Nat) : Rat) := by
    simp only [T, htot1, htotn]
  have hend : endOf (segs1 ++ news) start3 = e' := (binv_end b2 start3 _ e' hb2).symm
  have hscale : b2.scale = sc := hh2.1
  obtain ⟨_, _, _, _, _, _, _, _, _, _, _, _, _, hrel⟩ := hb2
  obtain ⟨q1, q2, q3, q4⟩ := rel_within_quantum b2 e' (by rw [hscale]; omega) hrel
  rw [hscale, hlast] at q1 q2 q3
  rw [hlast] at q4
  refine ⟨hdr, _, hseg, ?_, ?_, ?_, ?_⟩ <;> rw [hstart, hT, hpos, hend]
  · exact q1
  · exact q2
  · exact q3
  · exact q4


/-- … and the same for a hold: the curve at the end of a successful `hold_position_for` of `ms ≥ 1` is within one
quantum of the point the builder was holding -/
theorem passes_through_hold (sc fl : Nat) (b0 : Builder) (hi : init sc fl = .ok b0)
    (pre post : List Call) (ms : Nat) (b2 : Builder)
    (hpre : ∀ c ∈ pre, c.timed = true ∧ c.inRange = true) (hpost : ∀ c ∈ post, c.timed = true ∧ c.inRange = true)
    (hms : 1 ≤ ms) (hok : Builder.holdFor (pre.foldl applyCall b0) ms = .ok b2) :
    let b1 := pre.foldl applyCall b0
    let b := post.foldl applyCall b2
    let T := askedMs b0 pre + ms
    ∃ hdr segs, segmentsOf (finish b).1 = some (hdr, segs) ∧
      |(posAt segs hdr.start 0 ((T : Rat) / 1000)).x - b1.last.x| ≤ sc ∧
      |(posAt segs hdr.start 0 ((T : Rat) / 1000)).y - b1.last.y| ≤ sc ∧
      |(posAt segs hdr.start 0 ((T : Rat) / 1000)).z - b1.last.z| ≤ sc ∧
      (posAt segs hdr.start 0 ((T : Rat) / 1000)).yaw = yawDec b1.last.yaw := by
  intro b1 b T
  obtain ⟨hb, hg0, hh, h1, h2⟩ := init_good sc fl b0 hi
  obtain ⟨start, segs1, hg1, htot1, _, _⟩ := history_good hb sc pre b0 _ [] hg0 hpre
  simp only [List.nil_append] at hg1
  obtain ⟨news, e', hb2, htotn, hl, hlast, hsc2, _⟩ := holdFor_inv _ b2 start segs1 _ ms hg1.2 hok
  have hne : news ≠ [] := by
    intro hc; subst hc; simp [totalMs] at htotn; omega
  have hh2 : Hdr hb sc b2 := holdForAux_hdr hb sc _ _ b2 ms hg1.1 hok
  have hg2 : Good hb sc b2 start (segs1 ++ news) := good_of_binv hb sc b2 start _ e' hh2 hb2
  obtain ⟨start3, later, hg3, _, _, hst3⟩ := history_good hb sc post b2 start (segs1 ++ news) hg2 hpost
  have hst : start3 = start := hst3 (by simp [hne])
  subst hst
  obtain ⟨hdr, hseg, _, hstart⟩ := good_segmentsOf hb sc _ start3 _ hg3 hh h1 h2
  have hchain := chained_of_inv _ _ _ _ hg3.2
  have hpos := posAt_after_call start3 segs1 news later hne (fun s hs => (hl s hs).2.2) hchain
  have hT : ((T : Nat) : Rat) = ((totalMs segs1 + totalMs news : Nat) : Rat) := by
    simp only [T, htot1, htotn]
  have hend : endOf (segs1 ++ news) start3 = e' := (binv_end b2 start3 _ e' hb2).symm
  have hscale : b2.scale = sc := hh2.1
  obtain ⟨_, _, _, _, _, _, _, _, _, _, _, _, _, hrel⟩ := hb2
  obtain ⟨q1, q2, q3, q4⟩ := rel_within_quantum b2 e' (by rw [hscale]; omega) hrel
  rw [hscale, hlast] at q1 q2 q3
  rw [hlast] at q4
  refine ⟨hdr, _, hseg, ?_, ?_, ?_, ?_⟩ <;> rw [hstart, hT, hpos, hend]
  · exact q1
  · exact q2
  · exact q3
  · exact q4

/-! ### Non-vacuity -/

/-- scale 2, move to (20, 0.5, 10) in 1 s — 0.5 is not a multiple of the scale —, hold 90 s (split in two), move on -/
def demoCalls : List Call :=
  [.appendLine ⟨20, 1 / 2, 10, 90⟩ 1000, .hold 90000, .appendLine ⟨-7, 0, 3, 0⟩ 130000]

example : ∃ b0, init 2 1 = .ok b0 ∧ ∃ hdr segs, segmentsOf (finish (demoCalls.foldl applyCall b0)).1 = some (hdr, segs) ∧
    totalMs segs = askedMs b0 demoCalls := by
  refine ⟨_, rfl, ?_⟩
  obtain ⟨hdr, segs, h1, _, h3, _⟩ := builder_roundtrip 2 1 _ rfl demoCalls (by decide)
  exact ⟨hdr, segs, h1, h3⟩

/-- the three calls of `demoCalls` succeed on the fresh builder, so the sum asked for is 221 s (kernel-evaluated) -/
example : ∀ b0, init 2 1 = .ok b0 → askedMs b0 demoCalls = 221000 := by
  intro b0 h
  have : b0 = { buf := [130, 0, 0, 0, 0, 0, 0, 0, 0], last := ⟨0, 0, 0, 0⟩, scale := 2 } := by
    have h' : init 2 1 = .ok { buf := [130, 0, 0, 0, 0, 0, 0, 0, 0], last := ⟨0, 0, 0, 0⟩, scale := 2 } := by decide +kernel
    rw [h'] at h; cases h; rfl
  subst this
  decide +kernel

end Sb.C16
