/-
C09 — light-player answers do not depend on earlier seeks (the theorem).

For every light program, every finite history of seeks through one player (each with any step budget that let it
return) and every timestamp `t` that is not the start instant of a command of the running program: the colour, pyro
mask and ended flag answered after seeking to `t` are those a fresh player answers for `t`.

Hypothesis `FadesShort`: every fade lasts at most 2^24 ms (4 h 39 min); then the float32 progress of a fade is exact
and strictly below one inside the fade.  (Longer fades complete a few milliseconds early for a *fresh* player too; the
history argument would have to follow that rounding.)
The latitude at exact start instants (a repeated query may show a further prefix of the zero-duration commands
scheduled there) is what `NotInstant` excludes; the invariant `Inv` nevertheless covers such histories: after *any*
history the player is at a point of the fresh player's wake-up chain (`reachable_inv`).
-/
import Sb.Proofs.LightPlayer
import Sb.Properties.C09

namespace Sb.C09
open Sb Sb.Lights Sb.Proofs.Light

/-- a history of seeks through one player: (timestamp, step budget) pairs -/
def seekAll (p : Player) : List (Nat × Nat) → R Player
  | [] => .ok p
  | (t, fuel) :: rest =>
    match p.seek t fuel with
    | .ok q => seekAll q rest
    | .error e => .error e

/-- every fade of the running program lasts at most 2^24 ms -/
def FadesShort (prog : Bytes) : Prop :=
  ∀ k, liveUpTo prog (k + 1) → (chain prog k).exec.trActive = true → (chain prog k).exec.trDuration ≤ 16777216

/-- **every player reachable by seeks sits on the fresh player's wake-up chain** (up to the fields nobody reads),
or past the end of the program with the final colour and pyro mask -/
theorem reachable_inv (prog : Bytes) (short : FadesShort prog) :
    ∀ (hist : List (Nat × Nat)) (p q : Player), Inv prog p → seekAll p hist = .ok q → Inv prog q := by
  intro hist
  induction hist with
  | nil => intro p q hp h; cases h; exact hp
  | cons hd rest ih =>
    intro p q hp h
    obtain ⟨t, fuel⟩ := hd
    unfold seekAll at h
    cases hs : p.seek t fuel with
    | error e => rw [hs] at h; cases h
    | ok p' =>
      rw [hs] at h
      exact ih p' q (seek_inv prog short p p' t fuel hp hs).1 h

/-- **C09**: answers after any history equal the fresh player's answers -/
theorem answers_history_free (prog : Bytes) (short : FadesShort prog) (hist : List (Nat × Nat)) (t f1 f2 : Nat)
    (p r r0 : Player)
    (hp : seekAll (Player.fresh prog) hist = .ok p)
    (hr : p.seek t f1 = .ok r)
    (hr0 : (Player.fresh prog).seek t f2 = .ok r0)
    (hni : NotInstant prog t) :
    r.exec.color = r0.exec.color ∧ r.pyroChannels = r0.pyroChannels ∧ r.exec.ended = r0.exec.ended := by
  have ip := reachable_inv prog short hist _ _ (inv_fresh prog) hp
  obtain ⟨ir, cr⟩ := seek_inv prog short p r t f1 ip hr
  obtain ⟨ir0, cr0⟩ := seek_inv prog short _ r0 t f2 (inv_fresh prog) hr0
  have := inv_unique prog r r0 t ir ir0 cr cr0 hni
  unfold obs3 at this
  simp only [Prod.mk.injEq] at this
  refine ⟨this.1, ?_, this.2.2⟩
  unfold Player.pyroChannels
  rw [this.2.1]

/-- the step budget does not matter: two budgets that both let the seek return give the same answers -/
theorem budget_irrelevant (prog : Bytes) (short : FadesShort prog) (hist : List (Nat × Nat)) (t f1 f2 : Nat) (p r r' : Player)
    (hp : seekAll (Player.fresh prog) hist = .ok p) (hr : p.seek t f1 = .ok r) (hr' : p.seek t f2 = .ok r')
    (hni : NotInstant prog t) :
    r.exec.color = r'.exec.color ∧ r.exec.pyro = r'.exec.pyro ∧ r.exec.ended = r'.exec.ended := by
  have ip := reachable_inv prog short hist _ _ (inv_fresh prog) hp
  obtain ⟨ir, cr⟩ := seek_inv prog short p r t f1 ip hr
  obtain ⟨ir', cr'⟩ := seek_inv prog short p r' t f2 ip hr'
  have := inv_unique prog r r' t ir ir' cr cr' hni
  unfold obs3 at this
  simpa only [Prod.mk.injEq] using this

/-- while the program runs, the next-event time a seek returns is not earlier than the timestamp, and no command of the
running program starts strictly between the two (C02's clause on the next event, for every history) -/
theorem next_event_sound (prog : Bytes) (short : FadesShort prog) (hist : List (Nat × Nat)) (t f : Nat) (p r : Player)
    (hp : seekAll (Player.fresh prog) hist = .ok p) (hr : p.seek t f = .ok r) (hrun : r.exec.ended = false) :
    t ≤ r.next ∧ ∀ j, liveUpTo prog j → ¬ (t < (chain prog j).next ∧ (chain prog j).next < r.next) := by
  have ip := reachable_inv prog short hist _ _ (inv_fresh prog) hp
  obtain ⟨ir, cr⟩ := seek_inv prog short p r t f ip hr
  rcases ir with ⟨hc, hn, hrs⟩ | ⟨k, hk, hl, hs, hn, hc1, hc2, _⟩ | ⟨m, _, _, _, hd, _⟩
  · -- a seek always makes at least one step: the initial state is not a seek result
    exfalso
    rw [seek_eq] at hr
    cases hl : seekLoop t f (if t < p.current then { exec := rewindExec p.exec, current := 0, next := 0 } else p) with
    | error e => rw [hl] at hr; cases hr
    | ok q =>
      rw [hl] at hr
      have : r = finish q t := by simp only [Except.map] at hr; cases hr; rfl
      subst this
      have hf : (finish q t).exec.resetFlag = true := hrs.ra
      have hres : (step q.exec t).resetFlag = false := by
        rw [step_eq]
        have h1 : (stepReset q.exec t).resetFlag = false := by
          unfold stepReset; split <;> simp_all [setColorAndResetTransition, setClockOrigin]
        split
        · exact h1
        · obtain ⟨f1', _, f3'⟩ := stepFade_frame (stepReset q.exec t) t
          unfold stepWake
          split
          · by_cases he : (stepFade (stepReset q.exec t) t).ended = false
            · have P := execCommand_post { stepFade (stepReset q.exec t) t with cmdStart := t } (by simpa using he)
              rw [P.resetFlag]; simpa using f1'.trans h1
            · have he' : (stepFade (stepReset q.exec t) t).ended = true := by simpa using he
              unfold execCommand
              simp only [he', if_true]
              exact f1'.trans h1
          · exact f1'.trans h1
      rw [show (finish q t).exec = step q.exec t from rfl, hres] at hf
      exact absurd hf (by decide)
  · rw [cr] at hc1 hc2
    refine ⟨by rw [hn]; exact hc2, ?_⟩
    intro j hlj ⟨h1, h2⟩
    rw [hn] at h2
    rcases Nat.lt_trichotomy j k with hlt | heq | hgt
    · have := chain_next_le_current prog j k hlt (hl.mono (by omega)); omega
    · subst heq; omega
    · have h3 := chain_next_le_current prog k j hgt hlj
      have G := chain_good prog j (by omega) hlj
      have h4 := G.t.le
      rw [← G.next_eq] at h4
      omega
  · rw [hd.ended] at hrun
    exact absurd hrun (by decide)

/-! ### non-vacuity: a program with a fade, a history with back-jumps, a timestamp inside the fade -/

/-- fade to red over 1 s, then blue for 1 s -/
def sample : Bytes := [8, 255, 0, 0, 50, 4, 0, 0, 255, 50]

theorem sample_chain :
    (chain sample 1).next = 1000 ∧ (chain sample 2).next = 2000 ∧ (chain sample 3).exec.ended = true ∧
    (chain sample 1).exec.trDuration = 1000 ∧ (chain sample 2).exec.trActive = false := by decide +kernel

theorem sample_not_live (k : Nat) (hk : 3 ≤ k) : ¬ liveUpTo sample (k + 1) := by
  intro h
  have := h 3 (by omega) (by omega)
  rw [sample_chain.2.2.1] at this
  exact absurd this (by decide)

theorem sample_short : FadesShort sample := by
  intro k hl ha
  by_cases hk : 3 ≤ k
  · exact absurd hl (sample_not_live k hk)
  · have : k = 0 ∨ k = 1 ∨ k = 2 := by omega
    rcases this with rfl | rfl | rfl
    · have : (chain sample 0).exec.trActive = false := by decide +kernel
      rw [this] at ha; exact absurd ha (by decide)
    · rw [sample_chain.2.2.2.1]; decide
    · rw [sample_chain.2.2.2.2] at ha; exact absurd ha (by decide)

theorem sample_not_instant_400 : NotInstant sample 400 := by
  intro k hl
  by_cases hk : 3 ≤ k
  · exact absurd hl (sample_not_live k hk)
  · have : k = 0 ∨ k = 1 ∨ k = 2 := by omega
    rcases this with rfl | rfl | rfl
    · rw [chain0_next]; decide
    · rw [sample_chain.1]; decide
    · rw [sample_chain.2.1]; decide

def colourAfter (hist : List (Nat × Nat)) (t : Nat) : Option Color :=
  match seekAll (Player.fresh sample) hist with
  | .ok p =>
    match p.seek t 100 with
    | .ok r => some r.exec.color
    | .error _ => none
  | .error _ => none

/-- the hypotheses of `answers_history_free` are met by a concrete history with back-jumps (every seek returns), and the
answer inside the fade is the interpolated colour -/
example : colourAfter [(700, 100), (200, 100), (1500, 100), (1000, 100), (300, 100)] 400 = some (102, 0, 0) ∧
    colourAfter [] 400 = some (102, 0, 0) := by decide +kernel

end Sb.C09
