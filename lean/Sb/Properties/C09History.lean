/-
C09 — light-player answers do not depend on earlier seeks (the theorem).

For every light program, every finite history of seeks through one player (each with any step budget that let it
return) and every timestamp `t` that is not the start instant of a command of the running program: the colour, pyro
mask and ended flag answered after seeking to `t` are those a fresh player answers for `t`.

Hypothesis `FadesShort`: every fade lasts at most 2^24 ms (4 h 39 min); then the float32 progress of a fade is exact
and strictly below one inside the fade.  (Longer fades complete a few milliseconds early for a *fresh* player too; the
history argument would have to follow that rounding.)
The latitude at exact start instants (a repeated query may show a further prefix of the zero-duration commands
scheduled there) is what `NotInstant` excludes; the invariant `Inv` nevertheless covers such histories: after *any*
history the player is at a point of the fresh player's wake-up chain (`reachable_inv`).
-/
import Sb.Proofs.LightLatitude
import Sb.Properties.C09

namespace Sb.C09
open Sb Sb.Lights Sb.Proofs.Light

/-- a history of seeks through one player: (timestamp, step budget) pairs -/
def seekAll (p : Player) : List (Nat × Nat) → R Player
  | [] => .ok p
  | (t, fuel) :: rest =>
    match p.seek t fuel with
    | .ok q => seekAll q rest
    | .error e => .error e

/-- every fade of the running program lasts at most 2^24 ms -/
def FadesShort (prog : Bytes) : Prop :=
  ∀ k, liveUpTo prog (k + 1) → (chain prog k).exec.trActive = true → (chain prog k).exec.trDuration ≤ 16777216

/-- the same, asked only of the chain points that start by the horizon `H` -/
def FadesShortUpTo (prog : Bytes) (H : Nat) : Prop :=
  ∀ k, liveUpTo prog (k + 1) → (chain prog k).current ≤ H → (chain prog k).exec.trActive = true →
    (chain prog k).exec.trDuration ≤ 16777216

theorem FadesShort.upTo {prog : Bytes} (h : FadesShort prog) (H : Nat) : FadesShortUpTo prog H :=
  fun k hl _ ha => h k hl ha

/-- the largest timestamp of a history -/
def histMax (hist : List (Nat × Nat)) : Nat := hist.foldr (fun x m => max x.1 m) 0

theorem le_histMax (hist : List (Nat × Nat)) : ∀ x ∈ hist, x.1 ≤ histMax hist := by
  induction hist with
  | nil => intro x hx; cases hx
  | cons y ys ih =>
    intro x hx
    unfold histMax
    simp only [List.foldr_cons]
    rcases List.mem_cons.mp hx with rfl | h
    · exact Nat.le_max_left _ _
    · exact le_trans (ih x h) (Nat.le_max_right _ _)

/-- the invariant along a history whose timestamps stay below a horizon `H`; the fade hypothesis is needed up to `H` only -/
theorem reachable_inv_upTo (prog : Bytes) (H : Nat) (short : FadesShortUpTo prog H) :
    ∀ (hist : List (Nat × Nat)) (p q : Player), (∀ x ∈ hist, x.1 ≤ H) → Inv prog p → seekAll p hist = .ok q → Inv prog q := by
  intro hist
  induction hist with
  | nil => intro p q _ hp h; cases h; exact hp
  | cons hd rest ih =>
    intro p q hH hp h
    obtain ⟨t, fuel⟩ := hd
    unfold seekAll at h
    cases hs : p.seek t fuel with
    | error e => rw [hs] at h; cases h
    | ok p' =>
      rw [hs] at h
      exact ih p' q (fun x hx => hH x (List.mem_cons_of_mem _ hx))
        (seek_inv prog H short p p' t fuel (hH (t, fuel) List.mem_cons_self) hp hs).1 h

/-- **every player reachable by seeks sits on the fresh player's wake-up chain** (up to the fields nobody reads),
or past the end of the program with the final colour and pyro mask -/
theorem reachable_inv (prog : Bytes) (short : FadesShort prog) :
    ∀ (hist : List (Nat × Nat)) (p q : Player), Inv prog p → seekAll p hist = .ok q → Inv prog q :=
  fun hist p q hp h => reachable_inv_upTo prog (histMax hist) (short.upTo _) hist p q (le_histMax hist) hp h

/-- **C09**: answers after any history equal the fresh player's answers -/
theorem answers_history_free (prog : Bytes) (short : FadesShort prog) (hist : List (Nat × Nat)) (t f1 f2 : Nat)
    (p r r0 : Player)
    (hp : seekAll (Player.fresh prog) hist = .ok p)
    (hr : p.seek t f1 = .ok r)
    (hr0 : (Player.fresh prog).seek t f2 = .ok r0)
    (hni : NotInstant prog t) :
    r.exec.color = r0.exec.color ∧ r.pyroChannels = r0.pyroChannels ∧ r.exec.ended = r0.exec.ended := by
  have ip := reachable_inv prog short hist _ _ (inv_fresh prog) hp
  obtain ⟨ir, cr⟩ := seek_inv prog t (short.upTo t) p r t f1 (Nat.le_refl t) ip hr
  obtain ⟨ir0, cr0⟩ := seek_inv prog t (short.upTo t) _ r0 t f2 (Nat.le_refl t) (inv_fresh prog) hr0
  have := inv_unique prog t r r0 t (Nat.le_refl t) ir ir0 cr cr0 (hni.upTo t)
  unfold obs3 at this
  simp only [Prod.mk.injEq] at this
  refine ⟨this.1, ?_, this.2.2⟩
  unfold Player.pyroChannels
  rw [this.2.1]

/-- **C09 with its latitude, for EVERY timestamp**: after any history the player shows a point `k` of the fresh player's
wake-up chain, the fresh player shows a point `k0 ≤ k`, and every chain step between the two is a command of the running
program that starts exactly at `t` — "a repeated query may reflect a further prefix of the zero-duration commands
scheduled at that same instant", and nothing else ever differs -/
theorem answers_up_to_latitude (prog : Bytes) (short : FadesShort prog) (hist : List (Nat × Nat)) (t f1 f2 : Nat)
    (p r r0 : Player)
    (hp : seekAll (Player.fresh prog) hist = .ok p)
    (hr : p.seek t f1 = .ok r)
    (hr0 : (Player.fresh prog).seek t f2 = .ok r0) :
    ∃ k0 k, k0 ≤ k ∧ obs3 r0.exec = view prog k0 t ∧ obs3 r.exec = view prog k t ∧
      ∀ j, k0 ≤ j → j < k → (chain prog j).next = t ∧ (chain prog j).exec.ended = false := by
  have ip := reachable_inv prog short hist _ _ (inv_fresh prog) hp
  obtain ⟨ir, _⟩ := seek_inv prog t (short.upTo t) p r t f1 (Nat.le_refl t) ip hr
  obtain ⟨rr, rc⟩ := seek_reset p r t f1 hr
  obtain ⟨_, rc0⟩ := seek_reset _ r0 t f2 hr0
  obtain ⟨k, hk⟩ := at_of_inv prog r ir rr
  obtain ⟨k0, hk0, hmin⟩ := fresh_least prog t (short.upTo t) t f2 (Nat.le_refl t) r0 hr0
  have hle := hmin r k hk rc
  refine ⟨k0, k, hle, ?_, ?_, at_between prog r0 r t k0 k hk0 hk rc0 rc hle⟩
  · rw [hk0.obs, rc0]
  · rw [hk.obs, rc]

/-- the same for two arbitrary histories: the two answers are two chain points, and only commands that start at `t` lie
between them -/
theorem answers_latitude_two_histories (prog : Bytes) (short : FadesShort prog) (h1 h2 : List (Nat × Nat)) (t f1 f2 : Nat)
    (p1 p2 r1 r2 : Player)
    (hp1 : seekAll (Player.fresh prog) h1 = .ok p1) (hp2 : seekAll (Player.fresh prog) h2 = .ok p2)
    (hr1 : p1.seek t f1 = .ok r1) (hr2 : p2.seek t f2 = .ok r2) :
    ∃ k1 k2, obs3 r1.exec = view prog k1 t ∧ obs3 r2.exec = view prog k2 t ∧
      ∀ j, min k1 k2 ≤ j → j < max k1 k2 → (chain prog j).next = t ∧ (chain prog j).exec.ended = false := by
  have i1 := reachable_inv prog short h1 _ _ (inv_fresh prog) hp1
  have i2 := reachable_inv prog short h2 _ _ (inv_fresh prog) hp2
  obtain ⟨ir1, _⟩ := seek_inv prog t (short.upTo t) p1 r1 t f1 (Nat.le_refl t) i1 hr1
  obtain ⟨ir2, _⟩ := seek_inv prog t (short.upTo t) p2 r2 t f2 (Nat.le_refl t) i2 hr2
  obtain ⟨rr1, rc1⟩ := seek_reset p1 r1 t f1 hr1
  obtain ⟨rr2, rc2⟩ := seek_reset p2 r2 t f2 hr2
  obtain ⟨k1, a1⟩ := at_of_inv prog r1 ir1 rr1
  obtain ⟨k2, a2⟩ := at_of_inv prog r2 ir2 rr2
  refine ⟨k1, k2, by rw [a1.obs, rc1], by rw [a2.obs, rc2], ?_⟩
  rcases Nat.le_total k1 k2 with hle | hle
  · rw [Nat.min_eq_left hle, Nat.max_eq_right hle]
    exact at_between prog r1 r2 t k1 k2 a1 a2 rc1 rc2 hle
  · rw [Nat.min_eq_right hle, Nat.max_eq_left hle]
    exact at_between prog r2 r1 t k2 k1 a2 a1 rc2 rc1 hle

/-- at the exact start instant of a command a fresh player shows the state after the first command scheduled there -/
theorem fresh_shows_first_command (prog : Bytes) (t fuel : Nat) (r0 : Player) (h : (Player.fresh prog).seek t fuel = .ok r0)
    (j0 : Nat) (hmin : ∀ i, i < j0 → (chain prog i).next < t) (hinst : (chain prog j0).next = t) :
    r0.exec = (chain prog (j0 + 1)).exec := fresh_at_instant prog t fuel r0 h j0 hmin hinst

/-- the step budget does not matter: two budgets that both let the seek return give the same answers -/
theorem budget_irrelevant (prog : Bytes) (short : FadesShort prog) (hist : List (Nat × Nat)) (t f1 f2 : Nat) (p r r' : Player)
    (hp : seekAll (Player.fresh prog) hist = .ok p) (hr : p.seek t f1 = .ok r) (hr' : p.seek t f2 = .ok r')
    (hni : NotInstant prog t) :
    r.exec.color = r'.exec.color ∧ r.exec.pyro = r'.exec.pyro ∧ r.exec.ended = r'.exec.ended := by
  have ip := reachable_inv prog short hist _ _ (inv_fresh prog) hp
  obtain ⟨ir, cr⟩ := seek_inv prog t (short.upTo t) p r t f1 (Nat.le_refl t) ip hr
  obtain ⟨ir', cr'⟩ := seek_inv prog t (short.upTo t) p r' t f2 (Nat.le_refl t) ip hr'
  have := inv_unique prog t r r' t (Nat.le_refl t) ir ir' cr cr' (hni.upTo t)
  unfold obs3 at this
  simpa only [Prod.mk.injEq] using this

/-- while the program runs, the next-event time a seek returns is not earlier than the timestamp, and no command of the
running program starts strictly between the two (C02's clause on the next event, for every history) -/
theorem next_event_sound (prog : Bytes) (short : FadesShort prog) (hist : List (Nat × Nat)) (t f : Nat) (p r : Player)
    (hp : seekAll (Player.fresh prog) hist = .ok p) (hr : p.seek t f = .ok r) (hrun : r.exec.ended = false) :
    t ≤ r.next ∧ ∀ j, liveUpTo prog j → ¬ (t < (chain prog j).next ∧ (chain prog j).next < r.next) := by
  have ip := reachable_inv prog short hist _ _ (inv_fresh prog) hp
  obtain ⟨ir, cr⟩ := seek_inv prog t (short.upTo t) p r t f (Nat.le_refl t) ip hr
  rcases ir with ⟨hc, hn, hrs⟩ | ⟨k, hk, hl, hs, hn, hc1, hc2, _, _⟩ | ⟨m, _, _, _, hd, _⟩
  · -- a seek always makes at least one step: the initial state is not a seek result
    exfalso
    rw [seek_eq] at hr
    cases hl : seekLoop t f (if t < p.current then { exec := rewindExec p.exec, current := 0, next := 0 } else p) with
    | error e => rw [hl] at hr; cases hr
    | ok q =>
      rw [hl] at hr
      have : r = finish q t := by simp only [Except.map] at hr; cases hr; rfl
      subst this
      have hf : (finish q t).exec.resetFlag = true := hrs.ra
      have hres : (step q.exec t).resetFlag = false := by
        rw [step_eq]
        have h1 : (stepReset q.exec t).resetFlag = false := by
          unfold stepReset; split <;> simp_all [setColorAndResetTransition, setClockOrigin]
        split
        · exact h1
        · obtain ⟨f1', _, f3'⟩ := stepFade_frame (stepReset q.exec t) t
          unfold stepWake
          split
          · by_cases he : (stepFade (stepReset q.exec t) t).ended = false
            · have P := execCommand_post { stepFade (stepReset q.exec t) t with cmdStart := t } (by simpa using he)
              rw [P.resetFlag]; simpa using f1'.trans h1
            · have he' : (stepFade (stepReset q.exec t) t).ended = true := by simpa using he
              unfold execCommand
              simp only [he', if_true]
              exact f1'.trans h1
          · exact f1'.trans h1
      rw [show (finish q t).exec = step q.exec t from rfl, hres] at hf
      exact absurd hf (by decide)
  · rw [cr] at hc1 hc2
    refine ⟨by rw [hn]; exact hc2, ?_⟩
    intro j hlj ⟨h1, h2⟩
    rw [hn] at h2
    rcases Nat.lt_trichotomy j k with hlt | heq | hgt
    · have := chain_next_le_current prog j k hlt (hl.mono (by omega)); omega
    · subst heq; omega
    · have h3 := chain_next_le_current prog k j hgt hlj
      have G := chain_good prog j (by omega) hlj
      have h4 := G.t.le
      rw [← G.next_eq] at h4
      omega
  · rw [hd.ended] at hrun
    exact absurd hrun (by decide)

/-! ### non-vacuity: a program with a fade, a history with back-jumps, a timestamp inside the fade -/

/-- fade to red over 1 s, then blue for 1 s -/
def sample : Bytes := [8, 255, 0, 0, 50, 4, 0, 0, 255, 50]

theorem sample_chain :
    (chain sample 1).next = 1000 ∧ (chain sample 2).next = 2000 ∧ (chain sample 3).exec.ended = true ∧
    (chain sample 1).exec.trDuration = 1000 ∧ (chain sample 2).exec.trActive = false := by decide +kernel

theorem sample_not_live (k : Nat) (hk : 3 ≤ k) : ¬ liveUpTo sample (k + 1) := by
  intro h
  have := h 3 (by omega) (by omega)
  rw [sample_chain.2.2.1] at this
  exact absurd this (by decide)

theorem sample_short : FadesShort sample := by
  intro k hl ha
  by_cases hk : 3 ≤ k
  · exact absurd hl (sample_not_live k hk)
  · have : k = 0 ∨ k = 1 ∨ k = 2 := by omega
    rcases this with rfl | rfl | rfl
    · have : (chain sample 0).exec.trActive = false := by decide +kernel
      rw [this] at ha; exact absurd ha (by decide)
    · rw [sample_chain.2.2.2.1]; decide
    · rw [sample_chain.2.2.2.2] at ha; exact absurd ha (by decide)

theorem sample_not_instant_400 : NotInstant sample 400 := by
  intro k hl
  by_cases hk : 3 ≤ k
  · exact absurd hl (sample_not_live k hk)
  · have : k = 0 ∨ k = 1 ∨ k = 2 := by omega
    rcases this with rfl | rfl | rfl
    · rw [chain0_next]; decide
    · rw [sample_chain.1]; decide
    · rw [sample_chain.2.1]; decide

def colourAfter (hist : List (Nat × Nat)) (t : Nat) : Option Color :=
  match seekAll (Player.fresh sample) hist with
  | .ok p =>
    match p.seek t 100 with
    | .ok r => some r.exec.color
    | .error _ => none
  | .error _ => none

/-- the hypotheses of `answers_history_free` are met by a concrete history with back-jumps (every seek returns), and the
answer inside the fade is the interpolated colour -/
example : colourAfter [(700, 100), (200, 100), (1500, 100), (1000, 100), (300, 100)] 400 = some (102, 0, 0) ∧
    colourAfter [] 400 = some (102, 0, 0) := by decide +kernel

/-- red for 1 s; then at the instant 1000 ms: pyro channel 0 on, a no-op, blue for 1 s -/
def sampleInstant : Bytes := [4, 255, 0, 0, 50, 20, 0x81, 1, 4, 0, 0, 255, 50]

def obsAfter (prog : Bytes) (hist : List (Nat × Nat)) (t : Nat) : Option (Color × Nat) :=
  match seekAll (Player.fresh prog) hist with
  | .ok p =>
    match p.seek t 100 with
    | .ok r => some (r.exec.color, r.exec.pyro)
    | .error _ => none
  | .error _ => none

/-- the latitude is real: at the start instant 1000 ms a fresh player shows the first command scheduled there (pyro on,
still red), a player that was asked the same instant before shows a further prefix (the no-op, then blue) -/
example : obsAfter sampleInstant [] 1000 = some ((255, 0, 0), 1) ∧
    obsAfter sampleInstant [(1000, 100)] 1000 = some ((255, 0, 0), 1) ∧
    obsAfter sampleInstant [(1000, 100), (1000, 100)] 1000 = some ((0, 0, 255), 1) ∧
    obsAfter sampleInstant [(1000, 100), (1000, 100), (300, 100)] 1000 = some ((255, 0, 0), 1) := by decide +kernel

end Sb.C09
