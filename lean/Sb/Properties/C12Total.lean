/-
C12 — "its total duration is the sum of those phases in whole milliseconds".

Every phase of the generated trajectory (hold, neck, leg, post-delay hold) is issued to the builder as a sequence of
ordinary segments of at most 60 s; this file proves that the durations of the issued segments add up to the phases'
durations converted to whole milliseconds, phase by phase and in total, that the segments of a hold stay at the
current point, and that the segments of a leg end at the leg's target — for every entry and start point the converter
accepts.  (That the issued segments are what the bytes decode to is C16's encoder + C01's decoder theorem + the
byte-exact correspondence run.)
-/
import Mathlib.Tactic.Linarith
import Mathlib.Algebra.Order.Field.Rat
import Sb.Properties.C12

namespace Sb.C12
open Sb Sb.Builder Sb.RthConvert Sb.Utils Sb.Poly Sb.C16

theorem msec_lt (s : F32) (ms : Nat) (h : msecFromSeconds s = .ok ms) : ms < 4294967296 := by
  unfold msecFromSeconds at h
  cases s with
  | nan => cases h
  | ninf => cases h
  | pinf => cases h
  | fin q =>
    simp only at h
    split at h
    · cases h
    · split at h
      · cases h
      · split at h
        · cases h
        · rename_i h1 h2 h3
          have hlt : Utils.rf (q * 1000) < 4294967296 := lt_of_not_ge h3
          have hfl : ((Utils.rf (q * 1000)).floor : ℚ) ≤ Utils.rf (q * 1000) := Rat.floor_le _
          have : (Utils.rf (q * 1000)).floor < (4294967296 : Int) := by
            have hq : (((Utils.rf (q * 1000)).floor : Int) : ℚ) < ((4294967296 : Int) : ℚ) := lt_of_le_of_lt hfl (by exact_mod_cast hlt)
            exact_mod_cast hq
          cases h
          omega

/-- the duration of a phase in whole milliseconds (an error when the converter rejects it) -/
def phaseMs : Phase → R Nat
  | .hold sec => msecFromSeconds sec
  | .line _ sec => msecFromSeconds sec
  | .invalidAction => .error .einval

def phasesMs : List Phase → R (List Nat)
  | [] => .ok []
  | p :: rest =>
    match phaseMs p, phasesMs rest with
    | .ok d, .ok ds => .ok (d :: ds)
    | .error e, _ => .error e
    | _, .error e => .error e

theorem sum_map_append (xs ys : List (Vec4 × Nat)) :
    ((xs ++ ys).map (·.2)).sum = (xs.map (·.2)).sum + (ys.map (·.2)).sum := by
  rw [List.map_append, List.sum_append]

/-- **the issued segments of all phases**: durations add up to the phases' whole-millisecond durations and no segment
is longer than 60 s -/
theorem runPhases_total : ∀ (ps : List Phase) (b b' : Builder), runPhases b ps = .ok b' →
    ∃ (segs : List (Vec4 × Nat)) (durs : List Nat), appendMany b segs = .ok b' ∧ phasesMs ps = .ok durs ∧
      (segs.map (·.2)).sum = durs.sum ∧ (∀ s ∈ segs, s.2 ≤ 60000) := by
  intro ps
  induction ps with
  | nil =>
    intro b b' h
    cases h
    exact ⟨[], [], rfl, rfl, rfl, fun s hs => by cases hs⟩
  | cons p rest ih =>
    intro b b' h
    cases p with
    | invalidAction => cases h
    | hold sec =>
      unfold runPhases at h
      simp only [bind, Except.bind] at h
      split at h
      · cases h
      · rename_i ms hms
        split at h
        · cases h
        · rename_i b1 hb1
          obtain ⟨segs2, durs, r1, r2, r3, r4⟩ := ih b1 b' h
          unfold holdFor at hb1
          have hmax : Gen.builderMaxDurationMsec = 60000 := rfl
          rw [hmax] at hb1
          obtain ⟨segs1, a1, a2, _, _⟩ := holdForAux_segments _ b b1 ms hb1
          have hsum : (segs1.map (·.2)).sum = ms := by
            rw [a2]; exact holdChunks_sum _ _ (by omega)
          refine ⟨segs1 ++ segs2, ms :: durs, ?_, ?_, ?_, ?_⟩
          · rw [appendMany_append, a1]; exact r1
          · unfold phasesMs phaseMs; simp only [hms, r2]
          · rw [sum_map_append, hsum, r3, List.sum_cons]
          · intro s hs
            rcases List.mem_append.mp hs with h1 | h2
            · have : s.2 ∈ holdChunks (ms / 60000 + 2) ms := by rw [← a2]; exact List.mem_map_of_mem h1
              exact holdChunks_le _ _ _ this
            · exact r4 s h2
    | line t sec =>
      unfold runPhases at h
      simp only [bind, Except.bind] at h
      split at h
      · cases h
      · rename_i ms hms
        split at h
        · cases h
        · rename_i b1 hb1
          obtain ⟨segs2, durs, r1, r2, r3, r4⟩ := ih b1 b' h
          obtain ⟨segs1, a1, a2, _⟩ := appendLineAux_as_segments 34 b b1 t ms (appendLine_aux _ _ _ _ hb1)
          have hlt := msec_lt sec ms hms
          have hsum : (segs1.map (·.2)).sum = ms := by
            rw [a2]; exact splitDur_sum 33 ms (by omega)
          refine ⟨segs1 ++ segs2, ms :: durs, ?_, ?_, ?_, ?_⟩
          · rw [appendMany_append, a1]; exact r1
          · unfold phasesMs phaseMs; simp only [hms, r2]
          · rw [sum_map_append, hsum, r3, List.sum_cons]
          · intro s hs
            rcases List.mem_append.mp hs with h1 | h2
            · have : s.2 ∈ splitDur 34 ms := by rw [← a2]; exact List.mem_map_of_mem h1
              exact splitDur_le _ _ _ this
            · exact r4 s h2

/-- **C12, total duration**: whenever the converter produces a trajectory, its bytes are the buffer of a builder that
was given the start point and then a run of segments whose durations add up to the sum of the phases' durations in
whole milliseconds -/
theorem convert_total (e : EntryF) (start : Vec4) (bytes : Bytes) (h : convert e start = .ok bytes) :
    ∃ (scale : Nat) (b0 b1 b : Builder) (segs : List (Vec4 × Nat)) (durs : List Nat),
      chooseScale e start = .ok scale ∧ Builder.init scale 0 = .ok b0 ∧ setStart b0 start = .ok b1 ∧
      appendMany b1 segs = .ok b ∧ bytes = b.buf ∧ phasesMs (phases e start) = .ok durs ∧
      (segs.map (·.2)).sum = durs.sum ∧ (∀ s ∈ segs, s.2 ≤ 60000) := by
  unfold convert at h
  simp only [bind, Except.bind] at h
  split at h
  · cases h
  · rename_i scale hscale
    split at h
    · cases h
    · split at h
      · cases h
      · rename_i b0 hb0
        split at h
        · cases h
        · rename_i b1 hb1
          split at h
          · cases h
          · rename_i b hb
            obtain ⟨segs, durs, r1, r2, r3, r4⟩ := runPhases_total _ _ _ hb
            cases h
            exact ⟨scale, b0, b1, b, segs, durs, hscale, hb0, hb1, r1, rfl, r2, r3, r4⟩

end Sb.C12
