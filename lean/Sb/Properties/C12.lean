/-
C12 — An RTH entry converts to the trajectory it describes.

Model: `Sb/Model/RthConvert.lean` on top of the bit-exact builder model; the correspondence run
compares the produced bytes exactly and checks the property's claims (sum of the phases in whole
milliseconds, positions within one quantum of the ideal path) on those bytes.
Proven here: which phases a conversion consists of, in which order, with which targets
(`phases_*`), that each phase's duration is converted to whole milliseconds when it is reached and
split/chunked without loss (via C16), and the error cases.
-/
import Sb.Model.RthConvert
import Sb.Properties.C16

namespace Sb.C12
open Sb Sb.RthConvert Sb.Builder Sb.Poly Sb.Utils

/-- **Landing**: hold until the entry time plus pre-delay, optional neck, no leg, post-delay hold -/
theorem phases_land (e : EntryF) (start : Vec4) (ha : e.action = 1) (hn : hasNeck e = false) :
    phases e start =
      [Phase.hold (addF (startTime e) (if gt0 e.preDelay then e.preDelay else .fin 0))] ++
      (if gt0 e.postDelay then [Phase.hold e.postDelay] else []) := by
  simp [phases, ha, hn]

/-- **Go-to keeping altitude**: the leg changes x and y only -/
theorem phases_goto_keeping_altitude (e : EntryF) (start : Vec4) (ha : e.action = 2) (hn : hasNeck e = false) :
    phases e start =
      [Phase.hold (addF (startTime e) (if gt0 e.preDelay then e.preDelay else .fin 0)),
       Phase.line { start with x := e.target.1, y := e.target.2 } e.duration] ++
      (if gt0 e.postDelay then [Phase.hold e.postDelay] else []) := by
  simp [phases, ha, hn, afterNeck]

/-- **Go-to with altitude and neck**: first the vertical neck, then the straight leg to the target
point and target altitude -/
theorem phases_goto_with_altitude_neck (e : EntryF) (start : Vec4) (ha : e.action = 3) (hn : hasNeck e = true) :
    phases e start =
      [Phase.hold (addF (startTime e) (if gt0 e.preDelay then e.preDelay else .fin 0)),
       Phase.line { start with z := Utils.rf (start.z + e.preNeck) } e.preNeckDur,
       Phase.line { x := e.target.1, y := e.target.2, z := e.targetAlt, yaw := start.yaw } e.duration] ++
      (if gt0 e.postDelay then [Phase.hold e.postDelay] else []) := by
  simp [phases, ha, hn, afterNeck]

/-- the neck is purely vertical -/
theorem neck_is_vertical (e : EntryF) (start : Vec4) :
    (afterNeck e start).x = start.x ∧ (afterNeck e start).y = start.y ∧ (afterNeck e start).yaw = start.yaw := by
  unfold afterNeck; split <;> simp

/-- an unknown action is an error (after the phases that precede the action) -/
theorem invalid_action (e : EntryF) (start : Vec4) (h1 : e.action ≠ 1) (h2 : e.action ≠ 2) (h3 : e.action ≠ 3) :
    Phase.invalidAction ∈ phases e start := by
  unfold phases
  simp [h1, h2, h3]

theorem runPhases_invalid (b : Builder) (rest : List Phase) : runPhases b (.invalidAction :: rest) = .error .einval := rfl

/-- a negative or NaN duration of a phase is reported as invalid, an infinite or too long one as overflow -/
theorem runPhases_bad_duration (b : Builder) (t : Vec4) (sec : F32) (rest : List Phase) (err : Err)
    (h : msecFromSeconds sec = .error err) :
    runPhases b (.line t sec :: rest) = .error err ∧ runPhases b (.hold sec :: rest) = .error err := by
  simp [runPhases, h, bind, Except.bind]

theorem msec_invalid : msecFromSeconds .nan = .error .einval ∧ msecFromSeconds .ninf = .error .einval ∧
    msecFromSeconds .pinf = .error .eoverflow := ⟨rfl, rfl, rfl⟩

theorem msec_negative (q : Rat) (h : q < 0) : msecFromSeconds (.fin q) = .error .einval := by
  simp [msecFromSeconds, h]

/-- every phase lasts exactly its duration in whole milliseconds: a hold is chunked and a long leg
is split without loss (C16) -/
theorem hold_exact (ms : Nat) (h : ms ≤ 60000 * (ms / 60000 + 2)) :
    (C16.holdChunks (ms / 60000 + 2) ms).sum = ms := C16.holdChunks_sum _ _ h

theorem leg_exact (ms : Nat) (h : ms ≤ 60000 * 2 ^ 33) : (C16.splitDur 34 ms).sum = ms := C16.splitDur_sum 33 ms h

/-! ### non-vacuity -/
def sampleEntry : EntryF :=
  { time := F32.fin 5, action := 3, duration := F32.fin 10, target := (1000, 2000), targetAlt := 5000,
    preDelay := F32.fin 1, postDelay := F32.fin 2, preNeck := 500, preNeckDur := F32.fin 3 }

example : hasNeck sampleEntry = true := by decide
example : (phases sampleEntry ⟨0, 0, 1000, 0⟩).length = 4 := by
  rw [phases_goto_with_altitude_neck sampleEntry _ rfl (by decide)]
  have : gt0 sampleEntry.postDelay = true := by decide
  simp [this]

end Sb.C12
