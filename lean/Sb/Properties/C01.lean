/-
C01 — Trajectory position and duration follow the format definition.

Model: `Sb/Model/Trajectory.lean`, `Sb/Model/Poly.lean` (literal transcription of the C code).
Spec : `Sb/Spec/Trajectory.lean` (`segmentsOf`, `posAt`, `totalMs`), `Sb/Spec/Bezier.lean`.
All statements are in exact rational arithmetic with `secExact` (ms / 1000); the float32 rounding of
the implementation is bounded by the acceptance tolerance of the correspondence run.
-/
import Sb.Proofs.TrajPosition
import Sb.Proofs.Parsing

namespace Sb.C01
open Sb Sb.Poly Sb.Traj Sb.Spec Sb.Proofs

/-- side-conditions on generated constants -/
theorem constants : Gen.msecPerSec = 1000 ∧ Gen.angleModulus = 3600 ∧ Gen.angleDivisor = 10 ∧
    Gen.maxPolyCoeffs = 8 ∧ Gen.facs = [1, 1, 2, 6, 24, 120, 720, 5040] := by decide

/-- the segment-format flags of the public header (`sb_trajectory_segment_format_flags_t`, regenerated on every run) -/
theorem segment_formats_match_format :
    Gen.segmentFormats = [("SB_X_CONSTANT", 0), ("SB_X_LINEAR", 1), ("SB_X_BEZIER", 2), ("SB_X_POLY7D", 3),
      ("SB_Y_CONSTANT", 0), ("SB_Y_LINEAR", 4), ("SB_Y_BEZIER", 8), ("SB_Y_POLY7D", 12),
      ("SB_Z_CONSTANT", 0), ("SB_Z_LINEAR", 16), ("SB_Z_BEZIER", 32), ("SB_Z_POLY7D", 48),
      ("SB_YAW_CONSTANT", 0), ("SB_YAW_LINEAR", 64), ("SB_YAW_BEZIER", 128), ("SB_YAW_POLY7D", 192)] := by decide

/-- the model's decoding of a segment header reads exactly these fields: for every combination of one X, one Y, one Z
and one yaw flag of the header, the header byte fits in eight bits and the numbers of control points the model takes
per axis are 1 / 2 / 4 / 8 for CONSTANT / LINEAR / BEZIER / POLY7D (all 256 header bytes, kernel evaluation) -/
theorem numCoords_of_flags :
    ∀ x ∈ [(Gen.SB_X_CONSTANT, 1), (Gen.SB_X_LINEAR, 2), (Gen.SB_X_BEZIER, 4), (Gen.SB_X_POLY7D, 8)],
    ∀ y ∈ [(Gen.SB_Y_CONSTANT, 1), (Gen.SB_Y_LINEAR, 2), (Gen.SB_Y_BEZIER, 4), (Gen.SB_Y_POLY7D, 8)],
    ∀ z ∈ [(Gen.SB_Z_CONSTANT, 1), (Gen.SB_Z_LINEAR, 2), (Gen.SB_Z_BEZIER, 4), (Gen.SB_Z_POLY7D, 8)],
    ∀ w ∈ [(Gen.SB_YAW_CONSTANT, 1), (Gen.SB_YAW_LINEAR, 2), (Gen.SB_YAW_BEZIER, 4), (Gen.SB_YAW_POLY7D, 8)],
      (x.1 ||| y.1 ||| z.1 ||| w.1) < 256 ∧
      numCoords (x.1 ||| y.1 ||| z.1 ||| w.1) = x.2 ∧ numCoords ((x.1 ||| y.1 ||| z.1 ||| w.1) >>> 2) = y.2 ∧
      numCoords ((x.1 ||| y.1 ||| z.1 ||| w.1) >>> 4) = z.2 ∧ numCoords ((x.1 ||| y.1 ||| z.1 ||| w.1) >>> 6) = w.2 := by
  decide +kernel

/-- `sb_poly_make_bezier` followed by `sb_poly_eval` is the Bernstein-form Bézier curve, for every
number of control points from 1 to 8 (the format uses 1, 2, 4 and 8) -/
theorem makeBezier_eq_bernstein (c : List Rat) (u : Rat) (h1 : 1 ≤ c.length) (h8 : c.length ≤ 8) :
    Poly.eval (makeBezier 1 c) u = bezier c u := bezier_any c u h1 h8

/-- the header fields are exactly those of the format -/
theorem init_header (buf : Bytes) (tr : Traj) (h : Traj.init buf = .ok tr) :
    ∃ hd rest, decodeHeader buf = some (hd, rest) ∧ tr.buf = buf ∧ tr.scale = hd.scale ∧ tr.useYaw = hd.useYaw ∧
      tr.start = hd.start ∧ tr.headerLength = 9 ∧ buf.drop 9 = rest := by
  unfold Traj.init at h
  split at h
  · cases h
  · rename_i hlen
    rcases buf with _ | ⟨f, _ | ⟨x0, _ | ⟨x1, _ | ⟨y0, _ | ⟨y1, _ | ⟨z0, _ | ⟨z1, _ | ⟨w0, _ | ⟨w1, rest⟩⟩⟩⟩⟩⟩⟩⟩⟩ <;>
      try (simp [headerSize] at hlen; done)
    have hf : rd (f :: x0 :: x1 :: y0 :: y1 :: z0 :: z1 :: w0 :: w1 :: rest) 0 = .ok f.toNat := by simp [rd]
    rw [hf] at h
    simp only [bind, Except.bind] at h
    rw [parseCoord_of_drop _ _ 1 x0 x1 _ rfl] at h
    simp only at h
    rw [parseCoord_of_drop _ _ 3 y0 y1 _ rfl] at h
    simp only at h
    rw [parseCoord_of_drop _ _ 5 z0 z1 _ rfl] at h
    simp only at h
    rw [parseAngle_of_drop _ 7 w0 w1 _ rfl] at h
    simp only [pure, Except.pure] at h
    injection h with h
    subst h
    refine ⟨_, rest, rfl, rfl, ?_, ?_, ?_, rfl, rfl⟩
    · simp only [and7f]
    · have := and80 f
      by_cases hlt : f.toNat < 128
      · have h0 : f.toNat &&& 128 = 0 := this.mpr hlt
        have : ¬ (f.toNat ≥ 128) := by omega
        simp [h0, this]
      · have h0 : ¬ (f.toNat &&& 128 = 0) := fun h => hlt (this.mp h)
        have : f.toNat ≥ 128 := by omega
        simp [h0, this]
    · simp only [and7f]

theorem decodeSegs_length_le (scale : Nat) : ∀ (fd : Nat) (start : Vec4) (rest : Bytes),
    (decodeSegs scale start rest fd).length ≤ fd := by
  intro fd
  induction fd with
  | zero => intro _ _; simp [decodeSegs]
  | succ fd ih =>
    intro start rest
    unfold decodeSegs
    split
    · simp
    · rename_i s r _
      simp only [List.length_cons]
      have := ih (s.endPt start) r
      omega

theorem gtQ_zero (t : QTime) (ht : t.valid) : gtQ (secExact 0) t = false := by
  cases t with
  | nan => exact False.elim ht
  | pinf => rfl
  | fin q =>
    have hq : 0 ≤ q := ht
    simp only [gtQ, secExact_eq, decide_eq_false_iff_not, not_lt]
    simpa using hq

/-- **Position.** For every block, the position a fresh player reports at a (clamped, non-NaN) time
is the point of the Bézier curve of the segment whose span contains it, at the elapsed fraction;
control points are chained and scaled as the format defines; beyond the end the last end point.
Hypotheses: segment durations ≥ 1 ms and total duration below 2³² ms. -/
theorem position_eq_spec (buf : Bytes) (tr : Traj) (hd : HeaderSpec) (segs : List SegSpec)
    (hinit : Traj.init buf = .ok tr) (hsegs : segmentsOf buf = some (hd, segs))
    (hdur : ∀ s, s ∈ segs → 1 ≤ s.durMs) (hwrap : totalMs segs < 4294967296)
    (t : QTime) (ht : t.valid) :
    (do let p0 ← rewind secExact tr; positionAt secExact p0 t : R (Player × Vec4)).map (·.2)
      = .ok (posAtQ segs hd.start 0 t) := by
  obtain ⟨hd', rest, hdec, hbuf, hscale, _, hstart, hhl, hdrop⟩ := init_header buf tr hinit
  unfold segmentsOf at hsegs
  rw [hdec] at hsegs
  injection hsegs with hsegs
  injection hsegs with h1 h2
  subst h1
  have hg := gtQ_zero t ht
  rw [rewind_eq]
  simp only [bind, Except.bind]
  by_cases hz : tr.scale = 0
  · -- zero scale: no segments, the start point is held
    have hs0 : hd'.scale = 0 := by rw [← hscale]; exact hz
    rw [if_pos hs0] at h2
    subst h2
    have hb : (trajCur secExact tr).rew = terminalSeg secExact tr.headerLength 0 tr.start := by
      simp [trajCur, buildSeg, buildSegment, hz]
    have hc : cseek (trajCur secExact tr) t (seekFuel tr) (terminalSeg secExact tr.headerLength 0 tr.start)
        = some (terminalSeg secExact tr.headerLength 0 tr.start) := by
      unfold seekFuel
      simp only [cseek, trajCur, terminalSeg, hg, endLt]; simp
    simp only [positionAt, seek, seekLoop_eq_cseek, hb, hc, bind, Except.bind, pure, Except.pure, Except.map]
    cases t <;> simp [posAtQ, posAt, endOf, terminalSeg, relT, Poly4.const, Poly4.eval, Poly.eval, hstart]
  · have hs0 : ¬ hd'.scale = 0 := by rw [← hscale]; exact hz
    rw [if_neg hs0] at h2
    have hlen9 : 9 ≤ buf.length := by
      unfold Traj.init at hinit; split at hinit
      · cases hinit
      · rename_i h; simp [headerSize] at h; omega
    have hrl : rest.length ≤ buf.length := by rw [← hdrop]; simp
    have hsegs' : decodeSegs tr.scale tr.start rest rest.length = segs := by
      rw [hscale, hstart]; exact h2
    obtain ⟨s', hs', hv⟩ := seek_pos_spec tr hz t ht rest.length rest 9 0 tr.start (seekFuel tr)
      (by rw [hbuf]; exact hdrop) (by rw [hbuf]; exact hlen9) (Nat.le_refl _)
      (by rw [hsegs']; exact hdur) (by rw [hsegs']; simpa using hwrap) hg
      (by
        have := decodeSegs_length_le tr.scale rest.length tr.start rest
        unfold seekFuel; rw [hbuf]; omega)
    have hrew : (trajCur secExact tr).rew = buildSeg secExact tr 9 0 tr.start := by
      simp only [trajCur, hhl]
    simp only [positionAt, seek, seekLoop_eq_cseek, hrew, hs', bind, Except.bind, pure, Except.pure, Except.map]
    rw [hv, hsegs', hstart]

theorem foldl_u32 (l : List SegSpec) (acc : Nat) (h : acc + totalMs l < 4294967296) :
    l.foldl (fun a s => u32 (a + s.durMs)) acc = acc + totalMs l := by
  induction l generalizing acc with
  | nil => simp [totalMs]
  | cons s l ih =>
    simp only [totalMs, List.map_cons, List.sum_cons] at h
    simp only [List.foldl_cons, totalMs, List.map_cons, List.sum_cons]
    have h1 : u32 (acc + s.durMs) = acc + s.durMs := Nat.mod_eq_of_lt (by omega)
    rw [h1]
    have := ih (acc + s.durMs) (by simp only [totalMs]; omega)
    simp only [totalMs] at this
    rw [this]; omega

/-- **Duration.** The player's total duration (hence the trajectory-level millisecond and second
queries, which call it) is the sum of the segment durations, for every `sec`. -/
theorem duration_eq_sum (sec : Nat → Rat) (buf : Bytes) (tr : Traj) (hd : HeaderSpec) (segs : List SegSpec)
    (hinit : Traj.init buf = .ok tr) (hsegs : segmentsOf buf = some (hd, segs))
    (hwrap : totalMs segs < 4294967296) (p : Player) (hp : p.traj = tr) :
    (totalDurationMsec sec p).map (·.2) = .ok (totalMs segs) := by
  obtain ⟨hd', rest, hdec, hbuf, hscale, _, hstart, hhl, hdrop⟩ := init_header buf tr hinit
  unfold segmentsOf at hsegs
  rw [hdec] at hsegs
  injection hsegs with hsegs
  injection hsegs with h1 h2
  subst h1
  simp only [totalDurationMsec, hp, rewind_eq, bind, Except.bind]
  by_cases hz : tr.scale = 0
  · have hs0 : hd'.scale = 0 := by rw [← hscale]; exact hz
    rw [if_pos hs0] at h2
    subst h2
    have hb : (trajCur sec tr).rew = terminalSeg sec tr.headerLength 0 tr.start := by
      simp [trajCur, buildSeg, buildSegment, hz]
    rw [hb]
    unfold seekFuel
    simp [durLoop, Player.hasMore, terminalSeg, totalMs, Except.map]
  · have hs0 : ¬ hd'.scale = 0 := by rw [← hscale]; exact hz
    rw [if_neg hs0] at h2
    have hlen9 : 9 ≤ buf.length := by
      unfold Traj.init at hinit; split at hinit
      · cases hinit
      · rename_i h; simp [headerSize] at h; omega
    have hsegs' : decodeSegs tr.scale tr.start rest rest.length = segs := by
      rw [hscale, hstart]; exact h2
    have hrl : rest.length ≤ buf.length := by rw [← hdrop]; simp
    obtain ⟨p', hp'⟩ := durLoop_spec sec tr hz rest.length rest 9 0 tr.start (seekFuel tr) 0
      (by rw [hbuf]; exact hdrop) (by rw [hbuf]; exact hlen9) (Nat.le_refl _)
      (by
        have := decodeSegs_length_le tr.scale rest.length tr.start rest
        unfold seekFuel; rw [hbuf]; omega)
    have hrew : (trajCur sec tr).rew = buildSeg sec tr 9 0 tr.start := by simp only [trajCur, hhl]
    rw [hrew, hp', hsegs', foldl_u32 segs 0 (by omega)]
    simp [Except.map]

/-- yaw control points decoded from the block lie in [0, 360) -/
theorem yaw_in_range (b0 b1 : UInt8) : 0 ≤ angleOf b0 b1 ∧ angleOf b0 b1 < 360 := by
  unfold angleOf
  have h1 : 0 ≤ i16le b0 b1 % 3600 := Int.emod_nonneg _ (by decide)
  have h2 : i16le b0 b1 % 3600 < 3600 := Int.emod_lt_of_pos _ (by decide)
  constructor
  · apply div_nonneg
    · exact_mod_cast h1
    · norm_num
  · rw [div_lt_iff₀ (by norm_num)]
    have : ((i16le b0 b1 % 3600 : Int) : Rat) < 3600 := by exact_mod_cast h2
    linarith

/-! ### non-vacuity -/

/-- scale 10, start (1,2,3) yaw 90°, one linear-in-x segment of 1000 ms to x = 5 -/
def sampleBlock : Bytes := [0x0a, 1, 0, 2, 0, 3, 0, 0x84, 0x03, 0x01, 0xe8, 0x03, 5, 0]

example : ∃ hd segs, segmentsOf sampleBlock = some (hd, segs) ∧ segs.length = 1 ∧
    (∀ s, s ∈ segs → 1 ≤ s.durMs) ∧ totalMs segs < 4294967296 := by
  refine ⟨_, _, rfl, ?_, ?_, ?_⟩ <;> simp [sampleBlock, segmentsOf, decodeHeader, decodeSegs, decodeSeg, takeVals,
    storedPoints, totalMs]

end Sb.C01
