import Sb.Model.Trajectory
