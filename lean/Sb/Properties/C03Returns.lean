/-
C03 — "every call returns", the positive side.

The open known finding of C03 is a light program with a cycle that consumes no time: `seek` never returns.  This file
states exactly when it *does* return, as theorems about the model's `seek` (a loop bounded by fuel: running out of fuel is
the model's "hang"):

* `seekLoop_returns`, `fresh_seek_returns` : if the wake-up chain of the program has a point whose next wake-up is at or
  after `t`, a fresh player's `seek t` returns within that many executor steps (+1);
* `ended_seek_returns` : a program whose wake-up chain reaches an ended executor never hangs a fresh player, for any `t`
  (after the end the wake-up time moves on by itself);
* `machine_terminates_seek_returns` : every command list (all 22 opcodes, loops, jumps, clock resets) whose abstract
  machine leaves the list after finitely many steps within 2^24 ms makes `seek` return for EVERY `t`;
  `machine_runs_seek_returns` : a command list that runs for ever (loop count 0, backward jumps) makes `seek` return for
  every `t` up to any horizon the machine passes — time has to pass in every lap for that, which is precisely what a
  zero-time cycle lacks.
-/
import Sb.Properties.C02Machine
import Sb.Properties.C03

namespace Sb.C03
open Sb Sb.Lights Sb.Proofs Sb.Proofs.Light Sb.C09 Sb.C02

theorem seekLoop_returns (prog : Bytes) (t n0 : Nat) (h : t ≤ (chain prog n0).next) :
    ∀ d n, n + d = n0 → ∀ fuel, d + 1 ≤ fuel → ∃ q, seekLoop t fuel (chain prog n) = .ok q := by
  intro d
  induction d with
  | zero =>
    intro n hn fuel hf
    obtain ⟨f, rfl⟩ : ∃ f, fuel = f + 1 := ⟨fuel - 1, by omega⟩
    rw [seekLoop_succ]
    have : ¬ (t > (chain prog n).next) := by
      have : n = n0 := by omega
      subst this; omega
    rw [if_neg this]
    exact ⟨_, rfl⟩
  | succ d ih =>
    intro n hn fuel hf
    obtain ⟨f, rfl⟩ : ∃ f, fuel = f + 1 := ⟨fuel - 1, by omega⟩
    rw [seekLoop_succ]
    by_cases ht : t > (chain prog n).next
    · rw [if_pos ht, ← chain_succ]
      exact ih (n + 1) (by omega) f (by omega)
    · rw [if_neg ht]
      exact ⟨_, rfl⟩

/-- **a fresh player's seek returns as soon as the wake-up chain reaches the timestamp** -/
theorem fresh_seek_returns (prog : Bytes) (t n0 : Nat) (h : t ≤ (chain prog n0).next) :
    ∃ r, (Player.fresh prog).seek t (n0 + 1) = .ok r := by
  rw [seek_eq]
  have hcur : ¬ (t < (Player.fresh prog).current) := by
    have : (Player.fresh prog).current = 0 := rfl
    omega
  rw [if_neg hcur]
  have h0 : Player.fresh prog = chain prog 0 := rfl
  rw [h0]
  obtain ⟨q, hq⟩ := seekLoop_returns prog t n0 h n0 0 (by omega) (n0 + 1) (by omega)
  rw [hq]
  exact ⟨_, rfl⟩

/-- after the end the wake-up time moves on by itself -/
theorem dead_next_grows (prog : Bytes) (m : Nat) (hm : 1 ≤ m) (hl : liveUpTo prog m)
    (he : (chain prog m).exec.ended = true) : ∀ d, d ≤ (chain prog (m + d)).next := by
  intro d
  induction d with
  | zero => omega
  | succ d ih =>
    have hd := chain_dead prog m hm hl he (m + d) (by omega)
    have e : m + (d + 1) = (m + d) + 1 := by omega
    rw [e, chain_succ, adv_next, dead_step hd.reset hd.ended]
    simp only
    have hu : u64 ((chain prog (m + d)).next + 60000) = ((chain prog (m + d)).next + 60000) % 18446744073709551616 := rfl
    split
    · omega
    · rename_i hnlt
      rw [hu] at hnlt ⊢
      omega

/-- **a program that ends never hangs a fresh player** -/
theorem ended_seek_returns (prog : Bytes) (m : Nat) (hm : 1 ≤ m) (hl : liveUpTo prog m)
    (he : (chain prog m).exec.ended = true) (t : Nat) : ∃ r, (Player.fresh prog).seek t (m + t + 1) = .ok r :=
  fresh_seek_returns prog t (m + t) (dead_next_grows prog m hm hl he t)

/-- **every command list whose abstract machine terminates makes `seek` return, for every timestamp** -/
theorem machine_terminates_seek_returns (cs : List LCmd) (hw : WFL cs) (K : Nat) (ht : Terminates cs K) (t : Nat) :
    ∃ fuel r, (Player.fresh (encodeL cs)).seek t fuel = .ok r := by
  have hend := (machine_end cs hw K ht.k1 ht.live ht.off ht.time).1
  obtain ⟨r, hr⟩ := ended_seek_returns (encodeL cs) (K + 1) (by omega) (mchain_live cs hw K ht) hend t
  exact ⟨_, r, hr⟩

/-- **a command list that runs for ever makes `seek` return up to every horizon its machine passes** -/
theorem machine_runs_seek_returns (cs : List LCmd) (hw : WFL cs) (K H : Nat) (hr : RunsPast cs K H) (t : Nat) (ht : t ≤ H) :
    ∃ r, (Player.fresh (encodeL cs)).seek t (K + 1) = .ok r := by
  apply fresh_seek_returns (encodeL cs) t K
  rw [(rchain cs hw K H hr K hr.k1 (Nat.le_refl _)).2.2]
  have := hr.past
  omega

/-- non-vacuity: the looping, the jumping and the terminating demonstration programs of C02 -/
example (t : Nat) : ∃ fuel r, (Player.fresh (encodeL demoL)).seek t fuel = .ok r :=
  machine_terminates_seek_returns demoL demoL_wf 11 demoL_terminates t
example (t : Nat) (ht : t ≤ 4000) : ∃ r, (Player.fresh (encodeL demoJ)).seek t 32 = .ok r :=
  machine_runs_seek_returns demoJ demoJ_wf 31 4000 demoJ_runs t ht
example (t : Nat) (ht : t ≤ 3000) : ∃ r, (Player.fresh (encodeL demoForever)).seek t 41 = .ok r :=
  machine_runs_seek_returns demoForever demoForever_wf 40 3000 demoForever_runs t ht

end Sb.C03
