/-
C03 — "every call returns", the positive side.

The open known finding of C03 is a light program with a cycle that consumes no time: `seek` never returns.  This file
states exactly when it *does* return, as theorems about the model's `seek` (a loop bounded by fuel: running out of fuel is
the model's "hang"):

* `seekLoop_returns`, `fresh_seek_returns` : if the wake-up chain of the program has a point whose next wake-up is at or
  after `t`, a fresh player's `seek t` returns within that many executor steps (+1);
* `ended_seek_returns` : a program whose wake-up chain reaches an ended executor never hangs a fresh player, for any `t`
  (after the end the wake-up time moves on by itself);
* `machine_terminates_seek_returns` : every command list (all 22 opcodes, loops, jumps, clock resets) whose abstract
  machine leaves the list after finitely many steps within 2^24 ms makes `seek` return for EVERY `t`;
  `machine_runs_seek_returns` : a command list that runs for ever (loop count 0, backward jumps) makes `seek` return for
  every `t` up to any horizon the machine passes — time has to pass in every lap for that, which is precisely what a
  zero-time cycle lacks;
* `reachable_seek_returns`, `machine_history_seek_returns` : the same for every player reachable by seeks (any history
  through one player, back-jumps and rewinds included), not only a fresh one.
-/
import Sb.Properties.C02Machine
import Sb.Properties.C03

namespace Sb.C03
open Sb Sb.Lights Sb.Proofs Sb.Proofs.Light Sb.C09 Sb.C02

theorem seekLoop_returns (prog : Bytes) (t n0 : Nat) (h : t ≤ (chain prog n0).next) :
    ∀ d n, n + d = n0 → ∀ fuel, d + 1 ≤ fuel → ∃ q, seekLoop t fuel (chain prog n) = .ok q := by
  intro d
  induction d with
  | zero =>
    intro n hn fuel hf
    obtain ⟨f, rfl⟩ : ∃ f, fuel = f + 1 := ⟨fuel - 1, by omega⟩
    rw [seekLoop_succ]
    have : ¬ (t > (chain prog n).next) := by
      have : n = n0 := by omega
      subst this; omega
    rw [if_neg this]
    exact ⟨_, rfl⟩
  | succ d ih =>
    intro n hn fuel hf
    obtain ⟨f, rfl⟩ : ∃ f, fuel = f + 1 := ⟨fuel - 1, by omega⟩
    rw [seekLoop_succ]
    by_cases ht : t > (chain prog n).next
    · rw [if_pos ht, ← chain_succ]
      exact ih (n + 1) (by omega) f (by omega)
    · rw [if_neg ht]
      exact ⟨_, rfl⟩

/-- **a fresh player's seek returns as soon as the wake-up chain reaches the timestamp** -/
theorem fresh_seek_returns (prog : Bytes) (t n0 : Nat) (h : t ≤ (chain prog n0).next) :
    ∃ r, (Player.fresh prog).seek t (n0 + 1) = .ok r := by
  rw [seek_eq]
  have hcur : ¬ (t < (Player.fresh prog).current) := by
    have : (Player.fresh prog).current = 0 := rfl
    omega
  rw [if_neg hcur]
  have h0 : Player.fresh prog = chain prog 0 := rfl
  rw [h0]
  obtain ⟨q, hq⟩ := seekLoop_returns prog t n0 h n0 0 (by omega) (n0 + 1) (by omega)
  rw [hq]
  exact ⟨_, rfl⟩

/-- after the end the wake-up time moves on by itself -/
theorem dead_next_grows (prog : Bytes) (m : Nat) (hm : 1 ≤ m) (hl : liveUpTo prog m)
    (he : (chain prog m).exec.ended = true) : ∀ d, d ≤ (chain prog (m + d)).next := by
  intro d
  induction d with
  | zero => omega
  | succ d ih =>
    have hd := chain_dead prog m hm hl he (m + d) (by omega)
    have e : m + (d + 1) = (m + d) + 1 := by omega
    rw [e, chain_succ, adv_next, dead_step hd.reset hd.ended]
    simp only
    have hu : u64 ((chain prog (m + d)).next + 60000) = ((chain prog (m + d)).next + 60000) % 18446744073709551616 := rfl
    split
    · omega
    · rename_i hnlt
      rw [hu] at hnlt ⊢
      omega

/-- **a program that ends never hangs a fresh player** -/
theorem ended_seek_returns (prog : Bytes) (m : Nat) (hm : 1 ≤ m) (hl : liveUpTo prog m)
    (he : (chain prog m).exec.ended = true) (t : Nat) : ∃ r, (Player.fresh prog).seek t (m + t + 1) = .ok r :=
  fresh_seek_returns prog t (m + t) (dead_next_grows prog m hm hl he t)

/-- **every command list whose abstract machine terminates makes `seek` return, for every timestamp** -/
theorem machine_terminates_seek_returns (cs : List LCmd) (hw : WFL cs) (K : Nat) (ht : Terminates cs K) (t : Nat) :
    ∃ fuel r, (Player.fresh (encodeL cs)).seek t fuel = .ok r := by
  have hend := (machine_end cs hw K ht.k1 ht.live ht.off ht.time).1
  obtain ⟨r, hr⟩ := ended_seek_returns (encodeL cs) (K + 1) (by omega) (mchain_live cs hw K ht) hend t
  exact ⟨_, r, hr⟩

/-- **a command list that runs for ever makes `seek` return up to every horizon its machine passes** -/
theorem machine_runs_seek_returns (cs : List LCmd) (hw : WFL cs) (K H : Nat) (hr : RunsPast cs K H) (t : Nat) (ht : t ≤ H) :
    ∃ r, (Player.fresh (encodeL cs)).seek t (K + 1) = .ok r := by
  apply fresh_seek_returns (encodeL cs) t K
  rw [(rchain cs hw K H hr K hr.k1 (Nat.le_refl _)).2.2]
  have := hr.past
  omega

/-! ### … and for every player reachable by seeks, not only a fresh one -/

/-- the player runs in parallel with chain point `n` -/
def Par (prog : Bytes) (q : Player) (n : Nat) : Prop := q.next = (chain prog n).next ∧ Sim q.exec (chain prog n).exec

theorem par_adv (prog : Bytes) (q : Player) (n : Nat) (h : Par prog q n) : Par prog (adv q) (n + 1) := by
  obtain ⟨hn, hs⟩ := h
  have hs' : Sim (step q.exec q.next) (step (chain prog n).exec (chain prog n).next) := by
    rw [hn]; exact step_sim hs _
  refine ⟨?_, ?_⟩
  · rw [chain_succ, adv_next, adv_next, hs'.nextWakeup, hn]
  · rw [chain_exec, adv_exec]; exact hs'

theorem seekLoop_returns_par (prog : Bytes) (t n0 : Nat) (h : t ≤ (chain prog n0).next) :
    ∀ d n q, n + d = n0 → Par prog q n → ∀ fuel, d + 1 ≤ fuel → ∃ q', seekLoop t fuel q = .ok q' := by
  intro d
  induction d with
  | zero =>
    intro n q hn hp fuel hf
    obtain ⟨f, rfl⟩ : ∃ f, fuel = f + 1 := ⟨fuel - 1, by omega⟩
    rw [seekLoop_succ]
    have : ¬ (t > q.next) := by
      have : n = n0 := by omega
      subst this; rw [hp.1]; omega
    rw [if_neg this]
    exact ⟨_, rfl⟩
  | succ d ih =>
    intro n q hn hp fuel hf
    obtain ⟨f, rfl⟩ : ∃ f, fuel = f + 1 := ⟨fuel - 1, by omega⟩
    rw [seekLoop_succ]
    by_cases ht : t > q.next
    · rw [if_pos ht]
      exact ih (n + 1) (adv q) (by omega) (par_adv prog q n hp) f (by omega)
    · rw [if_neg ht]
      exact ⟨_, rfl⟩

/-- a rewound player (program counter 0, reset pending) falls in with the chain at its first step -/
theorem seekLoop_returns_rewound (prog : Bytes) (t n0 : Nat) (h : t ≤ (chain prog n0).next) (q : Player)
    (hq0 : q.next = 0) (hr : RSim q.exec (chain prog 0).exec) : ∃ q', seekLoop t (n0 + 2) q = .ok q' := by
  have e : n0 + 2 = (n0 + 1) + 1 := rfl
  rw [e, seekLoop_succ]
  by_cases ht : t > q.next
  · rw [if_pos ht]
    have hc0 : (chain prog 0).next = 0 := rfl
    have hpar : Par prog (adv q) 1 := by
      have hs : Sim (step q.exec q.next) (step (chain prog 0).exec (chain prog 0).next) := by
        rw [hq0, hc0]; exact rsim_step hr 0
      refine ⟨?_, ?_⟩
      · rw [chain_succ, adv_next, adv_next, hs.nextWakeup, hq0, hc0]
      · rw [chain_exec, adv_exec]; exact hs
    by_cases h1 : 1 ≤ n0
    · exact seekLoop_returns_par prog t n0 h (n0 - 1) 1 (adv q) (by omega) hpar (n0 + 1) (by omega)
    · have : n0 = 0 := by omega
      subst this
      rw [hc0] at h
      omega
  · rw [if_neg ht]
    exact ⟨_, rfl⟩

/-- a player past the end of the program moves its wake-up time on by itself -/
theorem seekLoop_returns_dead (t : Nat) : ∀ d (q : Player) (x : Exec), DeadEq q.exec x → t ≤ q.next + d →
    ∃ q', seekLoop t (d + 1) q = .ok q' := by
  intro d
  induction d with
  | zero =>
    intro q x _ ht
    rw [seekLoop_succ, if_neg (by omega)]
    exact ⟨_, rfl⟩
  | succ d ih =>
    intro q x hd ht
    rw [seekLoop_succ]
    by_cases hgt : t > q.next
    · rw [if_pos hgt]
      have hd' : DeadEq (adv q).exec x := by rw [adv_exec]; exact hd.step _
      refine ih (adv q) x hd' ?_
      rw [adv_next, dead_step hd.reset hd.ended]
      simp only
      have hu : u64 (q.next + 60000) = (q.next + 60000) % 18446744073709551616 := rfl
      split
      · omega
      · rename_i hnlt
        rw [hu] at hnlt ⊢
        omega
    · rw [if_neg hgt]
      exact ⟨_, rfl⟩

/-- **every player reachable by seeks returns from the next seek**, as soon as the program's wake-up chain reaches the
timestamp (for programs that end: always) -/
theorem reachable_seek_returns (prog : Bytes) (p : Player) (hinv : Inv prog p) (t n0 : Nat)
    (h : t ≤ (chain prog n0).next) : ∃ fuel r, p.seek t fuel = .ok r := by
  have hfin : ∀ q, (∃ fuel q', seekLoop t fuel q = .ok q') →
      ∃ fuel r, (seekLoop t fuel q).map (fun q => finish q t) = .ok r := by
    rintro q ⟨fuel, q', hq⟩
    exact ⟨fuel, _, by rw [hq]; rfl⟩
  have hprog : p.exec.prog = (Player.fresh prog).exec.prog ∧ p.exec.size = (Player.fresh prog).exec.size := by
    rcases hinv with ⟨_, _, hr⟩ | ⟨k, _, _, hs, _⟩ | ⟨m, _, _, _, hd, _⟩
    · exact ⟨hr.prog, hr.size⟩
    · exact ⟨hs.prog.trans (chain_prog prog k).1, hs.size.trans (chain_prog prog k).2⟩
    · exact ⟨hd.prog.trans (chain_prog prog m).1, hd.size.trans (chain_prog prog m).2⟩
  have key : ∃ fuel q', seekLoop t fuel
      (if t < p.current then { exec := rewindExec p.exec, current := 0, next := 0 } else p) = .ok q' := by
    by_cases hlt : t < p.current
    · rw [if_pos hlt]
      obtain ⟨e0, he0⟩ := fresh_rewound prog
      have hr : RSim (rewindExec p.exec) (chain prog 0).exec := by
        show RSim (rewindExec p.exec) (Player.fresh prog).exec
        rw [he0]
        apply rewind_rsim
        · rw [hprog.1, he0]; rfl
        · rw [hprog.2, he0]; rfl
      obtain ⟨q', hq'⟩ := seekLoop_returns_rewound prog t n0 h
        { exec := rewindExec p.exec, current := 0, next := 0 } rfl hr
      exact ⟨_, q', hq'⟩
    · rw [if_neg hlt]
      rcases hinv with ⟨_, hn, hr⟩ | ⟨k, hk, hl, hs, hn, hc1, hc2, _, _⟩ | ⟨m, _, _, _, hd, _⟩
      · obtain ⟨q', hq'⟩ := seekLoop_returns_rewound prog t n0 h p hn hr
        exact ⟨_, q', hq'⟩
      · -- live at chain point k: the chain reaches t at max n0 k
        by_cases hk0 : k ≤ n0
        · obtain ⟨q', hq'⟩ := seekLoop_returns_par prog t n0 h (n0 - k) k p (by omega) ⟨hn, hs⟩ (n0 - k + 1) (by omega)
          exact ⟨_, q', hq'⟩
        · have h1 := chain_next_le_current prog n0 k (by omega) (hl.mono (by omega))
          have htk : t ≤ (chain prog k).next := by omega
          obtain ⟨q', hq'⟩ := seekLoop_returns_par prog t k htk 0 k p (by omega) ⟨hn, hs⟩ 1 (by omega)
          exact ⟨_, q', hq'⟩
      · obtain ⟨q', hq'⟩ := seekLoop_returns_dead t t p _ hd (by omega)
        exact ⟨_, q', hq'⟩
  obtain ⟨fuel, r, hr⟩ := hfin _ key
  exact ⟨fuel, r, by rw [seek_eq]; exact hr⟩

/-- **a command list whose abstract machine terminates never hangs, whatever was asked before**: after any history
of seeks through one player, the next seek returns, for every timestamp -/
theorem machine_history_seek_returns (cs : List LCmd) (hw : WFL cs) (K : Nat) (ht : Terminates cs K)
    (hist : List (Nat × Nat)) (p : Player) (hp : seekAll (Player.fresh (encodeL cs)) hist = .ok p) (t : Nat) :
    ∃ fuel r, p.seek t fuel = .ok r := by
  have hinv := reachable_inv (encodeL cs) (m_fades_short cs hw K ht) hist _ p (inv_fresh (encodeL cs)) hp
  have hend := (machine_end cs hw K ht.k1 ht.live ht.off ht.time).1
  exact reachable_seek_returns (encodeL cs) p hinv t (K + 1 + t)
    (dead_next_grows (encodeL cs) (K + 1) (by omega) (mchain_live cs hw K ht) hend t)

/-- non-vacuity: the looping, the jumping and the terminating demonstration programs of C02 -/
example (t : Nat) : ∃ fuel r, (Player.fresh (encodeL demoL)).seek t fuel = .ok r :=
  machine_terminates_seek_returns demoL demoL_wf 11 demoL_terminates t
example (hist : List (Nat × Nat)) (p : Player) (hp : seekAll (Player.fresh (encodeL demoT)) hist = .ok p) (t : Nat) :
    ∃ fuel r, p.seek t fuel = .ok r := machine_history_seek_returns demoT demoT_wf 5 demoT_terminates hist p hp t
example (t : Nat) (ht : t ≤ 4000) : ∃ r, (Player.fresh (encodeL demoJ)).seek t 32 = .ok r :=
  machine_runs_seek_returns demoJ demoJ_wf 31 4000 demoJ_runs t ht
example (t : Nat) (ht : t ≤ 3000) : ∃ r, (Player.fresh (encodeL demoForever)).seek t 41 = .ok r :=
  machine_runs_seek_returns demoForever demoForever_wf 40 3000 demoForever_runs t ht

end Sb.C03
