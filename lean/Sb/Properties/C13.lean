/-
C13 — Proposed takeoff time matches the first crossing of the takeoff altitude.

Theorems about the model `Sb.Stats` of the statistics pass, for EVERY list of segments and every target:
the reported crossing is the first touching point of the first segment that touches at all
(`first_crossing`), infinity exactly when no segment touches or the climb time is not finite
(`takeoff_infinite_iff`), and `E - T` otherwise — relative to a root oracle `ρ` that meets `RootSpec`
("`none` means no solution in [0,1]; `some u` is the leftmost solution").  `RootSpec` is discharged exactly for
constant and linear altitude (`touchesLinear_spec`: the model of `sb_i_poly_touches_1d/2d`); for curved altitude
it is what the correspondence run checks of the implementation, within the calibrated tolerance (DESIGN.md C13).
-/
import Mathlib.Tactic.Ring
import Mathlib.Tactic.Linarith
import Mathlib.Tactic.FieldSimp
import Mathlib.Algebra.Order.Field.Rat
import Mathlib.Algebra.Order.Field.Basic
import Mathlib.Tactic.Positivity
import Sb.Model.Stats
import Sb.Proofs.CertSound

namespace Sb.C13
open Sb Sb.Poly Sb.Stats

/-- what the pass needs of `sb_poly_touches` on a class `C` of altitude polynomials -/
structure RootSpec (ρ : Touch) (C : Poly → Prop) : Prop where
  none_means : ∀ p v, C p → ρ p v = none → ∀ u, 0 ≤ u → u ≤ 1 → eval p u ≠ v
  some_first : ∀ p v u, C p → ρ p v = some u →
    0 ≤ u ∧ u ≤ 1 ∧ eval p u = v ∧ ∀ w, 0 ≤ w → w < u → eval p w ≠ v

theorem firstTouch_none (ρ : Touch) (target : Rat) (segs : List ZSeg) :
    firstTouch ρ target segs = none ↔ ∀ s ∈ segs, ρ s.z target = none := by
  induction segs with
  | nil => simp [firstTouch]
  | cons s rest ih =>
    simp only [firstTouch, List.mem_cons, forall_eq_or_imp]
    cases h : ρ s.z target with
    | none => simp [ih]
    | some u => simp

/-- "first hit wins": the reported pair is the first segment that touches, with what the oracle says there -/
theorem firstTouch_some (ρ : Touch) (target : Rat) (segs : List ZSeg) (s : ZSeg) (u : Rat)
    (h : firstTouch ρ target segs = some (s, u)) :
    ∃ pre post, segs = pre ++ s :: post ∧ (∀ s' ∈ pre, ρ s'.z target = none) ∧ ρ s.z target = some u := by
  induction segs with
  | nil => simp [firstTouch] at h
  | cons a rest ih =>
    simp only [firstTouch] at h
    cases ha : ρ a.z target with
    | none =>
      rw [ha] at h
      obtain ⟨pre, post, h1, h2, h3⟩ := ih h
      refine ⟨a :: pre, post, by rw [h1]; rfl, ?_, h3⟩
      intro s' hs'
      rcases List.mem_cons.mp hs' with rfl | hm
      · exact ha
      · exact h2 s' hm
    | some w =>
      rw [ha] at h
      simp only [Option.some.injEq, Prod.mk.injEq] at h
      obtain ⟨rfl, rfl⟩ := h
      exact ⟨[], rest, rfl, by simp, ha⟩

/-- **First crossing.**  With an oracle meeting `RootSpec` on the altitude polynomials of the trajectory, the reported
crossing lies in the first segment whose altitude takes the target value at all, at the first local time it does:
no earlier segment and no earlier local time in that segment reaches the target. -/
theorem first_crossing (ρ : Touch) (C : Poly → Prop) (hρ : RootSpec ρ C) (target : Rat) (segs : List ZSeg)
    (hC : ∀ s ∈ segs, C s.z) (s : ZSeg) (u : Rat) (h : firstTouch ρ target segs = some (s, u)) :
    ∃ pre post, segs = pre ++ s :: post ∧
      (∀ s' ∈ pre, ∀ w, 0 ≤ w → w ≤ 1 → eval s'.z w ≠ target) ∧
      0 ≤ u ∧ u ≤ 1 ∧ eval s.z u = target ∧ (∀ w, 0 ≤ w → w < u → eval s.z w ≠ target) := by
  obtain ⟨pre, post, h1, h2, h3⟩ := firstTouch_some ρ target segs s u h
  refine ⟨pre, post, h1, ?_, ?_⟩
  · intro s' hs' w hw0 hw1
    exact hρ.none_means s'.z target (hC s' (by rw [h1]; simp [hs'])) (h2 s' hs') w hw0 hw1
  · exact hρ.some_first s.z target u (hC s (by rw [h1]; simp)) h3

/-- **Never reached.**  Infinity from the segment loop means that no segment's altitude takes the target value -/
theorem never_reached (ρ : Touch) (C : Poly → Prop) (hρ : RootSpec ρ C) (target : Rat) (segs : List ZSeg)
    (hC : ∀ s ∈ segs, C s.z) (h : earliestAbove ρ segs target = none) :
    ∀ s ∈ segs, ∀ w, 0 ≤ w → w ≤ 1 → eval s.z w ≠ target := by
  have hn : firstTouch ρ target segs = none := by
    unfold earliestAbove at h
    cases hf : firstTouch ρ target segs with
    | none => rfl
    | some p => rw [hf] at h; simp at h
  intro s hs w hw0 hw1
  exact hρ.none_means s.z target (hC s hs) ((firstTouch_none ρ target segs).mp hn s hs) w hw0 hw1

/-- the reported time is the start of that segment plus the local time scaled by its duration, hence inside it -/
theorem earliest_in_segment (ρ : Touch) (C : Poly → Prop) (hρ : RootSpec ρ C) (target : Rat) (segs : List ZSeg)
    (hC : ∀ s ∈ segs, C s.z) (e : Rat) (h : earliestAbove ρ segs target = some e) :
    ∃ s ∈ segs, ∃ u, 0 ≤ u ∧ u ≤ 1 ∧ e = s.startSec + u * s.durSec ∧ s.startSec ≤ e ∧ e ≤ s.endSec := by
  unfold earliestAbove at h
  cases hf : firstTouch ρ target segs with
  | none => rw [hf] at h; simp at h
  | some p =>
    obtain ⟨s, u⟩ := p
    rw [hf] at h
    simp only [Option.map_some, Option.some.injEq] at h
    obtain ⟨pre, post, h1, _, hu0, hu1, _, _⟩ := first_crossing ρ C hρ target segs hC s u hf
    refine ⟨s, by rw [h1]; simp, u, hu0, hu1, h.symm, ?_, ?_⟩
    · rw [← h]
      have : 0 ≤ u * s.durSec := mul_nonneg hu0 (by unfold ZSeg.durSec; positivity)
      linarith
    · rw [← h]
      have hd : 0 ≤ s.durSec := by unfold ZSeg.durSec; positivity
      have : u * s.durSec ≤ s.durSec := by nlinarith
      have he : s.endSec = s.startSec + s.durSec := by
        unfold ZSeg.endSec ZSeg.startSec ZSeg.durSec; push_cast; ring
      rw [he]; linarith

/-- **E - T, and infinity exactly when the altitude is never reached or the climb time is not finite** -/
theorem takeoff_infinite_iff (ρ : Touch) (segs : List ZSeg) (z0 h : Rat) (climb : Option Rat) :
    takeoffTime ρ segs z0 h climb = none ↔ (earliestAbove ρ segs (z0 + h) = none ∨ climb = none) := by
  unfold takeoffTime
  cases earliestAbove ρ segs (z0 + h) <;> cases climb <;> simp

theorem takeoff_value (ρ : Touch) (segs : List ZSeg) (z0 h e t : Rat)
    (he : earliestAbove ρ segs (z0 + h) = some e) : takeoffTime ρ segs z0 h (some t) = some (e - t) := by
  unfold takeoffTime; rw [he]

/-- the parameter screening: negative or non-finite ascent, non-positive or non-finite speed, non-positive
acceleration are rejected; an infinite acceleration is accepted -/
theorem params_screening :
    (∀ v a q, q < 0 → takeoffParamsValid (.fin q) v a = false) ∧
    (∀ v a, takeoffParamsValid .pinf v a = false ∧ takeoffParamsValid .nan v a = false ∧ takeoffParamsValid .ninf v a = false) ∧
    (∀ h a q, q ≤ 0 → takeoffParamsValid h (.fin q) a = false) ∧
    (∀ h a, takeoffParamsValid h .pinf a = false ∧ takeoffParamsValid h .nan a = false ∧ takeoffParamsValid h .ninf a = false) ∧
    (∀ h v q, q ≤ 0 → takeoffParamsValid h v (.fin q) = false) ∧
    (∀ h v, takeoffParamsValid h v .ninf = false) ∧
    (∀ hq vq, 0 ≤ hq → 0 < vq → takeoffParamsValid (.fin hq) (.fin vq) .pinf = true) ∧
    (∀ hq vq aq, 0 ≤ hq → 0 < vq → 0 < aq → takeoffParamsValid (.fin hq) (.fin vq) (.fin aq) = true) := by
  refine ⟨?_, ?_, ?_, ?_, ?_, ?_, ?_, ?_⟩
  · intro v a q hq; simp [takeoffParamsValid]; intros; linarith
  · intro v a; simp [takeoffParamsValid]
  · intro h a q hq; simp [takeoffParamsValid]; intros; linarith
  · intro h a; simp [takeoffParamsValid]
  · intro h v q hq; simp [takeoffParamsValid]; intros; linarith
  · intro h v; simp [takeoffParamsValid]
  · intro hq vq h1 h2; simp [takeoffParamsValid, h1, h2]
  · intro hq vq aq h1 h2 h3; simp [takeoffParamsValid, h1, h2, h3]

/-! ### the oracle for constant and linear altitude is exact -/

theorem eval_two (b a u : Rat) : eval [b, a] u = a * u + b := by simp [eval]

/-- `sb_i_poly_touches_1d/2d` (exact arithmetic) meet `RootSpec` on polynomials with at most two coefficients:
for constant and linear altitude the takeoff theorems hold of the code's own algorithm, with no oracle left -/
theorem touchesLinear_spec : RootSpec touchesLinear (fun p => p.length ≤ 2) := by
  constructor
  · intro p v hp h u hu0 hu1
    rcases p with _ | ⟨b, _ | ⟨a, _ | ⟨c, rest⟩⟩⟩
    · simp only [touchesLinear] at h
      split at h
      · cases h
      · rename_i hv; simp [eval]; exact fun h' => hv h'.symm
    · simp only [touchesLinear] at h
      split at h
      · cases h
      · rename_i hv; simp [eval]; exact fun h' => hv h'.symm
    · rw [eval_two]
      simp only [touchesLinear] at h
      by_cases ha : a = 0
      · rw [if_pos ha] at h
        split at h
        · cases h
        · rename_i hv; rw [ha]; intro h'; apply hv; linarith
      · rw [if_neg ha] at h
        split at h
        · cases h
        · split at h
          · cases h
          · rename_i h1 h2
            intro heq
            rcases lt_or_gt_of_ne ha with hneg | hpos
            · apply h2
              refine ⟨hneg, ?_, ?_⟩ <;> nlinarith
            · apply h1
              refine ⟨hpos, ?_, ?_⟩ <;> nlinarith
    · simp at hp
  · intro p v u hp h
    rcases p with _ | ⟨b, _ | ⟨a, _ | ⟨c, rest⟩⟩⟩
    · simp only [touchesLinear] at h
      split at h
      · rename_i hv
        simp only [Option.some.injEq] at h; subst h
        refine ⟨le_refl 0, by norm_num, by simp [eval, hv], ?_⟩
        intro w hw0 hw; linarith
      · cases h
    · simp only [touchesLinear] at h
      split at h
      · rename_i hv
        simp only [Option.some.injEq] at h; subst h
        refine ⟨le_refl 0, by norm_num, by simp [eval, hv], ?_⟩
        intro w hw0 hw; linarith
      · cases h
    · simp only [touchesLinear] at h
      by_cases ha : a = 0
      · rw [if_pos ha] at h
        split at h
        · rename_i hv
          simp only [Option.some.injEq] at h; subst h
          refine ⟨le_refl 0, by norm_num, by rw [eval_two, ha, hv]; ring, ?_⟩
          intro w hw0 hw; linarith
        · cases h
      · rw [if_neg ha] at h
        split at h
        · rename_i h1
          obtain ⟨hpos, hv0, hv1⟩ := h1
          simp only [Option.some.injEq] at h; subst h
          have hane : a ≠ 0 := ha
          refine ⟨div_nonneg (by linarith) (le_of_lt hpos), ?_, ?_, ?_⟩
          · rw [div_le_one hpos]; linarith
          · rw [eval_two]; field_simp; ring
          · intro w hw0 hw
            rw [eval_two]
            intro heq
            have : w = (v - b) / a := by field_simp; linarith
            linarith
        · split at h
          · rename_i h1 h2
            obtain ⟨hneg, hv0, hv1⟩ := h2
            simp only [Option.some.injEq] at h; subst h
            refine ⟨?_, ?_, ?_, ?_⟩
            · exact div_nonneg_of_nonpos (by linarith) (le_of_lt hneg)
            · rw [div_le_one_of_neg hneg]; linarith
            · rw [eval_two]; field_simp; ring
            · intro w hw0 hw
              rw [eval_two]
              intro heq
              have : w = (v - b) / a := by field_simp; linarith
              linarith
          · cases h
    · simp at hp

/-- non-vacuity: a two-segment climb 0 → 1000 → 3000 and the target 2000: the crossing is reported in the second
segment at local time 1/2 -/
example :
    (firstTouch touchesLinear 2000
      [{ startMs := 0, durMs := 1000, z := [0, 1000], x0 := 0, y0 := 0, z0 := 0, xe := 0, ye := 0, ze := 1000 },
       { startMs := 1000, durMs := 4000, z := [1000, 2000], x0 := 0, y0 := 0, z0 := 1000, xe := 0, ye := 0, ze := 3000 }]
      ).map (fun p => (p.1.startMs, p.2)) = some (1000, 1 / 2) := by
  decide +kernel

end Sb.C13
