import Sb.Model.Stats
namespace Sb.C13
end Sb.C13
