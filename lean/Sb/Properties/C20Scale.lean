/-
C20 — "the coordinate scale is raised to exactly the smallest value whose 16-bit range holds the point".

The code computes `ceilf(max_coord / 32767)` in binary32.  Rounding the quotient could, in principle, land on an
integer k although the exact quotient is slightly above k; then `k` would be chosen and the point would not fit.  It
cannot happen for a binary32 coordinate: a representable value above the integer `k·32767` exceeds it by at least one
unit in the last place of `k·32767` (`repr_gap`), and for every k = 1..127 the quotient of that neighbour still rounds
to a value above k (kernel-evaluated table `bump_table`).  Hence the new scale is exactly ⌈max/32767⌉.
-/
import Sb.Properties.C20Float
import Sb.Properties.C20Lerp

namespace Sb.C20
open Sb Sb.Utils Sb.Proofs

/-- a binary32 value above a positive integer `N < 2^24` exceeds it by at least the spacing of binary32 at `N` -/
theorem repr_gap (m : Rat) (N : Nat) (hN : 1 ≤ N) (hN2 : N < 16777216) (hm : Repr m) (hgt : (N : ℚ) < m) :
    (N : ℚ) + pow2 (floorLog2 (N : ℚ) - 23) ≤ m := by
  have hNpos : (0 : ℚ) < (N : ℚ) := by exact_mod_cast hN
  have hmpos : (0 : ℚ) < m := lt_trans hNpos hgt
  obtain ⟨s1, s2⟩ := floorLog2_spec (N : ℚ) hNpos
  set E := floorLog2 (N : ℚ) with hE
  -- 0 ≤ E ≤ 23
  have hE0 : 0 ≤ E := by
    have h1 : pow2 0 < pow2 (E + 1) := by
      have : pow2 0 = 1 := by simp [pow2]
      rw [this]
      exact lt_of_le_of_lt (by exact_mod_cast hN) s2
    have := pow2_lt_iff.mp h1
    omega
  have hE23 : E ≤ 23 := by
    have h1 : pow2 E < pow2 24 := by
      have : pow2 24 = (16777216 : ℚ) := by simp [pow2]
      rw [this]
      exact lt_of_le_of_lt s1 (by exact_mod_cast hN2)
    have := pow2_lt_iff.mp h1
    omega
  -- m is an integer multiple of 2^(floorLog2 m - 23)
  have hEm : E ≤ floorLog2 m := floorLog2_mono _ _ hNpos (le_of_lt hgt)
  have hq : qexp (floorLog2 m) = floorLog2 m - 23 := by unfold qexp; split <;> omega
  have hrep : m = (roundHalfEven (m / pow2 (qexp (floorLog2 m))) : ℚ) * pow2 (qexp (floorLog2 m)) := by
    have := roundF32_pos m hmpos
    unfold Proofs.Repr at hm
    rw [hm] at this
    exact this
  set j := roundHalfEven (m / pow2 (qexp (floorLog2 m))) with hj
  -- express both in units of u = 2^(E-23)
  obtain ⟨d, hd⟩ : ∃ d : Nat, floorLog2 m - 23 = (E - 23) + (d : Int) := ⟨(floorLog2 m - E).toNat, by omega⟩
  obtain ⟨c, hc⟩ : ∃ c : Nat, (0 : Int) = (E - 23) + (c : Int) := ⟨(23 - E).toNat, by omega⟩
  have hu : (0 : ℚ) < pow2 (E - 23) := pow2_pos _
  have hm' : m = ((j * (2 ^ d : Nat) : Int) : ℚ) * pow2 (E - 23) := by
    rw [hrep, hq, hd, pow2_add, pow2_nat]
    push_cast
    ring
  have hN' : (N : ℚ) = (((N : Int) * (2 ^ c : Nat) : Int) : ℚ) * pow2 (E - 23) := by
    have h1 : pow2 0 = pow2 (E - 23) * pow2 (c : Int) := by rw [← pow2_add, ← hc]
    have h0 : pow2 0 = 1 := by simp [pow2]
    rw [h0, pow2_nat] at h1
    push_cast
    push_cast at h1
    calc (N : ℚ) = (N : ℚ) * 1 := by ring
      _ = (N : ℚ) * (pow2 (E - 23) * (2 : ℚ) ^ c) := by rw [← h1]
      _ = (N : ℚ) * (2 : ℚ) ^ c * pow2 (E - 23) := by ring
  have hlt : (((N : Int) * (2 ^ c : Nat) : Int) : ℚ) < ((j * (2 ^ d : Nat) : Int) : ℚ) := by
    have h2 : (((N : Int) * (2 ^ c : Nat) : Int) : ℚ) * pow2 (E - 23) < ((j * (2 ^ d : Nat) : Int) : ℚ) * pow2 (E - 23) := by
      rw [← hN', ← hm']; exact hgt
    exact lt_of_mul_lt_mul_right h2 (le_of_lt hu)
  have hle : ((N : Int) * (2 ^ c : Nat) : Int) + 1 ≤ (j * (2 ^ d : Nat) : Int) := by
    have : ((N : Int) * (2 ^ c : Nat) : Int) < (j * (2 ^ d : Nat) : Int) := by exact_mod_cast hlt
    omega
  have hleq : ((((N : Int) * (2 ^ c : Nat) : Int) + 1 : Int) : ℚ) ≤ ((j * (2 ^ d : Nat) : Int) : ℚ) := by exact_mod_cast hle
  have e1 : ((((N : Int) * (2 ^ c : Nat) : Int) + 1 : Int) : ℚ) * pow2 (E - 23) = (N : ℚ) + pow2 (E - 23) := by
    have h := hN'
    push_cast at h ⊢
    rw [add_mul, one_mul, ← h]
  calc (N : ℚ) + pow2 (E - 23)
      = ((((N : Int) * (2 ^ c : Nat) : Int) + 1 : Int) : ℚ) * pow2 (E - 23) := e1.symm
    _ ≤ ((j * (2 ^ d : Nat) : Int) : ℚ) * pow2 (E - 23) := mul_le_mul_of_nonneg_right hleq (le_of_lt hu)
    _ = m := hm'.symm

/-- the binary32 neighbour above `k·32767` -/
def bump (k : Nat) : Rat := ((k * 32767 : Nat) : ℚ) + pow2 (floorLog2 ((k * 32767 : Nat) : ℚ) - 23)

/-- for every scale 1..127 the quotient of that neighbour by 32767 still rounds to a value above the scale -/
theorem bump_table : ∀ k ∈ List.range 128, 1 ≤ k → (k : ℚ) < roundF32 (bump k / 32767) := by decide +kernel

/-- **no binary32 coordinate above `k·32767` has a quotient that rounds down to `k`** -/
theorem quotient_above (k : Nat) (hk1 : 1 ≤ k) (hk : k ≤ 127) (m : Rat) (hm : Repr m) (hgt : ((k * 32767 : Nat) : ℚ) < m) :
    (k : ℚ) < rf (m / 32767) := by
  have h1 := repr_gap m (k * 32767) (by omega) (by omega) hm hgt
  have h2 : bump k / 32767 ≤ m / 32767 := by
    unfold bump
    exact div_le_div_of_nonneg_right h1 (by norm_num)
  have h3 := bump_table k (List.mem_range.mpr (by omega)) hk1
  exact lt_of_lt_of_le h3 (roundF32_mono _ _ h2)

/-- **the new scale is exactly ⌈m/32767⌉**: the point fits the new scale and does not fit the scale below -/
theorem newScale_least (m : Rat) (hm : Repr m) (hlow : (32767 : ℚ) < m) (hns : (rf (m / 32767)).ceil ≤ 127) :
    m ≤ ((rf (m / 32767)).ceil : ℚ) * 32767 ∧ (((rf (m / 32767)).ceil : ℚ) - 1) * 32767 < m ∧ 2 ≤ (rf (m / 32767)).ceil := by
  set ns := (rf (m / 32767)).ceil with hnsdef
  have hq1 : (1 : ℚ) < rf (m / 32767) := by
    have := quotient_above 1 (by omega) (by omega) m hm (by simpa using hlow)
    simpa using this
  have h2 : 2 ≤ ns := by
    have : ((1 : Int) : ℚ) < rf (m / 32767) := by simpa using hq1
    have := Rat.lt_ceil_iff.mpr this
    omega
  refine ⟨?_, ?_, h2⟩
  · -- the point fits
    by_contra hcon
    have hgt : ((ns : ℚ)) * 32767 < m := lt_of_not_ge hcon
    obtain ⟨k, hk⟩ : ∃ k : Nat, ns = (k : Int) := ⟨ns.toNat, by omega⟩
    have hgt' : ((k * 32767 : Nat) : ℚ) < m := by
      rw [hk] at hgt; push_cast; push_cast at hgt; exact hgt
    have := quotient_above k (by omega) (by omega) m hm hgt'
    have hle : rf (m / 32767) ≤ (ns : ℚ) := Rat.le_ceil
    rw [hk] at hle
    push_cast at hle
    linarith
  · -- the scale below does not
    by_contra hcon
    have hle : m ≤ ((ns : ℚ) - 1) * 32767 := le_of_not_gt hcon
    have hq : m / 32767 ≤ (((ns - 1 : Int)) : ℚ) := by
      rw [div_le_iff₀ (by norm_num)]; push_cast; exact hle
    have hr : rf (m / 32767) ≤ (((ns - 1 : Int)) : ℚ) := by
      have := roundF32_mono _ _ hq
      rwa [roundF32_intCast (ns - 1) (by omega)] at this
    have := Rat.ceil_le_iff.mpr hr
    omega

/-- the largest of the three absolute values, as the code computes it -/
theorem absR_eq (x : Rat) : absR x = |x| := by
  unfold absR
  split
  · rename_i h; rw [abs_of_neg h]
  · rename_i h; rw [abs_of_nonneg (le_of_not_gt h)]

theorem repr_abs {x : Rat} (h : Repr x) : Repr |x| := by
  rcases le_or_gt 0 x with h0 | h0
  · rwa [abs_of_nonneg h0]
  · rw [abs_of_neg h0]; exact repr_neg h

/-- **C20, scale update** for finite binary32 coordinates: with `m` the largest absolute coordinate and `s` the current
scale (0 read as 1): if `m ≤ s·32767` the scale stays; otherwise the result is the least scale whose 16-bit range holds
the point (it holds it, and the scale below does not), or overflow is reported exactly when that scale exceeds 127 -/
theorem scaleUpdate_spec (scale : Nat) (x y z : Rat) (hx : Repr x) (hy : Repr y) (hz : Repr z) :
    let s : Nat := if scale = 0 then 1 else scale
    let m : Rat := max |x| (max |y| |z|)
    (m ≤ (s : ℚ) * 32767 → scaleUpdate scale (.fin x) (.fin y) (.fin z) = .ok s) ∧
    ((s : ℚ) * 32767 < m → ∀ ns, scaleUpdate scale (.fin x) (.fin y) (.fin z) = .ok ns →
        m ≤ (ns : ℚ) * 32767 ∧ ((ns : ℚ) - 1) * 32767 < m ∧ ns ≤ 127) ∧
    ((s : ℚ) * 32767 < m → (scaleUpdate scale (.fin x) (.fin y) (.fin z) = .error .eoverflow ↔ 127 < (rf (m / 32767)).ceil)) := by
  intro s m
  -- the running maximum of the code is `m`
  have e1 : ∀ a b : Rat, (if gtF (.fin b) (.fin a) then F32.fin b else .fin a) = .fin (if b > a then b else a) := by
    intro a b
    by_cases h : b > a <;> simp [gtF, h]
  have max3 : ∀ a b c : Rat, (if c > (if b > a then b else a) then c else (if b > a then b else a)) = max a (max b c) := by
    intro a b c
    by_cases h1 : b > a
    · rw [if_pos h1]
      by_cases h2 : c > b
      · rw [if_pos h2, max_eq_right (le_of_lt h2), max_eq_right (le_of_lt (lt_trans h1 h2))]
      · rw [if_neg h2, max_eq_left (le_of_not_gt h2), max_eq_right (le_of_lt h1)]
    · rw [if_neg h1]
      by_cases h2 : c > a
      · have : b ≤ c := le_trans (le_of_not_gt h1) (le_of_lt h2)
        rw [if_pos h2, max_eq_right this, max_eq_right (le_of_lt h2)]
      · rw [if_neg h2, max_eq_left (max_le (le_of_not_gt h1) (le_of_not_gt h2))]
  have hmx : (let mx := absF (.fin x)
              let mx := if gtF (absF (.fin y)) mx then absF (.fin y) else mx
              if gtF (absF (.fin z)) mx then absF (.fin z) else mx) = F32.fin m := by
    simp only [absF, absR_eq, e1]
    congr 1
    exact max3 |x| |y| |z|
  have hrm : Repr m := by
    show Repr (max |x| (max |y| |z|))
    rcases max_choice |x| (max |y| |z|) with h | h
    · rw [h]; exact repr_abs hx
    · rw [h]
      rcases max_choice |y| |z| with h' | h'
      · rw [h']; exact repr_abs hy
      · rw [h']; exact repr_abs hz
  have hs1 : 1 ≤ s := by show 1 ≤ (if scale = 0 then 1 else scale); split <;> omega
  have hunf : scaleUpdate scale (.fin x) (.fin y) (.fin z) =
      (if gtF (F32.fin m) (.fin ((s : ℚ) * 32767)) then
        (if (rf (m / 32767)).ceil ≤ 127 then .ok (rf (m / 32767)).ceil.toNat else .error .eoverflow)
       else .ok s) := by
    unfold scaleUpdate
    simp only
    rw [hmx]
  rw [hunf]
  refine ⟨?_, ?_, ?_⟩
  · intro hle
    have : gtF (F32.fin m) (.fin ((s : ℚ) * 32767)) = false := by simp [gtF, not_lt.mpr hle]
    rw [this]; rfl
  · intro hgt ns hok
    have hg : gtF (F32.fin m) (.fin ((s : ℚ) * 32767)) = true := by simp [gtF, hgt]
    rw [hg] at hok
    simp only [if_true] at hok
    by_cases hc : (rf (m / 32767)).ceil ≤ 127
    · rw [if_pos hc] at hok
      have hns : ns = (rf (m / 32767)).ceil.toNat := by cases hok; rfl
      have hlow : (32767 : ℚ) < m := by
        have : (1 : ℚ) * 32767 ≤ (s : ℚ) * 32767 := by
          apply mul_le_mul_of_nonneg_right _ (by norm_num)
          exact_mod_cast hs1
        linarith
      obtain ⟨a1, a2, a3⟩ := newScale_least m hrm hlow hc
      have hcast : ((ns : ℚ)) = (((rf (m / 32767)).ceil : Int) : ℚ) := by
        rw [hns]
        have : (((rf (m / 32767)).ceil.toNat : Nat) : Int) = (rf (m / 32767)).ceil := Int.toNat_of_nonneg (by omega)
        exact_mod_cast this
      rw [hcast]
      refine ⟨a1, a2, ?_⟩
      rw [hns]; omega
    · rw [if_neg hc] at hok
      cases hok
  · intro hgt
    have hg : gtF (F32.fin m) (.fin ((s : ℚ) * 32767)) = true := by simp [gtF, hgt]
    rw [hg]
    simp only [if_true]
    by_cases hc : (rf (m / 32767)).ceil ≤ 127
    · rw [if_pos hc]
      constructor
      · intro h; cases h
      · intro h; omega
    · rw [if_neg hc]
      constructor
      · intro _; omega
      · intro _; rfl

/-- non-vacuity: 65535 needs scale 3 (2·32767 = 65534 < 65535) and gets it -/
example : scaleUpdate 1 (.fin 65535) (.fin (-5)) (.fin 0) = .ok 3 := by decide +kernel

end Sb.C20
