/-
C16 — a builder that has handed over its trajectory is a freshly initialised builder.

`sb_trajectory_init_from_builder` gives the builder a new buffer (header byte kept, start position zero).  The
theorems of `Sb/Properties/C16.lean` and `C16Quantum.lean` describe call sequences that start from `init`; this
file shows that they describe the sequences after a `finish` as well: for every history of calls, the builder left
behind by `finish` *is* the value `init` returned (`history_finish_restarts`).  Before the repair bb77cde of /repo
this was false — the last point of the previous trajectory survived the hand-over — and the statement below is the
one that failed.
-/
import Sb.Model.Builder

namespace Sb.C16
open Sb Sb.Builder Sb.Parsing Sb.Poly

/-- the part of a builder that no call changes: its scale and the header byte -/
def Hdr (h : UInt8) (sc : Nat) (b : Builder) : Prop :=
  b.scale = sc ∧ b.buf.take 1 = [h] ∧ 9 ≤ b.buf.length

theorem headerLength : Gen.builderHeaderLength = 9 := by decide

theorem init_spec (sc fl : Nat) (b : Builder) (h : init sc fl = .ok b) :
    ∃ hb : UInt8, b = { buf := hb :: List.replicate 8 0, last := ⟨0, 0, 0, 0⟩, scale := sc } ∧ Hdr hb sc b := by
  unfold init at h
  split at h
  · cases h
  · simp only [Except.ok.injEq] at h
    subst h
    refine ⟨UInt8.ofNat (if fl &&& 1 ≠ 0 then sc ||| 128 else sc), ?_, ?_⟩
    · simp [headerLength]
    · simp [Hdr, headerLength]

theorem take_one_append {α : Type} (l m : List α) (h : 1 ≤ l.length) : (l ++ m).take 1 = l.take 1 := by
  cases l with
  | nil => simp at h
  | cons a l => simp

theorem appendSegment_hdr (h : UInt8) (sc : Nat) (b b' : Builder) (t : Vec4) (ms : Nat)
    (hb : Hdr h sc b) (he : appendSegment b t ms = .ok b') : Hdr h sc b' := by
  unfold appendSegment at he
  simp only [bind, Except.bind, pure, Except.pure] at he
  repeat (split at he; · cases he)
  simp only [Except.ok.injEq] at he
  subst he
  obtain ⟨h1, h2, h3⟩ := hb
  refine ⟨h1, ?_, ?_⟩
  · simp only [List.append_assoc]
    rw [take_one_append _ _ (by omega)]
    exact h2
  · simp only [List.length_append]
    omega

theorem appendLineAux_hdr (h : UInt8) (sc : Nat) : ∀ (f : Nat) (b b' : Builder) (t : Vec4) (ms : Nat),
    Hdr h sc b → appendLineAux f b t ms = .ok b' → Hdr h sc b' := by
  intro f
  induction f with
  | zero => intro b b' t ms _ he; simp [appendLineAux] at he
  | succ f ih =>
    intro b b' t ms hb he
    unfold appendLineAux at he
    split at he
    · simp only [bind, Except.bind] at he
      split at he
      · cases he
      · rename_i b1 h1
        exact ih _ _ _ _ (ih _ _ _ _ hb h1) he
    · exact appendSegment_hdr h sc b b' t ms hb he

theorem appendLine_hdr (h : UInt8) (sc : Nat) (b b' : Builder) (t : Vec4) (ms : Nat)
    (hb : Hdr h sc b) (he : appendLine b t ms = .ok b') : Hdr h sc b' := by
  unfold appendLine at he
  simp only [bind, Except.bind] at he
  repeat (split at he; · cases he)
  exact appendLineAux_hdr h sc _ _ _ _ _ hb he

theorem holdForAux_hdr (h : UInt8) (sc : Nat) : ∀ (f : Nat) (b b' : Builder) (ms : Nat),
    Hdr h sc b → holdForAux f b ms = .ok b' → Hdr h sc b' := by
  intro f
  induction f with
  | zero => intro b b' ms _ he; simp [holdForAux] at he
  | succ f ih =>
    intro b b' ms hb he
    unfold holdForAux at he
    split at he
    · simp only [bind, Except.bind] at he
      split at he
      · cases he
      · rename_i b1 h1
        exact ih _ _ _ (appendLine_hdr h sc _ _ _ _ hb h1) he
    · simp only [Except.ok.injEq] at he
      subst he
      exact hb

theorem setStart_hdr (h : UInt8) (sc : Nat) (b b' : Builder) (p : Vec4)
    (hb : Hdr h sc b) (he : setStart b p = .ok b') : Hdr h sc b' := by
  unfold setStart at he
  split at he
  · cases he
  · rename_i hlen
    simp only [bind, Except.bind, pure, Except.pure] at he
    repeat (split at he; · cases he)
    simp only [Except.ok.injEq] at he
    subst he
    obtain ⟨h1, h2, h3⟩ := hb
    have hlen9 : b.buf.length = 9 := by
      have := headerLength
      simp only [ne_eq, Decidable.not_not] at hlen
      omega
    refine ⟨h1, ?_, ?_⟩
    · unfold replaceAt
      simp only [List.append_assoc]
      rw [take_one_append _ _ (by simp; omega)]
      rw [List.take_take]
      simpa using h2
    · unfold replaceAt
      simp only [List.length_append, List.length_take, List.length_drop]
      omega

/-- a call on a live builder -/
inductive Call where
  | setStart (p : Vec4)
  | appendLine (t : Vec4) (ms : Nat)
  | hold (ms : Nat)
  | finish

/-- one call; a failing call leaves the builder as it was (that it does is `appendLine_rejects` etc.) -/
def applyCall (b : Builder) : Call → Builder
  | .setStart p => match Builder.setStart b p with | .ok b' => b' | .error _ => b
  | .appendLine t ms => match Builder.appendLine b t ms with | .ok b' => b' | .error _ => b
  | .hold ms => match Builder.holdFor b ms with | .ok b' => b' | .error _ => b
  | .finish => (Builder.finish b).2

theorem finish_restarts (sc fl : Nat) (b0 b : Builder) (h : UInt8) (hi : init sc fl = .ok b0)
    (h0 : Hdr h sc b0) (hb : Hdr h sc b) : (finish b).2 = b0 := by
  obtain ⟨hb0, e0, _⟩ := init_spec sc fl b0 hi
  have hh : hb0 = h := by
    have := h0.2.1
    rw [e0] at this
    simpa using this
  subst hh
  rw [e0]
  unfold finish
  obtain ⟨h1, h2, _⟩ := hb
  simp only [h2, headerLength]
  cases b
  simp_all

theorem finish_hdr (h : UInt8) (sc : Nat) (b : Builder) (hb : Hdr h sc b) : Hdr h sc (finish b).2 := by
  obtain ⟨h1, h2, _⟩ := hb
  unfold finish
  refine ⟨h1, ?_, ?_⟩
  · simp only [h2]
    simp
  · simp only [h2, headerLength]
    simp

theorem applyCall_hdr (h : UInt8) (sc : Nat) (b : Builder) (c : Call) (hb : Hdr h sc b) : Hdr h sc (applyCall b c) := by
  cases c with
  | setStart p =>
    simp only [applyCall]
    split
    · rename_i b' he; exact setStart_hdr h sc b b' p hb he
    · exact hb
  | appendLine t ms =>
    simp only [applyCall]
    split
    · rename_i b' he; exact appendLine_hdr h sc b b' t ms hb he
    · exact hb
  | hold ms =>
    simp only [applyCall]
    split
    · rename_i b' he; exact holdForAux_hdr h sc _ b b' ms hb he
    · exact hb
  | finish => exact finish_hdr h sc b hb

/-- **After any history of calls, `finish` leaves the builder exactly as `init` made it**: same header byte, start
position zero, last point zero — so what the theorems about sequences from `init` say holds for the calls that
follow a `finish`, too. -/
theorem history_finish_restarts (sc fl : Nat) (b0 : Builder) (hi : init sc fl = .ok b0) (calls : List Call) :
    (finish (calls.foldl applyCall b0)).2 = b0 := by
  obtain ⟨hb0, _, h0⟩ := init_spec sc fl b0 hi
  have hall : ∀ (cs : List Call) (b : Builder), Hdr hb0 sc b → Hdr hb0 sc (cs.foldl applyCall b) := by
    intro cs
    induction cs with
    | nil => intro b hb; exact hb
    | cons c cs ih => intro b hb; exact ih _ (applyCall_hdr hb0 sc b c hb)
  exact finish_restarts sc fl b0 _ hb0 hi h0 (hall calls b0 h0)

/-- non-vacuity: a history with a move, a hand-over and another move -/
example : ∃ b0, init 2 1 = .ok b0 ∧
    (finish ([Call.appendLine ⟨20, 0, 10, 0⟩ 1000, .finish, .appendLine ⟨20, 0, 10, 0⟩ 1000].foldl applyCall b0)).2 = b0 :=
  ⟨_, rfl, history_finish_restarts 2 1 _ rfl _⟩

end Sb.C16
