/-
C02 — the answers of the light player in terms of its wake-up chain.

`chain prog k` is the k-th wake-up of a fresh player: the state after the first k commands-with-their-waiting have been
executed in order on a clock that starts at 0.  For a timestamp that is not a command start instant, what a player
answers — after ANY history of seeks — is the state of the chain point whose span contains the timestamp, with the
running fade evaluated at the timestamp; once the program has ended (end marker, end of the bytecode, unknown command,
invalid jump) the last colour and pyro mask are held for ever.  The next-event time is sound (`next_event_sound`).
-/
import Sb.Properties.C09History

namespace Sb.C02
open Sb Sb.Lights Sb.Proofs.Light Sb.C09

/-- **the answer at `t` is the chain state in force at `t`** (fade evaluated at `t`), or the held final state -/
theorem answer_on_chain_upTo (prog : Bytes) (H : Nat) (short : FadesShortUpTo prog H) (hist : List (Nat × Nat))
    (hH : ∀ x ∈ hist, x.1 ≤ H) (t f : Nat) (htH : t ≤ H) (p r : Player)
    (hp : seekAll (Player.fresh prog) hist = .ok p) (hr : p.seek t f = .ok r) (hni : NotInstantUpTo prog H t) :
    (∃ k, 1 ≤ k ∧ liveUpTo prog (k + 1) ∧ (chain prog k).current < t ∧ t < (chain prog k).next ∧
        r.exec.color = (stepFade (chain prog k).exec t).color ∧ r.exec.pyro = (chain prog k).exec.pyro ∧
        r.exec.ended = false ∧ r.next = (chain prog k).next) ∨
    (∃ m, 1 ≤ m ∧ liveUpTo prog m ∧ (chain prog m).exec.ended = true ∧ (chain prog m).current ≤ t ∧
        r.exec.color = (chain prog m).exec.color ∧ r.exec.pyro = (chain prog m).exec.pyro ∧ r.exec.ended = true) := by
  have ip := reachable_inv_upTo prog H short hist _ _ hH (inv_fresh prog) hp
  obtain ⟨ir, cr⟩ := seek_inv prog H short p r t f htH ip hr
  have h0 : t ≠ 0 := fun h0 => hni 0 (fun i h1 h2 => by omega) (Nat.zero_le _) (by rw [chain0_next, h0])
  rcases ir with ⟨hc, _, _⟩ | ⟨k, hk, hl, hs, hn, hc1, hc2, _, hcol⟩ | ⟨m, hm, hl, he, hd, hc⟩
  · omega
  · left
    rw [cr] at hc1 hc2 hcol
    obtain ⟨b1, b2⟩ := live_strict hni htH hk hl hc1 hc2
    exact ⟨k, hk, hl, b1, b2, hcol, hs.pyro, hs.ended.trans (hl k hk (by omega)), hn⟩
  · right
    rw [cr] at hc
    exact ⟨m, hm, hl, he, hc, hd.color, hd.pyro, hd.ended⟩

/-- the same with the hypotheses stated for the whole program (no horizon) -/
theorem answer_on_chain (prog : Bytes) (short : FadesShort prog) (hist : List (Nat × Nat)) (t f : Nat) (p r : Player)
    (hp : seekAll (Player.fresh prog) hist = .ok p) (hr : p.seek t f = .ok r) (hni : NotInstant prog t) :
    (∃ k, 1 ≤ k ∧ liveUpTo prog (k + 1) ∧ (chain prog k).current < t ∧ t < (chain prog k).next ∧
        r.exec.color = (stepFade (chain prog k).exec t).color ∧ r.exec.pyro = (chain prog k).exec.pyro ∧
        r.exec.ended = false ∧ r.next = (chain prog k).next) ∨
    (∃ m, 1 ≤ m ∧ liveUpTo prog m ∧ (chain prog m).exec.ended = true ∧ (chain prog m).current ≤ t ∧
        r.exec.color = (chain prog m).exec.color ∧ r.exec.pyro = (chain prog m).exec.pyro ∧ r.exec.ended = true) :=
  answer_on_chain_upTo prog (max t (histMax hist)) (short.upTo _) hist
    (fun x hx => le_trans (le_histMax hist x hx) (Nat.le_max_right _ _)) t f (Nat.le_max_left _ _) p r hp hr (hni.upTo _)

/-- between two wake-ups, without a fade, the answer is simply the colour the last command left -/
theorem steady_colour (prog : Bytes) (short : FadesShort prog) (hist : List (Nat × Nat)) (t f k : Nat) (p r : Player)
    (hp : seekAll (Player.fresh prog) hist = .ok p) (hr : p.seek t f = .ok r) (hni : NotInstant prog t)
    (hk : 1 ≤ k) (hl : liveUpTo prog (k + 1)) (h1 : (chain prog k).current < t) (h2 : t < (chain prog k).next)
    (hnf : (chain prog k).exec.trActive = false) :
    r.exec.color = (chain prog k).exec.color := by
  rcases answer_on_chain prog short hist t f p r hp hr hni with ⟨k', hk', hl', b1, b2, hcol, _, _, _⟩ | ⟨m, hm, hlm, he, hc, _, _, _⟩
  · have hkk : k = k' := by
      rcases Nat.lt_trichotomy k k' with hlt | heq | hgt
      · have := chain_next_le_current prog k k' hlt (hl'.mono (by omega)); omega
      · exact heq
      · have := chain_next_le_current prog k' k hgt (hl.mono (by omega)); omega
    subst hkk
    rw [hcol]
    unfold stepFade
    simp [hnf]
  · exfalso
    have hkm : k < m := by
      by_contra hge
      have := hl m hm (by omega)
      rw [this] at he
      exact absurd he (by decide)
    have := chain_next_le_current prog k m hkm hlm
    omega

/-- the next-event clause of C02, for every history (alias of the C09 development's theorem) -/
theorem next_event_sound (prog : Bytes) (short : FadesShort prog) (hist : List (Nat × Nat)) (t f : Nat) (p r : Player)
    (hp : seekAll (Player.fresh prog) hist = .ok p) (hr : p.seek t f = .ok r) (hrun : r.exec.ended = false) :
    t ≤ r.next ∧ ∀ j, liveUpTo prog j → ¬ (t < (chain prog j).next ∧ (chain prog j).next < r.next) :=
  Sb.C09.next_event_sound prog short hist t f p r hp hr hrun

end Sb.C02
