/-
C08 for the conversion the C code really performs: `secF32 ms = (float) ms / 1000.0f` rounded to binary32.
`roundF32` is monotone (`Sb.Proofs.roundF32_mono`), hence `MonoSec secF32`, hence the history-independence theorems
hold for the float time stamps with no assumption on the conversion.
-/
import Sb.Proofs.RoundF32
import Sb.Proofs.TrajNoWrap
import Sb.Properties.C08
import Sb.Properties.C01

namespace Sb.C08
open Sb Sb.Traj Sb.Proofs

/-- the float conversion of milliseconds to seconds is weakly monotone and maps 0 to 0 -/
theorem monoSec_secF32 : MonoSec secF32 := by
  constructor
  · unfold secF32; simp [roundF32_zero]
  · intro a b hab
    unfold secF32
    apply roundF32_mono
    have h1 : (a : ℚ) ≤ (b : ℚ) := by exact_mod_cast hab
    have hpos : (0 : ℚ) < ((Gen.msecPerSec : Nat) : ℚ) := by
      have : Gen.msecPerSec = 1000 := rfl
      rw [this]; norm_num
    exact div_le_div_of_nonneg_right h1 (le_of_lt hpos)

/-- **C08 (trajectory) with the real float time stamps** -/
theorem trajectory_answers_history_free_float (tr : Traj) (hw : NoWrap secF32 tr)
    (hist : List Query) (hh : ∀ q, q ∈ hist → q.valid) (q : Query) (hq : q.valid)
    (hnb : ¬ q.atBoundary secF32 tr) :
    ∃ p0 ph a, rewind secF32 tr = .ok p0 ∧ runHistory secF32 p0 hist = .ok ph ∧
      (runQuery secF32 ph q).map (·.2) = .ok a ∧ (runQuery secF32 p0 q).map (·.2) = .ok a :=
  trajectory_answers_history_free secF32 monoSec_secF32 tr hw hist hh q hq hnb

/-- **C08 (trajectory), real float time stamps, every block the container can carry** (≤ 65535 bytes): no hypothesis
on the conversion or on wrap-around is left -/
theorem trajectory_answers_history_free_of_block (buf : Bytes) (hlen : buf.length ≤ 65535) (tr : Traj)
    (hinit : Traj.init buf = .ok tr)
    (hist : List Query) (hh : ∀ q, q ∈ hist → q.valid) (q : Query) (hq : q.valid)
    (hnb : ¬ q.atBoundary secF32 tr) :
    ∃ p0 ph a, rewind secF32 tr = .ok p0 ∧ runHistory secF32 p0 hist = .ok ph ∧
      (runQuery secF32 ph q).map (·.2) = .ok a ∧ (runQuery secF32 p0 q).map (·.2) = .ok a := by
  have hb : tr.buf = buf := (C01.init_header buf tr hinit).choose_spec.choose_spec.2.1
  have hl : tr.buf.length ≤ 65535 := by rw [hb]; exact hlen
  exact trajectory_answers_history_free_float tr (noWrap_of_block secF32 tr hl) hist hh q hq hnb

/-- **C08 (yaw) with the real float time stamps, for every block the container can carry** -/
theorem yaw_answers_history_free_float (buf : Bytes) (hlen : buf.length ≤ 65535) (c : Yaw.Ctrl)
    (hinit : Yaw.init buf = .ok c) (hist : List C08Yaw.YQuery) (hh : ∀ q, q ∈ hist → q.valid)
    (q : C08Yaw.YQuery) (hq : q.valid) (hnb : ¬ q.atBoundary secF32 c) :
    ∃ p0 ph a, Yaw.rewind secF32 c = .ok p0 ∧ C08Yaw.runYHistory secF32 p0 hist = .ok ph ∧
      (C08Yaw.runYQuery secF32 ph q).map (·.2) = .ok a ∧ (C08Yaw.runYQuery secF32 p0 q).map (·.2) = .ok a :=
  C08Yaw.yaw_answers_history_free_of_block secF32 monoSec_secF32 buf hlen c hinit hist hh q hq hnb

end Sb.C08
