/-
C01 — the boundary clauses as theorems about the specified curve `posAt` (which `position_eq_spec` shows the cursor code
computes): at the start instant of a segment the position is the segment's start point, at its end instant its end
point, consecutive segments join (the end point of one is the start point of the next), and the segments the decoder
produces are chained that way, with 1..8 control points per axis.
-/
import Sb.Properties.C01
import Sb.Proofs.TrajNoWrap
import Sb.Properties.C01Seconds

namespace Sb.C01
open Sb Sb.Spec Sb.Poly Sb.Proofs Sb.Traj

/-- one axis of a segment that starts at `v`: 1..8 control points, the first being `v` -/
def AxisOK (c : List Rat) (v : Rat) : Prop := 1 ≤ c.length ∧ c.length ≤ 8 ∧ c.headD 0 = v

/-- the control points of the segments are chained from `start` -/
def Chained : List SegSpec → Vec4 → Prop
  | [], _ => True
  | s :: rest, start =>
    AxisOK s.ctrl.x start.x ∧ AxisOK s.ctrl.y start.y ∧ AxisOK s.ctrl.z start.z ∧ AxisOK s.ctrl.yaw start.yaw ∧
      Chained rest (s.endPt start)

theorem takeVals_length (f : UInt8 → UInt8 → Rat) : ∀ (k : Nat) (rest : Bytes) (vs : List Rat) (r : Bytes),
    takeVals f k rest = some (vs, r) → vs.length = k := by
  intro k
  induction k with
  | zero => intro rest vs r h; simp [takeVals] at h; rw [h.1]; rfl
  | succ k ih =>
    intro rest vs r h
    match rest, h with
    | b0 :: b1 :: rest', h =>
      simp only [takeVals] at h
      split at h
      · rename_i vs' r' hv
        cases h
        simp [ih _ _ _ hv]
      · cases h

theorem storedPoints_le (bits : Nat) : storedPoints bits ≤ 7 := by
  unfold storedPoints
  have h : bits % 4 < 4 := Nat.mod_lt _ (by decide)
  have : bits % 4 = 0 ∨ bits % 4 = 1 ∨ bits % 4 = 2 ∨ bits % 4 = 3 := by omega
  rcases this with h | h | h | h <;> rw [h] <;> decide

/-- **what the decoder produces is chained**: every axis of every segment starts at the previous end point and has 1..8
control points -/
theorem decodeSeg_axes (scale : Nat) (start : Vec4) (rest r : Bytes) (s : SegSpec) (h : decodeSeg scale start rest = some (s, r)) :
    AxisOK s.ctrl.x start.x ∧ AxisOK s.ctrl.y start.y ∧ AxisOK s.ctrl.z start.z ∧ AxisOK s.ctrl.yaw start.yaw := by
  unfold decodeSeg at h
  match rest, h with
  | hb :: d0 :: d1 :: r0, h =>
    simp only at h
    split at h
    · cases h
    · rename_i xs r1 hx
      split at h
      · cases h
      · rename_i ys r2 hy
        split at h
        · cases h
        · rename_i zs r3 hz
          split at h
          · cases h
          · rename_i ws r4 hw
            cases h
            have lx := takeVals_length _ _ _ _ _ hx
            have ly := takeVals_length _ _ _ _ _ hy
            have lz := takeVals_length _ _ _ _ _ hz
            have lw := takeVals_length _ _ _ _ _ hw
            have bx := storedPoints_le hb.toNat
            have by' := storedPoints_le (hb.toNat / 4)
            have bz := storedPoints_le (hb.toNat / 16)
            have bw := storedPoints_le (hb.toNat / 64)
            refine ⟨⟨?_, ?_, rfl⟩, ⟨?_, ?_, rfl⟩, ⟨?_, ?_, rfl⟩, ⟨?_, ?_, rfl⟩⟩ <;> simp only [List.length_cons] <;> omega

theorem decodeSegs_chained (scale : Nat) : ∀ (fuel : Nat) (start : Vec4) (rest : Bytes),
    Chained (decodeSegs scale start rest fuel) start := by
  intro fuel
  induction fuel with
  | zero => intro start rest; simp [decodeSegs, Chained]
  | succ fuel ih =>
    intro start rest
    unfold decodeSegs
    split
    · simp [Chained]
    · rename_i s r hs
      obtain ⟨a, b, c, d⟩ := decodeSeg_axes scale start rest r s hs
      exact ⟨a, b, c, d, ih _ _⟩

theorem axis_start {c : List Rat} {v : Rat} (h : AxisOK c v) : bezier c 0 = v := by
  rw [bezier_zero c h.1 h.2.1]; exact h.2.2

theorem axis_end {c : List Rat} {v : Rat} (h : AxisOK c v) : bezier c 1 = lastOr c v := by
  rw [bezier_one c h.1 h.2.1]
  unfold lastOr
  cases c with
  | nil => have := h.1; simp at this
  | cons a as => simp [List.getLastD]

/-- **at the start instant of a segment the position is its start point** -/
theorem posAt_segment_start (s : SegSpec) (rest : List SegSpec) (start : Vec4) (T : Nat)
    (hc : Chained (s :: rest) start) (hd : 1 ≤ s.durMs) :
    posAt (s :: rest) start T ((T : Rat) / 1000) = start := by
  obtain ⟨hx, hy, hz, hw, _⟩ := hc
  unfold posAt
  have hle : (T : Rat) / 1000 ≤ ((T + s.durMs : Nat) : Rat) / 1000 := by
    apply div_le_div_of_nonneg_right _ (by norm_num)
    exact_mod_cast Nat.le_add_right T s.durMs
  rw [if_pos hle]
  have hu : ((T : Rat) / 1000 - (T : Rat) / 1000) / ((s.durMs : Rat) / 1000) = 0 := by simp
  simp only [hu, Vec4.ofAxes, axis_start hx, axis_start hy, axis_start hz, axis_start hw]

/-- **at the end instant of a segment the position is its end point** -/
theorem posAt_segment_end (s : SegSpec) (rest : List SegSpec) (start : Vec4) (T : Nat)
    (hc : Chained (s :: rest) start) (hd : 1 ≤ s.durMs) :
    posAt (s :: rest) start T (((T + s.durMs : Nat) : Rat) / 1000) = s.endPt start := by
  obtain ⟨hx, hy, hz, hw, _⟩ := hc
  unfold posAt
  rw [if_pos (le_refl _)]
  have hdpos : (0 : Rat) < (s.durMs : Rat) := by exact_mod_cast hd
  have hu : (((T + s.durMs : Nat) : Rat) / 1000 - (T : Rat) / 1000) / ((s.durMs : Rat) / 1000) = 1 := by
    push_cast
    field_simp
    ring
  simp only [hu, Vec4.ofAxes, axis_end hx, axis_end hy, axis_end hz, axis_end hw, SegSpec.endPt]

/-- **segments join**: at the boundary instant the curve of the ending segment and the curve of the starting segment
give the same point -/
theorem posAt_joins (s s2 : SegSpec) (rest : List SegSpec) (start : Vec4) (T : Nat)
    (hc : Chained (s :: s2 :: rest) start) (hd : 1 ≤ s.durMs) (hd2 : 1 ≤ s2.durMs) :
    posAt (s :: s2 :: rest) start T (((T + s.durMs : Nat) : Rat) / 1000) =
      posAt (s2 :: rest) (s.endPt start) (T + s.durMs) (((T + s.durMs : Nat) : Rat) / 1000) := by
  rw [posAt_segment_end s (s2 :: rest) start T hc hd]
  exact (posAt_segment_start s2 rest (s.endPt start) (T + s.durMs) hc.2.2.2.2 hd2).symm

/-- at time zero a non-empty trajectory is at its start point -/
theorem posAt_zero (s : SegSpec) (rest : List SegSpec) (start : Vec4) (hc : Chained (s :: rest) start) (hd : 1 ≤ s.durMs) :
    posAt (s :: rest) start 0 0 = start := by
  have := posAt_segment_start s rest start 0 hc hd
  simpa using this

/-! ### the position theorem without its wrap-around side condition -/

theorem decodeSegs_durMs (scale : Nat) : ∀ (fuel : Nat) (start : Vec4) (rest : Bytes) (s : SegSpec),
    s ∈ decodeSegs scale start rest fuel → s.durMs ≤ 65535 := by
  intro fuel
  induction fuel with
  | zero => intro start rest s h; simp [decodeSegs] at h
  | succ fuel ih =>
    intro start rest s h
    unfold decodeSegs at h
    split at h
    · simp at h
    · rename_i s0 r hs
      rcases List.mem_cons.mp h with rfl | h'
      · exact decodeSeg_durMs scale start rest _ r hs
      · exact ih _ _ s h'

theorem totalMs_le (segs : List SegSpec) (h : ∀ s ∈ segs, s.durMs ≤ 65535) : totalMs segs ≤ segs.length * 65535 := by
  unfold totalMs
  induction segs with
  | nil => simp
  | cons x xs ih =>
    have h1 := h x (List.mem_cons_self)
    have h2 := ih (fun y hy => h y (List.mem_cons_of_mem _ hy))
    simp only [List.map_cons, List.sum_cons, List.length_cons]
    rw [Nat.succ_mul]
    omega

/-- **C01 for every block the container can carry** (at most 65535 bytes): the millisecond counter cannot wrap -/
theorem position_eq_spec_of_block (buf : Bytes) (tr : Traj) (hd : HeaderSpec) (segs : List SegSpec)
    (hinit : Traj.init buf = .ok tr) (hsegs : segmentsOf buf = some (hd, segs)) (hlen : buf.length ≤ 65535)
    (hdur : ∀ s, s ∈ segs → 1 ≤ s.durMs) (t : QTime) (ht : t.valid) :
    (do let p0 ← rewind secExact tr; positionAt secExact p0 t : R (Player × Vec4)).map (·.2)
      = .ok (posAtQ segs hd.start 0 t) := by
  apply position_eq_spec buf tr hd segs hinit hsegs hdur _ t ht
  unfold segmentsOf at hsegs
  cases hh : decodeHeader buf with
  | none => rw [hh] at hsegs; cases hsegs
  | some hr =>
    obtain ⟨h, rest⟩ := hr
    rw [hh] at hsegs
    simp only [Option.some.injEq, Prod.mk.injEq] at hsegs
    obtain ⟨rfl, rfl⟩ := hsegs
    have hrest : rest.length + 9 = buf.length := by
      unfold decodeHeader at hh
      rcases buf with _ | ⟨f, _ | ⟨x0, _ | ⟨x1, _ | ⟨y0, _ | ⟨y1, _ | ⟨z0, _ | ⟨z1, _ | ⟨w0, _ | ⟨w1, r⟩⟩⟩⟩⟩⟩⟩⟩⟩ <;>
        simp at hh
      obtain ⟨_, rfl⟩ := hh
      simp
    split
    · simp [totalMs]
    · have h1 := decodeSegs_length_le h.scale rest.length h.start rest
      have h2 := totalMs_le _ (decodeSegs_durMs h.scale rest.length h.start rest)
      have h3 : (decodeSegs h.scale h.start rest rest.length).length * 65535 ≤ 65526 * 65535 :=
        Nat.mul_le_mul_right _ (by omega)
      omega

end Sb.C01
