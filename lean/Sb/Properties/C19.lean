/-
C19 — Binary codecs are exact inverses and respect their buffers.

Only property theorems and non-vacuity examples live here; helper lemmas are in
`Sb/Proofs/Parsing.lean`.  Model: `Sb/Model/Parsing.lean`, `Sb/Model/Colors.lean`.
-/
import Sb.Proofs.Parsing
import Sb.Proofs.Rgb565

namespace Sb.C19
open Sb Sb.Parsing Sb.Spec Sb.Proofs Sb.Colors

/-! ### fixed-width integers: write then parse returns the value, offset advances by the size,
bytes are little-endian -/

theorem parse_write_u16 (pre post : Bytes) (v : Nat) (hv : v < 65536) :
    parseU16 (pre ++ writeU16 v ++ post) pre.length = .ok (v, pre.length + 2) := by
  unfold parseU16
  have h0 := rd_append_add pre (writeU16 v) post 0 (by simp [writeU16])
  have h1 := rd_append_add pre (writeU16 v) post 1 (by simp [writeU16])
  simp only [Nat.add_zero] at h0
  rw [h1, h0]
  simp [writeU16, bind, Except.bind, pure, Except.pure, Nat.shiftLeft_eq]
  omega

theorem parse_write_i16 (pre post : Bytes) (v : Int) (h1 : -32768 ≤ v) (h2 : v < 32768) :
    parseI16 (pre ++ writeI16 v ++ post) pre.length = .ok (v, pre.length + 2) := by
  unfold parseI16 writeI16
  have hlt : ofInt16 v < 65536 := by unfold ofInt16; omega
  rw [parse_write_u16 pre post _ hlt]
  simp only [bind, Except.bind, pure, Except.pure, toInt16, ofInt16]
  congr 2
  by_cases h : (v % 65536).toNat < 32768 <;> simp only [h, if_true, if_false] <;> omega

theorem parse_write_u32 (pre post : Bytes) (v : Nat) (hv : v < 4294967296) :
    parseU32 (pre ++ writeU32 v ++ post) pre.length = .ok (v, pre.length + 4) := by
  unfold parseU32
  have h0 := rd_append_add pre (writeU32 v) post 0 (by simp [writeU32])
  have h1 := rd_append_add pre (writeU32 v) post 1 (by simp [writeU32])
  have h2 := rd_append_add pre (writeU32 v) post 2 (by simp [writeU32])
  have h3 := rd_append_add pre (writeU32 v) post 3 (by simp [writeU32])
  simp only [Nat.add_zero] at h0
  rw [h3, h2, h1, h0]
  simp [writeU32, bind, Except.bind, pure, Except.pure, Nat.shiftLeft_eq]
  omega

theorem parse_write_i32 (pre post : Bytes) (v : Int) (h1 : -2147483648 ≤ v) (h2 : v < 2147483648) :
    parseI32 (pre ++ writeI32 v ++ post) pre.length = .ok (v, pre.length + 4) := by
  unfold parseI32 writeI32
  have hlt : ofInt32 v < 4294967296 := by unfold ofInt32; omega
  rw [parse_write_u32 pre post _ hlt]
  simp only [bind, Except.bind, pure, Except.pure, toInt32, ofInt32]
  congr 2
  by_cases h : (v % 4294967296).toNat < 2147483648 <;> simp only [h, if_true, if_false] <;> omega

/-- little-endian byte order: least significant byte first -/
theorem write_u16_little_endian (v : Nat) (hv : v < 65536) :
    ((writeU16 v).map (·.toNat)) = [v % 256, v / 256] := by
  simp [writeU16]; omega

theorem write_u32_little_endian (v : Nat) (hv : v < 4294967296) :
    ((writeU32 v).map (·.toNat)) = [v % 256, v / 256 % 256, v / 65536 % 256, v / 16777216] := by
  simp [writeU32]; omega

/-! ### variable-length unsigned integer -/

/-- Full specification: with `k` the first byte at or after `off` (below `n`) without
continuation bit — none ⇒ parse error; value fits 32 bits and the encoding has ≤ 5 bytes ⇒ that
value, offset just after the encoding; otherwise overflow, offset just after the encoding. -/
theorem varuint_spec (b : Bytes) (n off : Nat) (hn : n ≤ b.length) :
    parseVaruint32 b n off = varuintSpec b n off :=
  parseVaruint32_eq_spec b n off hn

/-- The decoder never reads at or beyond the stated length `n`: its result is unchanged when
everything from position `n` on is cut away, and it never faults (every access is guarded). -/
theorem varuint_reads_below_n (b : Bytes) (n off : Nat) (hn : n ≤ b.length) :
    parseVaruint32 b n off = parseVaruint32 (b.take n) n off ∧ parseVaruint32 b n off ≠ .fault := by
  have h1 := parseVaruint32_eq_spec b n off hn
  have h2 := parseVaruint32_eq_spec (b.take n) n off (by simp [List.length_take]; omega)
  refine ⟨?_, ?_⟩
  · rw [h1, h2]; unfold varuintSpec; rw [List.take_take]; simp
  · rw [h1]; unfold varuintSpec
    cases scan (List.drop off (List.take n b)) with
    | none => simp
    | some p => simp only; split <;> simp

/-! ### RGB565 -/

/-- decoding any RGB565 code and re-encoding it gives the code back -/
theorem rgb565_decode_encode (c : Nat) (h : c < 65536) :
    (let (r, g, b) := decodeRgb565 c; encodeRgb565 r g b) = c := by
  have := List.all_eq_true.mp rt565_all c (List.mem_range.mpr h)
  simpa [rt565] using this

/-- encoding any 24-bit colour keeps the top 5/6/5 bits of the channels -/
theorem rgb565_encode_keeps_top_bits (r g b : Nat) (hr : r < 256) (hg : g < 256) (hb : b < 256) :
    encodeRgb565 r g b = (r / 8) * 2048 + (g / 4) * 32 + b / 8 := by
  have hR := List.all_eq_true.mp chan_all r (List.mem_range.mpr hr)
  have hG := List.all_eq_true.mp chan_all g (List.mem_range.mpr hg)
  have hB := List.all_eq_true.mp chan_all b (List.mem_range.mpr hb)
  simp only [chan5, chan6, Bool.and_eq_true, beq_iff_eq] at hR hG hB
  unfold encodeRgb565
  rw [hR.1, hG.2, hB.1]
  have h1 : (g / 4) <<< 5 + b / 8 = (g / 4) <<< 5 ||| b / 8 :=
    Nat.shiftLeft_add_eq_or_of_lt (by omega) _
  have h2 : (r / 8) <<< 11 + ((g / 4) <<< 5 + b / 8) = (r / 8) <<< 11 ||| ((g / 4) <<< 5 + b / 8) := by
    apply Nat.shiftLeft_add_eq_or_of_lt
    rw [Nat.shiftLeft_eq]; omega
  rw [Nat.or_assoc, ← h1, ← h2, Nat.shiftLeft_eq, Nat.shiftLeft_eq]
  omega

/-! ### non-vacuity: concrete non-trivial instances meet the hypotheses -/

example : parseU16 ([0xAA] ++ writeU16 0xBEEF ++ [0x55]) 1 = .ok (0xBEEF, 3) :=
  parse_write_u16 [0xAA] [0x55] 0xBEEF (by decide)
example : parseI32 ([] ++ writeI32 (-2) ++ []) 0 = .ok (-2, 4) :=
  parse_write_i32 [] [] (-2) (by decide) (by decide)
example : parseVaruint32 [0xff, 0xff, 0xff, 0xff, 0x0f, 0x99] 6 0 = .ok 4294967295 5 := by
  rw [varuint_spec _ _ _ (by decide)]; decide
example : parseVaruint32 [0xff, 0xff, 0xff, 0xff, 0x1f, 0x99] 6 0 = .overflow 5 := by
  rw [varuint_spec _ _ _ (by decide)]; decide
example : parseVaruint32 [0x80, 0x80, 0x80, 0x80, 0x80, 0x00] 6 0 = .overflow 6 := by
  rw [varuint_spec _ _ _ (by decide)]; decide
example : parseVaruint32 [0x80, 0x80] 2 0 = .parse 2 := by
  rw [varuint_spec _ _ _ (by decide)]; decide
example : parseVaruint32 [0x80, 0x01, 0x7f] 2 2 = .parse 2 := by
  rw [varuint_spec _ _ _ (by decide)]; decide

end Sb.C19
