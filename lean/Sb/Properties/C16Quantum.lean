/-
C16 / C12 — "within one quantum": every coordinate the builder accepts is stored as an int16 multiple of the scale that
differs from the requested coordinate by at most one scale unit (and the stored value is the floor of the exact
quotient or its successor).  Proven from the monotonicity of binary32 rounding and the exact representability of the
integers up to 2^24 (`Sb/Proofs/RoundF32.lean`); the float division of the C code is the correctly rounded one.
-/
import Sb.Proofs.RoundF32
import Sb.Properties.C16
import Sb.Properties.C16Restart

namespace Sb.C16
open Sb Sb.Builder Sb.Poly Sb.Proofs

/-- an accepted coordinate has a quotient far inside the exactly representable integers -/
theorem scaleCoord_quotient_small (b : Builder) (c : Rat) (s : Int) (h : scaleCoord b c = .ok s) :
    |c / (b.scale : Rat)| ≤ 16777215 := by
  unfold scaleCoord rf at h
  simp only at h
  split at h
  · cases h
  · rename_i hrange
    injection h with h
    have hs1 : -32768 ≤ (roundF32 (c / (b.scale : Rat))).floor := by omega
    have hs2 : (roundF32 (c / (b.scale : Rat))).floor ≤ 32767 := by omega
    rw [abs_le]
    constructor
    · by_contra hc
      have hlt : c / (b.scale : Rat) < -16777215 := lt_of_not_ge hc
      have hm := roundF32_mono _ _ (le_of_lt hlt)
      have hi : roundF32 ((-16777215 : Int) : ℚ) = ((-16777215 : Int) : ℚ) := roundF32_intCast _ (by decide)
      have : roundF32 (c / (b.scale : Rat)) ≤ -16777215 := by
        have h1 : ((-16777215 : Int) : ℚ) = (-16777215 : ℚ) := by norm_num
        rw [h1] at hi; rw [hi] at hm; exact hm
      have hfl : ((roundF32 (c / (b.scale : Rat))).floor : ℚ) ≤ -16777215 := le_trans (Rat.floor_le _) this
      have : (roundF32 (c / (b.scale : Rat))).floor ≤ (-16777215 : Int) := by exact_mod_cast hfl
      omega
    · by_contra hc
      have hlt : (16777215 : ℚ) < c / (b.scale : Rat) := lt_of_not_ge hc
      have hm := roundF32_mono _ _ (le_of_lt hlt)
      have hi : roundF32 ((16777215 : Int) : ℚ) = ((16777215 : Int) : ℚ) := roundF32_intCast _ (by decide)
      have : (16777215 : ℚ) ≤ roundF32 (c / (b.scale : Rat)) := by
        have h1 : ((16777215 : Int) : ℚ) = (16777215 : ℚ) := by norm_num
        rw [h1] at hi; rw [hi] at hm; exact hm
      have : (16777215 : Int) ≤ (roundF32 (c / (b.scale : Rat))).floor := Rat.le_floor_iff.mpr (by exact_mod_cast this)
      omega

/-- **Within one quantum.**  A coordinate `c` accepted by the builder at scale `sc` is stored as the integer `s` with
`|c - s·sc| ≤ sc`; moreover `s` is the floor of `c/sc` or that plus one, and fits in an int16. -/
theorem scaleCoord_within_quantum (b : Builder) (c : Rat) (s : Int) (hsc : 0 < b.scale) (h : scaleCoord b c = .ok s) :
    |c - (s : Rat) * (b.scale : Rat)| ≤ (b.scale : Rat) ∧ -32768 ≤ s ∧ s ≤ 32767 ∧
      ((c / (b.scale : Rat)).floor ≤ s ∧ s ≤ (c / (b.scale : Rat)).floor + 1) := by
  have hq := scaleCoord_quotient_small b c s h
  obtain ⟨h1, h2, h3, h4⟩ := floor_round_within_one (c / (b.scale : Rat)) hq
  have hs : s = (roundF32 (c / (b.scale : Rat))).floor := by
    unfold scaleCoord rf at h
    simp only at h
    split at h
    · cases h
    · injection h with h; exact h.symm
  have hrange : -32768 ≤ s ∧ s ≤ 32767 := by
    unfold scaleCoord rf at h
    simp only at h
    split at h
    · cases h
    · rename_i hr
      injection h with h
      rw [← h]; omega
  have hpos : (0 : ℚ) < (b.scale : Rat) := by exact_mod_cast hsc
  refine ⟨?_, hrange.1, hrange.2, by rw [hs]; exact h3, by rw [hs]; exact h4⟩
  rw [hs, abs_le]
  have hc : c = c / (b.scale : Rat) * (b.scale : Rat) := by field_simp
  constructor
  · -- c - s·sc ≥ -sc  ⇐  s ≤ c/sc + 1
    have : ((roundF32 (c / (b.scale : Rat))).floor : ℚ) * (b.scale : Rat) ≤ (c / (b.scale : Rat) + 1) * (b.scale : Rat) :=
      mul_le_mul_of_nonneg_right h1 (le_of_lt hpos)
    rw [add_mul, one_mul, ← hc] at this
    linarith
  · -- c - s·sc ≤ sc  ⇐  c/sc - 1 < s
    have : (c / (b.scale : Rat) - 1) * (b.scale : Rat) < ((roundF32 (c / (b.scale : Rat))).floor : ℚ) * (b.scale : Rat) :=
      mul_lt_mul_of_pos_right h2 hpos
    rw [sub_mul, one_mul, ← hc] at this
    linarith

/-! ### a validated target never fails half-way -/

/-- a coordinate the builder can take: a binary32 value whose quantised quotient fits an int16 -/
def ValidC (b : Builder) (c : Rat) : Prop := Repr c ∧ ∃ s, scaleCoord b c = .ok s
def ValidPt (b : Builder) (p : Vec4) : Prop := ValidC b p.x ∧ ValidC b p.y ∧ ValidC b p.z

theorem scaleCoord_val (b : Builder) (c : Rat) (s : Int) (h : scaleCoord b c = .ok s) :
    s = (roundF32 (c / (b.scale : Rat))).floor ∧ -32768 ≤ s ∧ s ≤ 32767 := by
  unfold scaleCoord rf at h
  simp only at h
  split at h
  · cases h
  · injection h with h
    refine ⟨h.symm, ?_, ?_⟩ <;> omega

/-- anything between two acceptable coordinates is acceptable (monotone rounding, monotone floor) -/
theorem scaleCoord_between (b : Builder) (lo hi c : Rat) (slo shi : Int) (hlo : scaleCoord b lo = .ok slo)
    (hhi : scaleCoord b hi = .ok shi) (h1 : lo ≤ c) (h2 : c ≤ hi) : ∃ s, scaleCoord b c = .ok s := by
  obtain ⟨e1, r1, _⟩ := scaleCoord_val b lo slo hlo
  obtain ⟨e2, _, r2⟩ := scaleCoord_val b hi shi hhi
  have hsc : (0 : ℚ) ≤ (b.scale : Rat) := by exact_mod_cast Nat.zero_le _
  have m1 : (roundF32 (lo / (b.scale : Rat))).floor ≤ (roundF32 (c / (b.scale : Rat))).floor :=
    Rat.floor_monotone (roundF32_mono _ _ (div_le_div_of_nonneg_right h1 hsc))
  have m2 : (roundF32 (c / (b.scale : Rat))).floor ≤ (roundF32 (hi / (b.scale : Rat))).floor :=
    Rat.floor_monotone (roundF32_mono _ _ (div_le_div_of_nonneg_right h2 hsc))
  refine ⟨(roundF32 (c / (b.scale : Rat))).floor, ?_⟩
  unfold scaleCoord rf
  simp only
  rw [if_neg]
  omega

theorem validC_scale (b b' : Builder) (h : b'.scale = b.scale) (c : Rat) : ValidC b c → ValidC b' c := by
  rintro ⟨hr, s, hs⟩
  refine ⟨hr, s, ?_⟩
  unfold scaleCoord at hs ⊢
  rw [h]; exact hs

theorem validPt_scale (b b' : Builder) (h : b'.scale = b.scale) (p : Vec4) : ValidPt b p → ValidPt b' p := by
  rintro ⟨hx, hy, hz⟩
  exact ⟨validC_scale b b' h _ hx, validC_scale b b' h _ hy, validC_scale b b' h _ hz⟩

/-- the float midpoint of two acceptable coordinates is acceptable -/
theorem validC_mid (b : Builder) (p q : Rat) (hp : ValidC b p) (hq : ValidC b q) :
    ValidC b (rf (rf (p + q) / 2)) := by
  obtain ⟨rp, sp, hsp⟩ := hp
  obtain ⟨rq, sq, hsq⟩ := hq
  refine ⟨repr_round _, ?_⟩
  rcases le_total p q with hpq | hqp
  · obtain ⟨m1, m2⟩ := midpoint_between p q hpq rp rq
    exact scaleCoord_between b p q _ sp sq hsp hsq m1 m2
  · obtain ⟨m1, m2⟩ := midpoint_between q p hqp rq rp
    rw [add_comm] at m1 m2
    exact scaleCoord_between b q p _ sq sp hsq hsp m1 m2

theorem cond_write (c : Prop) [Decidable c] (s : Int) :
    (if c then (Except.ok s : R Int).map Parsing.writeI16 else (pure [] : R Bytes)) =
      .ok (if c then Parsing.writeI16 s else []) := by
  split <;> rfl

theorem appendSegment_ok (b : Builder) (t : Vec4) (ms : Nat) (ht : ValidPt b t) :
    ∃ b', appendSegment b t ms = .ok b' ∧ b'.last = t ∧ b'.scale = b.scale := by
  obtain ⟨⟨_, sx, hx⟩, ⟨_, sy, hy⟩, ⟨_, sz, hz⟩⟩ := ht
  unfold appendSegment
  simp only [hx, hy, hz]
  rw [cond_write (b.last.x ≠ t.x) sx, cond_write (b.last.y ≠ t.y) sy, cond_write (b.last.z ≠ t.z) sz]
  simp only [bind, Except.bind, pure, Except.pure]
  exact ⟨_, rfl, rfl, rfl⟩

/-- **an accepted target never fails half-way**: with a valid last point and a valid target the recursive splitting
succeeds at every level (every midpoint is again acceptable), ends at the target and keeps the scale -/
theorem appendLineAux_ok : ∀ (f : Nat) (b : Builder) (t : Vec4) (ms : Nat), ms ≤ 60000 * 2 ^ f →
    ValidPt b b.last → ValidPt b t →
    ∃ b', appendLineAux (f + 1) b t ms = .ok b' ∧ b'.last = t ∧ b'.scale = b.scale := by
  intro f
  induction f with
  | zero =>
    intro b t ms hms _ ht
    have hmax : Gen.builderMaxDurationMsec = 60000 := rfl
    unfold appendLineAux
    rw [hmax, if_neg (by omega)]
    exact appendSegment_ok b t ms ht
  | succ f ih =>
    intro b t ms hms hl ht
    have hmax : Gen.builderMaxDurationMsec = 60000 := rfl
    unfold appendLineAux
    rw [hmax]
    by_cases hm : ms > 60000
    · rw [if_pos hm]
      have hp : 2 ^ (f + 1) = 2 * 2 ^ f := by rw [Nat.pow_succ]; ring
      have hhalf : ms / 2 ≤ 60000 * 2 ^ f := by rw [hp] at hms; omega
      have hrest : ms - ms / 2 ≤ 60000 * 2 ^ f := by rw [hp] at hms; omega
      have hmid : ValidPt b ⟨rf (rf (b.last.x + t.x) / 2), rf (rf (b.last.y + t.y) / 2), rf (rf (b.last.z + t.z) / 2),
          rf (rf (b.last.yaw + t.yaw) / 2)⟩ :=
        ⟨validC_mid b _ _ hl.1 ht.1, validC_mid b _ _ hl.2.1 ht.2.1, validC_mid b _ _ hl.2.2 ht.2.2⟩
      obtain ⟨b1, h1, hl1, hs1⟩ := ih b _ (ms / 2) hhalf hl hmid
      simp only [bind, Except.bind, h1]
      have hl1' : ValidPt b1 b1.last := by rw [hl1]; exact validPt_scale b b1 hs1 _ hmid
      obtain ⟨b2, h2, hl2, hs2⟩ := ih b1 t (ms - ms / 2) hrest hl1' (validPt_scale b b1 hs1 _ ht)
      exact ⟨b2, h2, hl2, by rw [hs2, hs1]⟩
    · rw [if_neg hm]
      exact appendSegment_ok b t ms ht

/-- **`sb_trajectory_builder_append_line` fails only in its validation**: for binary32 arguments, a builder whose last
point is valid and any duration below 2^32 ms, the call succeeds whenever the target passes the validation — so a
failing call has written nothing -/
theorem appendLine_ok (b : Builder) (t : Vec4) (ms : Nat) (hms : ms < 4294967296)
    (hl : ValidPt b b.last) (ht : ValidPt b t) :
    ∃ b', appendLine b t ms = .ok b' ∧ b'.last = t ∧ b'.scale = b.scale := by
  have ht' : ValidPt b t := ht
  obtain ⟨⟨_, sx, hx⟩, ⟨_, sy, hy⟩, ⟨_, sz, hz⟩⟩ := ht
  unfold appendLine
  simp only [hx, hy, hz, bind, Except.bind]
  apply appendLineAux_ok 33 b t ms _ hl ht'
  have : (2 : Nat) ^ 33 = 8589934592 := by norm_num
  omega

/-- the origin (the builder's initial last point) is valid at every scale -/
theorem validPt_origin (b : Builder) : ValidPt b ⟨0, 0, 0, 0⟩ := by
  have h : ValidC b 0 := by
    refine ⟨repr_zero, 0, ?_⟩
    unfold scaleCoord rf
    simp only [zero_div, roundF32_zero]
    have : (0 : ℚ).floor = 0 := by simpa using Rat.floor_intCast 0
    rw [this]; simp
  exact ⟨h, h, h⟩

/-- non-vacuity: 12345.75 at scale 10 is stored as 1234 (12340), 5.75 below the request -/
example : scaleCoord { buf := [], last := ⟨0, 0, 0, 0⟩, scale := 10 } (49383 / 4) = .ok 1234 := by decide +kernel

end Sb.C16
