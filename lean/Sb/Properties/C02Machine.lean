/-
C02 — light programs WITH LOOPS against a command-level abstract machine.

`LCmd` adds LOOP_BEGIN n / LOOP_END and RESET_CLOCK to the straight-line commands; `encodeL cs` is the bytecode.  The abstract machine
`am cs k` (Sb/Proofs/LightMachine.lean, 25 lines) is the documented meaning: an index into the command list, a loop stack
of at most four (first body command, iterations left; 0 = forever; a fifth LOOP_BEGIN is ignored), the program time, the
clock origin (moved by RESET_CLOCK; WAIT_UNTIL counts from it), the colour in effect and the pyro mask; one step executes one command.  For every program whose machine run leaves the
command list after `K` steps within 2^24 ms (`Terminates`), EVERY history of seeks and every timestamp that is not a
machine step instant:

* between machine step `k` and `k+1` the answer is the machine's: the colour in effect — inside a fade the exact linear
  interpolation from the colour the machine had when the fade started —, the machine's pyro mask, not ended;
* after the last step the program has ended and holds the machine's last colour and pyro mask.

`loop_unrolled` shows on the machine that a loop of straight commands repeats its body the stated number of times.
-/
import Sb.Proofs.LightMachine
import Sb.Properties.C02Timeline

namespace Sb.C02
open Sb Sb.Lights Sb.Proofs Sb.Proofs.Light Sb.C09

/-- the machine's colour while command `c`, started from machine state `m`, is in force, at time `t` -/
def specM (c : Cmd) (m : MState) (t : Nat) : Color :=
  match c with
  | .fade en r g b d =>
    if d = 0 then (r, g, b)
    else lerp m.col (r, g, b) (((t - m.T : Nat) : ℚ) / ((20 * d : Nat) : ℚ))
  | _ => c.colour m.col

/-- the machine leaves the command list after `K` steps, within 2^24 ms -/
structure Terminates (cs : List LCmd) (K : Nat) : Prop where
  k1 : 1 ≤ K
  live : LiveM cs K
  off : cs.length ≤ (am cs K).idx
  time : ∀ j, j ≤ K → (am cs j).m.T ≤ 16777216

theorem liveM_mono {cs : List LCmd} {K j : Nat} (h : LiveM cs K) (hj : j ≤ K) : LiveM cs j :=
  fun i hi => h i (by omega)

theorem am_T_mono_le (cs : List LCmd) (K : Nat) (hl : LiveM cs K) : ∀ i j, i ≤ j → j ≤ K → (am cs i).m.T ≤ (am cs j).m.T := by
  intro i j hij
  induction j with
  | zero => intro _; have : i = 0 := by omega
            subst this; exact Nat.le_refl _
  | succ j ih =>
    intro hj
    by_cases h : i = j + 1
    · subst h; exact Nat.le_refl _
    · have := ih (by omega) (by omega)
      have := am_T_mono cs j (liveM_mono hl hj)
      omega

theorem mchain (cs : List LCmd) (hw : WFL cs) (K : Nat) (ht : Terminates cs K) (j : Nat) (h1 : 1 ≤ j) (hj : j ≤ K) :
    (chain (encodeL cs) j).exec.ended = false ∧ (chain (encodeL cs) j).current = (am cs (j - 1)).m.T ∧
    (chain (encodeL cs) j).next = (am cs j).m.T := by
  obtain ⟨i, rfl⟩ : ∃ i, j = i + 1 := ⟨j - 1, by omega⟩
  obtain ⟨f, _, c1, c2⟩ := machine_chain cs hw i (liveM_mono ht.live hj) (fun q hq => ht.time q (by omega))
  exact ⟨f.ended, c1, c2⟩

theorem mchain_live (cs : List LCmd) (hw : WFL cs) (K : Nat) (ht : Terminates cs K) : liveUpTo (encodeL cs) (K + 1) :=
  fun i h1 h2 => (mchain cs hw K ht i h1 (by omega)).1

theorem m_not_live_beyond (cs : List LCmd) (hw : WFL cs) (K : Nat) (ht : Terminates cs K) (k : Nat) (hk : K + 1 ≤ k) :
    ¬ liveUpTo (encodeL cs) (k + 1) := by
  intro h
  have := h (K + 1) (by omega) (by omega)
  rw [(machine_end cs hw K ht.k1 ht.live ht.off ht.time).1] at this
  exact absurd this (by decide)

theorem m_fades_short (cs : List LCmd) (hw : WFL cs) (K : Nat) (ht : Terminates cs K) : FadesShort (encodeL cs) := by
  intro k hl ha
  by_cases hk : K + 1 ≤ k
  · exact absurd hl (m_not_live_beyond cs hw K ht k hk)
  · by_cases hk0 : k = 0
    · subst hk0
      have : (chain (encodeL cs) 0).exec.trActive = false := (fresh_exec (encodeL cs)).2.1
      rw [this] at ha; exact absurd ha (by decide)
    · obtain ⟨i, rfl⟩ : ∃ i, k = i + 1 := ⟨k - 1, by omega⟩
      have hli : LiveM cs (i + 1) := liveM_mono ht.live (by omega)
      obtain ⟨f, af, _, _⟩ := machine_chain cs hw i hli (fun q hq => ht.time q (by omega))
      have hT := ht.time (i + 1) (by omega)
      rw [am_m_succ cs i hli, LCmd.applyM_T] at hT
      generalize (cs[(am cs i).idx]'(hli i (by omega))).asCmd = c at af hT
      cases c with
      | fade en r g b d =>
        by_cases hd0 : d = 0
        · simp only [GAfter, hd0, if_true] at af
          rw [af.1] at ha; exact absurd ha (by decide)
        · simp only [GAfter, hd0, if_false] at af
          rw [af.2.2.1]
          simp only [Cmd.nextR, Cmd.next] at hT
          omega
      | sleep d => rw [af.1] at ha; exact absurd ha (by decide)
      | set en r g b d => rw [af.1] at ha; exact absurd ha (by decide)
      | pyro m => rw [af.1] at ha; exact absurd ha (by decide)
      | pyroSet m => rw [af.1] at ha; exact absurd ha (by decide)
      | nop => rw [af.1] at ha; exact absurd ha (by decide)
      | trigger p a => rw [af.1] at ha; exact absurd ha (by decide)
      | waitUntil v => rw [af.1] at ha; exact absurd ha (by decide)

theorem m_not_instant (cs : List LCmd) (hw : WFL cs) (K : Nat) (ht : Terminates cs K) (t : Nat) (h0 : 0 < t)
    (hni : ∀ j, j ≤ K → (am cs j).m.T ≠ t) : NotInstant (encodeL cs) t := by
  intro k hl
  by_cases hk : K + 1 ≤ k
  · exact absurd hl (m_not_live_beyond cs hw K ht k hk)
  · by_cases hk0 : k = 0
    · subst hk0; rw [chain0_next]; omega
    · rw [(mchain cs hw K ht k (by omega) (by omega)).2.2]
      exact hni k (by omega)

/-- **C02 for programs with loops, while the program runs** -/
theorem machine_running (cs : List LCmd) (hw : WFL cs) (K : Nat) (ht : Terminates cs K) (hist : List (Nat × Nat)) (t f : Nat)
    (p r : Player) (hp : seekAll (Player.fresh (encodeL cs)) hist = .ok p) (hr : p.seek t f = .ok r)
    (k : Nat) (hk : k < K) (h1 : (am cs k).m.T < t) (h2 : t < (am cs (k + 1)).m.T)
    (hni : ∀ j, j ≤ K → (am cs j).m.T ≠ t) :
    r.exec.color = specM ((cs[(am cs k).idx]'(ht.live k hk)).asCmd) (am cs k).m t ∧
    r.exec.pyro = (am cs (k + 1)).m.pyro ∧ r.exec.ended = false := by
  have hshort := m_fades_short cs hw K ht
  have hnot := m_not_instant cs hw K ht t (by omega) hni
  rcases answer_on_chain (encodeL cs) hshort hist t f p r hp hr hnot with
    ⟨k', hk', hl', b1, b2, hcol, hpy, hend, _⟩ | ⟨m, hm, hlm, he, hc, _, _, _⟩
  · have hk'n : k' ≤ K := by
      by_contra hc
      exact m_not_live_beyond cs hw K ht k' (by omega) hl'
    obtain ⟨_, c1, c2⟩ := mchain cs hw K ht k' hk' hk'n
    rw [c1] at b1
    rw [c2] at b2
    have hkk : k' = k + 1 := by
      rcases Nat.lt_trichotomy k' (k + 1) with hlt | heq | hgt
      · have := am_T_mono_le cs K ht.live k' k (by omega) (by omega); omega
      · exact heq
      · have := am_T_mono_le cs K ht.live (k + 1) (k' - 1) (by omega) (by omega); omega
    subst hkk
    have hli : LiveM cs (k + 1) := liveM_mono ht.live (by omega)
    obtain ⟨fr, af, _, _⟩ := machine_chain cs hw k hli (fun q hq => ht.time q (by omega))
    refine ⟨?_, by rw [hpy, fr.pyro], hend⟩
    rw [hcol]
    have hT := ht.time (k + 1) (by omega)
    have hm := am_m_succ cs k hli
    rw [hm, LCmd.applyM_T] at hT h2
    simp only [Nat.add_sub_cancel] at b1
    generalize (cs[(am cs k).idx]'(hli k (by omega))).asCmd = c at af hT h2
    have idle : (chain (encodeL cs) (k + 1)).exec.trActive = false →
        (chain (encodeL cs) (k + 1)).exec.color = c.colour (am cs k).m.col →
        (stepFade (chain (encodeL cs) (k + 1)).exec t).color = c.colour (am cs k).m.col := by
      intro t1 t2
      unfold stepFade; simp [t1, t2]
    cases c with
    | fade en r g b d =>
      by_cases hd0 : d = 0
      · simp only [GAfter, hd0, if_true] at af
        simp only [specM, hd0, if_true]
        have := idle af.1 (by rw [af.2.1]; rfl)
        rw [this]; rfl
      · simp only [GAfter, hd0, if_false] at af
        simp only [specM, hd0, if_false]
        obtain ⟨a1, a2, a3, a4, a5, a6⟩ := af
        simp only [Cmd.nextR, Cmd.next] at hT h2
        have hD : 20 * d ≤ 16777216 := by omega
        unfold stepFade
        rw [if_pos a1, fadeFinish_color]
        unfold transitionStep
        simp only [progress_eq, a2, a3, a4, a5]
        rw [progressOf_exact _ _ _ (le_of_lt h1) (by omega) hD]
    | sleep d => exact idle af.1 af.2.1
    | set en r g b d => exact idle af.1 af.2.1
    | pyro m => exact idle af.1 af.2.1
    | pyroSet m => exact idle af.1 af.2.1
    | nop => exact idle af.1 af.2.1
    | trigger p a => exact idle af.1 af.2.1
    | waitUntil v => exact idle af.1 af.2.1
  · exfalso
    have hmn : m = K + 1 := by
      by_contra hne
      by_cases hlt : m ≤ K
      · have := (mchain cs hw K ht m hm hlt).1
        rw [this] at he; exact absurd he (by decide)
      · have := hlm (K + 1) (by omega) (by omega)
        rw [(machine_end cs hw K ht.k1 ht.live ht.off ht.time).1] at this
        exact absurd this (by decide)
    rw [hmn, (machine_end cs hw K ht.k1 ht.live ht.off ht.time).2.2.2] at hc
    have := am_T_mono_le cs K ht.live (k + 1) K (by omega) (Nat.le_refl _)
    omega

/-- **C02 for programs with loops, after the end**: the machine's last colour and pyro mask are held -/
theorem machine_ended (cs : List LCmd) (hw : WFL cs) (K : Nat) (ht : Terminates cs K) (hist : List (Nat × Nat)) (t f : Nat)
    (p r : Player) (hp : seekAll (Player.fresh (encodeL cs)) hist = .ok p) (hr : p.seek t f = .ok r)
    (h1 : (am cs K).m.T < t) :
    r.exec.color = (am cs K).m.col ∧ r.exec.pyro = (am cs K).m.pyro ∧ r.exec.ended = true := by
  have hshort := m_fades_short cs hw K ht
  have hnot := m_not_instant cs hw K ht t (by omega) (by
    intro j hj
    have := am_T_mono_le cs K ht.live j K hj (Nat.le_refl _)
    omega)
  rcases answer_on_chain (encodeL cs) hshort hist t f p r hp hr hnot with
    ⟨k', hk', hl', b1, b2, _, _, _, _⟩ | ⟨m, hm, hlm, he, hc, c1, c2, c3⟩
  · exfalso
    have hk'n : k' ≤ K := by
      by_contra hc
      exact m_not_live_beyond cs hw K ht k' (by omega) hl'
    rw [(mchain cs hw K ht k' hk' hk'n).2.2] at b2
    have := am_T_mono_le cs K ht.live k' K hk'n (Nat.le_refl _)
    omega
  · have hmn : m = K + 1 := by
      by_contra hne
      by_cases hlt : m ≤ K
      · have := (mchain cs hw K ht m hm hlt).1
        rw [this] at he; exact absurd he (by decide)
      · have := hlm (K + 1) (by omega) (by omega)
        rw [(machine_end cs hw K ht.k1 ht.live ht.off ht.time).1] at this
        exact absurd this (by decide)
    subst hmn
    obtain ⟨_, e2, e3, _⟩ := machine_end cs hw K ht.k1 ht.live ht.off ht.time
    exact ⟨c1.trans e2, c2.trans e3, c3⟩

/-! ### programs that do not terminate (a loop with count 0): answers up to a horizon -/

/-- the first `K` machine steps are known, stay within 2^24 ms, and pass the horizon `H` -/
structure RunsPast (cs : List LCmd) (K H : Nat) : Prop where
  k1 : 1 ≤ K
  live : LiveM cs K
  time : ∀ j, j ≤ K → (am cs j).m.T ≤ 16777216
  past : H < (am cs K).m.T

theorem rchain (cs : List LCmd) (hw : WFL cs) (K H : Nat) (hr : RunsPast cs K H) (j : Nat) (h1 : 1 ≤ j) (hj : j ≤ K) :
    (chain (encodeL cs) j).exec.ended = false ∧ (chain (encodeL cs) j).current = (am cs (j - 1)).m.T ∧
    (chain (encodeL cs) j).next = (am cs j).m.T := by
  obtain ⟨i, rfl⟩ : ∃ i, j = i + 1 := ⟨j - 1, by omega⟩
  obtain ⟨f, _, c1, c2⟩ := machine_chain cs hw i (liveM_mono hr.live hj) (fun q hq => hr.time q (by omega))
  exact ⟨f.ended, c1, c2⟩

/-- a live chain point that starts by the horizon is one of the first `K` -/
theorem within_horizon (cs : List LCmd) (hw : WFL cs) (K H : Nat) (hr : RunsPast cs K H) (k : Nat)
    (hl : liveUpTo (encodeL cs) (k + 1)) (hc : (chain (encodeL cs) k).current ≤ H) : k ≤ K := by
  by_contra hgt
  have h1 := chain_next_le_current (encodeL cs) K k (by omega) (hl.mono (by omega))
  rw [(rchain cs hw K H hr K hr.k1 (Nat.le_refl _)).2.2] at h1
  have := hr.past
  omega

theorem r_fades_short (cs : List LCmd) (hw : WFL cs) (K H : Nat) (hr : RunsPast cs K H) : FadesShortUpTo (encodeL cs) H := by
  intro k hl hc ha
  have hk := within_horizon cs hw K H hr k hl hc
  by_cases hk0 : k = 0
  · subst hk0
    have : (chain (encodeL cs) 0).exec.trActive = false := (fresh_exec (encodeL cs)).2.1
    rw [this] at ha; exact absurd ha (by decide)
  · obtain ⟨i, rfl⟩ : ∃ i, k = i + 1 := ⟨k - 1, by omega⟩
    have hli : LiveM cs (i + 1) := liveM_mono hr.live (by omega)
    obtain ⟨f, af, _, _⟩ := machine_chain cs hw i hli (fun q hq => hr.time q (by omega))
    have hT := hr.time (i + 1) (by omega)
    rw [am_m_succ cs i hli, LCmd.applyM_T] at hT
    generalize (cs[(am cs i).idx]'(hli i (by omega))).asCmd = c at af hT
    cases c with
    | fade en r g b d =>
      by_cases hd0 : d = 0
      · simp only [GAfter, hd0, if_true] at af
        rw [af.1] at ha; exact absurd ha (by decide)
      · simp only [GAfter, hd0, if_false] at af
        rw [af.2.2.1]
        simp only [Cmd.nextR, Cmd.next] at hT
        omega
    | sleep d => rw [af.1] at ha; exact absurd ha (by decide)
    | set en r g b d => rw [af.1] at ha; exact absurd ha (by decide)
    | pyro m => rw [af.1] at ha; exact absurd ha (by decide)
    | pyroSet m => rw [af.1] at ha; exact absurd ha (by decide)
    | nop => rw [af.1] at ha; exact absurd ha (by decide)
    | trigger p a => rw [af.1] at ha; exact absurd ha (by decide)
    | waitUntil v => rw [af.1] at ha; exact absurd ha (by decide)

theorem r_not_instant (cs : List LCmd) (hw : WFL cs) (K H : Nat) (hr : RunsPast cs K H) (t : Nat) (h0 : 0 < t)
    (hni : ∀ j, j ≤ K → (am cs j).m.T ≠ t) : NotInstantUpTo (encodeL cs) H t := by
  intro k hl hc
  have hk := within_horizon cs hw K H hr k hl hc
  by_cases hk0 : k = 0
  · subst hk0; rw [chain0_next]; omega
  · rw [(rchain cs hw K H hr k (by omega) hk).2.2]
    exact hni k hk

/-- **C02 for programs with loops that need not terminate**: as long as all timestamps asked for (in the history and now) lie
below a horizon `H` that the machine passes within its first `K` steps (each within 2^24 ms), the answer between machine
step `k` and `k+1` is the machine's -/
theorem machine_running_upTo (cs : List LCmd) (hw : WFL cs) (K H : Nat) (hrp : RunsPast cs K H) (hist : List (Nat × Nat))
    (hH : ∀ x ∈ hist, x.1 ≤ H) (t f : Nat) (htH : t ≤ H)
    (p r : Player) (hp : seekAll (Player.fresh (encodeL cs)) hist = .ok p) (hr : p.seek t f = .ok r)
    (k : Nat) (hk : k < K) (h1 : (am cs k).m.T < t) (h2 : t < (am cs (k + 1)).m.T)
    (hni : ∀ j, j ≤ K → (am cs j).m.T ≠ t) :
    r.exec.color = specM ((cs[(am cs k).idx]'(hrp.live k hk)).asCmd) (am cs k).m t ∧
    r.exec.pyro = (am cs (k + 1)).m.pyro ∧ r.exec.ended = false := by
  have hshort := r_fades_short cs hw K H hrp
  have hnot := r_not_instant cs hw K H hrp t (by omega) hni
  rcases answer_on_chain_upTo (encodeL cs) H hshort hist hH t f htH p r hp hr hnot with
    ⟨k', hk', hl', b1, b2, hcol, hpy, hend, _⟩ | ⟨m, hm, hlm, he, hc, _, _, _⟩
  · have hk'n : k' ≤ K := within_horizon cs hw K H hrp k' hl' (by omega)
    obtain ⟨_, c1, c2⟩ := rchain cs hw K H hrp k' hk' hk'n
    rw [c1] at b1
    rw [c2] at b2
    have hkk : k' = k + 1 := by
      rcases Nat.lt_trichotomy k' (k + 1) with hlt | heq | hgt
      · have := am_T_mono_le cs K hrp.live k' k (by omega) (by omega); omega
      · exact heq
      · have := am_T_mono_le cs K hrp.live (k + 1) (k' - 1) (by omega) (by omega); omega
    subst hkk
    have hli : LiveM cs (k + 1) := liveM_mono hrp.live (by omega)
    obtain ⟨fr, af, _, _⟩ := machine_chain cs hw k hli (fun q hq => hrp.time q (by omega))
    refine ⟨?_, by rw [hpy, fr.pyro], hend⟩
    rw [hcol]
    have hT := hrp.time (k + 1) (by omega)
    have hm := am_m_succ cs k hli
    rw [hm, LCmd.applyM_T] at hT h2
    simp only [Nat.add_sub_cancel] at b1
    generalize (cs[(am cs k).idx]'(hli k (by omega))).asCmd = c at af hT h2
    have idle : (chain (encodeL cs) (k + 1)).exec.trActive = false →
        (chain (encodeL cs) (k + 1)).exec.color = c.colour (am cs k).m.col →
        (stepFade (chain (encodeL cs) (k + 1)).exec t).color = c.colour (am cs k).m.col := by
      intro t1 t2
      unfold stepFade; simp [t1, t2]
    cases c with
    | fade en r g b d =>
      by_cases hd0 : d = 0
      · simp only [GAfter, hd0, if_true] at af
        simp only [specM, hd0, if_true]
        have := idle af.1 (by rw [af.2.1]; rfl)
        rw [this]; rfl
      · simp only [GAfter, hd0, if_false] at af
        simp only [specM, hd0, if_false]
        obtain ⟨a1, a2, a3, a4, a5, a6⟩ := af
        simp only [Cmd.nextR, Cmd.next] at hT h2
        have hD : 20 * d ≤ 16777216 := by omega
        unfold stepFade
        rw [if_pos a1, fadeFinish_color]
        unfold transitionStep
        simp only [progress_eq, a2, a3, a4, a5]
        rw [progressOf_exact _ _ _ (le_of_lt h1) (by omega) hD]
    | sleep d => exact idle af.1 af.2.1
    | set en r g b d => exact idle af.1 af.2.1
    | pyro m => exact idle af.1 af.2.1
    | pyroSet m => exact idle af.1 af.2.1
    | nop => exact idle af.1 af.2.1
    | trigger p a => exact idle af.1 af.2.1
    | waitUntil v => exact idle af.1 af.2.1
  · -- the program cannot have ended by the horizon
    exfalso
    by_cases hlt : m ≤ K
    · have := (rchain cs hw K H hrp m hm hlt).1
      rw [this] at he; exact absurd he (by decide)
    · have h3 := chain_next_le_current (encodeL cs) K m (by omega) hlm
      rw [(rchain cs hw K H hrp K hrp.k1 (Nat.le_refl _)).2.2] at h3
      have := hrp.past
      omega

/-- non-vacuity: red / blue for ever (loop count 0); the first 40 steps are known and pass 3 s -/
def demoForever : List LCmd := [.loopBegin 0, .base (.set .rgb 255 0 0 10), .base (.set .rgb 0 0 255 10), .loopEnd]

theorem demoForever_wf : WFL demoForever := by
  refine ⟨?_, by decide, ?_, fun t a h => by simp [demoForever] at h⟩
  · intro c hc
    simp only [demoForever, List.mem_cons, List.mem_nil_iff, or_false] at hc
    rcases hc with rfl | rfl | rfl | rfl <;> simp [LCmd.ok, Cmd.ok, Enc.fits]
  · have : encodeL demoForever = [12, 0, 4, 255, 0, 0, 10, 4, 0, 0, 255, 10, 13] := by
      simp only [encodeL, demoForever, List.map, LCmd.bytes, Cmd.bytes, List.flatten, varint_small 10 (by decide)]
      decide
    rw [this]; decide

theorem demoForever_runs : RunsPast demoForever 40 3000 := ⟨by decide, by unfold LiveM; decide, by decide, by decide⟩

/-- whatever was asked before (below 3 s), at 2500 ms the forever-loop shows red (13th colour command) -/
example (hist : List (Nat × Nat)) (hH : ∀ x ∈ hist, x.1 ≤ 3000) (f : Nat) (p r : Player)
    (hp : seekAll (Player.fresh (encodeL demoForever)) hist = .ok p) (hr : p.seek 2500 f = .ok r) :
    r.exec.color = (255, 0, 0) ∧ r.exec.ended = false := by
  have h := machine_running_upTo demoForever demoForever_wf 40 3000 demoForever_runs hist hH 2500 f (by decide) p r hp hr 19
    (by decide) (by decide) (by decide) (by decide)
  have e1 : specM ((demoForever[(am demoForever 19).idx]'(demoForever_runs.live 19 (by decide))).asCmd) (am demoForever 19).m 2500
      = (255, 0, 0) := by decide
  rw [e1] at h
  exact ⟨h.1, h.2.2⟩

/-- **loops repeat their body the stated number of times** (on the machine; restated from `loop_unrolled`) -/
theorem loop_repeats (cs : List LCmd) (body : List Cmd) (n i0 : Nat) (s : AM) (hn : 1 ≤ n)
    (hend : s.ended = false) (hidx : s.idx = i0) (hdepth : s.stack.length < 4)
    (hbegin : cs[i0]? = some (.loopBegin n))
    (hbody : ∀ q, (hq : q < body.length) → cs[i0 + 1 + q]? = some (.base body[q]))
    (hloopEnd : cs[i0 + 1 + body.length]? = some .loopEnd) :
    (amStep cs)^[1 + n * (body.length + 1)] s =
      { s with idx := i0 + body.length + 2, m := (runBase body)^[n] s.m } :=
  loop_unrolled cs body n i0 s hn hend hidx hdepth hbegin hbody hloopEnd

/-! ### non-vacuity: a program with a loop -/

/-- three times (red 0.2 s, blue 0.2 s), then hold 0.1 s -/
def demoL : List LCmd :=
  [.loopBegin 3, .base (.set .rgb 255 0 0 10), .base (.set .rgb 0 0 255 10), .loopEnd, .base (.sleep 5)]

theorem demoL_bytes : encodeL demoL = [12, 3, 4, 255, 0, 0, 10, 4, 0, 0, 255, 10, 13, 2, 5] := by
  simp only [encodeL, demoL, List.map, LCmd.bytes, Cmd.bytes, List.flatten, varint_small 10 (by decide), varint_small 5 (by decide)]
  decide

theorem demoL_wf : WFL demoL := by
  refine ⟨?_, by decide, by rw [demoL_bytes]; decide, fun t a h => by simp [demoL] at h⟩
  intro c hc
  simp only [demoL, List.mem_cons, List.mem_nil_iff, or_false] at hc
  rcases hc with rfl | rfl | rfl | rfl | rfl <;> simp [LCmd.ok, Cmd.ok, Enc.fits]

/-- 1 LOOP_BEGIN + 3 × (2 commands + LOOP_END) + 1 sleep = 11 steps, 1300 ms -/
theorem demoL_terminates : Terminates demoL 11 := ⟨by decide, by unfold LiveM; decide, by decide, by decide⟩

example : (am demoL 11).m.T = 1300 ∧ (am demoL 11).m.col = (0, 0, 255) ∧ (am demoL 4).m.T = 400 ∧ (am demoL 4).idx = 1 := by decide

/-- the loop of `demoL`, by the general lemma: 1 + 3·3 = 10 steps, body run three times -/
example : (amStep demoL)^[10] AM.init = { AM.init with idx := 4, m := (runBase [.set .rgb 255 0 0 10, .set .rgb 0 0 255 10])^[3] AM.init.m } :=
  loop_repeats demoL [.set .rgb 255 0 0 10, .set .rgb 0 0 255 10] 3 0 AM.init (by decide) rfl rfl (by decide) rfl
    (by intro q hq
        have : q = 0 ∨ q = 1 := by simp at hq; omega
        rcases this with rfl | rfl <;> rfl)
    rfl

/-- a clock reset: hold 0.2 s; RESET_CLOCK; wait until 0.3 s *on the new clock* (absolute 0.5 s); white 0.1 s -/
def demoR : List LCmd := [.base (.sleep 10), .resetClock, .base (.waitUntil 15), .base (.set .white 255 255 255 5)]

example : (am demoR 2).m.R = 200 ∧ (am demoR 3).m.T = 500 ∧ (am demoR 4).m.T = 600 ∧ (am demoR 4).idx = 4 := by decide

theorem demoR_terminates : Terminates demoR 4 := ⟨by decide, by unfold LiveM; decide, by decide, by decide⟩

/-- the theorem applied: whatever was asked before, at 500 ms (second iteration, red phase) the player shows red,
pyro off, not ended -/
example (hist : List (Nat × Nat)) (f : Nat) (p r : Player)
    (hp : seekAll (Player.fresh (encodeL demoL)) hist = .ok p) (hr : p.seek 500 f = .ok r) :
    r.exec.color = (255, 0, 0) ∧ r.exec.pyro = 0 ∧ r.exec.ended = false := by
  have h := machine_running demoL demoL_wf 11 demoL_terminates hist 500 f p r hp hr 4 (by decide) (by decide) (by decide) (by decide)
  have e1 : specM ((demoL[(am demoL 4).idx]'(demoL_terminates.live 4 (by decide))).asCmd) (am demoL 4).m 500 = (255, 0, 0) := by decide
  have e2 : (am demoL (4 + 1)).m.pyro = 0 := by decide
  rw [e1, e2] at h
  exact h


/-! ### non-vacuity: a program with a jump -/

/-- green 0.1 s once; then for ever: red 0.2 s, blue 0.2 s, JUMP back to the red command (byte offset 5) -/
def demoJ : List LCmd :=
  [.base (.set .rgb 0 255 0 5), .base (.set .rgb 255 0 0 10), .base (.set .rgb 0 0 255 10), .jump 1 5]

theorem demoJ_bytes : encodeL demoJ = [4, 0, 255, 0, 5, 4, 255, 0, 0, 10, 4, 0, 0, 255, 10, 18, 5] := by
  simp only [encodeL, demoJ, List.map, LCmd.bytes, Cmd.bytes, List.flatten, varint_small 10 (by decide), varint_small 5 (by decide)]
  decide

theorem demoJ_wf : WFL demoJ := by
  refine ⟨?_, by decide, by rw [demoJ_bytes]; decide, ?_⟩
  · intro c hc
    simp only [demoJ, List.mem_cons, List.mem_nil_iff, or_false] at hc
    rcases hc with rfl | rfl | rfl | rfl <;> simp [LCmd.ok, Cmd.ok, Enc.fits]
  · intro t a h
    simp only [demoJ, List.mem_cons, List.mem_nil_iff, or_false, reduceCtorEq, false_or, LCmd.jump.injEq] at h
    obtain ⟨rfl, rfl⟩ := h
    show 5 = (encodeL (demoJ.take 1)).length + (1 - demoJ.length)
    simp only [encodeL, demoJ, List.take, List.map, LCmd.bytes, Cmd.bytes, List.flatten, varint_small 5 (by decide)]
    decide

/-- the machine goes round: 1 + 3·10 steps pass 4 s -/
theorem demoJ_runs : RunsPast demoJ 31 4000 := ⟨by decide, by unfold LiveM; decide, by decide, by decide⟩

example : (am demoJ 4).idx = 1 ∧ (am demoJ 4).m.T = 500 ∧ (am demoJ 7).idx = 1 ∧ (am demoJ 7).m.T = 900 := by decide

/-- whatever was asked before (below 4 s), at 1000 ms — third lap, red phase — the player shows red -/
example (hist : List (Nat × Nat)) (hH : ∀ x ∈ hist, x.1 ≤ 4000) (f : Nat) (p r : Player)
    (hp : seekAll (Player.fresh (encodeL demoJ)) hist = .ok p) (hr : p.seek 1000 f = .ok r) :
    r.exec.color = (255, 0, 0) ∧ r.exec.ended = false := by
  have h := machine_running_upTo demoJ demoJ_wf 31 4000 demoJ_runs hist hH 1000 f (by decide) p r hp hr 7
    (by decide) (by decide) (by decide) (by decide)
  have e1 : specM ((demoJ[(am demoJ 7).idx]'(demoJ_runs.live 7 (by decide))).asCmd) (am demoJ 7).m 1000
      = (255, 0, 0) := by decide
  rw [e1] at h
  exact ⟨h.1, h.2.2⟩


/-! ### a jump to the end of the program or beyond it ends the program -/

/-- **a jump out of the program ends it there**: when the machine's `k`-th command is a jump whose target is the end of the
program or any address beyond it, the machine terminates with step `k + 1` — whatever follows the jump never runs, and
(`machine_ended`) the colour and pyro mask in force at the jump are held from then on -/
theorem jump_out_terminates (cs : List LCmd) (k t a : Nat) (hl : LiveM cs (k + 1))
    (hj : cs[(am cs k).idx]? = some (.jump t a)) (ht : cs.length ≤ t) (hT : ∀ j, j ≤ k + 1 → (am cs j).m.T ≤ 16777216) :
    Terminates cs (k + 1) ∧ (am cs (k + 1)).m = (am cs k).m := by
  have hne := am_not_ended cs k (fun j hj => hl j (by omega))
  have hs : am cs (k + 1) = { am cs k with idx := t, stack := [] } := by
    rw [am_succ]; unfold amStep; simp only [hne, Bool.false_eq_true, if_false, hj]
  exact ⟨⟨by omega, hl, by rw [hs]; exact ht, hT⟩, by rw [hs]⟩

/-- red 0.2 s; JUMP to address 64 of a 14-byte program; green 0.2 s; white — the seeded change C02-19 of DESIGN.md 9.6
(a range check that turned this jump into a no-op) made exactly this program show green -/
def demoX : List LCmd :=
  [.base (.set .rgb 255 0 0 10), .jump 54 64, .base (.set .rgb 0 255 0 10), .base (.set .white 255 255 255 0)]

theorem demoX_bytes : encodeL demoX = [4, 255, 0, 0, 10, 18, 64, 4, 0, 255, 0, 10, 7, 0] := by
  simp only [encodeL, demoX, List.map, LCmd.bytes, Cmd.bytes, List.flatten, varint_small 10 (by decide), varint_small 64 (by decide),
    varint_small 0 (by decide)]
  decide

theorem demoX_wf : WFL demoX := by
  refine ⟨?_, by decide, by rw [demoX_bytes]; decide, ?_⟩
  · intro c hc
    simp only [demoX, List.mem_cons, List.mem_nil_iff, or_false] at hc
    rcases hc with rfl | rfl | rfl | rfl <;> simp [LCmd.ok, Cmd.ok, Enc.fits]
  · intro t a h
    simp only [demoX, List.mem_cons, List.mem_nil_iff, or_false, reduceCtorEq, false_or, or_false, LCmd.jump.injEq] at h
    obtain ⟨rfl, rfl⟩ := h
    show 64 = (encodeL (demoX.take 54)).length + (54 - demoX.length)
    have : demoX.take 54 = demoX := by decide
    rw [this, demoX_bytes]
    decide

theorem demoX_terminates : Terminates demoX 2 :=
  (jump_out_terminates demoX 1 54 64 (by unfold LiveM; decide) (by decide) (by decide) (by decide)).1

/-- whatever was asked before: at 201 ms — and at any later time — the player holds red and has ended; the green and white
commands behind the jump never run -/
example (hist : List (Nat × Nat)) (f t : Nat) (p r : Player) (h200 : 200 < t)
    (hp : seekAll (Player.fresh (encodeL demoX)) hist = .ok p) (hr : p.seek t f = .ok r) :
    r.exec.color = (255, 0, 0) ∧ r.exec.pyro = 0 ∧ r.exec.ended = true := by
  have h := machine_ended demoX demoX_wf 2 demoX_terminates hist t f p r hp hr (by
    have : (am demoX 2).m.T = 200 := by decide
    omega)
  have e1 : (am demoX 2).m.col = (255, 0, 0) := by decide
  have e2 : (am demoX 2).m.pyro = 0 := by decide
  rw [e1, e2] at h
  exact h

/-! ### non-vacuity: channel-driven colours and triggered jumps -/

/-- white 0.1 s; colour from channels 1,2,3 for 0.1 s (no signal source: black); two triggered jumps (one with an
address operand, one without: both only consume their operands); fade to the channels' colour (black) over 0.2 s -/
def demoT : List LCmd :=
  [.base (.set .white 255 255 255 5), .base (.set (.chan 1 2 3) 0 0 0 5), .base (.trigger 16 3), .base (.trigger 1 0),
   .base (.fade (.chan 4 5 6) 0 0 0 10)]

theorem demoT_bytes : encodeL demoT = [7, 5, 16, 1, 2, 3, 5, 19, 16, 3, 19, 1, 17, 4, 5, 6, 10] := by
  simp only [encodeL, demoT, List.map, LCmd.bytes, Cmd.bytes, List.flatten, varint_small 10 (by decide), varint_small 5 (by decide),
    varint_small 3 (by decide)]
  decide

theorem demoT_wf : WFL demoT := by
  refine ⟨?_, by decide, by rw [demoT_bytes]; decide, fun t a h => by simp [demoT] at h⟩
  intro c hc
  simp only [demoT, List.mem_cons, List.mem_nil_iff, or_false] at hc
  rcases hc with rfl | rfl | rfl | rfl | rfl <;> simp [LCmd.ok, Cmd.ok, Enc.fits]

theorem demoT_terminates : Terminates demoT 5 := ⟨by decide, by unfold LiveM; decide, by decide, by decide⟩

/-- whatever was asked before: at 150 ms the player is inside the channel-colour command and shows black; the two
triggered jumps took no time (the fade starts at 200 ms) -/
example (hist : List (Nat × Nat)) (f : Nat) (p r : Player)
    (hp : seekAll (Player.fresh (encodeL demoT)) hist = .ok p) (hr : p.seek 150 f = .ok r) :
    r.exec.color = (0, 0, 0) ∧ r.exec.ended = false := by
  have h := machine_running demoT demoT_wf 5 demoT_terminates hist 150 f p r hp hr 1 (by decide) (by decide) (by decide) (by decide)
  have e1 : specM ((demoT[(am demoT 1).idx]'(demoT_terminates.live 1 (by decide))).asCmd) (am demoT 1).m 150 = (0, 0, 0) := by decide
  rw [e1] at h
  exact ⟨h.1, h.2.2⟩

example : (am demoT 4).m.T = 200 ∧ (am demoT 5).m.T = 400 := by decide

end Sb.C02
