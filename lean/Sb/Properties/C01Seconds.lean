/-
C01 — the tolerance on durations in seconds admits the library's own computation.

`secTokClose` (Sb/Corr/Traj.lean) accepts a reported total in seconds within 2^-22 of `ms/1000` (relative).  The library
reports the correctly rounded quotient `secF32 ms`; `secF32_close` shows that this is always accepted, for every total.
-/
import Sb.Properties.C20Lerp
import Sb.Model.Trajectory

namespace Sb.C01
open Sb Sb.Proofs Sb.Traj

theorem secF32_close (ms : Nat) (hm : Gen.msecPerSec = 1000) :
    |secF32 ms - secExact ms| ≤ secExact ms / 4194304 := by
  unfold secF32 secExact
  rw [hm]
  have e := Sb.C20.roundF32_error ((ms : ℚ) / ((1000 : Nat) : ℚ))
  rcases Nat.eq_zero_or_pos ms with h | h
  · subst h
    simp [roundF32_zero]
  · have hx : (1 : ℚ) / 1000 ≤ (ms : ℚ) / ((1000 : Nat) : ℚ) := by
      have : (1 : ℚ) ≤ (ms : ℚ) := by exact_mod_cast h
      have h1000 : ((1000 : Nat) : ℚ) = 1000 := by norm_num
      rw [h1000]
      exact div_le_div_of_nonneg_right this (by norm_num)
    have hpos : (0 : ℚ) < (ms : ℚ) / ((1000 : Nat) : ℚ) := by linarith
    rw [abs_of_pos hpos] at e
    have hsub : pow2 (-150) ≤ 1 / 1000 / 16777216 := by
      rw [pow2_eq_zpow]
      have : (2 : ℚ) ^ (-150 : Int) ≤ (2 : ℚ) ^ (-40 : Int) := zpow_le_zpow_right₀ (by norm_num) (by norm_num)
      have h40 : (2 : ℚ) ^ (-40 : Int) = 1 / 1099511627776 := by norm_num
      have : (1 : ℚ) / 1099511627776 ≤ 1 / 1000 / 16777216 := by norm_num
      linarith
    have : (1 : ℚ) / 1000 / 16777216 ≤ (ms : ℚ) / ((1000 : Nat) : ℚ) / 16777216 :=
      div_le_div_of_nonneg_right hx (by norm_num)
    have h2 : (ms : ℚ) / ((1000 : Nat) : ℚ) / 16777216 + (ms : ℚ) / ((1000 : Nat) : ℚ) / 16777216
        ≤ (ms : ℚ) / ((1000 : Nat) : ℚ) / 4194304 := by
      have : (0 : ℚ) ≤ (ms : ℚ) / ((1000 : Nat) : ℚ) := le_of_lt hpos
      linarith
    linarith

/-- the translator's value on the current tree -/
example : Gen.msecPerSec = 1000 := by decide

end Sb.C01
