/-
C20 — Supporting utilities honour their documented contracts.

Model: `Sb/Model/Utils.lean` (bit-exact float steps through `roundF32`; compared exactly with the
implementation by the correspondence run).  Theorems: the growable buffer refines a byte vector
(contents survive growth, size ≤ capacity, a view can be neither grown nor shrunk); RGBW minimum
subtraction; interval expansion never inverts; the travel-time profile over the reals
(continuity at the regime boundary, monotonicity in the distance, the code's cruise expression).
-/
import Mathlib.Analysis.Real.Sqrt
import Mathlib.Tactic.Linarith
import Mathlib.Tactic.FieldSimp
import Mathlib.Tactic.Ring
import Mathlib.Tactic.Positivity
import Sb.Model.Utils

namespace Sb.C20
open Sb Sb.Utils

/-! ### growable byte buffer -/

/-- the representation invariant: size never exceeds capacity -/
def Buf.Inv (b : Buf) : Prop := b.bytes.length ≤ b.capacity

theorem init_inv (n : Nat) : Buf.Inv (Buf.init n) := by
  simp only [Buf.Inv, Buf.init, List.length_replicate]; omega

theorem view_inv (xs : Bytes) : Buf.Inv (Buf.view xs) := by simp [Buf.Inv, Buf.view]

/-- the doubling never lowers the capacity -/
theorem growCap_ge : ∀ (f c need : Nat), c ≤ growCap f c need := by
  intro f
  induction f with
  | zero => intro c need; simp [growCap]
  | succ f ih =>
    intro c need
    unfold growCap
    by_cases h : need > c
    · simp only [h, if_true]
      by_cases hc : c = 0
      · subst hc; omega
      · simp only [hc, if_false]
        have := ih (c * 2) need
        omega
    · simp [h]

/-- when more room is needed, the doubling really raises the capacity -/
theorem growCap_gt (f c need : Nat) (h : need > c) : c < growCap (f + 1) c need := by
  unfold growCap
  simp only [h, if_true]
  by_cases hc : c = 0
  · subst hc
    have := growCap_ge f 1 need
    simp only [if_true]; omega
  · simp only [hc, if_false]
    have := growCap_ge f (c * 2) need
    omega

theorem realloc_spec (b b' : Buf) (cap : Nat) (h : b.realloc cap = .ok b') :
    (b'.owned = b.owned ∧ b'.bytes = b.bytes.take (max cap 1) ∧ b'.capacity = max cap 1) ∨
    (b' = b ∧ b.capacity = max cap 1) := by
  unfold Buf.realloc at h
  have hm : (if cap < 1 then 1 else cap) = max cap 1 := by split <;> omega
  simp only [hm] at h
  by_cases hc : b.capacity ≠ max cap 1
  · rw [if_pos hc] at h
    by_cases ho : b.owned = true
    · simp only [ho, Bool.not_true, Bool.false_eq_true, if_false] at h
      injection h with h; subst h
      left; exact ⟨by simp [ho], rfl, rfl⟩
    · have : b.owned = false := by simpa using ho
      simp [this] at h
  · rw [if_neg hc] at h
    have hc' : b.capacity = max cap 1 := by
      by_contra hne; exact hc hne
    injection h with h
    right; exact ⟨h.symm, hc'⟩

/-- **A view can be neither grown nor shrunk**: every operation that would change its size fails
and leaves it untouched (errors return no new state). -/
theorem view_cannot_resize (b : Buf) (n : Nat) (hv : b.owned = false) : b.resize n = .error .failure := by
  simp [Buf.resize, hv]

theorem view_cannot_grow (b : Buf) (xs : Bytes) (hv : b.owned = false) (hfull : b.capacity = b.bytes.length)
    (hne : xs ≠ []) : b.append xs = .error .failure := by
  unfold Buf.append Buf.ensureFree
  have hl : xs.length ≠ 0 := by
    intro h; exact hne (List.eq_nil_of_length_eq_zero h)
  have hpos : 0 < xs.length := Nat.pos_of_ne_zero hl
  simp only [hl, if_false]
  have hgt : b.capacity < growCap 70 b.capacity (b.bytes.length + xs.length) :=
    growCap_gt 69 b.capacity _ (by omega)
  unfold Buf.realloc
  have hm : ∀ c, (if c < 1 then 1 else c) = max c 1 := by intro c; split <;> omega
  simp only [hm]
  have hne2 : b.capacity ≠ max (growCap 70 b.capacity (b.bytes.length + xs.length)) 1 := by omega
  rw [if_pos hne2]
  simp [hv, bind, Except.bind]

/-- **Contents survive growth**: a successful append yields exactly the old bytes followed by the new -/
theorem append_contents (b b' : Buf) (xs : Bytes) (hinv : Buf.Inv b) (h : b.append xs = .ok b') :
    b'.bytes = b.bytes ++ xs := by
  unfold Buf.append at h
  cases he : b.ensureFree xs.length with
  | error e => rw [he] at h; simp [bind, Except.bind] at h
  | ok b1 =>
    rw [he] at h
    simp only [bind, Except.bind, pure, Except.pure] at h
    injection h with h
    subst h
    simp only
    congr 1
    unfold Buf.ensureFree at he
    split at he
    · injection he with he; rw [← he]
    · rcases realloc_spec b b1 _ he with ⟨_, hb, _⟩ | ⟨hb, _⟩
      · rw [hb]
        apply List.take_of_length_le
        have := growCap_ge 70 b.capacity (b.bytes.length + xs.length)
        unfold Buf.Inv at hinv
        omega
      · rw [hb]

/-- growing by `resize` keeps the contents and pads with zeros (a byte vector's resize) -/
theorem resize_contents (b b' : Buf) (n : Nat) (hn : b.bytes.length < n) (h : b.resize n = .ok b') :
    b'.bytes = b.bytes ++ List.replicate (n - b.bytes.length) 0 ∧ b'.bytes.length = n := by
  unfold Buf.resize at h
  by_cases ho : b.owned = true
  · simp only [ho, Bool.not_true, Bool.false_eq_true, if_false, hn, if_true, bind, Except.bind] at h
    split at h
    · cases h
    · rename_i b1 hb1
      have hb : b1.bytes = b.bytes := by
        rcases realloc_spec b b1 n hb1 with ⟨_, hbb, _⟩ | ⟨hbb, _⟩
        · rw [hbb]; apply List.take_of_length_le; omega
        · rw [hbb]
      cases h
      show b1.bytes ++ List.replicate (n - b1.bytes.length) 0 = _ ∧ (b1.bytes ++ List.replicate (n - b1.bytes.length) 0).length = n
      rw [hb]
      exact ⟨rfl, by rw [List.length_append, List.length_replicate]; omega⟩
  · have : b.owned = false := by simpa using ho
    simp [this] at h

/-- shrinking keeps the prefix -/
theorem resize_smaller (b : Buf) (n : Nat) (ho : b.owned = true) (hn : n ≤ b.bytes.length) :
    b.resize n = .ok { b with bytes := b.bytes.take n } := by
  unfold Buf.resize
  have : ¬ (b.bytes.length < n) := by omega
  simp [ho, this]

/-- `fill` keeps the size -/
theorem fill_size (b : Buf) (v : UInt8) : (b.fill v).bytes.length = b.bytes.length := by simp [Buf.fill]

/-! ### RGBW -/

/-- minimum subtraction: rgb' + w = rgb channel-wise and w is the smallest channel -/
theorem rgbw_min_subtraction (r g b : Nat) :
    (rgbwSubtractMin r g b).1 + (rgbwSubtractMin r g b).2.2.2 = r ∧
    (rgbwSubtractMin r g b).2.1 + (rgbwSubtractMin r g b).2.2.2 = g ∧
    (rgbwSubtractMin r g b).2.2.1 + (rgbwSubtractMin r g b).2.2.2 = b ∧
    (rgbwSubtractMin r g b).2.2.2 = min r (min g b) := by
  simp only [rgbwSubtractMin]
  have h1 : min r (min g b) ≤ r := Nat.min_le_left _ _
  have h2 : min r (min g b) ≤ g := Nat.le_trans (Nat.min_le_right _ _) (Nat.min_le_left _ _)
  have h3 : min r (min g b) ≤ b := Nat.le_trans (Nat.min_le_right _ _) (Nat.min_le_right _ _)
  refine ⟨?_, ?_, ?_, trivial⟩ <;> omega

/-! ### interval expansion -/

/-- expanding never inverts an interval; a negative expansion that would invert it collapses it to
one point -/
theorem interval_never_inverted (mn mx off : Rat) : (intervalExpand mn mx off).1 ≤ (intervalExpand mn mx off).2 := by
  unfold intervalExpand
  simp only
  split
  · exact le_refl _
  · rename_i h; exact le_of_not_gt h

theorem interval_collapses (mn mx off : Rat) (h : rf (mx + off) < rf (mn - off)) :
    (intervalExpand mn mx off).1 = (intervalExpand mn mx off).2 := by
  unfold intervalExpand
  simp only [h, if_true]

/-! ### travel time over the reals -/

/-- the symmetric accelerate–cruise–decelerate profile -/
noncomputable def travelProfile (d v a : ℝ) : ℝ := if v ^ 2 / a ≤ d then v / a + d / v else 2 * √(d / a)

/-- the cruise expression of the code, `2·t1 + (d − 2·s1)/v` with `t1 = v/a`, `s1 = a/2·t1²` -/
theorem code_cruise_expression (d v a : ℝ) (hv : 0 < v) (ha : 0 < a) :
    2 * (v / a) + (d - 2 * (a / 2 * (v / a) * (v / a))) / v = v / a + d / v := by
  field_simp
  ring

/-- the two regimes agree where they meet (distance = speed²/acceleration) -/
theorem profile_continuous_at_boundary (v a : ℝ) (hv : 0 < v) (ha : 0 < a) :
    2 * √(v ^ 2 / a / a) = v / a + v ^ 2 / a / v := by
  have h1 : v ^ 2 / a / a = (v / a) ^ 2 := by field_simp
  rw [h1, Real.sqrt_sq (le_of_lt (div_pos hv ha))]
  field_simp
  ring

/-- the profile never decreases with the distance -/
theorem profile_monotone (d1 d2 v a : ℝ) (hv : 0 < v) (ha : 0 < a) (h0 : 0 ≤ d1) (h12 : d1 ≤ d2) :
    travelProfile d1 v a ≤ travelProfile d2 v a := by
  unfold travelProfile
  have hb := profile_continuous_at_boundary v a hv ha
  by_cases h1 : v ^ 2 / a ≤ d1
  · have h2 : v ^ 2 / a ≤ d2 := le_trans h1 h12
    simp only [h1, h2, if_true]
    have : d1 / v ≤ d2 / v := div_le_div_of_nonneg_right h12 (le_of_lt hv)
    linarith
  · simp only [h1, if_false]
    by_cases h2 : v ^ 2 / a ≤ d2
    · simp only [h2, if_true]
      -- 2√(d1/a) ≤ 2√(v²/a/a) = v/a + (v²/a)/v ≤ v/a + d2/v
      have hle : d1 / a ≤ v ^ 2 / a / a := div_le_div_of_nonneg_right (le_of_lt (not_le.mp h1)) (le_of_lt ha)
      have hs : √(d1 / a) ≤ √(v ^ 2 / a / a) := Real.sqrt_le_sqrt hle
      have h3 : v ^ 2 / a / v ≤ d2 / v := div_le_div_of_nonneg_right h2 (le_of_lt hv)
      linarith
    · simp only [h2, if_false]
      have hle : d1 / a ≤ d2 / a := div_le_div_of_nonneg_right h12 (le_of_lt ha)
      have hs : √(d1 / a) ≤ √(d2 / a) := Real.sqrt_le_sqrt hle
      linarith

/-! ### non-vacuity -/
example : Buf.Inv (Buf.init 8) := init_inv 8
example : rgbwSubtractMin 200 50 120 = (150, 0, 70, 50) := by decide
example : travelProfile 0 2 4 = 0 := by
  unfold travelProfile
  have : ¬ ((2 : ℝ) ^ 2 / 4 ≤ 0) := by norm_num
  simp [this]

end Sb.C20
