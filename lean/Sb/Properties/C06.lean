/-
C06 — Loading from a descriptor and from memory are interchangeable.

Model: `Sb/Model/Load.lean` on top of the container model.  The theorem is about the loaders; that
every later query depends on the block bytes only holds by construction of the model (all query
functions take the loaded bytes) and is tied to the code by the metamorphic correspondence run
(same bytes through both routes, whole query battery compared bit for bit, also after `clear`).
-/
import Sb.Properties.C04
import Sb.Model.Load

namespace Sb.C06
open Sb Sb.Container Sb.Spec Sb.Proofs Sb.Load Sb.C04

/-- on the memory route the view handed out is exactly what a read of the block would give -/
theorem ex_eq_read_mem (p : Parser) (hv : p.isCurrentBlockValid = true) (hm : p.mem = true) :
    (p.readCurrentBlockEx).map (·.1) = (p.readCurrentBlock).map (·.1) := by
  unfold Parser.readCurrentBlockEx Parser.readCurrentBlock Parser.seek Parser.read
  simp only [hm, if_true, hv, Bool.not_true, Bool.false_eq_true, if_false, true_and, bind, Except.bind]
  by_cases h1 : p.curStart > p.data.length
  · have : p.curStart + p.curLength > p.data.length := by omega
    simp [h1, this, Except.map]
  · simp only [h1, if_false, List.length_take, List.length_drop]
    by_cases h2 : p.curStart + p.curLength > p.data.length
    · have : min p.curLength (p.data.length - p.curStart) ≠ p.curLength := by omega
      simp [h2, this, Except.map]
    · have : min p.curLength (p.data.length - p.curStart) = p.curLength := by omega
      simp [h2, this, Except.map, pure, Except.pure]

theorem ex_eq_read_fd (p : Parser) (hm : p.mem = false) :
    (p.readCurrentBlockEx).map (·.1) = (p.readCurrentBlock).map (·.1) := by
  unfold Parser.readCurrentBlockEx
  simp only [hm, Bool.false_eq_true, if_false, bind, Except.bind, pure, Except.pure]
  cases p.readCurrentBlock <;> simp [Except.map]

theorem findLoop_valid (ty fuel : Nat) (p p1 : Parser) (h : findLoop p ty fuel = .ok p1) :
    p1.isCurrentBlockValid = true ∧ p1.mem = p.mem := by
  induction fuel generalizing p with
  | zero => simp [findLoop] at h
  | succ fuel ih =>
    unfold findLoop at h
    by_cases hv : p.isCurrentBlockValid = true
    · simp only [hv, Bool.not_true, Bool.false_eq_true, if_false] at h
      by_cases ht : p.curType = ty
      · simp only [ht, if_true] at h
        injection h with h; subst h; exact ⟨hv, rfl⟩
      · simp only [ht, if_false] at h
        cases hs : p.seekToNextBlock with
        | error e => rw [hs] at h; cases h
        | ok p2 =>
          rw [hs] at h
          have := ih p2 h
          refine ⟨this.1, ?_⟩
          rw [this.2]
          -- seeking keeps the backend
          unfold Parser.seekToNextBlock Parser.seek at hs
          simp only [hv, Bool.not_true, Bool.false_eq_true, if_false] at hs
          split at hs
          · simp [bind, Except.bind] at hs
          · simp only [bind, Except.bind] at hs
            rw [hdr_spec] at hs
            split at hs <;> first | (injection hs with hs; subst hs; rfl) | cases hs
    · have hv' : p.isCurrentBlockValid = false := by simpa using hv
      simp [hv'] at h

theorem rewind_mem (p p1 : Parser) (h : p.rewind = .ok p1) : p1.mem = p.mem := by
  unfold Parser.rewind Parser.seek at h
  split at h
  · simp [bind, Except.bind] at h
  · simp only [bind, Except.bind] at h
    rw [hdr_spec] at h
    split at h <;> first | (injection h with h; subst h; rfl) | cases h

/-- the bytes a loader obtains, in terms of the lookup observation of C04 -/
theorem blockBytes_eq (k : Kind) (mem : Bool) (data : Bytes) (p : Parser) (hp : init mem data = .ok p)
    (hmem : p.mem = mem) :
    (blockBytes k mem data).map (·.1) =
      (findObs (p.findFirstBlockByType k.blockType)) >>= (fun o => o.2.2) := by
  unfold blockBytes
  simp only [hp, bind, Except.bind]
  cases hf : p.findFirstBlockByType k.blockType with
  | error e => simp [findObs, Except.map]
  | ok p1 =>
    have hv : p1.isCurrentBlockValid = true ∧ p1.mem = mem := by
      unfold Parser.findFirstBlockByType at hf
      cases hr : p.rewind with
      | error e => rw [hr] at hf; simp [bind, Except.bind] at hf
      | ok p0 =>
        rw [hr] at hf
        simp only [bind, Except.bind] at hf
        have := findLoop_valid _ _ _ _ hf
        exact ⟨this.1, by rw [this.2, rewind_mem p p0 hr, hmem]⟩
    simp only [findObs, Except.map]
    by_cases hk : k = .rth
    · simp only [hk, if_true]
      cases p1.readCurrentBlock <;> simp [pure, Except.pure]
    · simp only [hk, if_false]
      have hex : (p1.readCurrentBlockEx).map (·.1) = (p1.readCurrentBlock).map (·.1) := by
        cases mem with
        | true => exact ex_eq_read_mem p1 hv.1 hv.2
        | false => exact ex_eq_read_fd p1 hv.2
      cases hx : p1.readCurrentBlockEx with
      | error e =>
        rw [hx] at hex
        cases hr : p1.readCurrentBlock with
        | error e' => rw [hr] at hex; simp [Except.map] at hex; simp [hex]
        | ok v => rw [hr] at hex; simp [Except.map] at hex
      | ok v =>
        rw [hx] at hex
        cases hr : p1.readCurrentBlock with
        | error e' => rw [hr] at hex; simp [Except.map] at hex
        | ok w => rw [hr] at hex; simp [Except.map] at hex; simp [pure, Except.pure, hex]

theorem init_mem (mem : Bool) (data : Bytes) (p : Parser) (h : init mem data = .ok p) : p.mem = mem := by
  rw [init_spec] at h
  unfold initSpec at h
  split at h
  · cases h
  · split at h
    · cases h
    · have := rewind_mem _ p h
      rw [this]; rfl

/-- the lookup results of the two routes agree as far as success and bytes are concerned -/
theorem findOf_routes (ty : Nat) (rs : List (Nat × Bytes)) (e : Ending) :
    ((findOf true ty rs e >>= fun o => o.2.2 : R Bytes)).toOption =
    ((findOf false ty rs e >>= fun o => o.2.2 : R Bytes)).toOption := by
  induction rs with
  | nil =>
    cases e <;> simp [findOf, bind, Except.bind, Except.toOption]
    rename_i t len
    by_cases ht : t = ty <;> simp [ht, Except.toOption]
  | cons tb rs ih =>
    obtain ⟨t, b⟩ := tb
    unfold findOf
    by_cases ht : t = ty
    · simp [ht]
    · simp only [ht, if_false]; exact ih

/-- **Interchangeable routes.** For every byte string and each of the four object kinds, loading
through a descriptor and loading from memory either both fail or both succeed, and when they
succeed they hold the same block bytes. -/
theorem load_equiv (k : Kind) (data : Bytes) :
    ((load k true data).map (·.1)).toOption = ((load k false data).map (·.1)).toOption := by
  have hload : ∀ mem, (load k mem data).map (·.1) =
      ((blockBytes k mem data).map (·.1)) >>= (fun b => (initFromBytes k b true).map (fun _ => b)) := by
    intro mem
    unfold load
    cases hb : blockBytes k mem data with
    | error e => simp [bind, Except.bind, Except.map]
    | ok v =>
      obtain ⟨b, owned⟩ := v
      simp only [bind, Except.bind, Except.map]
      have : initFromBytes k b owned = initFromBytes k b true := by cases k <;> rfl
      rw [this]
      cases initFromBytes k b true <;> simp [pure, Except.pure]
  rw [hload true, hload false]
  -- acceptance does not depend on the route
  by_cases hacc : ∃ ver hlen hasCrc, header data = some (ver, hlen, hasCrc) ∧
      (hasCrc = true → storedCrc data = Spec.fileCrc data) ∧ records (data.drop hlen) ≠ ([], .cutInHeader)
  · obtain ⟨pT, hT⟩ := (accept_iff true data).mpr hacc
    obtain ⟨pF, hF⟩ := (accept_iff false data).mpr hacc
    obtain ⟨ver, hlen, hasCrc, hh, hc, _⟩ := hacc
    rw [blockBytes_eq k true data pT hT (init_mem _ _ _ hT), blockBytes_eq k false data pF hF (init_mem _ _ _ hF)]
    rw [find_first_correct true data ver hlen hasCrc pT _ hh hc hT,
        find_first_correct false data ver hlen hasCrc pF _ hh hc hF]
    have := findOf_routes k.blockType (records (data.drop hlen)).1 (records (data.drop hlen)).2
    generalize (findOf true k.blockType _ _ >>= fun o => o.2.2 : R Bytes) = a at this ⊢
    generalize (findOf false k.blockType _ _ >>= fun o => o.2.2 : R Bytes) = b at this ⊢
    cases a <;> cases b <;> simp_all [Except.toOption, bind, Except.bind]
  · have hT : ∀ p, init true data ≠ .ok p := fun p h => hacc ((accept_iff true data).mp ⟨p, h⟩)
    have hF : ∀ p, init false data ≠ .ok p := fun p h => hacc ((accept_iff false data).mp ⟨p, h⟩)
    have bT : ∃ e, blockBytes k true data = .error e := by
      unfold blockBytes
      cases h : init true data with
      | error e => exact ⟨e, by simp [bind, Except.bind]⟩
      | ok p => exact absurd h (hT p)
    have bF : ∃ e, blockBytes k false data = .error e := by
      unfold blockBytes
      cases h : init false data with
      | error e => exact ⟨e, by simp [bind, Except.bind]⟩
      | ok p => exact absurd h (hF p)
    obtain ⟨e1, h1⟩ := bT
    obtain ⟨e2, h2⟩ := bF
    simp [h1, h2, Except.map, bind, Except.bind, Except.toOption]

/-- the error codes of the two routes may differ only for a file that ends inside a block:
if the data is a complete sequence of records, the lookup itself gives the same result -/
theorem findOf_same_when_complete (ty : Nat) (rs : List (Nat × Bytes)) (e : Ending)
    (h : ∀ t len, e ≠ .cutInBody t len) : findOf true ty rs e = findOf false ty rs e := by
  induction rs with
  | nil => cases e <;> simp [findOf]; exact absurd rfl (h _ _)
  | cons tb rs ih =>
    obtain ⟨t, b⟩ := tb
    unfold findOf
    by_cases ht : t = ty <;> simp [ht, ih]

end Sb.C06
