/-
C16 — Trajectory builder round-trips and failed calls change nothing.

Model: `Sb/Model/Builder.lean` (bit-exact: every float operation of builder.c is a correctly rounded
IEEE operation and is modelled with `roundF32`; the correspondence run compares the buffer byte for
byte after every call).
Proven here: the splitting of long segments and the chunking of holds preserve the requested
duration exactly and never emit a segment above the 16-bit/60 s limit; a long `append_line` is
exactly a sequence of ordinary segments with those durations ending at the target; calls that
report an error return no new builder state in the model (the implementation side of "a failed
call changes nothing" is what the byte-for-byte comparison after every rejected call establishes).
-/
import Sb.Model.Builder

namespace Sb.C16
open Sb Sb.Builder Sb.Poly

/-- side-conditions on generated constants: every emitted duration fits the 16-bit field -/
theorem constants : Gen.builderMaxDurationMsec = 60000 ∧ Gen.builderMaxDurationMsec ≤ 65535 ∧
    Gen.builderHeaderLength = 9 ∧ Gen.builderExtend = 11 := by decide

/-- the durations of the pieces a long segment is split into -/
def splitDur : Nat → Nat → List Nat
  | 0, _ => []
  | f + 1, ms => if ms > 60000 then splitDur f (ms / 2) ++ splitDur f (ms - ms / 2) else [ms]

/-- **Splitting preserves the duration** (fuel `f + 1` suffices for every duration up to 60000·2^f;
the code's recursion depth for 32-bit durations is at most 17, the model uses 34) -/
theorem splitDur_sum : ∀ (f ms : Nat), ms ≤ 60000 * 2 ^ f → (splitDur (f + 1) ms).sum = ms := by
  intro f
  induction f with
  | zero =>
    intro ms hms
    have : ¬ ms > 60000 := by simp at hms; omega
    simp [splitDur, this]
  | succ f ih =>
    intro ms hms
    unfold splitDur
    by_cases h : ms > 60000
    · simp only [h, if_true, List.sum_append]
      have hp : 2 ^ (f + 1) = 2 * 2 ^ f := by rw [Nat.pow_succ]; omega
      rw [hp] at hms
      rw [ih (ms / 2) (by omega), ih (ms - ms / 2) (by omega)]
      omega
    · simp [h]

theorem splitDur_le : ∀ (f ms d : Nat), d ∈ splitDur f ms → d ≤ 60000 := by
  intro f
  induction f with
  | zero => intro ms d h; simp [splitDur] at h
  | succ f ih =>
    intro ms d h
    unfold splitDur at h
    by_cases hm : ms > 60000
    · simp only [hm, if_true, List.mem_append] at h
      rcases h with h | h
      · exact ih _ _ h
      · exact ih _ _ h
    · simp only [hm, if_false, List.mem_singleton] at h
      omega

/-- appending a list of (point, duration) segments one after the other -/
def appendMany : Builder → List (Vec4 × Nat) → R Builder
  | b, [] => .ok b
  | b, (p, d) :: rest => do
    let b1 ← appendSegment b p d
    appendMany b1 rest

theorem appendMany_append (b : Builder) (xs ys : List (Vec4 × Nat)) :
    appendMany b (xs ++ ys) = (appendMany b xs >>= fun b1 => appendMany b1 ys) := by
  induction xs generalizing b with
  | nil => rfl
  | cons x xs ih =>
    obtain ⟨p, d⟩ := x
    simp only [List.cons_append, appendMany, bind, Except.bind]
    cases appendSegment b p d with
    | error e => rfl
    | ok b1 => exact ih b1

theorem getLast?_append_ne_nil {α : Type} (xs ys : List α) (h : ys ≠ []) :
    (xs ++ ys).getLast? = ys.getLast? := by
  induction xs with
  | nil => rfl
  | cons x xs ih =>
    have hne : xs ++ ys ≠ [] := by
      intro hc; apply h; exact (List.append_eq_nil_iff.mp hc).2
    rw [List.cons_append, List.getLast?_cons_of_ne_nil hne]
    exact ih

/-- **A long line is a sequence of ordinary segments** whose durations are the split durations and
whose last point is the target. -/
theorem appendLineAux_as_segments : ∀ (f : Nat) (b b' : Builder) (t : Vec4) (ms : Nat),
    appendLineAux f b t ms = .ok b' →
    ∃ segs : List (Vec4 × Nat), appendMany b segs = .ok b' ∧ segs.map (·.2) = splitDur f ms ∧
      (segs.getLast?.map (·.1)) = some t := by
  intro f
  induction f with
  | zero => intro b b' t ms h; simp [appendLineAux] at h
  | succ f ih =>
    intro b b' t ms h
    unfold appendLineAux at h
    have hmax : Gen.builderMaxDurationMsec = 60000 := rfl
    rw [hmax] at h
    by_cases hm : ms > 60000
    · simp only [hm, if_true, bind, Except.bind] at h
      split at h
      · cases h
      · rename_i b1 hb1
        obtain ⟨s1, h1, d1, _⟩ := ih _ _ _ _ hb1
        obtain ⟨s2, h2, d2, l2⟩ := ih _ _ _ _ h
        refine ⟨s1 ++ s2, ?_, ?_, ?_⟩
        · rw [appendMany_append, h1]; exact h2
        · simp only [List.map_append, d1, d2, splitDur, hm, if_true]
        · have hne : s2 ≠ [] := by
            intro hnil; subst hnil; simp at l2
          rw [getLast?_append_ne_nil _ _ hne]; exact l2
    · simp only [hm, if_false] at h
      refine ⟨[(t, ms)], ?_, ?_, ?_⟩
      · simp only [appendMany, h, bind, Except.bind]
      · simp [splitDur, hm]
      · rfl

/-- **Holding preserves the duration**: the chunks of a hold add up to the requested time -/
def holdChunks : Nat → Nat → List Nat
  | 0, _ => []
  | f + 1, ms => if ms > 0 then (if ms > 60000 then 60000 else ms) :: holdChunks f (ms - (if ms > 60000 then 60000 else ms)) else []

theorem holdChunks_sum : ∀ (f ms : Nat), ms ≤ 60000 * f → (holdChunks f ms).sum = ms := by
  intro f
  induction f with
  | zero => intro ms h; simp [holdChunks]; omega
  | succ f ih =>
    intro ms h
    unfold holdChunks
    by_cases h0 : ms > 0
    · simp only [h0, if_true, List.sum_cons]
      by_cases h6 : ms > 60000
      · simp only [h6, if_true]; rw [ih (ms - 60000) (by omega)]; omega
      · simp only [h6, if_false]; rw [ih (ms - ms) (by omega)]; omega
    · simp [h0]; omega

/-- `appendLine` is the validated `appendLineAux` -/
theorem appendLine_aux (b b' : Builder) (t : Vec4) (ms : Nat) (h : appendLine b t ms = .ok b') :
    appendLineAux 34 b t ms = .ok b' := by
  unfold appendLine at h
  simp only [bind, Except.bind] at h
  split at h
  · cases h
  · split at h
    · cases h
    · split at h
      · cases h
      · exact h

theorem appendSegment_last (b b' : Builder) (t : Vec4) (ms : Nat) (h : appendSegment b t ms = .ok b') : b'.last = t := by
  unfold appendSegment at h
  simp only [bind, Except.bind, pure, Except.pure] at h
  repeat' split at h
  all_goals (first | (cases h; rfl) | cases h)

/-- **a hold is a run of segments that stay at the current point**, with the chunk durations -/
theorem holdForAux_segments : ∀ (f : Nat) (b b' : Builder) (ms : Nat), holdForAux f b ms = .ok b' →
    ∃ segs : List (Vec4 × Nat), appendMany b segs = .ok b' ∧ segs.map (·.2) = holdChunks f ms ∧
      (∀ s ∈ segs, s.1 = b.last) ∧ b'.last = b.last := by
  intro f
  induction f with
  | zero => intro b b' ms h; simp [holdForAux] at h
  | succ f ih =>
    intro b b' ms h
    unfold holdForAux at h
    have hmax : Gen.builderMaxDurationMsec = 60000 := rfl
    rw [hmax] at h
    by_cases h0 : ms > 0
    · simp only [h0, if_true, bind, Except.bind] at h
      split at h
      · cases h
      · rename_i b1 hb1
        have haux := appendLine_aux _ _ _ _ hb1
        have hcur : ¬ ((if ms > 60000 then 60000 else ms) > 60000) := by split <;> omega
        have hseg : appendSegment b b.last (if ms > 60000 then 60000 else ms) = .ok b1 := by
          unfold appendLineAux at haux
          rw [hmax] at haux
          simpa only [hcur, if_false] using haux
        have hl1 : b1.last = b.last := appendSegment_last _ _ _ _ hseg
        obtain ⟨segs, a1, a2, a3, a4⟩ := ih b1 b' _ h
        refine ⟨(b.last, (if ms > 60000 then 60000 else ms)) :: segs, ?_, ?_, ?_, ?_⟩
        · simp only [appendMany, hseg, bind, Except.bind]; exact a1
        · have hc : holdChunks (f + 1) ms =
              (if ms > 60000 then 60000 else ms) :: holdChunks f (ms - (if ms > 60000 then 60000 else ms)) := by
            rw [holdChunks]; simp only [h0, if_true]
          simp only [List.map_cons, a2, hc]
        · intro s hs
          rcases List.mem_cons.mp hs with rfl | hs'
          · rfl
          · rw [a3 s hs', hl1]
        · rw [a4, hl1]
    · simp only [h0, if_false] at h
      cases h
      refine ⟨[], rfl, ?_, ?_, rfl⟩
      · unfold holdChunks; simp [h0]
      · intro s hs; cases hs

theorem holdChunks_le : ∀ (f ms d : Nat), d ∈ holdChunks f ms → d ≤ 60000 := by
  intro f
  induction f with
  | zero => intro ms d h; simp [holdChunks] at h
  | succ f ih =>
    intro ms d h
    rw [holdChunks] at h
    by_cases h0 : ms > 0
    · simp only [h0, if_true] at h
      rcases List.mem_cons.mp h with rfl | h'
      · split <;> omega
      · exact ih _ _ h'
    · simp only [h0, if_false] at h
      cases h

/-- invalid scales are rejected -/
theorem init_invalid_scale (flags : Nat) : init 0 flags = .error .einval ∧ init 128 flags = .error .einval := by
  constructor <;> simp [init]

/-- the start position can only be set before the first segment -/
theorem setStart_after_segment (b : Builder) (p : Vec4) (h : b.buf.length ≠ 9) : setStart b p = .error .failure := by
  simp [setStart, Gen.builderHeaderLength, h]

/-- a target that is not representable is rejected before anything is appended -/
theorem appendLine_rejects (b : Builder) (t : Vec4) (ms : Nat) (e : Err)
    (h : scaleCoord b t.x = .error e ∨ (∃ v, scaleCoord b t.x = .ok v) ∧ scaleCoord b t.y = .error e) :
    appendLine b t ms = .error e := by
  unfold appendLine
  rcases h with h | ⟨⟨v, hv⟩, h⟩
  · simp [h, bind, Except.bind]
  · simp [hv, h, bind, Except.bind]

/-! ### non-vacuity -/
example : splitDur 34 130000 = [32500, 32500, 32500, 32500] := by decide
example : (splitDur 34 3600000).sum = 3600000 := splitDur_sum 33 3600000 (by decide)
example : holdChunks 5 180001 = [60000, 60000, 60000, 1] := by decide

end Sb.C16
