/-
C18 — the closed-form cubic solver (`sb_i_poly_solve_4d`, src/trajectory/poly.c) in exact real / complex arithmetic.

The code divides by the leading coefficient, depresses the cubic (`x = t - b/3`), computes
`p = (3c - b²)/3`, `q = (2b³ - 9bc + 27d)/27`, `Δ = q²/4 + p³/27` and reports

* `Δ = 0` (in the code: up to a relative threshold): `2u`, `-u` with `u = ∛(-q/2)` (one root `0` when `u = 0`);
* `Δ > 0`: the single root `∛(-q/2 + √Δ) + ∛(-q/2 - √Δ)`;
* `Δ < 0`: with the principal complex cube roots `u = (-q/2 + i√-Δ)^(1/3)`, `v = (-q/2 - i√-Δ)^(1/3)`:
  `Re(u+v)`, `Re(-(u+v)/2 ± i(√3/2)(u-v))`;

each shifted by `-b/3`.  `idealSolve4` is that procedure with real `√`, `∛` and Mathlib's principal complex power; the theorem
`idealSolve4_correct` says its answers are exactly the real roots of `a x³ + b x² + c x + d` — sound and complete, in every
branch.  What the implementation adds to this is binary32 rounding (and the threshold that merges nearly equal roots); that
part is judged on every run by the certified oracle (DESIGN.md 9.3), not proven.
-/
import Sb.Properties.C18
import Sb.Properties.C18Endpoint
import Mathlib.Analysis.SpecialFunctions.Pow.Complex
import Mathlib.Analysis.SpecialFunctions.Pow.Real
import Mathlib.Analysis.SpecialFunctions.Sqrt
import Mathlib.Tactic.Ring
import Mathlib.Tactic.Linarith
import Mathlib.Tactic.FieldSimp
import Mathlib.Tactic.NormNum

namespace Sb.C18
open Complex

/-! ### the real cube root -/

/-- `cbrtf` over the reals -/
noncomputable def cbrt (x : ℝ) : ℝ := if 0 ≤ x then x ^ ((3 : ℕ)⁻¹ : ℝ) else -((-x) ^ ((3 : ℕ)⁻¹ : ℝ))

theorem cbrt_cube (x : ℝ) : cbrt x ^ 3 = x := by
  unfold cbrt
  split
  · rename_i h
    exact Real.rpow_inv_natCast_pow h (by decide)
  · rename_i h
    have h' : 0 ≤ -x := by linarith
    have := Real.rpow_inv_natCast_pow h' (n := 3) (by decide)
    calc (-((-x) ^ ((3 : ℕ)⁻¹ : ℝ))) ^ 3 = -(((-x) ^ ((3 : ℕ)⁻¹ : ℝ)) ^ 3) := by ring
      _ = -(-x) := by rw [this]
      _ = x := by ring

theorem cube_injective {x y : ℝ} (h : x ^ 3 = y ^ 3) : x = y :=
  (Odd.strictMono_pow (R := ℝ) (n := 3) (by decide)).injective h

/-! ### depressing the cubic -/

/-- the code's `p` for the normalised coefficients -/
noncomputable def depP (a b c : ℝ) : ℝ := (3 * (c / a) - (b / a) * (b / a)) / 3
/-- the code's `q` -/
noncomputable def depQ (a b c d : ℝ) : ℝ := (2 * (b / a) * (b / a) * (b / a) - 9 * (b / a) * (c / a) + 27 * (d / a)) / 27
/-- the code's `offset` -/
noncomputable def depOff (a b : ℝ) : ℝ := -(b / a) / 3

/-- `x` solves the cubic iff `x - offset` solves the depressed one -/
theorem depress (a b c d t : ℝ) (ha : a ≠ 0) :
    a * (t + depOff a b) ^ 3 + b * (t + depOff a b) ^ 2 + c * (t + depOff a b) + d =
      a * (t ^ 3 + depP a b c * t + depQ a b c d) := by
  unfold depOff depP depQ
  field_simp
  ring

/-! ### Δ > 0: one real root -/

theorem one_root (p q s u v t : ℝ) (hs : s * s = q * q / 4 + p * p * p / 27) (hpos : 0 < s)
    (hu : u ^ 3 = -q / 2 + s) (hv : v ^ 3 = -q / 2 - s) :
    t ^ 3 + p * t + q = 0 ↔ t = u + v := by
  have huv : u * v = -p / 3 := by
    apply cube_injective
    have : (u * v) ^ 3 = u ^ 3 * v ^ 3 := by ring
    rw [this, hu, hv]
    have : (-q / 2 + s) * (-q / 2 - s) = q * q / 4 - s * s := by ring
    rw [this, hs]; ring
  have hp : p = -3 * (u * v) := by rw [huv]; ring
  have hq : q = -(u ^ 3 + v ^ 3) := by rw [hu, hv]; ring
  have hne : u ≠ v := by
    intro h
    rw [h] at hu
    have : s = 0 := by linarith [hu, hv]
    linarith
  have hfac : t ^ 3 + p * t + q = (t - (u + v)) * ((t + (u + v) / 2) ^ 2 + 3 / 4 * (u - v) ^ 2) := by
    rw [hp, hq]; ring
  rw [hfac]
  have hpos2 : 0 < (t + (u + v) / 2) ^ 2 + 3 / 4 * (u - v) ^ 2 := by
    have h1 : 0 ≤ (t + (u + v) / 2) ^ 2 := sq_nonneg _
    have h2 : 0 < (u - v) ^ 2 := by
      have : u - v ≠ 0 := sub_ne_zero.mpr hne
      positivity
    linarith
  constructor
  · intro h
    rcases mul_eq_zero.mp h with h | h
    · linarith
    · linarith
  · intro h; rw [h]; ring

/-! ### Δ = 0: a double root -/

theorem double_root (p q u t : ℝ) (hd : q * q / 4 + p * p * p / 27 = 0) (hu : u ^ 3 = -q / 2) :
    t ^ 3 + p * t + q = 0 ↔ t = 2 * u ∨ t = -u := by
  have hq : q = -2 * u ^ 3 := by rw [hu]; ring
  have hp : p = -3 * u ^ 2 := by
    apply cube_injective
    have h1 : p ^ 3 = -27 * (q * q / 4) := by
      have : p ^ 3 = p * p * p := by ring
      rw [this]; linarith
    rw [h1, hq]; ring
  have hfac : t ^ 3 + p * t + q = (t - 2 * u) * ((t + u) * (t + u)) := by rw [hp, hq]; ring
  rw [hfac]
  constructor
  · intro h
    rcases mul_eq_zero.mp h with h | h
    · left; linarith
    · right
      rcases mul_eq_zero.mp h with h | h <;> linarith
  · rintro (h | h) <;> rw [h] <;> ring

/-! ### Δ < 0: three real roots, from one complex cube root -/

/-- the factorisation behind the trigonometric branch, in the real and imaginary part of a complex cube root `x + iy` of
`-q/2 + i√-Δ`: its real part cubed and its modulus are all that is used -/
theorem three_roots (p q x y r3 t : ℝ) (hr3 : r3 * r3 = 3) (hre : x ^ 3 - 3 * x * y ^ 2 = -q / 2) (hmod : x ^ 2 + y ^ 2 = -p / 3) :
    t ^ 3 + p * t + q = 0 ↔ t = 2 * x ∨ t = -x - r3 * y ∨ t = -x + r3 * y := by
  have hp : p = -3 * (x ^ 2 + y ^ 2) := by rw [hmod]; ring
  have hq : q = -2 * (x ^ 3 - 3 * x * y ^ 2) := by rw [hre]; ring
  have hfac : t ^ 3 + p * t + q = (t - 2 * x) * ((t + x + r3 * y) * (t + x - r3 * y)) := by
    have : (t + x + r3 * y) * (t + x - r3 * y) = (t + x) ^ 2 - (r3 * r3) * y ^ 2 := by ring
    rw [this, hr3, hp, hq]; ring
  rw [hfac]
  constructor
  · intro h
    rcases mul_eq_zero.mp h with h | h
    · left; linarith
    · rcases mul_eq_zero.mp h with h | h
      · right; left; linarith
      · right; right; linarith
  · rintro (h | h | h) <;> rw [h] <;> ring

/-! ### the complex cube roots of the code's third branch -/

theorem cube_re (u : ℂ) : (u ^ 3).re = u.re ^ 3 - 3 * u.re * u.im ^ 2 := by
  have : u ^ 3 = u * u * u := by ring
  rw [this]
  simp only [Complex.mul_re, Complex.mul_im]
  ring

/-- the number whose cube root the code takes: `-q/2 + csqrt(Δ)` for `Δ < 0` -/
noncomputable def zOf (q nd : ℝ) : ℂ := ⟨-q / 2, Real.sqrt nd⟩

theorem conj_zOf (q nd : ℝ) : (starRingEnd ℂ) (zOf q nd) = ⟨-q / 2, -Real.sqrt nd⟩ := by
  apply Complex.ext <;> simp [zOf]

/-- the two principal cube roots the code computes are complex conjugates -/
theorem cuberoots_conj (q nd : ℝ) (hnd : 0 < nd) :
    ((starRingEnd ℂ) (zOf q nd)) ^ (((3 : ℕ) : ℂ)⁻¹) = (starRingEnd ℂ) ((zOf q nd) ^ (((3 : ℕ) : ℂ)⁻¹)) := by
  have harg : (zOf q nd).arg ≠ Real.pi := by
    intro h
    have := (Complex.arg_eq_pi_iff.mp h).2
    have hs : 0 < Real.sqrt nd := Real.sqrt_pos.mpr hnd
    simp [zOf] at this
    linarith
  have h := Complex.conj_cpow (zOf q nd) (((3 : ℕ) : ℂ)⁻¹) harg
  rw [h]
  have h3 : (starRingEnd ℂ) (((3 : ℕ) : ℂ)⁻¹) = ((3 : ℕ) : ℂ)⁻¹ := by
    rw [map_inv₀, Complex.conj_natCast]
  rw [h3]

/-- what the trigonometric branch uses of the cube root `w = x + iy` of `-q/2 + i√-Δ` -/
theorem cuberoot_facts (p q nd : ℝ) (hnd : 0 < nd) (hd : q * q / 4 + p * p * p / 27 = -nd) (w : ℂ) (hw : w ^ 3 = zOf q nd) :
    w.re ^ 3 - 3 * w.re * w.im ^ 2 = -q / 2 ∧ w.re ^ 2 + w.im ^ 2 = -p / 3 := by
  constructor
  · rw [← cube_re, hw]; rfl
  · apply cube_injective
    have h1 : Complex.normSq (w ^ 3) = Complex.normSq w ^ 3 := map_pow _ _ _
    have h2 : Complex.normSq w = w.re ^ 2 + w.im ^ 2 := by rw [Complex.normSq_apply]; ring
    have h3 : Complex.normSq (zOf q nd) = q * q / 4 + nd := by
      rw [Complex.normSq_apply]
      simp only [zOf]
      rw [Real.mul_self_sqrt (le_of_lt hnd)]
      ring
    rw [← h2, ← h1, hw, h3]
    have : p ^ 3 = p * p * p := by ring
    have h4 : (-p / 3) ^ 3 = -(p * p * p) / 27 := by ring
    rw [h4]
    linarith

/-! ### the whole solver -/

/-- `sb_i_poly_solve_4d` in exact arithmetic (leading coefficient `a ≠ 0`): the roots it reports, in its order -/
noncomputable def idealSolve4 (a b c d : ℝ) : List ℝ :=
  let p := depP a b c
  let q := depQ a b c d
  let delta := q * q / 4 + p * p * p / 27
  let off := depOff a b
  if delta = 0 then
    (if cbrt (-q / 2) = 0 then [0 + off] else [2 * cbrt (-q / 2) + off, -cbrt (-q / 2) + off])
  else if 0 < delta then
    [cbrt (-q / 2 + Real.sqrt delta) + cbrt (-q / 2 - Real.sqrt delta) + off]
  else
    let u : ℂ := (zOf q (-delta)) ^ (((3 : ℕ) : ℂ)⁻¹)
    let v : ℂ := ((starRingEnd ℂ) (zOf q (-delta))) ^ (((3 : ℕ) : ℂ)⁻¹)
    let r3 : ℂ := ((Real.sqrt 3 : ℝ) : ℂ)
    [(u + v).re + off, (-(u + v) / 2 + Complex.I * (1 / 2) * r3 * (u - v)).re + off,
     (-(u + v) / 2 - Complex.I * (1 / 2) * r3 * (u - v)).re + off]

theorem conj_combos (w : ℂ) (r : ℝ) :
    (w + (starRingEnd ℂ) w).re = 2 * w.re ∧
    (-(w + (starRingEnd ℂ) w) / 2 + Complex.I * (1 / 2) * (r : ℂ) * (w - (starRingEnd ℂ) w)).re = -w.re - r * w.im ∧
    (-(w + (starRingEnd ℂ) w) / 2 - Complex.I * (1 / 2) * (r : ℂ) * (w - (starRingEnd ℂ) w)).re = -w.re + r * w.im := by
  have h2 : ((2 : ℂ)).re = 2 ∧ ((2 : ℂ)).im = 0 := ⟨rfl, rfl⟩
  refine ⟨?_, ?_, ?_⟩
  · simp; ring
  · have e : -(w + (starRingEnd ℂ) w) / 2 + Complex.I * (1 / 2) * (r : ℂ) * (w - (starRingEnd ℂ) w)
        = (⟨-w.re - r * w.im, 0⟩ : ℂ) := by
      apply Complex.ext
      · simp [Complex.normSq]; ring
      · simp [Complex.normSq]
    rw [e]
  · have e : -(w + (starRingEnd ℂ) w) / 2 - Complex.I * (1 / 2) * (r : ℂ) * (w - (starRingEnd ℂ) w)
        = (⟨-w.re + r * w.im, 0⟩ : ℂ) := by
      apply Complex.ext
      · simp [Complex.normSq]; ring
      · simp [Complex.normSq]
    rw [e]

/-- **the closed-form cubic solver is sound and complete over the reals**: for `a ≠ 0` the numbers `idealSolve4` reports are
exactly the real roots of `a x³ + b x² + c x + d`, in each of its three branches -/
theorem idealSolve4_correct (a b c d x : ℝ) (ha : a ≠ 0) :
    x ∈ idealSolve4 a b c d ↔ a * x ^ 3 + b * x ^ 2 + c * x + d = 0 := by
  have hx : x = (x - depOff a b) + depOff a b := by ring
  have hdep := depress a b c d (x - depOff a b) ha
  rw [← hx] at hdep
  rw [hdep]
  have hiff : a * ((x - depOff a b) ^ 3 + depP a b c * (x - depOff a b) + depQ a b c d) = 0 ↔
      (x - depOff a b) ^ 3 + depP a b c * (x - depOff a b) + depQ a b c d = 0 := by
    constructor
    · intro h; rcases mul_eq_zero.mp h with h | h
      · exact absurd h ha
      · exact h
    · intro h; rw [h]; ring
  rw [hiff]
  have hshift : ∀ r : ℝ, x = r + depOff a b ↔ x - depOff a b = r := fun r => by constructor <;> intro h <;> linarith
  unfold idealSolve4
  simp only
  by_cases h0 : depQ a b c d * depQ a b c d / 4 + depP a b c * depP a b c * depP a b c / 27 = 0
  · rw [if_pos h0]
    have hdr := double_root (depP a b c) (depQ a b c d) (cbrt (-depQ a b c d / 2)) (x - depOff a b) h0 (cbrt_cube _)
    rw [hdr]
    by_cases hu : cbrt (-depQ a b c d / 2) = 0
    · rw [if_pos hu, hu]
      simp only [List.mem_cons, List.mem_nil_iff, or_false, hshift]
      constructor
      · intro h; left; rw [h]; ring
      · rintro (h | h) <;> rw [h] <;> ring
    · rw [if_neg hu]
      simp only [List.mem_cons, List.mem_nil_iff, or_false, hshift]
  · rw [if_neg h0]
    by_cases hpos : 0 < depQ a b c d * depQ a b c d / 4 + depP a b c * depP a b c * depP a b c / 27
    · rw [if_pos hpos]
      simp only [List.mem_cons, List.mem_nil_iff, or_false, hshift]
      have h1 := one_root (depP a b c) (depQ a b c d) (Real.sqrt (depQ a b c d * depQ a b c d / 4 + depP a b c * depP a b c * depP a b c / 27))
        (cbrt (-depQ a b c d / 2 + Real.sqrt (depQ a b c d * depQ a b c d / 4 + depP a b c * depP a b c * depP a b c / 27)))
        (cbrt (-depQ a b c d / 2 - Real.sqrt (depQ a b c d * depQ a b c d / 4 + depP a b c * depP a b c * depP a b c / 27)))
        (x - depOff a b) (Real.mul_self_sqrt (le_of_lt hpos)) (Real.sqrt_pos.mpr hpos) (cbrt_cube _) (cbrt_cube _)
      rw [h1]
    · rw [if_neg hpos]
      have hneg : 0 < -(depQ a b c d * depQ a b c d / 4 + depP a b c * depP a b c * depP a b c / 27) := by
        rcases lt_trichotomy (depQ a b c d * depQ a b c d / 4 + depP a b c * depP a b c * depP a b c / 27) 0 with h | h | h
        · linarith
        · exact absurd h h0
        · exact absurd h hpos
      generalize hnd : -(depQ a b c d * depQ a b c d / 4 + depP a b c * depP a b c * depP a b c / 27) = nd at hneg
      have hd : depQ a b c d * depQ a b c d / 4 + depP a b c * depP a b c * depP a b c / 27 = -nd := by linarith
      rw [cuberoots_conj (depQ a b c d) nd hneg]
      generalize hwdef : (zOf (depQ a b c d) nd) ^ (((3 : ℕ) : ℂ)⁻¹) = w
      have hw : w ^ 3 = zOf (depQ a b c d) nd := by
        rw [← hwdef]; exact Complex.cpow_nat_inv_pow _ (by decide)
      obtain ⟨f1, f2⟩ := cuberoot_facts (depP a b c) (depQ a b c d) nd hneg hd w hw
      obtain ⟨g1, g2, g3⟩ := conj_combos w (Real.sqrt 3)
      rw [g1, g2, g3]
      simp only [List.mem_cons, List.mem_nil_iff, or_false, hshift]
      have h3 := three_roots (depP a b c) (depQ a b c d) w.re w.im (Real.sqrt 3) (x - depOff a b)
        (Real.mul_self_sqrt (by norm_num)) f1 f2
      rw [h3]

/-! ### non-vacuity: each branch is taken by a concrete cubic -/

/-- `x³ - x` has `Δ = -1/27 < 0`: the three-root branch -/
example : depP 1 0 (-1) = -1 ∧ depQ 1 0 (-1) 0 = 0 := by unfold depP depQ; constructor <;> norm_num
/-- `x³ + x` has `Δ = 1/27 > 0`: the one-root branch -/
example : depP 1 0 1 = 1 ∧ depQ 1 0 1 0 = 0 := by unfold depP depQ; constructor <;> norm_num
/-- `(x - 1)²(x + 2) = x³ - 3x + 2` has `Δ = 0`: the double-root branch -/
example : depQ 1 0 (-3) 2 * depQ 1 0 (-3) 2 / 4 + depP 1 0 (-3) * depP 1 0 (-3) * depP 1 0 (-3) / 27 = 0 := by
  unfold depP depQ; norm_num

/-- the theorem applied: every cubic with `a ≠ 0` that has a real root `x` gets it reported -/
example (a b c d x : ℝ) (ha : a ≠ 0) (h : a * x ^ 3 + b * x ^ 2 + c * x + d = 0) : x ∈ idealSolve4 a b c d :=
  (idealSolve4_correct a b c d x ha).mpr h

/-! ### `touches`: is there a solution in [0,1], and one that is -/

/-- the smallest element of a list -/
noncomputable def leftmost : List ℝ → Option ℝ
  | [] => none
  | x :: xs => match leftmost xs with
    | none => some x
    | some y => some (min x y)

theorem leftmost_none (l : List ℝ) : leftmost l = none ↔ l = [] := by
  cases l with
  | nil => simp [leftmost]
  | cons x xs =>
    simp only [leftmost]
    cases leftmost xs <;> simp

theorem leftmost_some (l : List ℝ) (m : ℝ) (h : leftmost l = some m) : m ∈ l ∧ ∀ x ∈ l, m ≤ x := by
  induction l generalizing m with
  | nil => simp [leftmost] at h
  | cons x xs ih =>
    simp only [leftmost] at h
    cases hx : leftmost xs with
    | none =>
      rw [hx] at h
      have hnil := (leftmost_none xs).mp hx
      subst hnil
      simp only [Option.some.injEq] at h
      subst h
      simp
    | some y =>
      rw [hx] at h
      simp only [Option.some.injEq] at h
      obtain ⟨hy, hle⟩ := ih y hx
      subst h
      constructor
      · rcases min_choice x y with h1 | h1 <;> rw [h1]
        · exact List.mem_cons_self
        · exact List.mem_cons_of_mem _ hy
      · intro z hz
        rcases List.mem_cons.mp hz with rfl | hz'
        · exact min_le_left _ _
        · exact le_trans (min_le_right _ _) (hle z hz')

open Classical in
/-- `sb_i_poly_touches_4d` in exact arithmetic: the two end points first (the code answers 0 resp. 1 at once when the value is
taken there), then the leftmost of the solver's solutions that lie in [0,1].  (The code's 'the derivative never changes sign'
shortcuts only answer "no" earlier, in cases where `touches4_shortcut_above/below` show that there is no solution.) -/
noncomputable def idealTouches4 (a b c d v : ℝ) : Option ℝ :=
  if d = v then some 0
  else if a + b + c + d = v then some 1
  else leftmost ((idealSolve4 a b c (d - v)).filter (fun r => decide (0 ≤ r ∧ r ≤ 1)))

/-- **`touches` for cubics, over the reals**: the answer is "no" exactly when the cubic does not take the value anywhere on
[0,1], and a reported point lies in [0,1] and is a solution -/
theorem idealTouches4_spec (a b c d v : ℝ) (ha : a ≠ 0) :
    (idealTouches4 a b c d v = none ↔ ∀ u, 0 ≤ u → u ≤ 1 → a * u ^ 3 + b * u ^ 2 + c * u + d ≠ v) ∧
    (∀ u, idealTouches4 a b c d v = some u → 0 ≤ u ∧ u ≤ 1 ∧ a * u ^ 3 + b * u ^ 2 + c * u + d = v) := by
  have hroot : ∀ u : ℝ, u ∈ idealSolve4 a b c (d - v) ↔ a * u ^ 3 + b * u ^ 2 + c * u + d = v := by
    intro u
    rw [idealSolve4_correct a b c (d - v) u ha]
    constructor <;> intro h <;> linarith
  unfold idealTouches4
  by_cases h0 : d = v
  · rw [if_pos h0]
    constructor
    · constructor
      · intro h; cases h
      · intro h; exact absurd (by rw [h0]; ring) (h 0 (le_refl _) (by norm_num))
    · intro u hu
      simp only [Option.some.injEq] at hu
      subst hu
      exact ⟨le_refl _, by norm_num, by rw [h0]; ring⟩
  · rw [if_neg h0]
    by_cases h1 : a + b + c + d = v
    · rw [if_pos h1]
      constructor
      · constructor
        · intro h; cases h
        · intro h; exact absurd (by rw [← h1]; ring) (h 1 (by norm_num) (le_refl _))
      · intro u hu
        simp only [Option.some.injEq] at hu
        subst hu
        exact ⟨by norm_num, le_refl _, by rw [← h1]; ring⟩
    · rw [if_neg h1]
      constructor
      · rw [leftmost_none]
        constructor
        · intro h u hu0 hu1 he
          have : u ∈ (idealSolve4 a b c (d - v)).filter (fun r => decide (0 ≤ r ∧ r ≤ 1)) := by
            rw [List.mem_filter]
            exact ⟨(hroot u).mpr he, by simp [hu0, hu1]⟩
          rw [h] at this
          cases this
        · intro h
          apply List.eq_nil_iff_forall_not_mem.mpr
          intro u hu
          rw [List.mem_filter] at hu
          obtain ⟨hm, hd⟩ := hu
          simp only [decide_eq_true_eq] at hd
          exact h u hd.1 hd.2 ((hroot u).mp hm)
      · intro u hu
        obtain ⟨hm, _⟩ := leftmost_some _ u hu
        rw [List.mem_filter] at hm
        obtain ⟨hm, hd⟩ := hm
        simp only [decide_eq_true_eq] at hd
        exact ⟨hd.1, hd.2, (hroot u).mp hm⟩

/-- … and when neither end point takes the value, the reported point is the **first** solution in [0,1] -/
theorem idealTouches4_first (a b c d v u : ℝ) (ha : a ≠ 0) (h0 : d ≠ v) (h1 : a + b + c + d ≠ v)
    (h : idealTouches4 a b c d v = some u) :
    ∀ w, 0 ≤ w → w < u → a * w ^ 3 + b * w ^ 2 + c * w + d ≠ v := by
  unfold idealTouches4 at h
  rw [if_neg h0, if_neg h1] at h
  obtain ⟨hm, hle⟩ := leftmost_some _ u h
  rw [List.mem_filter] at hm
  simp only [decide_eq_true_eq] at hm
  intro w hw0 hwu he
  have hw : w ∈ (idealSolve4 a b c (d - v)).filter (fun r => decide (0 ≤ r ∧ r ≤ 1)) := by
    rw [List.mem_filter]
    refine ⟨(idealSolve4_correct a b c (d - v) w ha).mpr (by linarith), ?_⟩
    simp only [decide_eq_true_eq]
    exact ⟨hw0, by linarith [hm.2.2]⟩
  have := hle w hw
  linarith

open Classical in
/-- `sb_i_poly_touches_3d` in exact arithmetic (quadratics), same structure -/
noncomputable def idealTouches3 (a b c v : ℝ) : Option ℝ :=
  if c = v then some 0
  else if a + b + c = v then some 1
  else leftmost ((idealSolve3 a b (c - v)).filter (fun r => decide (0 ≤ r ∧ r ≤ 1)))

/-- **`touches` for quadratics, over the reals** -/
theorem idealTouches3_spec (a b c v : ℝ) (ha : a ≠ 0) :
    (idealTouches3 a b c v = none ↔ ∀ u, 0 ≤ u → u ≤ 1 → a * u * u + b * u + c ≠ v) ∧
    (∀ u, idealTouches3 a b c v = some u → 0 ≤ u ∧ u ≤ 1 ∧ a * u * u + b * u + c = v) := by
  have hroot : ∀ u : ℝ, u ∈ idealSolve3 a b (c - v) ↔ a * u * u + b * u + c = v := by
    intro u
    rw [idealSolve3_correct a b (c - v) u ha]
    constructor <;> intro h <;> linarith
  unfold idealTouches3
  by_cases h0 : c = v
  · rw [if_pos h0]
    constructor
    · constructor
      · intro h; cases h
      · intro h; exact absurd (by rw [h0]; ring) (h 0 (le_refl _) (by norm_num))
    · intro u hu
      simp only [Option.some.injEq] at hu
      subst hu
      exact ⟨le_refl _, by norm_num, by rw [h0]; ring⟩
  · rw [if_neg h0]
    by_cases h1 : a + b + c = v
    · rw [if_pos h1]
      constructor
      · constructor
        · intro h; cases h
        · intro h; exact absurd (by rw [← h1]; ring) (h 1 (by norm_num) (le_refl _))
      · intro u hu
        simp only [Option.some.injEq] at hu
        subst hu
        exact ⟨by norm_num, le_refl _, by rw [← h1]; ring⟩
    · rw [if_neg h1]
      constructor
      · rw [leftmost_none]
        constructor
        · intro h u hu0 hu1 he
          have : u ∈ (idealSolve3 a b (c - v)).filter (fun r => decide (0 ≤ r ∧ r ≤ 1)) := by
            rw [List.mem_filter]
            exact ⟨(hroot u).mpr he, by simp [hu0, hu1]⟩
          rw [h] at this
          cases this
        · intro h
          apply List.eq_nil_iff_forall_not_mem.mpr
          intro u hu
          rw [List.mem_filter] at hu
          obtain ⟨hm, hd⟩ := hu
          simp only [decide_eq_true_eq] at hd
          exact h u hd.1 hd.2 ((hroot u).mp hm)
      · intro u hu
        obtain ⟨hm, _⟩ := leftmost_some _ u hu
        rw [List.mem_filter] at hm
        obtain ⟨hm, hd⟩ := hm
        simp only [decide_eq_true_eq] at hd
        exact ⟨hd.1, hd.2, (hroot u).mp hm⟩

end Sb.C18
