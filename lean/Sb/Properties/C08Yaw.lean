/-
C08, yaw half — yaw and yaw-rate answers and the total duration do not depend on earlier queries.

For every yaw block (any bytes) whose accumulated yaw stays inside `int32_t` and whose time stamps do not wrap,
every weakly monotone conversion `sec` of milliseconds to seconds, every history of earlier yaw / rate / duration
queries at non-NaN times and every query whose instant is not exactly a setpoint boundary: the answer through the
used player equals the answer of a fresh player.
-/
import Sb.Proofs.YawCursor
import Sb.Proofs.Parsing

namespace Sb.C08Yaw
open Sb Sb.Yaw Sb.Proofs

inductive YQuery where
  | yaw (t : Traj.QTime)
  | rate (t : Traj.QTime)
  | dur
  deriving Inhabited

inductive YAnswer where
  | deg (r : Rat)
  | rate (r : Option Rat)
  | ms (n : Nat)
  deriving DecidableEq

def YQuery.valid : YQuery → Prop
  | .yaw t => t.valid
  | .rate t => t.valid
  | .dur => True

def YQuery.atBoundary (sec : Nat → Rat) (c : Ctrl) : YQuery → Prop
  | .yaw t => IsBoundary (yawCur sec c) t
  | .rate t => IsBoundary (yawCur sec c) t
  | .dur => False

def runYQuery (sec : Nat → Rat) (p : Player) : YQuery → R (Player × YAnswer)
  | .yaw t => (yawAt sec p t).map (fun r => (r.1, .deg r.2))
  | .rate t => (yawRateAt sec p t).map (fun r => (r.1, .rate r.2))
  | .dur => (totalDurationMsec sec p).map (fun r => (r.1, .ms r.2))

def runYHistory (sec : Nat → Rat) (p : Player) : List YQuery → R Player
  | [] => .ok p
  | q :: qs => do
    let (p', _) ← runYQuery sec p q
    runYHistory sec p' qs

/-- the yaw / rate computed from the setpoint a seek landed on (as in `yawAt` / `yawRateAt`) -/
def yawOf (s : Setpoint) (t : Traj.QTime) : Rat := (s.startYawDdeg : Rat) / 10 + (s.changeDdeg : Rat) / 10 * relT s t
def rateOf (s : Setpoint) : Option Rat :=
  match s.durSec with
  | some d => if d = 0 then none else some ((s.changeDdeg : Rat) / 10 / d)
  | none => some 0

theorem yawAt_of_seek (sec : Nat → Rat) (p p' : Player) (t : Traj.QTime) (r : Rat) (h : seek sec p t = .ok (p', r)) :
    runYQuery sec p (.yaw t) = .ok (p', .deg ((p'.cur.startYawDdeg : Rat) / 10 + (p'.cur.changeDdeg : Rat) / 10 * r)) := by
  simp only [runYQuery, yawAt, h, bind, Except.bind, pure, Except.pure, Except.map]

theorem rateAt_of_seek (sec : Nat → Rat) (p p' : Player) (t : Traj.QTime) (r : Rat) (h : seek sec p t = .ok (p', r)) :
    runYQuery sec p (.rate t) = .ok (p', .rate (rateOf p'.cur)) := by
  simp only [runYQuery, yawRateAt, h, bind, Except.bind, pure, Except.pure, Except.map, rateOf]
  rfl

/-- invariant of a yaw player of control block `c`: it sits on a chain element -/
def YInv (sec : Nat → Rat) (c : Ctrl) (N : Nat) (p : Player) : Prop := ∃ j, j ≤ N ∧ p = ⟨c, (yawCur sec c).chain j⟩

/-- a seek from a chain element lands on a chain element, and returns what the abstract seek returns -/
theorem yaw_seek_lands (sec : Nat → Rat) (c : Ctrl) (hov : NoYawOverflow sec c) (N : Nat) (hN : N ≤ c.buf.length)
    (T : Tiling0 (yawCur sec c) N) (t : Traj.QTime) (ht : t.valid) (j : Nat) (hj : j ≤ N) :
    ∃ k, k ≤ N ∧ cseek (yawCur sec c) t (seekFuel c) ((yawCur sec c).chain j) = some ((yawCur sec c).chain k) ∧
      Yaw.seek sec ⟨c, (yawCur sec c).chain j⟩ t = .ok (⟨c, (yawCur sec c).chain k⟩, relT ((yawCur sec c).chain k) t) := by
  obtain ⟨k, hk, hs, _⟩ := cseek_lands (yawCur sec c) N T t ht j (seekFuel c) hj (by unfold seekFuel; omega)
  refine ⟨k, hk, hs, ?_⟩
  unfold Yaw.seek
  rw [yaw_seekLoop_eq_cseek sec c hov t (seekFuel c) j, hs]
  rfl

/-- the duration loop walks the chain to its terminal element -/
theorem yaw_durLoop_chain (sec : Nat → Rat) (c : Ctrl) (hov : NoYawOverflow sec c) (N : Nat)
    (hterm : ((yawCur sec c).chain N).length = 0) (hmin : ∀ k, k < N → ((yawCur sec c).chain k).length ≠ 0) :
    ∀ (d i fuel acc : Nat), i + d = N → d < fuel →
      ∃ n, durLoop sec fuel ⟨c, (yawCur sec c).chain i⟩ acc = .ok (⟨c, (yawCur sec c).chain N⟩, n) := by
  intro d
  induction d with
  | zero =>
    intro i fuel acc hi hf
    have : i = N := by omega
    subst this
    obtain ⟨f, rfl⟩ : ∃ f, fuel = f + 1 := ⟨fuel - 1, by omega⟩
    refine ⟨acc, ?_⟩
    simp [durLoop, Player.hasMore, hterm]
  | succ d ih =>
    intro i fuel acc hi hf
    obtain ⟨f, rfl⟩ : ∃ f, fuel = f + 1 := ⟨fuel - 1, by omega⟩
    have hne := hmin i (by omega)
    have hpos : ((yawCur sec c).chain i).length > 0 := Nat.pos_of_ne_zero hne
    obtain ⟨n, hn⟩ := ih (i + 1) f (Traj.u32 (acc + ((yawCur sec c).chain i).durMs)) (by omega) (by omega)
    refine ⟨n, ?_⟩
    simp only [durLoop, Player.hasMore, hpos, decide_true, if_true, yaw_next_eq sec c hov i, bind, Except.bind]
    exact hn

/-- every query keeps the player on the chain -/
theorem runYQuery_inv (sec : Nat → Rat) (c : Ctrl) (hov : NoYawOverflow sec c) (N : Nat) (hN : N ≤ c.buf.length)
    (T : Tiling0 (yawCur sec c) N) (hterm : ((yawCur sec c).chain N).length = 0)
    (hmin : ∀ k, k < N → ((yawCur sec c).chain k).length ≠ 0)
    (p : Player) (hp : YInv sec c N p) (q : YQuery) (hq : q.valid) :
    ∃ p' a, runYQuery sec p q = .ok (p', a) ∧ YInv sec c N p' := by
  obtain ⟨j, hj, rfl⟩ := hp
  cases q with
  | yaw t =>
    obtain ⟨k, hk, _, hseek⟩ := yaw_seek_lands sec c hov N hN T t hq j hj
    exact ⟨_, _, yawAt_of_seek sec _ _ t _ hseek, ⟨k, hk, rfl⟩⟩
  | rate t =>
    obtain ⟨k, hk, _, hseek⟩ := yaw_seek_lands sec c hov N hN T t hq j hj
    exact ⟨_, _, rateAt_of_seek sec _ _ t _ hseek, ⟨k, hk, rfl⟩⟩
  | dur =>
    obtain ⟨n, hn⟩ := yaw_durLoop_chain sec c hov N hterm hmin N 0 (seekFuel c) 0 (by omega) (by unfold seekFuel; omega)
    refine ⟨⟨c, (yawCur sec c).chain N⟩, .ms n, ?_, ⟨N, Nat.le_refl _, rfl⟩⟩
    simp only [runYQuery, totalDurationMsec, yaw_rewind_eq sec c hov, hn, bind, Except.bind, Except.map]

theorem runYHistory_inv (sec : Nat → Rat) (c : Ctrl) (hov : NoYawOverflow sec c) (N : Nat) (hN : N ≤ c.buf.length)
    (T : Tiling0 (yawCur sec c) N) (hterm : ((yawCur sec c).chain N).length = 0)
    (hmin : ∀ k, k < N → ((yawCur sec c).chain k).length ≠ 0)
    (hist : List YQuery) (p : Player) (hp : YInv sec c N p) (hh : ∀ q, q ∈ hist → q.valid) :
    ∃ ph, runYHistory sec p hist = .ok ph ∧ YInv sec c N ph := by
  induction hist generalizing p with
  | nil => exact ⟨p, rfl, hp⟩
  | cons q qs ih =>
    obtain ⟨p1, a, h1, hinv1⟩ := runYQuery_inv sec c hov N hN T hterm hmin p hp q (hh q (by simp))
    obtain ⟨p2, h2, hinv2⟩ := ih p1 hinv1 (fun q' hq' => hh q' (by simp [hq']))
    exact ⟨p2, by simp only [runYHistory, h1, bind, Except.bind]; exact h2, hinv2⟩

/-- **C08 (yaw).** After any sequence of earlier yaw / yaw-rate / duration queries at non-NaN times, the answer to a
query whose instant is not exactly a setpoint boundary is the answer a fresh player gives. -/
theorem yaw_answers_history_free (sec : Nat → Rat) (hsec : MonoSec sec) (c : Ctrl) (hov : NoYawOverflow sec c)
    (hw : NoWrapYaw sec c) (hist : List YQuery) (hh : ∀ q, q ∈ hist → q.valid) (q : YQuery) (hq : q.valid)
    (hnb : ¬ q.atBoundary sec c) :
    ∃ p0 ph a, Yaw.rewind sec c = .ok p0 ∧ runYHistory sec p0 hist = .ok ph ∧
      (runYQuery sec ph q).map (·.2) = .ok a ∧ (runYQuery sec p0 q).map (·.2) = .ok a := by
  obtain ⟨N, hN, T, hterm⟩ := yaw_tiling sec c hsec hw
  have hmin : ∀ k, k < N → ((yawCur sec c).chain k).length ≠ 0 := by
    intro k hk h0
    obtain ⟨e, he⟩ := T.bounded k hk
    change ((yawCur sec c).chain k).endSec = some e at he
    rcases (yaw_chain_built sec c k).shape with ⟨_, hnone⟩ | ⟨h4, _⟩
    · rw [hnone] at he; cases he
    · omega
  have hp0 : YInv sec c N ⟨c, (yawCur sec c).chain 0⟩ := ⟨0, by omega, rfl⟩
  obtain ⟨ph, hrun, hinv⟩ := runYHistory_inv sec c hov N hN T.toTiling0 hterm hmin hist _ hp0 hh
  obtain ⟨j, hj, rfl⟩ := hinv
  cases q with
  | yaw t =>
    have hnb' : ¬ IsBoundary (yawCur sec c) t := hnb
    obtain ⟨k, _, hs, hseek⟩ := yaw_seek_lands sec c hov N hN T.toTiling0 t hq j hj
    obtain ⟨k0, _, hs0, hseek0⟩ := yaw_seek_lands sec c hov N hN T.toTiling0 t hq 0 (by omega)
    have hland := landing_history_free (yawCur sec c) N T t hq j (seekFuel c) (seekFuel c) hj
      (by unfold seekFuel; omega) (by unfold seekFuel; omega) hnb'
    rw [hs, hs0] at hland
    have hkk : (yawCur sec c).chain k = (yawCur sec c).chain k0 := by injection hland
    refine ⟨_, _, .deg (((yawCur sec c).chain k).startYawDdeg / 10 + ((yawCur sec c).chain k).changeDdeg / 10 * relT ((yawCur sec c).chain k) t),
      yaw_rewind_eq sec c hov, hrun, ?_, ?_⟩
    · rw [yawAt_of_seek sec _ _ t _ hseek]; rfl
    · rw [yawAt_of_seek sec _ _ t _ hseek0]; simp only [Except.map, hkk]
  | rate t =>
    have hnb' : ¬ IsBoundary (yawCur sec c) t := hnb
    obtain ⟨k, _, hs, hseek⟩ := yaw_seek_lands sec c hov N hN T.toTiling0 t hq j hj
    obtain ⟨k0, _, hs0, hseek0⟩ := yaw_seek_lands sec c hov N hN T.toTiling0 t hq 0 (by omega)
    have hland := landing_history_free (yawCur sec c) N T t hq j (seekFuel c) (seekFuel c) hj
      (by unfold seekFuel; omega) (by unfold seekFuel; omega) hnb'
    rw [hs, hs0] at hland
    have hkk : (yawCur sec c).chain k = (yawCur sec c).chain k0 := by injection hland
    refine ⟨_, _, .rate (rateOf ((yawCur sec c).chain k)), yaw_rewind_eq sec c hov, hrun, ?_, ?_⟩
    · rw [rateAt_of_seek sec _ _ t _ hseek]; rfl
    · rw [rateAt_of_seek sec _ _ t _ hseek0]; simp only [Except.map, hkk]
  | dur =>
    obtain ⟨n, hn⟩ := yaw_durLoop_chain sec c hov N hterm hmin N 0 (seekFuel c) 0 (by omega) (by unfold seekFuel; omega)
    refine ⟨_, _, .ms n, yaw_rewind_eq sec c hov, hrun, ?_, ?_⟩
    · simp only [runYQuery, totalDurationMsec, yaw_rewind_eq sec c hov, hn, bind, Except.bind, Except.map]
    · simp only [runYQuery, totalDurationMsec, yaw_rewind_eq sec c hov, hn, bind, Except.bind, Except.map]

/-- a loaded yaw block: the buffer is the block, the offset is a 16-bit value -/
theorem init_facts (buf : Bytes) (c : Ctrl) (h : Yaw.init buf = .ok c) :
    c.buf = buf ∧ c.yawOffsetDdeg.natAbs ≤ 32768 := by
  unfold Yaw.init at h
  split at h
  · cases h
  · simp only [bind, Except.bind] at h
    cases h0 : rd buf 0 with
    | error e => rw [h0] at h; cases h
    | ok b0 =>
      rw [h0] at h
      simp only at h
      cases h1 : Parsing.parseI16 buf 1 with
      | error e => rw [h1] at h; cases h
      | ok r =>
        rw [h1] at h
        simp only [pure, Except.pure] at h
        injection h with h
        subst h
        refine ⟨rfl, ?_⟩
        -- the parsed value is a 16-bit two's complement number
        unfold Parsing.parseI16 at h1
        simp only [bind, Except.bind] at h1
        cases h2 : Parsing.parseU16 buf 1 with
        | error e => rw [h2] at h1; cases h1
        | ok u =>
          rw [h2] at h1
          simp only [pure, Except.pure] at h1
          injection h1 with h1
          subst h1
          have hr := u16_range buf 1 u h2
          simp only
          unfold toInt16
          split <;> omega

/-- **C08 (yaw), for every yaw block the file format can carry** (block length ≤ 65535 bytes): no side condition on
overflow or wrap-around is left -/
theorem yaw_answers_history_free_of_block (sec : Nat → Rat) (hsec : MonoSec sec) (buf : Bytes) (hlen : buf.length ≤ 65535)
    (c : Ctrl) (hinit : Yaw.init buf = .ok c)
    (hist : List YQuery) (hh : ∀ q, q ∈ hist → q.valid) (q : YQuery) (hq : q.valid) (hnb : ¬ q.atBoundary sec c) :
    ∃ p0 ph a, Yaw.rewind sec c = .ok p0 ∧ runYHistory sec p0 hist = .ok ph ∧
      (runYQuery sec ph q).map (·.2) = .ok a ∧ (runYQuery sec p0 q).map (·.2) = .ok a := by
  obtain ⟨hb, ho⟩ := init_facts buf c hinit
  have hl : c.buf.length ≤ 65535 := by rw [hb]; exact hlen
  exact yaw_answers_history_free sec hsec c (noYawOverflow_of_block sec c hl ho) (noWrapYaw_of_block sec c hl ho)
    hist hh q hq hnb

end Sb.C08Yaw
