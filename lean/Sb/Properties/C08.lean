/-
C08 — Trajectory and yaw answers do not depend on earlier queries.

The theorems hold for **every** weakly monotone conversion `sec` of milliseconds to seconds, hence
in particular for the binary32 rounding the C code performs (`Sb.Traj.secF32`); answers are
compared as exact values of the model, i.e. the equality is "bit for bit" under the only
assumption that C arithmetic is a deterministic function of its operands.
-/
import Sb.Proofs.TrajHistory
import Sb.Properties.C08Yaw

namespace Sb.C08
open Sb Sb.Poly Sb.Traj Sb.Proofs

/-- a query through the player -/
inductive Query where
  | pos (t : QTime)
  | vel (t : QTime)
  | acc (t : QTime)
  | dur
  deriving Inhabited

inductive Answer where
  | vec (v : Vec4)
  | ms (n : Nat)
  deriving DecidableEq

def Query.valid : Query → Prop
  | .pos t => t.valid
  | .vel t => t.valid
  | .acc t => t.valid
  | .dur => True

/-- the query instant is exactly a segment boundary -/
def Query.atBoundary (sec : Nat → Rat) (tr : Traj) : Query → Prop
  | .pos t => IsBoundary (trajCur sec tr) t
  | .vel t => IsBoundary (trajCur sec tr) t
  | .acc t => IsBoundary (trajCur sec tr) t
  | .dur => False

def runQuery (sec : Nat → Rat) (p : Player) : Query → R (Player × Answer)
  | .pos t => (positionAt sec p t).map (fun r => (r.1, .vec r.2))
  | .vel t => (velocityAt sec p t).map (fun r => (r.1, .vec r.2))
  | .acc t => (accelerationAt sec p t).map (fun r => (r.1, .vec r.2))
  | .dur => (totalDurationMsec sec p).map (fun r => (r.1, .ms r.2))

def runHistory (sec : Nat → Rat) (p : Player) : List Query → R Player
  | [] => .ok p
  | q :: qs => do
    let (p', _) ← runQuery sec p q
    runHistory sec p' qs

/-- invariant of a player of trajectory `tr` -/
def Inv (sec : Nat → Rat) (tr : Traj) (N : Nat) (p : Player) : Prop := p.traj = tr ∧ CurInv sec tr N p.cur

/-- the answer a query gets when the cursor lands on segment `s` -/
def answerAt (s : Seg) : Query → Answer
  | .pos t => .vec (s.poly.eval (relT s t))
  | .vel t => .vec ((dOf s).eval (relT s t))
  | .acc t => .vec ((ddOf s).eval (relT s t))
  | .dur => .ms 0

theorem fuel_ok (tr : Traj) (N : Nat) (h : N ≤ tr.buf.length) : N + 2 ≤ seekFuel tr := by
  unfold seekFuel; omega

/-- One query from a state satisfying the invariant: it succeeds, keeps the invariant, and for a
time-query the answer is the one at the chain element on which a seek from the underlying chain
element lands. -/
theorem runQuery_spec (sec : Nat → Rat) (tr : Traj) (N : Nat) (hN : N ≤ tr.buf.length)
    (T : Tiling0 (trajCur sec tr) N) (hterm : ((trajCur sec tr).chain N).length = 0)
    (hmin : ∀ k, k < N → ((trajCur sec tr).chain k).length ≠ 0)
    (p : Player) (hp : Inv sec tr N p) (q : Query) (hq : q.valid) :
    ∃ p' a, runQuery sec p q = .ok (p', a) ∧ Inv sec tr N p' ∧
      (∀ t, (q = .pos t ∨ q = .vel t ∨ q = .acc t) →
        ∃ j k, j ≤ N ∧ clearCache p.cur = (trajCur sec tr).chain j ∧
          cseek (trajCur sec tr) t (seekFuel tr) ((trajCur sec tr).chain j) = some ((trajCur sec tr).chain k) ∧
          a = answerAt ((trajCur sec tr).chain k) q) := by
  obtain ⟨htr, j, hj, hs, hc⟩ := hp
  have hpe : p = ⟨tr, p.cur⟩ := by cases p; simp_all
  cases q with
  | dur =>
    obtain ⟨total, ht⟩ := durLoop_chain sec tr N hterm hmin N 0 (seekFuel tr) 0 (by omega) (by unfold seekFuel; omega)
    refine ⟨⟨tr, (trajCur sec tr).chain N⟩, .ms total, ?_, ⟨rfl, N, Nat.le_refl _, chain_clear sec tr N,
      coh_of_built (chain_built sec tr N)⟩, ?_⟩
    · simp only [runQuery, totalDurationMsec, htr, rewind_eq, bind, Except.bind]
      change (durLoop sec (seekFuel tr) ⟨tr, (trajCur sec tr).chain 0⟩ 0).map _ = _
      rw [ht]; rfl
    · intro t h; rcases h with h | h | h <;> cases h
  | pos t =>
    obtain ⟨s', k, hk, hseek, hland, hcl, hcoh⟩ :=
      cseek_from_inv sec tr N T t hq (seekFuel tr) (fuel_ok tr N hN) p.cur j hj hs hc
    refine ⟨⟨tr, s'⟩, .vec (s'.poly.eval (relT s' t)), ?_, ⟨rfl, k, hk, hcl, hcoh⟩, ?_⟩
    · rw [hpe]
      simp only [runQuery, positionAt, seek, htr, seekLoop_eq_cseek, hseek, bind, Except.bind, pure, Except.pure,
        Except.map]
    · intro t' h
      rcases h with h | h | h <;> cases h
      refine ⟨j, k, hj, hs, hland, ?_⟩
      simp only [answerAt, ← hcl]
      rfl
  | vel t =>
    obtain ⟨s', k, hk, hseek, hland, hcl, hcoh⟩ :=
      cseek_from_inv sec tr N T t hq (seekFuel tr) (fuel_ok tr N hN) p.cur j hj hs hc
    obtain ⟨g1, g2, g3⟩ := getDpoly_coh s' hcoh
    refine ⟨⟨tr, (getDpoly s').1⟩, .vec ((getDpoly s').2.eval (relT s' t)), ?_,
      ⟨rfl, k, hk, by rw [g2, hcl], g3⟩, ?_⟩
    · rw [hpe]
      simp only [runQuery, velocityAt, seek, htr, seekLoop_eq_cseek, hseek, bind, Except.bind, pure, Except.pure,
        Except.map]
    · intro t' h
      rcases h with h | h | h <;> cases h
      refine ⟨j, k, hj, hs, hland, ?_⟩
      simp only [answerAt]
      rw [g1, dOf_congr (show clearCache s' = clearCache ((trajCur sec tr).chain k) by rw [hcl, chain_clear]), ← hcl]
      rfl
  | acc t =>
    obtain ⟨s', k, hk, hseek, hland, hcl, hcoh⟩ :=
      cseek_from_inv sec tr N T t hq (seekFuel tr) (fuel_ok tr N hN) p.cur j hj hs hc
    obtain ⟨g1, g2, g3⟩ := getDdpoly_coh s' hcoh
    refine ⟨⟨tr, (getDdpoly s').1⟩, .vec ((getDdpoly s').2.eval (relT s' t)), ?_,
      ⟨rfl, k, hk, by rw [g2, hcl], g3⟩, ?_⟩
    · rw [hpe]
      simp only [runQuery, accelerationAt, seek, htr, seekLoop_eq_cseek, hseek, bind, Except.bind, pure, Except.pure,
        Except.map]
    · intro t' h
      rcases h with h | h | h <;> cases h
      refine ⟨j, k, hj, hs, hland, ?_⟩
      simp only [answerAt]
      rw [g1, ddOf_congr (show clearCache s' = clearCache ((trajCur sec tr).chain k) by rw [hcl, chain_clear]), ← hcl]
      rfl

theorem inv_fresh (sec : Nat → Rat) (tr : Traj) (N : Nat) :
    Inv sec tr N ⟨tr, (trajCur sec tr).chain 0⟩ :=
  ⟨rfl, 0, Nat.zero_le _, chain_clear sec tr 0, coh_of_built (chain_built sec tr 0)⟩

/-- any history of valid queries succeeds and preserves the invariant -/
theorem runHistory_inv (sec : Nat → Rat) (tr : Traj) (N : Nat) (hN : N ≤ tr.buf.length)
    (T : Tiling0 (trajCur sec tr) N) (hterm : ((trajCur sec tr).chain N).length = 0)
    (hmin : ∀ k, k < N → ((trajCur sec tr).chain k).length ≠ 0) :
    ∀ (hist : List Query) (p : Player), Inv sec tr N p → (∀ q, q ∈ hist → q.valid) →
      ∃ p', runHistory sec p hist = .ok p' ∧ Inv sec tr N p' := by
  intro hist
  induction hist with
  | nil => intro p hp _; exact ⟨p, rfl, hp⟩
  | cons q qs ih =>
    intro p hp hv
    obtain ⟨p1, a, h1, hinv, _⟩ := runQuery_spec sec tr N hN T hterm hmin p hp q (hv q (by simp))
    obtain ⟨p2, h2, hinv2⟩ := ih p1 hinv (fun q' hq' => hv q' (by simp [hq']))
    exact ⟨p2, by simp only [runHistory, h1, bind, Except.bind]; exact h2, hinv2⟩

/-- **C08 (trajectory).** After any sequence of earlier position / velocity / acceleration /
duration queries at non-NaN times, the answer to a query whose instant is not exactly a segment
boundary is the answer a fresh player gives. -/
theorem trajectory_answers_history_free (sec : Nat → Rat) (hsec : MonoSec sec) (tr : Traj) (hw : NoWrap sec tr)
    (hist : List Query) (hh : ∀ q, q ∈ hist → q.valid) (q : Query) (hq : q.valid)
    (hnb : ¬ q.atBoundary sec tr) :
    ∃ p0 ph a, rewind sec tr = .ok p0 ∧ runHistory sec p0 hist = .ok ph ∧
      (runQuery sec ph q).map (·.2) = .ok a ∧ (runQuery sec p0 q).map (·.2) = .ok a := by
  obtain ⟨N, hN, T⟩ := traj_tiling sec tr hsec hw
  have hterm : ((trajCur sec tr).chain N).length = 0 := by
    rcases (chain_built sec tr N).shape with ⟨h0, _⟩ | ⟨_, hsome, _⟩
    · exact h0
    · have := T.last; change ((trajCur sec tr).chain N).endSec = none at this; rw [hsome] at this; cases this
  have hmin : ∀ k, k < N → ((trajCur sec tr).chain k).length ≠ 0 := by
    intro k hk h0
    obtain ⟨e, he⟩ := T.bounded k hk
    change ((trajCur sec tr).chain k).endSec = some e at he
    rcases (chain_built sec tr k).shape with ⟨_, hnone, _⟩ | ⟨h3, _⟩
    · rw [hnone] at he; cases he
    · omega
  have hp0 := inv_fresh sec tr N
  obtain ⟨ph, hrun, hinv⟩ := runHistory_inv sec tr N hN T.toTiling0 hterm hmin hist _ hp0 hh
  obtain ⟨p1, a1, hq1, _, hspec1⟩ := runQuery_spec sec tr N hN T.toTiling0 hterm hmin ph hinv q hq
  obtain ⟨p2, a2, hq2, _, hspec2⟩ := runQuery_spec sec tr N hN T.toTiling0 hterm hmin _ hp0 q hq
  refine ⟨_, ph, a1, rewind_eq sec tr, hrun, by rw [hq1]; rfl, ?_⟩
  change Except.map _ (runQuery sec ⟨tr, (trajCur sec tr).chain 0⟩ q) = _
  rw [hq2]
  simp only [Except.map]
  congr 1
  -- the two answers coincide
  have key : ∀ t, (q = .pos t ∨ q = .vel t ∨ q = .acc t) → t.valid → ¬ IsBoundary (trajCur sec tr) t → a2 = a1 := by
    intro t hqt htv hnbt
    obtain ⟨j1, k1, hj1, _, hl1, e1⟩ := hspec1 t hqt
    obtain ⟨j2, k2, hj2, hcl2, hl2, e2⟩ := hspec2 t hqt
    have hj20 : (trajCur sec tr).chain j2 = (trajCur sec tr).chain 0 := by
      rw [← hcl2]; exact chain_clear sec tr 0
    rw [hj20] at hl2
    have := landing_history_free (trajCur sec tr) N T t htv j1 (seekFuel tr) (seekFuel tr) hj1
      (fuel_ok tr N hN) (fuel_ok tr N hN) hnbt
    rw [hl1, hl2] at this
    injection this with this
    rw [e1, e2, this]
  cases q with
  | pos t => exact key t (Or.inl rfl) hq hnb
  | vel t => exact key t (Or.inr (Or.inl rfl)) hq hnb
  | acc t => exact key t (Or.inr (Or.inr rfl)) hq hnb
  | dur =>
    -- the duration query rewinds first: it does not look at the cursor at all
    have e : runQuery sec ph .dur = runQuery sec ⟨tr, (trajCur sec tr).chain 0⟩ .dur := by
      simp only [runQuery, totalDurationMsec, hinv.1]
    rw [e, hq2] at hq1
    injection hq1 with hq1
    injection hq1 with _ h

/-- **C08, boundary clause (trajectory).** When every segment has positive duration (in seconds as
computed), the segment used to answer at any instant — boundary or not — is the one a fresh player
uses or the next one. -/
theorem trajectory_boundary_adjoining (sec : Nat → Rat) (hsec : MonoSec sec) (tr : Traj) (hw : NoWrap sec tr)
    (hpos : ∀ N, StrictTiling (trajCur sec tr) N)
    (hist : List Query) (hh : ∀ q, q ∈ hist → q.valid) (q : Query) (hq : q.valid) (t : QTime)
    (hqt : q = .pos t ∨ q = .vel t ∨ q = .acc t) :
    ∃ p0 ph a k0, rewind sec tr = .ok p0 ∧ runHistory sec p0 hist = .ok ph ∧
      (runQuery sec ph q).map (·.2) = .ok a ∧
      (runQuery sec p0 q).map (·.2) = .ok (answerAt ((trajCur sec tr).chain k0) q) ∧
      (a = answerAt ((trajCur sec tr).chain k0) q ∨ a = answerAt ((trajCur sec tr).chain (k0 + 1)) q) := by
  obtain ⟨N, hN, T⟩ := traj_tiling sec tr hsec hw
  have hterm : ((trajCur sec tr).chain N).length = 0 := by
    rcases (chain_built sec tr N).shape with ⟨h0, _⟩ | ⟨_, hsome, _⟩
    · exact h0
    · have := T.last; change ((trajCur sec tr).chain N).endSec = none at this; rw [hsome] at this; cases this
  have hmin : ∀ k, k < N → ((trajCur sec tr).chain k).length ≠ 0 := by
    intro k hk h0
    obtain ⟨e, he⟩ := T.bounded k hk
    change ((trajCur sec tr).chain k).endSec = some e at he
    rcases (chain_built sec tr k).shape with ⟨_, hnone, _⟩ | ⟨h3, _⟩
    · rw [hnone] at he; cases he
    · omega
  have hp0 := inv_fresh sec tr N
  obtain ⟨ph, hrun, hinv⟩ := runHistory_inv sec tr N hN T.toTiling0 hterm hmin hist _ hp0 hh
  obtain ⟨p1, a1, hq1, _, hspec1⟩ := runQuery_spec sec tr N hN T.toTiling0 hterm hmin ph hinv q hq
  obtain ⟨p2, a2, hq2, _, hspec2⟩ := runQuery_spec sec tr N hN T.toTiling0 hterm hmin _ hp0 q hq
  have htv : t.valid := by
    rcases hqt with h | h | h <;> (subst h; exact hq)
  obtain ⟨j1, k1, hj1, _, hl1, e1⟩ := hspec1 t hqt
  obtain ⟨j2, k2, hj2, hcl2, hl2, e2⟩ := hspec2 t hqt
  have hj20 : (trajCur sec tr).chain j2 = (trajCur sec tr).chain 0 := by
    rw [← hcl2]; exact chain_clear sec tr 0
  rw [hj20] at hl2
  obtain ⟨k0, hk0, hor⟩ := landing_adjoining (trajCur sec tr) N T (hpos N) t htv j1 (seekFuel tr) (seekFuel tr) hj1
    (fuel_ok tr N hN) (fuel_ok tr N hN)
  rw [hl2] at hk0
  injection hk0 with hk0
  refine ⟨_, ph, a1, k0, rewind_eq sec tr, hrun, by rw [hq1]; rfl, ?_, ?_⟩
  · change Except.map _ (runQuery sec ⟨tr, (trajCur sec tr).chain 0⟩ q) = _
    rw [hq2]; simp only [Except.map]; rw [e2, hk0]
  · rw [hl1] at hor
    rcases hor with h | h
    · injection h with h; left; rw [e1, h]
    · injection h with h; right; rw [e1, h]

end Sb.C08
