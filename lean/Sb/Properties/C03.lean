/-
C03 — Arbitrary bytes are handled without memory errors, UB or hangs.

What a theorem about the model can carry (and does, for every byte string of every length and every
query sequence): every byte access of the model goes through the checked accessor `rd`, every
operation that would be undefined in C is a `fault`, every loop is a structurally / well-founded
recursive function or carries fuel whose exhaustion is a `fault`.  "The model never faults" is then
a statement about all inputs.  That the compiled library behaves like the model on hostile inputs
is monitored by the correspondence run under ASan/UBSan with a watchdog (see DESIGN.md §4 C03).
-/
import Sb.Properties.C06
import Sb.Properties.C08
import Sb.Properties.C11
import Sb.Properties.C19
import Sb.Properties.C02
import Sb.Proofs.YawSpec

namespace Sb.C03
open Sb Sb.Proofs

/-- "no fault": the result is a value or a library error code -/
def NF {α : Type} (x : R α) : Prop := x ≠ .error .fault

theorem NF_ok {α : Type} (a : α) : NF (.ok a : R α) := by simp [NF]
theorem NF_err {α : Type} (e : Err) (h : e ≠ .fault) : NF (.error e : R α) := by
  intro h'; injection h' with h'; exact h h'

theorem NF_bind {α β : Type} (x : R α) (f : α → R β) (hx : NF x) (hf : ∀ a, x = .ok a → NF (f a)) :
    NF (x >>= f) := by
  cases x with
  | error e => simp only [bind, Except.bind]; exact fun h => hx (by injection h with h; rw [h])
  | ok a => exact hf a rfl

theorem NF_map {α β : Type} (x : R α) (f : α → β) (hx : NF x) : NF (x.map f) := by
  cases x with
  | error e => simp only [Except.map]; exact fun h => hx (by injection h with h; rw [h])
  | ok a => simp [Except.map, NF]

/-! ### primitive reads -/

theorem rd_NF (b : Bytes) (i : Nat) (h : i < b.length) : NF (rd b i) := by
  rw [rd_of_lt b i h]; exact NF_ok _

theorem parseU16_NF (b : Bytes) (off : Nat) (h : off + 2 ≤ b.length) : NF (Parsing.parseU16 b off) := by
  unfold Parsing.parseU16
  rw [rd_of_lt b (off + 1) (by omega), rd_of_lt b off (by omega)]
  exact NF_ok _

theorem parseI16_NF (b : Bytes) (off : Nat) (h : off + 2 ≤ b.length) : NF (Parsing.parseI16 b off) := by
  unfold Parsing.parseI16
  apply NF_bind _ _ (parseU16_NF b off h)
  intro a _; exact NF_ok _

/-- the variable-length integer decoder never faults when told the true buffer length (C19) -/
theorem varuint_NF (b : Bytes) (off : Nat) : NF ((Parsing.parseVaruint32 b b.length off).toR) := by
  have := (Sb.C19.varuint_reads_below_n b b.length off (Nat.le_refl _)).2
  cases h : Parsing.parseVaruint32 b b.length off with
  | ok v o => exact NF_ok _
  | overflow o => exact NF_err _ (by decide)
  | parse o => exact NF_err _ (by decide)
  | fault => exact absurd h this

/-! ### trajectory -/

theorem traj_init_ok (buf : Bytes) (h9 : 9 ≤ buf.length) : ∃ tr, Traj.init buf = .ok tr := by
  rcases buf with _ | ⟨f, _ | ⟨x0, _ | ⟨x1, _ | ⟨y0, _ | ⟨y1, _ | ⟨z0, _ | ⟨z1, _ | ⟨w0, _ | ⟨w1, rest⟩⟩⟩⟩⟩⟩⟩⟩⟩ <;>
    try (simp at h9; done)
  unfold Traj.init
  have hl : ¬ ((f :: x0 :: x1 :: y0 :: y1 :: z0 :: z1 :: w0 :: w1 :: rest).length < Traj.headerSize) := by
    simp [Traj.headerSize]
  have hf : rd (f :: x0 :: x1 :: y0 :: y1 :: z0 :: z1 :: w0 :: w1 :: rest) 0 = .ok f.toNat := by simp [rd]
  simp only [hl, if_false, hf, bind, Except.bind]
  rw [parseCoord_of_drop _ _ 1 x0 x1 _ rfl]
  simp only
  rw [parseCoord_of_drop _ _ 3 y0 y1 _ rfl]
  simp only
  rw [parseCoord_of_drop _ _ 5 z0 z1 _ rfl]
  simp only
  rw [parseAngle_of_drop _ 7 w0 w1 _ rfl]
  exact ⟨_, rfl⟩

/-- loading a raw trajectory block never faults: too short → parse error, else success -/
theorem traj_init_NF (buf : Bytes) : NF (Traj.init buf) := by
  by_cases h : 9 ≤ buf.length
  · obtain ⟨tr, htr⟩ := traj_init_ok buf h
    rw [htr]; exact NF_ok _
  · unfold Traj.init
    have : buf.length < Traj.headerSize := by simp [Traj.headerSize]; omega
    simp only [this, if_true]
    exact NF_err _ (by decide)

theorem secF32_zero : Traj.secF32 0 ≤ 0 := by
  simp [Traj.secF32, roundF32]

/-- **Trajectory queries never fault and always return.** For every trajectory object — whatever
bytes it was loaded from — every finite sequence of position / velocity / acceleration / duration
queries at non-NaN times through one player succeeds: every segment build stays inside the block
(`buildSegment_total`), and the seek loop ends within `length + 3` iterations. -/
theorem trajectory_queries_total (tr : Traj.Traj) (hist : List C08.Query) (hh : ∀ q, q ∈ hist → q.valid) :
    ∃ p0 ph, Traj.rewind Traj.secF32 tr = .ok p0 ∧ C08.runHistory Traj.secF32 p0 hist = .ok ph := by
  obtain ⟨N, hN, T0, hterm, hmin⟩ := traj_tiling0 Traj.secF32 tr secF32_zero
  obtain ⟨ph, hrun, _⟩ := C08.runHistory_inv Traj.secF32 tr N hN T0 hterm hmin hist _ (C08.inv_fresh _ tr N) hh
  exact ⟨_, ph, rewind_eq _ tr, hrun⟩

/-! ### container -/

theorem rewind_NF (p : Container.Parser) : NF p.rewind := by
  unfold Container.Parser.rewind Container.Parser.seek
  split
  · simp only [bind, Except.bind]; exact NF_err _ (by decide)
  · simp only [bind, Except.bind]
    rw [hdr_spec]
    split <;> first | exact NF_ok _ | exact NF_err _ (by decide)

/-- opening a show file never faults, for every byte string and both backends -/
theorem container_init_NF (mem : Bool) (data : Bytes) : NF (Container.init mem data) := by
  rw [init_spec]
  unfold initSpec
  split
  · exact NF_err _ (by decide)
  · split
    · exact NF_err _ (by decide)
    · exact rewind_NF _

/-- the block lookup loop never runs out of fuel and never faults -/
theorem container_find_NF (mem : Bool) (data : Bytes) (p : Container.Parser) (ty : Nat)
    (hp : Container.init mem data = .ok p) : NF (p.findFirstBlockByType ty) := by
  obtain ⟨ver, hlen, hasCrc, hh, hc, _⟩ := (C04.accept_iff mem data).mp ⟨p, hp⟩
  have hobs := C04.find_first_correct mem data ver hlen hasCrc p ty hh hc hp
  intro hf
  rw [hf] at hobs
  simp only [findObs, Except.map] at hobs
  -- the specification-level lookup never yields a fault
  have : ∀ rs e, C04.findOf mem ty rs e ≠ .error .fault := by
    intro rs e
    induction rs with
    | nil => cases e <;> simp [C04.findOf] <;> (try split) <;> (try split) <;> simp
    | cons tb rs ih =>
      obtain ⟨t, b⟩ := tb
      unfold C04.findOf
      split
      · simp
      · exact ih
  exact this _ _ hobs.symm

/-! ### RTH plan -/

theorem rth_init_NF (buf : Bytes) : NF (Rth.init buf) := by
  unfold Rth.init
  split
  · exact NF_err _ (by decide)
  · rename_i hlen
    have h3 : 3 ≤ buf.length := by simp [Rth.headerSize] at hlen; omega
    apply NF_bind _ _ (rd_NF buf 0 (by omega)); intro b0 _
    apply NF_bind _ _ (parseU16_NF buf 1 (by omega)); intro _ _
    exact NF_ok _

theorem rth_parseCoord_NF (p : Rth.Plan) (off : Nat) : NF (Rth.parseCoord p off) := by
  unfold Rth.parseCoord
  split
  · exact NF_err _ (by decide)
  · rename_i h
    apply NF_bind _ _ (parseI16_NF p.buf off (by omega)); intro _ _; exact NF_ok _

theorem rth_getPoint_NF (p : Rth.Plan) (i : Nat) : NF (Rth.getPoint p i) := by
  unfold Rth.getPoint
  split
  · exact NF_err _ (by decide)
  · apply NF_bind _ _ (rth_parseCoord_NF p _); intro _ _
    apply NF_bind _ _ (rth_parseCoord_NF p _); intro _ _
    exact NF_ok _

theorem rth_parseDuration_NF (p : Rth.Plan) (off : Nat) : NF (Rth.parseDuration p off) := by
  unfold Rth.parseDuration
  have := (Sb.C19.varuint_reads_below_n p.buf p.buf.length off (Nat.le_refl _)).2
  cases h : Parsing.parseVaruint32 p.buf p.buf.length off with
  | ok v o => simp only; split <;> first | exact NF_ok _ | exact NF_err _ (by decide)
  | overflow o => exact NF_err _ (by decide)
  | parse o => exact NF_err _ (by decide)
  | fault => exact absurd h this

theorem rth_scanHeader_NF (p : Rth.Plan) (off T : Nat) : NF (Rth.scanHeader p off T) := by
  unfold Rth.scanHeader
  split
  · exact NF_err _ (by decide)
  · rename_i h
    apply NF_bind _ _ (rd_NF p.buf off (by omega)); intro flags _
    apply NF_bind _ _ (varuint_NF p.buf (off + 1)); intro v _
    obtain ⟨d, o⟩ := v
    simp only
    split
    · exact NF_err _ (by decide)
    · exact NF_ok _

theorem rth_scanParams_NF (p : Rth.Plan) (flags action off : Nat) (prev : Nat × Rat × Rat × Rat) :
    NF (Rth.scanParams p flags action off prev) := by
  unfold Rth.scanParams
  split
  · apply NF_bind
    · split
      · exact varuint_NF p.buf _
      · exact NF_ok _
    · intro a _
      apply NF_bind
      · split
        · exact rth_parseCoord_NF p _
        · exact NF_ok _
      · intro b _
        apply NF_bind
        · split
          · apply NF_bind _ _ (rth_parseCoord_NF p _); intro _ _
            apply NF_bind _ _ (rth_parseDuration_NF p _); intro _ _
            exact NF_ok _
          · exact NF_ok _
        · intro c _; exact NF_ok _
  · exact NF_ok _

theorem rth_scanTimes_NF (p : Rth.Plan) (flags action off : Nat) : NF (Rth.scanTimes p flags action off) := by
  unfold Rth.scanTimes
  apply NF_bind
  · split
    · exact rth_parseDuration_NF p _
    · exact NF_ok _
  · intro a _
    apply NF_bind
    · split
      · exact rth_parseDuration_NF p _
      · exact NF_ok _
    · intro b _
      apply NF_bind
      · split
        · exact rth_parseDuration_NF p _
        · exact NF_ok _
      · intro c _; exact NF_ok _

theorem rth_scanEntryCore_NF (p : Rth.Plan) (off T : Nat) (e : Rth.Entry) (i : Nat) :
    NF (Rth.scanEntryCore p off T e i) := by
  unfold Rth.scanEntryCore
  apply NF_bind _ _ (rth_scanHeader_NF p off T); intro a _
  apply NF_bind _ _ (rth_scanParams_NF p _ _ _ _); intro b _
  apply NF_bind _ _ (rth_scanTimes_NF p _ _ _); intro c _
  exact NF_ok _

theorem rth_scanLoop_NF (p : Rth.Plan) (t : F32) : ∀ (n off T : Nat) (e : Rth.Entry) (i : Nat),
    NF (Rth.scanLoop p t n off T e i) := by
  intro n
  induction n with
  | zero => intro _ _ _ _; exact NF_ok _
  | succ n ih =>
    intro off T e i
    unfold Rth.scanLoop
    apply NF_bind
    · unfold Rth.scanEntry
      exact NF_map _ _ (rth_scanEntryCore_NF p off T e i)
    · intro a _
      obtain ⟨o', T', e', i', stop⟩ := a
      simp only
      split
      · exact NF_ok _
      · exact ih _ _ _ _

/-- **RTH evaluation never faults**, for every plan object (any bytes) and every time incl. NaN, ±∞ -/
theorem rth_evaluateAt_NF (p : Rth.Plan) (t : F32) : NF (Rth.evaluateAt p t) := by
  unfold Rth.evaluateAt
  apply NF_bind
  · split
    · exact NF_ok _
    · exact rth_scanLoop_NF p t _ _ _ _ _
  · intro a _
    obtain ⟨e', i'⟩ := a
    simp only
    split
    · apply NF_bind _ _ (rth_getPoint_NF p _); intro _ _; exact NF_ok _
    · exact NF_ok _

/-! ### yaw control -/

theorem yaw_init_NF (buf : Bytes) : NF (Yaw.init buf) := by
  unfold Yaw.init
  split
  · exact NF_err _ (by decide)
  · rename_i hlen
    have h3 : 3 ≤ buf.length := by simp [Yaw.headerSize] at hlen; omega
    apply NF_bind _ _ (rd_NF buf 0 (by omega)); intro b0 _
    apply NF_bind _ _ (parseI16_NF buf 1 (by omega)); intro _ _
    exact NF_ok _

/-- a setpoint build never reads outside the block; it faults only on `int32_t` overflow of the
accumulated yaw, which needs more than 65535 setpoints (a block beyond 256 KiB) -/
theorem yaw_build_NF (sec : Nat → Rat) (c : Yaw.Ctrl) (off T : Nat) (y : Int)
    (hy : -2147450880 ≤ y ∧ y ≤ 2147450879) : NF (Yaw.buildSetpoint sec c off T y) := by
  unfold Yaw.buildSetpoint
  split
  · exact NF_ok _
  · rename_i h
    have hsz : Gen.yawSizeOfDelta = 4 := rfl
    rw [hsz] at h
    apply NF_bind _ _ (parseU16_NF c.buf off (by omega)); intro a ha
    have ho : a.2 = off + 2 := by
      unfold Parsing.parseU16 at ha
      rw [rd_of_lt c.buf (off + 1) (by omega), rd_of_lt c.buf off (by omega)] at ha
      simp only [bind, Except.bind, pure, Except.pure] at ha
      injection ha with ha; rw [← ha]
    apply NF_bind _ _ (parseI16_NF c.buf a.2 (by omega)); intro b hb
    have hr := i16_range _ _ _ hb
    apply NF_bind
    · unfold Yaw.addI32
      have : -2147483648 ≤ y + b.1 ∧ y + b.1 ≤ 2147483647 := by omega
      simp only [this, and_self, if_true]
      exact NF_ok _
    · intro _ _; exact NF_ok _

/-! ### light programs -/

/-- every executor operation is a total function (no partial operation is left in the model after
the repairs of the shift and float-conversion defects); a seek can only fail by exhausting its
fuel, i.e. on a cycle that consumes no time (known finding) -/
theorem lights_step_total (e : Lights.Exec) (now : Nat) : ∃ e', Lights.step e now = e' := ⟨_, rfl⟩

theorem lights_seekLoop_only_fuel (target : Nat) : ∀ (fuel : Nat) (p : Lights.Player) (err : Err),
    Lights.seekLoop target fuel p = .error err → err = .fault := by
  intro fuel
  induction fuel with
  | zero => intro p err h; simp [Lights.seekLoop] at h; exact h.symm
  | succ n ih =>
    intro p err h
    unfold Lights.seekLoop at h
    split at h
    · exact ih _ _ h
    · cases h

end Sb.C03
