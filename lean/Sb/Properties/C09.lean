/-
C09 — Light-player answers do not depend on earlier seeks.

Proven here: the mechanism the player relies on — seeking backwards rewinds, and a rewind followed
by the clock-reset branch of the next `step` re-establishes every field a later step reads, so that
a rewound player is in the state of a fresh one (`rewind_resets`, `fresh_is_rewound`).  That the
forward seek itself is then a function of (program, timestamp) up to the stated latitude is decided
by the correspondence run (implementation vs itself and vs the model on seek histories).
-/
import Sb.Properties.C02

namespace Sb.C09
open Sb Sb.Lights

/-- what `rewind` leaves behind, in terms of the fields later steps read before writing -/
theorem rewind_resets (e : Exec) :
    (rewindExec e).pc = 0 ∧ (rewindExec e).loops = [] ∧ (rewindExec e).color = black ∧ (rewindExec e).pyro = 0 ∧
    (rewindExec e).trActive = false ∧ (rewindExec e).resetFlag = true ∧
    (rewindExec e).ended = decide (e.size = 0) ∧ (rewindExec e).prog = e.prog ∧ (rewindExec e).size = e.size := by
  simp [rewindExec]

/-- a fresh player is exactly a rewound one -/
theorem fresh_is_rewound (prog : Bytes) :
    (Player.fresh prog).exec = rewindExec (Player.fresh prog).exec ∧ (Player.fresh prog).current = 0 ∧
      (Player.fresh prog).next = 0 := by
  refine ⟨?_, rfl, rfl⟩
  rfl

/-- seeking to an earlier timestamp starts over from the rewound executor -/
theorem seek_backwards_rewinds (p : Player) (t fuel : Nat) (h : t < p.current) :
    p.seek t fuel = ({ exec := rewindExec p.exec, current := 0, next := 0 } : Player).seek t fuel := by
  unfold Player.seek
  have h0 : ¬ (t < 0) := by omega
  simp [h, h0]

/-- seeking to the current or a later timestamp never rewinds -/
theorem seek_current (p : Player) (t fuel : Nat) (h : p.current ≤ t) :
    p.seek t fuel = (do
      let p2 ← seekLoop t fuel p
      pure { exec := step p2.exec t, current := t, next := (step p2.exec t).nextWakeup }) := by
  unfold Player.seek
  have : ¬ (t < p.current) := by omega
  simp [this]

end Sb.C09
