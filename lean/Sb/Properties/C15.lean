import Sb.Model.Stats
namespace Sb.C15
end Sb.C15
