/-
C15 — Bounding box contains the whole trajectory and is tight.

Theorems:
  * merging the per-segment intervals (`CHECK_DIM`) yields an interval that contains every segment's interval and
    whose two ends are ends of some segment's interval (`mergeAll_contains`, `mergeAll_attained`) — so containment
    and tightness of the box reduce to containment and tightness per segment and axis;
  * per segment, constant and linear encodings: the interval of `sb_poly_get_extrema` bounds the polynomial on [0,1]
    and both ends are attained (`extremaLinear_bounds`, `extremaLinear_attained`), in exact arithmetic;
  * per segment, curved encodings, over the reals: the values at 0, at 1 and at the zeros of the derivative inside
    (0,1) bound the polynomial on [0,1] (`bounded_by_candidates`, both directions) — this is the candidate set that
    `sb_poly_get_extrema` evaluates for cubic encodings, whose derivative's zeros come from the quadratic formula
    (`Sb.C18.idealSolve3_correct`).
Not proven: float rounding of the candidates (correspondence run, exact Sturm containment/tightness test).
Degree-7 encodings: recorded finding (known_findings.json, DESIGN.md).
-/
import Mathlib.Tactic.Ring
import Mathlib.Tactic.Linarith
import Mathlib.Algebra.Order.Field.Rat
import Mathlib.Analysis.Calculus.LocalExtr.Basic
import Mathlib.Analysis.Calculus.Deriv.Polynomial
import Mathlib.Topology.Order.Compact
import Mathlib.Topology.Algebra.Polynomial
import Sb.Model.Stats
import Sb.Proofs.CertSound

namespace Sb.C15
open Sb Sb.Poly Sb.Stats

/-! ### merging -/

theorem foldl_mergeIv_some (ivs : List (Rat × Rat)) (lo hi : Rat) :
    ∃ lo' hi', ivs.foldl mergeIv (some (lo, hi)) = some (lo', hi') ∧ lo' ≤ lo ∧ hi ≤ hi' ∧
      (∀ iv ∈ ivs, lo' ≤ iv.1 ∧ iv.2 ≤ hi') ∧
      (lo' = lo ∨ ∃ iv ∈ ivs, iv.1 = lo') ∧ (hi' = hi ∨ ∃ iv ∈ ivs, iv.2 = hi') := by
  induction ivs generalizing lo hi with
  | nil => exact ⟨lo, hi, rfl, le_refl _, le_refl _, by simp, Or.inl rfl, Or.inl rfl⟩
  | cons iv rest ih =>
    simp only [List.foldl_cons, mergeIv]
    obtain ⟨lo', hi', h, h1, h2, h3, h4, h5⟩ := ih (min lo iv.1) (max hi iv.2)
    refine ⟨lo', hi', h, le_trans h1 (min_le_left _ _), le_trans (le_max_left _ _) h2, ?_, ?_, ?_⟩
    · intro x hx
      rcases List.mem_cons.mp hx with rfl | hm
      · exact ⟨le_trans h1 (min_le_right _ _), le_trans (le_max_right _ _) h2⟩
      · exact h3 x hm
    · rcases h4 with h4 | ⟨x, hx, hx'⟩
      · rcases min_choice lo iv.1 with hm | hm
        · left; rw [h4, hm]
        · right; exact ⟨iv, by simp, by rw [h4, hm]⟩
      · right; exact ⟨x, by simp [hx], hx'⟩
    · rcases h5 with h5 | ⟨x, hx, hx'⟩
      · rcases max_choice hi iv.2 with hm | hm
        · left; rw [h5, hm]
        · right; exact ⟨iv, by simp, by rw [h5, hm]⟩
      · right; exact ⟨x, by simp [hx], hx'⟩

/-- the merged interval contains every segment's interval -/
theorem mergeAll_contains (ivs : List (Rat × Rat)) (lo hi : Rat) (h : mergeAll ivs = some (lo, hi)) :
    ∀ iv ∈ ivs, lo ≤ iv.1 ∧ iv.2 ≤ hi := by
  cases ivs with
  | nil => simp [mergeAll] at h
  | cons a rest =>
    simp only [mergeAll, List.foldl_cons, mergeIv] at h
    obtain ⟨lo', hi', h', h1, h2, h3, _, _⟩ := foldl_mergeIv_some rest a.1 a.2
    rw [h'] at h
    simp only [Option.some.injEq, Prod.mk.injEq] at h
    obtain ⟨rfl, rfl⟩ := h
    intro iv hiv
    rcases List.mem_cons.mp hiv with rfl | hm
    · exact ⟨h1, h2⟩
    · exact h3 iv hm

/-- both ends of the merged interval are ends of some segment's interval (nothing is added) -/
theorem mergeAll_attained (ivs : List (Rat × Rat)) (lo hi : Rat) (h : mergeAll ivs = some (lo, hi)) :
    (∃ iv ∈ ivs, iv.1 = lo) ∧ (∃ iv ∈ ivs, iv.2 = hi) := by
  cases ivs with
  | nil => simp [mergeAll] at h
  | cons a rest =>
    simp only [mergeAll, List.foldl_cons, mergeIv] at h
    obtain ⟨lo', hi', h', _, _, _, h4, h5⟩ := foldl_mergeIv_some rest a.1 a.2
    rw [h'] at h
    simp only [Option.some.injEq, Prod.mk.injEq] at h
    obtain ⟨rfl, rfl⟩ := h
    constructor
    · rcases h4 with h4 | ⟨x, hx, hx'⟩
      · exact ⟨a, by simp, h4.symm⟩
      · exact ⟨x, by simp [hx], hx'⟩
    · rcases h5 with h5 | ⟨x, hx, hx'⟩
      · exact ⟨a, by simp, h5.symm⟩
      · exact ⟨x, by simp [hx], hx'⟩

/-- a trajectory with at least one segment has a box -/
theorem mergeAll_some (a : Rat × Rat) (rest : List (Rat × Rat)) : ∃ lo hi, mergeAll (a :: rest) = some (lo, hi) := by
  simp only [mergeAll, List.foldl_cons, mergeIv]
  obtain ⟨lo', hi', h', _⟩ := foldl_mergeIv_some rest a.1 a.2
  exact ⟨lo', hi', h'⟩

/-! ### constant and linear encodings -/

theorem extremaLinear_bounds (p : Poly) (hp : p.length ≤ 2) (u : Rat) (h0 : 0 ≤ u) (h1 : u ≤ 1) :
    (extremaLinear p).1 ≤ eval p u ∧ eval p u ≤ (extremaLinear p).2 := by
  rcases p with _ | ⟨b, _ | ⟨a, _ | ⟨c, rest⟩⟩⟩
  · simp [extremaLinear, eval]
  · simp [extremaLinear, eval]
  · have he : eval [b, a] u = a * u + b := by simp [eval]
    rw [he]
    simp only [extremaLinear]
    split
    · rename_i ha; constructor <;> nlinarith
    · rename_i ha
      have : a ≤ 0 := not_lt.mp ha
      constructor <;> nlinarith
  · simp at hp

theorem extremaLinear_attained (p : Poly) (hp : p.length ≤ 2) :
    (∃ u, 0 ≤ u ∧ u ≤ 1 ∧ eval p u = (extremaLinear p).1) ∧ (∃ u, 0 ≤ u ∧ u ≤ 1 ∧ eval p u = (extremaLinear p).2) := by
  rcases p with _ | ⟨b, _ | ⟨a, _ | ⟨c, rest⟩⟩⟩
  · exact ⟨⟨0, le_refl _, by norm_num, by simp [extremaLinear, eval]⟩, ⟨0, le_refl _, by norm_num, by simp [extremaLinear, eval]⟩⟩
  · exact ⟨⟨0, le_refl _, by norm_num, by simp [extremaLinear, eval]⟩, ⟨0, le_refl _, by norm_num, by simp [extremaLinear, eval]⟩⟩
  · simp only [extremaLinear]
    split
    · exact ⟨⟨0, le_refl _, by norm_num, by simp [eval]⟩, ⟨1, by norm_num, le_refl _, by simp [eval]; ring⟩⟩
    · exact ⟨⟨1, by norm_num, le_refl _, by simp [eval]; ring⟩, ⟨0, le_refl _, by norm_num, by simp [eval]⟩⟩
  · simp at hp

/-! ### curved encodings, over the reals: the candidate set bounds the polynomial -/

open Polynomial in
/-- if `M` bounds the polynomial at 0, at 1 and at every zero of its derivative inside (0,1), it bounds it on [0,1] -/
theorem bounded_above_by_candidates (p : ℝ[X]) (M : ℝ) (h0 : p.eval 0 ≤ M) (h1 : p.eval 1 ≤ M)
    (hc : ∀ x, 0 < x → x < 1 → (derivative p).eval x = 0 → p.eval x ≤ M) :
    ∀ x, 0 ≤ x → x ≤ 1 → p.eval x ≤ M := by
  intro x hx0 hx1
  have hcont : ContinuousOn (fun y => p.eval y) (Set.Icc (0 : ℝ) 1) := p.continuous.continuousOn
  obtain ⟨m, hm, hmax⟩ := isCompact_Icc.exists_isMaxOn (Set.nonempty_Icc.mpr zero_le_one) hcont
  have hxm : p.eval x ≤ p.eval m := hmax ⟨hx0, hx1⟩
  rcases eq_or_lt_of_le hm.1 with h | h
  · rw [← h] at hxm; linarith
  · rcases eq_or_lt_of_le hm.2 with h' | h'
    · rw [h'] at hxm; linarith
    · have hloc : IsLocalMax (fun y => p.eval y) m := hmax.isLocalMax (Icc_mem_nhds h h')
      have hd := hloc.deriv_eq_zero
      rw [Polynomial.deriv] at hd
      have := hc m h h' hd
      linarith

open Polynomial in
theorem bounded_below_by_candidates (p : ℝ[X]) (M : ℝ) (h0 : M ≤ p.eval 0) (h1 : M ≤ p.eval 1)
    (hc : ∀ x, 0 < x → x < 1 → (derivative p).eval x = 0 → M ≤ p.eval x) :
    ∀ x, 0 ≤ x → x ≤ 1 → M ≤ p.eval x := by
  intro x hx0 hx1
  have := bounded_above_by_candidates (-p) (-M) (by simpa using h0) (by simpa using h1)
    (by intro y hy0 hy1 hd
        have : (derivative p).eval y = 0 := by simpa using hd
        simpa using hc y hy0 hy1 this) x hx0 hx1
  simpa using this

/-- non-vacuity: three segment intervals merge to their hull -/
example : mergeAll [(0, 10), (-5, 3), (2, 40)] = some (-5, 40) := by decide +kernel

end Sb.C15
