/-
C11 — RTH plan evaluation returns the entry in force at the given time.

Model: `Sb/Model/Rth.lean`.
-/
import Sb.Model.Rth
import Sb.Proofs.Parsing

namespace Sb.C11
open Sb Sb.Rth Sb.Parsing Sb.Proofs

theorem constants : Gen.rthMaxDuration = 16777216 := rfl

/-- the numbering of `sb_rth_action_t` in the public header (regenerated on every run) is the one the model decodes:
0 = same as previous, 1 = land, 2 = go to keeping altitude, 3 = go to with altitude -/
theorem actions_match_format :
    Gen.rthActions = [("SB_RTH_ACTION_SAME_AS_PREVIOUS", 0), ("SB_RTH_ACTION_LAND", 1),
      ("SB_RTH_ACTION_GO_TO_KEEPING_ALTITUDE", 2), ("SB_RTH_ACTION_GO_TO_WITH_ALTITUDE", 3)] := by decide

/-- the model's "has a target" / "has an altitude" tests are the library's, written with its enumerators
(`sb_i_rth_action_has_target`, `sb_i_rth_action_has_altitude`), and an encoded `SAME_AS_PREVIOUS` keeps the action -/
theorem action_predicates (a : Nat) :
    hasTarget a = (a == Gen.SB_RTH_ACTION_GO_TO_KEEPING_ALTITUDE || a == Gen.SB_RTH_ACTION_GO_TO_WITH_ALTITUDE) ∧
    hasAlt a = (a == Gen.SB_RTH_ACTION_GO_TO_WITH_ALTITUDE) ∧
    (∀ flags, (flags >>> 4) &&& 0x03 = Gen.SB_RTH_ACTION_SAME_AS_PREVIOUS → resolveAction flags a = a) ∧
    (∀ t : F32, ({ time := t } : Entry).action = Gen.SB_RTH_ACTION_LAND) := by
  refine ⟨rfl, rfl, ?_, fun _ => rfl⟩
  intro flags h
  unfold resolveAction
  have h0 : (flags >>> 4) &&& 0x03 = 0 := h
  rw [if_pos h0]

/-- state of the entry scan: (offset, cumulative seconds, entry so far, point index) -/
abbrev ScanState := Nat × Nat × Entry × Nat

/-- one entry decoded, without looking at the query time -/
def scanNext (p : Plan) (s : ScanState) : R ScanState := scanEntryCore p s.1 s.2.1 s.2.2.1 s.2.2.2

/-- decoding an entry does not depend on the query time; only the decision to stop does -/
theorem scanEntry_time_indep (p : Plan) (t : F32) (off T : Nat) (e : Entry) (i : Nat) :
    scanEntry p t off T e i =
      (scanNext p (off, T, e, i)).map (fun s => (s.1, s.2.1, s.2.2.1, s.2.2.2, geTime s.2.1 t)) := by
  rfl

/-- the successive decoded entries (no early exit): the list of scan states, or the error met -/
def allEntries (p : Plan) : Nat → ScanState → List (R ScanState)
  | 0, _ => []
  | n + 1, s =>
    match scanNext p s with
    | .error e => [.error e]
    | .ok s' => .ok s' :: allEntries p n s'

/-- the first decoded entry whose cumulative time is at least `t`; the last one when `t` is later
than all; the initial (landing) entry when there is none; an error met on the way is reported -/
def pickFirst (t : F32) (init : Entry × Nat) : List (R ScanState) → R (Entry × Nat)
  | [] => .ok init
  | .error e :: _ => .error e
  | .ok s :: rest => if geTime s.2.1 t then .ok (s.2.2.1, s.2.2.2) else pickFirst t (s.2.2.1, s.2.2.2) rest

/-- **Selection.** The scan with early exit returns the first entry whose cumulative time is at
least `t`, else the last entry. -/
theorem scanLoop_eq_pickFirst (p : Plan) (t : F32) :
    ∀ (n off T : Nat) (e : Entry) (i : Nat),
      scanLoop p t n off T e i = pickFirst t (e, i) (allEntries p n (off, T, e, i)) := by
  intro n
  induction n with
  | zero => intro off T e i; rfl
  | succ n ih =>
    intro off T e i
    unfold scanLoop allEntries
    rw [scanEntry_time_indep]
    cases h : scanNext p (off, T, e, i) with
    | error err => simp [Except.map, bind, Except.bind, pickFirst]
    | ok s =>
      obtain ⟨o', T', e', i'⟩ := s
      simp only [Except.map, bind, Except.bind, pickFirst, pure, Except.pure]
      split
      · rfl
      · exact ih o' T' e' i'

/-- **Negative time.** An immediate landing, with the query time as entry time. -/
theorem negative_time_lands (p : Plan) (t : F32) (h : ltZero t = true) :
    evaluateAt p t = .ok { time := t, action := 1, target := (0, 0) } := by
  simp [evaluateAt, h, hasTarget, bind, Except.bind, pure, Except.pure]

/-- **No entries.** An immediate landing. -/
theorem no_entries_lands (p : Plan) (t : F32) (h : numEntries p = 0) :
    evaluateAt p t = .ok { time := t, action := 1, target := (0, 0) } := by
  unfold evaluateAt
  by_cases hz : ltZero t = true
  · simp [hz, hasTarget, bind, Except.bind, pure, Except.pure]
  · simp [hz, h, scanLoop, hasTarget, bind, Except.bind, pure, Except.pure]

theorem bind_ok {α β : Type} (x : R α) (f : α → R β) (b : β) (h : (x >>= f) = .ok b) :
    ∃ a, x = .ok a ∧ f a = .ok b := by
  cases x with
  | error e => simp [bind, Except.bind] at h
  | ok a => exact ⟨a, rfl, h⟩

theorem resolveAction_range (flags prev : Nat) (hp : prev = 1 ∨ prev = 2 ∨ prev = 3) :
    resolveAction flags prev = 1 ∨ resolveAction flags prev = 2 ∨ resolveAction flags prev = 3 := by
  unfold resolveAction
  have hlt : (flags >>> 4) &&& 3 < 4 := Nat.lt_of_le_of_lt Nat.and_le_right (by decide)
  split
  · exact hp
  · omega

/-- **Never 'same as previous'.** Decoding an entry keeps the action among the three explicit
ones: an encoded "same as previous" is resolved to the action in force. -/
theorem action_resolved (p : Plan) (s s' : ScanState) (h : scanNext p s = .ok s')
    (ha : s.2.2.1.action = 1 ∨ s.2.2.1.action = 2 ∨ s.2.2.1.action = 3) :
    s'.2.2.1.action = 1 ∨ s'.2.2.1.action = 2 ∨ s'.2.2.1.action = 3 := by
  obtain ⟨off, T, e, i⟩ := s
  unfold scanNext scanEntryCore at h
  obtain ⟨⟨flags, off1, T1⟩, _, h⟩ := bind_ok _ _ _ h
  obtain ⟨⟨i1, alt, neck, nd, off2⟩, _, h⟩ := bind_ok _ _ _ h
  obtain ⟨⟨dur, pre, post, off3⟩, _, h⟩ := bind_ok _ _ _ h
  simp only [pure, Except.pure] at h
  injection h with h
  subst h
  exact resolveAction_range flags e.action ha

/-- the returned action is never 'same as previous' -/
theorem evaluateAt_action (p : Plan) (t : F32) (e : Entry) (h : evaluateAt p t = .ok e) :
    e.action = 1 ∨ e.action = 2 ∨ e.action = 3 := by
  have hloop : ∀ (n off T : Nat) (e0 : Entry) (i : Nat) (r : Entry × Nat),
      (e0.action = 1 ∨ e0.action = 2 ∨ e0.action = 3) →
      scanLoop p t n off T e0 i = .ok r → (r.1.action = 1 ∨ r.1.action = 2 ∨ r.1.action = 3) := by
    intro n
    induction n with
    | zero => intro off T e0 i r ha hr; simp [scanLoop] at hr; rw [← hr]; exact ha
    | succ n ih =>
      intro off T e0 i r ha hr
      unfold scanLoop at hr
      rw [scanEntry_time_indep] at hr
      cases hn : scanNext p (off, T, e0, i) with
      | error err => rw [hn] at hr; simp [Except.map, bind, Except.bind] at hr
      | ok s =>
        rw [hn] at hr
        have ha' := action_resolved p _ s hn ha
        simp only [Except.map, bind, Except.bind, pure, Except.pure] at hr
        split at hr
        · injection hr with hr; rw [← hr]; exact ha'
        · exact ih _ _ _ _ r ha' hr
  unfold evaluateAt at h
  obtain ⟨⟨e1, i1⟩, h1, h2⟩ := bind_ok _ _ _ h
  have he1 : e1.action = 1 ∨ e1.action = 2 ∨ e1.action = 3 := by
    split at h1
    · simp only [pure, Except.pure] at h1; injection h1 with h1; injection h1 with h1 _; rw [← h1]; left; rfl
    · exact hloop _ _ _ _ _ _ (Or.inl rfl) h1
  simp only at h2
  split at h2
  · obtain ⟨pt, _, h3⟩ := bind_ok _ _ _ h2
    simp only [pure, Except.pure] at h3; injection h3 with h3; rw [← h3]; exact he1
  · simp only [pure, Except.pure] at h2; injection h2 with h2; rw [← h2]; exact he1

/-- **Overflow is an error.** A cumulative time beyond 32 bits is reported, never wrapped. -/
theorem cumulative_overflow_is_error (p : Plan) (off T : Nat) (e : Entry) (i flags diff o : Nat)
    (hT : T < 4294967296) (hoff : off < p.buf.length) (hflags : rd p.buf off = .ok flags)
    (hdiff : parseVaruint32 p.buf p.buf.length (off + 1) = .ok diff o) (hd : diff < 4294967296)
    (hov : T + diff ≥ 4294967296) :
    scanNext p (off, T, e, i) = .error .eoverflow := by
  have hno : ¬ (off ≥ p.buf.length) := by omega
  have hw : (diff + T) % 4294967296 < T := by omega
  simp [scanNext, scanEntryCore, scanHeader, hno, hflags, hdiff, VarRes.toR, hw, bind, Except.bind]

/-- a duration or delay above 2²⁴ seconds is an overflow error -/
theorem duration_overflow_is_error (p : Plan) (off v o : Nat)
    (h : parseVaruint32 p.buf p.buf.length off = .ok v o) (hv : v > 16777216) :
    parseDuration p off = .error .eoverflow := by
  simp [parseDuration, h, hv, Gen.rthMaxDuration]

theorem parseCoord_scaled (p : Plan) (off : Nat) (r : Rat × Nat) (h : parseCoord p off = .ok r) :
    ∃ v : Int, r.1 = (v : Rat) * (p.scale : Rat) ∧ -32768 ≤ v ∧ v < 32768 := by
  unfold parseCoord at h
  split at h
  · cases h
  · obtain ⟨⟨v, o⟩, hv, h⟩ := bind_ok _ _ _ h
    simp only [pure, Except.pure] at h
    injection h with h
    rw [← h]
    exact ⟨v, rfl, i16_range _ _ _ hv⟩

/-- **Targets are scaled.** A point of the table is its two stored 16-bit values times the scale. -/
theorem point_scaled (p : Plan) (i : Nat) (x y : Rat) (h : getPoint p i = .ok (x, y)) :
    ∃ vx vy : Int, x = (vx : Rat) * (p.scale : Rat) ∧ y = (vy : Rat) * (p.scale : Rat) ∧
      -32768 ≤ vx ∧ vx < 32768 ∧ -32768 ≤ vy ∧ vy < 32768 := by
  unfold getPoint at h
  split at h
  · cases h
  · obtain ⟨⟨x', o⟩, hx, h⟩ := bind_ok _ _ _ h
    obtain ⟨⟨y', o'⟩, hy, h⟩ := bind_ok _ _ _ h
    simp only [pure, Except.pure] at h
    injection h with h
    injection h with h1 h2
    obtain ⟨vx, ex, bx⟩ := parseCoord_scaled p _ _ hx
    obtain ⟨vy, ey, bY⟩ := parseCoord_scaled p _ _ hy
    exact ⟨vx, vy, by rw [← h1]; exact ex, by rw [← h2]; exact ey, bx.1, bx.2, bY.1, bY.2⟩

/-! ### non-vacuity -/

/-- scale 10, one point (3,-2), two entries: t=5 go-to keeping altitude to point 0 lasting 7 s; +10 s same as previous lasting 2 s with post delay 1 -/
def samplePlan : Bytes := [10, 1, 0, 3, 0, 0xfe, 0xff, 2, 0, 0x20, 5, 0, 7, 0x01, 10, 2, 1]

example : (match Rth.init samplePlan with
    | .ok p => some (p.scale, p.numPoints, numEntries p)
    | .error _ => none) = some (10, 1, 2) := by decide

end Sb.C11
