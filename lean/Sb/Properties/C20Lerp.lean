/-
C20 — the closeness bound of the colour-interpolation judge is met by the binary32 evaluation.

`Sb/Corr/UtilOps.lean` (`lerpChanOK`) holds the implementation's interpolated channel to the property's three clauses and to
"less than one unit (+2^-10) from the exact linear interpolation".  This file proves that the model's binary32 evaluation
`lerpChanF` — what the library computes today — always meets that bound for ratios in [0,1] (`lerpChanF_close`), from an error
bound for one rounding (`roundF32_error`: at most 2^-24 of the value, plus half the smallest subnormal).  So the bound admits
the current implementation for every input, not only for the sampled ones; together with `lerp_zero/one/between`
(C20Float.lean) the model passes every clause of the judge.
-/
import Sb.Proofs.RoundF32
import Sb.Model.Utils
import Mathlib.Tactic.Linarith
import Mathlib.Tactic.Ring
import Mathlib.Tactic.NormNum
import Mathlib.Tactic.Positivity

namespace Sb.C20
open Sb Sb.Proofs Sb.Utils

theorem rhe_error (r : Rat) : |((roundHalfEven r : Int) : ℚ) - r| ≤ 1 / 2 := by
  have hfl : ((r.floor : Int) : ℚ) ≤ r := Rat.floor_le r
  have hlt : r < ((r.floor : Int) : ℚ) + 1 := by
    have := Rat.lt_floor_add_one r
    push_cast at this
    exact this
  unfold roundHalfEven
  simp only
  split
  · rename_i h
    rw [abs_le]; constructor <;> linarith
  · rename_i h
    split
    · rename_i h2
      push_cast
      rw [abs_le]; constructor <;> linarith
    · rename_i h2
      have heq : r - ((r.floor : Int) : ℚ) = 1 / 2 := le_antisymm (not_lt.mp h2) (not_lt.mp h)
      split
      · rw [abs_le]; constructor <;> linarith
      · push_cast
        rw [abs_le]; constructor <;> linarith

/-- the quantum of the binade of `x` is at most `x·2^-23`, or the smallest subnormal -/
theorem quantum_le (x : Rat) (hx : 0 < x) : pow2 (qexp (floorLog2 x)) ≤ x / 8388608 + pow2 (-149) := by
  have hspec := (floorLog2_spec x hx).1
  unfold qexp
  split
  · have := div_nonneg (le_of_lt hx) (by norm_num : (0 : ℚ) ≤ 8388608)
    linarith
  · have h1 : pow2 (floorLog2 x - 23) = pow2 (floorLog2 x) * pow2 (-23) := by
      rw [← pow2_add]; congr 1
    have h2 : pow2 (-23) = 1 / 8388608 := by rw [pow2_eq_zpow]; norm_num
    rw [h1, h2]
    have hp := pow2_pos (-149)
    have : pow2 (floorLog2 x) * (1 / 8388608) ≤ x / 8388608 := by
      rw [mul_one_div]
      exact div_le_div_of_nonneg_right hspec (by norm_num)
    linarith

/-- **one rounding to binary32 moves a value by at most 2^-24 of it, plus half the smallest subnormal** -/
theorem roundF32_error (x : Rat) : |roundF32 x - x| ≤ |x| / 16777216 + pow2 (-150) := by
  have key : ∀ y : Rat, 0 < y → |roundF32 y - y| ≤ y / 16777216 + pow2 (-150) := by
    intro y hy
    rw [roundF32_pos y hy]
    set q := pow2 (qexp (floorLog2 y)) with hq
    have hqpos : 0 < q := pow2_pos _
    have h1 := rhe_error (y / q)
    have h2 : ((roundHalfEven (y / q) : Int) : ℚ) * q - y = (((roundHalfEven (y / q) : Int) : ℚ) - y / q) * q := by
      field_simp
    rw [h2, abs_mul, abs_of_pos hqpos]
    have h3 : |((roundHalfEven (y / q) : Int) : ℚ) - y / q| * q ≤ 1 / 2 * q :=
      mul_le_mul_of_nonneg_right h1 (le_of_lt hqpos)
    have h4 := quantum_le y hy
    have h5 : pow2 (-149) = 2 * pow2 (-150) := by
      have : (-149 : Int) = 1 + (-150) := by norm_num
      rw [this, pow2_add]
      have : pow2 1 = 2 := by rw [pow2_eq_zpow]; norm_num
      rw [this]
    rw [← hq] at h4
    rw [h5] at h4
    linarith
  rcases lt_trichotomy x 0 with h | h | h
  · rw [roundF32_neg x h]
    have := key (-x) (by linarith)
    have e : -roundF32 (-x) - x = -(roundF32 (-x) - -x) := by ring
    rw [e, abs_neg, abs_of_neg h]
    exact this
  · subst h
    rw [roundF32_zero]
    have := pow2_pos (-150)
    simp
    linarith
  · rw [abs_of_pos h]; exact key x h

/-- clamping to 0..255 and truncating a value that is within 2^-13 of a number of [0,255] -/
theorem clamp_trunc_close (v e : ℚ) (he0 : 0 ≤ e) (he255 : e ≤ 255) (hv : |v - e| ≤ 1 / 8192) :
    |(((if v < 0 then 0 else if v > 255 then 255 else truncNat v : Nat) : Nat) : ℚ) - e| < 1 + 1 / 1024 := by
  have hvb := abs_le.mp hv
  split
  · rename_i hneg
    simp only [Nat.cast_zero, zero_sub, abs_neg]
    rw [abs_of_nonneg he0]
    linarith
  · split
    · rename_i hbig
      have : ((255 : Nat) : ℚ) = 255 := by norm_num
      rw [this, abs_lt]; constructor <;> linarith
    · rename_i hnn hsm
      have hnn' : 0 ≤ v := not_lt.mp hnn
      unfold truncNat
      rw [if_neg hnn]
      have hfl0 : 0 ≤ v.floor := by
        have h := Rat.le_floor_iff.mpr (show ((0 : Int) : ℚ) ≤ v by simpa using hnn')
        exact h
      have hcast : ((v.floor.toNat : Nat) : ℚ) = ((v.floor : Int) : ℚ) := by
        have : ((v.floor.toNat : Nat) : Int) = v.floor := Int.toNat_of_nonneg hfl0
        exact_mod_cast this
      rw [hcast]
      have hfl1 : ((v.floor : Int) : ℚ) ≤ v := Rat.floor_le _
      have hfl2 : v < ((v.floor : Int) : ℚ) + 1 := by
        have := Rat.lt_floor_add_one v
        push_cast at this
        exact this
      rw [abs_lt]; constructor <;> linarith

/-- **the binary32 interpolation stays within one unit (and a sliver) of the exact one**, for every pair of channel values
and every ratio in [0,1]: what `lerpChanOK` asks of an implementation, the current one delivers for all inputs -/
theorem lerpChanF_close (f s : Nat) (ratio : Rat) (hf : f ≤ 255) (hs : s ≤ 255) (h0 : 0 ≤ ratio) (h1 : ratio ≤ 1) :
    |((lerpChanF f s ratio : Nat) : ℚ) - ((f : ℚ) + (((s : Int) - (f : Int) : Int) : ℚ) * ratio)| < 1 + 1 / 1024 := by
  have hfq : (0 : ℚ) ≤ (f : ℚ) := by exact_mod_cast Nat.zero_le f
  have hsq : (0 : ℚ) ≤ (s : ℚ) := by exact_mod_cast Nat.zero_le s
  have hf255 : (f : ℚ) ≤ 255 := by exact_mod_cast hf
  have hs255 : (s : ℚ) ≤ 255 := by exact_mod_cast hs
  set d : ℚ := (((s : Int) - (f : Int) : Int) : ℚ) with hd
  have hdv : d = (s : ℚ) - (f : ℚ) := by rw [hd]; push_cast; ring
  set p : ℚ := d * ratio with hp
  have hpabs : |p| ≤ 255 := by
    rw [hp, abs_mul, abs_of_nonneg h0]
    have : |d| ≤ 255 := by rw [hdv, abs_le]; constructor <;> linarith
    calc |d| * ratio ≤ 255 * 1 := mul_le_mul this h1 h0 (by norm_num)
      _ = 255 := by norm_num
  have hsub : pow2 (-150) ≤ 1 / 1048576 := by
    rw [pow2_eq_zpow]
    have : (2 : ℚ) ^ (-150 : Int) ≤ (2 : ℚ) ^ (-20 : Int) := zpow_le_zpow_right₀ (by norm_num) (by norm_num)
    have h20 : (2 : ℚ) ^ (-20 : Int) = 1 / 1048576 := by norm_num
    linarith
  -- exact value in [0, 255]
  have hex0 : 0 ≤ (f : ℚ) + p := by
    rw [hp, hdv]
    nlinarith [mul_nonneg hsq h0, mul_nonneg hfq (sub_nonneg.mpr h1)]
  have hex255 : (f : ℚ) + p ≤ 255 := by
    rw [hp, hdv]
    nlinarith [mul_nonneg (sub_nonneg.mpr hs255) h0, mul_nonneg (sub_nonneg.mpr hf255) (sub_nonneg.mpr h1)]
  -- first rounding
  have e1 := roundF32_error p
  have e1' : |roundF32 p - p| ≤ 1 / 32768 := by
    have : |p| / 16777216 ≤ 255 / 16777216 := div_le_div_of_nonneg_right hpabs (by norm_num)
    linarith
  -- second rounding
  set y : ℚ := (f : ℚ) + roundF32 p with hy
  have hyabs : |y| ≤ 511 := by
    have hb := abs_le.mp e1'
    have hpb := abs_le.mp hpabs
    rw [hy, abs_le]; constructor <;> linarith
  have e2 := roundF32_error y
  have e2' : |roundF32 y - y| ≤ 1 / 16384 := by
    have : |y| / 16777216 ≤ 511 / 16777216 := div_le_div_of_nonneg_right hyabs (by norm_num)
    linarith
  -- total error of v = rf (f + rf p)
  have hv : |roundF32 y - ((f : ℚ) + p)| ≤ 1 / 8192 := by
    have hb1 := abs_le.mp e1'
    have hb2 := abs_le.mp e2'
    rw [abs_le]; constructor <;> (rw [hy] at hb2; linarith)
  have hvb := abs_le.mp hv
  -- the clamp and the truncation
  have := clamp_trunc_close (roundF32 y) ((f : ℚ) + p) hex0 hex255 hv
  unfold lerpChanF
  exact this

end Sb.C20
