/-
C12 — the converted trajectory, read back with the format specification.

`convert_total` (C12Total.lean) says which builder calls the converter issues.  With C16's round-trip theorems
(`Sb/Properties/C16RoundTrip.lean`) this becomes a statement about the *bytes* the converter returns, for every entry
and start point it accepts:

* `convert_roundtrip` : the bytes decode (`Spec.segmentsOf`) to a trajectory at the chosen scale that consists of
  straight segments of at most 60 s, starts within one quantum of the start point, lasts exactly the sum of the phases'
  durations in whole milliseconds, and ends within one quantum of the last phase's point;
* `convert_passes_line` : for every moving phase (the neck, the leg) that lasts ≥ 1 ms, at the cumulative time at
  which that phase ends the specified curve `Spec.posAt` is within one quantum of the phase's target — whatever phases
  follow.

The conversion is `init; set_start; (hold | append_line)*`, so both follow from the builder theorems through
`runPhases_as_calls`.
-/
import Sb.Properties.C12Total
import Sb.Properties.C16RoundTrip

namespace Sb.C12
open Sb Sb.Builder Sb.RthConvert Sb.Utils Sb.Poly Sb.C16 Sb.Spec

/-- the builder call a phase stands for, given its duration in milliseconds -/
def phaseCall : Phase → Nat → Call
  | .hold _, ms => .hold ms
  | .line t _, ms => .appendLine t ms
  | .invalidAction, _ => .finish

/-- **running the phases is a history of successful builder calls** -/
theorem runPhases_as_calls : ∀ (ps : List Phase) (b b' : Builder), runPhases b ps = .ok b' →
    ∃ (durs : List Nat) (calls : List Call), phasesMs ps = .ok durs ∧ calls.foldl applyCall b = b' ∧
      calls.length = ps.length ∧ askedMs b calls = durs.sum ∧ (∀ c ∈ calls, c.timed = true ∧ c.inRange = true) ∧
      calls = (ps.zip durs).map (fun pd => phaseCall pd.1 pd.2) := by
  intro ps
  induction ps with
  | nil =>
    intro b b' h
    simp only [runPhases, Except.ok.injEq] at h
    subst h
    exact ⟨[], [], rfl, rfl, rfl, rfl, by simp, rfl⟩
  | cons p rest ih =>
    intro b b' h
    cases p with
    | invalidAction => simp [runPhases] at h
    | hold sec =>
      simp only [runPhases, bind, Except.bind] at h
      split at h
      · cases h
      · rename_i ms hms
        split at h
        · cases h
        · rename_i b1 hb1
          obtain ⟨durs, calls, h1, h2, h3, h4, h5, h6⟩ := ih b1 b' h
          refine ⟨ms :: durs, Call.hold ms :: calls, ?_, ?_, by simp [h3], ?_, ?_, ?_⟩
          · simp [phasesMs, phaseMs, hms, h1]
          · simp only [List.foldl_cons, applyCall, hb1]; exact h2
          · simp only [askedMs, Call.adds, hb1, applyCall, h4, List.sum_cons]
          · intro c hc
            rcases List.mem_cons.mp hc with rfl | hc
            · exact ⟨rfl, rfl⟩
            · exact h5 c hc
          · simp [phaseCall, h6]
    | line t sec =>
      simp only [runPhases, bind, Except.bind] at h
      split at h
      · cases h
      · rename_i ms hms
        split at h
        · cases h
        · rename_i b1 hb1
          obtain ⟨durs, calls, h1, h2, h3, h4, h5, h6⟩ := ih b1 b' h
          refine ⟨ms :: durs, Call.appendLine t ms :: calls, ?_, ?_, by simp [h3], ?_, ?_, ?_⟩
          · simp [phasesMs, phaseMs, hms, h1]
          · simp only [List.foldl_cons, applyCall, hb1]; exact h2
          · simp only [askedMs, Call.adds, hb1, applyCall, h4, List.sum_cons]
          · intro c hc
            rcases List.mem_cons.mp hc with rfl | hc
            · exact ⟨rfl, by simp [Call.inRange, msec_lt sec ms hms]⟩
            · exact h5 c hc
          · simp [phaseCall, h6]

/-- what `convert` does, as a history of calls on a fresh builder -/
theorem convert_as_calls (e : EntryF) (start : Vec4) (bytes : Bytes) (h : convert e start = .ok bytes) :
    ∃ (scale : Nat) (b0 : Builder) (durs : List Nat) (calls : List Call),
      chooseScale e start = .ok scale ∧ Builder.init scale 0 = .ok b0 ∧
      (∃ b1, setStart b0 start = .ok b1) ∧ phasesMs (phases e start) = .ok durs ∧
      bytes = (finish ((Call.setStart start :: calls).foldl applyCall b0)).1 ∧
      askedMs b0 (Call.setStart start :: calls) = durs.sum ∧
      (∀ c ∈ Call.setStart start :: calls, c.timed = true ∧ c.inRange = true) ∧
      calls = ((phases e start).zip durs).map (fun pd => phaseCall pd.1 pd.2) := by
  unfold convert at h
  simp only [bind, Except.bind] at h
  split at h
  · cases h
  · rename_i scale hscale
    split at h
    · cases h
    · split at h
      · cases h
      · rename_i b0 hb0
        split at h
        · cases h
        · rename_i b1 hb1
          split at h
          · cases h
          · rename_i b hb
            obtain ⟨durs, calls, h1, h2, _, h4, h5, h6⟩ := runPhases_as_calls _ _ _ hb
            simp only [pure, Except.pure, Except.ok.injEq] at h
            refine ⟨scale, b0, durs, calls, hscale, hb0, ⟨b1, hb1⟩, h1, ?_, ?_, ?_, h6⟩
            · simp only [List.foldl_cons, applyCall, hb1, h2]; exact h.symm
            · simp only [askedMs, Call.adds, applyCall, hb1, h4]; omega
            · intro c hc
              rcases List.mem_cons.mp hc with rfl | hc
              · exact ⟨rfl, rfl⟩
              · exact h5 c hc

/-- **C12, the bytes**: whatever entry and start point the converter accepts, the bytes it returns are — read with the
format specification — a trajectory at the chosen scale made of straight segments of at most 60 s whose total duration
is exactly the sum of the phases' durations in whole milliseconds. -/
theorem convert_roundtrip (e : EntryF) (start : Vec4) (bytes : Bytes) (h : convert e start = .ok bytes) :
    ∃ (scale : Nat) (durs : List Nat) (hdr : HeaderSpec) (segs : List SegSpec),
      chooseScale e start = .ok scale ∧ phasesMs (phases e start) = .ok durs ∧
      segmentsOf bytes = some (hdr, segs) ∧ hdr.scale = scale ∧ totalMs segs = durs.sum ∧
      (∀ s ∈ segs, Lin s ∧ s.durMs ≤ 60000) := by
  obtain ⟨scale, b0, durs, calls, h1, h2, _, h4, h5, h6, h7, _⟩ := convert_as_calls e start bytes h
  obtain ⟨hdr, segs, g1, g2, g3, g4, _⟩ := builder_roundtrip scale 0 b0 h2 (Call.setStart start :: calls) h7
  exact ⟨scale, durs, hdr, segs, h1, h4, by rw [h5]; exact g1, g2, by rw [g3, h6], g4⟩


theorem runPhases_append : ∀ (pre post : List Phase) (b b' : Builder), runPhases b (pre ++ post) = .ok b' →
    ∃ b1, runPhases b pre = .ok b1 ∧ runPhases b1 post = .ok b' := by
  intro pre
  induction pre with
  | nil => intro post b b' h; exact ⟨b, rfl, h⟩
  | cons p rest ih =>
    intro post b b' h
    cases p with
    | invalidAction => simp [runPhases] at h
    | hold sec =>
      simp only [List.cons_append, runPhases, bind, Except.bind] at h ⊢
      split at h
      · cases h
      · rename_i ms hms
        split at h
        · cases h
        · rename_i b1 hb1
          obtain ⟨b2, h1, h2⟩ := ih post b1 b' h
          exact ⟨b2, h1, h2⟩
    | line t sec =>
      simp only [List.cons_append, runPhases, bind, Except.bind] at h ⊢
      split at h
      · cases h
      · rename_i ms hms
        split at h
        · cases h
        · rename_i b1 hb1
          obtain ⟨b2, h1, h2⟩ := ih post b1 b' h
          exact ⟨b2, h1, h2⟩

/-- **C12, every moving phase reaches its target**: if the phases of the entry are `pre ++ [line t sec] ++ post` (the
neck or the leg) and that phase lasts at least 1 ms, then in the bytes the converter returns the specified curve is,
at the cumulative time at which that phase ends, within one quantum of `t` on every coordinate (yaw: the stored value of
`t.yaw`) — whatever phases follow. -/
theorem convert_passes_line (e : EntryF) (start : Vec4) (bytes : Bytes) (h : convert e start = .ok bytes)
    (pre post : List Phase) (t : Vec4) (sec : F32) (hph : phases e start = pre ++ Phase.line t sec :: post) :
    ∃ (scale : Nat) (dpre : List Nat) (ms : Nat) (hdr : HeaderSpec) (segs : List SegSpec),
      chooseScale e start = .ok scale ∧ phasesMs pre = .ok dpre ∧ msecFromSeconds sec = .ok ms ∧
      segmentsOf bytes = some (hdr, segs) ∧
      (1 ≤ ms →
        |(posAt segs hdr.start 0 (((dpre.sum + ms : Nat) : Rat) / 1000)).x - t.x| ≤ scale ∧
        |(posAt segs hdr.start 0 (((dpre.sum + ms : Nat) : Rat) / 1000)).y - t.y| ≤ scale ∧
        |(posAt segs hdr.start 0 (((dpre.sum + ms : Nat) : Rat) / 1000)).z - t.z| ≤ scale ∧
        (posAt segs hdr.start 0 (((dpre.sum + ms : Nat) : Rat) / 1000)).yaw = yawDec t.yaw) := by
  unfold convert at h
  simp only [bind, Except.bind] at h
  split at h
  · cases h
  · rename_i scale hscale
    split at h
    · cases h
    · split at h
      · cases h
      · rename_i b0 hb0
        split at h
        · cases h
        · rename_i b1 hb1
          split at h
          · cases h
          · rename_i b hb
            simp only [pure, Except.pure, Except.ok.injEq] at h
            rw [hph] at hb
            obtain ⟨bp, hpre, hrest⟩ := runPhases_append pre _ b1 b hb
            simp only [runPhases, bind, Except.bind] at hrest
            split at hrest
            · cases hrest
            · rename_i ms hms
              split at hrest
              · cases hrest
              · rename_i b2 hb2
                obtain ⟨dpre, cpre, p1, p2, _, p4, p5, _⟩ := runPhases_as_calls pre b1 bp hpre
                obtain ⟨dpost, cpost, q1, q2, _, _, q5, _⟩ := runPhases_as_calls post b2 b hrest
                have hpreAll : ∀ c ∈ Call.setStart start :: cpre, c.timed = true ∧ c.inRange = true := by
                  intro c hc
                  rcases List.mem_cons.mp hc with rfl | hc
                  · exact ⟨rfl, rfl⟩
                  · exact p5 c hc
                have hfold : (Call.setStart start :: cpre).foldl applyCall b0 = bp := by
                  simp only [List.foldl_cons, applyCall, hb1]; exact p2
                have hasked : askedMs b0 (Call.setStart start :: cpre) = dpre.sum := by
                  simp only [askedMs, Call.adds, applyCall, hb1, p4]; omega
                refine ⟨scale, dpre, ms, ?_⟩
                by_cases h1 : 1 ≤ ms
                · obtain ⟨hdr, segs, g1, g2, g3, g4, g5⟩ := passes_through_appendLine scale 0 b0 hb0
                    (Call.setStart start :: cpre) cpost t ms b2 hpreAll q5 h1 (msec_lt sec ms hms) (by rw [hfold]; exact hb2)
                  rw [q2] at g1
                  rw [hasked] at g2 g3 g4 g5
                  exact ⟨hdr, segs, hscale, p1, hms, by rw [← h]; exact g1, fun _ => ⟨g2, g3, g4, g5⟩⟩
                · -- the phase lasts 0 ms: only the decoding is claimed
                  have hall : ∀ c ∈ Call.setStart start :: (cpre ++ Call.appendLine t ms :: cpost),
                      c.timed = true ∧ c.inRange = true := by
                    intro c hc
                    rcases List.mem_cons.mp hc with rfl | hc
                    · exact ⟨rfl, rfl⟩
                    · rcases List.mem_append.mp hc with hc | hc
                      · exact p5 c hc
                      · rcases List.mem_cons.mp hc with rfl | hc
                        · exact ⟨rfl, by simp [Call.inRange, msec_lt sec ms hms]⟩
                        · exact q5 c hc
                  obtain ⟨hdr, segs, g1, _⟩ := builder_roundtrip scale 0 b0 hb0 _ hall
                  have hb' : (Call.setStart start :: (cpre ++ Call.appendLine t ms :: cpost)).foldl applyCall b0 = b := by
                    simp only [List.foldl_cons, List.foldl_append, applyCall, hb1, p2, hb2]; exact q2
                  rw [hb'] at g1
                  exact ⟨hdr, segs, hscale, p1, hms, by rw [← h]; exact g1, fun hc => absurd hc h1⟩


/-! ### non-vacuity: the sample entry of C12.lean (hold 6 s, neck +500 in 3 s, leg to (1000, 2000, 5000) in 10 s, hold 2 s) -/

/-- the converter accepts it (kernel-evaluated) -/
theorem sample_converts : (convert sampleEntry ⟨0, 0, 1000, 0⟩).toBool = true := by decide +kernel

example : ∃ bytes hdr segs, convert sampleEntry ⟨0, 0, 1000, 0⟩ = .ok bytes ∧ segmentsOf bytes = some (hdr, segs) ∧
    totalMs segs = 21000 := by
  cases hc : convert sampleEntry ⟨0, 0, 1000, 0⟩ with
  | error e => have := sample_converts; rw [hc] at this; cases this
  | ok bytes =>
    obtain ⟨scale, durs, hdr, segs, _, h2, h3, _, h5, _⟩ := convert_roundtrip sampleEntry _ bytes hc
    have hd : phasesMs (phases sampleEntry ⟨0, 0, 1000, 0⟩) = .ok [6000, 3000, 10000, 2000] := by decide +kernel
    rw [hd] at h2
    cases h2
    exact ⟨bytes, hdr, segs, rfl, h3, by rw [h5]; rfl⟩

end Sb.C12
