/-
C17 — Everything allocated is released once, also on failure paths.

Model: `Sb/Model/Ledger.lean` — for every API call, the C allocations it attempts (in order), what
it does when one of them fails, and which blocks stay live.  The correspondence run compares return
code, number of live blocks and number of allocation attempts after every call of every scenario,
for every index k of a failing allocation, under ASan.

Theorem: the ledger invariant "the live blocks are exactly the blocks owned by live objects" is
preserved by every call, for every failure plan (hence: nothing leaks on any path, a failed create
or load leaves nothing allocated, and destroying all objects empties the heap).
-/
import Sb.Model.Ledger

namespace Sb.C17
open Sb Sb.Ledger Sb.Load Sb.Utils Sb.Builder Sb.Poly

/-! ### helper: operations that only count attempts never change the number of live blocks -/

theorem attempt_live (s : L) : (attempt s).2.live = s.live ∧ (attempt s).2.buf = s.buf ∧ (attempt s).2.traj = s.traj ∧
    (attempt s).2.prog = s.prog ∧ (attempt s).2.yaw = s.yaw ∧ (attempt s).2.plan = s.plan ∧ (attempt s).2.bld = s.bld := by
  simp [attempt]

/-- same objects and same number of live blocks -/
def Same (s s' : L) : Prop :=
  s'.live = s.live ∧ s'.buf = s.buf ∧ s'.traj = s.traj ∧ s'.prog = s.prog ∧ s'.yaw = s.yaw ∧ s'.plan = s.plan ∧ s'.bld = s.bld

theorem Same.refl (s : L) : Same s s := ⟨rfl, rfl, rfl, rfl, rfl, rfl, rfl⟩
theorem Same.trans {a b c : L} (h1 : Same a b) (h2 : Same b c) : Same a c := by
  obtain ⟨a1, a2, a3, a4, a5, a6, a7⟩ := h1
  obtain ⟨b1, b2, b3, b4, b5, b6, b7⟩ := h2
  exact ⟨b1.trans a1, b2.trans a2, b3.trans a3, b4.trans a4, b5.trans a5, b6.trans a6, b7.trans a7⟩

theorem attempt_same (s : L) : Same s (attempt s).2 := by
  have := attempt_live s; exact this

theorem reallocL_same (s : L) (owned : Bool) (cap nc : Nat) : Same s (reallocL s owned cap nc).2.1 := by
  simp only [reallocL]
  by_cases h1 : cap ≠ (if nc < 1 then 1 else nc)
  · rw [if_pos h1]
    by_cases h2 : (!owned) = true
    · rw [if_pos h2]; exact Same.refl s
    · rw [if_neg h2]
      by_cases h3 : (attempt s).1 = true
      · rw [if_pos h3]; exact attempt_same s
      · rw [if_neg h3]; exact attempt_same s
  · rw [if_neg h1]; exact Same.refl s

theorem appendSegmentL_same (s : L) (b : Builder) (cap : Nat) (t : Vec4) (ms : Nat) :
    Same s (appendSegmentL s b cap t ms).2.1 := by
  have hr := reallocL_same s true cap (growCap 70 cap (b.buf.length + (b.buf.length + Gen.builderExtend)))
  simp only [appendSegmentL]
  by_cases h1 : (reallocL s true cap (growCap 70 cap (b.buf.length + (b.buf.length + Gen.builderExtend)))).1 ≠ 0
  · rw [if_pos h1]; exact hr
  · rw [if_neg h1]
    cases appendSegment b t ms <;> exact hr

theorem appendLineAuxL_same : ∀ (f : Nat) (s : L) (b : Builder) (cap : Nat) (t : Vec4) (ms : Nat),
    Same s (appendLineAuxL f s b cap t ms).2.1 := by
  intro f
  induction f with
  | zero => intro s b cap t ms; exact Same.refl s
  | succ f ih =>
    intro s b cap t ms
    simp only [appendLineAuxL]
    cases (do let _ ← scaleCoord b t.x; let _ ← scaleCoord b t.y; let _ ← scaleCoord b t.z; pure () : R Unit) with
    | error e => exact Same.refl s
    | ok _ =>
      simp only
      by_cases hm : ms > Gen.builderMaxDurationMsec
      · rw [if_pos hm]
        have h1 := ih s b cap ⟨Builder.rf (Builder.rf (b.last.x + t.x) / 2), Builder.rf (Builder.rf (b.last.y + t.y) / 2),
          Builder.rf (Builder.rf (b.last.z + t.z) / 2), Builder.rf (Builder.rf (b.last.yaw + t.yaw) / 2)⟩ (ms / 2)
        generalize appendLineAuxL f s b cap _ (ms / 2) = r at h1 ⊢
        obtain ⟨rc, s1, b1, cap1⟩ := r
        simp only at h1 ⊢
        by_cases hrc : rc ≠ 0
        · rw [if_pos hrc]; exact h1
        · rw [if_neg hrc]; exact Same.trans h1 (ih s1 b1 cap1 t (ms - ms / 2))
      · rw [if_neg hm]; exact appendSegmentL_same s b cap t ms

theorem appendLineL_same (s : L) (b : Builder) (cap : Nat) (t : Vec4) (ms : Nat) :
    Same s (appendLineL s b cap t ms).2.1 := appendLineAuxL_same 34 s b cap t ms

theorem holdForAuxL_same : ∀ (f : Nat) (s : L) (b : Builder) (cap ms : Nat),
    Same s (holdForAuxL f s b cap ms).2.1 := by
  intro f
  induction f with
  | zero => intro s b cap ms; exact Same.refl s
  | succ f ih =>
    intro s b cap ms
    simp only [holdForAuxL]
    by_cases h0 : ms > 0
    · rw [if_pos h0]
      have h1 := appendLineL_same s b cap b.last (if ms > Gen.builderMaxDurationMsec then Gen.builderMaxDurationMsec else ms)
      generalize appendLineL s b cap b.last _ = r at h1 ⊢
      obtain ⟨rc, s1, b1, cap1⟩ := r
      simp only at h1 ⊢
      by_cases hrc : rc ≠ 0
      · rw [if_pos hrc]; exact h1
      · rw [if_neg hrc]; exact Same.trans h1 (ih s1 b1 cap1 _)
    · rw [if_neg h0]; exact Same.refl s

theorem holdForL_same (s : L) (b : Builder) (cap ms : Nat) : Same s (holdForL s b cap ms).2.1 :=
  holdForAuxL_same _ s b cap ms

/-! ### the invariant -/

theorem ownedCount_congr {s s' : L} (h : Same s s') : ownedCount s' = ownedCount s := by
  obtain ⟨_, h2, h3, h4, h5, h6, h7⟩ := h
  simp only [ownedCount, h2, h3, h4, h5, h6, h7]

theorem inv_of_same {s s' : L} (h : Same s s') (hi : Ledger.Inv s) : Ledger.Inv s' := by
  unfold Ledger.Inv at *
  rw [ownedCount_congr h, h.1]; exact hi

theorem oc_setSlot_true (s : L) (k : Kind) (h : slotOf s k = none) :
    ownedCount (setSlot s k (some true)) = ownedCount s + 1 := by
  cases k <;> simp only [slotOf] at h <;> simp only [ownedCount, setSlot, h] <;>
    simp only [show slotN (some true) = 1 from rfl, show slotN none = 0 from rfl] <;> omega

theorem oc_setSlot_false (s : L) (k : Kind) (h : slotOf s k = none) :
    ownedCount (setSlot s k (some false)) = ownedCount s := by
  cases k <;> simp only [slotOf] at h <;> simp only [ownedCount, setSlot, h] <;>
    simp only [show slotN (some false) = 0 from rfl, show slotN none = 0 from rfl]

theorem oc_setSlot_none (s : L) (k : Kind) (owned : Bool) (h : slotOf s k = some owned) :
    ownedCount (setSlot s k none) + (if owned then 1 else 0) = ownedCount s := by
  cases k <;> simp only [slotOf] at h <;> cases owned <;> simp only [ownedCount, setSlot, h] <;>
    simp only [show slotN (some true) = 1 from rfl, show slotN (some false) = 0 from rfl, show slotN none = 0 from rfl,
      Bool.false_eq_true, if_false, if_true] <;> omega

theorem oc_live (s : L) (n : Nat) : ownedCount { s with live := n } = ownedCount s := rfl
theorem oc_player (s : L) (b : Bool) : ownedCount { s with player := b } = ownedCount s := rfl

theorem setSlot_live (s : L) (k : Kind) (v : Option Bool) : (setSlot s k v).live = s.live := by
  cases k <;> rfl

theorem slotOf_same {s s' : L} (h : Same s s') (k : Kind) : slotOf s' k = slotOf s k := by
  obtain ⟨_, _, h3, h4, h5, h6, _⟩ := h
  cases k <;> simp [slotOf, h3, h4, h5, h6]

/-- loaders: on success exactly one block is kept; on failure nothing changes but the attempt count -/
theorem loadFd_spec (s : L) (k : Kind) (data : Bytes) :
    let r := loadFd s k data
    (r.2.2 = true ∧ r.2.1.live = s.live + 1 ∧ Same { s with live := s.live + 1 } r.2.1) ∨
    (r.2.2 = false ∧ Same s r.2.1) := by
  simp only [loadFd]
  cases (do let p ← Container.init false data; p.findFirstBlockByType k.blockType : R Container.Parser) with
  | error e => right; exact ⟨by simp, Same.refl s⟩
  | ok p1 =>
    simp only
    have ha := attempt_same s
    by_cases hok : (attempt s).1 = true
    · simp only [hok, Bool.not_true, Bool.false_eq_true, if_false]
      cases p1.readCurrentBlock with
      | error e => right; exact ⟨by simp, ha⟩
      | ok v =>
        simp only
        by_cases hl : k = Kind.light ∧ v.1.isEmpty = true
        · rw [if_pos hl]
          have hb := attempt_same (attempt s).2
          by_cases hok2 : (attempt (attempt s).2).1 = true
          · rw [if_pos hok2]
            left
            refine ⟨by simp, ?_, ?_⟩
            · simp only; rw [hb.1, ha.1]
            · obtain ⟨a1, a2, a3, a4, a5, a6, a7⟩ := Same.trans ha hb
              exact ⟨by simp only; rw [a1], a2, a3, a4, a5, a6, a7⟩
          · rw [if_neg hok2]; right; exact ⟨by simp, Same.trans ha hb⟩
        · rw [if_neg hl]
          cases initFromBytes k v.1 true with
          | error e => right; exact ⟨by simp, ha⟩
          | ok _ =>
            left
            refine ⟨by simp, ?_, ?_⟩
            · simp only; rw [ha.1]
            · obtain ⟨a1, a2, a3, a4, a5, a6, a7⟩ := ha
              exact ⟨by simp only; rw [a1], a2, a3, a4, a5, a6, a7⟩
    · have hf : (attempt s).1 = false := by simpa using hok
      simp only [hf, Bool.not_false, if_true]
      right; exact ⟨by simp, ha⟩

theorem loadMem_spec (s : L) (k : Kind) (data : Bytes) :
    let r := loadMem s k data
    (r.2.2 = true ∧ k = Kind.rth ∧ r.2.1.live = s.live + 1 ∧ Same { s with live := s.live + 1 } r.2.1) ∨
    (r.2.2 = true ∧ k ≠ Kind.rth ∧ Same s r.2.1) ∨
    (r.2.2 = false ∧ Same s r.2.1) := by
  simp only [loadMem]
  by_cases hk : k = Kind.rth
  · rw [if_pos hk]
    cases (do let p ← Container.init true data; p.findFirstBlockByType k.blockType : R Container.Parser) with
    | error e => right; right; exact ⟨by simp, Same.refl s⟩
    | ok p1 =>
      simp only
      have ha := attempt_same s
      by_cases hok : (attempt s).1 = true
      · simp only [hok, Bool.not_true, Bool.false_eq_true, if_false]
        cases p1.readCurrentBlock with
        | error e => right; right; exact ⟨by simp, ha⟩
        | ok v =>
          simp only
          cases initFromBytes k v.1 true with
          | error e => right; right; exact ⟨by simp, ha⟩
          | ok _ =>
            left
            refine ⟨by simp, hk, ?_, ?_⟩
            · simp only; rw [ha.1]
            · obtain ⟨a1, a2, a3, a4, a5, a6, a7⟩ := ha
              exact ⟨by simp only; rw [a1], a2, a3, a4, a5, a6, a7⟩
      · have hf : (attempt s).1 = false := by simpa using hok
        simp only [hf, Bool.not_false, if_true]
        right; right; exact ⟨by simp, ha⟩
  · rw [if_neg hk]
    cases load k true data with
    | error e => right; right; exact ⟨by simp, Same.refl s⟩
    | ok _ => right; left; exact ⟨by simp, hk, Same.refl s⟩

/-- invariant transfer: same objects, one more live block, one more owning slot -/
theorem inv_add_slot (s s1 : L) (k : Kind) (hi : Ledger.Inv s) (hnone : slotOf s k = none)
    (hs : Same { s with live := s.live + 1 } s1) : Ledger.Inv (setSlot s1 k (some true)) := by
  unfold Ledger.Inv at *
  have hn1 : slotOf s1 k = none := by
    have := slotOf_same hs k
    rw [this]; exact hnone
  rw [oc_setSlot_true s1 k hn1, setSlot_live, ownedCount_congr hs, hs.1]
  simp only [oc_live]
  omega

theorem inv_view_slot (s s1 : L) (k : Kind) (hi : Ledger.Inv s) (hnone : slotOf s k = none)
    (hs : Same s s1) : Ledger.Inv (setSlot s1 k (some false)) := by
  unfold Ledger.Inv at *
  have hn1 : slotOf s1 k = none := by rw [slotOf_same hs k]; exact hnone
  rw [oc_setSlot_false s1 k hn1, setSlot_live, ownedCount_congr hs, hs.1]
  exact hi

/-- objects other than the byte buffer are untouched, and so is the number of live blocks -/
def SameButBuf (s s' : L) : Prop :=
  s'.live = s.live ∧ s'.traj = s.traj ∧ s'.prog = s.prog ∧ s'.yaw = s.yaw ∧ s'.plan = s.plan ∧ s'.bld = s.bld

theorem inv_buf (s s' : L) (hi : Ledger.Inv s) (d : Int)
    (hl : (s'.live : Int) = s.live + d) (hb : (bufN s'.buf : Int) = bufN s.buf + d)
    (h3 : s'.traj = s.traj) (h4 : s'.prog = s.prog) (h5 : s'.yaw = s.yaw) (h6 : s'.plan = s.plan) (h7 : s'.bld = s.bld) :
    Ledger.Inv s' := by
  unfold Ledger.Inv ownedCount at *
  rw [h3, h4, h5, h6, h7]
  omega

theorem opBuf_inv (s : L) (k : Char) (n : Nat) (hi : Ledger.Inv s) : Ledger.Inv (opBuf s k n).2 := by
  unfold opBuf
  split
  · exact hi
  · -- init
    rename_i hbuf
    have ha := attempt_same s
    by_cases hok : (attempt s).1 = true
    · simp only [hok, if_true]
      obtain ⟨a1, a2, a3, a4, a5, a6, a7⟩ := ha
      apply inv_buf s _ hi 1 <;> simp only [a1, a3, a4, a5, a6, a7, hbuf, bufN, Buf.init, if_true] <;> simp
    · have hf : (attempt s).1 = false := by simpa using hok
      simp only [hf, Bool.false_eq_true, if_false]
      exact inv_of_same ha hi
  · exact hi
  · -- adopt a caller-allocated block: one more live block, owned by the buffer (size 0 is refused)
    rename_i hbuf
    by_cases hn : n = 0
    · simp only [hn, if_true]; exact hi
    · simp only [hn, if_false]
      apply inv_buf s _ hi 1 <;> simp [hbuf, bufN]
  · exact hi
  · -- view over caller memory: no block, nothing owned
    rename_i hbuf
    apply inv_buf s _ hi 0 <;> simp [hbuf, bufN, Buf.view]
  · exact hi
  · -- append
    rename_i b hbuf
    simp only [bufGrow]
    by_cases hn : n = 0
    · simp only [hn, if_true]
      apply inv_buf s _ hi 0 <;> simp [hbuf, bufN]
    · simp only [hn, if_false]
      have hr := reallocL_same s b.owned b.capacity (growCap 70 b.capacity (b.bytes.length + n))
      obtain ⟨a1, a2, a3, a4, a5, a6, a7⟩ := hr
      split <;> (apply inv_buf s _ hi 0 <;> simp [a1, a3, a4, a5, a6, a7, hbuf, bufN])
  · -- extend with zeros
    rename_i b hbuf
    simp only [bufGrow]
    by_cases hn : b.bytes.length + n = 0
    · simp only [hn, if_true]
      apply inv_buf s _ hi 0 <;> simp [hbuf, bufN]
    · simp only [hn, if_false]
      have hr := reallocL_same s b.owned b.capacity (growCap 70 b.capacity (b.bytes.length + (b.bytes.length + n)))
      obtain ⟨a1, a2, a3, a4, a5, a6, a7⟩ := hr
      split <;> (apply inv_buf s _ hi 0 <;> simp [a1, a3, a4, a5, a6, a7, hbuf, bufN])
  · -- resize
    rename_i b hbuf
    split
    · exact hi
    · rename_i hown
      have hown' : b.owned = true := by simpa using hown
      split
      · have hr := reallocL_same s true b.capacity n
        obtain ⟨a1, a2, a3, a4, a5, a6, a7⟩ := hr
        simp only
        split
        · apply inv_buf s _ hi 0 <;> simp [a1, a3, a4, a5, a6, a7, hbuf, bufN, hown']
        · exact inv_of_same ⟨a1, a2, a3, a4, a5, a6, a7⟩ hi
      · apply inv_buf s _ hi 0 <;> simp [hbuf, bufN]
  · -- prune
    rename_i b hbuf
    have hr := reallocL_same s b.owned b.capacity b.bytes.length
    obtain ⟨a1, a2, a3, a4, a5, a6, a7⟩ := hr
    apply inv_buf s _ hi 0 <;> simp [a1, a3, a4, a5, a6, a7, hbuf, bufN]
  · -- clear
    rename_i b hbuf
    split
    · apply inv_buf s _ hi 0 <;> simp [hbuf, bufN]
    · exact hi
  · -- destroy
    rename_i b hbuf
    by_cases hown : b.owned = true
    · have hpos : s.live ≥ 1 := by
        unfold Ledger.Inv ownedCount at hi
        rw [hbuf] at hi; simp only [bufN, hown, if_true] at hi; omega
      apply inv_buf s _ hi (-1) <;> simp [hbuf, bufN, hown]
      omega
    · have hf : b.owned = false := by simpa using hown
      apply inv_buf s _ hi 0 <;> simp [hbuf, bufN, hf]
  · exact hi

/-- general arithmetic form of invariant preservation -/
theorem inv_delta (s s' : L) (hi : Ledger.Inv s) (dl db dt dp dy dn dd : Int)
    (h0 : (s'.live : Int) = s.live + dl) (h1 : (bufN s'.buf : Int) = bufN s.buf + db)
    (h2 : (slotN s'.traj : Int) = slotN s.traj + dt) (h3 : (slotN s'.prog : Int) = slotN s.prog + dp)
    (h4 : (slotN s'.yaw : Int) = slotN s.yaw + dy) (h5 : (slotN s'.plan : Int) = slotN s.plan + dn)
    (h6 : (bldN s'.bld : Int) = bldN s.bld + dd) (hsum : dl = db + dt + dp + dy + dn + dd) : Ledger.Inv s' := by
  unfold Ledger.Inv ownedCount at *
  omega

theorem opBld_inv (s : L) (k : Char) (n : Nat) (hi : Ledger.Inv s) : Ledger.Inv (opBld s k n).2 := by
  unfold opBld
  split
  · exact hi
  · rename_i hb
    cases Builder.init n 0 with
    | error e => exact hi
    | ok b =>
      simp only
      have ha := attempt_same s
      obtain ⟨a1, a2, a3, a4, a5, a6, a7⟩ := ha
      by_cases hok : (attempt s).1 = true
      · simp only [hok, if_true]
        apply inv_delta s _ hi 1 0 0 0 0 0 1 <;> simp [a1, a2, a3, a4, a5, a6, a7, hb, bldN]
      · have hf : (attempt s).1 = false := by simpa using hok
        simp only [hf, Bool.false_eq_true, if_false]
        exact inv_of_same ⟨a1, a2, a3, a4, a5, a6, a7⟩ hi
  · exact hi
  · rename_i b cap hb
    have hr := appendLineL_same s b cap ⟨Builder.rf (b.last.x + 10), 5, Builder.rf (b.last.z + 1), 0⟩ n
    obtain ⟨a1, a2, a3, a4, a5, a6, a7⟩ := hr
    apply inv_delta s _ hi 0 0 0 0 0 0 0 <;> simp [a1, a2, a3, a4, a5, a6, hb, bldN]
  · rename_i b cap hb
    have hr := holdForL_same s b cap n
    obtain ⟨a1, a2, a3, a4, a5, a6, a7⟩ := hr
    apply inv_delta s _ hi 0 0 0 0 0 0 0 <;> simp [a1, a2, a3, a4, a5, a6, hb, bldN]
  · rename_i b cap hb
    by_cases ht : s.traj.isSome = true
    · simp only [ht, if_true]; exact hi
    · have htn : s.traj = none := by
        cases h : s.traj with
        | none => rfl
        | some v => rw [h] at ht; simp at ht
      simp only [ht, Bool.false_eq_true, if_false]
      have ha := attempt_same s
      obtain ⟨a1, a2, a3, a4, a5, a6, a7⟩ := ha
      by_cases hok : (attempt s).1 = true
      · simp only [hok, Bool.not_true, Bool.false_eq_true, if_false]
        apply inv_delta s _ hi 1 0 1 0 0 0 0 <;> simp [a1, a2, a3, a4, a5, a6, a7, hb, bldN, htn, slotN]
      · have hf : (attempt s).1 = false := by simpa using hok
        simp only [hf, Bool.not_false, if_true]
        exact inv_of_same ⟨a1, a2, a3, a4, a5, a6, a7⟩ hi
  · rename_i p hb
    have hpos : s.live ≥ 1 := by
      unfold Ledger.Inv ownedCount at hi
      rw [hb] at hi; simp only [bldN] at hi; omega
    apply inv_delta s _ hi (-1) 0 0 0 0 0 (-1) <;> simp [hb, bldN]
    omega
  · exact hi

theorem go_same : ∀ (ps : List RthConvert.Phase) (s : L) (b : Builder) (cap : Nat),
    Same s (convertL.go ps s b cap).2.1 := by
  intro ps
  induction ps with
  | nil => intro s b cap; exact Same.refl s
  | cons p ps ih =>
    intro s b cap
    cases p with
    | hold sec =>
      simp only [convertL.go]
      cases msecFromSeconds sec with
      | error e => exact Same.refl s
      | ok ms =>
        simp only
        have h1 := holdForL_same s b cap ms
        generalize holdForL s b cap ms = r at h1 ⊢
        obtain ⟨rc, s1, b1, cap1⟩ := r
        simp only at h1 ⊢
        by_cases hrc : rc ≠ 0
        · rw [if_pos hrc]; exact h1
        · rw [if_neg hrc]; exact Same.trans h1 (ih s1 b1 cap1)
    | line t sec =>
      simp only [convertL.go]
      cases msecFromSeconds sec with
      | error e => exact Same.refl s
      | ok ms =>
        simp only
        have h1 := appendLineL_same s b cap t ms
        generalize appendLineL s b cap t ms = r at h1 ⊢
        obtain ⟨rc, s1, b1, cap1⟩ := r
        simp only at h1 ⊢
        by_cases hrc : rc ≠ 0
        · rw [if_pos hrc]; exact h1
        · rw [if_neg hrc]; exact Same.trans h1 (ih s1 b1 cap1)
    | invalidAction => simp only [convertL.go]; exact Same.refl s

theorem convertL_inv (s : L) (e : RthConvert.EntryF) (start : Vec4) (hi : Ledger.Inv s) :
    Ledger.Inv (convertL s e start).2 := by
  unfold convertL
  by_cases ht : s.traj.isSome = true
  · simp only [ht, if_true]; exact hi
  · have htn : s.traj = none := by
      cases h : s.traj with
      | none => rfl
      | some v => rw [h] at ht; simp at ht
    simp only [ht, Bool.false_eq_true, if_false]
    cases RthConvert.chooseScale e start with
    | error err => exact hi
    | ok scale =>
      simp only
      cases msecFromSeconds (RthConvert.addF (RthConvert.startTime e) (if RthConvert.gt0 e.preDelay = true then e.preDelay else F32.fin 0)) with
      | error err => exact hi
      | ok d0 =>
        simp only
        cases Builder.init scale 0 with
        | error err => exact hi
        | ok b0 =>
          simp only
          have ha := attempt_same s
          by_cases hok : (attempt s).1 = true
          · simp only [hok, Bool.not_true, Bool.false_eq_true, if_false]
            cases setStart b0 start with
            | error err =>
              simp only
              obtain ⟨a1, a2, a3, a4, a5, a6, a7⟩ := ha
              apply inv_delta s _ hi 0 0 0 0 0 0 0 <;> simp [a1, a2, a3, a4, a5, a6, a7]
            | ok b1 =>
              simp only
              have hg := go_same (RthConvert.phases e start) { (attempt s).2 with live := (attempt s).2.live + 1 } b1 Gen.builderHeaderLength
              generalize convertL.go (RthConvert.phases e start) { (attempt s).2 with live := (attempt s).2.live + 1 } b1 Gen.builderHeaderLength = r at hg ⊢
              obtain ⟨rc, s2, b2, cap2⟩ := r
              simp only at hg ⊢
              obtain ⟨a1, a2, a3, a4, a5, a6, a7⟩ := ha
              obtain ⟨g1, g2, g3, g4, g5, g6, g7⟩ := hg
              simp only at g1 g2 g3 g4 g5 g6 g7
              by_cases hrc : rc ≠ 0
              · rw [if_pos hrc]
                apply inv_delta s _ hi 0 0 0 0 0 0 0 <;> simp [g1, g2, g3, g4, g5, g6, g7, a1, a2, a3, a4, a5, a6, a7]
              · rw [if_neg hrc]
                have hb := attempt_same s2
                obtain ⟨c1, c2, c3, c4, c5, c6, c7⟩ := hb
                by_cases hok2 : (attempt s2).1 = true
                · simp only [hok2, Bool.not_true, Bool.false_eq_true, if_false]
                  apply inv_delta s _ hi 1 0 1 0 0 0 0 <;>
                    simp [c1, c2, c3, c4, c5, c6, c7, g1, g2, g3, g4, g5, g6, g7, a1, a2, a3, a4, a5, a6, a7, htn, slotN]
                · have hf : (attempt s2).1 = false := by simpa using hok2
                  simp only [hf, Bool.not_false, if_true]
                  apply inv_delta s _ hi 0 0 0 0 0 0 0 <;>
                    simp [c1, c2, c3, c4, c5, c6, c7, g1, g2, g3, g4, g5, g6, g7, a1, a2, a3, a4, a5, a6, a7]
          · have hf : (attempt s).1 = false := by simpa using hok
            simp only [hf, Bool.not_false, if_true]
            exact inv_of_same ha hi

/-- **Ledger invariant.** Every API call, under every failure plan, keeps "live blocks = blocks
owned by live objects". -/
theorem run_inv (s : L) (op : Op) (hi : Ledger.Inv s) : Ledger.Inv (run s op).2 := by
  cases op with
  | buf k n => exact opBuf_inv s k n hi
  | bld k n => exact opBld_inv s k n hi
  | loadFd kind data =>
    simp only [run]
    by_cases hsl : (slotOf s kind).isSome = true
    · simp only [hsl, if_true]; exact hi
    · have hn : slotOf s kind = none := by
        cases h : slotOf s kind with
        | none => rfl
        | some v => rw [h] at hsl; simp at hsl
      simp only [hsl, Bool.false_eq_true, if_false]
      rcases loadFd_spec s kind data with ⟨hok, _, hs⟩ | ⟨hok, hs⟩
      · simp only [hok, if_true]; exact inv_add_slot s _ kind hi hn hs
      · simp only [hok, Bool.false_eq_true, if_false]; exact inv_of_same hs hi
  | loadMem kind data =>
    simp only [run]
    by_cases hsl : (slotOf s kind).isSome = true
    · simp only [hsl, if_true]; exact hi
    · have hn : slotOf s kind = none := by
        cases h : slotOf s kind with
        | none => rfl
        | some v => rw [h] at hsl; simp at hsl
      simp only [hsl, Bool.false_eq_true, if_false]
      rcases loadMem_spec s kind data with ⟨hok, hk, _, hs⟩ | ⟨hok, hk, hs⟩ | ⟨hok, hs⟩
      · subst hk; simp only [hok, if_true, decide_true]; exact inv_add_slot s _ _ hi hn hs
      · simp only [hok, if_true, hk, decide_false]; exact inv_view_slot s _ kind hi hn hs
      · simp only [hok, Bool.false_eq_true, if_false]; exact inv_of_same hs hi
  | loadOwned kind data =>
    simp only [run]
    by_cases hsl : (slotOf s kind).isSome = true
    · simp only [hsl, if_true]; exact hi
    · have hn : slotOf s kind = none := by
        cases h : slotOf s kind with
        | none => rfl
        | some v => rw [h] at hsl; simp at hsl
      simp only [hsl, Bool.false_eq_true, if_false]
      cases initFromBytes kind data true with
      | error e => exact hi
      | ok _ => exact inv_add_slot s _ kind hi hn (Same.refl _)
  | initEmpty kind =>
    simp only [run]
    by_cases hsl : (slotOf s kind).isSome = true
    · simp only [hsl, if_true]; exact hi
    · have hn : slotOf s kind = none := by
        cases h : slotOf s kind with
        | none => rfl
        | some v => rw [h] at hsl; simp at hsl
      simp only [hsl, Bool.false_eq_true, if_false]
      by_cases hk : kind = Kind.rth
      · simp only [hk, if_true]; exact inv_view_slot s s _ hi (by rw [← hk]; exact hn) (Same.refl s)
      · simp only [hk, if_false]
        have ha := attempt_same s
        by_cases hok : (attempt s).1 = true
        · simp only [hok, if_true]
          obtain ⟨a1, a2, a3, a4, a5, a6, a7⟩ := ha
          exact inv_add_slot s _ kind hi hn ⟨by simp only; rw [a1], a2, a3, a4, a5, a6, a7⟩
        · have hf : (attempt s).1 = false := by simpa using hok
          simp only [hf, Bool.false_eq_true, if_false]; exact inv_of_same ha hi
  | destroy kind =>
    simp only [run]
    cases h : slotOf s kind with
    | none => exact hi
    | some owned =>
      simp only
      unfold Ledger.Inv at *
      have hoc := oc_setSlot_none { s with live := if owned = true then s.live - 1 else s.live } kind owned (by
        cases kind <;> simpa [slotOf] using h)
      rw [setSlot_live]
      simp only [oc_live] at hoc
      cases owned with
      | true =>
        simp only [if_true] at hoc ⊢
        omega
      | false =>
        simp only [Bool.false_eq_true, if_false] at hoc ⊢
        omega
  | other kind => simp only [run]; split <;> exact hi
  | playerInit => simp only [run]; split <;> exact hi
  | playerDestroy => simp only [run]; split <;> exact hi
  | solve n =>
    simp only [run]
    by_cases hn : n = 0
    · simp only [hn, if_true]; exact hi
    · simp only [hn, if_false]
      have ha := attempt_same s
      split <;> exact inv_of_same ha hi
  | convert e start => exact convertL_inv s e start hi

/-- the invariant holds after any sequence of calls from the empty ledger, for any failure plan -/
theorem runAll_inv (k : Nat) (ops : List Op) :
    Ledger.Inv (ops.foldl (fun s op => (run s op).2) ({ failAt := k } : L)) := by
  have h0 : Ledger.Inv ({ failAt := k } : L) := by
    simp [Ledger.Inv, ownedCount, bufN, slotN, bldN]
  suffices ∀ (s : L), Ledger.Inv s → Ledger.Inv (ops.foldl (fun s op => (run s op).2) s) from this _ h0
  induction ops with
  | nil => intro s hs; exact hs
  | cons op ops ih => intro s hs; exact ih _ (run_inv s op hs)

/-- **Destroying everything empties the heap**: when no object is left, no block is live -/
theorem all_destroyed_empty (s : L) (hi : Ledger.Inv s) (h1 : s.buf = none) (h2 : s.traj = none) (h3 : s.prog = none)
    (h4 : s.yaw = none) (h5 : s.plan = none) (h6 : s.bld = none) : s.live = 0 := by
  unfold Ledger.Inv ownedCount at hi
  rw [hi, h1, h2, h3, h4, h5, h6]; rfl

/-- **A failed load leaves nothing allocated** (descriptor route; the memory route allocates nothing
except for RTH plans, which behave the same) -/
theorem failed_load_allocates_nothing (s : L) (k : Kind) (data : Bytes) (h : (loadFd s k data).2.2 = false) :
    (loadFd s k data).2.1.live = s.live := by
  rcases loadFd_spec s k data with ⟨hok, _⟩ | ⟨_, hs⟩
  · rw [hok] at h; cases h
  · exact hs.1

/-- views never own a block: memory-route objects other than RTH plans are created without allocation -/
theorem view_load_allocates_nothing (s : L) (k : Kind) (data : Bytes) (hk : k ≠ Kind.rth) :
    (loadMem s k data).2.1.live = s.live ∧ (loadMem s k data).2.1.allocs = s.allocs := by
  simp only [loadMem, hk, if_false]
  cases load k true data <;> exact ⟨rfl, rfl⟩

end Sb.C17
