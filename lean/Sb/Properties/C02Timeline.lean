/-
C02 — straight-line light programs against the documented meaning of their commands.

A program made of SLEEP, WAIT_UNTIL, SET_COLOR / SET_GRAY / SET_BLACK / SET_WHITE, FADE_TO_COLOR / FADE_TO_GRAY / FADE_TO_BLACK /
FADE_TO_WHITE, SET_PYRO, SET_PYRO_ALL and NOP commands (durations as LEB128 varints, below
2^21 units; at most 65535 bytes; at most 2^24 ms in total) is written as a list `cs : List Cmd`; `encode cs` is its
bytecode.  Command `i` starts at `timeAt cs i`: a sleep / set / fade advances the program clock by 20 ms × its duration, a wait-until
advances it to 20 ms × its argument unless that instant has passed (`Cmd.next`).
For every such program, EVERY history of seeks and every timestamp that is not a command start instant:

* inside the span of a SET_COLOR / SLEEP / pyro / no-op the colour is the colour in effect (`colAt`), the pyro mask the
  mask in effect (`pyroAt`);
* inside a fade the colour is the linear interpolation (in the code's own interpolation function `lerp`, with the exact
  ratio elapsed/duration) from the colour in effect when the fade started to its target;
* after the last command the program has ended and holds its last colour and pyro mask.

This ties the wake-up chain of C09's development to the format's command semantics for this command set; loops, jumps
and clock reset are not covered by this theorem (the model and the correspondence run cover them).
-/
import Sb.Proofs.LightTimeline
import Sb.Properties.C02Chain

namespace Sb.C02
open Sb Sb.Lights Sb.Proofs Sb.Proofs.Light Sb.C09

/-- inside a fade of at most 2^24 ms the float32 progress is the exact ratio elapsed/duration -/
theorem progressOf_exact (s D t : Nat) (h1 : s ≤ t) (h2 : t < s + D) (hD : D ≤ 16777216) :
    progressOf s D t = ((t - s : Nat) : ℚ) / ((D : Nat) : ℚ) := by
  unfold progressOf
  rw [if_neg (by omega), if_neg (by omega)]
  have e1 : ulToF (t - s) = ((t - s : Nat) : ℚ) := roundF32_natCast _ (by omega)
  have e2 : ulToF D = (D : ℚ) := roundF32_natCast _ hD
  simp only [e1, e2]
  have hlt : ((t - s : Nat) : ℚ) < (D : ℚ) := by exact_mod_cast (by omega : t - s < D)
  have hdpos : (0 : ℚ) < D := by exact_mod_cast (by omega : 0 < D)
  have h3 : ((t - s : Nat) : ℚ) / (D : ℚ) < 1 := (div_lt_one hdpos).mpr hlt
  rw [if_neg (by linarith)]

/-- the documented colour inside the span of command `k-1` (the `k`-th), at time `t` -/
def specColour (cs : List Cmd) (k t : Nat) : Color :=
  match cs[k - 1]? with
  | some (.fade _ r g b d) =>
    if d = 0 then colAt cs k
    else lerp (colAt cs (k - 1)) (r, g, b) (((t - timeAt cs (k - 1) : Nat) : ℚ) / ((20 * d : Nat) : ℚ))
  | _ => colAt cs k

theorem chain_live (cs : List Cmd) (hw : WF cs) : liveUpTo (encode cs) (cs.length + 1) := by
  intro i h1 h2
  exact (chain_timeline cs hw i h1 (by omega)).1.ended

theorem not_live_beyond (cs : List Cmd) (hw : WF cs) (k : Nat) (hk : cs.length + 1 ≤ k) : ¬ liveUpTo (encode cs) (k + 1) := by
  intro h
  have := h (cs.length + 1) (by omega) (by omega)
  rw [(chain_end cs hw).1] at this
  exact absurd this (by decide)

theorem straight_fades_short (cs : List Cmd) (hw : WF cs) : FadesShort (encode cs) := by
  intro k hl ha
  by_cases hk : cs.length + 1 ≤ k
  · exact absurd hl (not_live_beyond cs hw k hk)
  · by_cases hk0 : k = 0
    · subst hk0
      have : (chain (encode cs) 0).exec.trActive = false := (fresh_exec (encode cs)).2.1
      rw [this] at ha; exact absurd ha (by decide)
    · obtain ⟨f, af, _, _⟩ := chain_timeline cs hw k (by omega) (by omega)
      have hms : (cs[k - 1]'(by omega)).next (timeAt cs (k - 1)) ≤ 16777216 := by
        have h1 := timeAt_succ cs (k - 1) (by omega)
        have h2 := timeAt_le cs (k - 1 + 1) (by omega)
        have := hw.time
        omega
      generalize hc : cs[k - 1]'(by omega) = c at af hms
      cases c with
      | fade en r g b d =>
        by_cases hd0 : d = 0
        · simp only [AfterCmd, hd0, if_true] at af
          rw [af.1] at ha; exact absurd ha (by decide)
        · simp only [AfterCmd, hd0, if_false] at af
          rw [af.2.2.1]
          simp only [Cmd.next] at hms
          omega
      | sleep d => rw [af.1] at ha; exact absurd ha (by decide)
      | set en r g b d => rw [af.1] at ha; exact absurd ha (by decide)
      | pyro m => rw [af.1] at ha; exact absurd ha (by decide)
      | pyroSet m => rw [af.1] at ha; exact absurd ha (by decide)
      | nop => rw [af.1] at ha; exact absurd ha (by decide)
      | trigger p a => rw [af.1] at ha; exact absurd ha (by decide)
      | waitUntil v => rw [af.1] at ha; exact absurd ha (by decide)

theorem straight_not_instant (cs : List Cmd) (hw : WF cs) (t : Nat) (h0 : 0 < t) (hni : ∀ j, j ≤ cs.length → timeAt cs j ≠ t) :
    NotInstant (encode cs) t := by
  intro k hl
  by_cases hk : cs.length + 1 ≤ k
  · exact absurd hl (not_live_beyond cs hw k hk)
  · by_cases hk0 : k = 0
    · subst hk0; rw [chain0_next]; omega
    · rw [(chain_timeline cs hw k (by omega) (by omega)).2.2.2]
      exact hni k (by omega)

/-- **C02 for straight-line programs, while the program runs** -/
theorem straight_line_running (cs : List Cmd) (hw : WF cs) (hist : List (Nat × Nat)) (t f : Nat) (p r : Player)
    (hp : seekAll (Player.fresh (encode cs)) hist = .ok p) (hr : p.seek t f = .ok r)
    (k : Nat) (hk1 : 1 ≤ k) (hk : k ≤ cs.length) (h1 : timeAt cs (k - 1) < t) (h2 : t < timeAt cs k)
    (hni : ∀ j, j ≤ cs.length → timeAt cs j ≠ t) :
    r.exec.color = specColour cs k t ∧ r.exec.pyro = pyroAt cs k ∧ r.exec.ended = false := by
  have hshort := straight_fades_short cs hw
  have hnot := straight_not_instant cs hw t (by omega) hni
  rcases answer_on_chain (encode cs) hshort hist t f p r hp hr hnot with
    ⟨k', hk', hl', b1, b2, hcol, hpy, hend, _⟩ | ⟨m, hm, hlm, he, hc, _, _, _⟩
  · have hk'n : k' ≤ cs.length := by
      by_contra hc
      exact not_live_beyond cs hw k' (by omega) hl'
    obtain ⟨f', af, c1, c2⟩ := chain_timeline cs hw k' hk' hk'n
    rw [c1] at b1
    rw [c2] at b2
    have hkk : k' = k := by
      rcases Nat.lt_trichotomy k' k with hlt | heq | hgt
      · have := timeAt_mono cs k' (k - 1) (by omega) (by omega); omega
      · exact heq
      · have := timeAt_mono cs k (k' - 1) (by omega) (by omega); omega
    subst hkk
    refine ⟨?_, by rw [hpy, f'.pyro], hend⟩
    rw [hcol]
    unfold specColour
    have hget : cs[k' - 1]? = some (cs[k' - 1]'(by omega)) := by
      rw [List.getElem?_eq_getElem]
    rw [hget]
    have hsucc := timeAt_succ cs (k' - 1) (by omega)
    rw [show k' - 1 + 1 = k' by omega] at hsucc
    have hms : (cs[k' - 1]'(by omega)).next (timeAt cs (k' - 1)) ≤ 16777216 := by
      have h3 := timeAt_le cs k' (by omega)
      have := hw.time
      omega
    generalize hc : cs[k' - 1]'(by omega) = c at af hms hsucc
    have idle : (chain (encode cs) k').exec.trActive = false → (chain (encode cs) k').exec.color = colAt cs k' →
        (stepFade (chain (encode cs) k').exec t).color = colAt cs k' := by
      intro t1 t2
      unfold stepFade; simp [t1, t2]
    cases c with
    | fade en r g b d =>
      by_cases hd0 : d = 0
      · simp only [AfterCmd, hd0, if_true] at af ⊢
        exact idle af.1 af.2.1
      · simp only [AfterCmd, hd0, if_false] at af ⊢
        obtain ⟨a1, a2, a3, a4, a5, a6⟩ := af
        simp only [Cmd.next] at hms hsucc
        have hD : 20 * d ≤ 16777216 := by omega
        have hst : (chain (encode cs) k').exec.trStart = timeAt cs (k' - 1) := by omega
        unfold stepFade
        rw [if_pos a1, fadeFinish_color]
        unfold transitionStep
        simp only [progress_eq, a3, a4, a5, hst]
        rw [progressOf_exact _ _ _ (le_of_lt b1) (by omega) hD]
    | sleep d => exact idle af.1 af.2.1
    | set en r g b d => exact idle af.1 af.2.1
    | pyro m => exact idle af.1 af.2.1
    | pyroSet m => exact idle af.1 af.2.1
    | nop => exact idle af.1 af.2.1
    | trigger p a => exact idle af.1 af.2.1
    | waitUntil v => exact idle af.1 af.2.1
  · -- the program cannot have ended before the end of its last command
    exfalso
    have hmn : m = cs.length + 1 := by
      by_contra hne
      by_cases hlt : m ≤ cs.length
      · have := (chain_timeline cs hw m hm hlt).1.ended
        rw [this] at he; exact absurd he (by decide)
      · have := hlm (cs.length + 1) (by omega) (by omega)
        rw [(chain_end cs hw).1] at this
        exact absurd this (by decide)
    rw [hmn, (chain_end cs hw).2.2.2] at hc
    have := timeAt_mono cs k cs.length hk (Nat.le_refl _)
    omega

/-- **C02 for straight-line programs, after the end**: the last colour and pyro mask are held -/
theorem straight_line_ended (cs : List Cmd) (hw : WF cs) (hist : List (Nat × Nat)) (t f : Nat) (p r : Player)
    (hp : seekAll (Player.fresh (encode cs)) hist = .ok p) (hr : p.seek t f = .ok r)
    (h1 : timeAt cs cs.length < t) :
    r.exec.color = colAt cs cs.length ∧ r.exec.pyro = pyroAt cs cs.length ∧ r.exec.ended = true := by
  have hshort := straight_fades_short cs hw
  have hnot := straight_not_instant cs hw t (by omega) (by
    intro j hj
    have := timeAt_mono cs j cs.length hj (Nat.le_refl _)
    omega)
  rcases answer_on_chain (encode cs) hshort hist t f p r hp hr hnot with
    ⟨k', hk', hl', b1, b2, _, _, _, _⟩ | ⟨m, hm, hlm, he, hc, c1, c2, c3⟩
  · exfalso
    have hk'n : k' ≤ cs.length := by
      by_contra hc
      exact not_live_beyond cs hw k' (by omega) hl'
    rw [(chain_timeline cs hw k' hk' hk'n).2.2.2] at b2
    have := timeAt_mono cs k' cs.length hk'n (Nat.le_refl _)
    omega
  · have hmn : m = cs.length + 1 := by
      by_contra hne
      by_cases hlt : m ≤ cs.length
      · have := (chain_timeline cs hw m hm hlt).1.ended
        rw [this] at he; exact absurd he (by decide)
      · have := hlm (cs.length + 1) (by omega) (by omega)
        rw [(chain_end cs hw).1] at this
        exact absurd this (by decide)
    subst hmn
    obtain ⟨_, e2, e3, _⟩ := chain_end cs hw
    exact ⟨c1.trans e2, c2.trans e3, c3⟩

/-! ### non-vacuity -/

/-- red 1 s; wait until 2 s on the program clock; fade to blue over 2 s; pyro channels 0 and 2; hold 0.5 s; fade to black
(one-byte opcode) over 1 s; gray 80 (two-byte form) 0.1 s; pyro channel 1 switched on in addition -/
def demo : List Cmd :=
  [.set .rgb 255 0 0 50, .waitUntil 100, .fade .rgb 0 0 255 100, .pyro 5, .sleep 25, .fade .black 0 0 0 50, .set .gray 80 80 80 5, .pyroSet 130]

theorem varint_small (n : Nat) (h : n < 128) : varint n = [UInt8.ofNat n] := by
  rw [varint]; simp [h]

theorem demo_bytes : encode demo = [4, 255, 0, 0, 50, 3, 100, 8, 0, 0, 255, 100, 21, 5, 2, 25, 10, 50, 5, 80, 5, 20, 130] := by
  simp only [encode, demo, List.map, Cmd.bytes, List.flatten, varint_small 50 (by decide), varint_small 100 (by decide),
    varint_small 25 (by decide), varint_small 5 (by decide)]
  decide

theorem demo_wf : WF demo := by
  refine ⟨?_, by decide, by rw [demo_bytes]; decide, by decide⟩
  intro c hc
  simp only [demo, List.mem_cons, List.mem_nil_iff, or_false] at hc
  rcases hc with rfl | rfl | rfl | rfl | rfl | rfl | rfl | rfl <;> simp [Cmd.ok, Enc.fits]

example : timeAt demo 1 = 1000 ∧ timeAt demo 2 = 2000 ∧ timeAt demo 3 = 4000 ∧ timeAt demo 5 = 4500 ∧ timeAt demo 7 = 5600 ∧ pyroAt demo 8 = 7 := by decide
/-- half-way through the fade: (127, 0, 127) -/
example : specColour demo 3 3000 = (127, 0, 127) := by decide +kernel

end Sb.C02
