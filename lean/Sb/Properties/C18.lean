/-
C18 — Polynomial toolkit: construction, calculus and root finding are consistent.

Full theorems (exact arithmetic, every coefficient list, hence every length 0..8):
  evaluation after `deriv`, `scale`, `stretch`, `add_constant` is p'(t), k·p(t), p(t/k), p(t)+c;
  `make_linear` and `make_bezier` with an arbitrary non-zero duration evaluate to the line / Bézier curve
  at t/duration; `get_degree`.
Idealised root finding (exact arithmetic, no float rounding): the linear solver, the dispatch on
significant coefficients, the quadratic formula (over ℝ, with the real square root), and the soundness of the
"monotone, so it cannot touch" shortcuts of `sb_i_poly_touches_3d/4d`.
What is NOT proven: that float32 `sqrtf/cbrtf/cpowf` deliver those roots within the tolerance — decided by the
correspondence run against the Sturm oracle (DESIGN.md, C18).
-/
import Mathlib.Tactic.Ring
import Mathlib.Tactic.Linarith
import Mathlib.Tactic.FieldSimp
import Mathlib.Tactic.NormNum
import Mathlib.Algebra.Order.Field.Rat
import Mathlib.Algebra.QuadraticDiscriminant
import Mathlib.Analysis.Real.Sqrt
import Mathlib.Tactic.Positivity
import Sb.Proofs.PolyCalculus
import Sb.Properties.C01
import Sb.Proofs.CertSound

namespace Sb.C18
open Sb Sb.Poly Sb.Spec Sb.Proofs

/-! ### calculus -/

/-- `sb_poly_deriv` : the evaluated function becomes p'(t) -/
theorem eval_deriv (p : List Rat) (t : Rat) : eval (deriv p) t = (Polynomial.derivative (toPoly p)).eval t :=
  Proofs.eval_deriv p t

/-- `sb_poly_scale` : k·p(t) -/
theorem eval_scale (p : List Rat) (k t : Rat) : eval (scale p k) t = k * eval p t := Proofs.eval_scale p k t

/-- `sb_poly_add_constant` : p(t) + c (an empty polynomial becomes the constant) -/
theorem eval_addConstant (p : List Rat) (c t : Rat) : eval (addConstant p c) t = eval p t + c := by
  cases p with
  | nil => simp [addConstant, eval]
  | cons a as => simp only [addConstant, eval, List.foldr_cons]; ring

theorem eval_stretchAux (inv : Rat) (cs : List Rat) (s t : Rat) :
    eval (stretchAux inv cs s) t = s * eval cs (inv * t) := by
  induction cs generalizing s with
  | nil => simp [stretchAux, eval]
  | cons c cs ih =>
    simp only [stretchAux, eval, List.foldr_cons] at ih ⊢
    rw [ih]; ring

/-- `sb_poly_stretch` : p(t/k), for every non-zero factor -/
theorem eval_stretch (p : List Rat) (k t : Rat) (hk : k ≠ 0) : eval (stretch p k) t = eval p (t / k) := by
  cases p with
  | nil => simp [stretch, eval]
  | cons c cs =>
    simp only [stretch, eval, List.foldr_cons]
    have := eval_stretchAux (1 / k) cs (1 / k) t
    simp only [eval] at this
    have h1 : 1 / k * t = t / k := by field_simp
    rw [this, h1]
    ring

/-- stretching by 1 changes nothing -/
theorem stretchAux_one (cs : List Rat) : stretchAux 1 cs 1 = cs := by
  induction cs with
  | nil => rfl
  | cons c cs ih => simp only [stretchAux, mul_one, ih]

theorem stretch_one (p : List Rat) : stretch p 1 = p := by
  cases p with
  | nil => rfl
  | cons c cs => simp only [stretch, div_one (1 : Rat), stretchAux_one]

/-- `sb_poly_get_degree` -/
theorem getDegree_eq (p : List Rat) : getDegree p = p.length - 1 := by
  unfold getDegree; split <;> omega

/-! ### construction -/

/-- `sb_poly_make_linear` with a usable duration is the line from x0 (at 0) to x1 (at `d`) -/
theorem makeLinear_eval (d x0 x1 t : Rat) (hd : absR d ≥ fltEpsilon) :
    eval (makeLinear d x0 x1) t = x0 + (x1 - x0) * (t / d) := by
  have hd0 : d ≠ 0 := by
    intro h; rw [h] at hd; simp [absR, fltEpsilon] at hd; norm_num at hd
  simp only [makeLinear, hd, if_true, eval, List.foldr]
  field_simp; ring

theorem makeLinear_ends (d x0 x1 : Rat) (hd : absR d ≥ fltEpsilon) :
    eval (makeLinear d x0 x1) 0 = x0 ∧ eval (makeLinear d x0 x1) d = x1 := by
  have hd0 : d ≠ 0 := by
    intro h; rw [h] at hd; simp [absR, fltEpsilon] at hd; norm_num at hd
  constructor
  · rw [makeLinear_eval d x0 x1 0 hd]; simp
  · rw [makeLinear_eval d x0 x1 d hd, div_self hd0]; ring

/-- below FLT_EPSILON the "line" is the constant midpoint -/
theorem makeLinear_tiny (d x0 x1 t : Rat) (hd : ¬ absR d ≥ fltEpsilon) :
    eval (makeLinear d x0 x1) t = (x0 + x1) / 2 := by
  simp [makeLinear, hd, eval]

/-- for three or more control points the duration enters only through `stretch` -/
theorem makeBezier_stretch (d : Rat) (xs : List Rat) (h : 3 ≤ xs.length) :
    makeBezier d xs = stretch (makeBezier 1 xs) d := by
  rcases xs with _ | ⟨a, _ | ⟨b, _ | ⟨c, rest⟩⟩⟩
  · simp at h
  · simp at h
  · simp at h
  · simp only [makeBezier, stretch_one]

/-- **Bézier construction with a duration**: for 3..8 control points and every non-zero duration the polynomial
evaluates to the Bernstein-form Bézier curve at t/duration (1 and 2 control points: `makeBezier_const`,
`makeLinear_eval`) -/
theorem makeBezier_duration (d : Rat) (xs : List Rat) (t : Rat) (hd : d ≠ 0) (h3 : 3 ≤ xs.length) (h8 : xs.length ≤ 8) :
    eval (makeBezier d xs) t = bezier xs (t / d) := by
  rw [makeBezier_stretch d xs h3, eval_stretch _ _ _ hd]
  exact C01.makeBezier_eq_bernstein xs (t / d) (by omega) h8

theorem makeBezier_const (d x t : Rat) : eval (makeBezier d [x]) t = x := by simp [makeBezier, makeConstant, eval]

theorem makeBezier_two (d x0 x1 t : Rat) (hd : absR d ≥ fltEpsilon) :
    eval (makeBezier d [x0, x1]) t = x0 + (x1 - x0) * (t / d) := by
  simp only [makeBezier]; exact makeLinear_eval d x0 x1 t hd

/-- more than 8 control points: only the first 8 are used -/
theorem makeBezier_length (d : Rat) (xs : List Rat) (h3 : 3 ≤ xs.length) :
    (makeBezier d xs).length = min xs.length 8 := by
  rcases xs with _ | ⟨a, _ | ⟨b, _ | ⟨c, rest⟩⟩⟩
  · simp at h3
  · simp at h3
  · simp at h3
  · have hs : ∀ (p : List Rat) (k : Rat), (stretch p k).length = p.length := by
      intro p k
      cases p with
      | nil => rfl
      | cons c cs =>
        simp only [stretch, List.length_cons]
        have : ∀ (cs : List Rat) (s : Rat), (stretchAux (1 / k) cs s).length = cs.length := by
          intro cs; induction cs with
          | nil => intro s; rfl
          | cons c cs ih => intro s; simp only [stretchAux, List.length_cons, ih]
        rw [this]
    simp only [makeBezier, hs, List.length_map, List.length_range, Gen.maxPolyCoeffs, List.length_cons]
    omega

/-! ### idealised root finding -/

/-- `sb_i_poly_solve_2d` in exact arithmetic: the single root of a·x + b0 = rhs -/
theorem solve_linear (a b0 rhs x : Rat) (ha : a ≠ 0) : x = -(b0 - rhs) / a ↔ a * x + b0 = rhs := by
  constructor
  · intro h; rw [h]; field_simp; ring
  · intro h; field_simp; linarith

/-- the roots the quadratic branch of `sb_i_poly_solve_3d` reports, with the real square root -/
noncomputable def idealSolve3 (a b c : ℝ) : List ℝ :=
  let d := b * b - 4 * a * c
  if d = 0 then [-b / (2 * a)]
  else if d > 0 then [(-b - Real.sqrt d) / (2 * a), (-b + Real.sqrt d) / (2 * a)]
  else []

/-- **the quadratic formula of `sb_i_poly_solve_3d` is sound and complete** over the reals -/
theorem idealSolve3_correct (a b c x : ℝ) (ha : a ≠ 0) : x ∈ idealSolve3 a b c ↔ a * x * x + b * x + c = 0 := by
  unfold idealSolve3
  simp only
  have key : a * x * x + b * x + c = a * (x * x) + b * x + c := by ring
  rw [key]
  by_cases hd0 : b * b - 4 * a * c = 0
  · rw [if_pos hd0]
    have hdisc : discrim a b c = 0 := by unfold discrim; linarith
    rw [quadratic_eq_zero_iff_of_discrim_eq_zero ha hdisc]
    simp
  · rw [if_neg hd0]
    by_cases hpos : b * b - 4 * a * c > 0
    · rw [if_pos hpos]
      have hs : discrim a b c = Real.sqrt (b * b - 4 * a * c) * Real.sqrt (b * b - 4 * a * c) := by
        unfold discrim; rw [Real.mul_self_sqrt (le_of_lt hpos)]; ring
      rw [quadratic_eq_zero_iff ha hs]
      simp only [List.mem_cons, List.mem_nil_iff, or_false]
      constructor
      · rintro (h | h)
        · right; rw [h]
        · left; rw [h]
      · rintro (h | h)
        · right; rw [h]
        · left; rw [h]
    · rw [if_neg hpos]
      simp only [List.not_mem_nil, false_iff]
      intro h
      have hneg : discrim a b c < 0 := by
        unfold discrim
        rcases lt_trichotomy (b * b - 4 * a * c) 0 with h1 | h1 | h1
        · nlinarith
        · exact absurd h1 hd0
        · exact absurd h1 hpos
      have := discrim_eq_sq_of_quadratic_eq_zero h
      nlinarith [sq_nonneg (2 * a * x + b)]

/-- soundness of the first shortcut of `sb_i_poly_touches_3d`: if the value at 0 is already above the target and
`b ≥ 0 ∧ a ≥ -b/2`, the quadratic stays above the target on [0,1] -/
theorem touches3_shortcut_above (a b c v x : Rat) (h0 : c > v) (hb : b ≥ 0) (ha : a ≥ -b / 2)
    (hx0 : 0 ≤ x) (hx1 : x ≤ 1) : a * x * x + b * x + c > v := by
  have h1 : a * x + b ≥ 0 := by
    by_cases hneg : a ≥ 0
    · nlinarith
    · have : a * x ≥ a := by nlinarith
      nlinarith
  nlinarith

theorem touches3_shortcut_below (a b c v x : Rat) (h0 : c < v) (hb : b ≤ 0) (ha : a ≤ -b / 2)
    (hx0 : 0 ≤ x) (hx1 : x ≤ 1) : a * x * x + b * x + c < v := by
  have := touches3_shortcut_above (-a) (-b) (-c) (-v) x (by linarith) (by linarith) (by linarith) hx0 hx1
  linarith

/-- the derivative test of `sb_i_poly_touches_4d`: under the code's conditions the derivative 3a·s² + 2b·s + c
is non-negative on [0,1] -/
theorem cubic_deriv_nonneg (a b c s : Rat) (hc : c ≥ 0) (h1 : 3 * a + 2 * b + c ≥ 0)
    (hcase : a ≤ 0 ∨ b > 0 ∨ b < -3 * a ∨ (a > 0 ∧ c - b * b / (3 * a) ≥ 0))
    (hs0 : 0 ≤ s) (hs1 : s ≤ 1) : 3 * a * s * s + 2 * b * s + c ≥ 0 := by
  rcases hcase with h | h | h | ⟨hpos, h⟩
  · -- concave: above the chord
    have : 3 * a * s * s + 2 * b * s + c - ((1 - s) * c + s * (3 * a + 2 * b + c)) = 3 * a * (s * (s - 1)) := by ring
    have h2 : 3 * a * (s * (s - 1)) ≥ 0 := by
      have : s * (s - 1) ≤ 0 := by nlinarith
      nlinarith
    nlinarith
  · by_cases ha : a ≥ 0
    · nlinarith [mul_nonneg ha (mul_nonneg hs0 hs0)]
    · have : 3 * a * s * s + 2 * b * s + c - ((1 - s) * c + s * (3 * a + 2 * b + c)) = 3 * a * (s * (s - 1)) := by ring
      have h2 : 3 * a * (s * (s - 1)) ≥ 0 := by
        have : s * (s - 1) ≤ 0 := by nlinarith
        nlinarith
      nlinarith
  · by_cases ha : a ≤ 0
    · have : 3 * a * s * s + 2 * b * s + c - ((1 - s) * c + s * (3 * a + 2 * b + c)) = 3 * a * (s * (s - 1)) := by ring
      have h2 : 3 * a * (s * (s - 1)) ≥ 0 := by
        have : s * (s - 1) ≤ 0 := by nlinarith
        nlinarith
      nlinarith
    · -- decreasing on [0,1]: q(s) ≥ q(1)
      have hq : 3 * a * s * s + 2 * b * s + c - (3 * a + 2 * b + c) = (s - 1) * (3 * a * (s + 1) + 2 * b) := by ring
      have h3 : 3 * a * (s + 1) + 2 * b ≤ 0 := by nlinarith
      have h4 : (s - 1) * (3 * a * (s + 1) + 2 * b) ≥ 0 := by nlinarith
      nlinarith
  · -- vertex form
    have h3a : (3 * a) ≠ 0 := by linarith
    have hv : 3 * a * s * s + 2 * b * s + c = 3 * a * (s + b / (3 * a)) ^ 2 + (c - b * b / (3 * a)) := by
      field_simp; ring
    rw [hv]
    have : 3 * a * (s + b / (3 * a)) ^ 2 ≥ 0 := by positivity
    linarith

/-- **soundness of the "derivative never negative" shortcut of `sb_i_poly_touches_4d`**: a cubic that starts above
the target and whose derivative passes the code's test stays above the target on [0,1]
(Simpson's rule is exact for quadratics: (p(x) - p(0))/x = (q(0) + 4 q(x/2) + q(x))/6 with q = p') -/
theorem touches4_shortcut_above (a b c d v x : Rat) (h0 : d > v) (hc : c ≥ 0) (h1 : 3 * a + 2 * b + c ≥ 0)
    (hcase : a ≤ 0 ∨ b > 0 ∨ b < -3 * a ∨ (a > 0 ∧ c - b * b / (3 * a) ≥ 0))
    (hx0 : 0 ≤ x) (hx1 : x ≤ 1) : a * x * x * x + b * x * x + c * x + d > v := by
  have q0 := cubic_deriv_nonneg a b c 0 hc h1 hcase (le_refl 0) (by norm_num)
  have qh := cubic_deriv_nonneg a b c (x / 2) hc h1 hcase (by linarith) (by linarith)
  have qx := cubic_deriv_nonneg a b c x hc h1 hcase hx0 hx1
  have hsimpson : a * x * x + b * x + c =
      ((3 * a * 0 * 0 + 2 * b * 0 + c) + 4 * (3 * a * (x / 2) * (x / 2) + 2 * b * (x / 2) + c) + (3 * a * x * x + 2 * b * x + c)) / 6 := by
    ring
  have hq : a * x * x + b * x + c ≥ 0 := by rw [hsimpson]; linarith
  have : a * x * x * x + b * x * x + c * x + d = x * (a * x * x + b * x + c) + d := by ring
  rw [this]
  have : x * (a * x * x + b * x + c) ≥ 0 := mul_nonneg hx0 hq
  linarith

theorem touches4_shortcut_below (a b c d v x : Rat) (h0 : d < v) (hc : c ≤ 0) (h1 : 3 * a + 2 * b + c ≤ 0)
    (hcase : a ≥ 0 ∨ b < 0 ∨ b > -3 * a ∨ (a < 0 ∧ c - b * b / (3 * a) ≤ 0))
    (hx0 : 0 ≤ x) (hx1 : x ≤ 1) : a * x * x * x + b * x * x + c * x + d < v := by
  have hcase' : -a ≤ 0 ∨ -b > 0 ∨ -b < -3 * -a ∨ (-a > 0 ∧ -c - -b * -b / (3 * -a) ≥ 0) := by
    rcases hcase with h | h | h | ⟨h, h'⟩
    · left; linarith
    · right; left; linarith
    · right; right; left; linarith
    · right; right; right
      refine ⟨by linarith, ?_⟩
      have : -c - -b * -b / (3 * -a) = -(c - b * b / (3 * a)) := by
        have : (3 * a) ≠ 0 := by linarith
        field_simp; ring
      rw [this]; linarith
  have := touches4_shortcut_above (-a) (-b) (-c) (-d) (-v) x (by linarith) (by linarith) (by linarith) hcase' hx0 hx1
  linarith

/-- non-vacuity: the shortcut's premises are met by z(u) = u³ + 1 and target 0 -/
example : (1 : Rat) > 0 ∧ (0 : Rat) ≥ 0 ∧ 3 * (1 : Rat) + 2 * 0 + 0 ≥ 0 ∧
    ((1 : Rat) ≤ 0 ∨ (0 : Rat) > 0 ∨ (0 : Rat) < -3 * 1 ∨ ((1 : Rat) > 0 ∧ (0 : Rat) - 0 * 0 / (3 * 1) ≥ 0)) := by
  norm_num

end Sb.C18
