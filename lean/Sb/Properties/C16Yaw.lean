/-
C16 — "yaw within a tenth of a degree modulo 360".

`yawDec a` is the angle the format specification reads from the two bytes the builder writes for the yaw `a`
(`(int16_t)(fmodf(a, 360) * 10.0f)`, plus 3600 when negative; read back as tenths of a degree reduced to [0, 360)).
This file proves that it differs from `a` by a whole number of turns and at most a tenth of a degree — for every
rational (hence every finite binary32) `a`, float rounding of `* 10.0f` included: truncating the correctly rounded
product is within one unit of the exact product (`floor_round_within_one`).
-/
import Sb.Properties.C16RoundTrip

namespace Sb.C16
open Sb Sb.Builder Sb.Parsing Sb.Poly Sb.Spec Sb.Proofs

/-- C `fmodf(a, 360)`: a whole number of turns away from `a`, strictly inside (−360, 360) -/
theorem fmod360_spec (a : Rat) : ∃ t : Int, fmod360 a = a - 360 * (t : Rat) ∧ |fmod360 a| < 360 := by
  unfold fmod360
  simp only
  by_cases hq : a / 360 < 0
  · simp only [hq, if_true]
    refine ⟨_, rfl, ?_⟩
    have h1 := Rat.floor_le (-(a / 360))
    have h2 := Rat.lt_floor_add_one (-(a / 360))
    push_cast at h2 ⊢
    rw [abs_lt]
    constructor <;> linarith
  · simp only [hq, if_false]
    refine ⟨_, rfl, ?_⟩
    have h1 := Rat.floor_le (a / 360)
    have h2 := Rat.lt_floor_add_one (a / 360)
    push_cast at h2
    rw [abs_lt]
    constructor <;> linarith

/-- truncating (towards zero) the correctly rounded value of `y` is within one unit of `y` -/
theorem trunc_round_within_one (y : Rat) (hy : |y| ≤ 16777215) :
    let v := roundF32 y
    let T : Int := if v < 0 then -((-v).floor) else v.floor
    |(T : Rat) - y| ≤ 1 := by
  intro v T
  rcases le_or_gt 0 y with h0 | h0
  · have hv : 0 ≤ v := roundF32_nonneg y h0
    have hT : T = v.floor := by simp only [T, not_lt.mpr hv, if_false]
    obtain ⟨h1, h2, _, _⟩ := floor_round_within_one y hy
    rw [hT, abs_le]
    constructor <;> linarith
  · have hneg : v = -roundF32 (-y) := roundF32_neg y h0
    have hy' : |(-y)| ≤ 16777215 := by rwa [abs_neg]
    obtain ⟨h1, h2, _, _⟩ := floor_round_within_one (-y) hy'
    have hw : 0 ≤ roundF32 (-y) := roundF32_nonneg (-y) (by linarith)
    by_cases hv : v < 0
    · have hT : T = -((-v).floor) := by simp only [T, hv, if_true]
      have : -v = roundF32 (-y) := by rw [hneg]; ring
      rw [hT, this, abs_le]
      push_cast
      constructor <;> linarith
    · have hv0 : roundF32 (-y) = 0 := by
        have : 0 ≤ v := not_lt.mp hv
        rw [hneg] at this
        linarith
      have hT : T = v.floor := by simp only [T, hv, if_false]
      have hvz : v = 0 := by rw [hneg, hv0]; ring
      have hfl : (0 : ℚ).floor = 0 := by simpa using Rat.floor_intCast 0
      rw [hT, hvz, hfl, abs_le]
      rw [hv0, hfl] at h2
      push_cast at h2 ⊢
      constructor <;> linarith

/-- **the stored yaw is the yaw given, up to whole turns and at most a tenth of a degree** -/
theorem yawDec_within_tenth (a : Rat) : ∃ k : Int, |yawDec a - (a - 360 * (k : Rat))| ≤ 1 / 10 := by
  obtain ⟨t, hx, hxabs⟩ := fmod360_spec a
  have hy : |fmod360 a * 10| ≤ 16777215 := by
    rw [abs_mul]; have : |(10 : ℚ)| = 10 := abs_of_pos (by norm_num)
    rw [this]; have := abs_nonneg (fmod360 a); linarith
  have hT := trunc_round_within_one (fmod360 a * 10) hy
  simp only at hT
  -- the truncated value, as in `angleBytes`
  set v := roundF32 (fmod360 a * 10) with hvdef
  set T : Int := if v < 0 then -((-v).floor) else v.floor with hTdef
  have hTr : -3600 ≤ T ∧ T ≤ 3600 := by
    have h1 := abs_le.mp hT
    have h2 := abs_lt.mp hxabs
    have ha : (T : ℚ) < 3601 := by linarith
    have hb : (-3601 : ℚ) < (T : ℚ) := by linarith
    have ha' : T < 3601 := by exact_mod_cast ha
    have hb' : -3601 < T := by exact_mod_cast hb
    omega
  set t' : Int := if T < 0 then T + 3600 else T with ht'
  have ht'r : 0 ≤ t' ∧ t' ≤ 3600 := by
    simp only [ht']; split <;> omega
  have hbytes : angleBytes a = writeI16 t' := by
    unfold angleBytes rf
    simp only [← hvdef, ← hTdef, ← ht']
  obtain ⟨b0, b1, hw, hi⟩ := i16le_writeI16 t' (by omega) (by omega)
  have hdec : yawDec a = (((t' % 3600 : Int) : ℚ)) / 10 := by
    unfold yawDec
    rw [hbytes, hw]
    simp only [angleOf, hi]
  -- t' % 3600 = T + 3600 j
  obtain ⟨j, hj⟩ : ∃ j : Int, t' % 3600 = T + 3600 * j := by
    by_cases hneg : T < 0
    · have : t' = T + 3600 := by simp only [ht', hneg, if_true]
      refine ⟨1, ?_⟩
      rw [this]; omega
    · have : t' = T := by simp only [ht', hneg, if_false]
      by_cases h36 : T = 3600
      · exact ⟨-1, by rw [this, h36]; decide⟩
      · exact ⟨0, by rw [this]; omega⟩
  refine ⟨t - j, ?_⟩
  rw [hdec, hj]
  have hx' : a = fmod360 a + 360 * (t : ℚ) := by rw [hx]; ring
  have e : (((T + 3600 * j : Int) : ℚ)) / 10 - (a - 360 * (((t - j : Int)) : ℚ)) = ((T : ℚ) - fmod360 a * 10) / 10 := by
    push_cast
    rw [hx]
    ring
  rw [e, abs_div]
  have : |(10 : ℚ)| = 10 := abs_of_pos (by norm_num)
  rw [this]
  have := hT
  rw [div_le_div_iff_of_pos_right (by norm_num : (0 : ℚ) < 10)]
  exact this

/-- **C16 as stated, yaw included**: at the cumulative time of a successful `append_line` to `t` lasting ≥ 1 ms the
finished trajectory is within one quantum of `t` on every coordinate and within a tenth of a degree of `t.yaw` modulo
360, whatever calls precede and follow. -/
theorem passes_through_appendLine_tenth (sc fl : Nat) (b0 : Builder) (hi : init sc fl = .ok b0)
    (pre post : List Call) (t : Vec4) (ms : Nat) (b2 : Builder)
    (hpre : ∀ c ∈ pre, c.timed = true ∧ c.inRange = true) (hpost : ∀ c ∈ post, c.timed = true ∧ c.inRange = true)
    (hms : 1 ≤ ms) (hms2 : ms < 4294967296) (hok : Builder.appendLine (pre.foldl applyCall b0) t ms = .ok b2) :
    let b := post.foldl applyCall b2
    let T := askedMs b0 pre + ms
    ∃ hdr segs, segmentsOf (finish b).1 = some (hdr, segs) ∧
      |(posAt segs hdr.start 0 ((T : Rat) / 1000)).x - t.x| ≤ sc ∧
      |(posAt segs hdr.start 0 ((T : Rat) / 1000)).y - t.y| ≤ sc ∧
      |(posAt segs hdr.start 0 ((T : Rat) / 1000)).z - t.z| ≤ sc ∧
      ∃ k : Int, |(posAt segs hdr.start 0 ((T : Rat) / 1000)).yaw - (t.yaw - 360 * (k : Rat))| ≤ 1 / 10 := by
  intro b T
  obtain ⟨hdr, segs, h1, h2, h3, h4, h5⟩ := passes_through_appendLine sc fl b0 hi pre post t ms b2 hpre hpost hms hms2 hok
  obtain ⟨k, hk⟩ := yawDec_within_tenth t.yaw
  exact ⟨hdr, segs, h1, h2, h3, h4, k, by rw [h5]; exact hk⟩

/-- non-vacuity: 359.96 is stored as 359.9; −45 as 315 -/
example : yawDec (8999 / 25) = 3599 / 10 ∧ yawDec (-45) = 315 := by decide +kernel

end Sb.C16
